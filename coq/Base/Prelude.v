(* Shared vocabulary of all models: outcomes of Python calls as data, time as integer
   microseconds, a few list helpers.  No proofs of properties here. *)
From Coq Require Export ZArith List Bool Lia.
Export ListNotations.
Open Scope Z_scope.

(* Python exceptions other than RuntimeError are crashes, RuntimeError is a diagnosis. *)
Inductive crash_kind :=
| RecursionError | KeyError | TypeError | ValueError | IndexError
| ZeroDivisionError | StopIteration | AttributeError | OutOfFuel.

Inductive res (A : Type) :=
| Ok (a : A)
| Err                      (* RuntimeError raised by the library *)
| Crash (k : crash_kind).  (* any other exception / fuel exhausted *)
Arguments Ok {A} a.
Arguments Err {A}.
Arguments Crash {A} k.

Definition bind {A B} (r : res A) (f : A -> res B) : res B :=
  match r with Ok a => f a | Err => Err | Crash k => Crash k end.
Notation "'do' x <- r ; k" := (bind r (fun x => k)) (at level 200, x name, r at level 100, k at level 200).
Notation "'do' ' p <- r ; k" := (bind r (fun x => let 'p := x in k)) (at level 200, p pattern, r at level 100, k at level 200).

Definition is_ok {A} (r : res A) : bool := match r with Ok _ => true | _ => false end.

Definition crash_code (k : crash_kind) : nat :=
  match k with
  | RecursionError => 10 | KeyError => 11 | TypeError => 12 | ValueError => 13 | IndexError => 14
  | ZeroDivisionError => 15 | StopIteration => 16 | AttributeError => 17 | OutOfFuel => 18
  end%nat.

(* outcome class of a call: 0 returned, 1 RuntimeError, >= 10 crash *)
Definition outcome_code {A} (r : res A) : nat :=
  match r with Ok _ => 0 | Err => 1 | Crash k => crash_code k end%nat.

(* ---- time: naive datetimes as microseconds since 1970-01-01T00:00 ---- *)
Definition DAY : Z := 86400000000.
Definition day_of (t : Z) : Z := t / DAY.                 (* floor *)
Definition day_start (t : Z) : Z := DAY * (t / DAY).
Definition time_of_day (t : Z) : Z := t mod DAY.
Definition weekday_of_day (d : Z) : Z := (d + 3) mod 7.   (* 1970-01-01 was a Thursday = 3 *)
Definition weekday (t : Z) : Z := weekday_of_day (day_of t).

(* ---- option / list helpers ---- *)
Definition opt_eqb {A} (eqb : A -> A -> bool) (a b : option A) : bool :=
  match a, b with
  | None, None => true
  | Some x, Some y => eqb x y
  | _, _ => false
  end.

Fixpoint list_eqb {A} (eqb : A -> A -> bool) (a b : list A) : bool :=
  match a, b with
  | [], [] => true
  | x :: a', y :: b' => eqb x y && list_eqb eqb a' b'
  | _, _ => false
  end.

Lemma list_eqb_spec {A} (eqb : A -> A -> bool) :
  (forall x y, eqb x y = true <-> x = y) ->
  forall a b, list_eqb eqb a b = true <-> a = b.
Proof.
  intros H a; induction a as [|x a IH]; intros [|y b]; simpl; split; intro E; try easy.
  - apply andb_true_iff in E as [E1 E2]. apply H in E1. apply IH in E2. congruence.
  - inversion E; subst. apply andb_true_iff; split; [apply H | apply IH]; reflexivity.
Qed.

Lemma opt_eqb_spec {A} (eqb : A -> A -> bool) :
  (forall x y, eqb x y = true <-> x = y) ->
  forall a b, opt_eqb eqb a b = true <-> a = b.
Proof.
  intros H [x|] [y|]; simpl; split; intro E; try easy.
  - apply H in E; congruence.
  - inversion E; subst; apply H; reflexivity.
Qed.

Definition zlist_eqb := list_eqb Z.eqb.
Definition zopt_eqb := opt_eqb Z.eqb.

Lemma day_start_le t : day_start t <= t.
Proof. unfold day_start, DAY. pose proof (Z.mul_div_le t 86400000000). lia. Qed.

Lemma day_start_lt t : t < day_start t + DAY.
Proof.
  unfold day_start, DAY.
  pose proof (Z.mod_pos_bound t 86400000000).
  pose proof (Z.div_mod t 86400000000). lia.
Qed.

Lemma day_of_day_start d : day_of (DAY * d) = d.
Proof. unfold day_of, DAY. rewrite Z.mul_comm, Z.div_mul; lia. Qed.

Lemma day_of_mono a b : a <= b -> day_of a <= day_of b.
Proof. intro H. unfold day_of, DAY. apply Z.div_le_mono; lia. Qed.
