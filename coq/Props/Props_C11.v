(* C11 - "At every moment a task reports WBS X as its owner exactly when it is reachable from X's root tasks (it
   appears in X.tasks); this holds for whole subtrees when they are adopted, moved or removed.  A task removed
   from a WBS (by remove, remove_all, list removal or by being left out of a children/roots assignment) reports
   no owner, no longer appears in the WBS, and can be attached to another WBS."

   Statement file; proofs in Graph/C11Proofs.v (on top of C01: Graph/StepProofs.v).
   released s t : WF s, t is a task, nothing in the subtree of t has an owner or appears in the tasks of a WBS,
   and the ownership clause of the parent setter ("Parent must be from same WBS", own_guard) accepts ANY new
   parent for t.  (Whether a later attachment is accepted then depends only on the other guards - ids, cycles,
   links - as for any detached task.) *)
From PJ Require Import Base.Prelude Graph.Model Graph.Invariant Graph.AncLemmas Graph.LinksProofs Graph.ParentProofs
  Graph.ChildrenOps Graph.OracleProofs Graph.StepProofs Graph.C05Proofs Graph.C11Proofs.
Local Open Scope nat_scope.

(* ---- the truth of Task.wbs ---- *)
Theorem C11_truth : forall s t w, WF s -> pub s t ->
  (own (get (hp s) t) = Some w <-> w < length (wroots s) /\ exists l, wbs_tasks s w = Ok l /\ In t l).
Proof. exact C11Proofs.own_truth. Qed.

Theorem C11_truth_list : forall s t w l, WF s -> pub s t -> w < length (wroots s) -> wbs_tasks s w = Ok l ->
  (own (get (hp s) t) = Some w <-> In t l).
Proof. exact C11Proofs.own_truth_list. Qed.

Theorem C11_reach : forall ops, pub_run init ops ->
  let s := run init ops in
  forall t w, pub s t ->
    (own (get (hp s) t) = Some w <-> w < length (wroots s) /\ exists l, wbs_tasks s w = Ok l /\ In t l).
Proof. exact C11Proofs.reach_C11. Qed.

(* the owner is the same along every parent chain: whole subtrees *)
Theorem C11_whole_subtree : forall s t x, WF s -> Sub (hp s) t x -> own (get (hp s) x) = own (get (hp s) t).
Proof. exact C11Proofs.own_Sub. Qed.

(* ---- adoption / move: own changes in exactly the moved subtree ---- *)
(* t.parent = p (also children.append / insert, roots.append): outside the subtree of t nothing changes; inside,
   every task gets the owner of the parent actually written (None when that parent is unowned or absent) *)
Theorem C11_subtree : forall s t p s',
  WF s -> pub s t -> step s (SetParent t p) = (s', OK) ->
  let h := hp s in
  let h' := hp s' in
  (forall x, ~ Sub h t x -> own (get h' x) = own (get h x)) /\
  (forall x, Sub h t x -> x < length h ->
     own (get h' x) = match eff_par s t p with Some p' => own (get h p') | None => None end).
Proof. exact C11Proofs.subtree_set_parent. Qed.

(* t.children = vs / wbs.roots = vs: the subtrees of the adopted tasks get the owner of t, the subtrees of the
   released ones lose theirs, every other task keeps its owner *)
Theorem C11_subtree_children : forall s t vs s',
  WF s -> t < length (hp s) -> (forall v, In (Some v) vs -> v < length (hp s)) ->
  set_children s t vs = (s', OK) ->
  let h := hp s in
  let adopted x := exists v, In (Some v) vs /\ Sub h v x in
  let released x := exists c, In c (kids (get h t)) /\ ~ In (Some c) vs /\ Sub h c x in
  forall x,
    (adopted x -> forall w, own (get h t) = Some w -> own (get (hp s') x) = Some w) /\
    (released x -> ~ (adopted x /\ own (get h t) <> None) -> own (get (hp s') x) = None) /\
    (~ adopted x -> ~ released x -> own (get (hp s') x) = own (get h x)).
Proof. exact ChildrenProofs.set_children_effect_own. Qed.

(* ---- removal paths ---- *)
Theorem C11_released_meaning : forall s t, released s t <->
  WF s /\ pub s t /\
  (forall x, Sub (hp s) t x -> own (get (hp s) x) = None) /\
  (forall x w l, w < length (wroots s) -> Sub (hp s) t x -> wbs_tasks s w = Ok l -> ~ In x l) /\
  (forall p, own_guard s t p = OK).
Proof. exact C11Proofs.released_iff. Qed.

(* the ownership clause is the one that rejects cross-WBS attachment *)
Theorem C11_own_guard_is_the_clause : forall s t p, own_guard s t p <> OK -> set_parent_guard s t p = Err.
Proof. exact ChildrenOps.set_parent_guard_own_clause. Qed.

(* any detached task is released (the invariant leaves no stale owner behind) *)
Theorem C11_detached : forall s t, WF s -> pub s t -> par (get (hp s) t) = None -> released s t.
Proof. exact C11Proofs.detached_released. Qed.

(* children.remove(t) / roots.remove(t): always accepted on a well-formed state *)
Theorem C11_removed_list : forall s o t,
  WF s -> In t (kids (get (hp s) o)) ->
  let s' := fst (ch_remove s o (Some t)) in
  snd (ch_remove s o (Some t)) = OK /\ released s' t /\ par (get (hp s') t) = None /\
  ~ In t (kids (get (hp s') o)) /\
  (forall x, In x (subtree (hp s) t) -> own (get (hp s') x) = None).
Proof. exact C11Proofs.ch_remove_released. Qed.

(* WBS.remove(t) for a member anywhere in the WBS *)
Theorem C11_removed_wbs : forall s w t,
  WF s -> member s w t ->
  let s' := fst (wbs_remove s w (Some t)) in
  snd (wbs_remove s w (Some t)) = OK /\ released s' t /\ par (get (hp s') t) = None /\
  (forall x, In x (subtree (hp s) t) -> own (get (hp s') x) = None).
Proof. exact C11Proofs.wbs_remove_released. Qed.

(* left out of a children / roots assignment *)
Theorem C11_removed_assignment : forall s t vs s' c,
  WF s -> t < length (hp s) -> pubs s vs -> set_children s t vs = (s', OK) ->
  In c (kids (get (hp s) t)) -> ~ In (Some c) vs ->
  released s' c /\ par (get (hp s') c) = None.
Proof. exact C11Proofs.set_children_released. Qed.

(* children.remove_all(id_in_=ids) / roots.remove_all: every matching child *)
Theorem C11_removed_list_all : forall s o ids c,
  WF s -> In c (kids (get (hp s) o)) -> In (tid (get (hp s) c)) ids ->
  let s' := fst (ch_remove_all s o ids) in
  snd (ch_remove_all s o ids) = OK /\ released s' c /\ par (get (hp s') c) = None.
Proof. exact C11Proofs.ch_remove_all_released. Qed.

(* WBS.remove_all(id_in_=ids): every matching member, at any depth (a matching task below another matching task
   leaves with it and keeps its parent, hence no "par = None" here) *)
Theorem C11_removed_wbs_all : forall s w ids c,
  WF s -> w < length (wroots s) -> member s w c -> In (tid (get (hp s) c)) ids ->
  let s' := fst (wbs_remove_all s w ids) in
  snd (wbs_remove_all s w ids) = OK /\ released s' c.
Proof. exact C11Proofs.wbs_remove_all_released. Qed.

(* ---- the oracle on snapshots ---- *)
Theorem C11_oracle : forall s, NoDup (wroots s) -> I_acy s -> (wf_own_b s = true <-> I_own s).
Proof. exact OracleProofs.wf_own_b_spec. Qed.

(* ---- non-vacuity ---- *)
Definition demo_ops : list op :=
  [NewWbs; NewTask 1%Z None [] None; NewTask 2%Z None [] None; NewTask 1%Z None [] None;
   ChAppend 0 (Some 1); SetParent 2 (Some 1); SetLinks true 3 [Some 2]].
Definition demo : state := run init demo_ops.

(* adoption gives the whole subtree the owner; removal takes it away from the whole subtree; the removed
   subtree can then be attached to a second WBS; every call is public, so every state is well-formed by C01 *)
Example C11_demo_owner :
  pub_run init (demo_ops ++ [WbsRemove 0 (Some 1); NewWbs; ChAppend 4 (Some 1)]) /\
  map (fun x => own (get (hp demo) x)) [1; 2; 3] = [Some 0; Some 0; None] /\
  (let s1 := fst (step demo (WbsRemove 0 (Some 1))) in
   map (fun x => own (get (hp s1) x)) [1; 2] = [None; None] /\ wbs_tasks s1 0 = Ok [] /\ wf_own_b s1 = true /\
   let s2 := fst (step s1 NewWbs) in
   let r := step s2 (ChAppend 4 (Some 1)) in
   outcome_code (snd r) = 0 /\ map (fun x => own (get (hp (fst r)) x)) [1; 2] = [Some 1; Some 1] /\ wf_own_b (fst r) = true).
Proof. vm_compute. repeat split; reflexivity. Qed.

(* the hypotheses of the removal theorems hold on the demo state: 1 is a root task of WBS 0, 2 a member below it *)
Example C11_demo_hypotheses :
  wf_b demo = true /\ In 1 (kids (get (hp demo) 0)) /\ wbs_tasks demo 0 = Ok [1; 2] /\
  map (fun o => outcome_code (snd (step demo o)))
      [ChRemove 0 (Some 1); WbsRemove 0 (Some 2); SetChildren 0 []; ChRemoveAll 0 [1%Z]; WbsRemoveAll 0 [2%Z; 1%Z]]
    = [0; 0; 0; 0; 0] /\
  map (fun o => map (fun x => own (get (hp (fst (step demo o))) x)) [1; 2])
      [ChRemove 0 (Some 1); WbsRemove 0 (Some 2); SetChildren 0 []; ChRemoveAll 0 [1%Z]; WbsRemoveAll 0 [2%Z; 1%Z]]
    = [[None; None]; [Some 0; None]; [None; None]; [None; None]; [None; None]].
Proof. vm_compute. repeat split; try reflexivity. left; reflexivity. Qed.

(* bulk children assignment with a free task 4: [2; 1].children = [4] is accepted - 2 adopts 4 (owner WBS 0), then 1
   takes 4 and releases 2, which loses its owner; [1; 2].children = [4] is rejected by the second element (2 was
   released by the first assignment and 4 belongs to the WBS by then): the call is undone, owners as before *)
Example C11_demo_bulk :
  let s := fst (step demo (NewTask 5%Z None [] None)) in
  (let r := step s (LstSetChildren [2; 1] [Some 4]) in
   pub_args s (LstSetChildren [2; 1] [Some 4]) = true /\ outcome_code (snd r) = 0 /\
   map (fun x => own (get (hp (fst r)) x)) [1; 2; 4] = [Some 0; None; Some 0] /\ wf_own_b (fst r) = true) /\
  (let r := step s (LstSetChildren [1; 2] [Some 4]) in
   outcome_code (snd r) = 1 /\ fst r = s /\ map (fun x => own (get (hp (fst r)) x)) [1; 2; 4] = [Some 0; Some 0; None] /\
   map (fun x => own (get (hp (fst (set_children s 1 [Some 4]))) x)) [1; 2; 4] = [Some 0; None; Some 0]).
Proof. vm_compute. repeat split; reflexivity. Qed.

(* wf_own_b is not trivially true: a removed task that kept its owner pointer (defect F5) *)
Example C11_stale_owner_rejected_by_wf_own_b :
  wf_own_b (mkS [mkT 9223372036854775807%Z None [] [] [] (Some 0) true None [] None;
                 mkT 1%Z None [] [] [] (Some 0) false None [] None] [0]) = false.
Proof. vm_compute. reflexivity. Qed.

(* ---- the tie to the source text: the owner of a subtree.  Task._attach(wbs) and Task._detach(), translated on every
   run from their current source text (gen/SrcGraph.v: recursion over the children with the heap threaded through), write
   the owner on exactly the tasks of the subtree - the model's [set_own_all] over [subtree] - in every well-formed state;
   _detach stops at a task without owner, and under the invariant nothing below such a task has one. *)
From PJ Require Import gen.SrcGraph Graph.SrcGraphEquiv3.

Theorem C11_src_attach : forall s t w, WF s ->
  src_attach (S (length (hp s))) (hp s) t (Some w) = Ok (set_own_all (hp s) (subtree (hp s) t) (Some w), tt).
Proof. exact src_attach_eq. Qed.

Theorem C11_src_detach : forall s t, WF s ->
  src_detach (S (length (hp s))) (hp s) t = Ok (set_own_all (hp s) (subtree (hp s) t) None, tt).
Proof. exact src_detach_eq. Qed.

Print Assumptions C11_truth.
Print Assumptions C11_truth_list.
Print Assumptions C11_reach.
Print Assumptions C11_whole_subtree.
Print Assumptions C11_subtree.
Print Assumptions C11_subtree_children.
Print Assumptions C11_released_meaning.
Print Assumptions C11_own_guard_is_the_clause.
Print Assumptions C11_detached.
Print Assumptions C11_removed_list.
Print Assumptions C11_removed_wbs.
Print Assumptions C11_removed_assignment.
Print Assumptions C11_removed_list_all.
Print Assumptions C11_removed_wbs_all.
Print Assumptions C11_oracle.
Print Assumptions C11_demo_owner.
Print Assumptions C11_demo_hypotheses.
Print Assumptions C11_demo_bulk.
Print Assumptions C11_stale_owner_rejected_by_wf_own_b.
Print Assumptions C11_src_attach.
Print Assumptions C11_src_detach.
