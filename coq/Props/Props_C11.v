(* C11 - PLACEHOLDER statement file (I_own preservation, C11_subtree, C11_removed are written by the proof
   task); computed facts about the model only. *)
From PJ Require Import Base.Prelude Graph.Model Graph.Invariant.
Local Open Scope nat_scope.

(* a concrete history: one WBS, three tasks (ids 1, 2, 1), task 2 below task 1 in the WBS, a dependency *)
Definition demo_ops : list op :=
  [NewWbs; NewTask 1%Z None [] None; NewTask 2%Z None [] None; NewTask 1%Z None [] None;
   ChAppend 0 (Some 1); SetParent 2 (Some 1); SetLinks true 3 [Some 2]].
Definition demo : state := run init demo_ops.
(* adoption gives the whole subtree the owner; removal takes it away from the whole subtree; the removed
   subtree can then be attached to a second WBS *)
Example C11_demo_owner :
  map (fun x => own (get (hp demo) x)) [1; 2; 3] = [Some 0; Some 0; None] /\
  (let s1 := fst (step demo (WbsRemove 0 (Some 1))) in
   map (fun x => own (get (hp s1) x)) [1; 2] = [None; None] /\ wbs_tasks s1 0 = Ok [] /\ wf_own_b s1 = true /\
   let s2 := fst (step s1 NewWbs) in
   let r := step s2 (ChAppend 4 (Some 1)) in
   outcome_code (snd r) = 0 /\ map (fun x => own (get (hp (fst r)) x)) [1; 2] = [Some 1; Some 1] /\ wf_own_b (fst r) = true).
Proof. vm_compute. repeat split; reflexivity. Qed.

(* wf_own_b is not trivially true: a removed task that kept its owner pointer (defect F5) *)
Example C11_stale_owner_rejected_by_wf_own_b :
  wf_own_b (mkS [mkT 9223372036854775807%Z None [] [] [] (Some 0) true None [] None;
                 mkT 1%Z None [] [] [] (Some 0) false None [] None] [0]) = false.
Proof. vm_compute. reflexivity. Qed.

Print Assumptions C11_demo_owner.
Print Assumptions C11_stale_owner_rejected_by_wf_own_b.
