(* C06 - Scheduling is pure and deterministic in WBS, resources, start and clock.
   Statement file: theorems closed by [exact], a non-vacuity Example, Print Assumptions below.

   What is a theorem and what is not.
   * Theorems (all WBSs satisfying WFin, all capacity functions, both schedulers where applicable):
     every task of a returned schedule has a start and an end and there is one observed entry per
     member (C06_dates_forward, C06_dates_backward); a forward result does not depend on the clock as long as the clock is
     not later than the project start (C06_clock, C06_clock_pass, C06_clock_outcome).
   * NOT theorems: "calc leaves the input WBS and its tasks exactly as they were", "the result is a
     separate WBS with the same ids, hierarchy, sibling order, links and attributes" and "repeating
     the call with equal inputs yields equal dates and usage rows".  In the model the input is a
     value and [forward]/[backward] are Gallina functions: these clauses hold of any such model by
     construction and say nothing about the Python code.  They are decided by the differential run
     alone (harness/props/c06.py): every case is executed on one scheduler object twice, on a fresh
     one, and (forward, clock <= start) once more under another clock, the observations must be
     equal (bit 512 of Case.check_case), and the runner compares full snapshots of the input WBS and
     of the outside tasks before/after ([pure], [pure2]) and the shape of the result ([shape]).
     That is testing, not proof. *)
From PJ Require Import Base.Prelude Sched.Model Sched.Machine Sched.Instances Sched.C03Proofs
     Sched.Check Sched.Oracles Sched.WfIn Sched.OracleProofs Sched.C06Proofs.

(* every member has a start, an end and amounts in the returned schedule; one entry per member *)
Theorem C06_dates_forward : forall cfg w st, WFin w -> forward cfg w = Ok st -> all_dated w st.
Proof. exact C06_dates_forward_holds. Qed.

Theorem C06_dates_backward : forall cfg w st, WFin w -> backward cfg w = Ok st -> all_dated w st.
Proof. exact C06_dates_backward_holds. Qed.

(* the reason: the pass calculates every member *)
Theorem C06_forward_reaches_all : forall cfg w st t,
  WFin w -> forward cfg w = Ok st -> k_ext (gett w t) = false -> In t (calc st).
Proof. exact c06_forward_reaches. Qed.

Theorem C06_backward_reaches_all : forall cfg w st t,
  WFin w -> backward cfg w = Ok st -> k_ext (gett w t) = false -> In t (calc st).
Proof. exact c06_backward_reaches. Qed.

(* two configurations that differ only in the clock, both clocks <= project start: same result
   (dates, amounts, usage rows - the whole final state) *)
Theorem C06_clock : forall cfg1 cfg2 w a b,
  same_but_clock cfg1 cfg2 -> now cfg1 <= pbound cfg1 -> now cfg2 <= pbound cfg1 ->
  forward cfg1 w = Ok a -> forward cfg2 w = Ok b -> a = b.
Proof. exact C06_clock_holds. Qed.

(* stronger: the recursive pass returns equal results on equal states ... *)
Theorem C06_clock_pass : forall cfg n2 w fuel st t,
  now cfg <= pbound cfg -> n2 <= pbound cfg ->
  fwd_pass fuel (with_now cfg n2) w st t = fwd_pass fuel cfg w st t.
Proof. exact c06_fwd_pass_clock. Qed.

(* ... and the clock can only change the outcome through the pre-check "no fixed end in the future" *)
Theorem C06_clock_outcome : forall cfg n2 w,
  now cfg <= pbound cfg -> n2 <= pbound cfg ->
  no_future_ends w n2 = no_future_ends w (now cfg) ->
  forward (with_now cfg n2) w = forward cfg w.
Proof. exact c06_forward_clock_outcome. Qed.

(* the executable oracle (bit 512, together with the equality of repeated observations) ... *)
Theorem C06_oracle_meaning : forall w o, c06_dates_b w o = true <-> c06_dates_statement w o.
Proof. exact c06_dates_b_spec. Qed.

(* ... is passed by the model's own output *)
Theorem C06_forward_passes_oracle : forall cfg w st,
  WFin w -> ext_last w -> forward cfg w = Ok st -> c06_dates_b w (obs_of w st) = true.
Proof. exact C06_forward_oracle. Qed.

Theorem C06_backward_passes_oracle : forall cfg w st,
  WFin w -> ext_last w -> backward cfg w = Ok st -> c06_dates_b w (obs_of w st) = true.
Proof. exact C06_backward_oracle. Qed.

(* non-vacuity: two competing tasks under a summary; clocks three weeks and five microseconds before the
   project start give the same schedule; a clock after the project start gives another one, so the
   hypothesis of C06_clock is needed *)
Definition ex_cap (r : nat) (d : Z) : Z := if weekday_of_day d <? 5 then 64 else 0.
Definition ex_cfg : config :=
  {| cap := ex_cap; balance := true; dflt_est := 0; pbound := 19723 * DAY; now := 19700 * DAY;
     h_search := 1000; h_near := 1000; h_fill := 1000 |}.
Definition mk (par : option nat) (ch : list nat) (e : option Z) : itask :=
  {| k_parent := par; k_children := ch; k_preds := []; k_succs := []; k_ext := false; k_milestone := false;
     k_res := 0; k_est := e; k_spent := None; k_start := None; k_end := None; k_minstart := None |}.
Definition ex_w : list itask := [ mk None [1%nat; 2%nat] None; mk (Some 0%nat) [] (Some 80); mk (Some 0%nat) [] (Some 48) ].

Example C06_example :
  WFin ex_w /\ ext_last ex_w
  /\ same_but_clock ex_cfg (with_now ex_cfg (19723 * DAY - 5))
  /\ now ex_cfg <= pbound ex_cfg /\ 19723 * DAY - 5 <= pbound ex_cfg
  /\ match forward ex_cfg ex_w, forward (with_now ex_cfg (19723 * DAY - 5)) ex_w,
           forward (with_now ex_cfg (19724 * DAY + 7)) ex_w, backward ex_cfg ex_w with
     | Ok a, Ok b, Ok c, Ok d =>
         a = b /\ dy a <> dy c
         /\ map (fun x => (d_start x, d_end x)) (dy a)
            = [ (Some (19723 * DAY), Some (19725 * DAY));
                (Some (19723 * DAY), Some (19724 * DAY + DAY / 4));
                (Some (19724 * DAY + DAY / 4), Some (19725 * DAY)) ]
         /\ c06_dates_b ex_w (obs_of ex_w a) = true /\ c06_dates_b ex_w (obs_of ex_w d) = true
     | _, _, _, _ => False
     end.
Proof.
  split; [vm_compute; reflexivity|]. split; [vm_compute; reflexivity|].
  split; [apply c06_same_but_clock_with_now|].
  split; [vm_compute; discriminate|]. split; [vm_compute; discriminate|].
  vm_compute. repeat split. discriminate.
Qed.

(* ---- source-text tie for the recursive pass (gen/SrcPass.v: ForwardScheduler.__forward_pass / BackwardScheduler.__backward_pass translated from schedule.py on every run;
   Sched/SrcPassEquivF.v / SrcPassEquivB.v relates it to the model's pass for every input, Sched/SrcPassProps.v transports the theorems):
   what follows is about the TRANSLATED SOURCE called once per root as calc does ([src_roots_fold]) after calc's pre-checks. ---- *)
From PJ Require Import gen.SrcPass Sched.SrcPassRel Sched.SrcPassEquivF Sched.SrcPassEquivB Sched.SrcPassProps.

Theorem C06_src_forward_pass : forall cfg w ds l cl, isolated_ok w = true -> no_future_ends w (now cfg) = true ->
  src_roots_fold src_fwd_pass cfg w (roots w) = Ok (ds, l, cl) ->
  WFin w -> all_dated w (src_sst (ds, l, cl)).
Proof. exact src_fwd_all_dated. Qed.

Theorem C06_src_backward_pass : forall cfg w ds l cl, isolated_ok w = true ->
  src_roots_fold src_bwd_pass cfg w (rev (roots w)) = Ok (ds, l, cl) ->
  WFin w -> all_dated w (src_sst (ds, l, cl)).
Proof. exact src_bwd_all_dated. Qed.

(* ---- calc's helpers from the source text (gen/SrcPass.v; Sched/SrcCalcEquiv.v): the pre-checks are the model's
   [isolated_ok] / [no_future_ends], __prepare_tasks turns the user's values ([raw_dyn]) into the model's initial state ---- *)
From PJ Require Import Sched.SrcCalcEquiv.

Theorem C06_src_prepare_tasks : forall w, src_prepare_tasks w (map raw_dyn w) = Ok (map init_dyn w, tt).
Proof. exact src_prepare_tasks_eq. Qed.

Theorem C06_src_prepare_tasks_backward : forall w, src_prepare_tasks_bwd w (map raw_dyn w) = Ok (map init_dyn w, tt).
Proof. exact src_prepare_tasks_bwd_eq. Qed.

Theorem C06_src_prepare_init_state : forall w, src_prepare_tasks w (map raw_dyn w) = Ok (dy (init_state w), tt).
Proof. exact src_prepare_init_state. Qed.

(* ---- calc itself from the source text (gen/SrcPass.v: src_forward_calc / src_backward_calc; Sched/SrcCalcMain.v): run on
   the user's values, the translated calc is related to the model's [forward] / [backward] - same outcome class, and on
   success the same dates, amounts and usage rows.  Not in the translation: clone() (the scheduler's view [w] IS the clone,
   C10), _check_loops (cycles of plain dependencies, which no WBS built through the API has, C01), the Schedule object. ---- *)
From PJ Require Import Sched.SrcCalcMain.

Theorem C06_src_forward_calc : forall cfg w ds l cl, src_forward_calc cfg w (map raw_dyn w) = Ok (ds, l, cl) ->
  exists st, forward cfg w = Ok st /\ dy st = ds /\ lg st = l /\ same_elts (calc st) cl.
Proof. exact src_forward_calc_Ok. Qed.

Theorem C06_src_backward_calc : forall cfg w ds l cl, src_backward_calc cfg w (map raw_dyn w) = Ok (ds, l, cl) ->
  exists st, backward cfg w = Ok st /\ dy st = ds /\ lg st = l /\ same_elts (calc st) cl.
Proof. exact src_backward_calc_Ok. Qed.

Print Assumptions C06_dates_forward.
Print Assumptions C06_dates_backward.
Print Assumptions C06_forward_reaches_all.
Print Assumptions C06_backward_reaches_all.
Print Assumptions C06_clock.
Print Assumptions C06_clock_pass.
Print Assumptions C06_clock_outcome.
Print Assumptions C06_oracle_meaning.
Print Assumptions C06_forward_passes_oracle.
Print Assumptions C06_backward_passes_oracle.
Print Assumptions C06_example.
Print Assumptions C06_src_forward_pass.
Print Assumptions C06_src_backward_pass.
Print Assumptions C06_src_prepare_tasks.
Print Assumptions C06_src_prepare_tasks_backward.
Print Assumptions C06_src_prepare_init_state.
Print Assumptions C06_src_forward_calc.
Print Assumptions C06_src_backward_calc.
