(* C14 - calc terminates with a schedule or a RuntimeError.
   Statement file: theorems closed by [exact], Print Assumptions below.  Exceptions are data in the
   model: [Ok] a schedule, [Err] RuntimeError, [Crash k] any other exception (RecursionError by
   unbounded re-entry, TypeError of None arithmetic, ValueError of max()/min() of nothing).  The
   theorems hold for every WBS satisfying the structural invariant [WFin] (any size, hierarchy,
   links), every capacity function, both balance settings, every bound, clock and horizon. *)
From PJ Require Import Base.Prelude Sched.Model Sched.Machine Sched.Instances Sched.WfIn
     Sched.C14Pass Sched.C14Proofs Sched.C14Wf.
From PJ Require Import Sched.C14Capacity.
From Coq Require Import Relations.Relation_Operators.

(* ---- (a) a schedule or RuntimeError, nothing else; the fuel |w|+2 of the pass is never exhausted ---- *)
Theorem C14_total_forward : forall cfg w,
  WFin w -> (exists st, forward cfg w = Ok st) \/ forward cfg w = Err.
Proof. exact C14_total_forward_holds. Qed.

Theorem C14_total_backward : forall cfg w,
  WFin w -> (exists st, backward cfg w = Ok st) \/ backward cfg w = Err.
Proof. exact C14_total_backward_holds. Qed.

(* the calculation of one task never crashes once its children have all four values (no None in the
   sums, no max()/min() of an empty list) *)
Theorem C14_compute_no_crash : forall cfg w ds l t b k,
  kids_full w ds t -> fwd_compute cfg w ds l t b <> Crash k /\ bwd_compute cfg w ds l t b <> Crash k.
Proof. exact C14_compute_no_crash_holds. Qed.

(* ---- (b) the unschedulable inputs answer RuntimeError ---- *)
(* a predecessor outside the WBS without a start or an end date *)
Theorem C14_err_isolated : forall cfg w, isolated_ok w = false -> forward cfg w = Err /\ backward cfg w = Err.
Proof. exact C14_err_isolated_holds. Qed.

(* a fixed end after the clock (forward) *)
Theorem C14_err_future_end : forall cfg w, no_future_ends w (now cfg) = false -> forward cfg w = Err.
Proof. exact C14_err_future_end_forward. Qed.

(* a resource that never becomes available: the first task the pass reaches is a leaf without a
   fixed start (forward) / end (backward) on a resource without any capacity *)
Theorem C14_err_no_capacity : forall cfg w t rest,
  WFin w -> k_children (gett w t) = [] -> k_milestone (gett w t) = false ->
  (forall d, cap cfg (k_res (gett w t)) d <= 0) ->
  (roots w = t :: rest -> k_start (gett w t) = None -> forward cfg w = Err)
  /\ (rev (roots w) = t :: rest -> k_end (gett w t) = None -> backward cfg w = Err).
Proof. exact C14_err_no_capacity_holds. Qed.

(* a cycle of the effective waiting relation (own and inherited prerequisites / dependants, children)
   through a member task - in particular a cycle that only closes through the hierarchy *)
Theorem C14_err_cycle : forall cfg w u,
  WFin w -> k_ext (gett w u) = false ->
  (clos_trans nat (fwaits w) u u -> forward cfg w = Err) /\ (clos_trans nat (bwaits w) u u -> backward cfg w = Err).
Proof. exact C14_err_cycle_holds. Qed.

(* the shape of the property text: A is a child of P, A waits for B, B waits for P *)
Theorem C14_err_hierarchy_cycle : forall cfg w A B P,
  WFin w -> k_ext (gett w P) = false -> In A (k_children (gett w P)) ->
  (In B (k_preds (gett w A)) -> In P (k_preds (gett w B)) -> forward cfg w = Err)
  /\ (k_parent (gett w A) = Some P -> In A (k_succs (gett w B)) -> In B (k_succs (gett w P)) -> backward cfg w = Err).
Proof. exact C14_err_hierarchy_cycle_holds. Qed.

(* every member of a well-formed WBS hangs below a root, so every complete run calculates it *)
Theorem C14_members_under_root : forall w u, WFin w -> (u < length w)%nat -> k_ext (gett w u) = false -> under_root w u.
Proof. exact wfin_under_root. Qed.

(* the re-entry itself, for any instance of the pass: a task reached again while it is being
   calculated answers RuntimeError at once, and RuntimeError propagates through the loops *)
Theorem C14_reentry : forall w deps kids bnd compute fuel st t,
  k_ext (gett w t) = false -> memb t (calc st) = false -> memb t (inprog st) = true ->
  gpass w deps kids bnd compute (S fuel) st t = Err
  /\ forall (f : sst -> nat -> res sst) l1 a l2 s s1,
       fold_res f l1 s = Ok s1 -> f s1 a = Err -> fold_res f (l1 ++ a :: l2) s = Err.
Proof. exact C14_reentry_holds. Qed.

(* ---- (b') session 3: the starved leaf anywhere in the WBS ---- *)
(* a run that returns calculated every member in a reachable machine state in which the member was
   enabled and its calculation answered Ok *)
Theorem C14_ok_members_computed : forall cfg w t,
  WFin w -> k_ext (gett w t) = false ->
  (forall st, forward cfg w = Ok st ->
     exists c r, fsteps cfg w [] (init_core w) c /\ inv14 w c /\ enabled w (fdeps w) (fkids w) c t
                 /\ fwd_compute cfg w (c_dy c) (c_lg c) t (fbnd cfg (c_dy c) (fdeps w t)) = Ok r)
  /\ (forall st, backward cfg w = Ok st ->
     exists c r, bsteps cfg w [] (init_core w) c /\ inv14 w c /\ enabled w (bdeps w) (bkids w) c t
                 /\ bwd_compute cfg w (c_dy c) (c_lg c) t (bbnd cfg (c_dy c) (bdeps w t)) = Ok r).
Proof. exact C14_ok_members_computed_holds. Qed.

(* hence: a member whose calculation answers RuntimeError in every reachable state in which it may
   be calculated makes calc answer RuntimeError, wherever the member sits and whenever it is reached *)
Theorem C14_err_stuck_member : forall cfg w t,
  WFin w -> k_ext (gett w t) = false ->
  ((forall c, fsteps cfg w [] (init_core w) c -> inv14 w c -> enabled w (fdeps w) (fkids w) c t ->
              fwd_compute cfg w (c_dy c) (c_lg c) t (fbnd cfg (c_dy c) (fdeps w t)) = Err) ->
   forward cfg w = Err)
  /\ ((forall c, bsteps cfg w [] (init_core w) c -> inv14 w c -> enabled w (bdeps w) (bkids w) c t ->
              bwd_compute cfg w (c_dy c) (c_lg c) t (bbnd cfg (c_dy c) (bdeps w t)) = Err) ->
   backward cfg w = Err).
Proof. exact C14_err_stuck_member_holds. Qed.

(* a resource that never becomes available: ANY member that is a non-milestone leaf without a fixed
   start (forward) / end (backward) - also one without work left: the availability search runs for
   every such leaf.  No side condition on the pre-checks (they answer RuntimeError themselves). *)
Theorem C14_err_no_capacity_any : forall cfg w t,
  WFin w -> k_ext (gett w t) = false ->
  k_children (gett w t) = [] -> k_milestone (gett w t) = false ->
  (forall d, cap cfg (k_res (gett w t)) d <= 0) ->
  (k_start (gett w t) = None -> forward cfg w = Err) /\ (k_end (gett w t) = None -> backward cfg w = Err).
Proof. exact C14_err_no_capacity_any_holds. Qed.

(* a bounded calendar that ended before the project start (forward) / begins after the project end
   (backward): the search starts at or after the bound and only moves away from it *)
Theorem C14_err_calendar_ended_forward : forall cfg w t,
  WFin w -> k_ext (gett w t) = false ->
  k_children (gett w t) = [] -> k_milestone (gett w t) = false -> k_start (gett w t) = None ->
  (forall d, day_of (pbound cfg) <= d -> cap cfg (k_res (gett w t)) d <= 0) ->
  forward cfg w = Err.
Proof. exact C14_err_calendar_ended_forward_holds. Qed.

Theorem C14_err_calendar_ended_backward : forall cfg w t,
  WFin w -> k_ext (gett w t) = false ->
  k_children (gett w t) = [] -> k_milestone (gett w t) = false -> k_end (gett w t) = None ->
  (forall d, d < day_of (pbound cfg) -> cap cfg (k_res (gett w t)) d <= 0) ->
  backward cfg w = Err.
Proof. exact C14_err_calendar_ended_backward_holds. Qed.

(* sharper, forward: nothing from the day of max(project start, now, min_start of t) on *)
Theorem C14_err_calendar_ended_forward_from : forall cfg w t,
  WFin w -> k_ext (gett w t) = false ->
  k_children (gett w t) = [] -> k_milestone (gett w t) = false -> k_start (gett w t) = None ->
  (forall d, day_of (Z.max (Z.max (pbound cfg) (now cfg)) (odflt (k_minstart (gett w t)) 0)) <= d ->
             cap cfg (k_res (gett w t)) d <= 0) ->
  forward cfg w = Err.
Proof. exact C14_err_calendar_ended_forward_from_holds. Qed.

(* capacity exists, but not within max_days of get_nearest_availability_date; for a task that waits
   for nothing the window is determined by the input alone *)
Theorem C14_err_beyond_horizon : forall cfg w t,
  WFin w -> k_ext (gett w t) = false -> k_children (gett w t) = [] -> k_milestone (gett w t) = false ->
  (k_start (gett w t) = None -> prereqs w t = [] ->
   (forall d, day_of (fwd_earliest cfg w t) <= d < day_of (fwd_earliest cfg w t) + Z.of_nat (h_search cfg) ->
              cap cfg (k_res (gett w t)) d <= 0) ->
   forward cfg w = Err)
  /\ (k_end (gett w t) = None -> dependants w t = [] ->
   (forall d, day_of (pbound cfg) - 1 - Z.of_nat (h_search cfg) < d <= day_of (pbound cfg) - 1 ->
              cap cfg (k_res (gett w t)) d <= 0) ->
   backward cfg w = Err).
Proof. exact C14_err_beyond_horizon_holds. Qed.

(* ---- (c) RuntimeError has no other cause, hence the converse ---- *)
Theorem C14_err_causes_forward : forall cfg w,
  forward cfg w = Err ->
  isolated_ok w = false \/ no_future_ends w (now cfg) = false
  \/ (exists u, k_ext (gett w u) = false /\ clos_trans nat (fwaits w) u u)
  \/ (exists c u, fsteps cfg w [] (init_core w) c /\ fstuck cfg w c u /\ fwd_search_exhausted cfg w (c_lg c) u).
Proof. exact C14_err_causes_forward_holds. Qed.

Theorem C14_err_causes_backward : forall cfg w,
  backward cfg w = Err ->
  isolated_ok w = false
  \/ (exists u, k_ext (gett w u) = false /\ clos_trans nat (bwaits w) u u)
  \/ (exists c u, bsteps cfg w [] (init_core w) c /\ bstuck cfg w c u /\ bwd_search_exhausted cfg w (c_lg c) u).
Proof. exact C14_err_causes_backward_holds. Qed.

(* completeness: outside predecessors dated, no fixed end after the clock, the waiting relation
   acyclic, and no reachable state in which the search for a task that may be calculated is
   exhausted - then calc returns a schedule *)
Theorem C14_complete_forward : forall cfg w,
  WFin w -> isolated_ok w = true -> no_future_ends w (now cfg) = true ->
  (forall u, k_ext (gett w u) = false -> ~ clos_trans nat (fwaits w) u u) ->
  (forall c u, fsteps cfg w [] (init_core w) c -> ~ fstuck cfg w c u) ->
  exists st, forward cfg w = Ok st.
Proof. exact C14_complete_forward_holds. Qed.

Theorem C14_complete_backward : forall cfg w,
  WFin w -> isolated_ok w = true ->
  (forall u, k_ext (gett w u) = false -> ~ clos_trans nat (bwaits w) u u) ->
  (forall c u, bsteps cfg w [] (init_core w) c -> ~ bstuck cfg w c u) ->
  exists st, backward cfg w = Ok st.
Proof. exact C14_complete_backward_holds. Qed.

(* the percent divisions: the divisor is a capacity that is positive at that point *)
Theorem C14_divisors_positive : forall cfg l r t x left l' s,
  (forall y, In y l -> 0 < r_units y) ->
  (fwd_nearest cfg l r t x = Ok s ->
     exists d, s = DAY * d + frac (used (balance cfg) l r d t) (cap cfg r d) /\ 0 < cap cfg r d)
  /\ (bwd_nearest cfg l r t x = Ok s ->
     exists d, s = DAY * (d + 1) - frac (used (balance cfg) l r d t) (cap cfg r d) /\ 0 < cap cfg r d)
  /\ (0 < left -> fwd_shift cfg l r t x left = Ok (l', s) ->
     exists d, s = DAY * d + frac (used (balance cfg) l' r d t) (cap cfg r d) /\ 0 < cap cfg r d)
  /\ (0 < left -> bwd_shift cfg l r t x left = Ok (l', s) ->
     exists d, s = DAY * (d + 1) - frac (used (balance cfg) l' r d t) (cap cfg r d) /\ 0 < cap cfg r d).
Proof. exact C14_divisors_positive_holds. Qed.

(* ---- non-vacuity: computed runs ---- *)
Definition ex_cap (r : nat) (d : Z) : Z :=
  match r with O => if weekday_of_day d <? 5 then 64 else 0 | _ => 0 end.      (* resource 1 is never available *)
Definition ex_cfg (pb : Z) : config :=
  {| cap := ex_cap; balance := true; dflt_est := 0; pbound := pb; now := 19700 * DAY;
     h_search := 1000; h_near := 1000; h_fill := 1000 |}.
Definition mk (par : option nat) (ch pr su : list nat) (r : nat) (e : Z) (en : option Z) : itask :=
  {| k_parent := par; k_children := ch; k_preds := pr; k_succs := su; k_ext := false; k_milestone := false;
     k_res := r; k_est := Some e; k_spent := None; k_start := None; k_end := en; k_minstart := None |}.
Definition outside (s e : option Z) : itask :=
  {| k_parent := None; k_children := []; k_preds := []; k_succs := []; k_ext := true; k_milestone := false;
     k_res := 0; k_est := None; k_spent := None; k_start := s; k_end := e; k_minstart := None |}.

(* a summary P with children A, C; A waits for B, which waits for a dated outside task *)
Definition ex_ok : list itask :=
  [mk None [1; 2]%nat [] [] 0 0 None; mk (Some 0%nat) [] [3%nat] [] 0 80 None; mk (Some 0%nat) [] [] [] 0 48 None;
   mk None [] [4%nat] [1%nat] 0 64 None; outside (Some (19723 * DAY)) (Some (19725 * DAY))].
(* the cycle of the property text: A (1) is a child of P (0), A waits for B (2), B waits for P *)
Definition ex_cycle : list itask :=
  [mk None [1%nat] [] [2%nat] 0 0 None; mk (Some 0%nat) [] [2%nat] [] 0 64 None; mk None [] [0%nat] [1%nat] 0 64 None].
Definition ex_isolated : list itask := [mk None [] [1%nat] [] 0 64 None; outside None (Some (19725 * DAY))].
Definition ex_future : list itask := [mk None [] [] [] 0 64 (Some (19730 * DAY))].
Definition ex_never : list itask := [mk None [] [] [] 1 64 None; mk None [] [] [] 0 64 None].

Example C14_example_ok :
  WFin ex_ok
  /\ (exists st, forward (ex_cfg (19723 * DAY)) ex_ok = Ok st /\ calc st = [0; 2; 1; 3]%nat /\ length (lg st) = 4%nat)
  /\ (exists st, backward (ex_cfg (19790 * DAY)) ex_ok = Ok st /\ calc st = [0; 2; 3; 1]%nat).
Proof. split; [vm_compute; reflexivity|]. split; eexists; vm_compute; repeat split; reflexivity. Qed.

Example C14_example_unschedulable :
  (* the hierarchy cycle *)
  (WFin ex_cycle /\ isolated_ok ex_cycle = true /\ no_future_ends ex_cycle (19700 * DAY) = true
   /\ clos_trans nat (fwaits ex_cycle) 0%nat 0%nat /\ clos_trans nat (bwaits ex_cycle) 1%nat 1%nat
   /\ forward (ex_cfg (19723 * DAY)) ex_cycle = Err /\ backward (ex_cfg (19790 * DAY)) ex_cycle = Err)
  (* outside predecessor without a start *)
  /\ (WFin ex_isolated /\ isolated_ok ex_isolated = false
      /\ forward (ex_cfg (19723 * DAY)) ex_isolated = Err /\ backward (ex_cfg (19790 * DAY)) ex_isolated = Err)
  (* fixed end after the clock *)
  /\ (WFin ex_future /\ isolated_ok ex_future = true /\ no_future_ends ex_future (19700 * DAY) = false
      /\ forward (ex_cfg (19723 * DAY)) ex_future = Err)
  (* resource 1 is never available *)
  /\ (WFin ex_never /\ (forall d, ex_cap 1 d <= 0)
      /\ roots ex_never = [0; 1]%nat /\ rev (roots (rev ex_never)) = [1; 0]%nat
      /\ forward (ex_cfg (19723 * DAY)) ex_never = Err /\ backward (ex_cfg (19790 * DAY)) (rev ex_never) = Err).
Proof.
  split; [|split; [|split]].
  - split; [vm_compute; reflexivity|]. split; [vm_compute; reflexivity|]. split; [vm_compute; reflexivity|].
    split.
    { apply t_trans with 1%nat; [apply t_step; right; vm_compute; left; reflexivity|].
      apply t_trans with 2%nat; apply t_step; left; vm_compute; left; reflexivity. }
    split.
    { apply t_trans with 2%nat; apply t_step; left; vm_compute; left; reflexivity. }
    split; vm_compute; reflexivity.
  - repeat split; vm_compute; reflexivity.
  - repeat split; vm_compute; reflexivity.
  - split; [vm_compute; reflexivity|]. split; [intros d; simpl; lia|]. repeat split; vm_compute; reflexivity.
Qed.

(* the hypotheses of the completeness theorem are satisfiable: one task, every reachable state listed *)
Example C14_example_complete :
  let w := [mk None [] [] [] 0 80 None] in let cfg := ex_cfg (19723 * DAY) in
  WFin w /\ isolated_ok w = true /\ no_future_ends w (now cfg) = true
  /\ (forall u, k_ext (gett w u) = false -> ~ clos_trans nat (fwaits w) u u)
  /\ (forall c u, fsteps cfg w [] (init_core w) c -> ~ fstuck cfg w c u).
Proof. exact complete_example_holds. Qed.

(* ---- session 3: the starved leaf is reached last, below a summary, after other tasks were scheduled ---- *)
(* resource 1 never available; resource 2: a calendar that ended on day 19699 (before the project start
   19723); resource 3: a calendar that begins on day 19801 (after the project end 19790) *)
Definition ex_cap2 (r : nat) (d : Z) : Z :=
  match r with
  | O => if weekday_of_day d <? 5 then 64 else 0
  | 1%nat => 0
  | 2%nat => if d <? 19700 then (if weekday_of_day d <? 5 then 64 else 0) else 0
  | _ => if 19800 <? d then 64 else 0
  end.
Definition ex_cfg2 (pb : Z) (h : nat) : config :=
  {| cap := ex_cap2; balance := true; dflt_est := 0; pbound := pb; now := 19700 * DAY;
     h_search := h; h_near := 1000; h_fill := 1000 |}.
(* forward order: A (0), then the summary S (1) with its children 2 and 3; task 3 is the last one *)
Definition ex_starved (r : nat) (e : Z) : list itask :=
  [mk None [] [] [] 0 64 None; mk None [2; 3]%nat [] [] 0 0 None;
   mk (Some 1%nat) [] [] [] 0 48 None; mk (Some 1%nat) [] [] [] r e None].
(* backward order: 3, then the summary S (0) with its children 2 and 1; task 1 is the last one *)
Definition ex_starved_b (r : nat) (e : Z) : list itask :=
  [mk None [1; 2]%nat [] [] 0 0 None; mk (Some 0%nat) [] [] [] r e None;
   mk (Some 0%nat) [] [] [] 0 48 None; mk None [] [] [] 0 64 None].

Example C14_example_starved_last :
  (* on an available resource the task is the last one calculated (calc is newest first, the summary
     after its children) *)
  (WFin (ex_starved 0 16)
   /\ (exists st, forward (ex_cfg2 (19723 * DAY) 1000) (ex_starved 0 16) = Ok st
                  /\ calc st = [1; 3; 2; 0]%nat /\ length (lg st) = 3%nat)
   /\ WFin (ex_starved_b 0 16)
   /\ (exists st, backward (ex_cfg2 (19790 * DAY) 1000) (ex_starved_b 0 16) = Ok st
                  /\ calc st = [0; 1; 2; 3]%nat /\ length (lg st) = 3%nat))
  (* never available (hypotheses of C14_err_no_capacity_any), with and without work left *)
  /\ (WFin (ex_starved 1 16) /\ WFin (ex_starved 1 0) /\ WFin (ex_starved_b 1 16) /\ WFin (ex_starved_b 1 0)
      /\ (forall d, ex_cap2 1 d <= 0)
      /\ isolated_ok (ex_starved 1 16) = true /\ no_future_ends (ex_starved 1 16) (19700 * DAY) = true
      /\ forward (ex_cfg2 (19723 * DAY) 1000) (ex_starved 1 16) = Err
      /\ forward (ex_cfg2 (19723 * DAY) 1000) (ex_starved 1 0) = Err
      /\ backward (ex_cfg2 (19790 * DAY) 1000) (ex_starved_b 1 16) = Err
      /\ backward (ex_cfg2 (19790 * DAY) 1000) (ex_starved_b 1 0) = Err)
  (* the calendar ended before the project start / begins after the project end
     (hypotheses of C14_err_calendar_ended_forward / _backward) *)
  /\ (WFin (ex_starved 2 16) /\ WFin (ex_starved_b 3 16)
      /\ (forall d, day_of (19723 * DAY) <= d -> ex_cap2 2 d <= 0) /\ 0 < ex_cap2 2 19691
      /\ (forall d, d < day_of (19790 * DAY) -> ex_cap2 3 d <= 0) /\ 0 < ex_cap2 3 19801
      /\ forward (ex_cfg2 (19723 * DAY) 1000) (ex_starved 2 16) = Err
      /\ backward (ex_cfg2 (19790 * DAY) 1000) (ex_starved_b 3 16) = Err)
  (* capacity from day 19801 on: found with a horizon of 1000 days, not with one of 50 days
     (hypotheses of C14_err_beyond_horizon, forward) *)
  /\ (WFin (ex_starved 3 16) /\ prereqs (ex_starved 3 16) 3 = []
      /\ (let cfg := ex_cfg2 (19723 * DAY) 50 in let w := ex_starved 3 16 in
          forall d, day_of (fwd_earliest cfg w 3) <= d < day_of (fwd_earliest cfg w 3) + Z.of_nat (h_search cfg) ->
                    ex_cap2 3 d <= 0)
      /\ forward (ex_cfg2 (19723 * DAY) 50) (ex_starved 3 16) = Err
      /\ (exists st, forward (ex_cfg2 (19723 * DAY) 1000) (ex_starved 3 16) = Ok st)).
Proof.
  split; [|split; [|split]].
  - split; [vm_compute; reflexivity|]. split; [eexists; vm_compute; repeat split; reflexivity|].
    split; [vm_compute; reflexivity|]. eexists; vm_compute; repeat split; reflexivity.
  - do 4 (split; [vm_compute; reflexivity|]). split; [intros d; unfold ex_cap2; lia|].
    repeat split; vm_compute; reflexivity.
  - do 2 (split; [vm_compute; reflexivity|]).
    assert (E1 : day_of (19723 * DAY) = 19723) by (vm_compute; reflexivity).
    assert (E2 : day_of (19790 * DAY) = 19790) by (vm_compute; reflexivity).
    split; [intros d Hd; rewrite E1 in Hd; unfold ex_cap2; destruct (Z.ltb_spec d 19700); lia|].
    split; [vm_compute; reflexivity|].
    split; [intros d Hd; rewrite E2 in Hd; unfold ex_cap2; destruct (Z.ltb_spec 19800 d); lia|].
    split; [vm_compute; reflexivity|]. split; vm_compute; reflexivity.
  - do 2 (split; [vm_compute; reflexivity|]). split.
    + intros cfg w d.
      assert (E : day_of (fwd_earliest cfg w 3) = 19723) by (vm_compute; reflexivity).
      rewrite E. change (Z.of_nat (h_search cfg)) with 50. intros Hd.
      unfold ex_cap2. destruct (Z.ltb_spec 19800 d); lia.
    + split; [vm_compute; reflexivity|]. eexists; vm_compute; reflexivity.
Qed.

(* ---- the tie to the source text (gen/SrcFill.v, regenerated on every run from schedule.py): the four day-by-day
   loops of the schedulers, translated from their current source text, end within the fuel the translation gives them
   (max_steps + 2 rounds of the `while`, max_steps rounds of the `for`) and raise nothing but RuntimeError - no
   ZeroDivisionError in the day-share divisions, no unbounded loop - for every configuration, every ledger with
   positive rows, every date and amount *)
From Coq Require Import QArith.
From PJ Require Import Cal.Calendar gen.SrcFill Sched.SrcFillEquiv Sched.SrcFillInv.
Open Scope Z_scope.

Theorem C14_src_fwd_shift_outcome : forall cfg r t l s0 left k, pos_rows l -> 0 <= left ->
  src_fwd_shift (balance cfg) (nearest_of (cap cfg r) (h_search cfg)) (gau_of (cap cfg r)) r (qrows_of l) s0 t
                (inject_Z left) (Z.of_nat (h_fill cfg)) <> Crash k.
Proof. exact src_fwd_shift_outcome. Qed.

Theorem C14_src_bwd_shift_outcome : forall cfg r t l e0 left k, pos_rows l -> 0 <= left ->
  src_bwd_shift (balance cfg) (nearest_of (cap cfg r) (h_search cfg)) (gau_of (cap cfg r)) r (qrows_of l) e0 t
                (inject_Z left) (Z.of_nat (h_fill cfg)) <> Crash k.
Proof. exact src_bwd_shift_outcome. Qed.

Theorem C14_src_fwd_nearest_outcome : forall cfg r t l t0 k, pos_rows l ->
  src_fwd_nearest (balance cfg) (nearest_of (cap cfg r) (h_search cfg)) (gau_of (cap cfg r)) r (qrows_of l) t0 t
                  (Z.of_nat (h_near cfg)) <> Crash k.
Proof. exact src_fwd_nearest_outcome. Qed.

Theorem C14_src_bwd_nearest_outcome : forall cfg r t l t0 k, pos_rows l ->
  src_bwd_nearest (balance cfg) (nearest_of (cap cfg r) (h_search cfg)) (gau_of (cap cfg r)) r (qrows_of l) t0 t
                  (Z.of_nat (h_near cfg)) <> Crash k.
Proof. exact src_bwd_nearest_outcome. Qed.

(* ---- source-text tie for the recursive pass (gen/SrcPass.v: ForwardScheduler.__forward_pass / BackwardScheduler.__backward_pass translated from schedule.py on every run;
   Sched/SrcPassEquivF.v / SrcPassEquivB.v relates it to the model's pass for every input, Sched/SrcPassProps.v transports the theorems):
   what follows is about the TRANSLATED SOURCE called once per root as calc does ([src_roots_fold]) after calc's pre-checks. ---- *)
From PJ Require Import gen.SrcPass Sched.SrcPassRel Sched.SrcPassEquivF Sched.SrcPassEquivB Sched.SrcPassProps.

Theorem C14_src_forward_pass_total : forall cfg w, WFin w -> isolated_ok w = true -> no_future_ends w (now cfg) = true ->
  (exists x, src_roots_fold src_fwd_pass cfg w (roots w) = Ok x) \/ src_roots_fold src_fwd_pass cfg w (roots w) = Err.
Proof. exact src_fwd_total. Qed.

Theorem C14_src_backward_pass_total : forall cfg w, WFin w -> isolated_ok w = true ->
  (exists x, src_roots_fold src_bwd_pass cfg w (rev (roots w)) = Ok x) \/ src_roots_fold src_bwd_pass cfg w (rev (roots w)) = Err.
Proof. exact src_bwd_total. Qed.

Theorem C14_src_forward_pass_outcome : forall cfg w, isolated_ok w = true -> no_future_ends w (now cfg) = true ->
  outcome_code (src_roots_fold src_fwd_pass cfg w (roots w)) = outcome_code (forward cfg w).
Proof. exact src_forward_outcome. Qed.

Theorem C14_src_backward_pass_outcome : forall cfg w, isolated_ok w = true ->
  outcome_code (src_roots_fold src_bwd_pass cfg w (rev (roots w))) = outcome_code (backward cfg w).
Proof. exact src_backward_outcome. Qed.

(* ---- calc's helpers from the source text (gen/SrcPass.v; Sched/SrcCalcEquiv.v): the pre-checks are the model's
   [isolated_ok] / [no_future_ends], __prepare_tasks turns the user's values ([raw_dyn]) into the model's initial state ---- *)
From PJ Require Import Sched.SrcCalcEquiv.

Theorem C14_src_validate_graph_isolation : forall w,
  src_validate_graph_isolation w = if isolated_ok w then Ok tt else Err.
Proof. exact src_validate_graph_isolation_eq. Qed.

Theorem C14_src_check_no_end_dates_in_future : forall cfg w,
  src_check_no_end_dates_in_future cfg w = if no_future_ends w (now cfg) then Ok tt else Err.
Proof. exact src_check_no_end_dates_in_future_eq. Qed.

(* ---- calc itself from the source text (gen/SrcPass.v: src_forward_calc / src_backward_calc; Sched/SrcCalcMain.v): run on
   the user's values, the translated calc is related to the model's [forward] / [backward] - same outcome class, and on
   success the same dates, amounts and usage rows.  Not in the translation: clone() (the scheduler's view [w] IS the clone,
   C10), _check_loops (cycles of plain dependencies, which no WBS built through the API has, C01), the Schedule object. ---- *)
From PJ Require Import Sched.SrcCalcMain.

Theorem C14_src_forward_calc_outcome : forall cfg w,
  outcome_code (src_forward_calc cfg w (map raw_dyn w)) = outcome_code (forward cfg w).
Proof. exact src_forward_calc_outcome. Qed.

Theorem C14_src_backward_calc_outcome : forall cfg w,
  outcome_code (src_backward_calc cfg w (map raw_dyn w)) = outcome_code (backward cfg w).
Proof. exact src_backward_calc_outcome. Qed.

(* ---- _check_loops from the source text (gen/SrcPass.v: src_check_loops; Sched/SrcLoopsEquiv.v): the depth-first search for
   a cycle of plain dependencies returns on every well-formed WBS - the call that the translation of calc leaves out never
   raises on the inputs of the theorems - and refuses a task that is its own predecessor. ---- *)
From PJ Require Import Sched.SrcLoopsEquiv.

Theorem C14_src_check_loops_accepts : forall w, WFin w -> src_check_loops w = Ok tt.
Proof. exact src_check_loops_accepts. Qed.

Theorem C14_src_check_loops_refuses_self_loop : forall w t, (t < length w)%nat -> k_ext (gett w t) = false ->
  In t (k_preds (gett w t)) -> src_check_loops w <> Ok tt.
Proof. exact src_check_loops_refuses_self_loop. Qed.

Print Assumptions C14_total_forward.
Print Assumptions C14_total_backward.
Print Assumptions C14_compute_no_crash.
Print Assumptions C14_err_isolated.
Print Assumptions C14_err_future_end.
Print Assumptions C14_err_no_capacity.
Print Assumptions C14_err_cycle.
Print Assumptions C14_err_hierarchy_cycle.
Print Assumptions C14_members_under_root.
Print Assumptions C14_reentry.
Print Assumptions C14_err_causes_forward.
Print Assumptions C14_err_causes_backward.
Print Assumptions C14_complete_forward.
Print Assumptions C14_complete_backward.
Print Assumptions C14_divisors_positive.
Print Assumptions C14_example_ok.
Print Assumptions C14_example_unschedulable.
Print Assumptions C14_example_complete.
Print Assumptions C14_ok_members_computed.
Print Assumptions C14_err_stuck_member.
Print Assumptions C14_err_no_capacity_any.
Print Assumptions C14_err_calendar_ended_forward.
Print Assumptions C14_err_calendar_ended_backward.
Print Assumptions C14_err_calendar_ended_forward_from.
Print Assumptions C14_err_beyond_horizon.
Print Assumptions C14_example_starved_last.
Print Assumptions C14_src_fwd_shift_outcome.
Print Assumptions C14_src_bwd_shift_outcome.
Print Assumptions C14_src_fwd_nearest_outcome.
Print Assumptions C14_src_bwd_nearest_outcome.
Print Assumptions C14_src_forward_pass_total.
Print Assumptions C14_src_backward_pass_total.
Print Assumptions C14_src_forward_pass_outcome.
Print Assumptions C14_src_backward_pass_outcome.
Print Assumptions C14_src_validate_graph_isolation.
Print Assumptions C14_src_check_no_end_dates_in_future.
Print Assumptions C14_src_forward_calc_outcome.
Print Assumptions C14_src_backward_calc_outcome.
Print Assumptions C14_src_check_loops_accepts.
Print Assumptions C14_src_check_loops_refuses_self_loop.
