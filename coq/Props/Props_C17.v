(* C17 - Calendars and the availability search mean exactly what they say.
   Statement file: every theorem is closed by [exact] of a lemma proved in Cal/CalendarProofs.v
   and followed by Print Assumptions.  The theorems hold for every number type with arbitrary
   operations (in particular IEEE binary64), every calendar expression, every date. *)
From PJ Require Import Base.Prelude Cal.Calendar Cal.CalendarProofs.

Section C17.
Context {num : Type}.
Variables (nadd nsub nmul ndiv : num -> num -> num) (nzero : num).
Variable nltb : num -> num -> bool.
Variable nis0 : num -> bool.
Notation eval := (eval nadd nsub nmul ndiv nzero nltb nis0).
Notation values := (values nadd nsub nmul ndiv nzero nltb nis0).
Notation npos := (npos nzero nltb).
Notation nneg := (nneg nzero nltb).

(* + : the operator applied to the operands' values for the date, operands without information skipped *)
Theorem C17_sum : forall cs t vs, values cs t vs -> eval (Sum cs) t = Ok (fold1 nadd (somes vs)).
Proof. exact (eval_sum nadd nsub nmul ndiv nzero nltb nis0). Qed.

Theorem C17_mul : forall cs t vs, values cs t vs -> eval (Mul cs) t = Ok (fold1 nmul (somes vs)).
Proof. exact (eval_mul nadd nsub nmul ndiv nzero nltb nis0). Qed.

(* - : a negative difference means no capacity *)
Theorem C17_sub : forall cs t vs, values cs t vs ->
  eval (Sub cs) t = Ok (match fold1 nsub (somes vs) with
                        | Some u => if nneg u then None else Some u
                        | None => None
                        end).
Proof. exact (eval_sub nadd nsub nmul ndiv nzero nltb nis0). Qed.

(* / : quotient of the present operands; a zero divisor *value* is Python's ZeroDivisionError *)
Theorem C17_div : forall cs t vs, values cs t vs ->
  eval (Div cs) t = match somes vs with
                    | [] => Ok None
                    | x :: r => if existsb nis0 r then Crash ZeroDivisionError
                                else Ok (Some (fold_left ndiv r x))
                    end.
Proof. exact (eval_div nadd nsub nmul ndiv nzero nltb nis0). Qed.

(* | : the first positive operand *)
Theorem C17_or_first : forall cs1 c cs2 t u,
  Forall (fun c' => exists v, eval c' t = Ok v /\ positive nzero nltb v = false) cs1 ->
  eval c t = Ok (Some u) -> npos u = true ->
  eval (Disj (cs1 ++ c :: cs2)) t = Ok (Some u).
Proof. exact (eval_disj_first nadd nsub nmul ndiv nzero nltb nis0). Qed.

Theorem C17_or_none : forall cs t,
  Forall (fun c' => exists v, eval c' t = Ok v /\ positive nzero nltb v = false) cs ->
  eval (Disj cs) t = Ok None.
Proof. exact (eval_disj_none nadd nsub nmul ndiv nzero nltb nis0). Qed.

(* a number acts as a constant calendar *)
Theorem C17_number : forall x c t, promote nzero nltb (ONum x) = Ok c -> eval c t = Ok (Some x).
Proof. exact (eval_promoted nadd nsub nmul ndiv nzero nltb nis0). Qed.

(* leaves: configured value inside the validity, none / zero outside *)
Theorem C17_weekly_inside : forall st en h t,
  inside t st en -> eval (Weekly st en h) t = Ok (Some (nth (Z.to_nat (weekday t)) h nzero)).
Proof. exact (eval_weekly_inside nadd nsub nmul ndiv nzero nltb nis0). Qed.

Theorem C17_weekly_outside : forall st en h t,
  before t st = true \/ after t en = true -> eval (Weekly st en h) t = Ok None.
Proof. exact (eval_weekly_outside nadd nsub nmul ndiv nzero nltb nis0). Qed.

Theorem C17_fixed_inside : forall u st en t, inside t st en -> eval (Fixed u st en) t = Ok (Some u).
Proof. exact (eval_fixed_inside nadd nsub nmul ndiv nzero nltb nis0). Qed.

Theorem C17_fixed_outside : forall u st en t,
  before t st = true \/ after t en = true -> eval (Fixed u st en) t = Ok (Some nzero).
Proof. exact (eval_fixed_outside nadd nsub nmul ndiv nzero nltb nis0). Qed.

Theorem C17_dated_hit : forall m1 k v m2 t,
  k = day_of t -> (forall kv, In kv m2 -> fst kv <> day_of t) ->
  eval (Dated (m1 ++ (k, v) :: m2)) t = Ok (Some v).
Proof. exact (eval_dated_hit nadd nsub nmul ndiv nzero nltb nis0). Qed.

Theorem C17_dated_miss : forall m t,
  (forall kv, In kv m -> fst kv <> day_of t) -> eval (Dated m) t = Ok None.
Proof. exact (eval_dated_miss nadd nsub nmul ndiv nzero nltb nis0). Qed.

(* definitions are rejected with RuntimeError exactly for: weekday outside 0-6, negative units,
   start after end, division by the number zero *)
Theorem C17_reject_weekly_days : forall st en days u,
  mk_weekly_days nzero nltb st en days u = Err <->
  (exists d, In d days /\ (d < 0 \/ 6 < d)) \/ nneg u = true \/
  (exists s e, st = Some s /\ en = Some e /\ e < s).
Proof. exact (mk_weekly_days_rejects nzero nltb). Qed.

Theorem C17_reject_weekly_dict : forall st en m,
  mk_weekly_dict nzero nltb st en m = Err <->
  (exists kv, In kv m /\ (fst kv < 0 \/ 6 < fst kv)) \/ (exists kv, In kv m /\ nneg (snd kv) = true) \/
  (exists s e, st = Some s /\ en = Some e /\ e < s).
Proof. exact (mk_weekly_dict_rejects nzero nltb). Qed.

Theorem C17_reject_fixed : forall u st en,
  mk_fixed nzero nltb u st en = Err <->
  nneg u = true \/ (exists s e, st = Some s /\ en = Some e /\ e < s).
Proof. exact (mk_fixed_rejects nzero nltb). Qed.

Theorem C17_reject_dated : forall m,
  mk_dated nzero nltb m = Err <-> exists kv, In kv m /\ nneg (snd kv) = true.
Proof. exact (mk_dated_rejects nzero nltb). Qed.

Theorem C17_reject_div0 : forall a x, nis0 x = true -> binop nzero nltb nis0 OpDiv a (ONum x) = Err.
Proof. exact (div_by_zero_number_rejected nzero nltb nis0). Qed.

Theorem C17_accept : forall k a o b,
  promote nzero nltb o = Ok b ->
  (k = OpDiv -> forall x, o = ONum x -> nis0 x = false) ->
  binop nzero nltb nis0 k a o = Ok (nary k [a; b]).
Proof. exact (binop_accepts nzero nltb nis0). Qed.

(* a resource reports 0, never None *)
Theorem C17_units : forall c t v,
  eval c t = Ok v ->
  units nadd nsub nmul ndiv nzero nltb nis0 c t = Ok (match v with Some u => u | None => nzero end).
Proof. exact (units_spec nadd nsub nmul ndiv nzero nltb nis0). Qed.

(* availability search, for every capacity function, start date and horizon *)
Theorem C17_search_forward : forall (u : Z -> num) n t t',
  search nzero nltb (fun x => Ok (u x)) 1 n t = Ok t' <->
  exists k, (k < n)%nat /\ t' = t + Z.of_nat k * DAY /\ npos (u t') = true
            /\ forall j, (j < k)%nat -> npos (u (t + Z.of_nat j * DAY)) = false.
Proof. exact (search_forward nzero nltb). Qed.

Theorem C17_search_backward : forall (u : Z -> num) n t t',
  search nzero nltb (fun x => Ok (u x)) (-1) n t = Ok t' <->
  exists k, (k < n)%nat /\ t' = t - Z.of_nat k * DAY /\ npos (u (t' - DAY)) = true
            /\ forall j, (j < k)%nat -> npos (u (t - Z.of_nat j * DAY - DAY)) = false.
Proof. exact (search_backward nzero nltb). Qed.

Theorem C17_search_fails_exactly : forall (u : Z -> num) dir n t,
  search nzero nltb (fun x => Ok (u x)) dir n t = Err <->
  ~ exists k, (k < n)%nat /\
      npos (u (if dir <? 0 then t + Z.of_nat k * (dir * DAY) - DAY else t + Z.of_nat k * (dir * DAY))) = true.
Proof. exact (search_fails_exactly nzero nltb). Qed.

End C17.

(* non-vacuity: a concrete expression over Z meeting the hypotheses *)
Example C17_example :
  let ev := @eval Z Z.add Z.sub Z.mul Z.div 0 Z.ltb (Z.eqb 0) in
  ev (Sub [Weekly None None [8;8;8;8;8;0;0]; Fixed 3 None None]) (4 * DAY) = Ok (Some 5) /\
  ev (Sub [Fixed 3 None None; Weekly None None [8;8;8;8;8;0;0]]) (4 * DAY) = Ok None /\
  search 0 Z.ltb (fun t => units Z.add Z.sub Z.mul Z.div 0 Z.ltb (Z.eqb 0)
                               (Weekly None None [8;8;8;8;8;0;0]) t) 1 10 (2 * DAY) = Ok (4 * DAY).
Proof. vm_compute. repeat split. Qed.

Print Assumptions C17_sum.
Print Assumptions C17_mul.
Print Assumptions C17_sub.
Print Assumptions C17_div.
Print Assumptions C17_or_first.
Print Assumptions C17_or_none.
Print Assumptions C17_number.
Print Assumptions C17_weekly_inside.
Print Assumptions C17_weekly_outside.
Print Assumptions C17_fixed_inside.
Print Assumptions C17_fixed_outside.
Print Assumptions C17_dated_hit.
Print Assumptions C17_dated_miss.
Print Assumptions C17_reject_weekly_days.
Print Assumptions C17_reject_weekly_dict.
Print Assumptions C17_reject_fixed.
Print Assumptions C17_reject_dated.
Print Assumptions C17_reject_div0.
Print Assumptions C17_accept.
Print Assumptions C17_units.
Print Assumptions C17_search_forward.
Print Assumptions C17_search_backward.
Print Assumptions C17_search_fails_exactly.
Print Assumptions C17_example.
