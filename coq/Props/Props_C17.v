(* C17 - Calendars and the availability search mean exactly what they say.
   Statement file: every theorem is closed by [exact] of a lemma proved in Cal/CalendarProofs.v
   and followed by Print Assumptions.  The theorems hold for every number type with arbitrary
   operations (in particular IEEE binary64), every calendar expression, every date. *)
From PJ Require Import Base.Prelude Cal.Calendar Cal.CalendarProofs gen.SrcCal Cal.SrcCalEquiv Cal.SrcCalInit.

Section C17.
Context {num : Type}.
Variables (nadd nsub nmul ndiv : num -> num -> num) (nzero : num).
Variable nltb : num -> num -> bool.
Variable nis0 : num -> bool.
Notation eval := (eval nadd nsub nmul ndiv nzero nltb nis0).
Notation values := (values nadd nsub nmul ndiv nzero nltb nis0).
Notation npos := (npos nzero nltb).
Notation nneg := (nneg nzero nltb).

(* + : the operator applied to the operands' values for the date, operands without information skipped *)
Theorem C17_sum : forall cs t vs, values cs t vs -> eval (Sum cs) t = Ok (fold1 nadd (somes vs)).
Proof. exact (eval_sum nadd nsub nmul ndiv nzero nltb nis0). Qed.

Theorem C17_mul : forall cs t vs, values cs t vs -> eval (Mul cs) t = Ok (fold1 nmul (somes vs)).
Proof. exact (eval_mul nadd nsub nmul ndiv nzero nltb nis0). Qed.

(* - : a negative difference means no capacity *)
Theorem C17_sub : forall cs t vs, values cs t vs ->
  eval (Sub cs) t = Ok (match fold1 nsub (somes vs) with
                        | Some u => if nneg u then None else Some u
                        | None => None
                        end).
Proof. exact (eval_sub nadd nsub nmul ndiv nzero nltb nis0). Qed.

(* / : quotient of the present operands; a zero divisor *value* is Python's ZeroDivisionError *)
Theorem C17_div : forall cs t vs, values cs t vs ->
  eval (Div cs) t = match somes vs with
                    | [] => Ok None
                    | x :: r => if existsb nis0 r then Crash ZeroDivisionError
                                else Ok (Some (fold_left ndiv r x))
                    end.
Proof. exact (eval_div nadd nsub nmul ndiv nzero nltb nis0). Qed.

(* | : the first positive operand *)
Theorem C17_or_first : forall cs1 c cs2 t u,
  Forall (fun c' => exists v, eval c' t = Ok v /\ positive nzero nltb v = false) cs1 ->
  eval c t = Ok (Some u) -> npos u = true ->
  eval (Disj (cs1 ++ c :: cs2)) t = Ok (Some u).
Proof. exact (eval_disj_first nadd nsub nmul ndiv nzero nltb nis0). Qed.

Theorem C17_or_none : forall cs t,
  Forall (fun c' => exists v, eval c' t = Ok v /\ positive nzero nltb v = false) cs ->
  eval (Disj cs) t = Ok None.
Proof. exact (eval_disj_none nadd nsub nmul ndiv nzero nltb nis0). Qed.

(* a number acts as a constant calendar *)
Theorem C17_number : forall x c t, promote nzero nltb (ONum x) = Ok c -> eval c t = Ok (Some x).
Proof. exact (eval_promoted nadd nsub nmul ndiv nzero nltb nis0). Qed.

(* leaves: configured value inside the validity, none / zero outside *)
Theorem C17_weekly_inside : forall st en h t,
  inside t st en -> eval (Weekly st en h) t = Ok (Some (nth (Z.to_nat (weekday t)) h nzero)).
Proof. exact (eval_weekly_inside nadd nsub nmul ndiv nzero nltb nis0). Qed.

Theorem C17_weekly_outside : forall st en h t,
  before t st = true \/ after t en = true -> eval (Weekly st en h) t = Ok None.
Proof. exact (eval_weekly_outside nadd nsub nmul ndiv nzero nltb nis0). Qed.

Theorem C17_fixed_inside : forall u st en t, inside t st en -> eval (Fixed u st en) t = Ok (Some u).
Proof. exact (eval_fixed_inside nadd nsub nmul ndiv nzero nltb nis0). Qed.

Theorem C17_fixed_outside : forall u st en t,
  before t st = true \/ after t en = true -> eval (Fixed u st en) t = Ok (Some nzero).
Proof. exact (eval_fixed_outside nadd nsub nmul ndiv nzero nltb nis0). Qed.

Theorem C17_dated_hit : forall m1 k v m2 t,
  k = day_of t -> (forall kv, In kv m2 -> fst kv <> day_of t) ->
  eval (Dated (m1 ++ (k, v) :: m2)) t = Ok (Some v).
Proof. exact (eval_dated_hit nadd nsub nmul ndiv nzero nltb nis0). Qed.

Theorem C17_dated_miss : forall m t,
  (forall kv, In kv m -> fst kv <> day_of t) -> eval (Dated m) t = Ok None.
Proof. exact (eval_dated_miss nadd nsub nmul ndiv nzero nltb nis0). Qed.

(* definitions are rejected with RuntimeError exactly for: weekday outside 0-6, negative units,
   start after end, division by the number zero *)
Theorem C17_reject_weekly_days : forall st en days u,
  mk_weekly_days nzero nltb st en days u = Err <->
  (exists d, In d days /\ (d < 0 \/ 6 < d)) \/ nneg u = true \/
  (exists s e, st = Some s /\ en = Some e /\ e < s).
Proof. exact (mk_weekly_days_rejects nzero nltb). Qed.

Theorem C17_reject_weekly_dict : forall st en m,
  mk_weekly_dict nzero nltb st en m = Err <->
  (exists kv, In kv m /\ (fst kv < 0 \/ 6 < fst kv)) \/ (exists kv, In kv m /\ nneg (snd kv) = true) \/
  (exists s e, st = Some s /\ en = Some e /\ e < s).
Proof. exact (mk_weekly_dict_rejects nzero nltb). Qed.

Theorem C17_reject_fixed : forall u st en,
  mk_fixed nzero nltb u st en = Err <->
  nneg u = true \/ (exists s e, st = Some s /\ en = Some e /\ e < s).
Proof. exact (mk_fixed_rejects nzero nltb). Qed.

Theorem C17_reject_dated : forall m,
  mk_dated nzero nltb m = Err <-> exists kv, In kv m /\ nneg (snd kv) = true.
Proof. exact (mk_dated_rejects nzero nltb). Qed.

Theorem C17_reject_div0 : forall a x, nis0 x = true -> binop nzero nltb nis0 OpDiv a (ONum x) = Err.
Proof. exact (div_by_zero_number_rejected nzero nltb nis0). Qed.

Theorem C17_accept : forall k a o b,
  promote nzero nltb o = Ok b ->
  (k = OpDiv -> forall x, o = ONum x -> nis0 x = false) ->
  binop nzero nltb nis0 k a o = Ok (nary k [a; b]).
Proof. exact (binop_accepts nzero nltb nis0). Qed.

(* a resource reports 0, never None *)
Theorem C17_units : forall c t v,
  eval c t = Ok v ->
  units nadd nsub nmul ndiv nzero nltb nis0 c t = Ok (match v with Some u => u | None => nzero end).
Proof. exact (units_spec nadd nsub nmul ndiv nzero nltb nis0). Qed.

(* availability search, for every capacity function, start date and horizon *)
Theorem C17_search_forward : forall (u : Z -> num) n t t',
  search nzero nltb (fun x => Ok (u x)) 1 n t = Ok t' <->
  exists k, (k < n)%nat /\ t' = t + Z.of_nat k * DAY /\ npos (u t') = true
            /\ forall j, (j < k)%nat -> npos (u (t + Z.of_nat j * DAY)) = false.
Proof. exact (search_forward nzero nltb). Qed.

Theorem C17_search_backward : forall (u : Z -> num) n t t',
  search nzero nltb (fun x => Ok (u x)) (-1) n t = Ok t' <->
  exists k, (k < n)%nat /\ t' = t - Z.of_nat k * DAY /\ npos (u (t' - DAY)) = true
            /\ forall j, (j < k)%nat -> npos (u (t - Z.of_nat j * DAY - DAY)) = false.
Proof. exact (search_backward nzero nltb). Qed.

Theorem C17_search_fails_exactly : forall (u : Z -> num) dir n t,
  search nzero nltb (fun x => Ok (u x)) dir n t = Err <->
  ~ exists k, (k < n)%nat /\
      npos (u (if dir <? 0 then t + Z.of_nat k * (dir * DAY) - DAY else t + Z.of_nat k * (dir * DAY))) = true.
Proof. exact (search_fails_exactly nzero nltb). Qed.

End C17.

(* non-vacuity: a concrete expression over Z meeting the hypotheses *)
Example C17_example :
  let ev := @eval Z Z.add Z.sub Z.mul Z.div 0 Z.ltb (Z.eqb 0) in
  ev (Sub [Weekly None None [8;8;8;8;8;0;0]; Fixed 3 None None]) (4 * DAY) = Ok (Some 5) /\
  ev (Sub [Fixed 3 None None; Weekly None None [8;8;8;8;8;0;0]]) (4 * DAY) = Ok None /\
  search 0 Z.ltb (fun t => units Z.add Z.sub Z.mul Z.div 0 Z.ltb (Z.eqb 0)
                               (Weekly None None [8;8;8;8;8;0;0]) t) 1 10 (2 * DAY) = Ok (4 * DAY).
Proof. vm_compute. repeat split. Qed.

(* ---- Session 3: calendar expressions as the capacity tables of the schedulers ----
   The scheduler theorems (C02-C09, C14) assume [cap_nonneg cfg : forall r d, 0 <= cap cfg r d] of an
   abstract capacity function; the scheduler harness asserts per case that the real calendar's answer
   is non-negative and does not depend on the time of day.  Both are theorems of the calendar model. *)
From PJ Require Import Cal.CalendarCap Cal.CalendarCapQ.
From Coq Require Import QArith.
Local Open Scope Z_scope.

Section C17_cap.
Context {num : Type}.
Variables (nadd nsub nmul ndiv : num -> num -> num) (nzero : num).
Variable nltb : num -> num -> bool.
Variable nis0 : num -> bool.
Variable nle : num -> num -> Prop.
Notation eval := (eval nadd nsub nmul ndiv nzero nltb nis0).
Notation units := (units nadd nsub nmul ndiv nzero nltb nis0).
Notation nn := (nle nzero).
Notation nonneg_cal := (nonneg_cal nzero nle).

(* what is needed of the numbers (discharged below for Z and for Q; false of binary64: NaN) *)
Hypothesis nn_zero : nn nzero.
Hypothesis nn_add : forall a b, nn a -> nn b -> nn (nadd a b).
Hypothesis nn_mul : forall a b, nn a -> nn b -> nn (nmul a b).
Hypothesis nn_div : forall a b, nn a -> nn b -> nis0 b = false -> nn (ndiv a b).
Hypothesis nn_not_neg : forall u, nltb u nzero = false -> nn u.

(* an expression all of whose configured amounts (weekly, dated, fixed units; promoted numbers are
   fixed leaves) are >= 0 never reports a negative amount.  No condition on divisors is needed: a zero
   divisor value makes the lookup raise, so it is not [Ok]. *)
Theorem C17_eval_nonneg : forall c t v, nonneg_cal c -> eval c t = Ok (Some v) -> nn v.
Proof. exact (eval_nonneg nadd nsub nmul ndiv nzero nltb nis0 nle nn_zero nn_add nn_mul nn_div nn_not_neg). Qed.

Theorem C17_units_nonneg : forall c t v, nonneg_cal c -> units c t = Ok v -> nn v.
Proof. exact (units_nonneg nadd nsub nmul ndiv nzero nltb nis0 nle nn_zero nn_add nn_mul nn_div nn_not_neg). Qed.

(* every definition the library accepts is such an expression *)
Theorem C17_accepted_fixed_nonneg : forall u st en c, mk_fixed nzero nltb u st en = Ok c -> nonneg_cal c.
Proof. exact (mk_fixed_nonneg nzero nltb nle nn_not_neg). Qed.

Theorem C17_accepted_weekly_days_nonneg : forall st en days u c,
  mk_weekly_days nzero nltb st en days u = Ok c -> nonneg_cal c.
Proof. exact (mk_weekly_days_nonneg nzero nltb nle nn_zero nn_not_neg). Qed.

Theorem C17_accepted_weekly_dict_nonneg : forall st en m c,
  mk_weekly_dict nzero nltb st en m = Ok c -> nonneg_cal c.
Proof. exact (mk_weekly_dict_nonneg nzero nltb nle nn_zero nn_not_neg). Qed.

Theorem C17_accepted_dated_nonneg : forall m c, mk_dated nzero nltb m = Ok c -> nonneg_cal c.
Proof. exact (mk_dated_nonneg nzero nltb nle nn_not_neg). Qed.

Theorem C17_accepted_set_units_nonneg : forall c0 m c,
  nonneg_cal c0 -> dated_set nzero nltb c0 m = Ok c -> nonneg_cal c.
Proof. exact (dated_set_nonneg nzero nltb nle nn_not_neg). Qed.

Theorem C17_accepted_binop_nonneg : forall k a o c,
  nonneg_cal a -> (forall b, o = OCal b -> nonneg_cal b) ->
  binop nzero nltb nis0 k a o = Ok c -> nonneg_cal c.
Proof. exact (binop_nonneg nzero nltb nis0 nle nn_not_neg). Qed.

(* the capacity is a function of the day when no validity bound falls strictly inside a day:
   start bounds are midnights, end bounds (inclusive in the code) are the last microsecond of a day.
   No fact about numbers is used. *)
Theorem C17_day_function : forall c, aligned_cal c -> forall t, eval c t = eval c (day_start t).
Proof. exact (eval_day_start nadd nsub nmul ndiv nzero nltb nis0). Qed.

Theorem C17_units_day_function : forall c, aligned_cal c -> forall t, units c t = units c (day_start t).
Proof. exact (units_day_start nadd nsub nmul ndiv nzero nltb nis0). Qed.

Theorem C17_same_day : forall c t t', aligned_cal c -> day_of t = day_of t' -> eval c t = eval c t'.
Proof. exact (eval_same_day nadd nsub nmul ndiv nzero nltb nis0). Qed.

(* a lookup can raise only through / (ZeroDivisionError): an expression without it always answers *)
Theorem C17_total : forall c, div_free c -> forall t, exists v, units c t = Ok v.
Proof. exact (units_total nadd nsub nmul ndiv nzero nltb nis0). Qed.

End C17_cap.

(* instances: exact integers with floor division *)
Theorem C17_eval_nonneg_Z : forall (c : cal Z) t v,
  nonneg_cal 0 Z.le c -> eval Z.add Z.sub Z.mul Z.div 0 Z.ltb (Z.eqb 0) c t = Ok (Some v) -> 0 <= v.
Proof. exact zeval_nonneg. Qed.

Theorem C17_units_nonneg_Z : forall (c : cal Z) t v,
  nonneg_cal 0 Z.le c -> units Z.add Z.sub Z.mul Z.div 0 Z.ltb (Z.eqb 0) c t = Ok v -> 0 <= v.
Proof. exact zunits_nonneg. Qed.

(* exact rationals,  x < y := negb (Qle_bool y x),  x == 0 := Qeq_bool x 0 *)
Theorem C17_eval_nonneg_Q : forall (c : cal Q) t v,
  nonneg_cal 0%Q Qle c -> eval Qplus Qminus Qmult Qdiv 0%Q qltb qis0 c t = Ok (Some v) -> (0 <= v)%Q.
Proof. exact qeval_nonneg. Qed.

Theorem C17_units_nonneg_Q : forall (c : cal Q) t v,
  nonneg_cal 0%Q Qle c -> units Qplus Qminus Qmult Qdiv 0%Q qltb qis0 c t = Ok v -> (0 <= v)%Q.
Proof. exact qunits_nonneg. Qed.

(* glue to the schedulers: [cap_of_cals cs r d] = what resource r reports at 00:00 of day d.
   [Sched.Model.cap_nonneg cfg] is literally [forall r d, 0 <= cap cfg r d]. *)
Theorem C17_cap_nonneg : forall cs : nat -> cal Z,
  (forall r, nonneg_cal 0 Z.le (cs r)) -> forall r d, 0 <= cap_of_cals cs r d.
Proof. exact cap_of_cals_nonneg. Qed.

Theorem C17_cap_any_time : forall cs : nat -> cal Z,
  (forall r, aligned_cal (cs r)) ->
  forall r t v, units Z.add Z.sub Z.mul Z.div 0 Z.ltb (Z.eqb 0) (cs r) t = Ok v ->
                units Z.add Z.sub Z.mul Z.div 0 Z.ltb (Z.eqb 0) (cs r) t = Ok (cap_of_cals cs r (day_of t)).
Proof. exact cap_of_cals_any_time. Qed.

Theorem C17_cap_exact : forall cs : nat -> cal Z,
  (forall r, aligned_cal (cs r)) -> (forall r, div_free (cs r)) ->
  forall r t, units Z.add Z.sub Z.mul Z.div 0 Z.ltb (Z.eqb 0) (cs r) t = Ok (cap_of_cals cs r (day_of t)).
Proof. exact cap_of_cals_exact. Qed.

(* non-vacuity: (Mon-Fri 8 in January 2024 | 4 on Saturday 01-06) * 2 - 16 on the holiday 01-08 is
   non-negative and day aligned; 00:00 and 15:30 of Tuesday 01-02 agree *)
Example C17_cap_example :
  nonneg_cal 0 Z.le cap_example /\ aligned_cal cap_example /\ div_free cap_example /\
  zeval cap_example (DAY * 19724) = Ok (Some 16) /\
  zeval cap_example (DAY * 19724 + 55800000000) = Ok (Some 16) /\
  zeval cap_example (DAY * 19728 + 55800000000) = Ok (Some 8) /\
  zeval cap_example (DAY * 19730 + 55800000000) = Ok (Some 0) /\
  zunits cap_example (DAY * 19754) = Ok 2 /\
  cap_of_cals (fun _ => cap_example) 0 19724 = 16.
Proof.
  split; [apply nonneg_zcalb_sound; vm_compute; reflexivity|].
  split; [apply aligned_calb_sound; vm_compute; reflexivity|].
  split; [apply div_freeb_sound; vm_compute; reflexivity|].
  vm_compute. repeat split.
Qed.

(* the alignment condition is needed, separately for each bound: an end bound written as a midnight
   (not aligned: the end is inclusive) and a start bound at noon both make two instants of one day
   disagree - the input class probed by the robustness stream of C14 *)
Example C17_bound_inside_day_breaks_day_function :
  let c1 : cal Z := Fixed 8 None (Some (DAY * 19724)) in
  let c2 : cal Z := Weekly (Some (DAY * 19724 + 43200000000)) None [8;8;8;8;8;0;0] in
  (nonneg_cal 0 Z.le c1 /\ ~ aligned_cal c1 /\
   zunits c1 (DAY * 19724 + 1) = Ok 0 /\ zunits c1 (day_start (DAY * 19724 + 1)) = Ok 8) /\
  (nonneg_cal 0 Z.le c2 /\ ~ aligned_cal c2 /\
   zunits c2 (DAY * 19724 + 46800000000) = Ok 8 /\ zunits c2 (day_start (DAY * 19724 + 46800000000)) = Ok 0).
Proof.
  split.
  - split; [apply nonneg_zcalb_sound; vm_compute; reflexivity|].
    split; [intros [_ H]; vm_compute in H; discriminate|]. vm_compute. split; reflexivity.
  - split; [apply nonneg_zcalb_sound; vm_compute; reflexivity|].
    split; [intros [H _]; vm_compute in H; discriminate|]. vm_compute. split; reflexivity.
Qed.

(* ---- the tie to the source text -------------------------------------------------------------------
   gen/SrcCal.v is produced on every run by harness/srcgen from the *current source text* of
   src/pjplan/calendar.py and src/pjplan/resource.py.  For all inputs the translated method bodies are the
   model about which the theorems above are stated (a calendar object is seen by the translated code through
   its get_available_units, `as_fn`). *)
Section C17_src.
Context {num : Type}.
Variables (nadd nsub nmul ndiv : num -> num -> num) (nzero : num).
Variable nltb : num -> num -> bool.
Variable nis0 : num -> bool.
Notation eval := (eval nadd nsub nmul ndiv nzero nltb nis0).
Notation as_fn := (as_fn nadd nsub nmul ndiv nzero nltb nis0).

Theorem C17_src_sum : forall cs t, src_sum_units nadd (map as_fn cs) t = eval (Sum cs) t.
Proof. exact (src_sum_units_eq nadd nsub nmul ndiv nzero nltb nis0). Qed.

Theorem C17_src_sub : forall cs t, src_sub_units nsub nzero nltb (map as_fn cs) t = eval (Sub cs) t.
Proof. exact (src_sub_units_eq nadd nsub nmul ndiv nzero nltb nis0). Qed.

Theorem C17_src_mul : forall cs t, src_mul_units nmul (map as_fn cs) t = eval (Mul cs) t.
Proof. exact (src_mul_units_eq nadd nsub nmul ndiv nzero nltb nis0). Qed.

Theorem C17_src_div : forall cs t, src_div_units ndiv nis0 (map as_fn cs) t = eval (Div cs) t.
Proof. exact (src_div_units_eq nadd nsub nmul ndiv nzero nltb nis0). Qed.

Theorem C17_src_or : forall cs t, src_disj_units nzero nltb (map as_fn cs) t = eval (Disj cs) t.
Proof. exact (src_disj_units_eq nadd nsub nmul ndiv nzero nltb nis0). Qed.

Theorem C17_src_fixed : forall u st en t, src_fixed_units nzero u st en t = eval (Fixed u st en) t.
Proof. exact (src_fixed_units_eq nadd nsub nmul ndiv nzero nltb nis0). Qed.

Theorem C17_src_weekly : forall st en h t, src_weekly_units nzero st en h t = eval (Weekly st en h) t.
Proof. exact (src_weekly_units_eq nadd nsub nmul ndiv nzero nltb nis0). Qed.

(* the dict of a DirectCalendar is keyed by midnights (DAY * day number) *)
Theorem C17_src_dated : forall m t, src_direct_units (by_midnight m) t = eval (Dated m) t.
Proof. exact (src_direct_units_eq nadd nsub nmul ndiv nzero nltb nis0). Qed.

Theorem C17_src_resource_units : forall c t,
  src_resource_units nzero (as_fn c) t = units nadd nsub nmul ndiv nzero nltb nis0 c t.
Proof. exact (src_resource_units_eq nadd nsub nmul ndiv nzero nltb nis0). Qed.

(* the search loop of IResource.get_nearest_availability_date, for any get_available_units [u] and any horizon:
   `while step < max_days` never runs out of the fuel S (Z.to_nat max_days) handed to the translated loop *)
Theorem C17_src_search : forall (u : Z -> res num) t dir max_days,
  src_nearest nzero nltb u t dir max_days = search nzero nltb u dir (Z.to_nat max_days) t.
Proof. exact (src_nearest_eq nzero nltb). Qed.

(* constructor validation: FixedCalendar.__init__ accepts exactly what mk_fixed accepts; the two static checks of
   WeeklyCalendar reject start > end and weekdays outside 0-6 *)
Theorem C17_src_fixed_init : forall u st en,
  src_fixed_init nzero nltb u st en
  = match mk_fixed nzero nltb u st en with Ok _ => Ok tt | Err => Err | Crash k => Crash k end.
Proof. exact (src_fixed_init_eq nzero nltb). Qed.

Theorem C17_src_check_start_end : forall st en,
  src_check_start_end st en = if bad_interval st en then Err else Ok tt.
Proof. exact src_check_start_end_eq. Qed.

Theorem C17_src_check_working_days : forall days,
  src_check_working_days (Some days) = if forallb weekday_ok days then Ok tt else Err.
Proof. exact src_check_working_days_eq. Qed.

(* WeeklyCalendar.__init__ in its two argument forms, as the function from the arguments to the week table it builds *)
Theorem C17_src_weekly_init_days : forall st en days u,
  src_weekly_init_days nzero nltb st en days u = table_of (mk_weekly_days nzero nltb st en days u).
Proof. exact (src_weekly_init_days_eq nzero nltb). Qed.

Theorem C17_src_weekly_init_dict : forall st en m,
  NoDup (map fst m) -> nltb nzero nzero = false ->
  src_weekly_init_dict nzero nltb st en m = table_of (mk_weekly_dict nzero nltb st en m).
Proof. exact (src_weekly_init_dict_eq nzero nltb). Qed.

End C17_src.

Print Assumptions C17_sum.
Print Assumptions C17_mul.
Print Assumptions C17_sub.
Print Assumptions C17_div.
Print Assumptions C17_or_first.
Print Assumptions C17_or_none.
Print Assumptions C17_number.
Print Assumptions C17_weekly_inside.
Print Assumptions C17_weekly_outside.
Print Assumptions C17_fixed_inside.
Print Assumptions C17_fixed_outside.
Print Assumptions C17_dated_hit.
Print Assumptions C17_dated_miss.
Print Assumptions C17_reject_weekly_days.
Print Assumptions C17_reject_weekly_dict.
Print Assumptions C17_reject_fixed.
Print Assumptions C17_reject_dated.
Print Assumptions C17_reject_div0.
Print Assumptions C17_accept.
Print Assumptions C17_units.
Print Assumptions C17_search_forward.
Print Assumptions C17_search_backward.
Print Assumptions C17_search_fails_exactly.
Print Assumptions C17_example.
Print Assumptions C17_eval_nonneg.
Print Assumptions C17_units_nonneg.
Print Assumptions C17_accepted_fixed_nonneg.
Print Assumptions C17_accepted_weekly_days_nonneg.
Print Assumptions C17_accepted_weekly_dict_nonneg.
Print Assumptions C17_accepted_dated_nonneg.
Print Assumptions C17_accepted_set_units_nonneg.
Print Assumptions C17_accepted_binop_nonneg.
Print Assumptions C17_day_function.
Print Assumptions C17_units_day_function.
Print Assumptions C17_same_day.
Print Assumptions C17_total.
Print Assumptions C17_eval_nonneg_Z.
Print Assumptions C17_units_nonneg_Z.
Print Assumptions C17_eval_nonneg_Q.
Print Assumptions C17_units_nonneg_Q.
Print Assumptions C17_cap_nonneg.
Print Assumptions C17_cap_any_time.
Print Assumptions C17_cap_exact.
Print Assumptions C17_cap_example.
Print Assumptions C17_bound_inside_day_breaks_day_function.
Print Assumptions C17_src_sum.
Print Assumptions C17_src_sub.
Print Assumptions C17_src_mul.
Print Assumptions C17_src_div.
Print Assumptions C17_src_or.
Print Assumptions C17_src_fixed.
Print Assumptions C17_src_weekly.
Print Assumptions C17_src_dated.
Print Assumptions C17_src_resource_units.
Print Assumptions C17_src_search.
Print Assumptions C17_src_fixed_init.
Print Assumptions C17_src_check_start_end.
Print Assumptions C17_src_check_working_days.
Print Assumptions C17_src_weekly_init_days.
Print Assumptions C17_src_weekly_init_dict.
