(* C03 - Schedules never over-allocate a resource.
   Statement file: theorems closed by [exact], Print Assumptions below.  They hold for every WBS
   (any size, hierarchy, links), every capacity function with non-negative values (hence every
   calendar expression), both schedulers, both balance settings, every project bound and clock. *)
From PJ Require Import Base.Prelude Sched.Model Sched.Machine Sched.Instances Sched.C03Proofs
     Sched.Check Sched.Oracles Sched.OracleProofs.

(* every usage row of a forward schedule: positive amount, booked on its task's resource, on a day
   with calendar capacity; the day's bookings (all tasks when balancing, the task's own otherwise)
   do not exceed the capacity *)
Theorem C03_forward : forall cfg w st,
  cap_nonneg cfg -> forward cfg w = Ok st -> no_overallocation cfg w (lg st).
Proof. exact C03_forward_holds. Qed.

Theorem C03_backward : forall cfg w st,
  cap_nonneg cfg -> backward cfg w = Ok st -> no_overallocation cfg w (lg st).
Proof. exact C03_backward_holds. Qed.

(* the executable oracle evaluated on the implementation's rows means exactly that statement ... *)
Theorem C03_oracle_meaning : forall cfg w o, c03_b cfg w o = true <-> c03_statement cfg w (o_rows o).
Proof. exact c03_b_spec. Qed.

(* ... and the model's own output always passes it *)
Theorem C03_forward_passes_oracle : forall cfg w st,
  cap_nonneg cfg -> forward cfg w = Ok st -> c03_b cfg w (obs_of w st) = true.
Proof. exact C03_forward_oracle. Qed.

Theorem C03_backward_passes_oracle : forall cfg w st,
  cap_nonneg cfg -> backward cfg w = Ok st -> c03_b cfg w (obs_of w st) = true.
Proof. exact C03_backward_oracle. Qed.

(* the report's per-day totals agree with its rows *)
Theorem C03_report_meaning : forall o reserved,
  c03_report_b o reserved = true <-> forall r d v, In (r, d, v) reserved -> obooked (o_rows o) r d = v.
Proof. exact c03_report_b_spec. Qed.

(* the abstract ledger machine: any fill keeps the invariant, whatever the ledger was *)
Theorem C03_fill_keeps_invariant : forall cp balance r t dir n l d left l' dl,
  dir <> 0 -> fill (cp r) balance r t dir n l d left = Ok (l', dl) -> 0 < left ->
  LedgerProofs.ledger_ok cp balance l ->
  exists new, l' = new ++ l /\ new <> [] /\ (forall x, In x new -> r_res x = r /\ r_task x = t /\ 0 < r_units x)
              /\ LedgerProofs.ledger_ok cp balance l'.
Proof. exact fill_ledger_ok. Qed.

(* non-vacuity: two competing tasks on a Mon-Fri 8h resource really produce a schedule whose rows
   fill the first day *)
Definition ex_cap (r : nat) (d : Z) : Z := if weekday_of_day d <? 5 then 64 else 0.
Definition ex_cfg : config :=
  {| cap := ex_cap; balance := true; dflt_est := 0; pbound := 19723 * DAY; now := 19700 * DAY;
     h_search := 1000; h_near := 1000; h_fill := 1000 |}.
Definition ex_task (e : Z) : itask :=
  {| k_parent := None; k_children := []; k_preds := []; k_succs := []; k_ext := false; k_milestone := false;
     k_res := 0; k_est := Some e; k_spent := None; k_start := None; k_end := None; k_minstart := None |}.
Example C03_example :
  (forall r d, 0 <= ex_cap r d) /\
  match forward ex_cfg [ex_task 80; ex_task 48] with
  | Ok st => map r_units (rev (lg st)) = [64; 16; 48] /\ booked (lg st) 0 (19723 + 1) = 64
  | _ => False
  end.
Proof.
  split.
  - intros r d. unfold ex_cap. destruct (weekday_of_day d <? 5); lia.
  - vm_compute. split; reflexivity.
Qed.

Print Assumptions C03_forward.
Print Assumptions C03_backward.
Print Assumptions C03_oracle_meaning.
Print Assumptions C03_forward_passes_oracle.
Print Assumptions C03_backward_passes_oracle.
Print Assumptions C03_report_meaning.
Print Assumptions C03_fill_keeps_invariant.
Print Assumptions C03_example.
