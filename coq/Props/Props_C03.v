(* C03 - Schedules never over-allocate a resource.
   Statement file: theorems closed by [exact], Print Assumptions below.  They hold for every WBS
   (any size, hierarchy, links), every capacity function with non-negative values (hence every
   calendar expression), both schedulers, both balance settings, every project bound and clock. *)
From PJ Require Import Base.Prelude Sched.Model Sched.Machine Sched.Instances Sched.C03Proofs
     Sched.Check Sched.Oracles Sched.OracleProofs.
From PJ Require Import Sched.WfIn Sched.C03Report Sched.C03ReportCheck Sched.C03ReportProofs.
From PJ Require gen.Consts.

(* every usage row of a forward schedule: positive amount, booked on its task's resource, on a day
   with calendar capacity; the day's bookings (all tasks when balancing, the task's own otherwise)
   do not exceed the capacity *)
Theorem C03_forward : forall cfg w st,
  cap_nonneg cfg -> forward cfg w = Ok st -> no_overallocation cfg w (lg st).
Proof. exact C03_forward_holds. Qed.

Theorem C03_backward : forall cfg w st,
  cap_nonneg cfg -> backward cfg w = Ok st -> no_overallocation cfg w (lg st).
Proof. exact C03_backward_holds. Qed.

(* the executable oracle evaluated on the implementation's rows means exactly that statement ... *)
Theorem C03_oracle_meaning : forall cfg w o, c03_b cfg w o = true <-> c03_statement cfg w (o_rows o).
Proof. exact c03_b_spec. Qed.

(* ... and the model's own output always passes it *)
Theorem C03_forward_passes_oracle : forall cfg w st,
  cap_nonneg cfg -> forward cfg w = Ok st -> c03_b cfg w (obs_of w st) = true.
Proof. exact C03_forward_oracle. Qed.

Theorem C03_backward_passes_oracle : forall cfg w st,
  cap_nonneg cfg -> backward cfg w = Ok st -> c03_b cfg w (obs_of w st) = true.
Proof. exact C03_backward_oracle. Qed.

(* the report's per-day totals agree with its rows *)
Theorem C03_report_meaning : forall o reserved,
  c03_report_b o reserved = true <-> forall r d v, In (r, d, v) reserved -> obooked (o_rows o) r d = v.
Proof. exact c03_report_b_spec. Qed.

(* the abstract ledger machine: any fill keeps the invariant, whatever the ledger was *)
Theorem C03_fill_keeps_invariant : forall cp balance r t dir n l d left l' dl,
  dir <> 0 -> fill (cp r) balance r t dir n l d left = Ok (l', dl) -> 0 < left ->
  LedgerProofs.ledger_ok cp balance l ->
  exists new, l' = new ++ l /\ new <> [] /\ (forall x, In x new -> r_res x = r /\ r_task x = t /\ 0 < r_units x)
              /\ LedgerProofs.ledger_ok cp balance l'.
Proof. exact fill_ledger_ok. Qed.

(* non-vacuity: two competing tasks on a Mon-Fri 8h resource really produce a schedule whose rows
   fill the first day *)
Definition ex_cap (r : nat) (d : Z) : Z := if weekday_of_day d <? 5 then 64 else 0.
Definition ex_cfg : config :=
  {| cap := ex_cap; balance := true; dflt_est := 0; pbound := 19723 * DAY; now := 19700 * DAY;
     h_search := 1000; h_near := 1000; h_fill := 1000 |}.
Definition ex_task (e : Z) : itask :=
  {| k_parent := None; k_children := []; k_preds := []; k_succs := []; k_ext := false; k_milestone := false;
     k_res := 0; k_est := Some e; k_spent := None; k_start := None; k_end := None; k_minstart := None |}.
Example C03_example :
  (forall r d, 0 <= ex_cap r d) /\
  match forward ex_cfg [ex_task 80; ex_task 48] with
  | Ok st => map r_units (rev (lg st)) = [64; 16; 48] /\ booked (lg st) 0 (19723 + 1) = 64
  | _ => False
  end.
Proof.
  split.
  - intros r d. unfold ex_cap. destruct (weekday_of_day d <? 5); lia.
  - vm_compute. split; reflexivity.
Qed.

(* ---------- the usage report and the resources of the result (last sentence of the property) ---------- *)

(* per-day totals: reserved(resource, day) - a left-to-right sum from 0 over the matching rows - is the
   [obooked] of the report's rows, for the model's schedule the ledger's [booked]; totals add up over
   concatenated reports *)
Theorem C03_report_totals : forall rows r d,
  report_reserved rows r d = obooked rows r d
  /\ (forall l, rows = map row_obs (rev l) -> report_reserved rows r d = booked l r d)
  /\ (forall a b, rows = a ++ b -> report_reserved rows r d = report_reserved a r d + report_reserved b r d).
Proof. exact report_totals_all. Qed.

(* filtered views: rows(filter) keeps exactly the accepted rows, in the report's order; rows(None) is the
   report; the rows of one task are the oracle's [rows_of] *)
Theorem C03_report_filter : forall rows f,
  (forall x, In x (report_rows rows f) <-> In x rows /\ f x = true)
  /\ (forall a b, report_rows (a ++ b) f = report_rows a f ++ report_rows b f)
  /\ (forall x, report_rows [x] f = if f x then [x] else [])
  /\ report_all rows = rows
  /\ report_rows rows (fun _ => false) = [].
Proof. exact report_filter. Qed.

Theorem C03_report_task_rows : forall o t, task_rows (o_rows o) t = rows_of o t.
Proof. exact task_rows_rows_of. Qed.

(* every resource named by a member task (summaries and milestones included) and every supplied resource is in
   the table, nothing else is, no name twice, the supplied ones first *)
Theorem C03_resources_present : forall supplied w,
  (forall r, In r (resource_table supplied w)
             <-> In r supplied \/ exists t, In t (members w) /\ k_res (gett w t) = r)
  /\ NoDup (resource_table supplied w)
  /\ exists rest, resource_table supplied w = supplied_keys supplied ++ rest.
Proof. exact resources_present. Qed.

(* the table of an actual run registers the tasks in the order the pass calculates them: same names *)
Theorem C03_run_table_forward : forall cfg supplied w st, WFin w -> forward cfg w = Ok st ->
  forall r, In r (run_table supplied w st) <-> In r (resource_table supplied w).
Proof. exact run_table_forward. Qed.

Theorem C03_run_table_backward : forall cfg supplied w st, WFin w -> backward cfg w = Ok st ->
  forall r, In r (run_table supplied w st) <-> In r (resource_table supplied w).
Proof. exact run_table_backward. Qed.

(* a name that was not supplied answers with the default calendar: 8 units Monday..Friday, 0 on Saturday and
   Sunday - built from the constants read from calendar.DEFAULT_CALENDAR on this run *)
Theorem C03_default_resource : forall sup_cap supplied k r d,
  (In r supplied -> table_cap sup_cap supplied k r d = sup_cap r d)
  /\ (~ In r supplied ->
      table_cap sup_cap supplied k r d = default_cal k d
      /\ default_cal k d = weekly_cap gen.Consts.default_weekdays (gen.Consts.default_units * k) d
      /\ (weekday_of_day d < 5 -> default_cal k d = 8 * k)
      /\ (5 <= weekday_of_day d -> default_cal k d = 0)).
Proof. exact default_resource. Qed.

Theorem C03_default_consts :
  model_weekdays = gen.Consts.default_weekdays /\ model_units = gen.Consts.default_units.
Proof. exact default_consts. Qed.

(* the schedules of the model, resources that were not supplied being default ones: totals, filtered views,
   resources present; rows of a default resource lie on Monday..Friday and sum to at most 8 units a day *)
Theorem C03_forward_report : forall cfg supplied k w st,
  cap_nonneg cfg -> 0 <= k -> WFin w ->
  forward (with_defaults cfg supplied k) w = Ok st -> report_ok cfg supplied k w st.
Proof. exact forward_report. Qed.

Theorem C03_backward_report : forall cfg supplied k w st,
  cap_nonneg cfg -> 0 <= k -> WFin w ->
  backward (with_defaults cfg supplied k) w = Ok st -> report_ok cfg supplied k w st.
Proof. exact backward_report. Qed.

(* the second checker pass over the implementation's observations: code 0 means the three clauses, and a
   tabulation accepted as "default" is the default calendar on every day *)
Theorem C03_report_checker_meaning : forall c, check_report c = 0%nat -> report_case_ok c.
Proof. exact check_report_sound. Qed.

Theorem C03_report_checker_complete : forall c,
  (forall r d v, In (r, d, v) (p_reserved c) -> Z.abs (obooked (p_rows c) r d - v) <= p_eps c) ->
  (forall r, In r (p_resources c)
             <-> nth r (p_supplied c) false = true
                 \/ exists t, In t (members (p_w c)) /\ k_res (gett (p_w c) t) = r) ->
  check_report c = 0%nat \/ check_report c = 4%nat.
Proof. exact check_report_complete. Qed.

Theorem C03_default_tabulation : forall rs k r,
  tab_is_default rs k r = true -> forall d, cap_of rs r d = default_cal k d.
Proof. exact tab_is_default_sound. Qed.

(* non-vacuity: a summary (resource 1) over a leaf on the supplied resource 0 and a leaf on resource 3, and a
   milestone on resource 2; only resource 0 is supplied.  The run registers 3 (leaf), then 1 (summary), then 2
   (milestone) after the supplied 0; the rows of resource 3 are booked against the default calendar. *)
Definition ex_rtask (p : option nat) (ch : list nat) (ms : bool) (r : nat) (e : option Z) : itask :=
  {| k_parent := p; k_children := ch; k_preds := []; k_succs := []; k_ext := false; k_milestone := ms;
     k_res := r; k_est := e; k_spent := None; k_start := None; k_end := None; k_minstart := None |}.
Definition ex_rw : list itask :=
  [ex_rtask None [1; 2]%nat false 1 None; ex_rtask (Some 0%nat) [] false 0 (Some 80);
   ex_rtask (Some 0%nat) [] false 3 (Some 144); ex_rtask None [] true 2 None].
Example C03_report_example :
  cap_nonneg ex_cfg /\ WFin ex_rw /\
  match forward (with_defaults ex_cfg [0%nat] 8) ex_rw with
  | Ok st => run_table [0%nat] ex_rw st = [0; 3; 1; 2]%nat
             /\ resource_table [0%nat] ex_rw = [0; 1; 3; 2]%nat
             /\ model_rows st = [(0%nat, 19723, 1%nat, 64); (0%nat, 19724, 1%nat, 16);
                                (3%nat, 19723, 2%nat, 64); (3%nat, 19724, 2%nat, 64); (3%nat, 19725, 2%nat, 16)]
             /\ report_reserved (model_rows st) 3 19724 = 64
             /\ task_rows (model_rows st) 1 = [(0%nat, 19723, 1%nat, 64); (0%nat, 19724, 1%nat, 16)]
  | _ => False
  end.
Proof.
  split; [|split].
  - intros r d. cbn [cap ex_cfg]. unfold ex_cap. destruct (weekday_of_day d <? 5); lia.
  - vm_compute. reflexivity.
  - vm_compute. repeat split; reflexivity.
Qed.

(* ---- Session 3: the capacity table is the calendar model ----
   The scheduler theorems above are stated for an abstract capacity function; in the correspondence run it is
   [cap_of] of a table the harness fills from the real calendars.  [check_captie] (third pass of harness/props/c03.py,
   over every on-grid case) evaluates the calendar model of C17 - exact rationals, the case's calendar expressions
   built through the model's constructors, the default calendar of gen/Consts.v for a resource nobody supplied - on
   every day of the window and of the two weekly patterns.  Code 0 means: *)
From PJ Require Import Cal.Calendar Cal.CalendarCap Cal.CalendarCapQ Sched.CapTie Sched.CapTieProofs.
From Coq Require Import QArith.
Local Open Scope Z_scope.

(* every expression builds, and each compared entry is the model's answer at 00:00 of that day, times K:
   on the window [cap_of] IS [cap_of_qcals] of the case's calendars *)
Theorem C03_captie_meaning : forall c r,
  check_captie c = 0%nat -> (r < length (t_res c))%nat ->
  qbuild (the_expr (fst (nth r (t_res c) (None, no_rescal)))) = Ok (tie_cals c r) /\
  (aligned_calb (tie_cals c r) = true ->
   forall d, in_ext_window (nth r (tie_tables c) no_rescal) d ->
   (inject_Z (cap_of (tie_tables c) r d) == cap_of_qcals (tie_cals c) r d * inject_Z (t_scale c))%Q).
Proof. exact captie_meaning. Qed.

(* the calendar's answer at ANY instant of such a day is the table entry of the day (day independence, a theorem
   of the calendar model for day-aligned expressions, instead of the runner's probe at 13:00:00.000007) *)
Theorem C03_captie_any_time : forall c r,
  check_captie c = 0%nat -> (r < length (t_res c))%nat -> aligned_calb (tie_cals c r) = true ->
  forall t, in_ext_window (nth r (tie_tables c) no_rescal) (day_of t) ->
  exists q, qunits (tie_cals c r) t = Ok q /\
            (q * inject_Z (t_scale c) == inject_Z (cap_of (tie_tables c) r (day_of t)))%Q.
Proof. exact captie_any_time. Qed.

(* the hypothesis [cap_nonneg] of C03_forward / C03_backward (and of C02 - C09, C14) for the configuration the
   harness builds, on EVERY day (outside the compared days the table repeats its weekly patterns): from the
   non-negativity theorem of the calendar model, not from an inspection of the table *)
Theorem C03_captie_cap_nonneg : forall c fwd bal de pb nw,
  check_captie c = 0%nat -> 0 <= t_scale c ->
  (forall r, (r < length (t_res c))%nat -> aligned_calb (tie_cals c r) = true /\ nonneg_qcalb (tie_cals c r) = true) ->
  cap_nonneg (mk_config fwd (tie_tables c) bal de pb nw).
Proof. exact captie_cap_nonneg_config. Qed.

(* the rational twins of C17_cap_nonneg / C17_cap_any_time (Props_C17.v states them for exact integers) *)
Theorem C03_captie_model_nonneg : forall cs : nat -> cal Q,
  (forall r, nonneg_cal 0%Q Qle (cs r)) -> forall r d, (0 <= cap_of_qcals cs r d)%Q.
Proof. exact cap_of_qcals_nonneg. Qed.

Theorem C03_captie_model_any_time : forall cs : nat -> cal Q,
  (forall r, aligned_cal (cs r)) ->
  forall r t v, qunits (cs r) t = Ok v -> qunits (cs r) t = Ok (cap_of_qcals cs r (day_of t)).
Proof. exact cap_of_qcals_any_time. Qed.

(* non-vacuity: a default resource and  (Mon-Fri 8 from Tue 2029-01-02) * 0.5 | Saturdays 2  (before its validity the
   weekly operand is skipped and the scalar alone answers: half a unit every day - same on the implementation), K = 8,
   window Mon-Wed: tied; both calendars day aligned and non-negative; a table with a doubled Friday is code 2 *)
Example C03_captie_example :
  check_captie (tie_example 32) = 0%nat /\ check_captie (tie_example 64) = 2%nat /\
  (forall r, (r < length (t_res (tie_example 32)))%nat ->
     aligned_calb (tie_cals (tie_example 32) r) = true /\ nonneg_qcalb (tie_cals (tie_example 32) r) = true) /\
  cap_of (tie_tables (tie_example 32)) 1 21550 = 4 /\ cap_of (tie_tables (tie_example 32)) 1 21551 = 32 /\
  cap_of (tie_tables (tie_example 32)) 1 30004 = 16 /\
  cap_nonneg (mk_config true (tie_tables (tie_example 32)) true 0 0 0).
Proof. exact tie_example_ok. Qed.

(* ---- the tie to the source text: the reading side of the usage ledger --------------------------------------
   gen/SrcSched.v is produced on every run by harness/srcgen from the *current source text* of
   `_ResourceUsage.__get_key` and `_ResourceUsage.reserved` (src/pjplan/schedule.py).  For every ledger the translated
   method returns the amount that the model subtracts from the calendar capacity ([used]: everybody's reservations of
   the day when balancing, the task's own otherwise), so the bound of C03_forward / C03_backward is a bound on what
   `reserved` of this code reports.  [rows_of l]: the rows in the order of reservation, dated by midnights. *)
From PJ Require Import gen.SrcSched Sched.SrcSchedEquiv.

Theorem C03_src_reserved_all : forall l r t, src_reserved (rows_of l) r t None = Ok (booked l r (day_of t)).
Proof. exact src_reserved_all_eq. Qed.

Theorem C03_src_reserved_task : forall l r t k, src_reserved (rows_of l) r t (Some k) = Ok (booked_t l r (day_of t) k).
Proof. exact src_reserved_task_eq. Qed.

Theorem C03_src_reserved_used : forall (balance : bool) l r t k,
  src_reserved (rows_of l) r t (if balance then None else Some k) = Ok (used balance l r (day_of t) k).
Proof. exact src_reserved_used_eq. Qed.

(* ---- the tie to the source text: the writing side of the ledger and the day-by-day fill --------------------------
   gen/SrcFill.v is produced on every run by harness/srcgen from the *current source text* of `_ResourceUsage.reserve /
   .reserved` and of the two `__shift_by_resource_usage_and_calendar` methods (over exact rationals).  For every
   configuration, ledger, resource, task, date and amount the translated fill loops are the model's [fwd_shift] /
   [bwd_shift] (same rows in the same order, same date), hence whatever they append keeps every day within its capacity.
   [qrows_of l]: the code's rows (reservation order, dated by midnights, rational units); [gau_of] / [nearest_of]: the
   resource as the translated code sees it (capacity of the day of a datetime; the availability search of C17). *)
From Coq Require Import QArith.
From PJ Require Import Cal.Calendar gen.SrcFill Sched.SrcFillEquiv Sched.SrcFillInv.
Open Scope Z_scope.

Theorem C03_src_reserved_q : forall (balance : bool) l r t k,
  src_qreserved (qrows_of l) r t (if balance then None else Some k) = Ok (inject_Z (used balance l r (day_of t) k)).
Proof. exact src_qreserved_used_eq. Qed.

Theorem C03_src_reserve : forall l r t k u,
  src_qreserve (qrows_of l) r t k (inject_Z u)
  = Ok (qrows_of ({| r_res := r; r_day := day_of t; r_task := k; r_units := u |} :: l), inject_Z u).
Proof. exact src_qreserve_eq. Qed.

Theorem C03_src_fwd_shift : forall cfg l r t s0 left, pos_rows l -> 0 <= left ->
  src_fwd_shift (balance cfg) (nearest_of (cap cfg r) (h_search cfg)) (gau_of (cap cfg r)) r (qrows_of l) s0 t
                (inject_Z left) (Z.of_nat (h_fill cfg))
  = lift_shift (fwd_shift cfg l r t s0 left).
Proof. exact src_fwd_shift_eq. Qed.

Theorem C03_src_bwd_shift : forall cfg l r t e0 left, pos_rows l -> 0 <= left ->
  src_bwd_shift (balance cfg) (nearest_of (cap cfg r) (h_search cfg)) (gau_of (cap cfg r)) r (qrows_of l) e0 t
                (inject_Z left) (Z.of_nat (h_fill cfg))
  = lift_shift (bwd_shift cfg l r t e0 left).
Proof. exact src_bwd_shift_eq. Qed.

(* the over-allocation clause for the translated source: a ledger within capacity stays within capacity *)
Theorem C03_src_fwd_shift_keeps_invariant : forall cfg r t l s0 left rows' e,
  LedgerProofs.ledger_ok (cap cfg) (balance cfg) l -> 0 < left ->
  src_fwd_shift (balance cfg) (nearest_of (cap cfg r) (h_search cfg)) (gau_of (cap cfg r)) r (qrows_of l) s0 t
                (inject_Z left) (Z.of_nat (h_fill cfg)) = Ok (rows', e) ->
  exists new, rows' = qrows_of (new ++ l) /\ new <> []
              /\ (forall x, In x new -> r_res x = r /\ r_task x = t /\ 0 < r_units x)
              /\ LedgerProofs.ledger_ok (cap cfg) (balance cfg) (new ++ l).
Proof. exact src_fwd_shift_keeps_invariant. Qed.

Theorem C03_src_bwd_shift_keeps_invariant : forall cfg r t l e0 left rows' e,
  LedgerProofs.ledger_ok (cap cfg) (balance cfg) l -> 0 < left ->
  src_bwd_shift (balance cfg) (nearest_of (cap cfg r) (h_search cfg)) (gau_of (cap cfg r)) r (qrows_of l) e0 t
                (inject_Z left) (Z.of_nat (h_fill cfg)) = Ok (rows', e) ->
  exists new, rows' = qrows_of (new ++ l) /\ new <> []
              /\ (forall x, In x new -> r_res x = r /\ r_task x = t /\ 0 < r_units x)
              /\ LedgerProofs.ledger_ok (cap cfg) (balance cfg) (new ++ l).
Proof. exact src_bwd_shift_keeps_invariant. Qed.

(* ---- source-text tie for the recursive pass (gen/SrcPass.v: ForwardScheduler.__forward_pass / BackwardScheduler.__backward_pass translated from schedule.py on every run;
   Sched/SrcPassEquivF.v / SrcPassEquivB.v relates it to the model's pass for every input, Sched/SrcPassProps.v transports the theorems):
   what follows is about the TRANSLATED SOURCE called once per root as calc does ([src_roots_fold]) after calc's pre-checks. ---- *)
From PJ Require Import gen.SrcPass Sched.SrcPassRel Sched.SrcPassEquivF Sched.SrcPassEquivB Sched.SrcPassProps.

Theorem C03_src_forward_pass : forall cfg w ds l cl, isolated_ok w = true -> no_future_ends w (now cfg) = true ->
  src_roots_fold src_fwd_pass cfg w (roots w) = Ok (ds, l, cl) ->
  cap_nonneg cfg -> no_overallocation cfg w l.
Proof. exact src_fwd_no_overallocation. Qed.

Theorem C03_src_backward_pass : forall cfg w ds l cl, isolated_ok w = true ->
  src_roots_fold src_bwd_pass cfg w (rev (roots w)) = Ok (ds, l, cl) ->
  cap_nonneg cfg -> no_overallocation cfg w l.
Proof. exact src_bwd_no_overallocation. Qed.

Print Assumptions C03_forward.
Print Assumptions C03_backward.
Print Assumptions C03_oracle_meaning.
Print Assumptions C03_forward_passes_oracle.
Print Assumptions C03_backward_passes_oracle.
Print Assumptions C03_report_meaning.
Print Assumptions C03_fill_keeps_invariant.
Print Assumptions C03_example.
Print Assumptions C03_report_totals.
Print Assumptions C03_report_filter.
Print Assumptions C03_report_task_rows.
Print Assumptions C03_resources_present.
Print Assumptions C03_run_table_forward.
Print Assumptions C03_run_table_backward.
Print Assumptions C03_default_resource.
Print Assumptions C03_default_consts.
Print Assumptions C03_forward_report.
Print Assumptions C03_backward_report.
Print Assumptions C03_report_checker_meaning.
Print Assumptions C03_report_checker_complete.
Print Assumptions C03_default_tabulation.
Print Assumptions C03_report_example.
Print Assumptions C03_captie_meaning.
Print Assumptions C03_captie_any_time.
Print Assumptions C03_captie_cap_nonneg.
Print Assumptions C03_captie_model_nonneg.
Print Assumptions C03_captie_model_any_time.
Print Assumptions C03_captie_example.
Print Assumptions C03_src_reserved_all.
Print Assumptions C03_src_reserved_task.
Print Assumptions C03_src_reserved_used.
Print Assumptions C03_src_reserved_q.
Print Assumptions C03_src_reserve.
Print Assumptions C03_src_fwd_shift.
Print Assumptions C03_src_bwd_shift.
Print Assumptions C03_src_fwd_shift_keeps_invariant.
Print Assumptions C03_src_bwd_shift_keeps_invariant.
Print Assumptions C03_src_forward_pass.
Print Assumptions C03_src_backward_pass.
