(* C19 - renderings show every task and dependency exactly once with its real dates.
   Statement file: every theorem is closed by [exact] of a lemma proved under Render/.

   render_gantt / render_net / render_json are the Gallina models of MermaidGantt.__src, MermaidNetwork.__src
   and DhtmlxGantt.__data after the repairs of F22 (tie: byte equality with the implementation on every run);
   extract_gantt / extract_net / extract_json are reference readers written independently of the builders
   (Mermaid entity pre-pass + gantt line grammar, flowchart node chains, a JSON lexer and parser).  The domain
   predicates wbs_ok (single-line names, four-digit years, numbers that print as JSON numbers, numeric estimate)
   and cfg_ok (plain title / tick interval) are evaluated by the harness on every generated case. *)
From Coq Require Import NArith ZArith List Bool Permutation String.
From PJ Require Import Base.Prelude gen.Consts Render.RText Render.RHtml Render.RJson Render.RModel Render.RGrammar
  Render.RSpec Render.RCheck Render.RUnrepaired Render.RProofsHtml Render.RProofsJson Render.RProofsDhtmlx
  Render.RProofsNet Render.RProofsGantt Render.RProofsDoc Render.RProofsInject Render.RProofsC19 Render.RProofsSections.
Import ListNotations.

(* Mermaid gantt: the reader finds, in the order of the layout, one task line per task with its id, its start
   and end to the minute, its state tags (milestone / done / active) and the section line it is under - for
   every single-line task name and section name *)
Theorem C19_gantt : forall clock cfg w, wbs_ok clock w = true -> cfg_ok cfg = true ->
  extract_gantt (render_gantt clock cfg w) = Some (gantt_expected clock w).
Proof. exact extract_render_gantt. Qed.

(* the layout lists every task exactly once: with sections the tasks are grouped by section in first-seen
   order (filter per distinct section), and that regrouping is a permutation of the tasks - for any section
   names; without sections the layout is the task list itself *)
Theorem C19_gantt_each_task_once : forall w, Permutation (map snd (gantt_layout (tasks_of w))) (tasks_of w).
Proof. intro w. exact (layout_permutation (tasks_of w)). Qed.

Theorem C19_gantt_line_count : forall w, length (gantt_layout (tasks_of w)) = length (tasks_of w).
Proof. intro w. exact (layout_length (tasks_of w)). Qed.

Theorem C19_gantt_no_task_twice : forall w, NoDup (tasks_of w) -> NoDup (map snd (gantt_layout (tasks_of w))).
Proof. intro w. exact (layout_NoDup (tasks_of w)). Qed.

Theorem C19_gantt_unsectioned : forall w, sectioned (tasks_of w) = false ->
  map snd (gantt_layout (tasks_of w)) = tasks_of w.
Proof. exact layout_unsectioned. Qed.

(* Mermaid network: exactly one edge per dependency, one Start edge per task without predecessors, one style
   statement per styled task *)
Theorem C19_net : forall clock w, wbs_ok clock w = true -> extract_net (render_net w) = Some (net_expected w).
Proof. exact c19_net. Qed.

Theorem C19_net_count : forall t,
  length (net_task_edges t) = match t_preds t with [] => 1%nat | ps => length ps end.
Proof. exact c19_net_count. Qed.

(* DHTMLX: the embedded text parses with the independent reader to one entry per task (id, name, dates, parent
   id or 0, progress within 0..1) and one link per dependency, numbered without repetition; every task of the
   WBS is visited exactly once; the text contains no less-than sign *)
Theorem C19_json : forall clock w, wbs_ok clock w = true ->
  extract_json (render_json clock w) = Some (json_expected clock w)
  /\ NoDup (map jl_id (snd (json_expected clock w)))
  /\ Forall (fun e => num_in_unit (je_progress e) = true) (fst (json_expected clock w))
  /\ Permutation (tasks_of w) (map fst (dhtmlx_tasks w))
  /\ has_char 60 (render_json clock w) = false.
Proof. exact c19_json. Qed.

(* text put into a task name: the reader finds the same gantt entries and the same edges as before; in the
   DHTMLX data only the name field of the entries with that task's id changes, the links stay *)
Theorem C19_inject : forall clock cfg w i nm, wbs_ok clock w = true -> cfg_ok cfg = true -> single_line nm = true ->
  extract_gantt (render_gantt clock cfg (rename i nm w)) = extract_gantt (render_gantt clock cfg w)
  /\ extract_net (render_net (rename i nm w)) = extract_net (render_net w)
  /\ extract_json (render_json clock w) = Some (json_expected clock w)
  /\ extract_json (render_json clock (rename i nm w))
     = Some (map (rename_entry i nm) (fst (json_expected clock w)), snd (json_expected clock w)).
Proof. exact c19_inject. Qed.

Theorem C19_inject_other : forall i nm e, je_id e <> i -> rename_entry i nm e = e.
Proof. exact rename_entry_other. Qed.

(* the notebook representation is the HTML-escaped document: the srcdoc attribute decodes to to_html(),
   whatever the document is (the wrapper literals are the ones of the source, RProofsDoc) *)
Theorem C19_repr : forall pre post doc, pre = srcdoc_open -> hd 0%N post = 34%N ->
  srcdoc_of (repr_html pre post doc) = Some doc.
Proof. exact repr_roundtrip. Qed.

Theorem C19_repr_escape : forall doc, unescape_html (escape_html doc) = doc.
Proof. exact unescape_escape. Qed.

(* the documents: the text of the Mermaid div decodes to the source and contains no tag; the JSON text runs up
   to the closing script tag of the template *)
Theorem C19_mermaid_div : forall after src, starts_with ([10%N] ++ div_close) after = true ->
  unescape_html (until_sub div_close (escape_html src ++ after)) = src ++ [10%N]
  /\ has_char 60 (until_sub div_close (escape_html src ++ after)) = false.
Proof. exact mermaid_div_text. Qed.

Theorem C19_dhtmlx_script : forall after data, has_char 60 data = false ->
  until_sub script_close (data ++ after) = data ++ until_sub script_close after.
Proof. exact dhtmlx_script_text. Qed.

(* the source has the literals and the repairs the model has (gen/Consts.v, extracted on every run) *)
Theorem C19_source_literals :
  c19_gantt_text_prefix = gantt_guard /\ c19_gantt_text_suffix = []
  /\ forall c, gantt_special c = has_char c c19_gantt_text_specials.
Proof. exact gantt_text_is_the_source_one. Qed.

Theorem C19_source_templates :
  ends_with (div_open ++ [10%N]) c19_tpl_mgantt_before = true
  /\ starts_with ([10%N] ++ div_close) c19_tpl_mgantt_after = true
  /\ ends_with (div_open ++ [10%N]) c19_tpl_mnet_before = true
  /\ starts_with ([10%N] ++ div_close) c19_tpl_mnet_after = true
  /\ ends_with s_parse_open c19_tpl_dhtmlx_before = true
  /\ until_sub script_close c19_tpl_dhtmlx_after = s_parse_close ++ [10%N; 10%N]
  /\ contains_sub script_close c19_tpl_dhtmlx_after = true.
Proof. exact templates_are_the_source_ones. Qed.

(* before the repairs (F22): the builders that write names raw, on the three witnesses *)
Theorem C19_refuted_net :
  wbs_ok 0 w_arrow = true
  /\ extract_net (old_render_net w_arrow)
     = Some [EEdge (0, 41) (1, 125); EEdge (1, 125) (2, 125); EEdge (2, 125) (9, 125)]%N
  /\ net_expected w_arrow = [EEdge (0, 41) (1, 125); EEdge (1, 125) (2, 125)]%N.
Proof. exact old_net_refuted. Qed.

Theorem C19_refuted_json :
  wbs_ok 0 w_script = true
  /\ script_oracle (old_render_json 0 w_script) = false
  /\ parse_json (until_sub script_close (old_render_json 0 w_script)) = None.
Proof. exact old_json_refuted. Qed.

Theorem C19_refuted_gantt :
  wbs_ok 0 w_semi = true /\ extract_gantt (old_render_gantt 0 (mk_cfg None false None) w_semi) = None.
Proof. exact old_gantt_refuted. Qed.

(* non-vacuity: a WBS with a hierarchy, a dependency, a milestone, two sections and a hostile name is in
   the domain, and the readers find the demanded entries in its three texts *)
Definition ex_name : text := Eval vm_compute in T "a""}} --> 9{{x</script><b>".
Definition ex_clock : Z := 1704110400000000.      (* 2024-01-01 12:00 *)
Definition ex_num (txt : text) (p : Z) : option num := Some (mk_num txt p 1).
Definition ex_wbs : wbs :=
  [ (0%nat, mk_task 1 [80%N] day0 day1 false None (ex_num [56%N] 8) (ex_num [52%N] 4) None [] None None None None []
                    [48; 46; 53]%N);
    (1%nat, mk_task 2 ex_name day0 day1 false (Some [68%N]) (ex_num [56%N] 8) (ex_num [52%N] 4) None [] (Some [81; 65; 58; 32; 120]%N)
                    None None (Some [([102; 105; 108; 108], [35; 102; 57; 102])%N]) [] [48; 46; 53]%N);
    (1%nat, mk_task 3 [77%N] day1 day1 true None (ex_num [48%N] 0) (ex_num [48%N] 0) None [(2%N, ex_name)] None None None None []
                    []) ].
Definition ex_cfg : gcfg := mk_cfg (Some [80; 108; 97; 110]%N) true None.

Example C19_nonvacuous :
  wbs_ok ex_clock ex_wbs = true /\ cfg_ok ex_cfg = true /\ single_line ex_name = true
  /\ model_ok ex_clock ex_cfg ex_wbs = true
  /\ length (gantt_expected ex_clock ex_wbs) = 3%nat /\ length (net_expected ex_wbs) = 4%nat
  /\ length (fst (json_expected ex_clock ex_wbs)) = 3%nat /\ length (snd (json_expected ex_clock ex_wbs)) = 1%nat.
Proof. vm_compute. repeat split; reflexivity. Qed.

Print Assumptions C19_gantt.
Print Assumptions C19_gantt_each_task_once.
Print Assumptions C19_gantt_line_count.
Print Assumptions C19_gantt_no_task_twice.
Print Assumptions C19_gantt_unsectioned.
Print Assumptions C19_net.
Print Assumptions C19_net_count.
Print Assumptions C19_json.
Print Assumptions C19_inject.
Print Assumptions C19_inject_other.
Print Assumptions C19_repr.
Print Assumptions C19_repr_escape.
Print Assumptions C19_mermaid_div.
Print Assumptions C19_dhtmlx_script.
Print Assumptions C19_source_literals.
Print Assumptions C19_source_templates.
Print Assumptions C19_refuted_net.
Print Assumptions C19_refuted_json.
Print Assumptions C19_refuted_gantt.
Print Assumptions C19_nonvacuous.
