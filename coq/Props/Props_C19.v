(* placeholder while the development is being built *)
From PJ Require Import Base.Prelude Render.RText Render.RHtml Render.RJson Render.RModel Render.RGrammar Render.RSpec Render.RCheck.
Example C19_placeholder : model_ok 0 (mk_cfg None false None) [] = true.
Proof. vm_compute. reflexivity. Qed.
Print Assumptions C19_placeholder.
