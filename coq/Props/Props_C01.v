(* C01 - PLACEHOLDER statement file (the theorems C01_step / C01_reach / C01_meaning are written by the
   proof task); it only pins down, by computation, that the model and the boolean invariant are not vacuous. *)
From PJ Require Import Base.Prelude Graph.Model Graph.Invariant.
Local Open Scope nat_scope.

(* a concrete history: one WBS, three tasks (ids 1, 2, 1), task 2 below task 1 in the WBS, a dependency *)
Definition demo_ops : list op :=
  [NewWbs; NewTask 1%Z None [] None; NewTask 2%Z None [] None; NewTask 1%Z None [] None;
   ChAppend 0 (Some 1); SetParent 2 (Some 1); SetLinks true 3 [Some 2]].
Definition demo : state := run init demo_ops.
(* the invariant holds after the history, and at every prefix *)
Example C01_demo_wf :
  forallb (fun n => wf_b (run init (firstn n demo_ops))) (seq 0 8) = true.
Proof. vm_compute. reflexivity. Qed.

(* ... and it is not trivially true: a task that names a parent which does not list it *)
Example C01_illformed_rejected_by_wf_b :
  wf_b (mkS [mkT 1%Z None [] [] [] None false None [] None; mkT 2%Z (Some 0) [] [] [] None false None [] None] []) = false.
Proof. vm_compute. reflexivity. Qed.

(* the guards answer RuntimeError on a self parent, a descendant as parent, an ancestor as dependency, a cycle *)
Example C01_demo_rejections :
  map (fun o => outcome_code (snd (step demo o)))
      [SetParent 1 (Some 1); SetParent 1 (Some 2); SetLinks true 2 [Some 1]; SetLinks false 3 [Some 2]; SetParent 3 (Some 2)]
  = [1; 1; 1; 1; 1].
Proof. vm_compute. reflexivity. Qed.

Print Assumptions C01_demo_wf.
Print Assumptions C01_illformed_rejected_by_wf_b.
Print Assumptions C01_demo_rejections.
