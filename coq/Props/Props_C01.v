(* C01 - "After any sequence of public mutations of tasks and WBSs ..., and whether each call returns or raises,
   the hierarchy is a forest: every task is listed exactly once among the children of exactly the task it
   reports as parent, and no task is its own ancestor.  Dependency links are symmetric, contain no cycle or
   self-link, and never connect a task with one of its own ancestors or descendants."

   Statement file: every theorem is proved in Graph/StepProofs.v (and the files it assembles).
   * A "public" call (pub_args, a boolean of Graph/Model.v) names only objects a Python caller can hold:
     allocated task objects, never the hidden root task of a WBS - except as the owner of a children list
     (wbs.roots = ..., wbs.roots.append(t), wbs // x).  The harness evaluates pub_args on every generated
     call (Graph/Check.v, clause 98).  Arguments are otherwise unrestricted: self references, repeats, None,
     tasks of other trees and WBSs.
   * step returns the state after the call whether it returned or raised; WF holds of it in both cases. *)
From PJ Require Import Base.Prelude Graph.Model Graph.Invariant Graph.OracleProofs Graph.StepProofs.
From PJ Require Import Graph.LinksProofs.
Local Open Scope nat_scope.

(* ---- one call, any of the 26 operation kinds, accepted or rejected ---- *)
Theorem C01_step : forall s o, WF s -> pub_args s o = true -> WF (fst (step s o)).
Proof. exact StepProofs.step_WF. Qed.

(* objects obtained earlier stay what they were (allocated, hidden or not), WBSs keep their number: a call that
   is public now is public in every later state, so "public history" is a property of the calls alone *)
Theorem C01_step_shape : forall s o, WF s -> pub_args s o = true -> shape s (fst (step s o)).
Proof. exact StepProofs.step_shape. Qed.

Theorem C01_public_stays_public : forall s s' o, shape s s' -> pub_args s o = true -> pub_args s' o = true.
Proof. exact StepProofs.pub_args_shape. Qed.

(* ---- histories ---- *)
Theorem C01_run : forall ops s, WF s -> pub_run s ops -> WF (run s ops).
Proof. exact StepProofs.run_WF. Qed.

Theorem C01_reach : forall ops, pub_run init ops -> WF (run init ops).
Proof. exact StepProofs.reach_WF. Qed.

(* at every intermediate state *)
Theorem C01_prefixes : forall ops n, pub_run init ops -> WF (run init (firstn n ops)).
Proof. exact StepProofs.reach_prefixes_WF. Qed.

Theorem C01_pub_run_unfold : forall s o r,
  pub_run s (o :: r) <-> pub_args s o = true /\ pub_run (fst (step s o)) r.
Proof. exact StepProofs.pub_run_cons. Qed.

(* ---- what WF says, in the words of the property, over the public view (Task.parent masks the hidden root) ---- *)
Theorem C01_meaning : forall s, WF s ->
  let h := hp s in
  (forall t q, In t (kids (get h q)) ->
     pub s t /\ (pub s q \/ exists w, w < length (wroots s) /\ q = wroot s w)) /\
  (forall t q, pub s q -> (In t (kids (get h q)) <-> pubpar h t = Some q)) /\
  (forall t w, w < length (wroots s) ->
     (In t (kids (get h (wroot s w))) <-> pub s t /\ pubpar h t = None /\ own (get h t) = Some w)) /\
  (forall t, pubpar h t = None -> own (get h t) = None -> forall q, ~ In t (kids (get h q))) /\
  (forall q, NoDup (kids (get h q))) /\
  (forall t p, pubpar h t = Some p -> pub s t /\ pub s p) /\
  (forall t, ~ Anc h t t) /\ (forall t, ~ PAnc h t t) /\
  (forall a b, In b (preds (get h a)) <-> In a (succs (get h b))) /\
  (forall a, NoDup (preds (get h a)) /\ NoDup (succs (get h a))) /\
  (forall a b, In b (preds (get h a)) -> pub s a /\ pub s b) /\
  (forall t, ~ Dep h t t) /\
  (forall a, ~ In a (preds (get h a)) /\ ~ In a (succs (get h a))) /\
  (forall a b, In b (preds (get h a)) \/ In b (succs (get h a)) ->
     ~ Anc h a b /\ ~ Anc h b a /\ ~ PAnc h a b /\ ~ PAnc h b a).
Proof. exact StepProofs.WF_public_view. Qed.

(* the ancestors Task.all_parents reports are ancestors of the raw relation *)
Theorem C01_public_ancestors : forall h x a, PAnc h x a -> Anc h x a.
Proof. exact StepProofs.PAnc_Anc. Qed.

(* ---- the oracle evaluated on the implementation's snapshots ---- *)
Theorem C01_oracle : forall s, wf_b s = true <-> WF s.
Proof. exact OracleProofs.wf_b_spec. Qed.

(* ---- non-vacuity ---- *)
(* an 8-step public history: a WBS (hidden root 0) with the three-level tree 1 > 2 > 3 (3 is constructed with
   parent=2), task 4 constructed with predecessors=[3]; the last call, 3.predecessors = [1] (an ancestor), is
   rejected with RuntimeError.  WF holds at every prefix by C01_prefixes; here also by computation. *)
Example C01_nonvacuous :
  pub_run init c01_ops /\ length c01_ops = 8 /\
  map (fun n => outcome_code (snd (step (run init (firstn n c01_ops)) (nth n c01_ops NewWbs)))) (seq 0 8)
    = [0; 0; 0; 0; 0; 0; 0; 1] /\
  (let s := run init c01_ops in
   wroots s = [0] /\ wbs_tasks s 0 = Ok [1; 2; 3] /\
   map (fun x => pubpar (hp s) x) [1; 2; 3; 4] = [None; Some 1; Some 2; None] /\
   preds (get (hp s) 4) = [3] /\ succs (get (hp s) 3) = [4] /\ preds (get (hp s) 3) = []) /\
  forallb (fun n => wf_b (run init (firstn n c01_ops))) (seq 0 9) = true.
Proof. vm_compute. repeat split; reflexivity. Qed.

(* the earlier demo history: one WBS, three tasks (ids 1, 2, 1), task 2 below task 1 in the WBS, a dependency *)
Definition demo_ops : list op :=
  [NewWbs; NewTask 1%Z None [] None; NewTask 2%Z None [] None; NewTask 1%Z None [] None;
   ChAppend 0 (Some 1); SetParent 2 (Some 1); SetLinks true 3 [Some 2]].
Definition demo : state := run init demo_ops.

Example C01_demo_wf :
  pub_run init demo_ops /\ forallb (fun n => wf_b (run init (firstn n demo_ops))) (seq 0 8) = true.
Proof. vm_compute. split; reflexivity. Qed.

(* ... and the oracle is not trivially true: a task that names a parent which does not list it *)
Example C01_illformed_rejected_by_wf_b :
  wf_b (mkS [mkT 1%Z None [] [] [] None false None [] None; mkT 2%Z (Some 0) [] [] [] None false None [] None] []) = false.
Proof. vm_compute. reflexivity. Qed.

(* the guards answer RuntimeError on a self parent, a descendant as parent, an ancestor as dependency, a cycle *)
Example C01_demo_rejections :
  map (fun o => (pub_args demo o, outcome_code (snd (step demo o))))
      [SetParent 1 (Some 1); SetParent 1 (Some 2); SetLinks true 2 [Some 1]; SetLinks false 3 [Some 2]; SetParent 3 (Some 2)]
  = [(true, 1); (true, 1); (true, 1); (true, 1); (true, 1)].
Proof. vm_compute. reflexivity. Qed.

(* bulk assignment on a task list inside a public history: a WBS with root tasks 1, 2, free tasks 3, 4, 3 depends on
   4; [1; 2].children = [3; 2] (rejected by the second element after the first took both), [1; 2].children = [3]
   (accepted: 3 ends below 2), [1; 2].successors = [4] (accepted), [3; 4].predecessors = [1; 4] (rejected by the
   second element): well-formed at every prefix *)
Definition bulk_ops : list op :=
  [NewWbs; NewTask 1%Z None [] None; NewTask 2%Z None [] None; NewTask 3%Z None [] None; NewTask 4%Z None [] None;
   SetChildren 0 [Some 1; Some 2]; SetLinks true 3 [Some 4];
   LstSetChildren [1; 2] [Some 3; Some 2]; LstSetChildren [1; 2] [Some 3];
   LstSetLinks false [1; 2] [Some 4]; LstSetLinks true [3; 4] [Some 1; Some 4]].

Example C01_bulk_nonvacuous :
  pub_run init bulk_ops /\ forallb (fun n => wf_b (run init (firstn n bulk_ops))) (seq 0 12) = true /\
  map (fun n => outcome_code (snd (step (run init (firstn n bulk_ops)) (nth n bulk_ops NewWbs)))) [7; 8; 9; 10] = [1; 0; 0; 1] /\
  kids (get (hp (run init bulk_ops)) 2) = [3] /\ succs (get (hp (run init bulk_ops)) 1) = [4] /\
  preds (get (hp (run init bulk_ops)) 4) = [1; 2] /\ preds (get (hp (run init bulk_ops)) 3) = [4].
Proof. vm_compute. repeat split; reflexivity. Qed.

(* ---- the tie to the source text: the dependency closures behind the cycle checks -----------------------------------
   gen/SrcGraph.v is produced on every run by harness/srcgen from the *current source text* of task.py.  The nested
   generators of Task.__get_all_predecessors / __get_all_successors (each neighbour followed by its own walk), translated
   from their source, are the model's naive closure [closf] for every heap, task and fuel - cyclic heaps included, where
   both run out of fuel (Python: RecursionError) - and the methods return its first occurrences (_unique_tasks = dedup). *)
From PJ Require Import gen.SrcGraph Graph.SrcGraphEquiv.

Theorem C01_src_get_predecessor : forall n h t,
  src_get_predecessor (S n) h t = lift_walk (closf (fun y => preds (get h y)) n t).
Proof. exact src_get_predecessor_eq. Qed.

Theorem C01_src_get_successor : forall n h t,
  src_get_successor (S n) h t = lift_walk (closf (fun y => succs (get h y)) n t).
Proof. exact src_get_successor_eq. Qed.

Theorem C01_src_unique_tasks : forall l, src_unique_tasks l = Ok (dedup l).
Proof. exact src_unique_tasks_eq. Qed.

Theorem C01_src_all_predecessors : forall h t,
  src_all_predecessors (S (length h)) h t = match all_preds h t with Ok l => Ok (dedup l) | Err => Err | Crash k => Crash k end.
Proof. exact src_all_predecessors_eq. Qed.

Theorem C01_src_all_successors : forall h t,
  src_all_successors (S (length h)) h t = match all_succs h t with Ok l => Ok (dedup l) | Err => Err | Crash k => Crash k end.
Proof. exact src_all_successors_eq. Qed.

(* ---- second tranche: the public parent, Task.all_parents and the link guard of the parent / children setters -----
   [hid_tid h]: the hidden root of a WBS is the task whose id is sys.maxsize (the code recognises it by the id, the model
   by a flag; WF does not forbid a user task with that id, so it is a hypothesis).  [upto_hidden]: the raw ancestor chain
   up to, and without, the first hidden task.  The guard __check_no_links_with(new_parent), translated from its current
   source text, rejects exactly when the model's [links_bad] does - in every well-formed state, for every task and
   every future parent. *)
From PJ Require Import Graph.AncLemmas Graph.SrcGraphEquiv2.

Theorem C01_src_parent : forall h t, hid_tid h -> src_parent h t = Ok (pubpar h t).
Proof. exact src_parent_eq. Qed.

Theorem C01_src_all_parents : forall h t, hid_tid h -> acyclic h ->
  src_all_parents (S (S (length h))) h t
  = match anc h t with Ok a => Ok (upto_hidden h a) | Err => Err | Crash k => Crash k end.
Proof. exact src_all_parents_eq. Qed.

Theorem C01_src_check_no_links_with : forall s t p a, WF s -> hid_tid (hp s) -> anc (hp s) p = Ok a ->
  src_check_no_links_with (S (S (length (hp s)))) (hp s) t p
  = if links_bad (hp s) t (p :: a) then Err else Ok tt.
Proof. exact src_check_no_links_with_eq. Qed.

(* ---- third tranche: a setter that WRITES the heap.  The setter of Task.parent - guards, the writes on both ends of
   the hierarchy edge, _attach - translated from its current source text (gen/SrcGraph.v, the heap threaded through),
   is the model's [set_parent] in every well-formed state: same outcome class and, when accepted, the same heap, as
   lists of records.  Hence an accepted call of THE CODE AS WRITTEN leaves the graph well formed. *)
From PJ Require Import Graph.SrcGraphEquiv3.

Theorem C01_src_set_parent : forall s (t : obj) (p : option obj), WF s -> hid_tid (hp s) -> t < length (hp s) ->
  (forall p', p = Some p' -> p' < length (hp s)) ->
  src_set_parent (S (S (length (hp s)))) (wroots s) (hp s) t p = lift_set s (set_parent s t p).
Proof. exact src_set_parent_eq. Qed.

Theorem C01_src_set_parent_keeps_WF : forall s (t : obj) (p : option obj) h' u, WF s -> hid_tid (hp s) ->
  t < length (hp s) -> hidden (get (hp s) t) = false -> (forall p', p = Some p' -> p' < length (hp s)) ->
  src_set_parent (S (S (length (hp s)))) (wroots s) (hp s) t p = Ok (h', u) ->
  WF (mkS h' (wroots s)).
Proof. exact src_set_parent_WF. Qed.

Theorem C01_src_set_parent_no_crash : forall s (t : obj) (p : option obj) k, WF s -> hid_tid (hp s) ->
  t < length (hp s) -> (forall p', p = Some p' -> p' < length (hp s)) ->
  src_set_parent (S (S (length (hp s)))) (wroots s) (hp s) t p <> Crash k.
Proof. exact src_set_parent_no_crash. Qed.

(* ---- fourth and fifth tranche: the other three setters.  `task.predecessors = vs`, `task.successors = vs` and
   `task.children = vs`, translated from their current source text (guards, the three writing loops, _attach / _detach on
   intermediate heaps), are the model's [set_links] / [set_children] in every well-formed state, so an accepted call of the
   code as written - by public arguments - leaves the graph well formed.  With C01_src_set_parent: all four relation
   setters of Task. *)
From PJ Require Import Graph.SrcGraphEquiv4 Graph.SrcGraphEquiv5.

Theorem C01_src_set_predecessors : forall s (t : obj) (vs : list (option obj)), WF s -> hid_tid (hp s) ->
  (forall v, In (Some v) vs -> hidden (get (hp s) v) = false) ->
  src_set_predecessors (S (S (length (hp s)))) (hp s) t vs = lift_set s (set_links true s t vs).
Proof. exact src_set_predecessors_eq. Qed.

Theorem C01_src_set_successors : forall s (t : obj) (vs : list (option obj)), WF s -> hid_tid (hp s) ->
  (forall v, In (Some v) vs -> hidden (get (hp s) v) = false) ->
  src_set_successors (S (S (length (hp s)))) (hp s) t vs = lift_set s (set_links false s t vs).
Proof. exact src_set_successors_eq. Qed.

Theorem C01_src_set_children : forall s (t : obj) (vs : list (option obj)), WF s -> hid_tid (hp s) ->
  t < length (hp s) -> (forall v, In (Some v) vs -> v < length (hp s)) ->
  src_set_children (S (S (length (hp s)))) (hp s) t vs = lift_set s (set_children s t vs).
Proof. exact src_set_children_eq. Qed.

Theorem C01_src_set_predecessors_keeps_WF : forall s (t : obj) (vs : list (option obj)) h' u, WF s -> hid_tid (hp s) ->
  pub s t -> pubs s vs ->
  src_set_predecessors (S (S (length (hp s)))) (hp s) t vs = Ok (h', u) -> WF (mkS h' (wroots s)).
Proof. exact src_set_predecessors_WF. Qed.

Theorem C01_src_set_successors_keeps_WF : forall s (t : obj) (vs : list (option obj)) h' u, WF s -> hid_tid (hp s) ->
  pub s t -> pubs s vs ->
  src_set_successors (S (S (length (hp s)))) (hp s) t vs = Ok (h', u) -> WF (mkS h' (wroots s)).
Proof. exact src_set_successors_WF. Qed.

Theorem C01_src_set_children_keeps_WF : forall s (t : obj) (vs : list (option obj)) h' u, WF s -> hid_tid (hp s) ->
  t < length (hp s) -> pubs s vs ->
  src_set_children (S (S (length (hp s)))) (hp s) t vs = Ok (h', u) -> WF (mkS h' (wroots s)).
Proof. exact src_set_children_WF. Qed.

(* ---- source-text tie, sixth tranche: the list facades (children.append / remove / insert / move / reorder,
   predecessors / successors .append / .remove) translated from task.py on every run (gen/SrcGraph.v); an accepted call of
   the translated source leaves a well-formed graph, and the translated source never raises anything but its own
   RuntimeError (reorder excepted: StopIteration / ValueError for ids that are not there, exactly like the model). ---- *)
From PJ Require Import Graph.SrcGraphEquiv6 Graph.SrcGraphEquiv7.

Theorem C01_src_ch_append_keeps_WF : forall s o t h' u, WF s -> hid_tid (hp s) -> o < length (hp s) ->
  (forall t', t = Some t' -> pub s t') ->
  src_ch_append (S (S (length (hp s)))) (wroots s) (hp s) o t = Ok (h', u) -> WF (mkS h' (wroots s)).
Proof. exact src_ch_append_WF. Qed.

Theorem C01_src_ch_remove_keeps_WF : forall s o t h' b, WF s -> hid_tid (hp s) ->
  src_ch_remove (S (S (length (hp s)))) (wroots s) (hp s) o t = Ok (h', b) -> WF (mkS h' (wroots s)).
Proof. exact src_ch_remove_WF. Qed.

Theorem C01_src_ch_insert_keeps_WF : forall s (o : obj) (i : Z) (t : option obj) h' u, WF s -> hid_tid (hp s) -> o < length (hp s) ->
  (forall t', t = Some t' -> pub s t') ->
  src_ch_insert (S (S (length (hp s)))) (wroots s) (hp s) o i t = Ok (h', u) -> WF (mkS h' (wroots s)).
Proof. exact src_ch_insert_WF. Qed.

Theorem C01_src_ch_move_keeps_WF : forall s o ts before after h' u, WF s ->
  src_ch_move (hp s) o ts before after = Ok (h', u) -> WF (mkS h' (wroots s)).
Proof. exact src_ch_move_WF. Qed.

Theorem C01_src_ch_reorder_keeps_WF : forall s o ids h' u, WF s ->
  src_ch_reorder (hp s) o ids = Ok (h', u) -> WF (mkS h' (wroots s)).
Proof. exact src_ch_reorder_WF. Qed.

Theorem C01_src_pred_append_keeps_WF : forall s t x h' u, WF s -> hid_tid (hp s) -> pub s t ->
  (forall x', x = Some x' -> pub s x') ->
  src_pred_append (S (S (length (hp s)))) (hp s) t x = Ok (h', u) -> WF (mkS h' (wroots s)).
Proof. exact src_pred_append_WF. Qed.

Theorem C01_src_succ_append_keeps_WF : forall s t x h' u, WF s -> hid_tid (hp s) -> pub s t ->
  (forall x', x = Some x' -> pub s x') ->
  src_succ_append (S (S (length (hp s)))) (hp s) t x = Ok (h', u) -> WF (mkS h' (wroots s)).
Proof. exact src_succ_append_WF. Qed.

Theorem C01_src_pred_remove_keeps_WF : forall s t x h' b, WF s -> hid_tid (hp s) ->
  src_pred_remove (S (S (length (hp s)))) (hp s) t x = Ok (h', b) -> WF (mkS h' (wroots s)).
Proof. exact src_pred_remove_WF. Qed.

Theorem C01_src_succ_remove_keeps_WF : forall s t x h' b, WF s -> hid_tid (hp s) ->
  src_succ_remove (S (S (length (hp s)))) (hp s) t x = Ok (h', b) -> WF (mkS h' (wroots s)).
Proof. exact src_succ_remove_WF. Qed.

Theorem C01_src_ch_move_no_crash : forall s o ts before after k, src_ch_move (hp s) o ts before after <> Crash k.
Proof. exact src_ch_move_no_crash. Qed.

Print Assumptions C01_step.
Print Assumptions C01_step_shape.
Print Assumptions C01_public_stays_public.
Print Assumptions C01_run.
Print Assumptions C01_reach.
Print Assumptions C01_prefixes.
Print Assumptions C01_pub_run_unfold.
Print Assumptions C01_meaning.
Print Assumptions C01_public_ancestors.
Print Assumptions C01_oracle.
Print Assumptions C01_nonvacuous.
Print Assumptions C01_demo_wf.
Print Assumptions C01_illformed_rejected_by_wf_b.
Print Assumptions C01_demo_rejections.
Print Assumptions C01_bulk_nonvacuous.
Print Assumptions C01_src_get_predecessor.
Print Assumptions C01_src_get_successor.
Print Assumptions C01_src_unique_tasks.
Print Assumptions C01_src_all_predecessors.
Print Assumptions C01_src_all_successors.
Print Assumptions C01_src_parent.
Print Assumptions C01_src_all_parents.
Print Assumptions C01_src_check_no_links_with.
Print Assumptions C01_src_set_parent.
Print Assumptions C01_src_set_parent_keeps_WF.
Print Assumptions C01_src_set_parent_no_crash.
Print Assumptions C01_src_set_predecessors.
Print Assumptions C01_src_set_successors.
Print Assumptions C01_src_set_children.
Print Assumptions C01_src_set_predecessors_keeps_WF.
Print Assumptions C01_src_set_successors_keeps_WF.
Print Assumptions C01_src_set_children_keeps_WF.
Print Assumptions C01_src_ch_append_keeps_WF.
Print Assumptions C01_src_ch_remove_keeps_WF.
Print Assumptions C01_src_ch_insert_keeps_WF.
Print Assumptions C01_src_ch_move_keeps_WF.
Print Assumptions C01_src_ch_reorder_keeps_WF.
Print Assumptions C01_src_pred_append_keeps_WF.
Print Assumptions C01_src_succ_append_keeps_WF.
Print Assumptions C01_src_pred_remove_keeps_WF.
Print Assumptions C01_src_succ_remove_keeps_WF.
Print Assumptions C01_src_ch_move_no_crash.
