(* Glue - the graph invariant implies the schedulers' input hypothesis.

   The task-graph group proves that every state reachable through public mutators satisfies WF (C01_reach).  The
   scheduler group (C02-C09, C14) proves its theorems for an abstract WBS [w : list itask] under the hypothesis
   [WFin w].  This file states that the abstraction [abs_wbs s w att] of WBS number w of a heap state s
   (Glue/AbsWbs.v: members in WBS.tasks order numbered from 0, then the tasks outside the WBS that members are linked
   with; parent / children / predecessors / successors as positions; every attribute the graph does not hold taken
   from the parameter [att]) satisfies WFin whenever s satisfies WF - so the hypothesis WFin disappears from the
   scheduler theorems for every graph state a Python caller can build.  Also the two numbering conventions some
   scheduler theorems ask for (members first; WBS order) hold of the abstraction.

   Statement file: every theorem is proved in Glue/*.v.  Hypotheses left:
     att_ok s w att   what WFin says about the attributes: a milestone has no children, estimate and spent are not
                      negative when present (att_ok_b is the same as a boolean, Glue_att_ok_oracle)
     cap_nonneg cfg / cap_small cfg   the capacity hypotheses of the scheduler theorems themselves. *)
From PJ Require Import Base.Prelude Graph.Model Graph.Invariant Graph.StepProofs.
From PJ Require Import Sched.Model Sched.WfIn Sched.Oracles Sched.OracleProofs Sched.C03Proofs Sched.C04Base
  Sched.C06Proofs Sched.C07Proofs Sched.C08Check.
From PJ Require Import Graph.Clone.
From PJ Require Import Glue.AbsWbs Glue.AbsWbsProofs Glue.AbsWfin Glue.AbsOrder Glue.Compose Glue.ComposeClone Glue.Relink Glue.Example.
Local Open Scope nat_scope.

(* ---- the abstraction of a well-formed state is a well-formed scheduler input ---- *)
Theorem Glue_WFin : forall s w att,
  WF s -> w < length (wroots s) -> att_ok s w att -> WFin (abs_wbs s w att).
Proof. exact Glue_WFin_holds. Qed.

(* the proof never uses that w is allocated: the tasks below ANY object form a well-formed input *)
Theorem Glue_WFin_any_root : forall s w att, WF s -> att_ok s w att -> WFin (abs_wbs s w att).
Proof. exact Glue_WFin_any. Qed.

(* ... and only five of the nine conjuncts of WF are used: WFcore s := I_pc s /\ I_acy s /\ I_sym s /\ I_dag s /\ I_sep s *)
Theorem Glue_WFin_core : forall s w att, WFcore s -> att_ok s w att -> WFin (abs_wbs s w att).
Proof. exact AbsWfin.Glue_WFin_core. Qed.

Theorem Glue_WFcore : forall s, WF s -> WFcore s.
Proof. exact WF_WFcore. Qed.

(* members are numbered before the outside tasks (ext_last / exts_last / members_first / c08_members_first_b of the
   scheduler files are this same equation): by construction, for every state *)
Theorem Glue_members_first : forall s w att, members_first_b (abs_wbs s w att) = true.
Proof. exact Glue_members_first_holds. Qed.

(* the members are numbered in WBS order: the depth-first walk of the table enumerates 0, 1, 2, .. (C08's convention) *)
Theorem Glue_preorder : forall s w att, WF s -> c08_preorder_b (abs_wbs s w att) = true.
Proof. exact Glue_preorder_holds. Qed.

(* the member list of the abstraction is what WBS.tasks returns *)
Theorem Glue_tasks : forall s w, WF s -> wbs_tasks s w = Ok (mem_list s w).
Proof. exact Glue_wbs_tasks. Qed.

(* the abstraction is the intended one: the numbering is a bijection onto members ++ outside tasks, the members are the
   proper descendants of the WBS root (C05's [member]), the outside tasks are the link ends of members that are not
   members; the entry at the number of an object is built from that object *)
Theorem Glue_numbering : forall s w, WF s ->
  NoDup (num_list s w) /\
  (forall x, In x (mem_list s w) <-> Anc (hp s) x (wroot s w)) /\
  (forall y, In y (out_list s w) <->
     ~ In y (mem_list s w) /\
     exists x, In x (mem_list s w) /\ (In y (preds (get (hp s) x)) \/ In y (succs (get (hp s) x)))).
Proof. exact Glue_numbering_holds. Qed.

Theorem Glue_entries : forall s w att,
  length (abs_wbs s w att) = length (num_list s w) /\
  (forall x, In x (mem_list s w) -> gett (abs_wbs s w att) (pos s w x) = abs_member s w att x) /\
  (forall y, In y (out_list s w) -> gett (abs_wbs s w att) (pos s w y) = abs_ext att y).
Proof. exact Glue_entries_holds. Qed.

Theorem Glue_att_ok_oracle : forall s w att, att_ok_b s w att = true <-> att_ok s w att.
Proof. exact att_ok_b_spec. Qed.

(* the order inside the dependency lists does not matter.  relinked w w' := the tables have the same length and, entry
   by entry, all fields are equal except k_preds / k_succs, which are permutations of each other.  (The harness takes
   the order inside those lists from the scheduler's own copy: its table is abs_wbs up to such a permutation.) *)
Theorem Glue_relinked : forall s w att w',
  WF s -> att_ok s w att -> relinked (abs_wbs s w att) w' ->
  WFin w' /\ members_first_b w' = true /\ c08_preorder_b w' = true.
Proof. exact Glue_relinked_holds. Qed.

Theorem Glue_relinked_wfin : forall w w', relinked w w' -> WFin w -> WFin w'.
Proof. exact relinked_wfin. Qed.

(* ---- composed with C01: every state a caller can build ---- *)
Theorem Glue_reach : forall ops w att, pub_run Graph.Model.init ops ->
  let s := Graph.Model.run Graph.Model.init ops in
  att_ok s w att -> WFin (abs_wbs s w att).
Proof. exact glue_reach. Qed.

Theorem Glue_reach_order : forall ops w att, pub_run Graph.Model.init ops ->
  let A := abs_wbs (Graph.Model.run Graph.Model.init ops) w att in
  members_first_b A = true /\ c08_preorder_b A = true.
Proof. exact glue_reach_order. Qed.

(* ---- composed with C10: the copy the schedulers work on ---- *)
(* calc() schedules wbs.clone().  The state after clone() / subtree() satisfies every conjunct of WF except - without a
   hypothesis on the ids of the hidden roots - I_ids (C10_wf_partial); WFcore does not contain I_ids: every WBS of the
   state after cloning, the new one (snd (clone s w)) included, abstracts to a well-formed input in WBS order *)
Theorem Glue_clone : forall s w att, WF s -> w < length (wroots s) ->
  att_ok (fst (clone s w)) (snd (clone s w)) att ->
  WFin (abs_wbs (fst (clone s w)) (snd (clone s w)) att) /\
  members_first_b (abs_wbs (fst (clone s w)) (snd (clone s w)) att) = true /\
  c08_preorder_b (abs_wbs (fst (clone s w)) (snd (clone s w)) att) = true.
Proof. exact glue_clone. Qed.

Theorem Glue_clone_sel : forall s w sel w2 att, WF s -> sel_ok s w sel ->
  att_ok (fst (clone_sel s w sel)) w2 att ->
  WFin (abs_wbs (fst (clone_sel s w sel)) w2 att) /\
  members_first_b (abs_wbs (fst (clone_sel s w sel)) w2 att) = true /\
  c08_preorder_b (abs_wbs (fst (clone_sel s w sel)) w2 att) = true.
Proof. exact glue_clone_sel. Qed.

(* ---- composed with the scheduler theorems: no hypothesis about the shape of the WBS is left ---- *)
(* C14: a schedule or RuntimeError, nothing else *)
Theorem Glue_C14_total_forward : forall ops w att, pub_run Graph.Model.init ops ->
  let s := Graph.Model.run Graph.Model.init ops in
  att_ok s w att -> forall cfg,
  (exists st, forward cfg (abs_wbs s w att) = Ok st) \/ forward cfg (abs_wbs s w att) = Err.
Proof. exact glue_C14_total_forward. Qed.

Theorem Glue_C14_total_backward : forall ops w att, pub_run Graph.Model.init ops ->
  let s := Graph.Model.run Graph.Model.init ops in
  att_ok s w att -> forall cfg,
  (exists st, backward cfg (abs_wbs s w att) = Ok st) \/ backward cfg (abs_wbs s w att) = Err.
Proof. exact glue_C14_total_backward. Qed.

(* C03: a returned schedule never over-allocates (C03_forward itself needs no WFin; stated here for the record) *)
Theorem Glue_C03 : forall ops w att cfg st,
  let A := abs_wbs (Graph.Model.run Graph.Model.init ops) w att in
  cap_nonneg cfg -> forward cfg A = Ok st -> no_overallocation cfg A (lg st).
Proof. exact glue_C03_forward. Qed.

(* C14 + C03 + C06 in one sentence: calc answers RuntimeError, or a schedule in which no resource is over-allocated
   and every member has its dates and amounts *)
Theorem Glue_forward_sound : forall ops w att, pub_run Graph.Model.init ops ->
  let A := abs_wbs (Graph.Model.run Graph.Model.init ops) w att in
  att_ok (Graph.Model.run Graph.Model.init ops) w att -> forall cfg, cap_nonneg cfg ->
  forward cfg A = Err \/
  exists st, forward cfg A = Ok st /\ no_overallocation cfg A (lg st) /\ all_dated A st.
Proof. exact glue_forward_sound. Qed.

Theorem Glue_backward_sound : forall ops w att, pub_run Graph.Model.init ops ->
  let A := abs_wbs (Graph.Model.run Graph.Model.init ops) w att in
  att_ok (Graph.Model.run Graph.Model.init ops) w att -> forall cfg, cap_nonneg cfg ->
  backward cfg A = Err \/
  exists st, backward cfg A = Ok st /\ no_overallocation cfg A (lg st) /\ all_dated A st.
Proof. exact glue_backward_sound. Qed.

(* the whole executable oracles of C02, C04, C07, C08, C09 on the model's own schedule: the hypotheses WFin, ext_last /
   exts_last / members_first and c08_preorder of those theorems are all discharged *)
Theorem Glue_C02_oracle : forall ops w att, pub_run Graph.Model.init ops ->
  let A := abs_wbs (Graph.Model.run Graph.Model.init ops) w att in
  att_ok (Graph.Model.run Graph.Model.init ops) w att -> forall cfg st,
  cap_nonneg cfg -> forward cfg A = Ok st -> c02_b cfg A (obs_of A st) = true.
Proof. exact glue_C02_oracle. Qed.

Theorem Glue_C04_forward_oracle : forall ops w att, pub_run Graph.Model.init ops ->
  let A := abs_wbs (Graph.Model.run Graph.Model.init ops) w att in
  att_ok (Graph.Model.run Graph.Model.init ops) w att -> forall cfg st,
  cap_nonneg cfg -> cap_small cfg -> forward cfg A = Ok st -> c04_b true cfg A (obs_of A st) = true.
Proof. exact glue_C04_forward_oracle. Qed.

Theorem Glue_C04_backward_oracle : forall ops w att, pub_run Graph.Model.init ops ->
  let A := abs_wbs (Graph.Model.run Graph.Model.init ops) w att in
  att_ok (Graph.Model.run Graph.Model.init ops) w att -> forall cfg st,
  cap_nonneg cfg -> cap_small cfg -> backward cfg A = Ok st -> c04_b false cfg A (obs_of A st) = true.
Proof. exact glue_C04_backward_oracle. Qed.

Theorem Glue_C07_forward_oracle : forall ops w att, pub_run Graph.Model.init ops ->
  let A := abs_wbs (Graph.Model.run Graph.Model.init ops) w att in
  att_ok (Graph.Model.run Graph.Model.init ops) w att -> forall cfg st,
  cap_nonneg cfg -> forward cfg A = Ok st ->
  c07_b A (obs_of A st) (wbs_start A (ds_start (dy st))) (wbs_end A (ds_end (dy st))) = true.
Proof. exact glue_C07_forward_oracle. Qed.

Theorem Glue_C07_backward_oracle : forall ops w att, pub_run Graph.Model.init ops ->
  let A := abs_wbs (Graph.Model.run Graph.Model.init ops) w att in
  att_ok (Graph.Model.run Graph.Model.init ops) w att -> forall cfg st,
  cap_nonneg cfg -> backward cfg A = Ok st ->
  c07_b A (obs_of A st) (wbs_start A (ds_start (dy st))) (wbs_end A (ds_end (dy st))) = true.
Proof. exact glue_C07_backward_oracle. Qed.

Theorem Glue_C08_oracle : forall ops w att, pub_run Graph.Model.init ops ->
  let A := abs_wbs (Graph.Model.run Graph.Model.init ops) w att in
  att_ok (Graph.Model.run Graph.Model.init ops) w att -> forall cfg st,
  cap_nonneg cfg -> forward cfg A = Ok st -> c08_b cfg A (obs_of A st) = true.
Proof. exact glue_C08_oracle. Qed.

Theorem Glue_C09_oracle : forall ops w att, pub_run Graph.Model.init ops ->
  let A := abs_wbs (Graph.Model.run Graph.Model.init ops) w att in
  att_ok (Graph.Model.run Graph.Model.init ops) w att -> forall cfg st,
  cap_nonneg cfg -> backward cfg A = Ok st -> c09_b cfg A (obs_of A st) = true.
Proof. exact glue_C09_oracle. Qed.

(* ---- non-vacuity ---- *)
(* An 11-call public history (Glue/Example.v): WBS 0 with the summary 1 over the leaves 2 and 3, 3 depends on 2; WBS 1
   with task 5; 2 depends on 5, a task outside WBS 0.  The abstraction of WBS 0 is the four-entry table glue_abs0
   (members 1, 2, 3 numbered 0, 1, 2; the outside predecessor numbered 3), that of WBS 1 is glue_abs1 (the outside
   SUCCESSOR 2 is an entry too); both pass wfin_b and the numbering conventions by computation as well; att_ok holds;
   the forward calculation of WBS 0 on one 8-unit resource returns a schedule: the outside task ends at day 1, task 2
   (8 units) takes day 1, task 3 (4 units) half of day 2, the summary spans both. *)
Example Glue_nonvacuous :
  let s := Graph.Model.run Graph.Model.init glue_ops in
  pub_run Graph.Model.init glue_ops /\ length glue_ops = 11 /\ wf_b s = true /\
  wroots s = [0; 4] /\ wbs_tasks s 0 = Ok [1; 2; 3] /\ wbs_tasks s 1 = Ok [5] /\
  mem_list s 0 = [1; 2; 3] /\ out_list s 0 = [5] /\ mem_list s 1 = [5] /\ out_list s 1 = [2] /\
  abs_wbs s 0 glue_att = glue_abs0 /\ abs_wbs s 1 glue_att = glue_abs1 /\
  att_ok_b s 0 glue_att = true /\ att_ok_b s 1 glue_att = true /\
  wfin_b (abs_wbs s 0 glue_att) = true /\ wfin_b (abs_wbs s 1 glue_att) = true /\
  members_first_b (abs_wbs s 0 glue_att) = true /\ c08_preorder_b (abs_wbs s 0 glue_att) = true /\
  (exists st, forward glue_cfg (abs_wbs s 0 glue_att) = Ok st /\
     map (fun d => (d_start d, d_end d)) (dy st) =
       [(Some DAY, Some (2 * DAY + DAY / 2)%Z); (Some DAY, Some (2 * DAY)%Z);
        (Some (2 * DAY)%Z, Some (2 * DAY + DAY / 2)%Z); (Some 0%Z, Some DAY)] /\
     map (fun x => (r_day x, r_task x, r_units x)) (lg st) = [(2%Z, 2, 4%Z); (1%Z, 1, 8%Z)]) /\
  (exists st, backward glue_cfg (abs_wbs s 0 glue_att) = Ok st).
Proof.
  vm_compute. repeat split; try reflexivity; eexists; repeat split; reflexivity.
Qed.

(* the hypotheses of the composed theorems hold of the example (so e.g. Glue_forward_sound applies to it) *)
Example Glue_example_hypotheses :
  pub_run Graph.Model.init glue_ops /\ att_ok (Graph.Model.run Graph.Model.init glue_ops) 0 glue_att /\
  cap_nonneg glue_cfg /\ cap_small glue_cfg.
Proof.
  split; [vm_compute; reflexivity|]. split; [apply att_ok_b_spec; vm_compute; reflexivity|].
  split; intros r d; cbn [cap glue_cfg]; unfold DAY; lia.
Qed.

(* the copy made by clone() of WBS 0 is WBS 2 with the members 7, 8, 9; with the attributes carried over its abstraction
   is the very same table as that of the original *)
Example Glue_clone_example :
  let s := Graph.Model.run Graph.Model.init glue_ops in
  snd (clone s 0) = 2 /\ mem_list (fst (clone s 0)) 2 = [7; 8; 9] /\ out_list (fst (clone s 0)) 2 = [5] /\
  abs_wbs (fst (clone s 0)) 2 glue_att_clone = glue_abs0 /\ abs_wbs s 0 glue_att = glue_abs0.
Proof. vm_compute. repeat split; reflexivity. Qed.

(* ... and WFin is not trivially true: a child that names another task as its parent *)
Example Glue_illformed_rejected_by_wfin_b :
  wfin_b [glue_mk None [1] [] [] false None None None; glue_mk None [] [] [] false None None None] = false.
Proof. vm_compute. reflexivity. Qed.

Print Assumptions Glue_WFin.
Print Assumptions Glue_WFin_any_root.
Print Assumptions Glue_WFin_core.
Print Assumptions Glue_WFcore.
Print Assumptions Glue_members_first.
Print Assumptions Glue_preorder.
Print Assumptions Glue_tasks.
Print Assumptions Glue_numbering.
Print Assumptions Glue_entries.
Print Assumptions Glue_att_ok_oracle.
Print Assumptions Glue_relinked.
Print Assumptions Glue_relinked_wfin.
Print Assumptions Glue_reach.
Print Assumptions Glue_reach_order.
Print Assumptions Glue_clone.
Print Assumptions Glue_clone_sel.
Print Assumptions Glue_C14_total_forward.
Print Assumptions Glue_C14_total_backward.
Print Assumptions Glue_C03.
Print Assumptions Glue_forward_sound.
Print Assumptions Glue_backward_sound.
Print Assumptions Glue_C02_oracle.
Print Assumptions Glue_C04_forward_oracle.
Print Assumptions Glue_C04_backward_oracle.
Print Assumptions Glue_C07_forward_oracle.
Print Assumptions Glue_C07_backward_oracle.
Print Assumptions Glue_C08_oracle.
Print Assumptions Glue_C09_oracle.
Print Assumptions Glue_nonvacuous.
Print Assumptions Glue_example_hypotheses.
Print Assumptions Glue_clone_example.
Print Assumptions Glue_illformed_rejected_by_wfin_b.
