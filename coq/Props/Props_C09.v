(* C09 - Backward schedules: nothing ends after the requested project end, every declared or
   inherited dependency is respected, with balancing the schedule is late-packed, and the dates
   encode the used capacity counted from the end of the day.
   Statement file: theorems closed by [exact], Print Assumptions below.  They hold for every WBS that
   is well formed (WFin: the abstraction of the graph invariant, evaluated on every generated case)
   and has no user-fixed dates (no_user_dates, evaluated by the oracle), every hierarchy and link
   placement, every capacity function with non-negative values (hence every calendar), every project
   end at any time of day, every clock; (a)-(c) for both balance settings, (d) with balancing on. *)
From PJ Require Import Base.Prelude Sched.Model Sched.LedgerProofs Sched.Machine Sched.Instances Sched.C03Proofs
     Sched.WfIn Sched.Check Sched.Oracles Sched.OracleProofs Sched.C09Base Sched.C09Proofs Sched.C09Final
     Sched.C09Oracle Sched.C09Model Sched.C09Desc Sched.C09Passes.

(* (a) no member ends after the project end *)
Theorem C09_deadline : forall cfg w st,
  WFin w -> cap_nonneg cfg -> no_user_dates w = true -> backward cfg w = Ok st ->
  forall t e, In t (members w) -> d_end (getd st t) = Some e -> e <= pbound cfg.
Proof. exact C09_deadline_holds. Qed.

(* (b) for every member t and every task q among the successors of t or of an ancestor summary of t
   ([dependants]): end t <= start q; q may be a summary or a task outside the WBS, which keeps its dates *)
Theorem C09_deps : forall cfg w st,
  WFin w -> cap_nonneg cfg -> no_user_dates w = true -> backward cfg w = Ok st ->
  forall t q e s2, In t (members w) -> In q (dependants w t) ->
                   d_end (getd st t) = Some e -> d_start (getd st q) = Some s2 -> e <= s2.
Proof. exact C09_deps_holds. Qed.

(* (b) seen from the successor's side: a dependency declared on a summary q binds every member s at or
   below q (q = s or q among the ancestors of s): end t <= start s *)
Theorem C09_deps_below : forall cfg w st,
  WFin w -> cap_nonneg cfg -> no_user_dates w = true -> backward cfg w = Ok st ->
  forall t q s e s2, In t (members w) -> In q (dependants w t) ->
    In s (members w) -> (s = q \/ In q (ancestors w (length w) s)) ->
    d_end (getd st t) = Some e -> d_start (getd st s) = Some s2 -> e <= s2.
Proof. exact C09_deps_below_holds. Qed.

Theorem C09_outside_dates : forall cfg w st,
  WFin w -> cap_nonneg cfg -> no_user_dates w = true -> backward cfg w = Ok st ->
  forall q, k_ext (gett w q) = true ->
            d_start (getd st q) = k_start (gett w q) /\ d_end (getd st q) = k_end (gett w q).
Proof. exact C09_outside_dates_hold. Qed.

(* every member is calculated: it has both dates *)
Theorem C09_all_dated : forall cfg w st,
  WFin w -> cap_nonneg cfg -> no_user_dates w = true -> backward cfg w = Ok st ->
  forall t, In t (members w) -> exists s e, d_start (getd st t) = Some s /\ d_end (getd st t) = Some e.
Proof. exact C09_all_dated_holds. Qed.

(* (c) the two date formulas, in terms of the ledger before the task was placed ([before]), the
   task's own rows ([new], the first work day at the head) and the later rows ([after]); the day of
   the end had free capacity when the task was placed (0 <= used before < cap: the share is below 1,
   the day has capacity) - also for a leaf with no work left, which reserves nothing (new = [], s = e) *)
Theorem C09_encode : forall cfg w st,
  WFin w -> cap_nonneg cfg -> no_user_dates w = true -> backward cfg w = Ok st ->
  C09_encode_statement cfg w st.
Proof. exact C09_encode_holds. Qed.

(* (d) late packing with balancing on: the days after the end's day that lie wholly before the due date
   (earliest start of a dependant, else the project end) and the days strictly between two work days
   of the task are fully booked on its resource in the final ledger *)
Theorem C09_late : forall cfg w st,
  WFin w -> cap_nonneg cfg -> no_user_dates w = true -> backward cfg w = Ok st ->
  C09_late_statement cfg w st.
Proof. exact C09_late_holds. Qed.

(* (e) the executable oracle evaluated on the implementation's output means the statement on the
   observed schedule (c09_task_statement; for a working leaf WITHOUT usage rows - no work left - it says
   c09_norows_on / c09_norows_off: start = end, the end's day has capacity, balancing off: the end is
   the midnight following that day; balancing on: the end encodes the share of that day booked by some
   prefix of rows() - the moment the task was placed - and therefore lies between the midnight minus the
   share booked on that day in the whole schedule and the midnight) ... *)
Theorem C09_oracle_meaning : forall cfg w o t,
  c09_task_b cfg w o t = true <-> c09_task_statement cfg w o t.
Proof. exact c09_task_b_spec. Qed.

Theorem C09_oracle_meaning_all : forall cfg w o,
  c09_b cfg w o = true <-> (no_user_dates w = true -> forall t, In t (members w) -> c09_task_statement cfg w o t).
Proof. exact c09_b_spec. Qed.

(* ... and the model's own backward schedule always passes the whole oracle (members numbered before
   the outside tasks, as the harness numbers them: members_first, asserted on every case) *)
Theorem C09_backward_passes_oracle : forall cfg w st,
  WFin w -> cap_nonneg cfg -> members_first w -> backward cfg w = Ok st -> c09_b cfg w (obs_of w st) = true.
Proof. exact C09_model_oracle_holds. Qed.

(* non-vacuity: a chain of two tasks and a competitor on one Mon-Fri resource (64 units a day),
   project end on Monday 2024-01-01 10:00.  The competitor takes Friday 09:00-24:00 (40 units), the
   second task of the chain ends where Friday's free capacity begins and works on Thursday, the first
   ends at Thursday 00:00 (before its successor's start, Thursday 06:00) and works Wednesday and Tuesday. *)
Definition ex_cap (r : nat) (d : Z) : Z := if weekday_of_day d <? 5 then 64 else 0.
Definition ex_cfg : config :=
  {| cap := ex_cap; balance := true; dflt_est := 0; pbound := 19723 * DAY + 36000000000; now := 19700 * DAY;
     h_search := 1000; h_near := 1000; h_fill := 1000 |}.
Definition ex_task (e : Z) (ps ss : list nat) : itask :=
  {| k_parent := None; k_children := []; k_preds := ps; k_succs := ss; k_ext := false; k_milestone := false;
     k_res := 0; k_est := Some e; k_spent := None; k_start := None; k_end := None; k_minstart := None |}.
Definition ex_w : list itask := [ex_task 80 [] [1%nat]; ex_task 48 [0%nat] []; ex_task 40 [] []].

Example C09_example :
  WFin ex_w /\ cap_nonneg ex_cfg /\ no_user_dates ex_w = true /\ members_first ex_w /\
  match backward ex_cfg ex_w with
  | Ok st =>
      map (fun t => (d_start (getd st t), d_end (getd st t))) [0; 1; 2]%nat
      = [(Some 1703613600000000, Some 1703721600000000);
         (Some 1703743200000000, Some 1703840400000000);
         (Some 1703840400000000, Some 1703894400000000)]
      /\ map row_obs (rev (lg st))
         = [(0%nat, 19720, 2%nat, 40); (0%nat, 19719, 1%nat, 48); (0%nat, 19718, 0%nat, 64); (0%nat, 19717, 0%nat, 16)]
      /\ c09_b ex_cfg ex_w (obs_of ex_w st) = true
  | _ => False
  end.
Proof.
  split; [vm_compute; reflexivity|]. split.
  { intros r d. unfold ex_cfg, ex_cap. simpl. destruct (weekday_of_day d <? 5); lia. }
  split; [vm_compute; reflexivity|]. split; [vm_compute; reflexivity|].
  vm_compute. repeat split; reflexivity.
Qed.

(* ---- the tie to the source text (gen/SrcFill.v, regenerated on every run from schedule.py): the backward search
   for the latest day with free capacity (the caller adds one day to its result) and the backward fill of
   BackwardScheduler, translated from their current source text, are the model's [bwd_nearest] / [bwd_shift] *)
From Coq Require Import QArith.
From PJ Require Import Cal.Calendar gen.SrcFill Sched.SrcFillEquiv Sched.SrcFillInv.
Open Scope Z_scope.

Theorem C09_src_bwd_nearest : forall cfg l r t t0, pos_rows l ->
  (do e <- src_bwd_nearest (balance cfg) (nearest_of (cap cfg r) (h_search cfg)) (gau_of (cap cfg r)) r (qrows_of l) t0 t
                           (Z.of_nat (h_near cfg)); Ok (e + DAY))
  = bwd_nearest cfg l r t t0.
Proof. exact src_bwd_nearest_eq. Qed.

Theorem C09_src_bwd_shift : forall cfg l r t e0 left, pos_rows l -> 0 <= left ->
  src_bwd_shift (balance cfg) (nearest_of (cap cfg r) (h_search cfg)) (gau_of (cap cfg r)) r (qrows_of l) e0 t
                (inject_Z left) (Z.of_nat (h_fill cfg))
  = lift_shift (bwd_shift cfg l r t e0 left).
Proof. exact src_bwd_shift_eq. Qed.

(* ---- source-text tie for the recursive pass (gen/SrcPass.v: ForwardScheduler.__forward_pass / BackwardScheduler.__backward_pass translated from schedule.py on every run;
   Sched/SrcPassEquivF.v / SrcPassEquivB.v relates it to the model's pass for every input, Sched/SrcPassProps.v transports the theorems):
   what follows is about the TRANSLATED SOURCE called once per root as calc does ([src_roots_fold]) after calc's pre-checks. ---- *)
From PJ Require Import gen.SrcPass Sched.SrcPassRel Sched.SrcPassEquivF Sched.SrcPassEquivB Sched.SrcPassProps.

Theorem C09_src_backward_pass : forall cfg w ds l cl, isolated_ok w = true ->
  src_roots_fold src_bwd_pass cfg w (rev (roots w)) = Ok (ds, l, cl) ->
  WFin w -> cap_nonneg cfg -> members_first w -> c09_b cfg w (obs_of w (src_sst (ds, l, cl))) = true.
Proof. exact src_bwd_c09_oracle. Qed.

Print Assumptions C09_deadline.
Print Assumptions C09_deps.
Print Assumptions C09_deps_below.
Print Assumptions C09_outside_dates.
Print Assumptions C09_all_dated.
Print Assumptions C09_encode.
Print Assumptions C09_late.
Print Assumptions C09_oracle_meaning.
Print Assumptions C09_oracle_meaning_all.
Print Assumptions C09_backward_passes_oracle.
Print Assumptions C09_example.
Print Assumptions C09_src_bwd_nearest.
Print Assumptions C09_src_bwd_shift.
Print Assumptions C09_src_backward_pass.
