(* C02 - Forward schedules never start a task before its prerequisites are finished.
   Statement file: theorems closed by [exact], non-vacuity Examples, Print Assumptions below.
   They hold for every WBS satisfying WFin (any size, depth, links on leaves and on summaries, tasks
   outside the WBS, fixed dates, min_start, milestones), every capacity function with non-negative
   values, both balance settings, every project start and clock.  [below w p q]: q is p or a task
   below p in the hierarchy - so the bounds hold for the leaf descendants of every prerequisite and
   for every other descendant as well. *)
From PJ Require Import Base.Prelude Sched.Model Sched.Machine Sched.Instances Sched.C03Proofs
     Sched.Check Sched.Oracles Sched.WfIn Sched.OracleProofs Sched.C06Proofs Sched.C02Proofs.

(* leaf, not a milestone, start not fixed by the user: it does not start (when no user end clamps the
   start, see C02_start_clause_needs_no_user_end) and never has work reserved on a calendar day
   earlier than: the project start, the clock, its min_start, the end of any task below any of its
   own or inherited prerequisites (ends as in the returned schedule; outside tasks: their own end) *)
Theorem C02_leaf : forall cfg w st t,
  cap_nonneg cfg -> WFin w -> forward cfg w = Ok st -> free_start_leaf w t ->
  exists s, d_start (getd st t) = Some s /\
    forall b, c02_bound cfg w st t b ->
      (k_end (gett w t) = None -> day_of b <= day_of s)
      /\ forall x, In x (lg st) -> r_task x = t -> day_of b <= r_day x.
Proof. exact C02_leaf_holds. Qed.

(* milestone: zero duration, exactly at max (project start :: ends of its own and inherited
   prerequisites); that is an upper bound of the end of everything below a prerequisite and it is
   the project start or the end of a leaf (or outside task) below a prerequisite *)
Theorem C02_milestone : forall cfg w st t,
  cap_nonneg cfg -> WFin w -> forward cfg w = Ok st ->
  k_ext (gett w t) = false -> k_milestone (gett w t) = true ->
  exists b, d_start (getd st t) = Some b /\ d_end (getd st t) = Some b
    /\ b = bound_max (dy st) (prereqs w t) (pbound cfg)
    /\ pbound cfg <= b
    /\ (forall p q e, In p (prereqs w t) -> below w p q -> sched_end w st q = Some e -> e <= b)
    /\ (b = pbound cfg
        \/ exists p q, In p (prereqs w t) /\ below w p q
                       /\ (k_ext (gett w q) = true \/ is_leaf (gett w q) = true)
                       /\ sched_end w st q = Some b).
Proof. exact C02_milestone_holds. Qed.

(* the vocabulary: [prereqs] is "predecessors declared on the task itself and on every ancestor" ... *)
Theorem C02_prereqs_meaning : forall w t p, WFin w -> k_ext (gett w t) = false ->
  (In p (prereqs w t) <->
   In p (k_preds (gett w t)) \/ exists a, anc w t a /\ In p (k_preds (gett w a))).
Proof. exact c02_prereqs_meaning. Qed.

(* ... the oracle's expansion [prereq_leaves] is "each expanded to its leaf descendants": exactly the leaves
   below a prerequisite (the fuel of [leaves_of] suffices under WFin) ... *)
Theorem C02_prereq_leaves_meaning : forall w t q, WFin w -> k_ext (gett w t) = false ->
  (In q (prereq_leaves w t) <->
   exists p, In p (prereqs w t) /\ below w p q /\ is_leaf (gett w q) = true).
Proof. exact c02_prereq_leaves_meaning. Qed.

(* ... every prerequisite and everything below it has an end in the schedule (the bounds are not vacuous) ... *)
Theorem C02_prereq_ends_defined : forall cfg w st t p q,
  WFin w -> forward cfg w = Ok st -> k_ext (gett w t) = false ->
  In p (prereqs w t) -> below w p q -> exists e, sched_end w st q = Some e.
Proof. exact C02Proofs.C02_prereq_ends_defined. Qed.

(* ... and nothing below a task ends after it (the roll-up that carries a summary's end to its leaves) *)
Theorem C02_descendant_ends : forall cfg w st p q,
  cap_nonneg cfg -> WFin w -> forward cfg w = Ok st -> k_ext (gett w p) = false -> below w p q ->
  exists ep eq, sched_end w st p = Some ep /\ sched_end w st q = Some eq /\ eq <= ep.
Proof. exact C02Proofs.C02_descendant_ends. Qed.

(* the executable oracle evaluated on the implementation's output means exactly this ... *)
Theorem C02_oracle_meaning : forall cfg w o, c02_b cfg w o = true <-> c02_statement cfg w o.
Proof. exact c02_b_spec. Qed.

(* ... and the model's own output always passes it *)
Theorem C02_forward_passes_oracle : forall cfg w st,
  cap_nonneg cfg -> WFin w -> ext_last w -> forward cfg w = Ok st -> c02_b cfg w (obs_of w st) = true.
Proof. exact C02_forward_oracle. Qed.

(* non-vacuity.  Task 0 waits for leaf 3; 3 is the child of summary 2, which waits for task 1 (five
   days, Mon-Fri); milestone 4 waits for the summary.  The pass reaches 3 first through its
   successor 0 - and still starts it after 1 has ended (F11's shape). *)
Definition ex_cap (r : nat) (d : Z) : Z := if weekday_of_day d <? 5 then 64 else 0.
Definition ex_cfg : config :=
  {| cap := ex_cap; balance := true; dflt_est := 0; pbound := 19723 * DAY; now := 19700 * DAY;
     h_search := 1000; h_near := 1000; h_fill := 1000 |}.
Definition mk (par : option nat) (ch pr su : list nat) (ms : bool) (e : Z) : itask :=
  {| k_parent := par; k_children := ch; k_preds := pr; k_succs := su; k_ext := false; k_milestone := ms;
     k_res := 0; k_est := Some e; k_spent := None; k_start := None; k_end := None; k_minstart := None |}.
Definition ex_w : list itask :=
  [ mk None [] [3%nat] [] false 64;
    mk None [] [] [2%nat] false 320;
    mk None [3%nat] [1%nat] [4%nat] false 0;
    mk (Some 2%nat) [] [] [0%nat] false 64;
    mk None [] [2%nat] [] true 0 ].

Example C02_example :
  (forall r d, 0 <= ex_cap r d) /\ WFin ex_w /\ ext_last ex_w
  /\ free_start_leaf ex_w 3 /\ In 1%nat (prereqs ex_w 3)
  /\ match forward ex_cfg ex_w with
     | Ok st =>
         map (fun d => (d_start d, d_end d)) (dy st)
         = [ (Some (19731 * DAY), Some (19732 * DAY)); (Some (19723 * DAY), Some (19728 * DAY));
             (Some (19730 * DAY), Some (19731 * DAY)); (Some (19730 * DAY), Some (19731 * DAY));
             (Some (19731 * DAY), Some (19731 * DAY)) ]
         /\ map (fun x => (r_task x, r_day x)) (rev (lg st))
            = [ (1%nat, 19723); (1%nat, 19724); (1%nat, 19725); (1%nat, 19726); (1%nat, 19727);
                (3%nat, 19730); (0%nat, 19731) ]
         /\ c02_b ex_cfg ex_w (obs_of ex_w st) = true
     | _ => False
     end.
Proof.
  split; [intros r d; unfold ex_cap; destruct (weekday_of_day d <? 5); lia|].
  split; [vm_compute; reflexivity|]. split; [vm_compute; reflexivity|].
  split; [repeat split|]. split; [vm_compute; auto|].
  vm_compute. repeat split.
Qed.

(* the reading "start not fixed by the user AND end not fixed by the user" of the start clause: a
   leaf with a user-fixed end and no start is given start = min (first free day, user end) (repair
   F24, property C07: start <= end); when the fixed end lies on a day before the clock's no start
   can satisfy both properties, and the schedule (model and implementation alike) puts the start
   at the user's end, before the current day.  The reservation clause holds regardless. *)
Theorem C02_fixed_end_conflict : forall nw e s,
  day_of e < day_of nw -> s <= e -> ~ (day_of nw <= day_of s).
Proof. exact c02_fixed_end_conflict. Qed.

Definition ex_fixed_end : list itask :=
  [ {| k_parent := None; k_children := []; k_preds := []; k_succs := []; k_ext := false; k_milestone := false;
       k_res := 0; k_est := Some 64; k_spent := None; k_start := None; k_end := Some (19600 * DAY);
       k_minstart := None |} ].

Example C02_start_clause_needs_no_user_end :
  WFin ex_fixed_end /\ free_start_leaf ex_fixed_end 0
  /\ match forward ex_cfg ex_fixed_end with
     | Ok st => d_start (getd st 0) = Some (19600 * DAY) /\ lg st = []
                /\ day_of (19600 * DAY) < day_of (now ex_cfg)
     | _ => False
     end.
Proof. split; [vm_compute; reflexivity|]. split; [repeat split|]. vm_compute. repeat split. Qed.

(* ---- source-text tie for the recursive pass (gen/SrcPass.v: ForwardScheduler.__forward_pass / BackwardScheduler.__backward_pass translated from schedule.py on every run;
   Sched/SrcPassEquivF.v / SrcPassEquivB.v relates it to the model's pass for every input, Sched/SrcPassProps.v transports the theorems):
   what follows is about the TRANSLATED SOURCE called once per root as calc does ([src_roots_fold]) after calc's pre-checks. ---- *)
From PJ Require Import gen.SrcPass Sched.SrcPassRel Sched.SrcPassEquivF Sched.SrcPassEquivB Sched.SrcPassProps.

Theorem C02_src_forward_pass : forall cfg w ds l cl, isolated_ok w = true -> no_future_ends w (now cfg) = true ->
  src_roots_fold src_fwd_pass cfg w (roots w) = Ok (ds, l, cl) ->
  cap_nonneg cfg -> WFin w -> ext_last w -> c02_b cfg w (obs_of w (src_sst (ds, l, cl))) = true.
Proof. exact src_fwd_c02_oracle. Qed.

Print Assumptions C02_leaf.
Print Assumptions C02_milestone.
Print Assumptions C02_prereqs_meaning.
Print Assumptions C02_prereq_leaves_meaning.
Print Assumptions C02_prereq_ends_defined.
Print Assumptions C02_descendant_ends.
Print Assumptions C02_oracle_meaning.
Print Assumptions C02_forward_passes_oracle.
Print Assumptions C02_fixed_end_conflict.
Print Assumptions C02_example.
Print Assumptions C02_start_clause_needs_no_user_end.
Print Assumptions C02_src_forward_pass.
