(* C07 - In every forward or backward schedule each task's start is not later than its end, and each
   summary task starts at the earliest start of its children, ends at the latest end of its children,
   and carries the sum of its children's estimates and of their spent work; dates, estimates and spent
   values the user had put on a summary task are replaced by these roll-ups.  Consequently the
   result's WBS.start and WBS.end are the earliest start and the latest end over all of its tasks.

   Statement file: theorems closed by [exact], Print Assumptions below.  They hold for every
   well-formed abstract WBS [WFin w] (any size, hierarchy, links, tasks outside the WBS - the
   boolean wfin_b is evaluated on every generated case), every capacity function with non-negative
   values, both schedulers, both balance settings, every project bound and clock.

   [c07_task_st w gs ge gest gsp t] is the per-task statement over four getters (start, end, estimate,
   spent of a task): the task has both dates; a leaf whose user-fixed dates are sane
   ([user_dates_ok]: a fixed start is not after a fixed end) has start <= end; a summary (not a
   milestone) has every child dated, start = the minimum of the children's starts, end = the maximum of
   their ends ([is_minz]/[is_maxz]: an element of the list that bounds it), every child has an estimate
   and a spent value and the summary carries their sums ([sum_rollup]).  The clause never reads k_start/k_end/k_est/k_spent of the summary: whatever
   the user had put there is replaced.  The getters of the model's final state are [ds_start (dy st)]
   etc.; those of an observed schedule [o_start o] etc. *)
From PJ Require Import Base.Prelude Sched.Model Sched.Machine Sched.Instances Sched.C03Proofs
     Sched.Check Sched.Oracles Sched.OracleProofs Sched.WfIn Sched.C04Base Sched.C07Proofs.

(* leaves: start <= end; summaries: the four roll-ups *)
Theorem C07_forward : forall cfg w st,
  WFin w -> cap_nonneg cfg -> forward cfg w = Ok st ->
  forall t, k_ext (gett w t) = false ->
    c07_task_st w (ds_start (dy st)) (ds_end (dy st)) (ds_est (dy st)) (ds_spent (dy st)) t.
Proof. exact C07_forward_holds. Qed.

Theorem C07_backward : forall cfg w st,
  WFin w -> cap_nonneg cfg -> backward cfg w = Ok st ->
  forall t, k_ext (gett w t) = false ->
    c07_task_st w (ds_start (dy st)) (ds_end (dy st)) (ds_est (dy st)) (ds_spent (dy st)) t.
Proof. exact C07_backward_holds. Qed.

(* every task - summaries too - starts no later than it ends: forward when no leaf carries a fixed
   start after its fixed end (such a leaf keeps both dates; what the user put on summaries does not
   matter), backward without any condition *)
Theorem C07_order_forward : forall cfg w st,
  WFin w -> cap_nonneg cfg -> forward cfg w = Ok st -> udok_leaf w ->
  forall t, k_ext (gett w t) = false -> ordered (ds_start (dy st)) (ds_end (dy st)) t.
Proof. exact C07_order_forward_holds. Qed.

Theorem C07_order_backward : forall cfg w st,
  WFin w -> cap_nonneg cfg -> backward cfg w = Ok st ->
  forall t, k_ext (gett w t) = false -> ordered (ds_start (dy st)) (ds_end (dy st)) t.
Proof. exact C07_order_backward_holds. Qed.

(* the sum clause of the task statement spelled out: every child of a summary has an estimate and a
   spent value, the summary has exactly their sums *)
Theorem C07_sums_forward : forall cfg w st,
  WFin w -> cap_nonneg cfg -> forward cfg w = Ok st ->
  forall t, k_ext (gett w t) = false -> is_leaf (gett w t) = false -> k_milestone (gett w t) = false ->
    sums_st w (dy st) t.
Proof. exact C07_forward_sums. Qed.

Theorem C07_sums_backward : forall cfg w st,
  WFin w -> cap_nonneg cfg -> backward cfg w = Ok st ->
  forall t, k_ext (gett w t) = false -> is_leaf (gett w t) = false -> k_milestone (gett w t) = false ->
    sums_st w (dy st) t.
Proof. exact C07_backward_sums. Qed.

(* WBS.start / WBS.end (min / max over the roots) are the min / max over all tasks - for any
   schedule, observed or computed, whose tasks satisfy the per-task statement *)
Theorem C07_wbs : forall w gs ge gest gsp,
  WFin w -> (forall t, k_ext (gett w t) = false -> c07_task_st w gs ge gest gsp t) ->
  wbs_start w gs = omin (somes (map gs (members w))) /\ wbs_end w ge = omax (somes (map ge (members w))).
Proof. exact wbs_is_min_max. Qed.

Theorem C07_wbs_declarative : forall w gs ge gest gsp,
  WFin w -> (forall t, k_ext (gett w t) = false -> c07_task_st w gs ge gest gsp t) ->
  min_of (somes (map gs (members w))) (wbs_start w gs) /\ max_of (somes (map ge (members w))) (wbs_end w ge).
Proof. exact wbs_bounds. Qed.

(* the executable oracles evaluated on the implementation's output mean exactly these statements *)
Theorem C07_oracle_meaning_task : forall w o t,
  c07_task_b w o t = true <-> c07_task_st w (o_start o) (o_end o) (o_est o) (o_spent o) t.
Proof. exact c07_task_b_spec. Qed.

Theorem C07_oracle_meaning_order : forall w o,
  c07_order_b w o = true <-> (udok_leaf w -> forall t, k_ext (gett w t) = false -> ordered (o_start o) (o_end o) t).
Proof. exact c07_order_b_spec. Qed.

Theorem C07_oracle_meaning : forall w o ws we,
  c07_b w o ws we = true <-> c07_st w (o_start o) (o_end o) (o_est o) (o_spent o) ws we.
Proof. exact c07_b_spec. Qed.

(* the vocabulary of the statements is the intended one *)
Theorem C07_min_max_meaning : forall l x,
  is_minz (zmin_list x l) (x :: l) /\ is_maxz (zmax_list x l) (x :: l)
  /\ (forall a b, is_minz a (x :: l) -> is_minz b (x :: l) -> a = b)
  /\ (forall a b, is_maxz a (x :: l) -> is_maxz b (x :: l) -> a = b).
Proof. exact min_max_meaning. Qed.

(* ... and the model's own output, with the WBS dates computed from its roots, always passes them *)
Theorem C07_forward_passes_oracle : forall cfg w st,
  WFin w -> cap_nonneg cfg -> exts_last w -> forward cfg w = Ok st ->
  c07_b w (obs_of w st) (wbs_start w (ds_start (dy st))) (wbs_end w (ds_end (dy st))) = true.
Proof. exact C07_forward_oracle. Qed.

Theorem C07_backward_passes_oracle : forall cfg w st,
  WFin w -> cap_nonneg cfg -> exts_last w -> backward cfg w = Ok st ->
  c07_b w (obs_of w st) (wbs_start w (ds_start (dy st))) (wbs_end w (ds_end (dy st))) = true.
Proof. exact C07_backward_oracle. Qed.

(* the part check_case evaluates on the model's output in every case (bit model_oracle) *)
Theorem C07_model_passes_case_bits : forall cfg w st fwd,
  WFin w -> cap_nonneg cfg -> exts_last w -> run fwd cfg w = Ok st ->
  forallb (c07_task_b w (obs_of w st)) (members w) = true /\ c07_order_b w (obs_of w st) = true.
Proof. exact C07_model_bits. Qed.

(* non-vacuity: a summary on which the user had put dates (even a start after the end: they are
   discarded, [udok_leaf] looks at leaves only), an estimate and a spent value, with two
   leaves competing for one Mon-Fri 64-unit resource and a milestone below it; a completed leaf with
   fixed start and end; a root leaf on another resource *)
Definition ex_cap (r : nat) (d : Z) : Z := if weekday_of_day d <? 5 then 64 else 0.
Definition ex_cfg : config :=
  {| cap := ex_cap; balance := true; dflt_est := 0; pbound := 19723 * DAY; now := 19700 * DAY;
     h_search := 1000; h_near := 1000; h_fill := 1000 |}.
Definition ex_leaf (p : option nat) (ms : bool) (r : nat) (est sp s e : option Z) : itask :=
  {| k_parent := p; k_children := []; k_preds := []; k_succs := []; k_ext := false; k_milestone := ms;
     k_res := r; k_est := est; k_spent := sp; k_start := s; k_end := e; k_minstart := None |}.
Definition ex_w : list itask :=
  [ {| k_parent := None; k_children := [1; 2; 3]%nat; k_preds := []; k_succs := []; k_ext := false;
       k_milestone := false; k_res := 0;
       k_est := Some 999; k_spent := Some 7; k_start := Some (19001 * DAY); k_end := Some (19000 * DAY);
       k_minstart := None |};
    ex_leaf (Some 0%nat) false 0 (Some 80) (Some 16) None None;
    ex_leaf (Some 0%nat) false 0 (Some 48) None None None;
    ex_leaf (Some 0%nat) true 0 None None None None;
    ex_leaf None false 0 (Some 8) (Some 8) (Some (19690 * DAY)) (Some (19695 * DAY));
    ex_leaf None false 1 (Some 16) None None None ].

Example C07_example :
  WFin ex_w /\ exts_last ex_w /\ cap_nonneg ex_cfg /\ udok_leaf ex_w /\
  match forward ex_cfg ex_w with
  | Ok st =>
      (* the summary: Monday 00:00 .. Tuesday 18:00, 80 + 48 + 0 units, 16 + 0 + 0 spent *)
      dyn_obs (getd st 0) = (Some (19723 * DAY), Some (19724 * DAY + 3 * (DAY / 4)), Some 128, Some 16)
      /\ map (fun t => d_start (getd st t)) [1; 2; 3]%nat = [Some (19723 * DAY); Some (19724 * DAY); Some (19723 * DAY)]
      /\ map (fun t => d_end (getd st t)) [1; 2; 3]%nat
         = [Some (19724 * DAY); Some (19724 * DAY + 3 * (DAY / 4)); Some (19723 * DAY)]
      (* the completed leaf keeps its dates and is the earliest task *)
      /\ dyn_obs (getd st 4) = (Some (19690 * DAY), Some (19695 * DAY), Some 8, Some 8)
      /\ wbs_start ex_w (ds_start (dy st)) = Some (19690 * DAY)
      /\ wbs_end ex_w (ds_end (dy st)) = Some (19724 * DAY + 3 * (DAY / 4))
      /\ c07_b ex_w (obs_of ex_w st) (Some (19690 * DAY)) (Some (19724 * DAY + 3 * (DAY / 4))) = true
  | _ => False
  end /\
  match backward ex_cfg ex_w with
  | Ok st =>
      (* backward from Monday 00:00: the two leaves share the preceding Thursday and Friday *)
      dyn_obs (getd st 0) = (Some (19719 * DAY), Some (19723 * DAY), Some 128, Some 16)
      /\ wbs_start ex_w (ds_start (dy st)) = Some (19690 * DAY)
      /\ wbs_end ex_w (ds_end (dy st)) = Some (19723 * DAY)
  | _ => False
  end.
Proof.
  split; [vm_compute; reflexivity|].
  split; [apply exts_last_b_spec; vm_compute; reflexivity|].
  split; [intros r d; unfold ex_cfg, ex_cap; cbn [cap]; destruct (weekday_of_day d <? 5); lia|].
  split; [apply udok_leaf_b; vm_compute; reflexivity|].
  split; vm_compute; repeat split; reflexivity.
Qed.

(* ---- source-text tie for the recursive pass (gen/SrcPass.v: ForwardScheduler.__forward_pass / BackwardScheduler.__backward_pass translated from schedule.py on every run;
   Sched/SrcPassEquivF.v / SrcPassEquivB.v relates it to the model's pass for every input, Sched/SrcPassProps.v transports the theorems):
   what follows is about the TRANSLATED SOURCE called once per root as calc does ([src_roots_fold]) after calc's pre-checks. ---- *)
From PJ Require Import gen.SrcPass Sched.SrcPassRel Sched.SrcPassEquivF Sched.SrcPassEquivB Sched.SrcPassProps.

Theorem C07_src_forward_pass : forall cfg w ds l cl, isolated_ok w = true -> no_future_ends w (now cfg) = true ->
  src_roots_fold src_fwd_pass cfg w (roots w) = Ok (ds, l, cl) ->
  WFin w -> cap_nonneg cfg -> forall t, k_ext (gett w t) = false ->
  c07_task_st w (ds_start ds) (ds_end ds) (ds_est ds) (ds_spent ds) t.
Proof. exact src_fwd_rollups. Qed.

Theorem C07_src_backward_pass : forall cfg w ds l cl, isolated_ok w = true ->
  src_roots_fold src_bwd_pass cfg w (rev (roots w)) = Ok (ds, l, cl) ->
  WFin w -> cap_nonneg cfg -> forall t, k_ext (gett w t) = false ->
  c07_task_st w (ds_start ds) (ds_end ds) (ds_est ds) (ds_spent ds) t.
Proof. exact src_bwd_rollups. Qed.

(* ---- WBS.start / WBS.end from the source text (wbs.py; gen/SrcPass.v src_wbs_start / src_wbs_end; Sched/SrcWbsDates.v) ---- *)
From PJ Require Import Sched.SrcWbsDates.

Theorem C07_src_wbs_start : forall w ds, src_wbs_start w ds = Ok (wbs_start w (ds_start ds)).
Proof. exact src_wbs_start_eq. Qed.

Theorem C07_src_wbs_end : forall w ds, src_wbs_end w ds = Ok (wbs_end w (ds_end ds)).
Proof. exact src_wbs_end_eq. Qed.

Print Assumptions C07_forward.
Print Assumptions C07_backward.
Print Assumptions C07_order_forward.
Print Assumptions C07_order_backward.
Print Assumptions C07_sums_forward.
Print Assumptions C07_sums_backward.
Print Assumptions C07_wbs.
Print Assumptions C07_wbs_declarative.
Print Assumptions C07_oracle_meaning_task.
Print Assumptions C07_oracle_meaning_order.
Print Assumptions C07_oracle_meaning.
Print Assumptions C07_min_max_meaning.
Print Assumptions C07_forward_passes_oracle.
Print Assumptions C07_backward_passes_oracle.
Print Assumptions C07_model_passes_case_bits.
Print Assumptions C07_example.
Print Assumptions C07_src_forward_pass.
Print Assumptions C07_src_backward_pass.
Print Assumptions C07_src_wbs_start.
Print Assumptions C07_src_wbs_end.
