(* C12 - critical_path returns exactly the zero-float leaves of the dependency network.
   Statement file: every theorem is closed by [exact] of a lemma proved in Crit/*.v and followed by
   Print Assumptions.  [dag] = leaves in a topological order, each with its duration
   max(estimate - spent, 0) >= 0 (exact) and the positions of its effective predecessors; [wf] says
   just that (durations >= 0, predecessors earlier), so the theorems hold for every acyclic network
   of any size.  [critical] is the model of CriticalPathCalculator.calc(): the activity-on-arc
   network of the code, its forward and backward pass and the test slack == 0. *)
From PJ Require Import Base.Prelude Crit.CritPath Crit.CritPathProofs Crit.CritNetProofs
  Crit.CritWbsProofs Crit.CritScaleProofs Crit.CritCheck Crit.CritCheckProofs
  Crit.CritUnrepaired Crit.CritUnrepairedProofs.
Open Scope Z_scope.

(* ef i is the length of the longest dependency chain that ends in leaf i: no chain is longer, one
   is as long *)
Theorem C12_dp_ef : forall w, wf w -> forall i, (i < length w)%nat ->
  (forall len, chain_to w i len -> len <= ef w i) /\ chain_to w i (ef w i).
Proof. exact dp_ef. Qed.

(* tail i is the length of the longest chain that starts in leaf i *)
Theorem C12_dp_tail : forall w, wf w -> forall i, (i < length w)%nat ->
  (forall len, chain_from w i len -> len <= tail w i) /\ chain_from w i (tail w i).
Proof. exact dp_tail. Qed.

(* the project length L = max ef is the length of the longest chain of the network *)
Theorem C12_length : forall w, wf w ->
  (forall i len, chain_to w i len -> len <= proj_len w)
  /\ (w <> [] -> exists i, chain_to w i (proj_len w)).
Proof. exact length_spec. Qed.

(* the network of the code (two nodes per leaf, a zero arc per dependency, begin and finish node,
   forward longest path, backward latest time) computes the float of the characterisation *)
Theorem C12_slack : forall w, wf w -> forall i, (i < length w)%nat ->
  slack w i = proj_len w - (ef w i + tail w i - dur w i).
Proof. exact slack_spec. Qed.

(* calc() returns exactly the leaves whose earliest finish plus longest remaining tail equals the
   project length *)
Theorem C12_exact : forall w, wf w -> forall i,
  In i (critical w) <-> (i < length w)%nat /\ ef w i + tail w i - dur w i = proj_len w.
Proof. exact exact_spec. Qed.

(* never empty when there is a leaf; no leaf twice *)
Theorem C12_nonempty : forall w, wf w -> w <> [] -> critical w <> [].
Proof. exact critical_nonempty. Qed.

Theorem C12_nodup : forall w, NoDup (critical w).
Proof. exact critical_nodup. Qed.

(* the unit of measure is immaterial: rational amounts may be turned into integers by any common
   denominator k > 0 (what the harness does; the repaired code computes with exact fractions) *)
Theorem C12_scale : forall k w, 0 < k -> wf w -> wf (scale k w) /\ critical (scale k w) = critical w.
Proof. exact critical_scale. Qed.

(* a link P -> S declared on summary tasks binds every leaf under P before every leaf under S *)
Theorem C12_summary : forall b S P ls lp, parents_first b ->
  In P (declared b S) -> leaf_under b lp P -> leaf_under b ls S -> In lp (eff_preds b ls).
Proof. exact summary_link_binds. Qed.

(* ... and the expansion binds nothing else (tasks outside the WBS are not leaves of it) *)
Theorem C12_expansion_exact : forall b ls lp, parents_first b -> (ls < length b)%nat ->
  (In lp (eff_preds b ls) <->
   exists S P, (ls = S \/ anc b S ls) /\ In P (declared b S) /\ leaf_under b lp P).
Proof. exact eff_preds_spec. Qed.

(* the whole call on a WBS, for any topological order of its leaves *)
Theorem C12_wbs : forall b order t, wf (dag_of b order) ->
  (In t (critical_tasks b order) <->
   exists i, nth_error order i = Some t
             /\ through (dag_of b order) i = proj_len (dag_of b order)).
Proof. exact critical_tasks_spec. Qed.

(* the boolean oracle the check evaluates on what the implementation returned *)
Theorem C12_oracle : forall b order returned, wf (dag_of b order) ->
  (exact_b b order returned = true <->
   forall t, In t returned <->
             exists i, nth_error order i = Some t
                       /\ ef (dag_of b order) i + tail (dag_of b order) i - dur (dag_of b order) i
                          = proj_len (dag_of b order)).
Proof. exact exact_b_spec. Qed.

Theorem C12_check_case : forall b order hdag code returned,
  check_case (b, order, hdag, code, returned) = 0%nat ->
  parents_first b /\ wf (dag_of b order) /\ code = 0%nat /\ exact_b b order returned = true.
Proof. exact check_case_ok. Qed.

(* before the repairs (DESIGN.md F17, F18; the same inputs fail on the unpatched implementation):
   with binary64 arithmetic the test slack == 0 loses zero-float leaves (0.1 -> 0.2 beside 0.3 gives
   nothing; the chain 0.1 -> 0.2 -> 0.7 gives only its last task) ... *)
Theorem C12_exact_refuted_binary64 :
  fcritical f17_beside = [] /\ critical [(1, []); (2, [0%nat]); (3, [])] = [0; 1; 2]%nat
  /\ fcritical f17_chain = [2%nat] /\ critical [(1, []); (2, [0%nat]); (7, [1%nat])] = [0; 1; 2]%nat.
Proof. exact float_slack_refuted. Qed.

(* ... and with links read from the leaf only, a predecessor declared on a summary is lost *)
Theorem C12_summary_refuted_unexpanded :
  let T p ps e := {| wparent := p; wpreds := ps; winside := true; west := Some e; wspent := None |} in
  let b := [T None [] 10; T None [0%nat] 0; T (Some 1%nat) [] 2; T None [] 11] in
  critical_tasks_naive b [0; 2; 3]%nat = [3%nat] /\ critical_tasks b [0; 2; 3]%nat = [0; 2]%nat.
Proof. exact unexpanded_links_refuted. Qed.

(* non-vacuity: summary A (leaves 1 -> 2, estimates 0.1 and 0.2 in units of 0.1), summary B waits for
   A (leaves 4: 0.7 and 6: zero length), a parallel leaf 5 of the same total length 1.0 that also
   names task 7 of another project.  The hypotheses hold, the link on the summaries binds the
   leaves, both branches are critical, the zero-length leaf 6 with float is not. *)
Example C12_example :
  let T p ps e := {| wparent := p; wpreds := ps; winside := true; west := e; wspent := None |} in
  let b := [ T None [] None; T (Some 0%nat) [] (Some 1); T (Some 0%nat) [1%nat] (Some 2);
             T None [0%nat] None; T (Some 3%nat) [] (Some 7); T None [7%nat] (Some 10);
             T (Some 3%nat) [] (Some 0);
             {| wparent := None; wpreds := []; winside := false; west := Some 100; wspent := None |} ] in
  let order := [1; 2; 4; 6; 5]%nat in
  parents_first_b b = true
  /\ dag_of b order = [(1, []); (2, [0%nat]); (7, [0; 1]%nat); (0, [0; 1]%nat); (10, [])]
  /\ wf_b (dag_of b order) = true
  /\ map (ef (dag_of b order)) (seq 0 5) = [1; 3; 10; 3; 10]
  /\ map (tail (dag_of b order)) (seq 0 5) = [10; 9; 7; 0; 10]
  /\ proj_len (dag_of b order) = 10
  /\ critical_tasks b order = [1; 2; 4; 5]%nat
  /\ check_case (b, order, dag_of b order, 0%nat, [5; 1; 2; 4]%nat) = 0%nat
  /\ check_case (b, order, dag_of b order, 0%nat, [4]%nat) = 2%nat.
Proof. vm_compute. repeat split. Qed.

Print Assumptions C12_dp_ef.
Print Assumptions C12_dp_tail.
Print Assumptions C12_length.
Print Assumptions C12_slack.
Print Assumptions C12_exact.
Print Assumptions C12_nonempty.
Print Assumptions C12_nodup.
Print Assumptions C12_scale.
Print Assumptions C12_summary.
Print Assumptions C12_expansion_exact.
Print Assumptions C12_wbs.
Print Assumptions C12_oracle.
Print Assumptions C12_check_case.
Print Assumptions C12_exact_refuted_binary64.
Print Assumptions C12_summary_refuted_unexpanded.
Print Assumptions C12_example.
