(* C12 - critical_path returns exactly the zero-float leaves of the dependency network.
   Statement file: every theorem is closed by [exact] of a lemma proved in Crit/*.v and followed by
   Print Assumptions.  [dag] = leaves in a topological order, each with its duration
   max(estimate - spent, 0) >= 0 (exact) and the positions of its effective predecessors; [wf] says
   just that (durations >= 0, predecessors earlier), so the theorems hold for every acyclic network
   of any size.  [critical] is the model of CriticalPathCalculator.calc(): the activity-on-arc
   network of the code, its forward and backward pass and the test slack == 0. *)
From PJ Require Import Base.Prelude Crit.CritPath Crit.CritPathProofs Crit.CritNetProofs
  Crit.CritWbsProofs Crit.CritScaleProofs Crit.CritCheck Crit.CritCheckProofs
  Crit.CritUnrepaired Crit.CritUnrepairedProofs.
From Coq Require Import Permutation.
From PJ Require Import Crit.CritOrder Crit.CritOrderProofs Crit.CritOrderTopoProofs.
Open Scope Z_scope.

(* ef i is the length of the longest dependency chain that ends in leaf i: no chain is longer, one
   is as long *)
Theorem C12_dp_ef : forall w, wf w -> forall i, (i < length w)%nat ->
  (forall len, chain_to w i len -> len <= ef w i) /\ chain_to w i (ef w i).
Proof. exact dp_ef. Qed.

(* tail i is the length of the longest chain that starts in leaf i *)
Theorem C12_dp_tail : forall w, wf w -> forall i, (i < length w)%nat ->
  (forall len, chain_from w i len -> len <= tail w i) /\ chain_from w i (tail w i).
Proof. exact dp_tail. Qed.

(* the project length L = max ef is the length of the longest chain of the network *)
Theorem C12_length : forall w, wf w ->
  (forall i len, chain_to w i len -> len <= proj_len w)
  /\ (w <> [] -> exists i, chain_to w i (proj_len w)).
Proof. exact length_spec. Qed.

(* the network of the code (two nodes per leaf, a zero arc per dependency, begin and finish node,
   forward longest path, backward latest time) computes the float of the characterisation *)
Theorem C12_slack : forall w, wf w -> forall i, (i < length w)%nat ->
  slack w i = proj_len w - (ef w i + tail w i - dur w i).
Proof. exact slack_spec. Qed.

(* calc() returns exactly the leaves whose earliest finish plus longest remaining tail equals the
   project length *)
Theorem C12_exact : forall w, wf w -> forall i,
  In i (critical w) <-> (i < length w)%nat /\ ef w i + tail w i - dur w i = proj_len w.
Proof. exact exact_spec. Qed.

(* never empty when there is a leaf; no leaf twice *)
Theorem C12_nonempty : forall w, wf w -> w <> [] -> critical w <> [].
Proof. exact critical_nonempty. Qed.

Theorem C12_nodup : forall w, NoDup (critical w).
Proof. exact critical_nodup. Qed.

(* the unit of measure is immaterial: rational amounts may be turned into integers by any common
   denominator k > 0 (what the harness does; the repaired code computes with exact fractions) *)
Theorem C12_scale : forall k w, 0 < k -> wf w -> wf (scale k w) /\ critical (scale k w) = critical w.
Proof. exact critical_scale. Qed.

(* a link P -> S declared on summary tasks binds every leaf under P before every leaf under S *)
Theorem C12_summary : forall b S P ls lp, parents_first b ->
  In P (declared b S) -> leaf_under b lp P -> leaf_under b ls S -> In lp (eff_preds b ls).
Proof. exact summary_link_binds. Qed.

(* ... and the expansion binds nothing else (tasks outside the WBS are not leaves of it) *)
Theorem C12_expansion_exact : forall b ls lp, parents_first b -> (ls < length b)%nat ->
  (In lp (eff_preds b ls) <->
   exists S P, (ls = S \/ anc b S ls) /\ In P (declared b S) /\ leaf_under b lp P).
Proof. exact eff_preds_spec. Qed.

(* the whole call on a WBS, for any topological order of its leaves *)
Theorem C12_wbs : forall b order t, wf (dag_of b order) ->
  (In t (critical_tasks b order) <->
   exists i, nth_error order i = Some t
             /\ through (dag_of b order) i = proj_len (dag_of b order)).
Proof. exact critical_tasks_spec. Qed.

(* the boolean oracle the check evaluates on what the implementation returned *)
Theorem C12_oracle : forall b order returned, wf (dag_of b order) ->
  (exact_b b order returned = true <->
   forall t, In t returned <->
             exists i, nth_error order i = Some t
                       /\ ef (dag_of b order) i + tail (dag_of b order) i - dur (dag_of b order) i
                          = proj_len (dag_of b order)).
Proof. exact exact_b_spec. Qed.

Theorem C12_check_case : forall b order hdag code returned,
  check_case (b, order, hdag, code, returned) = 0%nat ->
  parents_first b /\ wf (dag_of b order) /\ code = 0%nat /\ exact_b b order returned = true.
Proof. exact check_case_ok. Qed.

(* before the repairs (DESIGN.md F17, F18; the same inputs fail on the unpatched implementation):
   with binary64 arithmetic the test slack == 0 loses zero-float leaves (0.1 -> 0.2 beside 0.3 gives
   nothing; the chain 0.1 -> 0.2 -> 0.7 gives only its last task) ... *)
Theorem C12_exact_refuted_binary64 :
  fcritical f17_beside = [] /\ critical [(1, []); (2, [0%nat]); (3, [])] = [0; 1; 2]%nat
  /\ fcritical f17_chain = [2%nat] /\ critical [(1, []); (2, [0%nat]); (7, [1%nat])] = [0; 1; 2]%nat.
Proof. exact float_slack_refuted. Qed.

(* ... and with links read from the leaf only, a predecessor declared on a summary is lost *)
Theorem C12_summary_refuted_unexpanded :
  let T p ps e := {| wparent := p; wpreds := ps; winside := true; west := Some e; wspent := None |} in
  let b := [T None [] 10; T None [0%nat] 0; T (Some 1%nat) [] 2; T None [] 11] in
  critical_tasks_naive b [0; 2; 3]%nat = [3%nat] /\ critical_tasks b [0; 2; 3]%nat = [0; 2]%nat.
Proof. exact unexpanded_links_refuted. Qed.

(* non-vacuity: summary A (leaves 1 -> 2, estimates 0.1 and 0.2 in units of 0.1), summary B waits for
   A (leaves 4: 0.7 and 6: zero length), a parallel leaf 5 of the same total length 1.0 that also
   names task 7 of another project.  The hypotheses hold, the link on the summaries binds the
   leaves, both branches are critical, the zero-length leaf 6 with float is not. *)
Example C12_example :
  let T p ps e := {| wparent := p; wpreds := ps; winside := true; west := e; wspent := None |} in
  let b := [ T None [] None; T (Some 0%nat) [] (Some 1); T (Some 0%nat) [1%nat] (Some 2);
             T None [0%nat] None; T (Some 3%nat) [] (Some 7); T None [7%nat] (Some 10);
             T (Some 3%nat) [] (Some 0);
             {| wparent := None; wpreds := []; winside := false; west := Some 100; wspent := None |} ] in
  let order := [1; 2; 4; 6; 5]%nat in
  parents_first_b b = true
  /\ dag_of b order = [(1, []); (2, [0%nat]); (7, [0; 1]%nat); (0, [0; 1]%nat); (10, [])]
  /\ wf_b (dag_of b order) = true
  /\ map (ef (dag_of b order)) (seq 0 5) = [1; 3; 10; 3; 10]
  /\ map (tail (dag_of b order)) (seq 0 5) = [10; 9; 7; 0; 10]
  /\ proj_len (dag_of b order) = 10
  /\ critical_tasks b order = [1; 2; 4; 5]%nat
  /\ check_case (b, order, dag_of b order, 0%nat, [5; 1; 2; 4]%nat) = 0%nat
  /\ check_case (b, order, dag_of b order, 0%nat, [4]%nat) = 2%nat.
Proof. vm_compute. repeat split. Qed.

(* ---- Session 3: the order of the leaves is immaterial, and an acyclic WBS has one ---- *)

(* the call on a WBS in terms of TASKS only (no positions): t is returned iff it is a listed leaf and
   the longest chain of effective-predecessor edges through t (longest chain ending in t + longest
   chain starting in t, t counted once) is as long as the longest chain of the whole network *)
Theorem C12_tasks : forall b order t, wf (dag_of b order) -> NoDup order ->
  (In t (critical_tasks b order) <-> tcritical b order t).
Proof. exact critical_tasks_tcritical. Qed.

(* two topological orders of the same leaves give the same SET of critical tasks *)
Theorem C12_order_independent : forall b order1 order2,
  NoDup order1 -> Permutation order1 order2 ->
  wf (dag_of b order1) -> wf (dag_of b order2) ->
  forall t, In t (critical_tasks b order1) <-> In t (critical_tasks b order2).
Proof. exact order_independent. Qed.

Theorem C12_order_independent_sets : forall b order1 order2,
  NoDup order1 -> NoDup order2 -> (forall t, In t order1 <-> In t order2) ->
  wf (dag_of b order1) -> wf (dag_of b order2) ->
  forall t, In t (critical_tasks b order1) <-> In t (critical_tasks b order2).
Proof. exact order_independent_sets. Qed.

(* the boolean the checker evaluates on the order of every case: it lists every leaf exactly once *)
Theorem C12_order_ok : forall b order, order_ok b order = true <-> enumerates_leaves b order.
Proof. exact order_ok_spec. Qed.

(* Kahn's topological sort of the leaves (fuel = number of leaves + 1) is sound ... *)
Theorem C12_topo_sound : forall b o, topo_sort b = Some o ->
  enumerates_leaves b o /\ wf (dag_of b o).
Proof. exact topo_sort_sound. Qed.

(* ... and complete: it succeeds on every WBS whose effective-predecessor relation has no cycle
   ([acyclic b]: no task reaches itself through eff_preds edges), and only on those *)
Theorem C12_topo_complete : forall b, acyclic b -> exists o, topo_sort b = Some o.
Proof. exact topo_sort_complete. Qed.

Theorem C12_topo_none_cyclic : forall b, topo_sort b = None <-> ~ acyclic b.
Proof. exact topo_sort_none_iff. Qed.

(* "acyclic" is exactly "the leaves can be listed in a topological order" (the precondition wf of
   the theorems above is satisfiable precisely on the property's domain) *)
Theorem C12_acyclic_iff_order : forall b,
  acyclic b <-> exists order, enumerates_leaves b order /\ wf (dag_of b order).
Proof. exact acyclic_iff_order. Qed.

(* C12 with no order supplied from outside: on an acyclic WBS the call is defined, returns exactly
   the leaves that lie on a longest chain of the network of all leaves, and any topological
   enumeration of the leaves gives the same set *)
Theorem C12_wbs_any_order : forall b, acyclic b ->
  exists crit, critical_of b = Some crit
    /\ (forall t, In t crit <-> tcritical b (leaves b) t)
    /\ forall order, enumerates_leaves b order -> wf (dag_of b order) ->
       forall t, In t (critical_tasks b order) <-> In t crit.
Proof. exact wbs_any_order. Qed.

Theorem C12_any_order_nonempty : forall b crit,
  critical_of b = Some crit -> leaves b <> [] -> crit <> [].
Proof. exact critical_of_nonempty. Qed.

(* non-vacuity: the WBS of C12_example listed in two different topological orders - the lists differ,
   the sets agree; topo_sort finds a third order.  A cycle that closes through the hierarchy (A is a
   child of P, B waits for A, P waits for B - the setters of the library accept it, the repaired
   critical_path() raises KeyError): the sort reports it. *)
Example C12_order_example :
  let T p ps e := {| wparent := p; wpreds := ps; winside := true; west := e; wspent := None |} in
  let b := [ T None [] None; T (Some 0%nat) [] (Some 1); T (Some 0%nat) [1%nat] (Some 2);
             T None [0%nat] None; T (Some 3%nat) [] (Some 7); T None [7%nat] (Some 10);
             T (Some 3%nat) [] (Some 0);
             {| wparent := None; wpreds := []; winside := false; west := Some 100; wspent := None |} ] in
  let order1 := [1; 2; 4; 6; 5]%nat in
  let order2 := [5; 1; 2; 6; 4]%nat in
  let cyc := [ T None [2%nat] None; T (Some 0%nat) [] (Some 1); T None [1%nat] (Some 2) ] in
  order_ok b order1 = true /\ order_ok b order2 = true
  /\ wf_b (dag_of b order1) = true /\ wf_b (dag_of b order2) = true
  /\ list_eqb Nat.eqb order1 order2 = false
  /\ critical_tasks b order1 = [1; 2; 4; 5]%nat
  /\ critical_tasks b order2 = [5; 1; 2; 4]%nat
  /\ topo_sort b = Some [1; 2; 4; 5; 6]%nat
  /\ critical_of b = Some [1; 2; 4; 5]%nat
  /\ wf_b (dag_of b [2; 1; 4; 6; 5]%nat) = false
  /\ parents_first_b cyc = true /\ leaves cyc = [1; 2]%nat
  /\ eff_preds cyc 1 = [2%nat] /\ eff_preds cyc 2 = [1%nat]
  /\ topo_sort cyc = None /\ critical_of cyc = None.
Proof. vm_compute. repeat split. Qed.

Print Assumptions C12_dp_ef.
Print Assumptions C12_dp_tail.
Print Assumptions C12_length.
Print Assumptions C12_slack.
Print Assumptions C12_exact.
Print Assumptions C12_nonempty.
Print Assumptions C12_nodup.
Print Assumptions C12_scale.
Print Assumptions C12_summary.
Print Assumptions C12_expansion_exact.
Print Assumptions C12_wbs.
Print Assumptions C12_oracle.
Print Assumptions C12_check_case.
Print Assumptions C12_exact_refuted_binary64.
Print Assumptions C12_summary_refuted_unexpanded.
Print Assumptions C12_example.
Print Assumptions C12_tasks.
Print Assumptions C12_order_independent.
Print Assumptions C12_order_independent_sets.
Print Assumptions C12_order_ok.
Print Assumptions C12_topo_sound.
Print Assumptions C12_topo_complete.
Print Assumptions C12_topo_none_cyclic.
Print Assumptions C12_acyclic_iff_order.
Print Assumptions C12_wbs_any_order.
Print Assumptions C12_any_order_nonempty.
Print Assumptions C12_order_example.
