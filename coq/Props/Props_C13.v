(* C13 - write_csv followed by read_csv reproduces the WBS (statement file, preliminary). *)
From PJ Require Import Base.Prelude Csv.CsvModel Csv.CsvCodecProofs Csv.Fields Csv.FieldsProofs gen.Consts.
Open Scope N_scope.

Theorem C13_codec : forall (d : N) (rows : list row),
  d <> QUOTE -> d <> CR -> d <> LF -> parse_csv d (print_csv d rows) = Parsed rows.
Proof. exact parse_print_csv. Qed.

Print Assumptions C13_codec.
