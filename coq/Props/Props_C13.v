(* C13 - write_csv followed by read_csv reproduces the WBS (statement file).
   Model: Csv/CsvModel.v (Python's csv writer / reader for the dialect of csv_io.py), Csv/Fields.v (cell
   codecs), Csv/Wbs.v (tasks_to_raws, raws_to_wbs, write_csv, read_csv after the repairs C13-1..3);
   constants (header, date format, delimiters, reserved names) from gen/Consts.v.
   Domain: WbsProofs.wbs_ok = every task expressible in the layout (WbsSpec.raw_ok: dates in 1969-2068,
   attribute names distinct / public / not a column or Task name / without U+FEFF) and WbsSpec.graph_ok
   (ids unique, dependencies inside the WBS and without repetitions, no negative amount); its boolean
   form WbsSpec.wbs_ok_b (sound: RoundTrip.wbs_ok_b_sound) is evaluated on the generated cases.
   Floats: WbsSpec.float_codec_ok (float(str x) = x, str x not empty) is a hypothesis, evaluated by the
   harness on every amount of every case. *)
From PJ Require Import Base.Prelude Csv.CsvModel Csv.CsvCodecProofs Csv.Fields Csv.FieldsProofs
  Csv.Wbs Csv.WbsSpec Csv.RowsProofs Csv.AssembleProofs Csv.WbsProofs Csv.RoundTrip gen.Consts.
Open Scope Z_scope.

(* the csv layer: what the reader makes of what the writer wrote, for rows of arbitrary text
   (delimiter, quotes, CR, LF, empty rows and empty cells included) and any sensible delimiter *)
Theorem C13_codec : forall (d : N) (rows : list row),
  d <> QUOTE -> d <> CR -> d <> LF -> parse_csv d (print_csv d rows) = Parsed rows.
Proof. exact parse_print_csv. Qed.

(* the cells: every id (all of Z: 0 and negatives included), optional parent id, every day of
   1969-01-01 .. 2068-12-31 (date_lo = -365, date_hi = 36160; finite sweep) in the format of the code and
   in the format of the min_start column, booleans, predecessor lists, amounts under the float hypothesis,
   text with None read back for the empty text *)
Theorem C13_fields : forall (F : Type) (repr_float : F -> text) (parse_float : text -> option F),
  float_codec_ok repr_float parse_float ->
  (forall z : Z, parse_int (print_int z) = Some z)
  /\ (forall o : option Z, opt_parse parse_int (opt_cell print_int o) = Ok o)
  /\ (forall d, date_lo <= d < date_hi -> parse_date date_items (format_date date_items d) = Some d)
  /\ (forall d, date_lo <= d < date_hi -> parse_date iso_date_items (format_date iso_date_items d) = Some d)
  /\ (civil_of_days date_lo = (1969, 1, 1) /\ civil_of_days (date_hi - 1) = (2068, 12, 31) /\ date_hi - date_lo = 36525)
  /\ (forall o, date_ok o -> opt_parse (parse_date date_items) (opt_cell (format_date date_items) o) = Ok o)
  /\ (forall o, date_ok o -> opt_parse (parse_date iso_date_items) (opt_cell (format_date iso_date_items) o) = Ok o)
  /\ (forall b : bool, parse_bool csv_bool_true (print_bool b) = b)
  /\ (forall l : list Z, parse_preds (hd 0%N csv_pred_sep_read) (print_preds (hd 0%N csv_pred_sep_write) l) = Some l)
  /\ (forall o : option F, opt_parse parse_float (opt_cell repr_float o) = Ok o)
  /\ (forall o : option text, text_equiv (parse_opt_text (print_opt_text o)) o)
  /\ (forall t : text, print_opt_text (parse_opt_text t) = t).
Proof. exact (@fields_roundtrip). Qed.

(* tasks_to_raws then raws_to_wbs: the forest is rebuilt exactly (ids in order, hierarchy, sibling order,
   predecessor lists, every field incl. min_start and the custom attributes) *)
Theorem C13_rebuild : forall (F : Type) (f_neg : F -> bool) (w : wbs F),
  wbs_ok f_neg w -> assemble F f_neg (flatten F w) = Ok w.
Proof. exact (@rebuild). Qed.

(* the rows: the TaskRaws written as cells under the header and read back are the normalised TaskRaws *)
Theorem C13_rows : forall (F : Type) (repr_float : F -> text) (parse_float : text -> option F),
  (forall x, parse_float (repr_float x) = Some x) -> (forall x, repr_float x <> []) ->
  forall raws : list (raw F), Forall raw_ok raws ->
  let cols := custom_columns F raws in
  rows_to_raws F parse_float (csv_default_fields ++ cols) (map (raw_to_row F repr_float cols) raws)
  = Ok (map (norm_raw cols) raws).
Proof. exact (@rows_to_raws_to_rows). Qed.

(* what the equivalence of the property says, on the task list: same ids in the same order with the same
   parent and the same predecessor ids, equivalent fields (None ~ "" for texts, custom attributes by the
   text of their values) - and the task list determines the forest (C13_rebuild) *)
Theorem C13_equiv_meaning : forall (F : Type) (a b : wbs F),
  wbs_equiv a b -> Forall2 raw_equiv (flatten_plain a) (flatten_plain b).
Proof. exact (@wbs_equiv_flat). Qed.

(* the composition: read_csv (write_csv w) returns a WBS equivalent to w, for every w of the domain *)
Theorem C13_roundtrip : forall (F : Type) (repr_float : F -> text) (parse_float : text -> option F) (f_neg : F -> bool),
  float_codec_ok repr_float parse_float ->
  forall w : wbs F, wbs_ok f_neg w ->
  exists w1, read_model F parse_float f_neg delim (write_model F repr_float delim w) = Some (Ok w1)
             /\ wbs_equiv w1 w /\ Forall2 raw_equiv (flatten_plain w1) (flatten_plain w).
Proof. exact (@roundtrip_statement_proved). Qed.

(* one round trip is a fixpoint: the re-read WBS is read back exactly from its own file, so a further
   read/write cycle reproduces that file byte for byte *)
Theorem C13_fix : forall (F : Type) (repr_float : F -> text) (parse_float : text -> option F) (f_neg : F -> bool),
  float_codec_ok repr_float parse_float ->
  forall w : wbs F, wbs_ok f_neg w ->
  forall w1, read_model F parse_float f_neg delim (write_model F repr_float delim w) = Some (Ok w1) ->
  read_model F parse_float f_neg delim (write_model F repr_float delim w1) = Some (Ok w1)
  /\ (forall w2, read_model F parse_float f_neg delim (write_model F repr_float delim w1) = Some (Ok w2) ->
                 write_model F repr_float delim w2 = write_model F repr_float delim w1).
Proof. exact (@fixpoint_statement_proved). Qed.

(* a byte-order mark in front of a written file changes nothing (any WBS, no hypothesis) *)
Theorem C13_bom : forall (F : Type) (repr_float : F -> text) (parse_float : text -> option F) (f_neg : F -> bool) (w : wbs F),
  read_model F parse_float f_neg delim (BOM :: write_model F repr_float delim w)
  = read_model F parse_float f_neg delim (write_model F repr_float delim w).
Proof. exact (@read_bom_write_model). Qed.

(* a file written by hand or by another program: whatever its line ends and quoting, if Python's csv reader
   splits it into the rows of the layout, with or without U+FEFF in front of the first header cell, it loads
   with the meaning of w (rows or columns in another order: covered by the harness only) *)
Theorem C13_handwritten : forall (F : Type) (repr_float : F -> text) (parse_float : text -> option F) (f_neg : F -> bool),
  float_codec_ok repr_float parse_float ->
  forall w : wbs F, wbs_ok f_neg w ->
  forall s, parse_csv delim s = Parsed (to_rows F repr_float (flatten F w))
            \/ parse_csv delim s = Parsed (with_bom (to_rows F repr_float (flatten F w))) ->
  exists w1, read_model F parse_float f_neg delim s = Some (Ok w1) /\ wbs_equiv w1 w.
Proof. exact (@handwritten_statement_proved). Qed.

(* non-vacuity: a WBS of the domain with a hierarchy under a task with id 0, a name containing the
   delimiter, a quote and a line break, an attribute only some tasks carry, min_start, dependencies; the float
   hypothesis holds for integer amounts printed in decimal; the model computes the round trip on it *)
Example C13_domain_inhabited :
  wbs_ok ex_neg ex_wbs /\ float_codec_ok print_int parse_int
  /\ read_model Z parse_int ex_neg delim (write_model Z print_int delim ex_wbs) = Some (Ok (normalize Z ex_wbs))
  /\ normalize Z ex_wbs <> ex_wbs.
Proof. exact (conj ex_wbs_ok (conj (conj ex_float_roundtrip ex_float_nonempty) ex_wbs_computed)). Qed.

(* non-vacuity of C13_handwritten: the file of that WBS with LF line ends, and with U+FEFF in front *)
Example C13_handwritten_inhabited :
  ex_lf_file <> write_model Z print_int delim ex_wbs
  /\ parse_csv delim ex_lf_file = Parsed (to_rows Z print_int (flatten Z ex_wbs))
  /\ parse_csv delim (BOM :: ex_lf_file) = Parsed (with_bom (to_rows Z print_int (flatten Z ex_wbs))).
Proof. exact ex_lf_file_rows. Qed.

Print Assumptions C13_codec.
Print Assumptions C13_fields.
Print Assumptions C13_rebuild.
Print Assumptions C13_rows.
Print Assumptions C13_equiv_meaning.
Print Assumptions C13_roundtrip.
Print Assumptions C13_fix.
Print Assumptions C13_bom.
Print Assumptions C13_handwritten.
Print Assumptions C13_domain_inhabited.
Print Assumptions C13_handwritten_inhabited.
