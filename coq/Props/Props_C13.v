(* C13 - write_csv followed by read_csv reproduces the WBS (statement file).
   Model: Csv/CsvModel.v (Python's csv writer / reader for the dialect of csv_io.py), Csv/Fields.v (cell
   codecs), Csv/Wbs.v (tasks_to_raws, raws_to_wbs, write_csv, read_csv after the repairs C13-1..3);
   constants (header, date format, delimiters, reserved names) from gen/Consts.v.
   Domain: WbsProofs.wbs_ok = every task expressible in the layout (WbsSpec.raw_ok: dates in 1969-2068,
   attribute names distinct / public / not a column or Task name / without U+FEFF) and WbsSpec.graph_ok
   (ids unique, dependencies inside the WBS and without repetitions, no negative amount); its boolean
   form WbsSpec.wbs_ok_b (sound: RoundTrip.wbs_ok_b_sound) is evaluated on the generated cases.
   Floats: WbsSpec.float_codec_ok (float(str x) = x, str x not empty) is a hypothesis, evaluated by the
   harness on every amount of every case. *)
From PJ Require Import Base.Prelude Csv.CsvModel Csv.CsvCodecProofs Csv.Fields Csv.FieldsProofs
  Csv.Wbs Csv.WbsSpec Csv.RowsProofs Csv.AssembleProofs Csv.WbsProofs Csv.RoundTrip gen.Consts.
From Coq Require Import Permutation.
From PJ Require Import Csv.Handwritten Csv.HandwrittenProofs.
Open Scope Z_scope.

(* the csv layer: what the reader makes of what the writer wrote, for rows of arbitrary text
   (delimiter, quotes, CR, LF, empty rows and empty cells included) and any sensible delimiter *)
Theorem C13_codec : forall (d : N) (rows : list row),
  d <> QUOTE -> d <> CR -> d <> LF -> parse_csv d (print_csv d rows) = Parsed rows.
Proof. exact parse_print_csv. Qed.

(* the cells: every id (all of Z: 0 and negatives included), optional parent id, every day of
   1969-01-01 .. 2068-12-31 (date_lo = -365, date_hi = 36160; finite sweep) in the format of the code and
   in the format of the min_start column, booleans, predecessor lists, amounts under the float hypothesis,
   text with None read back for the empty text *)
Theorem C13_fields : forall (F : Type) (repr_float : F -> text) (parse_float : text -> option F),
  float_codec_ok repr_float parse_float ->
  (forall z : Z, parse_int (print_int z) = Some z)
  /\ (forall o : option Z, opt_parse parse_int (opt_cell print_int o) = Ok o)
  /\ (forall d, date_lo <= d < date_hi -> parse_date date_items (format_date date_items d) = Some d)
  /\ (forall d, date_lo <= d < date_hi -> parse_date iso_date_items (format_date iso_date_items d) = Some d)
  /\ (civil_of_days date_lo = (1969, 1, 1) /\ civil_of_days (date_hi - 1) = (2068, 12, 31) /\ date_hi - date_lo = 36525)
  /\ (forall o, date_ok o -> opt_parse (parse_date date_items) (opt_cell (format_date date_items) o) = Ok o)
  /\ (forall o, date_ok o -> opt_parse (parse_date iso_date_items) (opt_cell (format_date iso_date_items) o) = Ok o)
  /\ (forall b : bool, parse_bool csv_bool_true (print_bool b) = b)
  /\ (forall l : list Z, parse_preds (hd 0%N csv_pred_sep_read) (print_preds (hd 0%N csv_pred_sep_write) l) = Some l)
  /\ (forall o : option F, opt_parse parse_float (opt_cell repr_float o) = Ok o)
  /\ (forall o : option text, text_equiv (parse_opt_text (print_opt_text o)) o)
  /\ (forall t : text, print_opt_text (parse_opt_text t) = t).
Proof. exact (@fields_roundtrip). Qed.

(* tasks_to_raws then raws_to_wbs: the forest is rebuilt exactly (ids in order, hierarchy, sibling order,
   predecessor lists, every field incl. min_start and the custom attributes) *)
Theorem C13_rebuild : forall (F : Type) (f_neg : F -> bool) (w : wbs F),
  wbs_ok f_neg w -> assemble F f_neg (flatten F w) = Ok w.
Proof. exact (@rebuild). Qed.

(* the rows: the TaskRaws written as cells under the header and read back are the normalised TaskRaws *)
Theorem C13_rows : forall (F : Type) (repr_float : F -> text) (parse_float : text -> option F),
  (forall x, parse_float (repr_float x) = Some x) -> (forall x, repr_float x <> []) ->
  forall raws : list (raw F), Forall raw_ok raws ->
  let cols := custom_columns F raws in
  rows_to_raws F parse_float (csv_default_fields ++ cols) (map (raw_to_row F repr_float cols) raws)
  = Ok (map (norm_raw cols) raws).
Proof. exact (@rows_to_raws_to_rows). Qed.

(* what the equivalence of the property says, on the task list: same ids in the same order with the same
   parent and the same predecessor ids, equivalent fields (None ~ "" for texts, custom attributes by the
   text of their values) - and the task list determines the forest (C13_rebuild) *)
Theorem C13_equiv_meaning : forall (F : Type) (a b : wbs F),
  wbs_equiv a b -> Forall2 raw_equiv (flatten_plain a) (flatten_plain b).
Proof. exact (@wbs_equiv_flat). Qed.

(* the composition: read_csv (write_csv w) returns a WBS equivalent to w, for every w of the domain *)
Theorem C13_roundtrip : forall (F : Type) (repr_float : F -> text) (parse_float : text -> option F) (f_neg : F -> bool),
  float_codec_ok repr_float parse_float ->
  forall w : wbs F, wbs_ok f_neg w ->
  exists w1, read_model F parse_float f_neg delim (write_model F repr_float delim w) = Some (Ok w1)
             /\ wbs_equiv w1 w /\ Forall2 raw_equiv (flatten_plain w1) (flatten_plain w).
Proof. exact (@roundtrip_statement_proved). Qed.

(* one round trip is a fixpoint: the re-read WBS is read back exactly from its own file, so a further
   read/write cycle reproduces that file byte for byte *)
Theorem C13_fix : forall (F : Type) (repr_float : F -> text) (parse_float : text -> option F) (f_neg : F -> bool),
  float_codec_ok repr_float parse_float ->
  forall w : wbs F, wbs_ok f_neg w ->
  forall w1, read_model F parse_float f_neg delim (write_model F repr_float delim w) = Some (Ok w1) ->
  read_model F parse_float f_neg delim (write_model F repr_float delim w1) = Some (Ok w1)
  /\ (forall w2, read_model F parse_float f_neg delim (write_model F repr_float delim w1) = Some (Ok w2) ->
                 write_model F repr_float delim w2 = write_model F repr_float delim w1).
Proof. exact (@fixpoint_statement_proved). Qed.

(* a byte-order mark in front of a written file changes nothing (any WBS, no hypothesis) *)
Theorem C13_bom : forall (F : Type) (repr_float : F -> text) (parse_float : text -> option F) (f_neg : F -> bool) (w : wbs F),
  read_model F parse_float f_neg delim (BOM :: write_model F repr_float delim w)
  = read_model F parse_float f_neg delim (write_model F repr_float delim w).
Proof. exact (@read_bom_write_model). Qed.

(* a file written by hand or by another program: whatever its line ends and quoting, if Python's csv reader
   splits it into the rows of the layout, with or without U+FEFF in front of the first header cell, it loads
   with the meaning of w (rows or columns in another order, columns left out: the theorems after the examples) *)
Theorem C13_handwritten : forall (F : Type) (repr_float : F -> text) (parse_float : text -> option F) (f_neg : F -> bool),
  float_codec_ok repr_float parse_float ->
  forall w : wbs F, wbs_ok f_neg w ->
  forall s, parse_csv delim s = Parsed (to_rows F repr_float (flatten F w))
            \/ parse_csv delim s = Parsed (with_bom (to_rows F repr_float (flatten F w))) ->
  exists w1, read_model F parse_float f_neg delim s = Some (Ok w1) /\ wbs_equiv w1 w.
Proof. exact (@handwritten_statement_proved). Qed.

(* non-vacuity: a WBS of the domain with a hierarchy under a task with id 0, a name containing the
   delimiter, a quote and a line break, an attribute only some tasks carry, min_start, dependencies; the float
   hypothesis holds for integer amounts printed in decimal; the model computes the round trip on it *)
Example C13_domain_inhabited :
  wbs_ok ex_neg ex_wbs /\ float_codec_ok print_int parse_int
  /\ read_model Z parse_int ex_neg delim (write_model Z print_int delim ex_wbs) = Some (Ok (normalize Z ex_wbs))
  /\ normalize Z ex_wbs <> ex_wbs.
Proof. exact (conj ex_wbs_ok (conj (conj ex_float_roundtrip ex_float_nonempty) ex_wbs_computed)). Qed.

(* non-vacuity of C13_handwritten: the file of that WBS with LF line ends, and with U+FEFF in front *)
Example C13_handwritten_inhabited :
  ex_lf_file <> write_model Z print_int delim ex_wbs
  /\ parse_csv delim ex_lf_file = Parsed (to_rows Z print_int (flatten Z ex_wbs))
  /\ parse_csv delim (BOM :: ex_lf_file) = Parsed (with_bom (to_rows Z print_int (flatten Z ex_wbs))).
Proof. exact ex_lf_file_rows. Qed.

(* ---------- hand-written files arranged differently (Csv/Handwritten.v, Csv/HandwrittenProofs.v) ----------
   select [] pi row = [row[i] for i in pi]; select_cols pi applies it to the header and to every data row;
   to_rows (flatten w) = the header and the rows write_csv writes for w. *)

(* the columns in any order (default and custom columns interleaved, every data row arranged like the header):
   the file loads as a WBS equivalent to w *)
Theorem C13_columns_any_order : forall (F : Type) (repr_float : F -> text) (parse_float : text -> option F) (f_neg : F -> bool),
  float_codec_ok repr_float parse_float ->
  forall w : wbs F, wbs_ok f_neg w ->
  forall pi, Permutation pi (seq 0 (length (csv_default_fields ++ custom_columns F (flatten F w)))) ->
  let rows := select_cols pi (to_rows F repr_float (flatten F w)) in
  forall s, parse_csv delim s = Parsed rows \/ parse_csv delim s = Parsed (with_bom rows) ->
  exists w1, read_model F parse_float f_neg delim s = Some (Ok w1) /\ wbs_equiv w1 w.
Proof. exact (@columns_any_order_statement_proved). Qed.

(* what the order of the columns changes: the custom attributes of the re-read tasks (their __dict__ order) follow
   the order cols' of the custom columns in the header - the equivalence of the property does not see it; when the
   custom columns keep their relative order the WBS is exactly the one read from the file write_csv writes *)
Theorem C13_columns_custom_order : forall (F : Type) (repr_float : F -> text) (parse_float : text -> option F) (f_neg : F -> bool),
  float_codec_ok repr_float parse_float ->
  forall w : wbs F, wbs_ok f_neg w ->
  forall pi, Permutation pi (seq 0 (length (csv_default_fields ++ custom_columns F (flatten F w)))) ->
  let rows := select_cols pi (to_rows F repr_float (flatten F w)) in
  let cols' := filter is_custom_col (select [] pi (csv_default_fields ++ custom_columns F (flatten F w))) in
  forall s, parse_csv delim s = Parsed rows \/ parse_csv delim s = Parsed (with_bom rows) ->
  read_model F parse_float f_neg delim s = Some (Ok (map (norm_tree F cols') w))
  /\ (cols' = custom_columns F (flatten F w) ->
      read_model F parse_float f_neg delim s = Some (Ok (normalize F w))).
Proof. exact (@columns_custom_order_statement_proved). Qed.

(* an optional column (min_start or a custom column: position 10 or later of the written layout) left out:
   the file loads as the WBS in which that field is None / that attribute absent on every task (drop_column) *)
Theorem C13_missing_optional_column : forall (F : Type) (repr_float : F -> text) (parse_float : text -> option F) (f_neg : F -> bool),
  float_codec_ok repr_float parse_float ->
  forall w : wbs F, wbs_ok f_neg w ->
  let names := csv_default_fields ++ custom_columns F (flatten F w) in
  forall j, (length csv_default_fields <= j < length names)%nat ->
  let rows := select_cols (without_col (length names) j) (to_rows F repr_float (flatten F w)) in
  forall s, parse_csv delim s = Parsed rows \/ parse_csv delim s = Parsed (with_bom rows) ->
  exists w1, read_model F parse_float f_neg delim s = Some (Ok w1)
             /\ wbs_equiv w1 (drop_column (nth j names []) w).
Proof. exact (@missing_optional_column_statement_proved). Qed.

(* a default column left out (any choice pi of columns, in any order, that lacks one of the first ten) and at
   least one task: header['...'] raises KeyError on the first data row *)
Theorem C13_missing_required_column : forall (F : Type) (repr_float : F -> text) (parse_float : text -> option F) (f_neg : F -> bool),
  float_codec_ok repr_float parse_float ->
  forall w : wbs F, wbs_ok f_neg w -> w <> [] ->
  let names := csv_default_fields ++ custom_columns F (flatten F w) in
  forall pi, NoDup pi -> Forall (fun i => (i < length names)%nat) pi ->
  (exists i, (i < length csv_default_fields)%nat /\ ~ In i pi) ->
  let rows := select_cols pi (to_rows F repr_float (flatten F w)) in
  forall s, parse_csv delim s = Parsed rows \/ parse_csv delim s = Parsed (with_bom rows) ->
  read_model F parse_float f_neg delim s = Some (Crash KeyError).
Proof. exact (@missing_required_column_statement_proved). Qed.

(* raws_to_wbs on the TaskRaws in any order that keeps the relative order of the tasks under each parent and of the
   roots (sibling_order_kept: a permutation with, for every parent p and for the roots, the same sub-list): the
   forest is w itself, so wbs.tasks is the depth-first order of w whatever the order of the rows *)
Theorem C13_rebuild_any_order : forall (F : Type) (f_neg : F -> bool) (w : wbs F),
  wbs_ok f_neg w ->
  forall raws', sibling_order_kept raws' (flatten F w) -> assemble F f_neg raws' = Ok w.
Proof. exact (@rebuild_any_order_statement_proved). Qed.

(* the rows in such an order (a child row may precede its parent row): the file loads as the very WBS read from
   the file write_csv writes, equivalent to w, its task list in the depth-first order of w *)
Theorem C13_rows_any_order : forall (F : Type) (repr_float : F -> text) (parse_float : text -> option F) (f_neg : F -> bool),
  float_codec_ok repr_float parse_float ->
  forall w : wbs F, wbs_ok f_neg w ->
  forall raws', sibling_order_kept raws' (flatten F w) ->
  let cols := custom_columns F (flatten F w) in
  let rows := (csv_default_fields ++ cols) :: map (raw_to_row F repr_float cols) raws' in
  forall s, parse_csv delim s = Parsed rows \/ parse_csv delim s = Parsed (with_bom rows) ->
  exists w1, read_model F parse_float f_neg delim s = Some (Ok w1) /\ w1 = normalize F w
             /\ wbs_equiv w1 w /\ Forall2 raw_equiv (flatten_plain w1) (flatten_plain w).
Proof. exact (@rows_any_order_statement_proved). Qed.

(* all of it at once: any choice of columns that has the default ones (col_choice_ok), in any order, the rows in
   any order that keeps the siblings in order: the file loads as the WBS restricted to the chosen columns *)
Theorem C13_any_layout : forall (F : Type) (repr_float : F -> text) (parse_float : text -> option F) (f_neg : F -> bool),
  float_codec_ok repr_float parse_float ->
  forall w : wbs F, wbs_ok f_neg w ->
  forall raws', sibling_order_kept raws' (flatten F w) ->
  let cols := custom_columns F (flatten F w) in
  forall pi, col_choice_ok (length (csv_default_fields ++ cols)) pi ->
  let rows := select_cols pi ((csv_default_fields ++ cols) :: map (raw_to_row F repr_float cols) raws') in
  forall s, parse_csv delim s = Parsed rows \/ parse_csv delim s = Parsed (with_bom rows) ->
  exists w1, read_model F parse_float f_neg delim s = Some (Ok w1)
             /\ wbs_equiv w1 (keep_cols (select [] pi (csv_default_fields ++ cols)) w).
Proof. exact (@any_layout_statement_proved). Qed.

(* non-vacuity, computed on the WBS of C13_domain_inhabited (13 columns: the defaults, min_start, note, owner).
   Columns reordered with owner before note: the hypotheses of C13_columns_any_order hold, the custom order
   differs and the re-read WBS is not the one of the written file (it is equivalent to it) *)
Example C13_columns_any_order_inhabited :
  Permutation ex_col_order (seq 0 (length (csv_default_fields ++ custom_columns Z (flatten Z ex_wbs))))
  /\ parse_csv delim ex_cols_file = Parsed (select_cols ex_col_order (to_rows Z print_int (flatten Z ex_wbs)))
  /\ filter is_custom_col (select [] ex_col_order (csv_default_fields ++ custom_columns Z (flatten Z ex_wbs)))
     <> custom_columns Z (flatten Z ex_wbs)
  /\ (exists w1, read_model Z parse_int ex_neg delim ex_cols_file = Some (Ok w1) /\ w1 <> normalize Z ex_wbs).
Proof. exact ex_cols_file_facts. Qed.

(* the file without its min_start column (position 10): read as the WBS whose tasks have min_start None *)
Example C13_missing_optional_column_inhabited :
  length (csv_default_fields ++ custom_columns Z (flatten Z ex_wbs)) = 13%nat
  /\ nth 10 (csv_default_fields ++ custom_columns Z (flatten Z ex_wbs)) [] = K_MIN_START
  /\ parse_csv delim ex_no_min_start_file
     = Parsed (select_cols (without_col 13 10) (to_rows Z print_int (flatten Z ex_wbs)))
  /\ read_model Z parse_int ex_neg delim ex_no_min_start_file
     = Some (Ok (normalize Z (drop_column K_MIN_START ex_wbs)))
  /\ drop_column K_MIN_START ex_wbs <> ex_wbs.
Proof. exact ex_no_min_start_file_facts. Qed.

(* the file without its start column (position 3): KeyError *)
Example C13_missing_required_column_inhabited :
  NoDup (without_col 13 3) /\ Forall (fun i => (i < 13)%nat) (without_col 13 3)
  /\ (3 < length csv_default_fields)%nat /\ ~ In 3%nat (without_col 13 3)
  /\ parse_csv delim ex_no_start_file
     = Parsed (select_cols (without_col 13 3) (to_rows Z print_int (flatten Z ex_wbs)))
  /\ read_model Z parse_int ex_neg delim ex_no_start_file = Some (Crash KeyError).
Proof. exact ex_no_start_file_facts. Qed.

(* the rows in the order task 1 (a child of task 0), task 0, task 5, task -2 (the other child of task 0) *)
Example C13_rows_any_order_inhabited :
  (map (raw_id Z) ex_row_order = [1; 0; 5; -2] /\ sibling_order_kept ex_row_order (flatten Z ex_wbs))
  /\ parse_csv delim ex_rows_file
     = Parsed ((csv_default_fields ++ custom_columns Z (flatten Z ex_wbs))
               :: map (raw_to_row Z print_int (custom_columns Z (flatten Z ex_wbs))) ex_row_order)
  /\ read_model Z parse_int ex_neg delim ex_rows_file = Some (Ok (normalize Z ex_wbs))
  /\ assemble Z ex_neg ex_row_order = Ok ex_wbs.
Proof. exact (conj ex_row_order_kept ex_rows_file_facts). Qed.

Print Assumptions C13_codec.
Print Assumptions C13_fields.
Print Assumptions C13_rebuild.
Print Assumptions C13_rows.
Print Assumptions C13_equiv_meaning.
Print Assumptions C13_roundtrip.
Print Assumptions C13_fix.
Print Assumptions C13_bom.
Print Assumptions C13_handwritten.
Print Assumptions C13_domain_inhabited.
Print Assumptions C13_handwritten_inhabited.
Print Assumptions C13_columns_any_order.
Print Assumptions C13_columns_custom_order.
Print Assumptions C13_missing_optional_column.
Print Assumptions C13_missing_required_column.
Print Assumptions C13_rebuild_any_order.
Print Assumptions C13_rows_any_order.
Print Assumptions C13_any_layout.
Print Assumptions C13_columns_any_order_inhabited.
Print Assumptions C13_missing_optional_column_inhabited.
Print Assumptions C13_missing_required_column_inhabited.
Print Assumptions C13_rows_any_order_inhabited.
