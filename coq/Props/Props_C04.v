(* C04 - Reserved work equals remaining work and agrees with the task's dates.
   Statement file: theorems closed by [exact], Print Assumptions below.  They hold for every
   well-formed WBS (any size, hierarchy, links, user-fixed dates), every capacity function with
   values in [0, DAY] (hence every calendar expression the harness can build), both schedulers, both
   balance settings, every default estimate, project bound and clock.
   [c04_task_st fwd cfg k start end total days] (Sched/C04Proofs.v) is the property for one task:
   - k works (leaf, no milestone, forward: no user-fixed end): both dates exist, total = max(est - spent, 0)
     with defaults, NoDup days, every day d has day_of start <= d, DAY * d < end, forward day_of now <= d;
     forward: scheduler-chosen start has day_of start = the least reserved day, and
     DAY * dmax <= end <= DAY * (dmax + 1) for the greatest; backward: scheduler-chosen start has
     DAY * dmin <= start <= DAY * (dmin + 1);
   - k does not work: days = [];
   - forward, non-milestone leaf: user-fixed start / end are returned unchanged. *)
From PJ Require Import Base.Prelude Sched.Model Sched.Machine Sched.Instances Sched.C03Proofs
     Sched.Check Sched.Oracles Sched.OracleProofs Sched.WfIn Sched.C04Base Sched.C04Proofs.

(* the property on the model's final state: ledger [lg st] and dates [dy st] *)
Theorem C04_forward : forall cfg w st,
  WFin w -> cap_nonneg cfg -> cap_small cfg -> forward cfg w = Ok st ->
  forall t, k_ext (gett w t) = false ->
    c04_task_st true cfg (gett w t) (d_start (getdl (dy st) t)) (d_end (getdl (dy st) t))
                (sum_units (rows_t (lg st) t)) (map r_day (rows_t (lg st) t)).
Proof. exact C04_forward_holds. Qed.

Theorem C04_backward : forall cfg w st,
  WFin w -> cap_nonneg cfg -> cap_small cfg -> backward cfg w = Ok st ->
  forall t, k_ext (gett w t) = false ->
    c04_task_st false cfg (gett w t) (d_start (getdl (dy st) t)) (d_end (getdl (dy st) t))
                (sum_units (rows_t (lg st) t)) (map r_day (rows_t (lg st) t)).
Proof. exact C04_backward_holds. Qed.

(* the clauses one by one *)
Theorem C04_conserve_once : forall fwd cfg w st t,
  C04_statement fwd cfg w st -> k_ext (gett w t) = false -> worksb fwd (gett w t) = true ->
  reserved_total st t = remaining cfg (gett w t) /\ NoDup (reserved_days st t).
Proof. exact C04Proofs.C04_conserve_once. Qed.

Theorem C04_window : forall fwd cfg w st t,
  C04_statement fwd cfg w st -> k_ext (gett w t) = false -> worksb fwd (gett w t) = true ->
  exists s e, start_of st t = Some s /\ end_of st t = Some e /\
    forall d, In d (reserved_days st t) -> day_of s <= d /\ DAY * d < e /\ (fwd = true -> day_of (now cfg) <= d).
Proof. exact C04Proofs.C04_window. Qed.

Theorem C04_nothing : forall fwd cfg w st t,
  C04_statement fwd cfg w st -> k_ext (gett w t) = false -> worksb fwd (gett w t) = false ->
  rows_t (lg st) t = [].
Proof. exact C04Proofs.C04_nothing. Qed.

Theorem C04_fixed : forall cfg w st t,
  C04_statement true cfg w st -> k_ext (gett w t) = false ->
  is_leaf (gett w t) = true -> k_milestone (gett w t) = false ->
  (forall s, k_start (gett w t) = Some s -> start_of st t = Some s)
  /\ (forall e, k_end (gett w t) = Some e -> end_of st t = Some e).
Proof. exact C04Proofs.C04_fixed_dates. Qed.

(* the executable oracle evaluated on the implementation's schedule means exactly that statement,
   read on the observed dates and rows ... *)
Theorem C04_task_oracle_meaning : forall fwd cfg w o t,
  c04_task_b fwd cfg w o t = true
  <-> c04_task_st fwd cfg (gett w t) (o_start o t) (o_end o t) (osum (rows_of o t)) (map row_day (rows_of o t)).
Proof. exact c04_task_b_spec. Qed.

Theorem C04_oracle_meaning : forall fwd cfg w o,
  c04_b fwd cfg w o = true <-> forall t, In t (members w) -> c04_obs fwd cfg w o t.
Proof. exact c04_b_spec. Qed.

(* ... and the model's own output always passes it *)
Theorem C04_forward_passes_oracle : forall cfg w st,
  WFin w -> cap_nonneg cfg -> cap_small cfg -> exts_last w ->
  forward cfg w = Ok st -> c04_b true cfg w (obs_of w st) = true.
Proof. exact C04_forward_oracle. Qed.

Theorem C04_backward_passes_oracle : forall cfg w st,
  WFin w -> cap_nonneg cfg -> cap_small cfg -> exts_last w ->
  backward cfg w = Ok st -> c04_b false cfg w (obs_of w st) = true.
Proof. exact C04_backward_oracle. Qed.

(* the capacity hypotheses hold for the tabulated capacities of a harness case whose table entries
   lie in [0, DAY] (checked on every case by harness/props/c04.py) *)
Theorem C04_harness_capacities : forall rs,
  forallb rescal_ok_b rs = true -> forall r d, 0 <= cap_of rs r d <= DAY.
Proof. exact cap_of_bounds. Qed.

(* every member is calculated by a successful run (both schedulers) *)
Theorem C04_all_calculated : forall w c,
  WFin w -> binv w c -> (forall r, In r (roots w) -> ready w c r) ->
  forall t, k_ext (gett w t) = false -> In t (c_calc c).
Proof. exact all_calculated. Qed.

(* non-vacuity: a summary (with user values) over two leaves competing on a Mon-Fri 64-unit resource,
   a milestone waiting for the first leaf, a completed leaf, a leaf with a fixed start and no work left *)
Definition ex_cap (r : nat) (d : Z) : Z := if weekday_of_day d <? 5 then 64 else 0.
Definition ex_cfg : config :=
  {| cap := ex_cap; balance := true; dflt_est := 8; pbound := 19723 * DAY; now := 19700 * DAY;
     h_search := 1000; h_near := 1000; h_fill := 1000 |}.
Definition ex_cfg_b : config :=
  {| cap := ex_cap; balance := false; dflt_est := 8; pbound := 19737 * DAY; now := 19700 * DAY;
     h_search := 1000; h_near := 1000; h_fill := 1000 |}.
Definition tk (par : option nat) (ch pre suc : list nat) (ms : bool) (e sp st en : option Z) : itask :=
  {| k_parent := par; k_children := ch; k_preds := pre; k_succs := suc; k_ext := false; k_milestone := ms;
     k_res := 0; k_est := e; k_spent := sp; k_start := st; k_end := en; k_minstart := None |}.
Definition ex_w : list itask :=
  [ tk None [1;2]%nat [] [] false (Some 999) None (Some 5) None;
    tk (Some 0%nat) [] [] [3%nat] false (Some 80) None None None;
    tk (Some 0%nat) [] [] [] false (Some 48) (Some 8) None None;
    tk None [] [1%nat] [] true None None None None;
    tk None [] [] [] false (Some 16) None (Some (19688 * DAY)) (Some (19690 * DAY));
    tk None [] [] [] false (Some 8) (Some 8) (Some (19730 * DAY + 5)) None ].

Example C04_example :
  WFin ex_w /\ exts_last ex_w /\ cap_nonneg ex_cfg /\ cap_small ex_cfg
  /\ match forward ex_cfg ex_w with
     | Ok st =>
         model_rows st = [(0%nat, 19723, 1%nat, 64); (0%nat, 19724, 1%nat, 16); (0%nat, 19724, 2%nat, 40)]
         /\ map (fun t => (start_of st t, end_of st t)) [1; 2; 4; 5]%nat
            = [(Some (19723 * DAY), Some (19724 * DAY + DAY / 4));
               (Some (19724 * DAY + DAY / 4), Some (19724 * DAY + 7 * DAY / 8));
               (Some (19688 * DAY), Some (19690 * DAY));
               (Some (19730 * DAY + 5), Some (19730 * DAY + 5))]
         /\ c04_b true ex_cfg ex_w (obs_of ex_w st) = true
     | _ => False
     end
  /\ match backward ex_cfg_b ex_w with
     | Ok st =>
         model_rows st = [(0%nat, 19689, 4%nat, 16); (0%nat, 19734, 2%nat, 40);
                          (0%nat, 19734, 1%nat, 64); (0%nat, 19733, 1%nat, 16)]
         /\ c04_b false ex_cfg_b ex_w (obs_of ex_w st) = true
     | _ => False
     end.
Proof.
  split; [vm_compute; reflexivity|]. split; [apply exts_last_b_spec; vm_compute; reflexivity|].
  split; [intros r d; simpl; unfold ex_cap; destruct (weekday_of_day d <? 5); lia|].
  split; [intros r d; simpl; unfold ex_cap, DAY; destruct (weekday_of_day d <? 5); lia|].
  split; vm_compute; repeat split; reflexivity.
Qed.

(* the bound on capacities is needed: with 2*DAY units a day, one unit of work moves the end by less
   than a microsecond and the end is no longer after the last reserved day's midnight *)
Definition big_cfg : config :=
  {| cap := fun _ _ => 2 * DAY; balance := true; dflt_est := 8; pbound := 19723 * DAY; now := 19700 * DAY;
     h_search := 1000; h_near := 1000; h_fill := 1000 |}.
Example C04_cap_small_needed :
  let w := [tk None [] [] [] false (Some 1) None None None] in
  match forward big_cfg w with
  | Ok st => model_rows st = [(0%nat, 19723, 0%nat, 1)] /\ end_of st 0 = Some (19723 * DAY)
             /\ c04_b true big_cfg w (obs_of w st) = false
  | _ => False
  end.
Proof. vm_compute. repeat split; reflexivity. Qed.

(* ---- the tie to the source text (gen/SrcFill.v, regenerated on every run from schedule.py): the two greedy fill
   loops, translated from their current source text, are the model's [fwd_shift] / [bwd_shift] for all inputs - same
   rows in the same order, same date - so the conservation and date clauses above, which are stated about these two
   model functions through fwd_compute / bwd_compute, hold of the loops as written (vocabulary: Props_C03.v) *)
From Coq Require Import QArith.
From PJ Require Import Cal.Calendar gen.SrcFill Sched.SrcFillEquiv Sched.SrcFillInv.
Open Scope Z_scope.

Theorem C04_src_fwd_shift : forall cfg l r t s0 left, pos_rows l -> 0 <= left ->
  src_fwd_shift (balance cfg) (nearest_of (cap cfg r) (h_search cfg)) (gau_of (cap cfg r)) r (qrows_of l) s0 t
                (inject_Z left) (Z.of_nat (h_fill cfg))
  = lift_shift (fwd_shift cfg l r t s0 left).
Proof. exact src_fwd_shift_eq. Qed.

Theorem C04_src_bwd_shift : forall cfg l r t e0 left, pos_rows l -> 0 <= left ->
  src_bwd_shift (balance cfg) (nearest_of (cap cfg r) (h_search cfg)) (gau_of (cap cfg r)) r (qrows_of l) e0 t
                (inject_Z left) (Z.of_nat (h_fill cfg))
  = lift_shift (bwd_shift cfg l r t e0 left).
Proof. exact src_bwd_shift_eq. Qed.

(* ---- source-text tie for the recursive pass (gen/SrcPass.v: ForwardScheduler.__forward_pass / BackwardScheduler.__backward_pass translated from schedule.py on every run;
   Sched/SrcPassEquivF.v / SrcPassEquivB.v relates it to the model's pass for every input, Sched/SrcPassProps.v transports the theorems):
   what follows is about the TRANSLATED SOURCE called once per root as calc does ([src_roots_fold]) after calc's pre-checks. ---- *)
From PJ Require Import gen.SrcPass Sched.SrcPassRel Sched.SrcPassEquivF Sched.SrcPassEquivB Sched.SrcPassProps.

Theorem C04_src_forward_pass : forall cfg w ds l cl, isolated_ok w = true -> no_future_ends w (now cfg) = true ->
  src_roots_fold src_fwd_pass cfg w (roots w) = Ok (ds, l, cl) ->
  WFin w -> cap_nonneg cfg -> cap_small cfg -> exts_last w -> c04_b true cfg w (obs_of w (src_sst (ds, l, cl))) = true.
Proof. exact src_fwd_c04_oracle. Qed.

Theorem C04_src_backward_pass : forall cfg w ds l cl, isolated_ok w = true ->
  src_roots_fold src_bwd_pass cfg w (rev (roots w)) = Ok (ds, l, cl) ->
  WFin w -> cap_nonneg cfg -> cap_small cfg -> exts_last w -> c04_b false cfg w (obs_of w (src_sst (ds, l, cl))) = true.
Proof. exact src_bwd_c04_oracle. Qed.

Print Assumptions C04_forward.
Print Assumptions C04_backward.
Print Assumptions C04_conserve_once.
Print Assumptions C04_window.
Print Assumptions C04_nothing.
Print Assumptions C04_fixed.
Print Assumptions C04_task_oracle_meaning.
Print Assumptions C04_oracle_meaning.
Print Assumptions C04_forward_passes_oracle.
Print Assumptions C04_backward_passes_oracle.
Print Assumptions C04_harness_capacities.
Print Assumptions C04_all_calculated.
Print Assumptions C04_example.
Print Assumptions C04_cap_small_needed.
Print Assumptions C04_src_fwd_shift.
Print Assumptions C04_src_bwd_shift.
Print Assumptions C04_src_forward_pass.
Print Assumptions C04_src_backward_pass.
