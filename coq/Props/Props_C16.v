(* C16 (list level) - "Every mutator call that returns has exactly its documented effect: ... append puts the
   task last, insert(i) puts a new task at index i, move puts it immediately before or after the anchor, sort
   orders the children by the attribute (stably, reversed on request), reorder puts the listed ids first in the
   given order, and remove, remove_all and WBS.remove take out exactly the named or matching tasks ... no
   relation of any task that is neither named in the call nor attached to the edited list changes - in
   particular the other siblings keep their relative order."

   Statement file.  Part 1 (LIST LEVEL, written as Graph/StmtC16.v by the C16 proof task): what the children
   list of the edited task is after an accepted call, and the frame of the calls that only permute one
   children list.  Part 2 (SETTER LEVEL): the exact effect of the three setters on every field of every
   task (re-parenting takes the subtree along, released tasks, the mirror side of links) and their frames;
   the facades and operators on one task are calls of these setters (C16_frame_derived). *)
From Coq Require Import Permutation Sorted.
From PJ Require Import Base.Prelude Graph.Model Graph.Invariant Graph.OracleProofs Graph.EffectProofs.
From PJ Require Import Graph.AncLemmas Graph.LinksProofs Graph.ParentProofs Graph.ChildrenProofsWrite Graph.ChildrenProofs.
From PJ Require Graph.FrameProofs.
Local Open Scope nat_scope.

(* ---- move ---- *)
Theorem C16_move : forall s o ts b a s',
  WF s -> step s (ChMove o ts b a) = (s', OK) ->
  let l := kids (get (hp s) o) in
  let l' := kids (get (hp s') o) in
  exists anchor before,
    ((b = Some anchor /\ a = None /\ before = true) \/ (b = None /\ a = Some anchor /\ before = false)) /\
    incl (somes ts) l /\ In anchor l /\ ~ In anchor (somes ts) /\
    Permutation l' l /\
    others (somes ts) l' = others (somes ts) l /\
    (NoDup (somes ts) ->
       exists pre post, others (somes ts) l = pre ++ anchor :: post /\
         l' = pre ++ (if before then somes ts ++ anchor :: post else anchor :: rev (somes ts) ++ post)) /\
    only_kids_changed o s s' /\ WF s'.
Proof. exact EffectProofs.C16_move. Qed.

Theorem C16_move_one : forall s o t b a s',
  WF s -> step s (ChMove o [Some t] b a) = (s', OK) ->
  let l := kids (get (hp s) o) in
  let l' := kids (get (hp s') o) in
  exists anchor pre post,
    without t l = pre ++ anchor :: post /\
    ((b = Some anchor /\ a = None /\ l' = pre ++ t :: anchor :: post) \/
     (b = None /\ a = Some anchor /\ l' = pre ++ anchor :: t :: post)) /\
    without t l' = without t l.
Proof. exact EffectProofs.C16_move_one. Qed.

(* ---- insert ---- *)
Theorem C16_insert : forall s o i t s',
  WF s -> step s (ChInsert o i (Some t)) = (s', OK) ->
  let W := without t (kids (get (hp s) o)) in
  let idx := py_index i (S (length W)) in
  let l' := kids (get (hp s') o) in
  exists s1, step s (SetParent t (Some o)) = (s1, OK) /\
    idx <= length W /\
    l' = firstn idx W ++ t :: skipn idx W /\
    (forall d, nth idx l' d = t) /\ without t l' = W /\ length l' = S (length W) /\
    Permutation l' (kids (get (hp s1) o)) /\
    only_kids_changed o s1 s' /\ (WF s1 -> WF s').
Proof. exact EffectProofs.C16_insert. Qed.

(* ---- sort ---- *)
Theorem C16_sort : forall s o k reverse s',
  WF s -> step s (ChSort o k reverse) = (s', OK) ->
  let l := kids (get (hp s) o) in
  let l' := kids (get (hp s') o) in
  let kf := key_or k (hp s) in
  Forall (fun x => key_of k (get (hp s) x) = Ok (kf x)) l /\
  Permutation l' l /\
  StronglySorted (fun x y => sort_le reverse (kf x) (kf y) = true) l' /\
  (forall kv, filter (fun x => keyv_eqb (kf x) kv) l' = filter (fun x => keyv_eqb (kf x) kv) l) /\
  only_kids_changed o s s' /\ WF s'.
Proof. exact EffectProofs.C16_sort. Qed.

(* the order used: integers by <=, strings lexicographically by code point; reverse flips it.  On the keys of
   one call (all of one kind) it is a total order, so "sorted + stable + permutation" determines the result *)
Theorem C16_sort_order_total : forall r a b, sort_le r a b = false -> sort_le r b a = true.
Proof. exact EffectProofs.sort_le_total. Qed.
Theorem C16_sort_order_trans : forall r a b c,
  is_vz a = is_vz b -> is_vz b = is_vz c -> sort_le r a b = true -> sort_le r b c = true -> sort_le r a c = true.
Proof. exact EffectProofs.sort_le_trans. Qed.
Theorem C16_sort_order_antisym : forall r a b,
  is_vz a = is_vz b -> sort_le r a b = true -> sort_le r b a = true -> a = b.
Proof. exact EffectProofs.sort_le_antisym. Qed.
Theorem C16_sort_key_kind : forall k T v, key_of k T = Ok v -> is_vz v = kindb k.
Proof. exact EffectProofs.key_of_kind. Qed.
Theorem C16_sort_key_eqb : forall a b, keyv_eqb a b = true <-> a = b.
Proof. exact EffectProofs.keyv_eqb_eq. Qed.

(* ---- reorder ---- *)
Theorem C16_reorder : forall s o ids s',
  WF s -> step s (ChReorder o ids) = (s', OK) ->
  let l := kids (get (hp s) o) in
  let l' := kids (get (hp s') o) in
  exists cs,
    Forall2 (fun i c => find (fun c => Z.eqb (tid (get (hp s) c)) i) l = Some c) ids cs /\
    map (fun c => tid (get (hp s) c)) cs = ids /\ NoDup cs /\ incl cs l /\
    l' = cs ++ others cs l /\ Permutation l' l /\
    only_kids_changed o s s' /\ WF s'.
Proof. exact EffectProofs.C16_reorder. Qed.

(* ---- append, assignment, remove, remove_all, //, WBS.remove: through the setters ---- *)
Theorem C16_append : forall s o t s',
  WF s -> step s (ChAppend o (Some t)) = (s', OK) ->
  step s (SetParent t (Some o)) = (s', OK) /\
  kids (get (hp s') o) = without t (kids (get (hp s) o)) ++ [t].
Proof. exact EffectProofs.C16_append. Qed.

Theorem C16_set_children_list : forall s t vs s',
  step s (SetChildren t vs) = (s', OK) -> kids (get (hp s') t) = dedup (somes vs).
Proof. exact EffectProofs.C16_set_children_list. Qed.

Theorem C16_remove : forall s o t s',
  WF s -> step s (ChRemove o (Some t)) = (s', OK) ->
  kids (get (hp s') o) = without t (kids (get (hp s) o)) /\
  (In t (kids (get (hp s) o)) ->
     step s (SetChildren o (map Some (without t (kids (get (hp s) o))))) = (s', OK)) /\
  (~ In t (kids (get (hp s) o)) -> s' = s).
Proof. exact EffectProofs.C16_remove. Qed.

Theorem C16_remove_all : forall s o ids s',
  WF s -> step s (ChRemoveAll o ids) = (s', OK) ->
  kids (get (hp s') o) = filter (fun c => negb (memz (tid (get (hp s) c)) ids)) (kids (get (hp s) o)).
Proof. exact EffectProofs.C16_remove_all. Qed.

Theorem C16_floordiv : forall s o vs s',
  WF s -> step s (OpFloordiv o vs) = (s', OK) ->
  kids (get (hp s') o) = kids (get (hp s) o) ++ others (kids (get (hp s) o)) (dedup (somes vs)) /\
  step s (SetChildren o (map Some (kids (get (hp s) o)) ++ vs)) = (s', OK).
Proof. exact EffectProofs.C16_floordiv. Qed.

Theorem C16_wbs_remove : forall s w t s',
  step s (WbsRemove w (Some t)) = (s', OK) ->
  exists l, wbs_tasks s w = Ok l /\
    ((exists q, In q (wroot s w :: l) /\ In t (kids (get (hp s) q)) /\ ch_remove s q (Some t) = (s', OK)) \/
     (s' = s /\ forall q, In q (wroot s w :: l) -> ~ In t (kids (get (hp s) q)))).
Proof. exact EffectProofs.C16_wbs_remove. Qed.

(* dependency facades: the value handed to the setter *)
Theorem C16_ln_append_is_set_links : forall d s t x,
  ln_append d s t (Some x) = set_links d s t (map Some (fwd d (get (hp s) t) ++ [x])).
Proof. exact EffectProofs.ln_append_is_set_links. Qed.
Theorem C16_ln_append_value : forall l x,
  NoDup l -> dedup (somes (map Some (l ++ [x]))) = if memn x l then l else l ++ [x].
Proof. exact EffectProofs.ln_append_value. Qed.
Theorem C16_ln_remove_is_set_links : forall d s t x,
  In x (fwd d (get (hp s) t)) ->
  ln_remove d s t (Some x) = set_links d s t (map Some (without x (fwd d (get (hp s) t)))).
Proof. exact EffectProofs.ln_remove_is_set_links. Qed.
Theorem C16_ln_remove_value : forall l x, NoDup l -> dedup (somes (map Some (without x l))) = without x l.
Proof. exact EffectProofs.ln_remove_value. Qed.
Theorem C16_ln_remove_absent : forall d s t x, ~ In x (fwd d (get (hp s) t)) -> ln_remove d s t (Some x) = (s, OK).
Proof. exact EffectProofs.ln_remove_absent. Qed.
Theorem C16_op_shift_is_set_links : forall d s t vs,
  op_shift d s t vs = set_links d s t (map Some (fwd d (get (hp s) t)) ++ vs).
Proof. exact EffectProofs.op_shift_is_set_links. Qed.
Theorem C16_op_shift_value : forall l vs,
  NoDup l -> dedup (somes (map Some l ++ vs)) = l ++ others l (dedup (somes vs)).
Proof. exact EffectProofs.op_shift_value. Qed.

(* ---- frame of move / sort / reorder / the second phase of insert ---- *)
Theorem C16_frame_only_kids : forall o s s', only_kids_changed o s s' ->
  wroots s' = wroots s /\ length (hp s') = length (hp s) /\
  forall x, let T := get (hp s) x in let T' := get (hp s') x in
    tid T' = tid T /\ par T' = par T /\ preds T' = preds T /\ succs T' = succs T /\ own T' = own T /\
    hidden T' = hidden T /\ prio T' = prio T /\ name T' = name T /\ est T' = est T /\
    (x <> o -> kids T' = kids T).
Proof. exact EffectProofs.C16_frame_only_kids. Qed.

Theorem C16_set_kids_perm_WF : forall s o l, WF s -> Permutation l (kids (get (hp s) o)) -> WF (set_kids s o l).
Proof. exact EffectProofs.set_kids_perm_WF. Qed.

Theorem C16_only_kids_perm_WF : forall o s s',
  only_kids_changed o s s' -> Permutation (kids (get (hp s') o)) (kids (get (hp s) o)) -> WF s -> WF s'.
Proof. exact EffectProofs.only_kids_perm_WF. Qed.

(* ================= Part 2: the setters ================= *)
(* t.parent = p.  eff_par: the parent actually written (p, or the hidden WBS root when p = None and t is owned);
   insub h t x: x lies in the subtree of t; rest: tid, preds, succs, hidden, prio, name, est *)
Theorem C16_set_parent : forall s t p s',
  I_fin s -> I_pc s -> step s (SetParent t p) = (s', OK) ->
  let h := hp s in
  let h' := hp s' in
  let p2 := eff_par s t p in
  wroots s' = wroots s /\ length h' = length h /\
  par (get h' t) = p2 /\
  (forall x, x <> t -> par (get h' x) = par (get h x)) /\
  (forall x, kids (get h' x) = without t (kids (get h x)) ++ (if onat_eqb p2 (Some x) then [t] else [])) /\
  (forall x, own (get h' x) =
             match p2 with
             | Some p' => match own (get h p') with
                          | Some w => if insub h t x && Nat.ltb x (length h) then Some w else own (get h x)
                          | None => own (get h x)
                          end
             | None => own (get h x)
             end) /\
  (forall x, ParentProofs.rest (get h' x) = ParentProofs.rest (get h x)).
Proof. exact FrameProofs.step_set_parent_effect. Qed.

(* t.children = vs / wbs.roots = vs.  released: the old children left out; inA / inB: below an adopted / a
   released task *)
Theorem C16_set_children : forall s t vs s',
  I_fin s -> I_pc s -> step s (SetChildren t vs) = (s', OK) ->
  let h := hp s in
  let h' := hp s' in
  let value := dedup (somes vs) in
  let rel := released h t value in
  wroots s' = wroots s /\ length h' = length h /\
  (forall x, par (get h' x) = if memn x value then Some t else if memn x rel then None else par (get h x)) /\
  (forall q, kids (get h' q) = if Nat.eqb q t then value
                               else filter (fun c => negb (memn c value)) (kids (get h q))) /\
  (forall x, own (get h' x) =
             match own (get h t) with
             | Some w => if inA h value x then Some w else if inB h t value x then None else own (get h x)
             | None => if inB h t value x then None else own (get h x)
             end) /\
  (forall x, ParentProofs.rest (get h' x) = ParentProofs.rest (get h x)).
Proof. exact FrameProofs.step_set_children_effect. Qed.

Theorem C16_set_children_own : forall s t vs s',
  WF s -> t < length (hp s) -> (forall v, In (Some v) vs -> v < length (hp s)) ->
  set_children s t vs = (s', OK) ->
  let h := hp s in
  let adopted x := exists v, In (Some v) vs /\ Sub h v x in
  let released x := exists c, In c (kids (get h t)) /\ ~ In (Some c) vs /\ Sub h c x in
  forall x,
    (adopted x -> forall w, own (get h t) = Some w -> own (get (hp s') x) = Some w) /\
    (released x -> ~ (adopted x /\ own (get h t) <> None) -> own (get (hp s') x) = None) /\
    (~ adopted x -> ~ released x -> own (get (hp s') x) = own (get h x)).
Proof. exact ChildrenProofs.set_children_effect_own. Qed.

(* t.predecessors = vs (d = true) / t.successors = vs (d = false).  fwd: the assigned list, bwd: the mirror list;
   core: every field except preds / succs *)
Theorem C16_set_links : forall d s t vs s',
  I_fin s -> I_sym s -> step s (SetLinks d t vs) = (s', OK) ->
  let h := hp s in
  let h' := hp s' in
  let value := dedup (somes vs) in
  wroots s' = wroots s /\ length h' = length h /\
  fwd d (get h' t) = value /\
  (forall x, x <> t -> fwd d (get h' x) = fwd d (get h x)) /\
  (forall x, bwd d (get h' x) = without t (bwd d (get h x)) ++ (if memn x value then [t] else [])) /\
  (forall x, core (get h' x) = core (get h x)).
Proof. exact FrameProofs.step_set_links_effect. Qed.

(* C16_mirror: the mirror side of every edited dependency, case by case *)
Theorem C16_mirror : forall d s t value x,
  I_fin s -> I_sym s -> t < length (hp s) -> (forall v, In v value -> v < length (hp s)) -> NoDup value ->
  let h := hp s in
  let l' := bwd d (get (hp (set_links_write d s t value)) x) in
  (In x value -> In x (fwd d (get h t)) -> l' = without t (bwd d (get h x)) ++ [t]) /\
  (In x value -> ~ In x (fwd d (get h t)) -> l' = bwd d (get h x) ++ [t]) /\
  (~ In x value -> In x (fwd d (get h t)) -> l' = without t (bwd d (get h x))) /\
  (~ In x value -> ~ In x (fwd d (get h t)) -> l' = bwd d (get h x)).
Proof. exact LinksProofs.set_links_effect_bwd_cases. Qed.

(* ---- frames: what an accepted setter call leaves alone ---- *)
Theorem C16_frame_set_parent : forall s t p s',
  WF s -> step s (SetParent t p) = (s', OK) ->
  let h := hp s in
  let h' := hp s' in
  wroots s' = wroots s /\ length h' = length h /\
  forall x,
    (x <> t -> par (get h' x) = par (get h x)) /\
    (par (get h t) <> Some x -> eff_par s t p <> Some x -> kids (get h' x) = kids (get h x)) /\
    (~ Sub h t x -> own (get h' x) = own (get h x)) /\
    preds (get h' x) = preds (get h x) /\ succs (get h' x) = succs (get h x) /\
    tid (get h' x) = tid (get h x) /\ hidden (get h' x) = hidden (get h x) /\
    prio (get h' x) = prio (get h x) /\ name (get h' x) = name (get h x) /\ est (get h' x) = est (get h x).
Proof. exact FrameProofs.frame_set_parent. Qed.

Theorem C16_frame_set_children : forall s t vs s',
  WF s -> step s (SetChildren t vs) = (s', OK) ->
  let h := hp s in
  let h' := hp s' in
  let value := dedup (somes vs) in
  wroots s' = wroots s /\ length h' = length h /\
  (forall x, ~ In x value -> ~ (In x (kids (get h t)) /\ ~ In x value) -> par (get h' x) = par (get h x)) /\
  (forall q, q <> t -> kids (get h' q) = filter (fun c => negb (memn c value)) (kids (get h q))) /\
  (forall q, q <> t -> (forall c, In c (kids (get h q)) -> ~ In c value) -> kids (get h' q) = kids (get h q)) /\
  (forall x, ~ (exists v, In (Some v) vs /\ Sub h v x) ->
             ~ (exists c, In c (kids (get h t)) /\ ~ In (Some c) vs /\ Sub h c x) ->
             own (get h' x) = own (get h x)) /\
  (forall x, preds (get h' x) = preds (get h x) /\ succs (get h' x) = succs (get h x) /\
             tid (get h' x) = tid (get h x) /\ hidden (get h' x) = hidden (get h x) /\
             prio (get h' x) = prio (get h x) /\ name (get h' x) = name (get h x) /\ est (get h' x) = est (get h x)).
Proof. exact FrameProofs.frame_set_children. Qed.

Theorem C16_frame_set_links : forall d s t vs s',
  WF s -> step s (SetLinks d t vs) = (s', OK) ->
  let h := hp s in
  let h' := hp s' in
  let value := dedup (somes vs) in
  wroots s' = wroots s /\ length h' = length h /\
  forall x,
    (x <> t -> fwd d (get h' x) = fwd d (get h x)) /\
    (~ In x value -> ~ In x (fwd d (get h t)) -> bwd d (get h' x) = bwd d (get h x)) /\
    par (get h' x) = par (get h x) /\ kids (get h' x) = kids (get h x) /\ own (get h' x) = own (get h x) /\
    tid (get h' x) = tid (get h x) /\ hidden (get h' x) = hidden (get h x) /\
    prio (get h' x) = prio (get h x) /\ name (get h' x) = name (get h x) /\ est (get h' x) = est (get h x).
Proof. exact FrameProofs.frame_set_links. Qed.

(* the facades and operators on ONE task are calls of the setters, so the frames above are theirs
   (move / sort / reorder / the second phase of insert: C16_frame_only_kids; the remove_all loops and the
   list-level operators are sequences of such calls; bulk children / predecessors / successors: the C16_lst_set theorems) *)
Theorem C16_frame_derived : forall s,
  (forall o t, step' s (ChAppend o (Some t)) = step' s (SetParent t (Some o))) /\
  (forall o t, In t (kids (get (hp s) o)) ->
     step' s (ChRemove o (Some t)) = step' s (SetChildren o (map Some (without t (kids (get (hp s) o)))))) /\
  (forall o t, ~ In t (kids (get (hp s) o)) -> step' s (ChRemove o (Some t)) = (s, OK)) /\
  (forall o vs, step' s (OpFloordiv o vs) = step' s (SetChildren o (map Some (kids (get (hp s) o)) ++ vs))) /\
  (forall d t x, step' s (LnAppend d t (Some x)) = step' s (SetLinks d t (map Some (fwd d (get (hp s) t) ++ [x])))) /\
  (forall d t x, In x (fwd d (get (hp s) t)) ->
     step' s (LnRemove d t (Some x)) = step' s (SetLinks d t (map Some (without x (fwd d (get (hp s) t)))))) /\
  (forall d t x, ~ In x (fwd d (get (hp s) t)) -> step' s (LnRemove d t (Some x)) = (s, OK)) /\
  (forall d t vs, step' s (OpShift d t vs) = step' s (SetLinks d t (map Some (fwd d (get (hp s) t)) ++ vs))).
Proof. exact FrameProofs.frame_derived. Qed.

(* ---- bulk assignment on a task list: lst.predecessors = vs / lst.successors = vs / lst.children = vs ----
   The call IS one setter call per element of the list, in the order of the list, every one with the same value
   (materialised once), undone as a whole when one of them raises (C15); ts = the elements of the list. *)
Theorem C16_lst_set_is : forall s ts vs d,
  step' s (LstSetChildren ts vs) = all_or_nothing s (seq_calls (fun s' t => set_children s' t vs) s ts) /\
  step' s (LstSetLinks d ts vs) = all_or_nothing s (seq_calls (fun s' t => set_links d s' t vs) s ts).
Proof. intros. split; reflexivity. Qed.

(* an accepted lst.predecessors = vs (d = true) / lst.successors = vs: EVERY element of the list has exactly the given
   tasks (None dropped, first occurrences, given order); the lists of that kind of all other tasks are unchanged;
   the mirror list of x: for each element t of the list in turn, t is taken out and - when x is among the given
   tasks - put back at the end (mirror_step); hierarchy, owners, attributes unchanged; the result is well-formed *)
Theorem C16_lst_set_links : forall d s ts vs s',
  WF s -> pub_args s (LstSetLinks d ts vs) = true -> step s (LstSetLinks d ts vs) = (s', OK) ->
  let h := hp s in
  let h' := hp s' in
  let value := dedup (somes vs) in
  WF s' /\ wroots s' = wroots s /\ length h' = length h /\
  (forall t, In t ts -> fwd d (get h' t) = value) /\
  (forall x, ~ In x ts -> fwd d (get h' x) = fwd d (get h x)) /\
  (forall x, bwd d (get h' x) = fold_left (FrameProofs.mirror_step (memn x value)) ts (bwd d (get h x))) /\
  (forall x, core (get h' x) = core (get h x)).
Proof. exact FrameProofs.step_lst_set_links_effect. Qed.

Theorem C16_mirror_step : forall b l t, FrameProofs.mirror_step b l t = without t l ++ (if b then [t] else []).
Proof. reflexivity. Qed.

(* for a list without repeated elements: the former partners outside the list keep their order, the elements of
   the list follow in the order of the list *)
Theorem C16_lst_set_links_mirror : forall d s ts vs s',
  WF s -> pub_args s (LstSetLinks d ts vs) = true -> step s (LstSetLinks d ts vs) = (s', OK) -> NoDup ts ->
  forall x, bwd d (get (hp s') x) =
            others ts (bwd d (get (hp s) x)) ++ (if memn x (dedup (somes vs)) then ts else []).
Proof. exact FrameProofs.step_lst_set_links_NoDup. Qed.

(* an accepted lst.children = vs on a non-empty list with last element tn: tn has exactly the given tasks as its
   children; every OTHER element of the list ends with no children (each element takes the tasks away from the
   one before it, and its own former children are released); every task outside the list keeps its children
   except the given ones; the given tasks have tn as parent, the former children of the list's elements that are
   not given have no parent, every other parent is unchanged; links and attributes are unchanged; the result is
   well-formed (the owners are those the new hierarchy determines) *)
Theorem C16_lst_set_children : forall s ts vs s',
  WF s -> pub_args s (LstSetChildren ts vs) = true -> step s (LstSetChildren ts vs) = (s', OK) -> ts <> [] ->
  let h := hp s in
  let h' := hp s' in
  let value := dedup (somes vs) in
  let tn := last ts 0 in
  WF s' /\ wroots s' = wroots s /\ length h' = length h /\
  (forall q, kids (get h' q) = if Nat.eqb q tn then value
                               else if memn q ts then []
                               else filter (fun c => negb (memn c value)) (kids (get h q))) /\
  (forall x, par (get h' x) = if memn x value then Some tn
                              else if existsb (fun t => memn x (kids (get h t))) ts then None
                              else par (get h x)) /\
  (forall x, ChildrenProofsWrite.rest (get h' x) = ChildrenProofsWrite.rest (get h x)).
Proof. exact FrameProofs.step_lst_set_children_effect. Qed.

(* on an empty list nothing happens *)
Theorem C16_lst_set_nil : forall s vs d, oklist s vs = true ->
  step s (LstSetChildren [] vs) = (s, OK) /\ step s (LstSetLinks d [] vs) = (s, OK).
Proof. exact FrameProofs.step_lst_set_nil. Qed.

(* ---- non-vacuity: a reachable well-formed state on which a call of every kind above is accepted ---- *)
Definition c16_demo : state :=
  run init [NewTask 0%Z None [] None; NewTask 3%Z (Some 1%Z) [98%Z] None; NewTask 1%Z (Some 1%Z) [97%Z] None;
            NewTask 2%Z (Some 0%Z) [97%Z; 98%Z] None; NewTask 5%Z None [] None; NewWbs;
            OpFloordiv 0 [Some 1; Some 2; Some 3]; SetLinks true 1 [Some 4]].

Example c16_demo_WF : WF c16_demo.
Proof. apply wf_b_WF. vm_compute. reflexivity. Qed.

Example c16_demo_accepted :
  map (fun o => (outcome_code (snd (step c16_demo o)), kids (get (hp (fst (step c16_demo o))) 0)))
      [ChMove 0 [Some 3] (Some 1) None; ChMove 0 [Some 1] None (Some 3); ChMove 0 [Some 1; Some 2] None (Some 3);
       ChInsert 0 1%Z (Some 4); ChInsert 0 (-1)%Z (Some 1); ChInsert 0 3%Z (Some 4);
       ChSort 0 KId false; ChSort 0 KPrio false; ChSort 0 KPrio true; ChSort 0 KName false;
       ChReorder 0 [2%Z; 3%Z]; ChAppend 0 (Some 1); ChRemove 0 (Some 2); ChRemoveAll 0 [3%Z; 2%Z; 7%Z];
       OpFloordiv 0 [Some 4; None; Some 2; Some 4]; SetChildren 0 [Some 3; None; Some 4; Some 3]]
  = [(0, [3; 1; 2]); (0, [2; 3; 1]); (0, [3; 2; 1]);
     (0, [1; 4; 2; 3]); (0, [2; 3; 1]); (0, [1; 2; 3; 4]);
     (0, [2; 3; 1]); (0, [3; 1; 2]); (0, [1; 2; 3]); (0, [2; 3; 1]);
     (0, [3; 1; 2]); (0, [2; 3; 1]); (0, [1; 3]); (0, [2]);
     (0, [1; 2; 3; 4]); (0, [3; 4])].
Proof. vm_compute. reflexivity. Qed.

(* the setters on the demo state: re-parenting 1 under 4 takes nothing else along; roots assignment adopts 4 and
   0 with its subtree into the WBS (hidden root 5) - the owner reaches the whole subtree; the mirror side *)
Example c16_demo_setters :
  snd (step c16_demo (SetParent 1 (Some 4))) = Err /\        (* 1 depends on 4 *)
  (let s' := fst (step c16_demo (SetParent 2 (Some 4))) in
   snd (step c16_demo (SetParent 2 (Some 4))) = OK /\
   kids (get (hp s') 0) = [1; 3] /\ kids (get (hp s') 4) = [2] /\ par (get (hp s') 2) = Some 4) /\
  (let s' := fst (step c16_demo (SetChildren 5 [Some 0])) in
   snd (step c16_demo (SetChildren 5 [Some 0])) = OK /\
   map (fun x => own (get (hp s') x)) [0; 1; 2; 3; 4] = [Some 0; Some 0; Some 0; Some 0; None]) /\
  (let s' := fst (step c16_demo (SetLinks true 1 [])) in
   snd (step c16_demo (SetLinks true 1 [])) = OK /\ succs (get (hp c16_demo) 4) = [1] /\ succs (get (hp s') 4) = []).
Proof. vm_compute. repeat split; reflexivity. Qed.

(* bulk assignment on the demo state (0 > 1, 2, 3; free task 4; 1 depends on 4):
   [2; 3].successors = (4, None, 4) accepted - both have [4], 4 has predecessors [2; 3];
   [2; 4].predecessors = [1] rejected by the second element (cycle 4 -> 1 -> 4), nothing changed;
   [2; 3].children = [4] accepted - 4 ends below the LAST element, 2 has no children;
   [4; 2].children = [3; 2] accepted by 4, rejected by 2 (itself), nothing changed *)
Example c16_demo_bulk :
  (let r := step c16_demo (LstSetLinks false [2; 3] [Some 4; None; Some 4]) in
   pub_args c16_demo (LstSetLinks false [2; 3] [Some 4; None; Some 4]) = true /\ snd r = OK /\
   succs (get (hp (fst r)) 2) = [4] /\ succs (get (hp (fst r)) 3) = [4] /\ preds (get (hp (fst r)) 4) = [2; 3]) /\
  (let r := step c16_demo (LstSetLinks true [2; 4] [Some 1]) in snd r = Err /\ fst r = c16_demo /\
   snd (set_links true c16_demo 2 [Some 1]) = OK) /\
  (let r := step c16_demo (LstSetChildren [2; 3] [Some 4]) in
   pub_args c16_demo (LstSetChildren [2; 3] [Some 4]) = true /\ snd r = OK /\
   kids (get (hp (fst r)) 2) = [] /\ kids (get (hp (fst r)) 3) = [4] /\ par (get (hp (fst r)) 4) = Some 3) /\
  (let r := step c16_demo (LstSetChildren [4; 2] [Some 3; Some 2]) in snd r = Err /\ fst r = c16_demo /\
   snd (set_children c16_demo 4 [Some 3; Some 2]) = OK).
Proof. vm_compute. repeat split; reflexivity. Qed.

(* ---- the tie to the source text: an accepted `task.parent = p` of the code as written (gen/SrcGraph.v, translated on
   every run) has exactly the effect of the model's write - and the model's write is what the theorems above describe *)
From PJ Require Import gen.SrcGraph Graph.SrcGraphEquiv2 Graph.SrcGraphEquiv3.

Theorem C16_src_set_parent : forall s (t : obj) (p : option obj), WF s -> hid_tid (hp s) -> t < length (hp s) ->
  (forall p', p = Some p' -> p' < length (hp s)) ->
  src_set_parent (S (S (length (hp s)))) (wroots s) (hp s) t p = lift_set s (set_parent s t p).
Proof. exact src_set_parent_eq. Qed.

Theorem C16_src_set_parent_rejects_like_the_model : forall s (t : obj) (p : option obj), WF s -> hid_tid (hp s) ->
  t < length (hp s) -> (forall p', p = Some p' -> p' < length (hp s)) ->
  (src_set_parent (S (S (length (hp s)))) (wroots s) (hp s) t p = Err <-> set_parent_guard s t p = Err).
Proof. exact src_set_parent_Err_iff. Qed.

(* the other three setters, translated from their current source text: an accepted assignment writes exactly what the
   model's write function writes (the released children, the adopted ones with their subtrees and owners, the mirror side
   of every edited dependency) *)
From PJ Require Import Graph.SrcGraphEquiv4 Graph.SrcGraphEquiv5.

Theorem C16_src_set_predecessors : forall s (t : obj) (vs : list (option obj)), WF s -> hid_tid (hp s) ->
  (forall v, In (Some v) vs -> hidden (get (hp s) v) = false) ->
  src_set_predecessors (S (S (length (hp s)))) (hp s) t vs = lift_set s (set_links true s t vs).
Proof. exact src_set_predecessors_eq. Qed.

Theorem C16_src_set_successors : forall s (t : obj) (vs : list (option obj)), WF s -> hid_tid (hp s) ->
  (forall v, In (Some v) vs -> hidden (get (hp s) v) = false) ->
  src_set_successors (S (S (length (hp s)))) (hp s) t vs = lift_set s (set_links false s t vs).
Proof. exact src_set_successors_eq. Qed.

Theorem C16_src_set_children : forall s (t : obj) (vs : list (option obj)), WF s -> hid_tid (hp s) ->
  t < length (hp s) -> (forall v, In (Some v) vs -> v < length (hp s)) ->
  src_set_children (S (S (length (hp s)))) (hp s) t vs = lift_set s (set_children s t vs).
Proof. exact src_set_children_eq. Qed.

(* ---- source-text tie, sixth tranche: the list facades translated from task.py on every run produce exactly the heap
   of the model's operation (hence its documented effect and frame: C16_move, C16_insert, C16_reorder, C16_append,
   C16_remove, C16_set_links above) and reject exactly what it rejects. ---- *)
From PJ Require Import Graph.SrcGraphEquiv6 Graph.SrcGraphEquiv7.

Theorem C16_src_ch_move : forall s o ts before after,
  src_ch_move (hp s) o ts before after = lift_set s (ch_move s o ts before after).
Proof. exact src_ch_move_eq. Qed.

Theorem C16_src_ch_insert : forall s (o : obj) (i : Z) (t : option obj), WF s -> hid_tid (hp s) -> o < length (hp s) ->
  (forall t', t = Some t' -> t' < length (hp s)) ->
  src_ch_insert (S (S (length (hp s)))) (wroots s) (hp s) o i t = lift_set s (ch_insert s o i t).
Proof. exact src_ch_insert_eq. Qed.

Theorem C16_src_ch_append : forall s o t, WF s -> hid_tid (hp s) -> o < length (hp s) ->
  (forall t', t = Some t' -> t' < length (hp s)) ->
  src_ch_append (S (S (length (hp s)))) (wroots s) (hp s) o t = lift_set s (ch_append s o t).
Proof. exact src_ch_append_eq. Qed.

Theorem C16_src_ch_remove : forall s o t, WF s -> hid_tid (hp s) ->
  src_ch_remove (S (S (length (hp s)))) (wroots s) (hp s) o t
  = lift_b (ch_remove s o t) (match t with Some t' => memn t' (kids (get (hp s) o)) | None => false end).
Proof. exact src_ch_remove_eq. Qed.

Theorem C16_src_ch_reorder : forall s o ids, src_ch_reorder (hp s) o ids = lift_set s (ch_reorder s o ids).
Proof. exact src_ch_reorder_eq. Qed.

Theorem C16_src_pred_append : forall s t x, WF s -> hid_tid (hp s) ->
  (forall x', x = Some x' -> hidden (get (hp s) x') = false) ->
  src_pred_append (S (S (length (hp s)))) (hp s) t x = lift_set s (ln_append true s t x).
Proof. exact src_pred_append_eq. Qed.

Theorem C16_src_succ_append : forall s t x, WF s -> hid_tid (hp s) ->
  (forall x', x = Some x' -> hidden (get (hp s) x') = false) ->
  src_succ_append (S (S (length (hp s)))) (hp s) t x = lift_set s (ln_append false s t x).
Proof. exact src_succ_append_eq. Qed.

Theorem C16_src_pred_remove : forall s t x, WF s -> hid_tid (hp s) ->
  src_pred_remove (S (S (length (hp s)))) (hp s) t x
  = lift_b (ln_remove true s t x) (match x with Some x' => memn x' (preds (get (hp s) t)) | None => false end).
Proof. exact src_pred_remove_eq. Qed.

Theorem C16_src_succ_remove : forall s t x, WF s -> hid_tid (hp s) ->
  src_succ_remove (S (S (length (hp s)))) (hp s) t x
  = lift_b (ln_remove false s t x) (match x with Some x' => memn x' (succs (get (hp s) t)) | None => false end).
Proof. exact src_succ_remove_eq. Qed.

(* the documented effect of move, read off the translated source: the moved task ends immediately before / after the anchor,
   everything else keeps its order *)
Theorem C16_src_ch_move_one_effect : forall s o t b a h' u,
  WF s -> src_ch_move (hp s) o [Some t] b a = Ok (h', u) ->
  let l := kids (get (hp s) o) in
  let l' := kids (get h' o) in
  exists anchor pre post,
    without t l = pre ++ anchor :: post /\
    ((b = Some anchor /\ a = None /\ l' = pre ++ t :: anchor :: post) \/
     (b = None /\ a = Some anchor /\ l' = pre ++ anchor :: t :: post)).
Proof. intros s o t b a h' u W E. destruct (src_ch_move_one_effect s o t b a h' u W E) as [an [pre [post H]]]. exists an, pre, post. tauto. Qed.

Theorem C16_src_ch_insert_index_error : forall s (o : obj) (i : Z) (t : option obj) k, WF s -> hid_tid (hp s) ->
  o < length (hp s) -> (forall t', t = Some t' -> t' < length (hp s)) ->
  (src_ch_insert (S (S (length (hp s)))) (wroots s) (hp s) o i t = Crash k
   <-> k = IndexError /\ exists t', t = Some t' /\
         let new_len := Z.of_nat (S (length (without t' (kids (get (hp s) o))))) in
         ~ (- new_len <= i < new_len)%Z).
Proof. exact src_ch_insert_crash_iff. Qed.

(* ---- the operators t // other, t << other, t >> other, from the source text (Graph/SrcGraphEquiv8.v) ---- *)
From PJ Require Import Graph.SrcGraphEquiv8.

Theorem C16_src_op_floordiv : forall s (o : obj) (vs : list (option obj)), WF s -> hid_tid (hp s) -> o < length (hp s) ->
  (forall v, In (Some v) vs -> v < length (hp s)) ->
  src_op_floordiv (S (S (length (hp s)))) (hp s) o vs = lift_v (op_floordiv s o vs) vs.
Proof. exact src_op_floordiv_eq. Qed.

Theorem C16_src_op_lshift : forall s (t : obj) (vs : list (option obj)), WF s -> hid_tid (hp s) ->
  (forall v, In (Some v) vs -> hidden (get (hp s) v) = false) ->
  src_op_lshift (S (S (length (hp s)))) (hp s) t vs = lift_v (op_shift true s t vs) vs.
Proof. exact src_op_lshift_eq. Qed.

Theorem C16_src_op_rshift : forall s (t : obj) (vs : list (option obj)), WF s -> hid_tid (hp s) ->
  (forall v, In (Some v) vs -> hidden (get (hp s) v) = false) ->
  src_op_rshift (S (S (length (hp s)))) (hp s) t vs = lift_v (op_shift false s t vs) vs.
Proof. exact src_op_rshift_eq. Qed.

Theorem C16_src_set_estimate : forall s t e, src_set_estimate (hp s) t e = lift_set s (set_est s t e).
Proof. exact src_set_estimate_eq. Qed.

Print Assumptions C16_move.
Print Assumptions C16_move_one.
Print Assumptions C16_insert.
Print Assumptions C16_sort.
Print Assumptions C16_sort_order_total.
Print Assumptions C16_sort_order_trans.
Print Assumptions C16_sort_order_antisym.
Print Assumptions C16_sort_key_kind.
Print Assumptions C16_sort_key_eqb.
Print Assumptions C16_reorder.
Print Assumptions C16_append.
Print Assumptions C16_set_children_list.
Print Assumptions C16_remove.
Print Assumptions C16_remove_all.
Print Assumptions C16_floordiv.
Print Assumptions C16_wbs_remove.
Print Assumptions C16_ln_append_is_set_links.
Print Assumptions C16_ln_append_value.
Print Assumptions C16_ln_remove_is_set_links.
Print Assumptions C16_ln_remove_value.
Print Assumptions C16_ln_remove_absent.
Print Assumptions C16_op_shift_is_set_links.
Print Assumptions C16_op_shift_value.
Print Assumptions C16_frame_only_kids.
Print Assumptions C16_set_kids_perm_WF.
Print Assumptions C16_only_kids_perm_WF.
Print Assumptions C16_set_parent.
Print Assumptions C16_set_children.
Print Assumptions C16_set_children_own.
Print Assumptions C16_set_links.
Print Assumptions C16_mirror.
Print Assumptions C16_frame_set_parent.
Print Assumptions C16_frame_set_children.
Print Assumptions C16_frame_set_links.
Print Assumptions C16_frame_derived.
Print Assumptions C16_lst_set_is.
Print Assumptions C16_lst_set_links.
Print Assumptions C16_mirror_step.
Print Assumptions C16_lst_set_links_mirror.
Print Assumptions C16_lst_set_children.
Print Assumptions C16_lst_set_nil.
Print Assumptions c16_demo_bulk.
Print Assumptions c16_demo_WF.
Print Assumptions c16_demo_accepted.
Print Assumptions c16_demo_setters.
Print Assumptions C16_src_set_parent.
Print Assumptions C16_src_set_parent_rejects_like_the_model.
Print Assumptions C16_src_set_predecessors.
Print Assumptions C16_src_set_successors.
Print Assumptions C16_src_set_children.
Print Assumptions C16_src_ch_move.
Print Assumptions C16_src_ch_insert.
Print Assumptions C16_src_ch_append.
Print Assumptions C16_src_ch_remove.
Print Assumptions C16_src_ch_reorder.
Print Assumptions C16_src_pred_append.
Print Assumptions C16_src_succ_append.
Print Assumptions C16_src_pred_remove.
Print Assumptions C16_src_succ_remove.
Print Assumptions C16_src_ch_move_one_effect.
Print Assumptions C16_src_ch_insert_index_error.
Print Assumptions C16_src_op_floordiv.
Print Assumptions C16_src_op_lshift.
Print Assumptions C16_src_op_rshift.
Print Assumptions C16_src_set_estimate.
