(* C16 - PLACEHOLDER statement file (C16_op / C16_frame / C16_mirror are written by the proof task);
   computed facts about the model only. *)
From PJ Require Import Base.Prelude Graph.Model Graph.Invariant.
Local Open Scope nat_scope.

(* a concrete history: one WBS, three tasks (ids 1, 2, 1), task 2 below task 1 in the WBS, a dependency *)
Definition demo_ops : list op :=
  [NewWbs; NewTask 1%Z None [] None; NewTask 2%Z None [] None; NewTask 1%Z None [] None;
   ChAppend 0 (Some 1); SetParent 2 (Some 1); SetLinks true 3 [Some 2]].
Definition demo : state := run init demo_ops.
(* documented effects on a list of three children: insert, move, stable sort, reorder, removal *)
Example C16_demo_effects :
  let s := run init [NewTask 0%Z None [] None; NewTask 3%Z (Some 1%Z) [98%Z] None; NewTask 1%Z (Some 1%Z) [97%Z] None;
                     NewTask 2%Z (Some 0%Z) [97%Z; 98%Z] None; NewTask 5%Z None [] None; OpFloordiv 0 [Some 1; Some 2; Some 3]] in
  let k o := kids (get (hp (fst (step s o))) 0) in
  k (ChInsert 0 1%Z (Some 4)) = [1; 4; 2; 3] /\ k (ChInsert 0 (-1)%Z (Some 1)) = [2; 3; 1] /\
  k (ChMove 0 [Some 3] (Some 1) None) = [3; 1; 2] /\ k (ChMove 0 [Some 1] None (Some 3)) = [2; 3; 1] /\
  k (ChSort 0 KId false) = [2; 3; 1] /\ k (ChSort 0 KPrio false) = [3; 1; 2] /\ k (ChSort 0 KPrio true) = [1; 2; 3] /\
  k (ChSort 0 KName false) = [2; 3; 1] /\ k (ChReorder 0 [2%Z; 3%Z]) = [3; 1; 2] /\ k (ChRemove 0 (Some 2)) = [1; 3] /\
  k (SetChildren 0 [Some 3; None; Some 4; Some 3]) = [3; 4] /\
  par (get (hp (fst (step s (SetChildren 0 [Some 3; Some 4])))) 1) = None.
Proof. vm_compute. repeat split; reflexivity. Qed.

(* the mirror side of an edited dependency is updated *)
Example C16_demo_mirror :
  let s := fst (step demo (SetLinks true 3 [])) in preds (get (hp s) 3) = [] /\ succs (get (hp s) 2) = [] /\
  succs (get (hp demo) 2) = [3].
Proof. vm_compute. repeat split; reflexivity. Qed.

Print Assumptions C16_demo_effects.
Print Assumptions C16_demo_mirror.
