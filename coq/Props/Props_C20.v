(* C20 - Printed sheets list each visible task once, indented by depth, columns aligned.
   Statement file: every theorem is closed by [exact] of a lemma proved in Text/SheetProofs.v and
   followed by Print Assumptions.  The theorems hold for every forest of tasks, every field list
   (unknown fields included), children on/off, every theme, attribute values of any length, and any
   case mapping [upper]/[lower].  Hypotheses, where present: at least one field; the cells hold no
   newline / ESC character and the colours are colour codes ([row_ok], decidable: [row_ok_b]). *)
From Coq Require Import NArith.
From PJ Require Import Base.Prelude gen.Consts Text.Sheet Text.SheetCheck Text.SheetProofs.
Local Open Scope nat_scope.

Section C20.
Variables upper lower : text -> text.

(* one header row plus one row per task shown, in depth-first order: every descendant when children
   are shown, only the given tasks otherwise *)
Theorem C20_lines : forall ts fields children th,
  sheet_rows upper lower ts fields children th
  = header_row upper (the_fields fields) (the_theme th)
    :: map (fun ld => task_row lower (the_fields fields) (the_theme th) (fst ld) (snd ld)) (shown children ts).
Proof. exact (sheet_rows_spec upper lower). Qed.

Theorem C20_shown_with_children : forall ts,
  shown true ts = flat_map (preorder 0) ts /\ length (shown true ts) = fold_right (fun t n => size t + n) 0 ts.
Proof. exact (fun ts => conj eq_refl (shown_count_children ts)). Qed.

Theorem C20_shown_without_children : forall ts,
  shown false ts = map (fun t => (0, root_data t)) ts /\ length (shown false ts) = length ts.
Proof. exact (fun ts => conj eq_refl (shown_count_flat ts)). Qed.

(* the level of a shown task is its depth below the given task *)
Theorem C20_levels : forall ts l d,
  (In (l, d) (shown true ts) <-> exists t, In t ts /\ occurs t l d) /\
  (In (l, d) (shown false ts) <-> l = 0 /\ exists t, In t ts /\ d = root_data t).
Proof. exact shown_levels. Qed.

(* the name is indented by three spaces per level; a None name is the empty text *)
Theorem C20_indent : forall fields th level d j,
  nth_error fields j = Some sheet_fld_name ->
  exists c, nth_error (r_cells (task_row lower fields th level d)) j = Some c
            /\ c_text c = repeat SP (3 * level) ++ opt_text (t_name d).
Proof. exact (name_cell_indented lower). Qed.

(* the text: one line per row; count; every line has the same visible width *)
Theorem C20_text : forall ts fields children th,
  let rows := sheet_rows upper lower ts fields children th in
  the_fields fields <> [] -> Forall row_ok rows ->
  split_lines (sheet_text upper lower ts fields children th) = map (row_repr (widths rows) false None) rows
  /\ length (split_lines (sheet_text upper lower ts fields children th)) = S (length (shown children ts))
  /\ Forall (fun l => length (strip_colors l) = total_width (widths rows))
            (split_lines (sheet_text upper lower ts fields children th)).
Proof. exact (sheet_lines upper lower). Qed.

(* any table (rows shorter than the header included, with or without border): every column is wide
   enough for each of its cells, and ignoring colour codes all lines have the width of the columns *)
Theorem C20_width_columns : forall rows r, In r rows -> fits (widths rows) (r_cells r).
Proof. exact widths_fit. Qed.

Theorem C20_width : forall rows border bc,
  rows <> [] -> border = true \/ widths rows <> [] -> Forall row_ok rows -> wf_ocolor bc ->
  Forall (fun l => length (strip_colors l) = line_width (widths rows) border)
         (split_lines (text_repr rows border bc)).
Proof. exact table_aligned. Qed.

(* ignoring colour codes, a cell is its text padded to the width *)
Theorem C20_strip : forall t w col rest,
  wf_ocolor col -> ~ In ESC t ->
  strip_aux false (colored_text t w col ++ rest) = pad t w ++ strip_aux false rest.
Proof. exact strip_colored. Qed.

Theorem C20_row_ok_decidable : forall rows, forallb row_ok_b rows = true -> Forall row_ok rows.
Proof. exact rows_ok_b_sound. Qed.

(* dependency and parent columns: the linked ids, marked external exactly when the owners differ *)
Theorem C20_links : forall t,
  field_value lower t sheet_fld_predecessors
    = sheet_lbracket ++ join sheet_link_sep (map (fun l => link_text t (Some l)) (t_preds t)) ++ sheet_rbracket
  /\ field_value lower t sheet_fld_successors
    = sheet_lbracket ++ join sheet_link_sep (map (fun l => link_text t (Some l)) (t_succs t)) ++ sheet_rbracket
  /\ field_value lower t sheet_fld_parent = link_text t (t_parent t)
  /\ link_text t None = [].
Proof. exact (link_columns lower). Qed.

Theorem C20_external : forall t l,
  id_is_empty (l_id l) = false ->
  (l_owner l = t_owner t -> link_text t (Some l) = id_text (l_id l)) /\
  (l_owner l <> t_owner t -> link_text t (Some l) = id_text (l_id l) ++ external_marker).
Proof. exact link_text_spec. Qed.

Theorem C20_unknown_field : forall t f,
  existsb (text_eqb f) [sheet_fld_predecessors; sheet_fld_successors; sheet_fld_parent; sheet_fld_id;
                        sheet_fld_estimate; sheet_fld_spent] = false ->
  dict_get t f = None -> dict_get t (lower f) = None -> field_value lower t f = [].
Proof. exact (unknown_field_empty lower). Qed.

(* usage table: header plus one row per day from the first to the last reservation *)
Theorem C20_usage : forall x l cols cells,
  let u := mk_usage (x :: l) cols cells in
  usage_rows upper u
  = usage_header upper u :: map (usage_day_row u) (days_between (zmin_list x l) (zmax_list x l))
  /\ length (usage_rows upper u) = S (Z.to_nat (day_of (zmax_list x l) - day_of (zmin_list x l) + 1)).
Proof. exact (usage_rows_spec upper). Qed.

Theorem C20_usage_loop : forall mn mx,
  (mn <= mx)%Z ->
  usage_days mn mx = map (fun k => mn + Z.of_nat k * DAY)%Z (seq 0 (Z.to_nat ((mx - mn) / DAY + 1))).
Proof. exact usage_days_spec. Qed.

Theorem C20_usage_text : forall u,
  u_dates u <> [] ->
  let rows := usage_rows upper u in
  Forall row_ok rows ->
  split_lines (usage_text upper u) = map (row_repr (widths rows) true None) rows
  /\ Forall (fun l => length (strip_colors l) = line_width (widths rows) true) (split_lines (usage_text upper u)).
Proof. exact (usage_lines upper). Qed.

End C20.

(* the oracles evaluated on the implementation's text mean what the property says *)
Theorem C20_oracle_width : forall lines,
  same_width_b lines = true <->
  forall l, In l lines -> length (strip_colors l) = length (strip_colors (hd [] lines)).
Proof. exact same_width_b_spec. Qed.

Theorem C20_oracle_count : forall lines n, line_count_b lines n = true <-> length lines = S n.
Proof. exact line_count_b_spec. Qed.

Theorem C20_oracle_indent : forall line off w level name,
  name_cell_b line off w level name = true <->
  firstn (w + 2) (skipn off (strip_colors line)) = pad (SP :: repeat SP (3 * level) ++ name ++ [SP]) (w + 2).
Proof. exact name_cell_b_spec. Qed.

Theorem C20_oracle_days : forall x l,
  day_span (x :: l) = Z.to_nat (day_of (zmax_list x l) - day_of (zmin_list x l) + 1).
Proof. exact day_span_spec. Qed.

(* non-vacuity: a WBS of three tasks on two levels with a None name, an external predecessor and an
   unknown field meets the hypotheses; its sheet has four lines of equal visible width, and a usage
   report over three days has four lines *)
Example C20_example :
  let t id name owner preds := mk_tdata id (IdInt (Z.of_nat id)) owner name None None None preds [] [] in
  let ts := [Node (t 1 (Some [65]%N) (Some 0) [])
                  [Node (t 2 None (Some 0) [mk_link (IdInt 9) None]) []; Node (t 3 (Some [66; 67]%N) (Some 0) []) []]] in
  let fields := Some [sheet_fld_id; sheet_fld_name; sheet_fld_predecessors; [122; 122]%N] in
  let rows := sheet_rows ascii_upper ascii_lower ts fields true None in
  let lines := split_lines (sheet_text ascii_upper ascii_lower ts fields true None) in
  forallb row_ok_b rows = true /\ the_fields fields <> [] /\ length lines = 4
  /\ map (fun l => length (strip_colors l)) lines = [30; 30; 30; 30]
  /\ nth 2 (map strip_colors lines) [] = [32; 50; 32; 32; 32; 32; 32; 32; 32; 32; 32; 32; 91; 57; 40; 101; 120; 116; 101; 114; 110; 97; 108; 41; 93; 32; 32; 32; 32; 32]%N
  /\ length (usage_rows ascii_upper (mk_usage [5 * DAY + 7; 3 * DAY; 4 * DAY]%Z [Some [100]%N] [])) = 4.
Proof. vm_compute. repeat split. discriminate. Qed.

Print Assumptions C20_lines.
Print Assumptions C20_shown_with_children.
Print Assumptions C20_shown_without_children.
Print Assumptions C20_levels.
Print Assumptions C20_indent.
Print Assumptions C20_text.
Print Assumptions C20_width_columns.
Print Assumptions C20_width.
Print Assumptions C20_strip.
Print Assumptions C20_row_ok_decidable.
Print Assumptions C20_links.
Print Assumptions C20_external.
Print Assumptions C20_unknown_field.
Print Assumptions C20_usage.
Print Assumptions C20_usage_loop.
Print Assumptions C20_usage_text.
Print Assumptions C20_oracle_width.
Print Assumptions C20_oracle_count.
Print Assumptions C20_oracle_indent.
Print Assumptions C20_oracle_days.
Print Assumptions C20_example.
