(* C15 - PLACEHOLDER statement file (C15_atomic is written by the proof task); computed facts about the
   model only. *)
From PJ Require Import Base.Prelude Graph.Model Graph.Invariant.
Local Open Scope nat_scope.

(* a concrete history: one WBS, three tasks (ids 1, 2, 1), task 2 below task 1 in the WBS, a dependency *)
Definition demo_ops : list op :=
  [NewWbs; NewTask 1%Z None [] None; NewTask 2%Z None [] None; NewTask 1%Z None [] None;
   ChAppend 0 (Some 1); SetParent 2 (Some 1); SetLinks true 3 [Some 2]].
Definition demo : state := run init demo_ops.
(* rejected calls on the demo state return the very same state *)
Example C15_demo_rejected_calls_change_nothing :
  forallb (fun o => let r := step demo o in
                    negb (Nat.eqb (outcome_code (snd r)) 0) &&
                    list_eqb (fun a b => Z.eqb (tid a) (tid b) && opt_eqb Nat.eqb (par a) (par b) &&
                                         list_eqb Nat.eqb (kids a) (kids b) && list_eqb Nat.eqb (preds a) (preds b) &&
                                         list_eqb Nat.eqb (succs a) (succs b) && opt_eqb Nat.eqb (own a) (own b))
                             (hp (fst r)) (hp demo))
          [SetChildren 0 [Some 1; Some 3]; ChInsert 1 5%Z (Some 3); ChMove 1 [Some 2] (Some 2) None;
           SetLinks true 1 [Some 3; Some 2]; ChReorder 0 [1%Z; 1%Z]; ChReorder 0 [4%Z]; ChSort 0 KPrio false] = true.
Proof. vm_compute. reflexivity. Qed.

(* the list-level loop is NOT atomic (finding F10): the first element is re-parented before the second is rejected *)
Example C15_bulk_parent_not_atomic :
  let s := run init [NewTask 0%Z None [] None; NewTask 1%Z None [] None; NewTask 2%Z None [] None; NewTask 2%Z None [] None;
                     SetChildren 0 [Some 1; Some 2]] in
  let r := step s (LstSetParent [1; 2] (Some 3)) in
  outcome_code (snd r) = 1 /\ par (get (hp (fst r)) 1) = Some 3 /\ par (get (hp s) 1) = Some 0.
Proof. vm_compute. repeat split; reflexivity. Qed.

Print Assumptions C15_demo_rejected_calls_change_nothing.
Print Assumptions C15_bulk_parent_not_atomic.
