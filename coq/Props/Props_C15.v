(* C15 - "Whenever a mutator of a task, task list or WBS raises, every observable relation and attribute of
   every task and WBS is exactly what it was before the call."

   Statement file.  A state is the whole observable graph (every field of every task, the WBS root lists), so
   "fst (step s o) = s" is the property text for the call o.
   Summary: 23 kinds atomic on ALL states (C15_atomic: every setter validates before it writes; the five
   operations that call several setters in a row - list-level << / >>, bulk assignment of parent / children /
   predecessors / successors to a task list, the constructor with relation arguments - undo the calls that
   returned when a later one raises); ALL 26 kinds atomic on
   well-formed states, hence on every state reached by a public history (C15_atomic_every_op, C15_atomic_reach:
   the three remove_all loops never raise there).  The five sequences WITHOUT the undo - the code before the
   repair, finding F10 - are refuted (the C15_refuted theorems). *)
From PJ Require Import Base.Prelude Graph.Model Graph.Invariant Graph.OracleProofs Graph.AtomicProofs Graph.AtomicLoops.
From PJ Require Graph.StepProofs.
Local Open Scope nat_scope.

(* ---- proved for ALL states and arguments: 23 of the 26 operation kinds ---- *)
Theorem C15_atomic : forall s o, atomic_op o = true -> snd (step s o) <> OK -> fst (step s o) = s.
Proof. exact AtomicProofs.C15_atomic. Qed.

Theorem C15_atomic_core : forall s o, atomic_op o = true -> snd (step' s o) <> OK -> fst (step' s o) = s.
Proof. exact AtomicProofs.C15_atomic_core. Qed.

(* the kinds not covered by C15_atomic: the three remove_all loops (atomic on well-formed states, below) *)
Theorem C15_atomic_op_false_kinds : forall o, atomic_op o = false ->
  (exists x ids, o = ChRemoveAll x ids) \/ (exists d t ids, o = LnRemoveAll d t ids) \/
  (exists w ids, o = WbsRemoveAll w ids).
Proof. exact AtomicProofs.atomic_op_false_kinds. Qed.

(* what "undo" means: the sequence of calls either returned, and its result is the result, or it raised and the
   state is the one before the first call, with the same exception *)
Theorem C15_all_or_nothing : forall s r,
  (snd r = OK /\ all_or_nothing s r = r) \/ (snd r <> OK /\ all_or_nothing s r = (s, snd r)).
Proof. exact AtomicProofs.all_or_nothing_cases. Qed.

Theorem C15_lst_shift_is : forall d s ts vs, lst_shift d s ts vs = all_or_nothing s (lst_shift_seq d s ts vs).
Proof. reflexivity. Qed.
Theorem C15_lst_set_parent_is : forall s ts p, lst_set_parent s ts p = all_or_nothing s (lst_set_parent_seq s ts p).
Proof. reflexivity. Qed.
Theorem C15_lst_set_children_is : forall s ts vs,
  lst_set_children s ts vs = all_or_nothing s (seq_calls (fun s' t => set_children s' t vs) s ts).
Proof. reflexivity. Qed.
Theorem C15_lst_set_links_is : forall d s ts vs,
  lst_set_links d s ts vs = all_or_nothing s (seq_calls (fun s' t => set_links d s' t vs) s ts).
Proof. reflexivity. Qed.
Theorem C15_new_task_rel_is : forall s i nm p ch su pr,
  new_task_rel s i nm p ch su pr = all_or_nothing s (new_task_rel_seq s i nm p ch su pr).
Proof. reflexivity. Qed.

(* ---- refuted before the repair (finding F10): the same three operations as bare sequences of setter calls
   (step_seq), i.e. list-level << / >>, bulk parent assignment, constructor with relations without the undo ---- *)
Theorem C15_refuted_lst_shift : exists s o, snd (step_seq s o) <> OK /\ fst (step_seq s o) <> s.
Proof. exact AtomicProofs.C15_refuted_lst_shift. Qed.

Theorem C15_refuted_lst_shift_detail :
  snd (step_seq wit_lst_shift_pre wit_lst_shift_op) = Err /\
  preds (get (hp wit_lst_shift_pre) 1) = [] /\
  preds (get (hp (fst (step_seq wit_lst_shift_pre wit_lst_shift_op))) 1) = [2] /\
  succs (get (hp (fst (step_seq wit_lst_shift_pre wit_lst_shift_op))) 2) = [1].
Proof. exact AtomicProofs.C15_refuted_lst_shift_detail. Qed.

Theorem C15_refuted_lst_set_parent : exists s o, snd (step_seq s o) <> OK /\ fst (step_seq s o) <> s.
Proof. exact AtomicProofs.C15_refuted_lst_set_parent. Qed.

Theorem C15_refuted_lst_set_parent_detail :
  snd (step_seq wit_lst_set_parent_pre wit_lst_set_parent_op) = Err /\
  kids (get (hp wit_lst_set_parent_pre) 0) = [1; 2] /\
  kids (get (hp (fst (step_seq wit_lst_set_parent_pre wit_lst_set_parent_op))) 0) = [2] /\
  kids (get (hp (fst (step_seq wit_lst_set_parent_pre wit_lst_set_parent_op))) 2) = [1] /\
  par (get (hp (fst (step_seq wit_lst_set_parent_pre wit_lst_set_parent_op))) 1) = Some 2.
Proof. exact AtomicProofs.C15_refuted_lst_set_parent_detail. Qed.

Theorem C15_refuted_new_task_rel : exists s o, snd (step_seq s o) <> OK /\ fst (step_seq s o) <> s.
Proof. exact AtomicProofs.C15_refuted_new_task_rel. Qed.

Theorem C15_refuted_new_task_rel_detail :
  snd (step_seq wit_new_task_rel_pre wit_new_task_rel_op) = Err /\
  kids (get (hp wit_new_task_rel_pre) 0) = [] /\
  kids (get (hp (fst (step_seq wit_new_task_rel_pre wit_new_task_rel_op))) 0) = [1].
Proof. exact AtomicProofs.C15_refuted_new_task_rel_detail. Qed.

(* lst.children = value: the first element takes the tasks (one of them a member of the list), the member rejects
   itself; lst.predecessors = value: the same with a dependency.  The last conjunct: with the undo nothing changed *)
Theorem C15_refuted_lst_set_children : exists s o, snd (step_seq s o) <> OK /\ fst (step_seq s o) <> s.
Proof. exact AtomicProofs.C15_refuted_lst_set_children. Qed.

Theorem C15_refuted_lst_set_children_detail :
  snd (step_seq wit_lst_set_children_pre wit_lst_set_children_op) = Err /\
  kids (get (hp wit_lst_set_children_pre) 0) = [1; 2] /\
  kids (get (hp (fst (step_seq wit_lst_set_children_pre wit_lst_set_children_op))) 0) = [1] /\
  kids (get (hp (fst (step_seq wit_lst_set_children_pre wit_lst_set_children_op))) 1) = [3; 2] /\
  par (get (hp (fst (step_seq wit_lst_set_children_pre wit_lst_set_children_op))) 2) = Some 1 /\
  fst (step wit_lst_set_children_pre wit_lst_set_children_op) = wit_lst_set_children_pre.
Proof. exact AtomicProofs.C15_refuted_lst_set_children_detail. Qed.

Theorem C15_refuted_lst_set_links : exists s o, snd (step_seq s o) <> OK /\ fst (step_seq s o) <> s.
Proof. exact AtomicProofs.C15_refuted_lst_set_links. Qed.

Theorem C15_refuted_lst_set_links_detail :
  snd (step_seq wit_lst_set_links_pre wit_lst_set_links_op) = Err /\
  preds (get (hp wit_lst_set_links_pre) 1) = [] /\
  preds (get (hp (fst (step_seq wit_lst_set_links_pre wit_lst_set_links_op))) 1) = [2] /\
  succs (get (hp (fst (step_seq wit_lst_set_links_pre wit_lst_set_links_op))) 2) = [1] /\
  fst (step wit_lst_set_links_pre wit_lst_set_links_op) = wit_lst_set_links_pre.
Proof. exact AtomicProofs.C15_refuted_lst_set_links_detail. Qed.

(* what did hold for the bare sequences: a raising call leaves the COMPLETE effect of the element calls
   that returned (every element call is atomic) *)
Theorem C15_lst_shift_partial : forall d s ts vs,
  snd (lst_shift_seq d s ts vs) <> OK ->
  exists done t rest, ts = done ++ t :: rest /\
    snd (lst_shift_seq d s done vs) = OK /\ fst (lst_shift_seq d s ts vs) = fst (lst_shift_seq d s done vs).
Proof. exact AtomicProofs.C15_lst_shift_partial. Qed.

Theorem C15_lst_set_parent_partial : forall s ts p,
  snd (lst_set_parent_seq s ts p) <> OK ->
  exists done t rest, ts = done ++ t :: rest /\
    snd (lst_set_parent_seq s done p) = OK /\ fst (lst_set_parent_seq s ts p) = fst (lst_set_parent_seq s done p).
Proof. exact AtomicProofs.C15_lst_set_parent_partial. Qed.

Theorem C15_lst_set_children_partial : forall s ts vs,
  snd (lst_set_children_seq s ts vs) <> OK ->
  exists done t rest, ts = done ++ t :: rest /\
    snd (lst_set_children_seq s done vs) = OK /\ fst (lst_set_children_seq s ts vs) = fst (lst_set_children_seq s done vs).
Proof. exact AtomicProofs.C15_lst_set_children_partial. Qed.

Theorem C15_lst_set_links_partial : forall d s ts vs,
  snd (lst_set_links_seq d s ts vs) <> OK ->
  exists done t rest, ts = done ++ t :: rest /\
    snd (lst_set_links_seq d s done vs) = OK /\ fst (lst_set_links_seq d s ts vs) = fst (lst_set_links_seq d s done vs).
Proof. exact AtomicProofs.C15_lst_set_links_partial. Qed.

(* ---- the remove_all loops: full statements, proved parts ---- *)
Definition C15_ch_remove_all_statement : Prop := AtomicProofs.C15_ch_remove_all_statement.
Definition C15_ln_remove_all_statement : Prop := AtomicProofs.C15_ln_remove_all_statement.
Definition C15_wbs_remove_all_statement : Prop := AtomicProofs.C15_wbs_remove_all_statement.

Theorem C15_ch_remove_all_partial : forall s o ids,
  snd (ch_remove_all s o ids) <> OK ->
  exists done c rest,
    filter (fun c => memz (tid (get (hp s) c)) ids) (kids (get (hp s) o)) = done ++ c :: rest /\
    snd (seq_calls (fun s' c => ch_remove s' o (Some c)) s done) = OK /\
    fst (ch_remove_all s o ids) = fst (seq_calls (fun s' c => ch_remove s' o (Some c)) s done) /\
    snd (ch_remove (fst (ch_remove_all s o ids)) o (Some c)) = snd (ch_remove_all s o ids).
Proof. exact AtomicProofs.C15_ch_remove_all_partial. Qed.

Theorem C15_ln_remove_all_partial : forall d s t ids,
  snd (ln_remove_all d s t ids) <> OK ->
  exists done c rest,
    filter (fun c => memz (tid (get (hp s) c)) ids) (fwd d (get (hp s) t)) = done ++ c :: rest /\
    snd (seq_calls (fun s' c => ln_remove d s' t (Some c)) s done) = OK /\
    fst (ln_remove_all d s t ids) = fst (seq_calls (fun s' c => ln_remove d s' t (Some c)) s done) /\
    snd (ln_remove d (fst (ln_remove_all d s t ids)) t (Some c)) = snd (ln_remove_all d s t ids).
Proof. exact AtomicProofs.C15_ln_remove_all_partial. Qed.

Theorem C15_wbs_remove_all_partial : forall s w ids,
  snd (wbs_remove_all s w ids) <> OK ->
  (exists k, wbs_tasks s w = Crash k /\ wbs_remove_all s w ids = (s, Crash k)) \/
  exists l done c rest,
    wbs_tasks s w = Ok l /\
    filter (fun c => memz (tid (get (hp s) c)) ids) l = done ++ c :: rest /\
    snd (seq_calls (fun s' c => wbs_remove_task s' w c) s done) = OK /\
    fst (wbs_remove_all s w ids) = fst (seq_calls (fun s' c => wbs_remove_task s' w c) s done) /\
    snd (wbs_remove_task (fst (wbs_remove_all s w ids)) w c) = snd (wbs_remove_all s w ids).
Proof. exact AtomicProofs.C15_wbs_remove_all_partial. Qed.

(* the full statements follow from: one removal of a well-formed state is accepted and keeps WF *)
Theorem C15_ch_remove_all_from_total :
  ch_remove_accepts_statement -> ch_remove_WF_statement -> C15_ch_remove_all_statement.
Proof. exact AtomicProofs.C15_ch_remove_all_from_total. Qed.

Theorem C15_ln_remove_all_from_total :
  ln_remove_accepts_statement -> ln_remove_WF_statement -> C15_ln_remove_all_statement.
Proof. exact AtomicProofs.C15_ln_remove_all_from_total. Qed.

Theorem C15_wbs_remove_all_from_total :
  ch_remove_accepts_statement -> ch_remove_WF_statement -> wbs_tasks_total_statement ->
  C15_wbs_remove_all_statement.
Proof. exact AtomicProofs.C15_wbs_remove_all_from_total. Qed.

(* one removal of a well-formed state IS accepted: any sub-list of the present children / links passes every
   guard of the setter (so the loops never raise on well-formed states) *)
Theorem C15_set_children_guard_sublist : forall s o value,
  WF s -> incl value (kids (get (hp s) o)) -> set_children_guard s o value = OK.
Proof. exact AtomicLoops.set_children_guard_sublist. Qed.

Theorem C15_set_links_guard_sublist : forall d s t value,
  WF s -> incl value (fwd d (get (hp s) t)) -> set_links_guard d s t value = OK.
Proof. exact AtomicLoops.set_links_guard_sublist. Qed.

Theorem C15_ch_remove_accepts : forall s o c, WF s -> snd (ch_remove s o (Some c)) = OK.
Proof. exact AtomicLoops.ch_remove_accepts. Qed.

Theorem C15_ln_remove_accepts : forall s d t x, WF s -> snd (ln_remove d s t (Some x)) = OK.
Proof. exact AtomicLoops.ln_remove_accepts. Qed.

Theorem C15_wbs_tasks_total : forall s w, WF s -> exists l, wbs_tasks s w = Ok l.
Proof. exact AtomicLoops.wbs_tasks_total. Qed.

(* predecessors / successors .remove_all: fully proved *)
Theorem C15_ln_remove_all : forall s d t ids, WF s ->
  snd (step s (LnRemoveAll d t ids)) <> OK -> fst (step s (LnRemoveAll d t ids)) = s.
Proof. exact AtomicLoops.C15_ln_remove_all_proved. Qed.

(* children.remove_all, WBS.remove_all: children.remove keeps WF (Graph/ChildrenOps.v, ch_remove_WF), so the
   loops never raise on a well-formed state and the full statements hold *)
Theorem C15_ch_remove_keeps_WF : forall s o c, WF s -> WF (fst (ch_remove s o (Some c))).
Proof. exact StepProofs.ch_remove_WF_all. Qed.

Theorem C15_ch_remove_all : forall s o ids, WF s ->
  snd (step s (ChRemoveAll o ids)) <> OK -> fst (step s (ChRemoveAll o ids)) = s.
Proof. exact StepProofs.C15_ch_remove_all_wf. Qed.

Theorem C15_wbs_remove_all : forall s w ids, WF s ->
  snd (step s (WbsRemoveAll w ids)) <> OK -> fst (step s (WbsRemoveAll w ids)) = s.
Proof. exact StepProofs.C15_wbs_remove_all_wf. Qed.

(* stronger: on a well-formed state the three loops never raise at all *)
Theorem C15_remove_all_never_raises : forall s, WF s ->
  (forall o ids, snd (ch_remove_all s o ids) = OK) /\
  (forall d t ids, snd (ln_remove_all d s t ids) = OK) /\
  (forall w ids, snd (wbs_remove_all s w ids) = OK).
Proof. exact StepProofs.remove_all_never_raises_wf. Qed.

(* ALL 26 kinds on well-formed states; with C01_reach: on every state reached by a public history *)
Theorem C15_atomic_every_op : forall s o, WF s -> snd (step s o) <> OK -> fst (step s o) = s.
Proof. exact StepProofs.C15_atomic_every_op. Qed.

Theorem C15_atomic_reach : forall ops o, StepProofs.pub_run init ops ->
  snd (step (run init ops) o) <> OK -> fst (step (run init ops) o) = run init ops.
Proof. exact StepProofs.C15_atomic_reach_every_op. Qed.

(* ---- non-vacuity ---- *)
(* a reachable, well-formed state: one WBS, three tasks (ids 1, 2, 1), task 2 below task 1, a dependency *)
Definition c15_demo : state :=
  run init [NewWbs; NewTask 1%Z None [] None; NewTask 2%Z None [] None; NewTask 1%Z None [] None;
            ChAppend 0 (Some 1); SetParent 2 (Some 1); SetLinks true 3 [Some 2]].

Example c15_demo_WF : WF c15_demo.
Proof. apply wf_b_WF. vm_compute. reflexivity. Qed.

(* calls of the atomic kinds that ARE rejected on it (so the hypothesis of C15_atomic is satisfiable), with
   every exception class of the model: RuntimeError, IndexError, StopIteration, ValueError, AttributeError *)
Example c15_demo_rejected :
  map (fun o => (atomic_op o, outcome_code (snd (step c15_demo o))))
      [SetChildren 0 [Some 1; Some 3]; ChInsert 1 5%Z (Some 3); ChMove 1 [Some 2] (Some 2) None;
       SetLinks true 1 [Some 3; Some 2]; ChReorder 0 [4%Z]; ChReorder 0 [1%Z; 1%Z]; ChSort 0 KPrio false;
       SetParent 1 (Some 2); ChAppend 2 (Some 1); LnAppend true 2 (Some 3); OpShift false 2 [Some 1];
       OpFloordiv 2 [Some 3; Some 1]; SetEst 1 (Some (-1)%Z); NewTask 9%Z None [] (Some (-1)%Z);
       WbsRemove 0 None; ChRemove 0 None]
  = [(true, 1); (true, 14); (true, 1); (true, 1); (true, 16); (true, 13); (true, 17);
     (true, 1); (true, 1); (true, 1); (true, 1); (true, 1); (true, 1); (true, 1); (true, 1); (true, 1)].
Proof. vm_compute. reflexivity. Qed.

(* the loops on the well-formed demo state: accepted, nothing raised (the conclusion of the full statements
   holds vacuously there; their content is "never raises") *)
Example c15_demo_loops_accepted :
  map (fun o => outcome_code (snd (step c15_demo o)))
      [ChRemoveAll 0 [1%Z]; ChRemoveAll 1 [2%Z; 7%Z]; LnRemoveAll true 3 [2%Z]; LnRemoveAll false 2 [1%Z];
       WbsRemoveAll 0 [2%Z; 1%Z]] = [0; 0; 0; 0; 0].
Proof. vm_compute. reflexivity. Qed.

(* a remove_all loop can raise - on an ill-formed state (child 2 depends on its parent 0) - so the
   hypothesis of the partial lemmas is satisfiable; on well-formed states it cannot (full statement) *)
Example c15_loop_can_raise :
  let bad := mkS [mkT 0%Z None [1; 2] [] [2] None false None [] None;
                  mkT 1%Z (Some 0) [] [] [] None false None [] None;
                  mkT 2%Z (Some 0) [] [0] [] None false None [] None] [] in
  snd (ch_remove_all bad 0 [1%Z]) = Err /\ fst (ch_remove_all bad 0 [1%Z]) = bad /\ wf_b bad = false.
Proof. vm_compute. auto. Qed.

(* the list-level loop: the first element is accepted, the second rejected - nothing is left of the first
   (before the repair the first element stayed re-parented: C15_refuted_lst_set_parent) *)
Example C15_bulk_parent_atomic :
  let s := run init [NewTask 0%Z None [] None; NewTask 1%Z None [] None; NewTask 2%Z None [] None; NewTask 2%Z None [] None;
                     SetChildren 0 [Some 1; Some 2]] in
  let r := step s (LstSetParent [1; 2] (Some 3)) in
  outcome_code (snd r) = 1 /\ fst r = s /\ par (get (hp (fst (step_seq s (LstSetParent [1; 2] (Some 3))))) 1) = Some 3.
Proof. vm_compute. repeat split; reflexivity. Qed.

(* bulk children / predecessors / successors on a reachable state: a WBS (root 0) with root tasks 1, 2, free tasks
   3, 4, task 3 depends on 4.  [1; 2].children = [3; 2]: task 1 takes both (3 gets the owner, 2 moves below 1), then
   task 2 rejects itself - nothing is left of it, while the bare sequence leaves 1's new children behind.
   [3; 4].predecessors = [1; 4]: accepted by 3, rejected by 4 (itself).  Accepted: [1; 2].children = [3] (task 3 ends
   below the LAST element), [1; 2].successors = (3, None, 3). *)
Example C15_bulk_children_links_atomic :
  let s := run init [NewWbs; NewTask 1%Z None [] None; NewTask 2%Z None [] None; NewTask 3%Z None [] None;
                     NewTask 4%Z None [] None; SetChildren 0 [Some 1; Some 2]; SetLinks true 3 [Some 4]] in
  let o1 := LstSetChildren [1; 2] [Some 3; Some 2] in
  let o2 := LstSetLinks true [3; 4] [Some 1; Some 4] in
  let a1 := step s (LstSetChildren [1; 2] [Some 3]) in
  let a2 := step s (LstSetLinks false [1; 2] [Some 3; None; Some 3]) in
  wf_b s = true /\ pub_args s o1 = true /\ pub_args s o2 = true /\ atomic_op o1 = true /\ atomic_op o2 = true /\
  outcome_code (snd (step s o1)) = 1 /\ fst (step s o1) = s /\
  kids (get (hp (fst (step_seq s o1))) 1) = [3; 2] /\ own (get (hp (fst (step_seq s o1))) 3) = Some 0 /\
  outcome_code (snd (step s o2)) = 1 /\ fst (step s o2) = s /\
  preds (get (hp (fst (step_seq s o2))) 3) = [1; 4] /\
  outcome_code (snd a1) = 0 /\ kids (get (hp (fst a1)) 1) = [] /\ kids (get (hp (fst a1)) 2) = [3] /\
  outcome_code (snd a2) = 0 /\ succs (get (hp (fst a2)) 1) = [3] /\ succs (get (hp (fst a2)) 2) = [3] /\
  preds (get (hp (fst a2)) 3) = [4; 1; 2].
Proof. vm_compute. repeat split; reflexivity. Qed.

(* ---- source-text tie (C15): the four relation setters of Task and the nine list-facade methods are translated from task.py
   on every run a second time with `raise` as a VALUE (gen/SrcGraph.v, the `_x` definitions: `Ok (heap at the raise, XErr)`
   for RuntimeError, `XRaise k` for an explicit raise of another exception, `XRet v` for a return).  Graph/SrcGraphAtomic.v
   proves: the second translation is the first one with the heap kept ([xproj]); whenever the translated source raises, the
   heap it hands back is the heap it was given - for the setters, `move`, `insert` and `reorder` on EVERY heap; and under the
   hypotheses of the equivalence theorems there is no other outcome (no exception without a heap). ---- *)
From PJ Require Import gen.SrcGraph Graph.SrcGraphEquiv2 Graph.SrcGraphEquiv3 Graph.SrcGraphEquiv6 Graph.SrcGraphAtomic.

Theorem C15_src_set_parent_x_raise : forall F wr h t p h',
  (src_set_parent_x F wr h t p = Ok (h', XErr) -> h' = h) /\
  (forall k, src_set_parent_x F wr h t p = Ok (h', XRaise k) -> h' = h).
Proof. exact src_set_parent_x_raise. Qed.

Theorem C15_src_set_predecessors_x_raise : forall F h t vs h',
  (src_set_predecessors_x F h t vs = Ok (h', XErr) -> h' = h) /\
  (forall k, src_set_predecessors_x F h t vs = Ok (h', XRaise k) -> h' = h).
Proof. exact src_set_predecessors_x_raise. Qed.

Theorem C15_src_set_successors_x_raise : forall F h t vs h',
  (src_set_successors_x F h t vs = Ok (h', XErr) -> h' = h) /\
  (forall k, src_set_successors_x F h t vs = Ok (h', XRaise k) -> h' = h).
Proof. exact src_set_successors_x_raise. Qed.

Theorem C15_src_set_children_x_raise : forall F h t vs h',
  (src_set_children_x F h t vs = Ok (h', XErr) -> h' = h) /\
  (forall k, src_set_children_x F h t vs = Ok (h', XRaise k) -> h' = h).
Proof. exact src_set_children_x_raise. Qed.

Theorem C15_src_ch_move_atomic : forall h o ts b a h' x,
  src_ch_move_x h o ts b a = Ok (h', x) -> (forall u, x <> XRet u) -> h' = h.
Proof. exact src_ch_move_atomic. Qed.

Theorem C15_src_ch_insert_atomic_any : forall F wr h o i t h' x,
  src_ch_insert_x F wr h o i t = Ok (h', x) -> (forall u, x <> XRet u) -> h' = h.
Proof. exact src_ch_insert_atomic_any. Qed.

Theorem C15_src_ch_append_atomic : forall s o t h' x, WF s -> hid_tid (hp s) -> o < length (hp s) ->
  (forall t', t = Some t' -> t' < length (hp s)) ->
  src_ch_append_x (S (S (length (hp s)))) (wroots s) (hp s) o t = Ok (h', x) -> (forall u, x <> XRet u) -> h' = hp s.
Proof. exact src_ch_append_atomic. Qed.

Theorem C15_src_ch_remove_atomic : forall s o t h' x, WF s -> hid_tid (hp s) ->
  src_ch_remove_x (S (S (length (hp s)))) (wroots s) (hp s) o t = Ok (h', x) -> (forall b, x <> XRet b) -> h' = hp s.
Proof. exact src_ch_remove_atomic. Qed.

Theorem C15_src_ch_reorder_atomic : forall h o ids h' x,
  src_ch_reorder_x h o ids = Ok (h', x) -> (forall u, x <> XRet u) -> h' = h.
Proof. exact src_ch_reorder_atomic. Qed.

Theorem C15_src_pred_append_atomic : forall s t x h' r, WF s -> hid_tid (hp s) ->
  (forall x', x = Some x' -> hidden (get (hp s) x') = false) ->
  src_pred_append_x (S (S (length (hp s)))) (hp s) t x = Ok (h', r) -> (forall u, r <> XRet u) -> h' = hp s.
Proof. exact src_pred_append_atomic. Qed.

Theorem C15_src_succ_append_atomic : forall s t x h' r, WF s -> hid_tid (hp s) ->
  (forall x', x = Some x' -> hidden (get (hp s) x') = false) ->
  src_succ_append_x (S (S (length (hp s)))) (hp s) t x = Ok (h', r) -> (forall u, r <> XRet u) -> h' = hp s.
Proof. exact src_succ_append_atomic. Qed.

Theorem C15_src_pred_remove_atomic : forall s t x h' r, WF s -> hid_tid (hp s) ->
  src_pred_remove_x (S (S (length (hp s)))) (hp s) t x = Ok (h', r) -> (forall b, r <> XRet b) -> h' = hp s.
Proof. exact src_pred_remove_atomic. Qed.

Theorem C15_src_succ_remove_atomic : forall s t x h' r, WF s -> hid_tid (hp s) ->
  src_succ_remove_x (S (S (length (hp s)))) (hp s) t x = Ok (h', r) -> (forall b, r <> XRet b) -> h' = hp s.
Proof. exact src_succ_remove_atomic. Qed.

Theorem C15_src_set_parent_x_proj : forall F wr h t p, xproj (src_set_parent_x F wr h t p) = src_set_parent F wr h t p.
Proof. exact src_set_parent_x_proj. Qed.

Theorem C15_src_set_predecessors_x_proj : forall F h t vs,
  xproj (src_set_predecessors_x F h t vs) = src_set_predecessors F h t vs.
Proof. exact src_set_predecessors_x_proj. Qed.

Theorem C15_src_set_successors_x_proj : forall F h t vs, xproj (src_set_successors_x F h t vs) = src_set_successors F h t vs.
Proof. exact src_set_successors_x_proj. Qed.

Theorem C15_src_set_children_x_proj : forall F h t vs, xproj (src_set_children_x F h t vs) = src_set_children F h t vs.
Proof. exact src_set_children_x_proj. Qed.

Theorem C15_src_ch_move_x_proj : forall h o ts b a, xproj (src_ch_move_x h o ts b a) = src_ch_move h o ts b a.
Proof. exact src_ch_move_x_proj. Qed.

Theorem C15_src_ch_insert_x_proj : forall F wr h o i t, xproj (src_ch_insert_x F wr h o i t) = src_ch_insert F wr h o i t.
Proof. exact src_ch_insert_x_proj. Qed.

Theorem C15_src_set_parent_outcome : forall s (t : obj) (p : option obj), WF s -> hid_tid (hp s) ->
  t < length (hp s) -> (forall p', p = Some p' -> p' < length (hp s)) ->
  xoutcome (hp s) (src_set_parent_x (S (S (length (hp s)))) (wroots s) (hp s) t p).
Proof. exact src_set_parent_outcome. Qed.

Theorem C15_src_set_children_outcome : forall s (t : obj) (vs : list (option obj)), WF s -> hid_tid (hp s) ->
  t < length (hp s) -> (forall v, In (Some v) vs -> v < length (hp s)) ->
  xoutcome (hp s) (src_set_children_x (S (S (length (hp s)))) (hp s) t vs).
Proof. exact src_set_children_outcome. Qed.

Theorem C15_src_ch_move_outcome : forall h o ts b a, xoutcome h (src_ch_move_x h o ts b a).
Proof. exact src_ch_move_outcome. Qed.

Print Assumptions C15_atomic.
Print Assumptions C15_atomic_core.
Print Assumptions C15_atomic_op_false_kinds.
Print Assumptions C15_all_or_nothing.
Print Assumptions C15_lst_shift_is.
Print Assumptions C15_lst_set_parent_is.
Print Assumptions C15_lst_set_children_is.
Print Assumptions C15_lst_set_links_is.
Print Assumptions C15_new_task_rel_is.
Print Assumptions C15_refuted_lst_shift.
Print Assumptions C15_refuted_lst_shift_detail.
Print Assumptions C15_refuted_lst_set_parent.
Print Assumptions C15_refuted_lst_set_parent_detail.
Print Assumptions C15_refuted_new_task_rel.
Print Assumptions C15_refuted_new_task_rel_detail.
Print Assumptions C15_refuted_lst_set_children.
Print Assumptions C15_refuted_lst_set_children_detail.
Print Assumptions C15_refuted_lst_set_links.
Print Assumptions C15_refuted_lst_set_links_detail.
Print Assumptions C15_lst_set_children_partial.
Print Assumptions C15_lst_set_links_partial.
Print Assumptions C15_lst_shift_partial.
Print Assumptions C15_lst_set_parent_partial.
Print Assumptions C15_ch_remove_all_partial.
Print Assumptions C15_ln_remove_all_partial.
Print Assumptions C15_wbs_remove_all_partial.
Print Assumptions C15_ch_remove_all_from_total.
Print Assumptions C15_ln_remove_all_from_total.
Print Assumptions C15_wbs_remove_all_from_total.
Print Assumptions C15_set_children_guard_sublist.
Print Assumptions C15_set_links_guard_sublist.
Print Assumptions C15_ch_remove_accepts.
Print Assumptions C15_ln_remove_accepts.
Print Assumptions C15_wbs_tasks_total.
Print Assumptions C15_ln_remove_all.
Print Assumptions C15_ch_remove_keeps_WF.
Print Assumptions C15_ch_remove_all.
Print Assumptions C15_wbs_remove_all.
Print Assumptions C15_remove_all_never_raises.
Print Assumptions C15_atomic_every_op.
Print Assumptions C15_atomic_reach.
Print Assumptions c15_demo_WF.
Print Assumptions c15_demo_rejected.
Print Assumptions c15_demo_loops_accepted.
Print Assumptions c15_loop_can_raise.
Print Assumptions C15_bulk_parent_atomic.
Print Assumptions C15_bulk_children_links_atomic.
Print Assumptions C15_src_set_parent_x_raise.
Print Assumptions C15_src_set_predecessors_x_raise.
Print Assumptions C15_src_set_successors_x_raise.
Print Assumptions C15_src_set_children_x_raise.
Print Assumptions C15_src_ch_move_atomic.
Print Assumptions C15_src_ch_insert_atomic_any.
Print Assumptions C15_src_ch_append_atomic.
Print Assumptions C15_src_ch_remove_atomic.
Print Assumptions C15_src_ch_reorder_atomic.
Print Assumptions C15_src_pred_append_atomic.
Print Assumptions C15_src_succ_append_atomic.
Print Assumptions C15_src_pred_remove_atomic.
Print Assumptions C15_src_succ_remove_atomic.
Print Assumptions C15_src_set_parent_x_proj.
Print Assumptions C15_src_set_predecessors_x_proj.
Print Assumptions C15_src_set_successors_x_proj.
Print Assumptions C15_src_set_children_x_proj.
Print Assumptions C15_src_ch_move_x_proj.
Print Assumptions C15_src_ch_insert_x_proj.
Print Assumptions C15_src_set_parent_outcome.
Print Assumptions C15_src_set_children_outcome.
Print Assumptions C15_src_ch_move_outcome.
