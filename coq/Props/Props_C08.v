(* C08 - Forward schedules are tight and their dates encode the used capacity.
   Statement file: theorems closed by [exact], Print Assumptions below.  They hold for every WBS (any
   size, hierarchy, links), every capacity function with non-negative values, every project start and
   clock.  "Free leaf" = leaf task, not a milestone, no user start, no user end ([free_leaf]).
   Hypotheses: [cap_nonneg] (calendars never answer a negative capacity), [WFin] (the graph invariant
   of the WBS after clone(); evaluated on every generated case by check_case, bit 4096),
   [c08_preorder] / [c08_members_first_b] (the numbering convention of the abstract input: members
   first, numbered in the order of the walk through the hierarchy; evaluated on every generated case
   by c08.py through [c08_pre_code]). *)
From PJ Require Import Base.Prelude Sched.Model Sched.Machine Sched.Instances Sched.C03Proofs Sched.WfIn
     Sched.C08Run Sched.C08Step Sched.C08Proofs Sched.C08Indep Sched.C08Leaves Sched.C08Check
     Sched.C08Oracle Sched.C08Order Sched.C08Full Sched.C08IndepSim Sched.C08Renumber Sched.Check Sched.Oracles Sched.OracleProofs.

(* Balancing on: for a free leaf t that was given a start s, the resource of t is fully booked on
   every day from the release day - the day of the latest of project start, prerequisite ends (own
   and inherited prerequisites, [bound_max] over [prereqs]), clock and min_start - up to, excluding,
   the last work day of t (the largest day among its rows; the day of s when it has no rows). *)
Theorem C08_tight : forall cfg w st,
  cap_nonneg cfg -> balance cfg = true -> forward cfg w = Ok st ->
  forall t s, free_leaf w t = true -> d_start (getd st t) = Some s ->
    exists ld, c08_lastday_is (map r_day (c08_own_rows (lg st) t)) s ld
               /\ forall d, day_of (c08_release cfg w (dy st) t) <= d < ld ->
                            booked (lg st) (k_res (gett w t)) d = cap cfg (k_res (gett w t)) d.
Proof. exact C08_tight_holds. Qed.

(* The same for every member task of a well-formed WBS (each of them does get a start), with the
   release day computed from the ends of the prerequisite LEAF tasks, as the property is worded: the
   end of a summary is the latest end among the leaves below it. *)
Theorem C08_tight_leaves : forall cfg w st,
  cap_nonneg cfg -> WFin w -> balance cfg = true -> forward cfg w = Ok st ->
  forall t, k_ext (gett w t) = false -> free_leaf w t = true ->
    exists s ld, d_start (getd st t) = Some s
      /\ c08_lastday_is (map r_day (c08_own_rows (lg st) t)) s ld
      /\ forall d,
           day_of (Z.max (Z.max (bound_max (dy st) (prereq_leaves w t) (pbound cfg)) (now cfg))
                         (odflt (k_minstart (gett w t)) 0)) <= d < ld ->
           booked (lg st) (k_res (gett w t)) d = cap cfg (k_res (gett w t)) d.
Proof. exact C08_tight_leaves_holds. Qed.

(* The dates of a free leaf with work: start = midnight of the first work day + 24h * share of that
   day's capacity booked before the task's first row (in rows() order); end = midnight of the last
   work day + 24h * share booked up to and including the task's row of that day.  Balancing off: the
   start is the first work day's midnight and the end encodes the task's own amount on the last day.
   In the model this holds for every clock, in particular when the clock is not later than the
   project start as the property demands. *)
Theorem C08_encode : forall cfg w st,
  cap_nonneg cfg -> forward cfg w = Ok st -> c08_encode_statement cfg w st.
Proof. exact C08_encode_holds. Qed.

(* Leaf tasks that take part in no dependency (no own or inherited prerequisite, no own or inherited
   dependant) receive their first reservation in WBS order. *)
Theorem C08_order : forall cfg w st,
  cap_nonneg cfg -> WFin w -> c08_preorder w -> forward cfg w = Ok st ->
  forall t1 t2 i j, c08_q w t1 = true -> c08_q w t2 = true -> (t1 < t2)%nat ->
    first_index (model_rows st) t1 0 = Some i -> first_index (model_rows st) t2 0 = Some j -> (i < j)%nat.
Proof. exact C08_order_holds. Qed.

(* Balancing off: removing a task u that has nothing to do with anybody (a top-level leaf without
   links, [c08_isolated]) from the WBS - its entry deleted from the table, the later tasks renumbered
   ([c08_drop_task], [c08_shift]) - leaves start, end, estimate and spent of every other task
   unchanged.  Proved by two simulations between runs of the recursive pass (blanking, renumbering). *)
Theorem C08_indep : forall cfg w u st st',
  balance cfg = false -> WFin w -> c08_isolated w u ->
  forward cfg w = Ok st -> forward cfg (c08_drop_task u w) = Ok st' ->
  forall t, t <> u -> getd st t = getd st' (c08_shift u t).
Proof. exact C08_indep_holds. Qed.

(* the intermediate form: the entry of u blanked ([c08_mask]: an unreferenced entry outside the WBS,
   which no scheduler looks at), the other tasks keep their numbers *)
Theorem C08_indep_masked : forall cfg w u st st2,
  balance cfg = false -> WFin w -> c08_isolated w u ->
  forward cfg w = Ok st -> forward cfg (c08_mask u w) = Ok st2 ->
  forall t, t <> u -> getd st t = getd st2 t.
Proof. exact C08_indep_mask_holds. Qed.

(* the reason: the calculation of t reads the ledger only through t's own reservations - on two
   ledgers that agree on them it yields the same dates and the same new reservations *)
Theorem C08_indep_step : forall cfg w ds l1 l2 t b ds' l1',
  balance cfg = false -> c08_same_own t l1 l2 ->
  fwd_compute cfg w ds l1 t b = Ok (ds', l1') ->
  exists new, l1' = new ++ l1 /\ (forall x, In x new -> r_task x = t)
              /\ fwd_compute cfg w ds l2 t b = Ok (ds', new ++ l2).
Proof. exact c08_fwd_compute_own_rows. Qed.

(* the executable oracle evaluated on the implementation's output means exactly the statement about
   the observed schedule (tight from the release day computed from the prerequisite leaves' observed
   ends; dates encode the shares when the clock is not later than the project start - for a free leaf
   WITHOUT usage rows (no work left) c08_norows: its start day has capacity, balancing off: the start is
   that day's midnight, balancing on: the start encodes the share of that day booked by some prefix of
   rows() (the moment the task was placed), hence at most the share booked there in the whole schedule;
   the end is the start, or the project start when that is later; first rows of unlinked leaves in WBS
   order) *)
Theorem C08_oracle_sound : forall cfg w o t, c08_task_b cfg w o t = true -> c08_task_statement cfg w o t.
Proof. exact c08_task_b_sound. Qed.

Theorem C08_oracle_complete : forall cfg w o t, c08_task_statement cfg w o t -> c08_task_b cfg w o t = true.
Proof. exact c08_task_b_complete. Qed.

Theorem C08_oracle_order_sound : forall w o, c08_order_b w o = true -> c08_order_statement w (o_rows o).
Proof. exact c08_order_b_sound. Qed.

Theorem C08_oracle_order_complete : forall w o, c08_order_statement w (o_rows o) -> c08_order_b w o = true.
Proof. exact c08_order_b_complete. Qed.

(* ... and the model's own output always passes it *)
Theorem C08_model_passes_oracle : forall cfg w st o,
  cap_nonneg cfg -> WFin w -> c08_preorder w -> forward cfg w = Ok st -> c08_obs_agrees w st o ->
  c08_b cfg w o = true.
Proof. exact C08_model_passes_oracle_holds. Qed.

Theorem C08_model_passes_oracle_obs : forall cfg w st,
  cap_nonneg cfg -> WFin w -> c08_preorder w -> c08_members_first_b w = true -> forward cfg w = Ok st ->
  c08_b cfg w (obs_of w st) = true.
Proof. exact C08_model_passes_oracle_obs_of. Qed.

(* non-vacuity: three competing tasks (1.5 days, 1 day, half a day) on one Mon-Fri resource of 64
   units a day, project start on a Monday: the second task starts at noon on Tuesday and ends at noon
   on Wednesday, the third fills the rest of Wednesday; all hypotheses of the theorems hold, the three
   tasks are unlinked free leaves, the oracle accepts the model's output.  Balancing off: every task
   starts on Monday, the second task is isolated, and dropping (or blanking) it leaves the third task's
   dates unchanged. *)
Definition ex_cap (r : nat) (d : Z) : Z := if weekday_of_day d <? 5 then 64 else 0.
Definition ex_cfg (bal : bool) : config :=
  {| cap := ex_cap; balance := bal; dflt_est := 0; pbound := 19723 * DAY; now := 19700 * DAY;
     h_search := 1000; h_near := 1000; h_fill := 1000 |}.
Definition ex_task (e : Z) : itask :=
  {| k_parent := None; k_children := []; k_preds := []; k_succs := []; k_ext := false; k_milestone := false;
     k_res := 0; k_est := Some e; k_spent := None; k_start := None; k_end := None; k_minstart := None |}.
Definition ex_w : list itask := [ex_task 96; ex_task 64; ex_task 32].
Example C08_example :
  (forall r d, 0 <= ex_cap r d) /\ wfin_b ex_w = true /\ c08_pre_code ex_w = 0%nat
  /\ forallb (c08_q ex_w) [0; 1; 2]%nat = true
  /\ match forward (ex_cfg true) ex_w with
     | Ok st =>
         map (fun x => (r_task x, r_day x - 19723, r_units x)) (rev (lg st))
           = [(0%nat, 0, 64); (0%nat, 1, 32); (1%nat, 1, 32); (1%nat, 2, 32); (2%nat, 2, 32)]
         /\ d_start (getd st 1) = Some (19724 * DAY + DAY / 2) /\ d_end (getd st 1) = Some (19725 * DAY + DAY / 2)
         /\ d_start (getd st 2) = Some (19725 * DAY + DAY / 2) /\ d_end (getd st 2) = Some (19726 * DAY)
         /\ c08_b (ex_cfg true) ex_w (obs_of ex_w st) = true
     | _ => False
     end
  /\ c08_isolated ex_w 1
  /\ match forward (ex_cfg false) ex_w, forward (ex_cfg false) (c08_drop_task 1 ex_w), forward (ex_cfg false) (c08_mask 1 ex_w) with
     | Ok st, Ok st', Ok st2 =>
         d_start (getd st 2) = Some (19723 * DAY) /\ d_end (getd st 2) = Some (19723 * DAY + DAY / 2)
         /\ d_start (getd st' (c08_shift 1 2)) = d_start (getd st 2) /\ d_end (getd st' (c08_shift 1 2)) = d_end (getd st 2)
         /\ getd st2 2 = getd st 2
     | _, _, _ => False
     end.
Proof.
  split; [intros r d; unfold ex_cap; destruct (weekday_of_day d <? 5); lia|].
  vm_compute. repeat split; reflexivity.
Qed.

(* ---------- independence for an unrelated SET of tasks (clusters with internal links, whole subtrees) ----------
   U (a predicate on task numbers) is unrelated, [c08_unrelated w U]: every task of U is a member of the
   WBS; U is a union of whole top-level subtrees (with a task its parent and its children); no dependency
   link between a task of U and a member outside U.  Links inside U, hierarchy inside U and links from U to
   tasks outside the WBS ([k_ext]) are allowed.  [c08_mask_set U w] blanks every entry of U the way
   [c08_mask] blanks one (the entry becomes [no_task]: outside the WBS, no hierarchy, no links, no work);
   [c08_drop_set U w] deletes the entries and renumbers the remaining tasks ([c08_rank U t] = number of
   positions below t that are not in U). *)
From PJ Require Import Sched.C08IndepSet Sched.C08IndepSetSim Sched.C08IndepSetRen Sched.C08IndepSetRenSim
     Sched.C08IndepSetTotal.

Definition C08_indep_set_statement : Prop :=
  forall cfg w (U : nat -> bool) st st2,
    balance cfg = false -> WFin w -> c08_unrelated w U ->
    forward cfg w = Ok st -> forward cfg (c08_mask_set U w) = Ok st2 ->
    forall t, U t = false -> getd st t = getd st2 t.

(* the blanked form: numbers kept *)
Theorem C08_indep_set_masked : C08_indep_set_statement.
Proof. exact C08_indep_set_mask_holds. Qed.

(* the second run need not be assumed: the run on the blanked table cannot fail when the full run succeeds *)
Theorem C08_indep_set_masked_total : forall cfg w (U : nat -> bool) st,
  balance cfg = false -> WFin w -> c08_unrelated w U -> forward cfg w = Ok st ->
  exists st2, forward cfg (c08_mask_set U w) = Ok st2 /\ forall t, U t = false -> getd st t = getd st2 t.
Proof. exact C08_indep_set_mask_total. Qed.

(* the final form: the tasks of U deleted from the table, the others renumbered *)
Theorem C08_indep_set : forall cfg w (U : nat -> bool) st st',
  balance cfg = false -> WFin w -> c08_unrelated w U ->
  forward cfg w = Ok st -> forward cfg (c08_drop_set U w) = Ok st' ->
  forall t, U t = false -> getd st t = getd st' (c08_rank U t).
Proof. exact C08_indep_set_holds. Qed.

(* ... and here too the second run need not be assumed: the run on the shorter table cannot fail when the full
   run succeeds (a successful pass never nests deeper than the number of table entries) *)
Theorem C08_indep_set_total : forall cfg w (U : nat -> bool) st,
  balance cfg = false -> WFin w -> c08_unrelated w U -> forward cfg w = Ok st ->
  exists st', forward cfg (c08_drop_set U w) = Ok st'
              /\ forall t, U t = false -> getd st t = getd st' (c08_rank U t).
Proof. exact C08_indep_set_total_holds. Qed.

(* the same with the set given by the list of its elements and the hypothesis in executable form *)
Theorem C08_unrelated_b_sound : forall w us, c08_unrelated_b w us = true -> c08_unrelated w (fun t => memb t us).
Proof. exact c08_unrelated_b_sound. Qed.

Theorem C08_indep_set_masked_list : forall cfg w us st st2,
  balance cfg = false -> WFin w -> c08_unrelated_b w us = true ->
  forward cfg w = Ok st -> forward cfg (c08_mask_set (fun t => memb t us) w) = Ok st2 ->
  forall t, ~ In t us -> getd st t = getd st2 t.
Proof. exact C08_indep_set_mask_list. Qed.

Theorem C08_indep_set_list : forall cfg w us st st',
  balance cfg = false -> WFin w -> c08_unrelated_b w us = true ->
  forward cfg w = Ok st -> forward cfg (c08_drop_set (fun t => memb t us) w) = Ok st' ->
  forall t, ~ In t us -> getd st t = getd st' (c08_rank (fun t => memb t us) t).
Proof. exact C08_indep_set_list. Qed.

(* one isolated task is the one-element case: [C08_indep_set_masked] contains [C08_indep_masked] *)
Theorem C08_isolated_is_unrelated : forall w u, c08_isolated w u ->
  c08_unrelated w (Nat.eqb u) /\ c08_mask_set (Nat.eqb u) w = c08_mask u w.
Proof. exact c08_isolated_is_unrelated. Qed.

(* non-vacuity: seven entries on the resource of [ex_cfg].  0: 96 units, successor 5.  1: a summary with
   children 2 (64 units) and 3 (32 units, waits for 2 and for 6); 4: 32 units, waits for 3.  5: 32 units,
   waits for 0.  6: a task outside the WBS with dates.  U = {1,2,3,4}: a two-level subtree with an internal
   link, a link to a top-level leaf of U and a link to a task outside the WBS.  The WBS is well-formed, U is
   unrelated (executable check), all three runs succeed, every task of U is scheduled in the full run
   (task 3 on Tuesday), and tasks 0, 5 and the outside task 6 keep start, end, estimate and spent when U
   is blanked or deleted (5 and 6 become 1 and 2). *)
Definition ex2_task (par : option nat) (ch pr su : list nat) (e : option Z) : itask :=
  {| k_parent := par; k_children := ch; k_preds := pr; k_succs := su; k_ext := false; k_milestone := false;
     k_res := 0; k_est := e; k_spent := None; k_start := None; k_end := None; k_minstart := None |}.
Definition ex2_ext : itask :=
  {| k_parent := None; k_children := []; k_preds := []; k_succs := []; k_ext := true; k_milestone := false;
     k_res := 0; k_est := None; k_spent := None; k_start := Some (19724 * DAY); k_end := Some (19724 * DAY + DAY / 2);
     k_minstart := None |}.
Definition ex2_w : list itask :=
  [ ex2_task None [] [] [5%nat] (Some 96);
    ex2_task None [2; 3]%nat [] [] None;
    ex2_task (Some 1%nat) [] [] [3%nat] (Some 64);
    ex2_task (Some 1%nat) [] [2; 6]%nat [4%nat] (Some 32);
    ex2_task None [] [3%nat] [] (Some 32);
    ex2_task None [] [0%nat] [] (Some 32);
    ex2_ext ].
Definition ex2_us : list nat := [1; 2; 3; 4]%nat.
Definition ex2_U (t : nat) : bool := memb t ex2_us.
Example C08_set_example :
  wfin_b ex2_w = true /\ c08_unrelated_b ex2_w ex2_us = true
  /\ map (c08_rank ex2_U) [0; 5; 6]%nat = [0; 1; 2]%nat
  /\ length (c08_drop_set ex2_U ex2_w) = 3%nat
  /\ match forward (ex_cfg false) ex2_w, forward (ex_cfg false) (c08_mask_set ex2_U ex2_w),
           forward (ex_cfg false) (c08_drop_set ex2_U ex2_w) with
     | Ok st, Ok st2, Ok st' =>
         forallb (fun u => match d_start (getd st u), d_end (getd st u) with Some _, Some _ => true | _, _ => false end)
                 ex2_us = true
         /\ d_start (getd st 3) = Some (19724 * DAY) /\ d_end (getd st 3) = Some (19724 * DAY + DAY / 2)
         /\ d_start (getd st 0) = Some (19723 * DAY) /\ d_end (getd st 0) = Some (19724 * DAY + DAY / 2)
         /\ d_start (getd st 5) = Some (19724 * DAY) /\ d_end (getd st 5) = Some (19724 * DAY + DAY / 2)
         /\ getd st2 0 = getd st 0 /\ getd st2 5 = getd st 5 /\ getd st2 6 = getd st 6
         /\ getd st' 0 = getd st 0 /\ getd st' 1 = getd st 5 /\ getd st' 2 = getd st 6
         /\ d_start (getd st2 3) = None
     | _, _, _ => False
     end.
Proof. vm_compute. repeat split; reflexivity. Qed.

(* ---- the tie to the source text (gen/SrcFill.v, regenerated on every run from schedule.py): the search for the
   first day with free capacity and the greedy fill of ForwardScheduler, translated from their current source text, are
   the model's [fwd_nearest] / [fwd_shift] for all inputs (see Props_C03.v for the vocabulary) *)
From Coq Require Import QArith.
From PJ Require Import Cal.Calendar gen.SrcFill Sched.SrcFillEquiv Sched.SrcFillInv.
Open Scope Z_scope.

Theorem C08_src_fwd_nearest : forall cfg l r t t0, pos_rows l ->
  src_fwd_nearest (balance cfg) (nearest_of (cap cfg r) (h_search cfg)) (gau_of (cap cfg r)) r (qrows_of l) t0 t
                  (Z.of_nat (h_near cfg))
  = fwd_nearest cfg l r t t0.
Proof. exact src_fwd_nearest_eq. Qed.

Theorem C08_src_fwd_shift : forall cfg l r t s0 left, pos_rows l -> 0 <= left ->
  src_fwd_shift (balance cfg) (nearest_of (cap cfg r) (h_search cfg)) (gau_of (cap cfg r)) r (qrows_of l) s0 t
                (inject_Z left) (Z.of_nat (h_fill cfg))
  = lift_shift (fwd_shift cfg l r t s0 left).
Proof. exact src_fwd_shift_eq. Qed.

(* ---- source-text tie for the recursive pass (gen/SrcPass.v: ForwardScheduler.__forward_pass / BackwardScheduler.__backward_pass translated from schedule.py on every run;
   Sched/SrcPassEquivF.v / SrcPassEquivB.v relates it to the model's pass for every input, Sched/SrcPassProps.v transports the theorems):
   what follows is about the TRANSLATED SOURCE called once per root as calc does ([src_roots_fold]) after calc's pre-checks. ---- *)
From PJ Require Import gen.SrcPass Sched.SrcPassRel Sched.SrcPassEquivF Sched.SrcPassEquivB Sched.SrcPassProps.

Theorem C08_src_forward_pass : forall cfg w ds l cl, isolated_ok w = true -> no_future_ends w (now cfg) = true ->
  src_roots_fold src_fwd_pass cfg w (roots w) = Ok (ds, l, cl) ->
  cap_nonneg cfg -> WFin w -> c08_preorder w -> c08_members_first_b w = true ->
  c08_b cfg w (obs_of w (src_sst (ds, l, cl))) = true.
Proof. exact src_fwd_c08_oracle. Qed.

Print Assumptions C08_tight.
Print Assumptions C08_tight_leaves.
Print Assumptions C08_encode.
Print Assumptions C08_order.
Print Assumptions C08_indep.
Print Assumptions C08_indep_masked.
Print Assumptions C08_indep_step.
Print Assumptions C08_oracle_sound.
Print Assumptions C08_oracle_complete.
Print Assumptions C08_oracle_order_sound.
Print Assumptions C08_oracle_order_complete.
Print Assumptions C08_model_passes_oracle.
Print Assumptions C08_model_passes_oracle_obs.
Print Assumptions C08_example.
Print Assumptions C08_indep_set_masked.
Print Assumptions C08_indep_set_masked_total.
Print Assumptions C08_indep_set.
Print Assumptions C08_indep_set_total.
Print Assumptions C08_unrelated_b_sound.
Print Assumptions C08_indep_set_masked_list.
Print Assumptions C08_indep_set_list.
Print Assumptions C08_isolated_is_unrelated.
Print Assumptions C08_set_example.
Print Assumptions C08_src_fwd_nearest.
Print Assumptions C08_src_fwd_shift.
Print Assumptions C08_src_forward_pass.
