(* C05 - "No sequence of accepted operations can make two different tasks with equal ids members of the same WBS
   or of the same detached task tree; an operation that would do so is rejected with RuntimeError.  Consequently
   wbs[id] returns the one member task with that id and raises RuntimeError when there is none, and WBS.tasks
   lists every member exactly once in depth-first order: each task directly followed by its descendants,
   siblings in list order."

   Statement file; proofs in Graph/C05Proofs.v (on top of C01: Graph/StepProofs.v).
   member s w t : t is a proper descendant of the hidden root of WBS w.  Root h x r : r is the parentless
   object at the top of x's parent chain (the hidden root for WBS members, the top task for detached trees).
   desc h c : the descendants of c in preorder. *)
From PJ Require Import Base.Prelude Graph.Model Graph.Invariant Graph.AncLemmas Graph.AncLemmas2 Graph.LinksProofs
  Graph.OracleProofs Graph.StepProofs Graph.C05Proofs.
Local Open Scope nat_scope.

(* ---- uniqueness: per tree (detached trees and WBSs alike), below any object, inside one WBS ---- *)
Theorem C05_unique : forall s, WF s ->
  forall a b r, a < length (hp s) -> b < length (hp s) -> Root (hp s) a r -> Root (hp s) b r ->
    tid (get (hp s) a) = tid (get (hp s) b) -> a = b.
Proof. exact C05Proofs.ids_unique_tree. Qed.

Theorem C05_unique_below : forall s, WF s ->
  forall x a b, Anc (hp s) a x -> Anc (hp s) b x -> tid (get (hp s) a) = tid (get (hp s) b) -> a = b.
Proof. exact C05Proofs.ids_unique_below. Qed.

Theorem C05_unique_wbs : forall s w l, WF s -> wbs_tasks s w = Ok l ->
  forall a b, In a l -> In b l -> tid (get (hp s) a) = tid (get (hp s) b) -> a = b.
Proof. exact C05Proofs.wbs_ids_unique. Qed.

(* ---- rejection ---- *)
(* after ANY public call, accepted or not, uniqueness holds: no call can produce a clash *)
Theorem C05_reject : forall s o, WF s -> pub_args s o = true ->
  let s' := fst (step s o) in
  ~ exists a b r, a <> b /\ a < length (hp s') /\ b < length (hp s') /\
                  Root (hp s') a r /\ Root (hp s') b r /\ tid (get (hp s') a) = tid (get (hp s') b).
Proof. exact C05Proofs.step_no_clash. Qed.

Theorem C05_step_ids : forall s o, WF s -> pub_args s o = true -> I_ids (fst (step s o)).
Proof. exact C05Proofs.step_ids. Qed.

(* the two setters through which every attachment goes: if the state the call WOULD write has a clash, the call
   answers Err (RuntimeError - not another exception) and returns the very same state *)
Theorem C05_reject_set_parent : forall s t p,
  WF s -> pub s t -> (forall p', p = Some p' -> p' < length (hp s)) ->
  ~ I_ids (set_parent_write s t p) -> set_parent s t p = (s, Err).
Proof. exact C05Proofs.set_parent_clash_rejected. Qed.

Theorem C05_reject_set_children : forall s t vs,
  WF s -> t < length (hp s) -> pubs s vs ->
  ~ I_ids (set_children_write s t (dedup (somes vs))) -> set_children s t vs = (s, Err).
Proof. exact C05Proofs.set_children_clash_rejected. Qed.

(* the guards never raise anything but RuntimeError on a state without hierarchy cycle *)
Theorem C05_guards_no_crash : forall s, acyclic (hp s) ->
  (forall t p, set_parent_guard s t p = OK \/ set_parent_guard s t p = Err) /\
  (forall t value, set_children_guard s t value = OK \/ set_children_guard s t value = Err).
Proof. exact C05Proofs.guards_no_crash. Qed.

(* the id-intersection test itself (_has_id_intersection): it answers False exactly when the incoming objects
   (below one of chs, not yet in the tree of p) have pairwise distinct ids, all distinct from the ids of that tree *)
Theorem C05_id_clash_spec : forall h p chs, acyclic h ->
  exists r b, rootof h p = Some r /\ Root h p r /\ id_clash h p chs = Ok b /\
    (b = false <->
       (forall x y, Incoming h r chs x -> Incoming h r chs y -> tid (get h x) = tid (get h y) -> x = y) /\
       (forall x y, Incoming h r chs x -> InTree h r y -> tid (get h x) <> tid (get h y))).
Proof. exact AncLemmas2.id_clash_spec. Qed.

(* ---- lookup ---- *)
Theorem C05_lookup : forall s w i, WF s ->
  (forall t, wbs_getitem s w i = Ok t <-> member s w t /\ tid (get (hp s) t) = i) /\
  (wbs_getitem s w i = Err <-> forall t, member s w t -> tid (get (hp s) t) <> i) /\
  (forall k, wbs_getitem s w i <> Crash k).
Proof. exact C05Proofs.getitem_spec. Qed.

(* ---- enumeration: every member exactly once, in depth-first preorder ---- *)
Theorem C05_tasks : forall s w, WF s ->
  exists l, wbs_tasks s w = Ok l /\ NoDup l /\ (forall t, In t l <-> member s w t) /\
            l = flat_map (fun c => c :: desc (hp s) c) (kids (get (hp s) (wroot s w))) /\
            (forall c, desc (hp s) c = flat_map (fun c' => c' :: desc (hp s) c') (kids (get (hp s) c))) /\
            (forall c x, In x (desc (hp s) c) <-> Anc (hp s) x c).
Proof. exact C05Proofs.wbs_tasks_spec. Qed.

(* ---- at every state reached by a public history ---- *)
Theorem C05_reach : forall ops, pub_run init ops ->
  let s := run init ops in
  I_ids s /\
  (forall x a b, Anc (hp s) a x -> Anc (hp s) b x -> tid (get (hp s) a) = tid (get (hp s) b) -> a = b) /\
  (forall w, exists l, wbs_tasks s w = Ok l /\ NoDup l /\ (forall t, In t l <-> member s w t) /\
                       l = flat_map (fun c => c :: desc (hp s) c) (kids (get (hp s) (wroot s w)))) /\
  (forall w i, (forall t, wbs_getitem s w i = Ok t <-> member s w t /\ tid (get (hp s) t) = i) /\
               (wbs_getitem s w i = Err <-> forall t, member s w t -> tid (get (hp s) t) <> i) /\
               (forall k, wbs_getitem s w i <> Crash k)).
Proof. exact C05Proofs.reach_C05. Qed.

(* ---- the oracle on snapshots ---- *)
Theorem C05_oracle : forall s, I_acy s -> (wf_ids_b s = true <-> I_ids s).
Proof. exact OracleProofs.wf_ids_b_spec. Qed.

(* ---- non-vacuity ---- *)
(* one WBS, three tasks (ids 1, 2, 1), task 2 below task 1 in the WBS, a dependency; reached by a public history *)
Definition demo_ops : list op :=
  [NewWbs; NewTask 1%Z None [] None; NewTask 2%Z None [] None; NewTask 1%Z None [] None;
   ChAppend 0 (Some 1); SetParent 2 (Some 1); SetLinks true 3 [Some 2]].
Definition demo : state := run init demo_ops.

Example C05_demo_reachable : pub_run init demo_ops /\ wf_b demo = true.
Proof. vm_compute. split; reflexivity. Qed.

(* object 3 has the id of object 1: it is rejected everywhere in the WBS of object 1, with RuntimeError; the write
   it would have done does break uniqueness (hypothesis of C05_reject_set_parent) *)
Example C05_demo_duplicate_rejected :
  map (fun o => (pub_args demo o, outcome_code (snd (step demo o))))
      [ChAppend 0 (Some 3); SetParent 3 (Some 2); OpFloordiv 2 [Some 3]; ChInsert 1 0%Z (Some 3)]
    = [(true, 1); (true, 1); (true, 1); (true, 1)]
  /\ wf_ids_b demo = true /\ wf_ids_b (set_parent_write demo 3 (Some 2)) = false.
Proof. vm_compute. repeat split; reflexivity. Qed.

(* bulk children assignment: [1; 2].children = [3] is rejected by the first element (3 has the id of 1); with a free
   task 4 of id 2, [3; 1].children = [4] is accepted by the free task 3 and rejected by task 1 (its WBS holds id 2
   already): the whole call is undone, ids stay unique; [2].children = [] is accepted *)
Example C05_demo_bulk :
  let s := fst (step demo (NewTask 2%Z None [] None)) in
  map (fun o => (pub_args s o, outcome_code (snd (step s o)), wf_ids_b (fst (step s o))))
      [LstSetChildren [1; 2] [Some 3]; LstSetChildren [3; 1] [Some 4]; LstSetChildren [2] []]
    = [(true, 1, true); (true, 1, true); (true, 0, true)]
  /\ snd (set_children s 3 [Some 4]) = OK /\ fst (step s (LstSetChildren [3; 1] [Some 4])) = s.
Proof. vm_compute. repeat split; reflexivity. Qed.

(* lookup and enumeration on the demo state *)
Example C05_demo_lookup :
  wbs_tasks demo 0 = Ok [1; 2] /\ wbs_getitem demo 0 2%Z = Ok 2 /\ wbs_getitem demo 0 1%Z = Ok 1 /\ wbs_getitem demo 0 7%Z = Err.
Proof. vm_compute. repeat split; reflexivity. Qed.

(* wf_ids_b is not trivially true *)
Example C05_illformed_rejected_by_wf_ids_b :
  wf_ids_b (mkS [mkT 1%Z None [1] [] [] None false None [] None; mkT 1%Z (Some 0) [] [] [] None false None [] None] []) = false.
Proof. vm_compute. reflexivity. Qed.

(* ---- the tie to the source text: the walks behind the id check and behind WBS.tasks --------------------------------
   gen/SrcGraph.v is produced on every run by harness/srcgen from the *current source text* of task.py: _find_root (raw
   parents up to the root), _collect_subtree and the generator of Task.__get_all_children (preorder of the descendants:
   each child directly followed by its descendants, siblings in list order - the order of WBS.tasks) are the model's
   [rootof] and [pref] for every heap, task and fuel. *)
From PJ Require Import gen.SrcGraph Graph.SrcGraphEquiv.

Theorem C05_src_find_root : forall h t,
  src_find_root h t = match rootof h t with Some r => Ok r | None => Crash OutOfFuel end.
Proof. exact src_find_root_eq. Qed.

Theorem C05_src_get_children : forall n h t, src_get_children (S n) h t = lift_walk (pref n h t).
Proof. exact src_get_children_eq. Qed.

Theorem C05_src_all_children : forall h t, src_all_children (S (length h)) h t = all_children h t.
Proof. exact src_all_children_eq. Qed.

Theorem C05_src_collect_subtree : forall n h t,
  src_collect_subtree (S n) h t = match pref n h t with Some l => Ok (t :: l) | None => Crash RecursionError end.
Proof. exact src_collect_subtree_eq. Qed.

(* ---- second tranche: the id check itself.  _has_id_intersection(parent, children), translated from its current
   source text, answers exactly what the model's [id_clash] answers in every well-formed state, for every receiving
   task and every list of incoming tasks inside the heap (an object outside the heap reads as a pristine task in the
   code and is not enumerated by the model: Graph/SrcGraphEquiv2.v has the counterexamples). *)
From PJ Require Import Graph.SrcGraphEquiv2.

Theorem C05_src_has_id_intersection : forall s p chs, WF s ->
  p < length (hp s) -> (forall c, In c chs -> c < length (hp s)) ->
  src_has_id_intersection (S (length (hp s))) (hp s) p chs = id_clash (hp s) p chs.
Proof. exact src_has_id_intersection_eq. Qed.

(* ---- wbs[id] from the source text (wbs.py, WBS.__getitem__; gen/SrcGraph.v src_wbs_getitem): the translated lookup is
   the model's [wbs_getitem], so C05_lookup (the one member with that id, Err iff none, never a crash) describes the source ---- *)
From PJ Require Import Graph.SrcGraphEquiv8.

Theorem C05_src_wbs_getitem : forall s w i,
  src_wbs_getitem (S (length (hp s))) (hp s) (wroot s w) i = wbs_getitem s w i.
Proof. exact src_wbs_getitem_eq. Qed.

Print Assumptions C05_unique.
Print Assumptions C05_unique_below.
Print Assumptions C05_unique_wbs.
Print Assumptions C05_reject.
Print Assumptions C05_step_ids.
Print Assumptions C05_reject_set_parent.
Print Assumptions C05_reject_set_children.
Print Assumptions C05_guards_no_crash.
Print Assumptions C05_id_clash_spec.
Print Assumptions C05_lookup.
Print Assumptions C05_tasks.
Print Assumptions C05_reach.
Print Assumptions C05_oracle.
Print Assumptions C05_demo_reachable.
Print Assumptions C05_demo_duplicate_rejected.
Print Assumptions C05_demo_bulk.
Print Assumptions C05_demo_lookup.
Print Assumptions C05_illformed_rejected_by_wf_ids_b.
Print Assumptions C05_src_find_root.
Print Assumptions C05_src_get_children.
Print Assumptions C05_src_all_children.
Print Assumptions C05_src_collect_subtree.
Print Assumptions C05_src_has_id_intersection.
Print Assumptions C05_src_wbs_getitem.
