(* C05 - PLACEHOLDER statement file (C05_unique / C05_reject / C05_lookup / C05_tasks are written by the
   proof task); computed facts about the model only. *)
From PJ Require Import Base.Prelude Graph.Model Graph.Invariant.
Local Open Scope nat_scope.

(* a concrete history: one WBS, three tasks (ids 1, 2, 1), task 2 below task 1 in the WBS, a dependency *)
Definition demo_ops : list op :=
  [NewWbs; NewTask 1%Z None [] None; NewTask 2%Z None [] None; NewTask 1%Z None [] None;
   ChAppend 0 (Some 1); SetParent 2 (Some 1); SetLinks true 3 [Some 2]].
Definition demo : state := run init demo_ops.
(* object 3 has the id of object 1: it is rejected everywhere in the WBS of object 1, with RuntimeError *)
Example C05_demo_duplicate_rejected :
  map (fun o => outcome_code (snd (step demo o)))
      [ChAppend 0 (Some 3); SetParent 3 (Some 2); OpFloordiv 2 [Some 3]; ChInsert 1 0%Z (Some 3)] = [1; 1; 1; 1]
  /\ wf_ids_b demo = true.
Proof. vm_compute. split; reflexivity. Qed.

(* lookup and enumeration on the demo state *)
Example C05_demo_lookup :
  wbs_tasks demo 0 = Ok [1; 2] /\ wbs_getitem demo 0 2%Z = Ok 2 /\ wbs_getitem demo 0 1%Z = Ok 1 /\ wbs_getitem demo 0 7%Z = Err.
Proof. vm_compute. repeat split; reflexivity. Qed.

(* wf_ids_b is not trivially true *)
Example C05_illformed_rejected_by_wf_ids_b :
  wf_ids_b (mkS [mkT 1%Z None [1] [] [] None false None [] None; mkT 1%Z (Some 0) [] [] [] None false None [] None] []) = false.
Proof. vm_compute. reflexivity. Qed.

Print Assumptions C05_demo_duplicate_rejected.
Print Assumptions C05_demo_lookup.
Print Assumptions C05_illformed_rejected_by_wf_ids_b.
