(* C10 - WBS.clone / WBS.subtree return a faithful, independent copy.
   Statement file: every theorem is closed by [exact] of a lemma proved in Graph/CloneProofs.v (faithfulness),
   Graph/CloneWF.v (well-formedness after the call), Graph/CloneIndep.v (independence), Graph/CloneOracle.v
   (oracle), Graph/CloneIds.v (the root-id invariant) and followed by Print Assumptions.  The theorems hold for every well-formed state s (WF: the
   invariant of the task graph, evaluated on every generated case), every WBS w of it and every
   selection of tasks of w (sel_ok, evaluated on every generated case; for clone() the selection
   is the list of root tasks, C10_clone).  Vocabulary (Graph/Clone.v):
     clone_sel s w sel = (s', w')   the state after the call and the new WBS;
     members (hp s) sel = Some mem  the selected roots (first occurrences, tasks with a selected
                                    ancestor dropped) with their descendants in preorder;
     pos_map mem new x              the task of the new WBS at the position x has in mem;
     sp_wbs / sp_bij / sp_fields / sp_tree / sp_links / sp_outside / sp_source: the clauses of
     the declarative statement CloneSpec. *)
From PJ Require Import Base.Prelude Graph.Model Graph.Invariant Graph.Clone Graph.CloneCheck Graph.CloneProofs
                       Graph.CloneWF Graph.CloneIndep Graph.CloneOracle Graph.CloneIds.
From PJ Require Graph.StepProofs.
From PJ Require Import Graph.CloneImpl Graph.CloneImplProofs.
Local Open Scope nat_scope.

(* The tasks of the new WBS (WBS.tasks order) are new objects and correspond position by position
   to the members (bijection, sp_bij); a copy has the id, priority, name/attribute token and estimate
   of its original, reports the new WBS as owner (sp_fields); its children are the copies of the
   children in the same order, its parent is the copy of the parent - the hidden root of the new
   WBS for a selected root - (sp_tree); among the copies there are exactly the dependency links
   that exist among the originals, none repeated (sp_links); the new WBS is one more WBS with a
   fresh, well-formed hidden root (sp_wbs). *)
Theorem C10_faithful : forall s w sel, WF s -> sel_ok s w sel ->
  let s' := fst (clone_sel s w sel) in let w' := snd (clone_sel s w sel) in
  exists mem new,
    members (hp s) sel = Some mem /\ wbs_tasks s' w' = Ok new /\
    sp_wbs s s' w' /\ sp_bij s mem s' w' new /\ sp_fields s mem s' w' new /\
    sp_tree s (sel_roots (hp s) sel) mem s' w' new /\ sp_links s mem s' new.
Proof. exact c10_faithful. Qed.

(* clone(): the selection "all root tasks" is inside the WBS and its members are exactly WBS.tasks *)
Theorem C10_clone : forall s w l, WF s -> w < length (wroots s) -> wbs_tasks s w = Ok l ->
  sel_ok s w (kids (get (hp s) (wroot s w))) /\ members (hp s) (kids (get (hp s) (wroot s w))) = Some l.
Proof. exact clone_is_all. Qed.

(* Every object that existed before keeps all its fields, its parent and its children; its
   dependency lists keep their entries in order and may only GAIN, at the end, tasks of the new WBS
   (outside tasks learn about the copies); every task owned by the source WBS - in particular every
   member and the hidden root - is exactly as before. *)
Theorem C10_source : forall s w sel, WF s -> sel_ok s w sel ->
  let s' := fst (clone_sel s w sel) in let w' := snd (clone_sel s w sel) in
  exists mem new,
    members (hp s) sel = Some mem /\ wbs_tasks s' w' = Ok new /\ sp_source s w s' new /\
    (forall x, In x mem -> get (hp s') x = get (hp s) x) /\
    get (hp s') (wroot s w) = get (hp s) (wroot s w).
Proof. exact c10_source. Qed.

(* The tasks of the new WBS are pairwise distinct objects that did not exist before the call; no
   task of the source WBS is among them; the new WBS is not the source WBS. *)
Theorem C10_disjoint : forall s w sel, WF s -> sel_ok s w sel ->
  let s' := fst (clone_sel s w sel) in let w' := snd (clone_sel s w sel) in
  exists new, wbs_tasks s' w' = Ok new /\ NoDup new /\
    (forall x', In x' new -> length (hp s) <= x' /\ length (hp s) <= wroot s' w' /\ x' <> wroot s' w') /\
    (forall l x, wbs_tasks s w = Ok l -> In x l -> x < length (hp s) /\ ~ In x new) /\
    w' = length (wroots s) /\ w' <> w.
Proof. exact c10_disjoint. Qed.

(* subtree: the members are exactly the selected roots and their descendants, each once, all of them
   tasks of the source WBS; a selected task is a root of the copy iff no proper ancestor is selected;
   a member's parent is a member iff the member is not such a root.  A copy is linked only with
   copies and with tasks outside the source WBS (links to other tasks of the source are dropped);
   every link of a member to a task outside the source WBS is kept, to that very object (sp_outside). *)
Theorem C10_subtree : forall s w sel, WF s -> sel_ok s w sel ->
  let s' := fst (clone_sel s w sel) in let w' := snd (clone_sel s w sel) in
  exists mem new,
    members (hp s) sel = Some mem /\ wbs_tasks s' w' = Ok new /\
    sp_outside s w mem s' new /\
    NoDup mem /\
    (forall x, In x mem <-> exists r, In r (sel_roots (hp s) sel) /\ (x = r \/ Anc (hp s) x r)) /\
    (forall r, In r (sel_roots (hp s) sel) <-> In r sel /\ forall a, Anc (hp s) r a -> ~ In a sel) /\
    NoDup (sel_roots (hp s) sel) /\
    (forall x, In x mem -> x < length (hp s) /\ own (get (hp s) x) = Some w /\ hidden (get (hp s) x) = false) /\
    (forall x p, In x mem -> par (get (hp s) x) = Some p -> (In p mem <-> ~ In x (sel_roots (hp s) sel))).
Proof. exact c10_subtree. Qed.

(* all clauses at once *)
Theorem C10_spec : forall s w sel, WF s -> sel_ok s w sel ->
  let r := clone_sel s w sel in
  exists mem new,
    members (hp s) sel = Some mem /\ wbs_tasks (fst r) (snd r) = Ok new /\
    CloneSpec s w (sel_roots (hp s) sel) mem (fst r) (snd r) new.
Proof. exact clone_sel_spec. Qed.

(* on a well-formed state the walk never runs out of fuel (no RecursionError in the model) *)
Theorem C10_defined : forall s sel, WF s -> clone_defined s sel = true.
Proof. exact clone_defined_wf. Qed.

(* the boolean oracle evaluated on the implementation's snapshots is sound for the statement *)
Theorem C10_oracle_sound : forall s w roots mem s' w' new,
  clone_spec_b s w roots mem s' w' new = true -> CloneSpec s w roots mem s' w' new.
Proof. exact clone_spec_b_sound. Qed.

(* ... and complete: the boolean is true exactly when the statement holds *)
Theorem C10_oracle_meaning : forall s w roots mem s' w' new,
  clone_spec_b s w roots mem s' w' new = true <-> CloneSpec s w roots mem s' w' new.
Proof. exact clone_spec_b_meaning. Qed.

(* ---- the state after the call is well formed again ----
   The statement with WF alone is FALSE of the model: WF (Graph/Invariant.v) does not say that a hidden WBS root
   carries the id EMPTY_ID (sys.maxsize); the new hidden root does, so cloning a WF state whose source root has
   another id and one of whose members has the id EMPTY_ID yields two tasks of one tree with the same id
   (C10_wf_refuted; witness CloneWF.wf_cex).  No state of the implementation is like that: the hidden root is
   created with that id, ids never change, and a task with that id is refused by _has_id_intersection.  With the
   missing clause as the named predicate hid_ids (boolean hid_ids_b) the full invariant is proved, and hid_ids
   is itself preserved by the call. *)
Definition C10_wf_statement : Prop :=
  forall s w sel, WF s -> sel_ok s w sel -> WF (fst (clone_sel s w sel)).

Theorem C10_wf_refuted : ~ C10_wf_statement.
Proof. exact clone_wf_unconditional_refuted. Qed.

Theorem C10_wf : forall s w sel, WF s -> hid_ids s -> sel_ok s w sel ->
  WF (fst (clone_sel s w sel)) /\ hid_ids (fst (clone_sel s w sel)).
Proof. exact clone_sel_WF. Qed.

(* only the id of the SOURCE root is needed *)
Theorem C10_wf_core : forall s w sel, WF s -> sel_ok s w sel ->
  tid (get (hp s) (wroot s w)) = EMPTY_ID -> WF (fst (clone_sel s w sel)).
Proof. exact clone_sel_WF_core. Qed.

(* with WF alone: every conjunct except the uniqueness of ids inside a tree *)
Theorem C10_wf_partial : forall s w sel, WF s -> sel_ok s w sel ->
  let s' := fst (clone_sel s w sel) in
  I_fin s' /\ I_pc s' /\ I_acy s' /\ I_sym s' /\ I_dag s' /\ I_sep s' /\ I_hid s' /\ I_own s'.
Proof. exact clone_sel_WF_but_ids. Qed.

Theorem C10_hid_ids_b : forall s, hid_ids_b s = true <-> hid_ids s.
Proof. exact hid_ids_b_spec. Qed.

(* hid_ids is an invariant of the whole model: no operation writes the id of an existing object, only WBS() extends
   the table of WBS roots (with a root whose id is EMPTY_ID); so it holds, like WF, in every state reached from the
   empty one through public calls, and there clone / subtree needs no hypothesis beyond sel_ok *)
Theorem C10_hid_ids_step : forall s o, I_fin s -> hid_ids s -> hid_ids (fst (step s o)).
Proof. exact step_keeps_hid_ids. Qed.

Theorem C10_hid_ids_reach : forall ops, StepProofs.pub_run init ops -> hid_ids (run init ops).
Proof. exact reach_hid_ids. Qed.

Theorem C10_wf_reach : forall ops w sel,
  StepProofs.pub_run init ops -> sel_ok (run init ops) w sel ->
  WF (fst (clone_sel (run init ops) w sel)) /\ hid_ids (fst (clone_sel (run init ops) w sel)).
Proof. exact clone_wf_reach. Qed.

(* ---- independence ----
   No dependency link joins a task of the source WBS and a task of the new WBS. *)
Theorem C10_no_cross : forall s w sel, WF s -> sel_ok s w sel ->
  let s' := fst (clone_sel s w sel) in let w' := snd (clone_sel s w sel) in
  forall x y, own (get (hp s') x) = Some w -> own (get (hp s') y) = Some w' ->
    ~ In y (preds (get (hp s') x)) /\ ~ In y (succs (get (hp s') x)) /\
    ~ In x (preds (get (hp s') y)) /\ ~ In x (succs (get (hp s') y)).
Proof. exact clone_no_cross. Qed.

(* "Later changes to either side do not show on the other": for EVERY operation kind of the mutation API
   (step: the three setters, the list facades, the operators, the loops, the bulk assignments on task lists, the
   constructor with relations, ... - all 26 kinds),
   accepted or raising, if every object the call names is a task of one side (tasks of that WBS or its hidden
   root as the owner of wbs.roots) - and a WBS named by wbs.remove / remove_all is that side's - then every task of
   the other side keeps ALL its fields (the whole record).  pub_args: the call names objects a Python caller can
   hold (evaluated by the harness on every call).  Tasks outside both WBSs are shared by design and excluded. *)
Theorem C10_indep : forall s w sel o, WF s -> hid_ids s -> sel_ok s w sel ->
  let s1 := fst (clone_sel s w sel) in let w1 := snd (clone_sel s w sel) in
  forall wa wb, (wa = w /\ wb = w1) \/ (wa = w1 /\ wb = w) ->
    incl (named o) (side s1 wa) -> incl (op_wbs o) [wa] -> pub_args s1 o = true ->
    forall y, In y (side s1 wb) -> get (hp (fst (step s1 o))) y = get (hp s1) y.
Proof. exact c10_indep. Qed.

(* the same for any two WBSs of a well-formed state that no dependency link joins *)
Theorem C10_indep_two_wbs : forall s wa wb o,
  WF s -> wa < length (wroots s) -> wb < length (wroots s) -> wa <> wb -> no_cross s wa wb ->
  incl (named o) (side s wa) -> incl (op_wbs o) [wa] -> pub_args s o = true ->
  forall y, In y (side s wb) -> get (hp (fst (step s o))) y = get (hp s) y.
Proof. exact indep_two_wbs. Qed.

(* and for any set B of objects that is a union of whole trees: a call that names only objects outside B which
   are not linked with B leaves B untouched *)
Theorem C10_frame_generic : forall (B : obj -> Prop) s o,
  WF s -> closedB B s -> clear B s o -> pub_args s o = true -> unchangedB B s (fst (step s o)).
Proof. exact frameB_step. Qed.

(* The variant that asks only that the named objects exist (args_ok instead of pub_args: calls no Python caller can
   make, e.g. a hidden root as a dependency end) is not proved; kept in full. *)
Definition C10_indep_anyargs_statement : Prop :=
  forall s w sel o, WF s -> hid_ids s -> sel_ok s w sel ->
    let s1 := fst (clone_sel s w sel) in let w1 := snd (clone_sel s w sel) in
    forall wa wb, (wa = w /\ wb = w1) \/ (wa = w1 /\ wb = w) ->
      incl (named o) (side s1 wa) -> incl (op_wbs o) [wa] -> args_ok s1 o = true ->
      forall y, In y (side s1 wb) -> get (hp (fst (step s1 o))) y = get (hp s1) y.

(* Non-vacuity: a WBS 0 (hidden root 0) with r(id 1) > d(id 2) > e(id 3) and a second root t(id 4);
   an outside task o (object 5, no WBS) carrying the id 1 of the member r precedes d, d precedes t.
   subtree([d, r, d]): the state is well formed, the selection is inside the WBS, r is the only root
   of the copy, t is not copied, the link d -> t is dropped, the link o -> d is shared with the copy
   of d (object 8) and o learns about it; all clauses of the statement hold. *)
Example C10_example :
  let s := mkS [ mkT EMPTY_ID None [1; 4] [] [] (Some 0) true None [] None;
                 mkT 1 (Some 0) [2] [] [] (Some 0) false (Some 3%Z) [1%Z] None;
                 mkT 2 (Some 1) [3] [5] [4] (Some 0) false None [2%Z] (Some 8%Z);
                 mkT 3 (Some 2) [] [] [] (Some 0) false None [3%Z] None;
                 mkT 4 (Some 0) [] [2] [] (Some 0) false None [4%Z] None;
                 mkT 1 None [] [] [2] None false None [5%Z] None ] [0] in
  let sel := [2; 1; 2] in
  wf_b s = true /\ hid_ids_b s = true /\ sel_ok_b s 0 sel = true /\ sel_roots (hp s) sel = [1] /\ members (hp s) sel = Some [1; 2; 3] /\
  clone_sel s 0 sel =
    (mkS [ mkT EMPTY_ID None [1; 4] [] [] (Some 0) true None [] None;
           mkT 1 (Some 0) [2] [] [] (Some 0) false (Some 3%Z) [1%Z] None;
           mkT 2 (Some 1) [3] [5] [4] (Some 0) false None [2%Z] (Some 8%Z);
           mkT 3 (Some 2) [] [] [] (Some 0) false None [3%Z] None;
           mkT 4 (Some 0) [] [2] [] (Some 0) false None [4%Z] None;
           mkT 1 None [] [] [2; 8] None false None [5%Z] None;
           mkT EMPTY_ID None [7] [] [] (Some 1) true None [] None;
           mkT 1 (Some 6) [8] [] [] (Some 1) false (Some 3%Z) [1%Z] None;
           mkT 2 (Some 7) [9] [5] [] (Some 1) false None [2%Z] (Some 8%Z);
           mkT 3 (Some 8) [] [] [] (Some 1) false None [3%Z] None ] [0; 6], 1) /\
  clone_spec_b s 0 [1] [1; 2; 3] (fst (clone_sel s 0 sel)) 1 [7; 8; 9] = true /\
  wf_b (fst (clone_sel s 0 sel)) = true /\ hid_ids_b (fst (clone_sel s 0 sel)) = true /\
  (* independence is not vacuous: e.parent = r on the copy (objects 9 and 7) names tasks of the new WBS only, is a
     public call, is accepted and changes the copy; the same on the source side (objects 3 and 1) *)
  (let s1 := fst (clone_sel s 0 sel) in
   let o1 := SetParent 9 (Some 7) in let o0 := SetParent 3 (Some 1) in
   forallb (fun x => memn x (side s1 1)) (named o1) = true /\ pub_args s1 o1 = true /\ snd (step s1 o1) = OK /\
   kids (get (hp (fst (step s1 o1))) 7) = [8; 9] /\
   forallb (fun x => memn x (side s1 0)) (named o0) = true /\ pub_args s1 o0 = true /\ snd (step s1 o0) = OK).
Proof. vm_compute. repeat split; reflexivity. Qed.

(* ---- the code-mirroring clone (Graph/CloneImpl.v) ----
   clone_sel states the RESULT of the call.  clone_impl performs the call as wbs.py __clone / __clone_tasks does: one
   blank Task.clone() per member, then for every member in preorder the four PUBLIC setters on its copy
   (c.parent = .., c.children = [..], c.predecessors = [..], c.successors = [..], arguments read from the live state
   through the dictionary cloned_tasks), then WBS() and roots = [copies of the roots]; every setter runs all its
   validations on the intermediate state and the first one that rejects ends the call (clone() would raise).

   C10_impl_accepts: on a well-formed state none of the 4 * |members| + 1 setter calls rejects (ownership, id clashes,
   ancestors, links with ancestors, dependency cycles: every guard holds in every intermediate state). *)
Theorem C10_impl_accepts : forall s w sel, WF s -> hid_ids s -> sel_ok s w sel ->
  snd (clone_impl s w sel) = OK.
Proof. exact clone_impl_accepts. Qed.

(* clone(): the selection is the list of root tasks *)
Theorem C10_impl_clone_accepts : forall s w, WF s -> hid_ids s -> w < length (wroots s) ->
  snd (clone_impl_all s w) = OK.
Proof. exact clone_impl_all_accepts. Qed.

(* C10_impl_refines: the state after the sequence of setter calls is the state clone_sel describes.  state_sim n:
   same WBS table, same number of objects, every object that existed before (y < n) and the new hidden root (y = n)
   IDENTICAL - dependency lists in the same order -, every other object (the copies) equal in id, attributes, parent,
   children IN ORDER, owner, hidden flag, and with dependency lists that are permutations of each other. *)
Theorem C10_impl_refines : forall s w sel, WF s -> hid_ids s -> sel_ok s w sel ->
  state_sim (length (hp s)) (fst (clone_impl s w sel)) (fst (clone_sel s w sel)).
Proof. exact clone_impl_refines. Qed.

(* the state the code-mirroring model ends in is well formed (every setter keeps WF) and keeps the root-id clause *)
Theorem C10_impl_wf : forall s w sel, WF s -> hid_ids s -> sel_ok s w sel ->
  WF (fst (clone_impl s w sel)) /\ hid_ids (fst (clone_impl s w sel)).
Proof. exact clone_impl_WF_hid. Qed.

(* and satisfies the declarative statement (CloneSpec compares dependency links as sets, old objects exactly) *)
Theorem C10_impl_spec : forall s w sel, WF s -> hid_ids s -> sel_ok s w sel ->
  let s' := fst (clone_impl s w sel) in let w' := snd (clone_sel s w sel) in
  exists mem new,
    members (hp s) sel = Some mem /\ wbs_tasks s' w' = Ok new /\
    CloneSpec s w (sel_roots (hp s) sel) mem s' w' new.
Proof. exact clone_impl_spec. Qed.

(* clone_impl numbers the new objects as clone_sel does (hidden root first).  The code creates the copies first and
   WBS() last: clone_impl_code allocates in that order.  That the two results are the same graph up to the renumbering
   renum (identity below n, n -> n + |members|, n + 1 + i -> n + i) is not proved in general; it is checked by
   computation on the examples below. *)
Definition C10_impl_code_order_statement : Prop :=
  forall s w sel mem, WF s -> hid_ids s -> sel_ok s w sel -> members (hp s) sel = Some mem ->
    snd (clone_impl_code s w sel) = OK /\
    renum_heap_b ctask_eqb (length (hp s)) (length mem)
      (hp (fst (clone_impl s w sel))) (hp (fst (clone_impl_code s w sel))) = true /\
    wroots (fst (clone_impl_code s w sel)) = wroots s ++ [length (hp s) + length mem].

(* Non-vacuity.  (1) the state of C10_example: every setter call is accepted and the final state IS the state of
   clone_sel (no dependency list is reordered there).  (2) x(id 1), b(id 2), a(id 3) roots in that order,
   x.predecessors = [a, b]: the rebuild re-appends mirror entries, the copy of x ends with predecessors
   [copy b, copy a] = [6; 7] (what the implementation returns: ids [2, 3]) where clone_sel says [7; 6]: equal as sets,
   everything else identical.  Both: same graph as the allocation order of the code, through renum. *)
Example C10_impl_example :
  let s := mkS [ mkT EMPTY_ID None [1; 4] [] [] (Some 0) true None [] None;
                 mkT 1 (Some 0) [2] [] [] (Some 0) false (Some 3%Z) [1%Z] None;
                 mkT 2 (Some 1) [3] [5] [4] (Some 0) false None [2%Z] (Some 8%Z);
                 mkT 3 (Some 2) [] [] [] (Some 0) false None [3%Z] None;
                 mkT 4 (Some 0) [] [2] [] (Some 0) false None [4%Z] None;
                 mkT 1 None [] [] [2] None false None [5%Z] None ] [0] in
  let sel := [2; 1; 2] in
  let s2 := mkS [ mkT EMPTY_ID None [1; 2; 3] [] [] (Some 0) true None [] None;
                  mkT 1 (Some 0) [] [3; 2] [] (Some 0) false None [1%Z] None;
                  mkT 2 (Some 0) [] [] [1] (Some 0) false None [2%Z] None;
                  mkT 3 (Some 0) [] [] [1] (Some 0) false None [3%Z] None ] [0] in
  (wf_b s = true /\ hid_ids_b s = true /\ sel_ok_b s 0 sel = true /\
   snd (clone_impl s 0 sel) = OK /\ fst (clone_impl s 0 sel) = fst (clone_sel s 0 sel) /\
   snd (clone_impl_code s 0 sel) = OK /\
   renum_heap_b ctask_eqb 6 3 (hp (fst (clone_impl s 0 sel))) (hp (fst (clone_impl_code s 0 sel))) = true /\
   wroots (fst (clone_impl_code s 0 sel)) = [0; 9]) /\
  (wf_b s2 = true /\ hid_ids_b s2 = true /\ sel_ok_b s2 0 [1; 2; 3] = true /\
   snd (clone_impl_all s2 0) = OK /\
   fst (clone_impl_all s2 0) =
     mkS [ mkT EMPTY_ID None [1; 2; 3] [] [] (Some 0) true None [] None;
           mkT 1 (Some 0) [] [3; 2] [] (Some 0) false None [1%Z] None;
           mkT 2 (Some 0) [] [] [1] (Some 0) false None [2%Z] None;
           mkT 3 (Some 0) [] [] [1] (Some 0) false None [3%Z] None;
           mkT EMPTY_ID None [5; 6; 7] [] [] (Some 1) true None [] None;
           mkT 1 (Some 4) [] [6; 7] [] (Some 1) false None [1%Z] None;
           mkT 2 (Some 4) [] [] [5] (Some 1) false None [2%Z] None;
           mkT 3 (Some 4) [] [] [5] (Some 1) false None [3%Z] None ] [0; 4] /\
   preds (get (hp (fst (clone s2 0))) 5) = [7; 6] /\
   map (with_preds []) (hp (fst (clone_impl_all s2 0))) = map (with_preds []) (hp (fst (clone s2 0))) /\
   snd (clone_impl_code s2 0 [1; 2; 3]) = OK /\
   renum_heap_b ctask_eqb 4 3 (hp (fst (clone_impl_all s2 0))) (hp (fst (clone_impl_code s2 0 [1; 2; 3]))) = true).
Proof. vm_compute. repeat split; reflexivity. Qed.

Print Assumptions C10_faithful.
Print Assumptions C10_clone.
Print Assumptions C10_source.
Print Assumptions C10_disjoint.
Print Assumptions C10_subtree.
Print Assumptions C10_spec.
Print Assumptions C10_defined.
Print Assumptions C10_oracle_sound.
Print Assumptions C10_oracle_meaning.
Print Assumptions C10_wf_refuted.
Print Assumptions C10_wf.
Print Assumptions C10_wf_core.
Print Assumptions C10_wf_partial.
Print Assumptions C10_hid_ids_b.
Print Assumptions C10_hid_ids_step.
Print Assumptions C10_hid_ids_reach.
Print Assumptions C10_wf_reach.
Print Assumptions C10_no_cross.
Print Assumptions C10_indep.
Print Assumptions C10_indep_two_wbs.
Print Assumptions C10_frame_generic.
Print Assumptions C10_example.
Print Assumptions C10_impl_accepts.
Print Assumptions C10_impl_clone_accepts.
Print Assumptions C10_impl_refines.
Print Assumptions C10_impl_wf.
Print Assumptions C10_impl_spec.
Print Assumptions C10_impl_example.
