(* C10 - WBS.clone / WBS.subtree return a faithful, independent copy.
   Statement file: every theorem is closed by [exact] of a lemma proved in Graph/CloneProofs.v and
   followed by Print Assumptions.  The theorems hold for every well-formed state s (WF: the
   invariant of the task graph, evaluated on every generated case), every WBS w of it and every
   selection of tasks of w (sel_ok, evaluated on every generated case; for clone() the selection
   is the list of root tasks, C10_clone).  Vocabulary (Graph/Clone.v):
     clone_sel s w sel = (s', w')   the state after the call and the new WBS;
     members (hp s) sel = Some mem  the selected roots (first occurrences, tasks with a selected
                                    ancestor dropped) with their descendants in preorder;
     pos_map mem new x              the task of the new WBS at the position x has in mem;
     sp_wbs / sp_bij / sp_fields / sp_tree / sp_links / sp_outside / sp_source: the clauses of
     the declarative statement CloneSpec. *)
From PJ Require Import Base.Prelude Graph.Model Graph.Invariant Graph.Clone Graph.CloneCheck Graph.CloneProofs.
Local Open Scope nat_scope.

(* The tasks of the new WBS (WBS.tasks order) are new objects and correspond position by position
   to the members (bijection, sp_bij); a copy has the id, priority, name/attribute token and estimate
   of its original, reports the new WBS as owner (sp_fields); its children are the copies of the
   children in the same order, its parent is the copy of the parent - the hidden root of the new
   WBS for a selected root - (sp_tree); among the copies there are exactly the dependency links
   that exist among the originals, none repeated (sp_links); the new WBS is one more WBS with a
   fresh, well-formed hidden root (sp_wbs). *)
Theorem C10_faithful : forall s w sel, WF s -> sel_ok s w sel ->
  let s' := fst (clone_sel s w sel) in let w' := snd (clone_sel s w sel) in
  exists mem new,
    members (hp s) sel = Some mem /\ wbs_tasks s' w' = Ok new /\
    sp_wbs s s' w' /\ sp_bij s mem s' w' new /\ sp_fields s mem s' w' new /\
    sp_tree s (sel_roots (hp s) sel) mem s' w' new /\ sp_links s mem s' new.
Proof. exact c10_faithful. Qed.

(* clone(): the selection "all root tasks" is inside the WBS and its members are exactly WBS.tasks *)
Theorem C10_clone : forall s w l, WF s -> w < length (wroots s) -> wbs_tasks s w = Ok l ->
  sel_ok s w (kids (get (hp s) (wroot s w))) /\ members (hp s) (kids (get (hp s) (wroot s w))) = Some l.
Proof. exact clone_is_all. Qed.

(* Every object that existed before keeps all its fields, its parent and its children; its
   dependency lists keep their entries in order and may only GAIN, at the end, tasks of the new WBS
   (outside tasks learn about the copies); every task owned by the source WBS - in particular every
   member and the hidden root - is exactly as before. *)
Theorem C10_source : forall s w sel, WF s -> sel_ok s w sel ->
  let s' := fst (clone_sel s w sel) in let w' := snd (clone_sel s w sel) in
  exists mem new,
    members (hp s) sel = Some mem /\ wbs_tasks s' w' = Ok new /\ sp_source s w s' new /\
    (forall x, In x mem -> get (hp s') x = get (hp s) x) /\
    get (hp s') (wroot s w) = get (hp s) (wroot s w).
Proof. exact c10_source. Qed.

(* The tasks of the new WBS are pairwise distinct objects that did not exist before the call; no
   task of the source WBS is among them; the new WBS is not the source WBS. *)
Theorem C10_disjoint : forall s w sel, WF s -> sel_ok s w sel ->
  let s' := fst (clone_sel s w sel) in let w' := snd (clone_sel s w sel) in
  exists new, wbs_tasks s' w' = Ok new /\ NoDup new /\
    (forall x', In x' new -> length (hp s) <= x' /\ length (hp s) <= wroot s' w' /\ x' <> wroot s' w') /\
    (forall l x, wbs_tasks s w = Ok l -> In x l -> x < length (hp s) /\ ~ In x new) /\
    w' = length (wroots s) /\ w' <> w.
Proof. exact c10_disjoint. Qed.

(* subtree: the members are exactly the selected roots and their descendants, each once, all of them
   tasks of the source WBS; a selected task is a root of the copy iff no proper ancestor is selected;
   a member's parent is a member iff the member is not such a root.  A copy is linked only with
   copies and with tasks outside the source WBS (links to other tasks of the source are dropped);
   every link of a member to a task outside the source WBS is kept, to that very object (sp_outside). *)
Theorem C10_subtree : forall s w sel, WF s -> sel_ok s w sel ->
  let s' := fst (clone_sel s w sel) in let w' := snd (clone_sel s w sel) in
  exists mem new,
    members (hp s) sel = Some mem /\ wbs_tasks s' w' = Ok new /\
    sp_outside s w mem s' new /\
    NoDup mem /\
    (forall x, In x mem <-> exists r, In r (sel_roots (hp s) sel) /\ (x = r \/ Anc (hp s) x r)) /\
    (forall r, In r (sel_roots (hp s) sel) <-> In r sel /\ forall a, Anc (hp s) r a -> ~ In a sel) /\
    NoDup (sel_roots (hp s) sel) /\
    (forall x, In x mem -> x < length (hp s) /\ own (get (hp s) x) = Some w /\ hidden (get (hp s) x) = false) /\
    (forall x p, In x mem -> par (get (hp s) x) = Some p -> (In p mem <-> ~ In x (sel_roots (hp s) sel))).
Proof. exact c10_subtree. Qed.

(* all clauses at once *)
Theorem C10_spec : forall s w sel, WF s -> sel_ok s w sel ->
  let r := clone_sel s w sel in
  exists mem new,
    members (hp s) sel = Some mem /\ wbs_tasks (fst r) (snd r) = Ok new /\
    CloneSpec s w (sel_roots (hp s) sel) mem (fst r) (snd r) new.
Proof. exact clone_sel_spec. Qed.

(* on a well-formed state the walk never runs out of fuel (no RecursionError in the model) *)
Theorem C10_defined : forall s sel, WF s -> clone_defined s sel = true.
Proof. exact clone_defined_wf. Qed.

(* the boolean oracle evaluated on the implementation's snapshots is sound for the statement *)
Theorem C10_oracle_sound : forall s w roots mem s' w' new,
  clone_spec_b s w roots mem s' w' new = true -> CloneSpec s w roots mem s' w' new.
Proof. exact clone_spec_b_sound. Qed.

(* Open statements (kept in full; decided on every run by the differential check, not proved):
   the result is well formed again; a later operation whose named objects all lie on one side
   changes no object of the other side. *)
Definition C10_wf_statement : Prop :=
  forall s w sel, WF s -> sel_ok s w sel -> WF (fst (clone_sel s w sel)).

Definition C10_indep_statement : Prop :=
  forall s w sel o, WF s -> sel_ok s w sel ->
    let s1 := fst (clone_sel s w sel) in let w1 := snd (clone_sel s w sel) in
    forall wa wb, (wa = w /\ wb = w1) \/ (wa = w1 /\ wb = w) ->
      incl (named o) (side s1 wa) -> incl (op_wbs o) [wa] -> args_ok s1 o = true ->
      forall y, In y (side s1 wb) -> get (hp (fst (step s1 o))) y = get (hp s1) y.

(* Non-vacuity: a WBS 0 (hidden root 0) with r(id 1) > d(id 2) > e(id 3) and a second root t(id 4);
   an outside task o (object 5, no WBS) carrying the id 1 of the member r precedes d, d precedes t.
   subtree([d, r, d]): the state is well formed, the selection is inside the WBS, r is the only root
   of the copy, t is not copied, the link d -> t is dropped, the link o -> d is shared with the copy
   of d (object 8) and o learns about it; all clauses of the statement hold. *)
Example C10_example :
  let s := mkS [ mkT EMPTY_ID None [1; 4] [] [] (Some 0) true None [] None;
                 mkT 1 (Some 0) [2] [] [] (Some 0) false (Some 3%Z) [1%Z] None;
                 mkT 2 (Some 1) [3] [5] [4] (Some 0) false None [2%Z] (Some 8%Z);
                 mkT 3 (Some 2) [] [] [] (Some 0) false None [3%Z] None;
                 mkT 4 (Some 0) [] [2] [] (Some 0) false None [4%Z] None;
                 mkT 1 None [] [] [2] None false None [5%Z] None ] [0] in
  let sel := [2; 1; 2] in
  wf_b s = true /\ sel_ok_b s 0 sel = true /\ sel_roots (hp s) sel = [1] /\ members (hp s) sel = Some [1; 2; 3] /\
  clone_sel s 0 sel =
    (mkS [ mkT EMPTY_ID None [1; 4] [] [] (Some 0) true None [] None;
           mkT 1 (Some 0) [2] [] [] (Some 0) false (Some 3%Z) [1%Z] None;
           mkT 2 (Some 1) [3] [5] [4] (Some 0) false None [2%Z] (Some 8%Z);
           mkT 3 (Some 2) [] [] [] (Some 0) false None [3%Z] None;
           mkT 4 (Some 0) [] [2] [] (Some 0) false None [4%Z] None;
           mkT 1 None [] [] [2; 8] None false None [5%Z] None;
           mkT EMPTY_ID None [7] [] [] (Some 1) true None [] None;
           mkT 1 (Some 6) [8] [] [] (Some 1) false (Some 3%Z) [1%Z] None;
           mkT 2 (Some 7) [9] [5] [] (Some 1) false None [2%Z] (Some 8%Z);
           mkT 3 (Some 8) [] [] [] (Some 1) false None [3%Z] None ] [0; 6], 1) /\
  clone_spec_b s 0 [1] [1; 2; 3] (fst (clone_sel s 0 sel)) 1 [7; 8; 9] = true /\
  wf_b (fst (clone_sel s 0 sel)) = true.
Proof. vm_compute. repeat split; reflexivity. Qed.

Print Assumptions C10_faithful.
Print Assumptions C10_clone.
Print Assumptions C10_source.
Print Assumptions C10_disjoint.
Print Assumptions C10_subtree.
Print Assumptions C10_spec.
Print Assumptions C10_defined.
Print Assumptions C10_oracle_sound.
Print Assumptions C10_example.
