(* C18 - Task queries select exactly the matching tasks; bulk operations touch only those.
   Statement file: every theorem is closed by [exact] of a lemma proved in Query/QueryProofs.v and
   followed by Print Assumptions.  The theorems hold for every list of tasks, every attribute
   population (present, None, absent), every combination of filters, every function standing for
   re.search and - where it matters - every attribute lookup. *)
From PJ Require Import Base.Prelude Query.Query Query.QueryProofs Query.QueryConj gen.Consts.
From Coq Require Import Permutation.
From Coq Require Import NArith.
Open Scope Z_scope.

Section C18.
Variable re_search : text -> text -> bool.       (* Python's re.search(pattern, string) is not None *)
Variable ga : task -> text -> value.             (* the attribute lookup (get_attr for the code) *)
Notation holds := (holds re_search ga).
Notation query := (query re_search ga).
Notation sat := (sat re_search ga).

(* ---- selection ---- *)
(* a call that returns, returns exactly the tasks of the list for which the callable key (if any)
   and every keyword filter hold, in list order; lists and tasks are values, nothing changes *)
Theorem C18_select : forall k fs l r, query k fs l = Ok r -> r = filter (sat k fs) l.
Proof. exact (query_select re_search ga). Qed.

(* and it returns whenever the key is callable (or absent) and no filter compares unrelated types *)
Theorem C18_select_total : forall k fs l,
  k <> KeyBad -> (forall t f, In t l -> In f fs -> exists b, holds t f = Ok b) ->
  query k fs l = Ok (filter (sat k fs) l).
Proof. exact (query_total re_search ga). Qed.

Theorem C18_members : forall k fs l r t, query k fs l = Ok r -> (In t r <-> In t l /\ sat k fs t = true).
Proof. exact (query_members re_search ga). Qed.

(* the only exceptions: RuntimeError for a key that is not callable, TypeError from a filter *)
Theorem C18_raises : forall k fs l,
  (query k fs l = Err <-> k = KeyBad) /\
  (forall c, query k fs l = Crash c ->
     c = TypeError /\ exists t f, In t l /\ In f fs /\ holds t f = Crash TypeError).
Proof. exact (query_raises re_search ga). Qed.

(* the keywords of one call are independent tests joined by "and": a task is selected iff the key accepts it and every
   keyword, taken alone, holds for it - two keywords on the same attribute (a range x_ge_ .. x_le_, a pattern with an
   exception name_like_ .. name_not_like_) included; a call with the keywords fs ++ gs returns what the call with gs
   selects among what the call with fs selects; the order in which the keywords are written does not matter *)
Theorem C18_each_keyword : forall k fs t,
  sat k fs t = true <-> key_ok k t = true /\ forall f, In f fs -> holds t f = Ok true.
Proof. exact (sat_each re_search ga). Qed.

Theorem C18_keywords_intersect : forall k fs gs l r, query k (fs ++ gs) l = Ok r ->
  r = filter (sat k gs) (filter (sat k fs) l).
Proof. exact (query_app re_search ga). Qed.

Theorem C18_keyword_order : forall k fs gs l r r', Permutation fs gs ->
  query k fs l = Ok r -> query k gs l = Ok r' -> r = r'.
Proof. exact (query_perm re_search ga). Qed.

Theorem C18_callable : forall p l, query (KeyFun p) [] l = Ok (filter p l).
Proof. exact (query_callable re_search ga). Qed.

(* ---- the twelve forms ---- *)
Theorem C18_suffix : forall b s kd,
  In (s, kd) suffix_table -> (kd = KIn \/ kd = KLike -> ends_with b s_not = false) -> parse (b ++ s) = (b, kd).
Proof. exact parse_suffix. Qed.

Theorem C18_suffix_plain : forall k,
  (forall s kd, In (s, kd) suffix_table -> ends_with k s = false) -> parse k = (k, KEq).
Proof. exact parse_plain. Qed.

Theorem C18_suffix_sound : forall k b kd,
  parse k = (b, kd) ->
  (kd = KEq /\ b = k /\ forall s kd', In (s, kd') suffix_table -> ends_with k s = false)
  \/ (exists s, In (s, kd) suffix_table /\ k = b ++ s).
Proof. exact parse_sound. Qed.

Theorem C18_suffix_one_to_one : NoDup (map snd suffix_table) /\ NoDup (map fst suffix_table).
Proof. exact suffix_kinds_distinct. Qed.

(* the model's suffix chain and special attribute names are those of the source (re-extracted on every run) *)
Theorem C18_source_tables :
  map (fun e => (fst e, length (fst e))) suffix_table = query_suffix_chain /\
  query_special_attrs = [s_parent_id; s_id; s_estimate; s_spent].
Proof. exact (conj suffix_table_is_the_source_chain special_attrs_are_the_source_ones). Qed.

Theorem C18_means_eq : forall t k v base, parse k = (base, KEq) -> holds t (k, AVal v) = Ok (py_eq (ga t base) v).
Proof. exact (means_eq re_search ga). Qed.

Theorem C18_means_in : forall t k vs base, parse k = (base, KIn) ->
  holds t (k, AList vs) = Ok (existsb (py_eq (ga t base)) vs).
Proof. exact (means_in re_search ga). Qed.

Theorem C18_means_not_in : forall t k vs base, parse k = (base, KNotIn) ->
  holds t (k, AList vs) = Ok (negb (existsb (py_eq (ga t base)) vs)).
Proof. exact (means_not_in re_search ga). Qed.

Theorem C18_means_is_none : forall t k a base, parse k = (base, KIsNone) -> holds t (k, a) = Ok (is_none (ga t base)).
Proof. exact (means_is_none re_search ga). Qed.

Theorem C18_means_is_not_none : forall t k a base, parse k = (base, KIsNotNone) ->
  holds t (k, a) = Ok (negb (is_none (ga t base))).
Proof. exact (means_is_not_none re_search ga). Qed.

Theorem C18_means_ne : forall t k v base, parse k = (base, KNe) ->
  holds t (k, AVal v) = Ok (negb (is_none (ga t base)) && negb (py_eq (ga t base) v)).
Proof. exact (means_ne re_search ga). Qed.

Theorem C18_means_order : forall t k v base kd c,
  parse k = (base, kd) -> kd = KLt \/ kd = KLe \/ kd = KGt \/ kd = KGe ->
  ga t base <> VNone -> py_cmp (ga t base) v = Some c ->
  holds t (k, AVal v) = Ok (test_of kd c).
Proof. exact (means_order re_search ga). Qed.

Theorem C18_means_like : forall t k p s base, parse k = (base, KLike) -> ga t base = VStr s ->
  holds t (k, AVal (VStr p)) = Ok (re_search p s).
Proof. exact (means_like re_search ga). Qed.

Theorem C18_means_not_like : forall t k p s base, parse k = (base, KNotLike) -> ga t base = VStr s ->
  holds t (k, AVal (VStr p)) = Ok (negb (re_search p s)).
Proof. exact (means_not_like re_search ga). Qed.

(* a task whose attribute is None or missing passes no comparison and no pattern filter *)
Theorem C18_absent : forall t k a base kd,
  parse k = (base, kd) -> compares kd = true -> ga t base = VNone -> holds t (k, a) = Ok false.
Proof. exact (absent_never_satisfies re_search ga). Qed.

(* ---- remove_all ---- *)
Theorem C18_remove_all : forall k fs f f' ret,
  NoDup (fobjs f) ->
  wbs_remove_all re_search k fs f = Ok (f', ret) ->
  ret = filter (QueryProofs.sat re_search get_attr k fs) (flat_forest None f) /\
  f' = flat_map (prune (QueryProofs.sat re_search get_attr k fs) None) f.
Proof. exact (wbs_remove_all_exact re_search). Qed.

Theorem C18_remove_all_list : forall k fs par ch ch' ret,
  NoDup (map (fun c => d_obj (root_data c)) ch) ->
  list_remove_all re_search k fs par ch = Ok (ch', ret) ->
  ret = filter (QueryProofs.sat re_search get_attr k fs) (level par ch) /\
  ch' = filter (fun c => negb (QueryProofs.sat re_search get_attr k fs (mk_task par (root_data c)))) ch.
Proof. exact (list_remove_all_exact re_search). Qed.

Theorem C18_remove_all_raises : forall k fs f,
  (forall r, wbs_remove_all re_search k fs f <> Ok r) <->
  (forall sel, Query.query re_search get_attr k fs (flat_forest None f) <> Ok sel).
Proof. exact (wbs_remove_all_raises re_search). Qed.

End C18.

(* what the code's lookup shows to the filters *)
Theorem C18_lacking : forall t k,
  k <> s_parent_id -> k <> s_id -> assoc k (t_attrs t) = None -> get_attr t k = VNone.
Proof. exact lacking_is_none. Qed.

Theorem C18_visible : forall t k v,
  k <> s_parent_id -> k <> s_id -> assoc k (t_attrs t) = Some v -> get_attr t k = v.
Proof. exact present_is_seen. Qed.

(* pruning, in words *)
Theorem C18_prune_match : forall m par d ch, m (mk_task par d) = true -> prune m par (Node d ch) = [].
Proof. exact prune_root. Qed.

Theorem C18_prune_none : forall m par t, (forall x, In x (flat par t) -> m x = false) -> prune m par t = [t].
Proof. exact prune_none. Qed.

(* ---- bulk assignment ---- *)
Theorem C18_bulk : forall k v sel st st',
  own_name k = false -> assign k v sel st = Ok st' ->
  st' = map (fun t => if in_sel sel t then set_attr k v t else t) st.
Proof. exact assign_exact. Qed.

Theorem C18_bulk_attr : forall k v t,
  t_obj (set_attr k v t) = t_obj t /\ t_id (set_attr k v t) = t_id t /\ t_parent (set_attr k v t) = t_parent t /\
  forall k', assoc k' (t_attrs (set_attr k v t)) = if text_eqb k' k then Some v else assoc k' (t_attrs t).
Proof. exact set_attr_exact. Qed.

Theorem C18_bulk_own : forall k v sel st, own_name k = true -> assign k v sel st = Ok st.
Proof. exact assign_own. Qed.

Theorem C18_bulk_accepts : forall k v sel st, check_set k v = Ok tt -> exists st', assign k v sel st = Ok st'.
Proof. exact assign_accepts. Qed.

(* the instance of re.search used in the correspondence run is substring search *)
Theorem C18_substring : forall p s, substr p s = true <-> exists a b, s = a ++ p ++ b.
Proof. exact substr_spec. Qed.

(* ---- the unrepaired code violated the statement (both witnesses are in the harness corpus) ---- *)
Theorem C18_refuted_lookup :
  exists re l fs r, Query.query re get_attr_old KeyNone fs l = Ok r /\ r <> filter (QueryProofs.sat re get_attr KeyNone fs) l.
Proof. exact old_lookup_refuted. Qed.

Theorem C18_refuted_callable :
  exists re l k fs r, query_old re get_attr k fs l = Ok r /\ r <> filter (QueryProofs.sat re get_attr k fs) l.
Proof. exact old_callable_refuted. Qed.

(* ---- non-vacuity: a WBS with a match nested under a match, all hypotheses met ---- *)
Definition ex_name : text := [110; 97; 109; 101]%N.
Definition ex_node (o : nat) (i : Z) (n : N) (est : value) (ch : forest) : tree :=
  Node {| d_obj := o; d_id := VInt i; d_attrs := [(ex_name, VStr [n]); (s_estimate, est)] |} ch.
Definition ex_wbs : forest :=
  [ ex_node 0 1 109 (VInt 8) [ex_node 1 2 109 VNone []; ex_node 2 3 107 (VNum 5 1) [ex_node 3 5 109 (VInt 1) []]]
  ; ex_node 4 4 109 VNone []
  ; ex_node 5 6 122 (VNum 5 1) [] ]%N.

Example C18_example :
  NoDup (fobjs ex_wbs) /\
  (* name='m' and estimate_ge_=1: tasks 1 and 5 (2 and 4 have no estimate) *)
  option_map (map t_id) (match Query.query substr get_attr KeyNone
                                 [(ex_name, AVal (VStr [109]%N)); (s_estimate ++ [95; 103; 101; 95]%N, AVal (VInt 1))]
                                 (flat_forest None ex_wbs) with Ok r => Some r | _ => None end)
    = Some [VInt 1; VInt 5] /\
  (* estimate=2.5 (a float) with a callable key *)
  option_map (map t_id) (match Query.query substr get_attr (KeyFun (fun t => negb (is_none (get_attr t s_parent_id))))
                                 [(s_estimate, AVal (VNum 5 1))] (flat_forest None ex_wbs) with Ok r => Some r | _ => None end)
    = Some [VInt 3] /\
  (* remove_all(name='m'): 1 leaves with 2, 3, 5; 4 leaves; 6 stays; 1, 2, 5, 4 are returned *)
  option_map (fun r => (map t_id (flat_forest None (fst r)), map t_id (snd r)))
             (match wbs_remove_all substr KeyNone [(ex_name, AVal (VStr [109]%N))] ex_wbs with Ok r => Some r | _ => None end)
    = Some ([VInt 6], [VInt 1; VInt 2; VInt 5; VInt 4]) /\
  (* a string compared with a number: TypeError *)
  Query.query substr get_attr KeyNone [(ex_name ++ [95; 108; 116; 95]%N, AVal (VInt 3))] (flat_forest None ex_wbs)
    = Crash TypeError.
Proof.
  split; [repeat constructor; simpl; intuition discriminate |]. vm_compute. repeat split.
Qed.

Print Assumptions C18_select.
Print Assumptions C18_select_total.
Print Assumptions C18_members.
Print Assumptions C18_raises.
Print Assumptions C18_each_keyword.
Print Assumptions C18_keywords_intersect.
Print Assumptions C18_keyword_order.
Print Assumptions C18_callable.
Print Assumptions C18_suffix.
Print Assumptions C18_suffix_plain.
Print Assumptions C18_suffix_sound.
Print Assumptions C18_suffix_one_to_one.
Print Assumptions C18_source_tables.
Print Assumptions C18_means_eq.
Print Assumptions C18_means_in.
Print Assumptions C18_means_not_in.
Print Assumptions C18_means_is_none.
Print Assumptions C18_means_is_not_none.
Print Assumptions C18_means_ne.
Print Assumptions C18_means_order.
Print Assumptions C18_means_like.
Print Assumptions C18_means_not_like.
Print Assumptions C18_absent.
Print Assumptions C18_remove_all.
Print Assumptions C18_remove_all_list.
Print Assumptions C18_remove_all_raises.
Print Assumptions C18_lacking.
Print Assumptions C18_visible.
Print Assumptions C18_prune_match.
Print Assumptions C18_prune_none.
Print Assumptions C18_bulk.
Print Assumptions C18_bulk_attr.
Print Assumptions C18_bulk_own.
Print Assumptions C18_bulk_accepts.
Print Assumptions C18_substring.
Print Assumptions C18_refuted_lookup.
Print Assumptions C18_refuted_callable.
Print Assumptions C18_example.
