(* C12 - proofs about the critical-path model: the recursive equations of ef / tail, their meaning
   as longest dependency chains, the project length, non-emptiness of the critical set. *)
From PJ Require Import Base.Prelude Crit.CritPath.
Open Scope Z_scope.

(* ---------------------------------------------------------------------------------------- *)
(* maxl                                                                                       *)

Lemma maxl_nonneg l : 0 <= maxl l.
Proof. induction l as [|x l IH]; simpl; lia. Qed.

Lemma maxl_ge l x : In x l -> x <= maxl l.
Proof.
  induction l as [|y l IH]; simpl; intros Hin; [easy|].
  destruct Hin as [->|Hin]; [lia|]. specialize (IH Hin). lia.
Qed.

Lemma maxl_cases l : maxl l = 0 \/ In (maxl l) l.
Proof.
  induction l as [|y l IH]; simpl; [now left|].
  destruct (Z.max_spec y (maxl l)) as [[Hlt ->]|[Hle ->]].
  - destruct IH as [IH|IH]; [left; exact IH | right; right; exact IH].
  - right; left; reflexivity.
Qed.

Lemma maxl_le l m : 0 <= m -> (forall x, In x l -> x <= m) -> maxl l <= m.
Proof.
  intros Hm Hall. destruct (maxl_cases l) as [E|E]; [lia|]. apply Hall, E.
Qed.

Lemma maxl_map_ext {A} (f g : A -> Z) l :
  (forall x, In x l -> f x = g x) -> maxl (map f l) = maxl (map g l).
Proof. intros H. f_equal. apply map_ext_in, H. Qed.

Lemma maxl_map_ge {A} (f : A -> Z) l a : In a l -> f a <= maxl (map f l).
Proof. intros H. apply maxl_ge, in_map, H. Qed.

Lemma maxl_map_cases {A} (f : A -> Z) l :
  maxl (map f l) = 0 \/ exists a, In a l /\ f a = maxl (map f l).
Proof.
  destruct (maxl_cases (map f l)) as [E|E]; [now left|].
  right. apply in_map_iff in E as [a [E1 E2]]. now exists a.
Qed.

(* ---------------------------------------------------------------------------------------- *)
(* nodes of a dag                                                                             *)

Lemma preds_lt_length w i p : In p (preds w i) -> (i < length w)%nat.
Proof.
  unfold preds. destruct (nth_error w i) as [[d ps]|] eqn:E; [|easy].
  intros _. apply nth_error_Some. congruence.
Qed.

Lemma wf_b_spec w : wf_b w = true <-> wf w.
Proof.
  unfold wf_b, wf. rewrite forallb_forall. split.
  - intros H i. destruct (Nat.lt_ge_cases i (length w)) as [Hi|Hi].
    + specialize (H i). rewrite in_seq in H. specialize (H ltac:(lia)).
      apply andb_true_iff in H as [H1 H2]. split; [lia|].
      intros p Hp. rewrite forallb_forall in H2. apply Nat.ltb_lt, H2, Hp.
    + apply nth_error_None in Hi. unfold dur, preds. rewrite Hi. split; [lia|easy].
  - intros H i _. destruct (H i) as [H1 H2]. apply andb_true_iff; split; [lia|].
    apply forallb_forall. intros p Hp. apply Nat.ltb_lt, H2, Hp.
Qed.

Lemma succs_spec w i s : In s (succs w i) <-> (s < length w)%nat /\ In i (preds w s).
Proof.
  unfold succs. rewrite filter_In, in_seq, existsb_exists. split.
  - intros [H1 [x [H2 H3]]]. apply Nat.eqb_eq in H3. subst x. split; [lia|exact H2].
  - intros [H1 H2]. split; [lia|]. exists i. split; [exact H2|apply Nat.eqb_refl].
Qed.

Lemma succs_gt w i s : wf w -> In s (succs w i) -> (i < s < length w)%nat.
Proof.
  intros Hwf Hs. apply succs_spec in Hs as [H1 H2]. destruct (Hwf s) as [_ H]. specialize (H i H2). lia.
Qed.

(* ---------------------------------------------------------------------------------------- *)
(* earliest finish                                                                            *)

Lemma ef_fuel_stable w : wf w ->
  forall f i, (i < f)%nat -> forall f', (i < f')%nat -> ef_fuel f w i = ef_fuel f' w i.
Proof.
  intros Hwf f. induction f as [|f IH]; intros i Hi f' Hi'; [lia|].
  destruct f' as [|f']; [lia|]. simpl. f_equal. apply maxl_map_ext.
  intros p Hp. destruct (Hwf i) as [_ H]. specialize (H p Hp). apply IH; lia.
Qed.

Lemma ef_eq w i : wf w -> ef w i = dur w i + maxl (map (ef w) (preds w i)).
Proof.
  intros Hwf. unfold ef at 1. cbn [ef_fuel]. f_equal. apply maxl_map_ext.
  intros p Hp. destruct (Hwf i) as [_ H]. specialize (H p Hp).
  unfold ef. apply ef_fuel_stable; [exact Hwf|lia|lia].
Qed.

Lemma ef_ge_dur w i : wf w -> dur w i <= ef w i.
Proof. intros Hwf. rewrite ef_eq by exact Hwf. pose proof (maxl_nonneg (map (ef w) (preds w i))). lia. Qed.

Lemma ef_nonneg w i : wf w -> 0 <= ef w i.
Proof. intros Hwf. pose proof (ef_ge_dur w i Hwf) as Hd. destruct (Hwf i) as [H0 _]. lia. Qed.

Lemma ef_pred_le w i p : wf w -> In p (preds w i) -> ef w p + dur w i <= ef w i.
Proof.
  intros Hwf Hp. rewrite (ef_eq w i) by exact Hwf.
  pose proof (maxl_map_ge (ef w) (preds w i) p Hp). lia.
Qed.

(* ---------------------------------------------------------------------------------------- *)
(* longest remaining tail                                                                     *)

Lemma tail_fuel_stable w : wf w ->
  forall f i, (i < length w)%nat -> (length w <= f + i)%nat ->
  forall f', (length w <= f' + i)%nat -> tail_fuel f w i = tail_fuel f' w i.
Proof.
  intros Hwf f. induction f as [|f IH]; intros i Hi Hf f' Hf'; [lia|].
  destruct f' as [|f']; [lia|]. simpl. f_equal. apply maxl_map_ext.
  intros s Hs. apply (succs_gt w i s Hwf) in Hs. apply IH; lia.
Qed.

Lemma tail_eq w i : wf w -> (i < length w)%nat ->
  tail w i = dur w i + maxl (map (tail w) (succs w i)).
Proof.
  intros Hwf Hi. unfold tail at 1.
  destruct (length w - i)%nat as [|k] eqn:E; [lia|]. cbn [tail_fuel]. f_equal. apply maxl_map_ext.
  intros s Hs. apply (succs_gt w i s Hwf) in Hs. unfold tail. apply tail_fuel_stable; [exact Hwf|lia..].
Qed.

Lemma tail_ge_dur w i : wf w -> (i < length w)%nat -> dur w i <= tail w i.
Proof.
  intros Hwf Hi. rewrite tail_eq by assumption. pose proof (maxl_nonneg (map (tail w) (succs w i))). lia.
Qed.

Lemma tail_nonneg w i : wf w -> (i < length w)%nat -> 0 <= tail w i.
Proof. intros Hwf Hi. pose proof (tail_ge_dur w i Hwf Hi) as Hd. destruct (Hwf i) as [H0 _]. lia. Qed.

Lemma tail_succ_le w i s : wf w -> In s (succs w i) -> dur w i + tail w s <= tail w i.
Proof.
  intros Hwf Hs. pose proof (succs_gt w i s Hwf Hs) as Hlt.
  rewrite (tail_eq w i) by (try assumption; lia).
  pose proof (maxl_map_ge (tail w) (succs w i) s Hs). lia.
Qed.

(* ---------------------------------------------------------------------------------------- *)
(* ef and tail are the lengths of the longest chains                                          *)

Lemma chain_to_le w : wf w -> forall i len, chain_to w i len -> len <= ef w i.
Proof.
  intros Hwf i len H. induction H as [i Hi|p i len Hi Hp Hc IH].
  - apply ef_ge_dur, Hwf.
  - pose proof (ef_pred_le w i p Hwf Hp). lia.
Qed.

Lemma chain_to_attained w : wf w -> forall i, (i < length w)%nat -> chain_to w i (ef w i).
Proof.
  intros Hwf i. induction i as [i IH] using (well_founded_induction lt_wf). intros Hi.
  rewrite ef_eq by exact Hwf.
  destruct (maxl_map_cases (ef w) (preds w i)) as [E|[p [Hp E]]].
  - rewrite E, Z.add_0_r. apply chain_to_one, Hi.
  - rewrite <- E, Z.add_comm. destruct (Hwf i) as [_ Hlt]. specialize (Hlt p Hp).
    apply chain_to_step with (p := p); [exact Hi|exact Hp|]. apply IH; lia.
Qed.

Lemma chain_from_le w : wf w -> forall i len, chain_from w i len -> len <= tail w i.
Proof.
  intros Hwf i len H. induction H as [i Hi|i s len Hs Hp Hc IH].
  - apply tail_ge_dur; assumption.
  - assert (Hin : In s (succs w i)) by (apply succs_spec; split; assumption).
    pose proof (tail_succ_le w i s Hwf Hin). lia.
Qed.

Lemma chain_from_attained w : wf w -> forall i, (i < length w)%nat -> chain_from w i (tail w i).
Proof.
  intros Hwf.
  assert (H : forall k i, (length w <= k + i)%nat -> (i < length w)%nat -> chain_from w i (tail w i)).
  { induction k as [|k IH]; intros i Hk Hi; [lia|].
    rewrite tail_eq by assumption.
    destruct (maxl_map_cases (tail w) (succs w i)) as [E|[s [Hs E]]].
    - rewrite E, Z.add_0_r. apply chain_from_one, Hi.
    - rewrite <- E. pose proof (succs_gt w i s Hwf Hs) as Hlt. apply succs_spec in Hs as [Hs1 Hs2].
      apply chain_from_step with (s := s); [exact Hs1|exact Hs2|]. apply IH; lia. }
  intros i Hi. apply (H (length w) i); lia.
Qed.

(* ---------------------------------------------------------------------------------------- *)
(* project length                                                                             *)

Lemma proj_len_ge w i : (i < length w)%nat -> ef w i <= proj_len w.
Proof. intros Hi. unfold proj_len. apply maxl_map_ge, in_seq. lia. Qed.

Lemma proj_len_nonneg w : 0 <= proj_len w.
Proof. apply maxl_nonneg. Qed.

Lemma proj_len_attained w : wf w -> w <> [] -> exists i, (i < length w)%nat /\ ef w i = proj_len w.
Proof.
  intros Hwf Hne. unfold proj_len.
  destruct (maxl_map_cases (ef w) (seq 0 (length w))) as [E|[i [Hi E]]].
  - exists O. assert (Hl : (0 < length w)%nat) by (destruct w; [congruence|simpl; lia]).
    split; [exact Hl|]. rewrite E.
    pose proof (ef_nonneg w O Hwf). pose proof (proj_len_ge w O Hl) as H1. unfold proj_len in H1. lia.
  - exists i. apply in_seq in Hi. split; [lia|exact E].
Qed.

(* no chain through a leaf is longer than the project *)
Lemma through_le w : wf w -> forall i, (i < length w)%nat -> through w i <= proj_len w.
Proof.
  intros Hwf. unfold through.
  assert (H : forall k i, (length w <= k + i)%nat -> (i < length w)%nat ->
                          ef w i + tail w i - dur w i <= proj_len w).
  { induction k as [|k IH]; intros i Hk Hi; [lia|].
    rewrite tail_eq by assumption.
    destruct (maxl_map_cases (tail w) (succs w i)) as [E|[s [Hs E]]].
    - rewrite E. pose proof (proj_len_ge w i Hi). lia.
    - rewrite <- E. pose proof (succs_gt w i s Hwf Hs) as Hlt. apply succs_spec in Hs as [Hs1 Hs2].
      pose proof (ef_pred_le w s i Hwf Hs2). specialize (IH s ltac:(lia) Hs1). lia. }
  intros i Hi. apply (H (length w) i); lia.
Qed.

Lemma through_ge_ef w i : wf w -> (i < length w)%nat -> ef w i <= through w i.
Proof. intros Hwf Hi. unfold through. pose proof (tail_ge_dur w i Hwf Hi). lia. Qed.

(* every chain is at most as long as the project, and some chain is as long *)
Lemma chain_le_proj_len w : wf w -> forall i len, chain_to w i len -> len <= proj_len w.
Proof.
  intros Hwf i len H. pose proof (chain_to_le w Hwf i len H).
  assert (Hi : (i < length w)%nat) by (destruct H; assumption).
  pose proof (proj_len_ge w i Hi). lia.
Qed.

Lemma exists_zero_float w : wf w -> w <> [] -> exists i, (i < length w)%nat /\ through w i = proj_len w.
Proof.
  intros Hwf Hne. destruct (proj_len_attained w Hwf Hne) as [i [Hi E]].
  exists i. split; [exact Hi|].
  pose proof (through_le w Hwf i Hi). pose proof (through_ge_ef w i Hwf Hi). lia.
Qed.
