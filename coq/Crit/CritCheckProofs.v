(* C12 - the boolean oracle evaluated on the implementation's output means the property, and the
   statements of Props_C12.v in the shape they are stated there. *)
From PJ Require Import Base.Prelude Crit.CritPath Crit.CritPathProofs Crit.CritNetProofs
  Crit.CritWbsProofs Crit.CritCheck.
Open Scope Z_scope.

Lemma mem_spec x l : mem x l = true <-> In x l.
Proof.
  unfold mem. rewrite existsb_exists. split.
  - intros [y [H1 H2]]. apply Nat.eqb_eq in H2. now subst y.
  - intros H. exists x. split; [exact H|apply Nat.eqb_refl].
Qed.

Lemma subset_spec a b : subset a b = true <-> forall x, In x a -> In x b.
Proof.
  unfold subset. rewrite forallb_forall. split; intros H x Hx.
  - apply mem_spec, H, Hx.
  - apply mem_spec, H, Hx.
Qed.

Lemma parents_first_b_spec b : parents_first_b b = true <-> parents_first b.
Proof.
  unfold parents_first_b, parents_first. rewrite forallb_forall. split.
  - intros H t p E. specialize (H t). rewrite E in H. apply Nat.ltb_lt, H, in_seq.
    assert (t < length b)%nat; [|lia].
    apply nth_error_Some. unfold parent_of in E. destruct (nth_error b t); congruence.
  - intros H t _. destruct (parent_of b t) as [p|] eqn:E; [|reflexivity]. apply Nat.ltb_lt, H, E.
Qed.

(* the oracle: what the implementation returned is exactly the set of zero-float leaves *)
Lemma exact_b_spec b order returned : wf (dag_of b order) ->
  exact_b b order returned = true <->
  forall t, In t returned <->
            exists i, nth_error order i = Some t
                      /\ ef (dag_of b order) i + tail (dag_of b order) i - dur (dag_of b order) i
                         = proj_len (dag_of b order).
Proof.
  intros Hwf. unfold exact_b. cbv zeta. rewrite andb_true_iff, !subset_spec. split.
  - intros [H1 H2] t. rewrite <- (critical_tasks_spec b order t Hwf). split; [apply H1|apply H2].
  - intros H. split; intros t Ht.
    + apply (critical_tasks_spec b order t Hwf), H, Ht.
    + apply H, (critical_tasks_spec b order t Hwf), Ht.
Qed.

Lemma check_case_ok b order hdag code returned :
  check_case (b, order, hdag, code, returned) = 0%nat ->
  parents_first b /\ wf (dag_of b order) /\ code = 0%nat /\ exact_b b order returned = true.
Proof.
  unfold check_case. cbv zeta.
  destruct (parents_first_b b && order_ok b order) eqn:E1; cbn [negb]; [|discriminate].
  destruct (wf_b (dag_of b order)) eqn:E2; cbn [negb]; [|discriminate].
  destruct (dag_same (dag_of b order) hdag); cbn [negb]; [|discriminate].
  destruct (Nat.eqb code 0) eqn:E4; cbn [negb]; [|discriminate].
  destruct (subset returned (critical_tasks b order)) eqn:E5; cbn [negb]; [|discriminate].
  destruct (subset (critical_tasks b order) returned) eqn:E6; cbn [negb]; [|discriminate].
  intros _. apply andb_true_iff in E1 as [E1 _].
  split; [apply parents_first_b_spec, E1|]. split; [apply wf_b_spec, E2|].
  split; [apply Nat.eqb_eq, E4|]. unfold exact_b. cbv zeta. rewrite E5, E6. reflexivity.
Qed.

(* ---- statements in the shape of Props_C12.v ---- *)

Lemma dp_ef w : wf w -> forall i, (i < length w)%nat ->
  (forall len, chain_to w i len -> len <= ef w i) /\ chain_to w i (ef w i).
Proof.
  intros Hwf i Hi. split; [intros len; apply chain_to_le, Hwf|apply chain_to_attained; assumption].
Qed.

Lemma dp_tail w : wf w -> forall i, (i < length w)%nat ->
  (forall len, chain_from w i len -> len <= tail w i) /\ chain_from w i (tail w i).
Proof.
  intros Hwf i Hi. split; [intros len; apply chain_from_le, Hwf|apply chain_from_attained; assumption].
Qed.

Lemma length_spec w : wf w ->
  (forall i len, chain_to w i len -> len <= proj_len w)
  /\ (w <> [] -> exists i, chain_to w i (proj_len w)).
Proof.
  intros Hwf. split; [apply chain_le_proj_len, Hwf|].
  intros Hne. destruct (proj_len_attained w Hwf Hne) as [i [Hi E]]. exists i. rewrite <- E.
  apply chain_to_attained; assumption.
Qed.

Lemma slack_spec w : wf w -> forall i, (i < length w)%nat ->
  slack w i = proj_len w - (ef w i + tail w i - dur w i).
Proof. intros Hwf i Hi. apply slack_eq; assumption. Qed.

Lemma exact_spec w : wf w -> forall i,
  In i (critical w) <-> (i < length w)%nat /\ ef w i + tail w i - dur w i = proj_len w.
Proof. intros Hwf i. apply critical_spec, Hwf. Qed.
