(* C12 - proofs: (1) the critical set of a WBS is characterised by chains between tasks and hence
   does not depend on the topological order in which the leaves are listed; (2) Kahn's topological
   sort is sound (what it returns enumerates the leaves and makes the leaf network well-formed) and
   complete (it succeeds on every acyclic WBS); acyclic = a topological order exists. *)
From Coq Require Import Permutation.
From PJ Require Import Base.Prelude Crit.CritPath Crit.CritPathProofs Crit.CritNetProofs
  Crit.CritWbsProofs Crit.CritCheck Crit.CritCheckProofs Crit.CritOrder.
Open Scope Z_scope.

(* ---------------------------------------------------------------------------------------- *)
(* positions                                                                                  *)

Lemma index_of_spec x : forall l k, index_of x l = Some k ->
  nth_error l k = Some x /\ forall j, (j < k)%nat -> nth_error l j <> Some x.
Proof.
  induction l as [|y r IH]; intros k H; cbn [index_of] in H; [discriminate|].
  destruct (Nat.eqb x y) eqn:E.
  - injection H as <-. apply Nat.eqb_eq in E. subst y. split; [reflexivity|]. intros j Hj. lia.
  - destruct (index_of x r) as [k'|] eqn:E'; [|discriminate]. injection H as <-.
    destruct (IH k' eq_refl) as [H1 H2]. split; [exact H1|].
    intros [|j] Hj; cbn [nth_error].
    + intros Hc. injection Hc as ->. rewrite Nat.eqb_refl in E. discriminate.
    + apply H2. lia.
Qed.

Lemma index_of_none x : forall l, index_of x l = None -> ~ In x l.
Proof.
  induction l as [|y r IH]; intros H; cbn [index_of] in H; [intros []|].
  destruct (Nat.eqb x y) eqn:E; [discriminate|].
  destruct (index_of x r) eqn:E'; [discriminate|].
  intros [Hc|Hc]; [subst y; rewrite Nat.eqb_refl in E; discriminate|]. now apply IH.
Qed.

Lemma pos_lt_nth order q : (pos order q < length order)%nat -> nth_error order (pos order q) = Some q.
Proof.
  unfold pos. destruct (index_of q order) as [k|] eqn:E; [|lia].
  intros _. apply (index_of_spec q order k E).
Qed.

Lemma pos_le order q j : nth_error order j = Some q -> (pos order q <= j)%nat.
Proof.
  intros Hj. unfold pos. destruct (index_of q order) as [k|] eqn:E.
  - destruct (index_of_spec q order k E) as [_ H2].
    destruct (Nat.le_gt_cases k j) as [Hle|Hgt]; [exact Hle|]. exfalso. now apply (H2 j Hgt).
  - exfalso. apply (index_of_none q order E). eapply nth_error_In, Hj.
Qed.

Lemma pos_nodup order i t : NoDup order -> nth_error order i = Some t -> pos order t = i.
Proof.
  intros Hnd Hi. pose proof (pos_le order t i Hi) as Hle.
  assert (Hlen : (i < length order)%nat) by (apply nth_error_Some; congruence).
  assert (Hp : nth_error order (pos order t) = Some t) by (apply pos_lt_nth; lia).
  rewrite NoDup_nth_error in Hnd. apply Hnd; [lia|congruence].
Qed.

Lemma dag_of_length b order : length (dag_of b order) = length order.
Proof. unfold dag_of. apply map_length. Qed.

Lemma dag_of_preds b order i t : nth_error order i = Some t ->
  preds (dag_of b order) i = map (pos order) (eff_preds b t).
Proof. intros E. unfold preds, dag_of. rewrite nth_error_map, E. reflexivity. Qed.

Lemma nth_lt_dag b order i t : nth_error order i = Some t -> (i < length (dag_of b order))%nat.
Proof. intros E. rewrite dag_of_length. apply nth_error_Some. congruence. Qed.

(* in a well-formed leaf network every effective predecessor of a listed leaf is listed earlier *)
Lemma wf_pred_earlier b order i t q : wf (dag_of b order) ->
  nth_error order i = Some t -> In q (eff_preds b t) ->
  (pos order q < i)%nat /\ nth_error order (pos order q) = Some q.
Proof.
  intros Hwf Hi Hq. destruct (Hwf i) as [_ H].
  assert (Hlt : (pos order q < i)%nat).
  { apply H. rewrite (dag_of_preds b order i t Hi). apply in_map, Hq. }
  split; [exact Hlt|]. apply pos_lt_nth.
  assert (i < length order)%nat by (apply nth_error_Some; congruence). lia.
Qed.

(* ---------------------------------------------------------------------------------------- *)
(* chains of positions = chains of tasks                                                      *)

Section Transport.
Variable b : wbs.
Variable order : list nat.
Hypothesis Hwf : wf (dag_of b order).

Lemma chain_to_tchain : forall i len, chain_to (dag_of b order) i len ->
  forall t, nth_error order i = Some t -> tchain_to b t len.
Proof.
  intros i len H. induction H as [i Hi|p i len Hi Hp Hc IH]; intros t Ht.
  - rewrite (dag_of_dur b order i t Ht). constructor.
  - rewrite (dag_of_dur b order i t Ht). rewrite (dag_of_preds b order i t Ht) in Hp.
    apply in_map_iff in Hp as [q [<- Hq]].
    destruct (wf_pred_earlier b order i t q Hwf Ht Hq) as [_ Hn].
    apply tchain_to_step with (q := q); [exact Hq|]. apply IH, Hn.
Qed.

Lemma tchain_chain_to : forall t len, tchain_to b t len ->
  forall i, nth_error order i = Some t -> chain_to (dag_of b order) i len.
Proof.
  intros t len H. induction H as [t|q t len Hq Hc IH]; intros i Ht.
  - rewrite <- (dag_of_dur b order i t Ht). apply chain_to_one, (nth_lt_dag b order i t Ht).
  - rewrite <- (dag_of_dur b order i t Ht).
    destruct (wf_pred_earlier b order i t q Hwf Ht Hq) as [_ Hn].
    apply chain_to_step with (p := pos order q); [apply (nth_lt_dag b order i t Ht)| |apply IH, Hn].
    rewrite (dag_of_preds b order i t Ht). apply in_map, Hq.
Qed.

Lemma chain_from_tchain : forall i len, chain_from (dag_of b order) i len ->
  forall t, nth_error order i = Some t -> tchain_from b order t len.
Proof.
  intros i len H. induction H as [i Hi|i s len Hs Hp Hc IH]; intros t Ht.
  - rewrite (dag_of_dur b order i t Ht). constructor.
  - rewrite (dag_of_dur b order i t Ht).
    rewrite dag_of_length in Hs.
    destruct (nth_error order s) as [u|] eqn:Hu; [|apply nth_error_None in Hu; lia].
    rewrite (dag_of_preds b order s u Hu) in Hp. apply in_map_iff in Hp as [q [Hpq Hq]].
    destruct (wf_pred_earlier b order s u q Hwf Hu Hq) as [_ Hn].
    rewrite Hpq, Ht in Hn. injection Hn as ->.
    apply tchain_from_step with (s := u); [eapply nth_error_In, Hu|exact Hq|]. apply IH, eq_refl.
Qed.

Lemma tchain_chain_from : NoDup order -> forall t len, tchain_from b order t len ->
  forall i, nth_error order i = Some t -> chain_from (dag_of b order) i len.
Proof.
  intros Hnd t len H. induction H as [t|t s len Hs Hp Hc IH]; intros i Ht.
  - rewrite <- (dag_of_dur b order i t Ht). apply chain_from_one, (nth_lt_dag b order i t Ht).
  - rewrite <- (dag_of_dur b order i t Ht).
    apply In_nth_error in Hs as [j Hj].
    apply chain_from_step with (s := j); [apply (nth_lt_dag b order j s Hj)| |apply IH, Hj].
    rewrite (dag_of_preds b order j s Hj), <- (pos_nodup order i t Hnd Ht). apply in_map, Hp.
Qed.

(* ef / tail / proj_len of the positional network are the lengths of the longest task chains *)
Lemma ef_longest i t : nth_error order i = Some t -> longest_to b t (ef (dag_of b order) i).
Proof.
  intros Ht. pose proof (nth_lt_dag b order i t Ht) as Hi. split.
  - apply (chain_to_tchain i); [apply chain_to_attained; assumption|exact Ht].
  - intros len Hc. apply chain_to_le; [exact Hwf|]. apply (tchain_chain_to t); assumption.
Qed.

Lemma tail_longest i t : NoDup order -> nth_error order i = Some t ->
  longest_from b order t (tail (dag_of b order) i).
Proof.
  intros Hnd Ht. pose proof (nth_lt_dag b order i t Ht) as Hi. split.
  - apply (chain_from_tchain i); [apply chain_from_attained; assumption|exact Ht].
  - intros len Hc. apply chain_from_le; [exact Hwf|]. apply (tchain_chain_from Hnd t); assumption.
Qed.

Lemma proj_len_longest : order <> [] -> longest_any b order (proj_len (dag_of b order)).
Proof.
  intros Hne. split.
  - assert (Hne' : dag_of b order <> []).
    { intros Hc. apply Hne. apply length_zero_iff_nil. rewrite <- (dag_of_length b order), Hc. reflexivity. }
    destruct (proj_len_attained (dag_of b order) Hwf Hne') as [i [Hi E]].
    rewrite dag_of_length in Hi.
    destruct (nth_error order i) as [t|] eqn:Ht; [|apply nth_error_None in Ht; lia].
    exists t. split; [eapply nth_error_In, Ht|]. rewrite <- E. apply (ef_longest i t Ht).
  - intros t len Hin Hc. apply In_nth_error in Hin as [i Ht].
    apply (chain_le_proj_len (dag_of b order) Hwf i). apply (tchain_chain_to t); assumption.
Qed.

End Transport.

Lemma longest_to_unique b t e e' : longest_to b t e -> longest_to b t e' -> e = e'.
Proof. intros [H1 H2] [H3 H4]. specialize (H2 e' H3). specialize (H4 e H1). lia. Qed.

Lemma longest_from_unique b L t e e' : longest_from b L t e -> longest_from b L t e' -> e = e'.
Proof. intros [H1 H2] [H3 H4]. specialize (H2 e' H3). specialize (H4 e H1). lia. Qed.

Lemma longest_any_unique b L P P' : longest_any b L P -> longest_any b L P' -> P = P'.
Proof.
  intros [[t [Ht H1]] H2] [[t' [Ht' H3]] H4].
  specialize (H2 t' P' Ht' H3). specialize (H4 t P Ht H1). lia.
Qed.

(* the result of critical_path() in terms of tasks only: positions and order have disappeared *)
Lemma critical_tasks_tcritical b order t : wf (dag_of b order) -> NoDup order ->
  In t (critical_tasks b order) <-> tcritical b order t.
Proof.
  intros Hwf Hnd. rewrite (critical_tasks_spec b order t Hwf). split.
  - intros [i [Ht E]]. split; [eapply nth_error_In, Ht|].
    exists (ef (dag_of b order) i), (tail (dag_of b order) i), (proj_len (dag_of b order)).
    split; [apply ef_longest; assumption|]. split; [apply tail_longest; assumption|].
    split; [apply proj_len_longest; [exact Hwf|]; intros ->; destruct i; discriminate|].
    unfold through in E. rewrite (dag_of_dur b order i t Ht) in E. exact E.
  - intros [Hin [e [tl [P [He [Htl [HP E]]]]]]].
    pose proof Hin as Hin'. apply In_nth_error in Hin' as [i Ht]. exists i. split; [exact Ht|].
    assert (Hne : order <> []) by (intros ->; destruct Hin).
    rewrite (longest_to_unique b t _ _ He (ef_longest b order Hwf i t Ht)) in E.
    rewrite (longest_from_unique b order t _ _ Htl (tail_longest b order Hwf i t Hnd Ht)) in E.
    rewrite (longest_any_unique b order _ _ HP (proj_len_longest b order Hwf Hne)) in E.
    unfold through. rewrite (dag_of_dur b order i t Ht). exact E.
Qed.

(* the task-level notions depend on the SET of leaves only *)
Lemma tchain_from_incl b L L' : incl L L' -> forall t len, tchain_from b L t len -> tchain_from b L' t len.
Proof.
  intros Hi t len H. induction H as [t|t s len Hs Hp Hc IH]; [constructor|].
  apply tchain_from_step with (s := s); [apply Hi, Hs|exact Hp|exact IH].
Qed.

Lemma tcritical_incl b L L' t : (forall x, In x L <-> In x L') -> tcritical b L t -> tcritical b L' t.
Proof.
  intros Hs [Hin [e [tl [P [He [[Htl1 Htl2] [[[t0 [Ht0 HP1]] HP2] E]]]]]]].
  assert (H1 : incl L L') by (intros x; apply Hs).
  assert (H2 : incl L' L) by (intros x; apply Hs).
  split; [apply Hs, Hin|]. exists e, tl, P. split; [exact He|]. split.
  - split; [apply (tchain_from_incl b L L' H1), Htl1|].
    intros len Hc. apply Htl2, (tchain_from_incl b L' L H2), Hc.
  - split; [|exact E]. split; [exists t0; split; [apply Hs, Ht0|exact HP1]|].
    intros x len Hx. apply HP2, Hs, Hx.
Qed.

Lemma tcritical_ext b L L' t : (forall x, In x L <-> In x L') -> tcritical b L t <-> tcritical b L' t.
Proof.
  intros Hs. split; apply tcritical_incl; [exact Hs|]. intros x. symmetry. apply Hs.
Qed.

(* ---- order independence ---- *)
Lemma order_independent_sets b order1 order2 :
  NoDup order1 -> NoDup order2 -> (forall t, In t order1 <-> In t order2) ->
  wf (dag_of b order1) -> wf (dag_of b order2) ->
  forall t, In t (critical_tasks b order1) <-> In t (critical_tasks b order2).
Proof.
  intros Hn1 Hn2 Hs Hw1 Hw2 t.
  rewrite (critical_tasks_tcritical b order1 t Hw1 Hn1), (critical_tasks_tcritical b order2 t Hw2 Hn2).
  apply tcritical_ext, Hs.
Qed.

Lemma order_independent b order1 order2 :
  NoDup order1 -> Permutation order1 order2 ->
  wf (dag_of b order1) -> wf (dag_of b order2) ->
  forall t, In t (critical_tasks b order1) <-> In t (critical_tasks b order2).
Proof.
  intros Hn1 Hp. apply order_independent_sets; [exact Hn1|eapply Permutation_NoDup; eassumption|].
  intros t. split; apply Permutation_in; [exact Hp|apply Permutation_sym, Hp].
Qed.
