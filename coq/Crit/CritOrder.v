(* C12 - the critical set does not depend on the topological order of the leaves, and an acyclic
   WBS has such an order.  Definitions only (proofs: CritOrderProofs.v).

   1. Dependency chains between TASKS (no positions, no order): [tchain_to b t len] - a chain of
      effective-predecessor edges that ends in task t and lasts len; [tchain_from b L t len] - one that
      starts in t and runs through leaves of the set L; [tcritical b L t] - t lies on a longest chain
      of the network of the leaves L.
   2. Acyclicity of the effective-predecessor relation ([reach] = its transitive closure) and an
      executable topological sort (Kahn: repeatedly move the first leaf all of whose effective
      predecessors are already placed; fuel = number of leaves + 1). *)
From PJ Require Import Base.Prelude Crit.CritPath Crit.CritCheck.
Open Scope Z_scope.

(* ------------------------------------------------------------------------------------------ *)
(* 1. chains between tasks                                                                      *)

Inductive tchain_to (b : wbs) : nat -> Z -> Prop :=
| tchain_to_one : forall t, tchain_to b t (task_dur b t)
| tchain_to_step : forall q t len, In q (eff_preds b t) -> tchain_to b q len ->
    tchain_to b t (len + task_dur b t).

Inductive tchain_from (b : wbs) (L : list nat) : nat -> Z -> Prop :=
| tchain_from_one : forall t, tchain_from b L t (task_dur b t)
| tchain_from_step : forall t s len, In s L -> In t (eff_preds b s) -> tchain_from b L s len ->
    tchain_from b L t (task_dur b t + len).

(* e is the length of the longest chain that ends in t / starts in t / of the whole network *)
Definition longest_to (b : wbs) (t : nat) (e : Z) : Prop :=
  tchain_to b t e /\ forall len, tchain_to b t len -> len <= e.
Definition longest_from (b : wbs) (L : list nat) (t : nat) (e : Z) : Prop :=
  tchain_from b L t e /\ forall len, tchain_from b L t len -> len <= e.
Definition longest_any (b : wbs) (L : list nat) (P : Z) : Prop :=
  (exists t, In t L /\ tchain_to b t P) /\ forall t len, In t L -> tchain_to b t len -> len <= P.

(* t is a leaf of the set L and the longest chain through t is as long as the longest chain of the
   network: earliest finish + longest remaining tail (own duration counted once) = project length *)
Definition tcritical (b : wbs) (L : list nat) (t : nat) : Prop :=
  In t L /\ exists e tl P, longest_to b t e /\ longest_from b L t tl /\ longest_any b L P
                           /\ e + tl - task_dur b t = P.

(* ------------------------------------------------------------------------------------------ *)
(* 2. acyclicity and topological sort                                                           *)

(* reach b q t: q is a direct or indirect effective predecessor of t *)
Inductive reach (b : wbs) : nat -> nat -> Prop :=
| reach_one : forall q t, In q (eff_preds b t) -> reach b q t
| reach_step : forall q m t, reach b q m -> In m (eff_preds b t) -> reach b q t.

Definition acyclic (b : wbs) : Prop := forall t, ~ reach b t t.

(* the order lists every leaf of the WBS exactly once (Prop form of order_ok) *)
Definition enumerates_leaves (b : wbs) (order : list nat) : Prop :=
  NoDup order /\ forall t, In t order <-> is_leaf b t = true.

(* every effective predecessor is already placed *)
Definition ready (b : wbs) (placed : list nat) (t : nat) : bool :=
  forallb (fun q => mem q placed) (eff_preds b t).

(* the first ready task of todo and the rest *)
Fixpoint pick (b : wbs) (placed todo : list nat) : option (nat * list nat) :=
  match todo with
  | [] => None
  | t :: r => if ready b placed t then Some (t, r)
              else match pick b placed r with
                   | Some (x, r') => Some (x, t :: r')
                   | None => None
                   end
  end.

Fixpoint topo_go (fuel : nat) (b : wbs) (placed todo : list nat) : option (list nat) :=
  match todo with
  | [] => Some placed
  | _ :: _ => match fuel with
              | O => None
              | S f => match pick b placed todo with
                       | Some (t, todo') => topo_go f b (placed ++ [t]) todo'
                       | None => None                  (* nothing is ready: a cycle *)
                       end
              end
  end.

Definition topo_sort (b : wbs) : option (list nat) :=
  topo_go (S (length (leaves b))) b [] (leaves b).

(* what critical_path() returns on a WBS, with no order supplied from outside *)
Definition critical_of (b : wbs) : option (list nat) :=
  match topo_sort b with Some order => Some (critical_tasks b order) | None => None end.
