(* C12 - the expansion of declared links through the hierarchy: a link declared on a summary task
   binds every leaf below it (on both sides), and nothing else is bound. *)
From PJ Require Import Base.Prelude Crit.CritPath Crit.CritPathProofs Crit.CritNetProofs.
Open Scope Z_scope.

Lemma ancestors_sound b : forall f t a, In a (ancestors f b t) -> anc b a t.
Proof.
  induction f as [|f IH]; intros t a Hin; cbn [ancestors] in Hin; [destruct Hin|].
  destruct (parent_of b t) as [p|] eqn:E; [|destruct Hin].
  destruct Hin as [<-|Hin].
  - apply anc_parent, E.
  - eapply anc_up; [exact E|]. apply IH, Hin.
Qed.

Lemma ancestors_complete b : parents_first b ->
  forall t a, anc b a t -> forall f, (t < f)%nat -> In a (ancestors f b t).
Proof.
  intros Hpf t a H. induction H as [t p E|t p a E Ha IH]; intros f Hf.
  - destruct f as [|f]; [lia|]. cbn [ancestors]. rewrite E. now left.
  - destruct f as [|f]; [lia|]. cbn [ancestors]. rewrite E. right. apply IH.
    specialize (Hpf t p E). lia.
Qed.

Lemma is_leaf_lt b l : is_leaf b l = true -> (l < length b)%nat.
Proof.
  unfold is_leaf. destruct (nth_error b l) eqn:E; [|discriminate].
  intros _. apply nth_error_Some. congruence.
Qed.

Lemma under_spec b l a : parents_first b -> (l < length b)%nat ->
  under b l a = true <-> l = a \/ anc b a l.
Proof.
  intros Hpf Hl. unfold under. rewrite orb_true_iff, Nat.eqb_eq, existsb_exists. split.
  - intros [H|[x [H1 H2]]]; [now left|]. apply Nat.eqb_eq in H2. subst x.
    right. eapply ancestors_sound. exact H1.
  - intros [H|H]; [now left|]. right. exists a. split; [|apply Nat.eqb_refl].
    unfold ancs. apply ancestors_complete; assumption.
Qed.

Lemma leaves_under_spec b l a : parents_first b -> In l (leaves_under b a) <-> leaf_under b l a.
Proof.
  intros Hpf. unfold leaves_under, leaf_under. rewrite filter_In, in_seq, andb_true_iff. split.
  - intros [Hl [H1 H2]]. split; [exact H1|]. apply under_spec in H2; [exact H2|exact Hpf|lia].
  - intros [H1 H2]. pose proof (is_leaf_lt b l H1) as Hl. split; [lia|]. split; [exact H1|].
    apply under_spec; assumption.
Qed.

(* the effective predecessors of a leaf are exactly the leaves under a task P such that the link
   P -> S is declared on the leaf itself or on one of its ancestors S *)
Lemma eff_preds_spec b ls lp : parents_first b -> (ls < length b)%nat ->
  In lp (eff_preds b ls) <->
  exists S P, (ls = S \/ anc b S ls) /\ In P (declared b S) /\ leaf_under b lp P.
Proof.
  intros Hpf Hls. unfold eff_preds. rewrite in_flat_map. split.
  - intros [P [HP Hlp]]. apply in_flat_map in HP as [S [HS HP]].
    exists S, P. split; [|split; [exact HP|apply leaves_under_spec; assumption]].
    destruct HS as [HS|HS]; [now left|]. right. eapply ancestors_sound. exact HS.
  - intros [S [P [HS [HP Hlp]]]]. exists P. split; [|apply leaves_under_spec; assumption].
    apply in_flat_map. exists S. split; [|exact HP].
    destruct HS as [HS|HS]; [now left|]. right. unfold ancs. apply ancestors_complete; assumption.
Qed.

Lemma summary_link_binds b S P ls lp : parents_first b ->
  In P (declared b S) -> leaf_under b lp P -> leaf_under b ls S -> In lp (eff_preds b ls).
Proof.
  intros Hpf HP Hlp [Hleaf HS]. apply eff_preds_spec; [exact Hpf|apply is_leaf_lt, Hleaf|].
  exists S, P. split; [exact HS|]. split; assumption.
Qed.

(* effective predecessors are leaves inside the WBS *)
Lemma eff_preds_leaves b ls lp : In lp (eff_preds b ls) -> is_leaf b lp = true.
Proof.
  unfold eff_preds. rewrite in_flat_map. intros [P [_ H]].
  unfold leaves_under in H. apply filter_In in H as [_ H]. apply andb_true_iff in H. tauto.
Qed.

(* the result of critical_path() on a WBS, for any topological order of its leaves *)
Lemma critical_tasks_spec b order t : wf (dag_of b order) ->
  In t (critical_tasks b order) <->
  exists i, nth_error order i = Some t
            /\ through (dag_of b order) i = proj_len (dag_of b order).
Proof.
  intros Hwf. unfold critical_tasks. rewrite in_map_iff.
  assert (Hlen : length (dag_of b order) = length order) by (unfold dag_of; apply map_length).
  split.
  - intros [i [E Hin]]. apply critical_spec in Hin as [Hi Ht]; [|exact Hwf].
    exists i. split; [|exact Ht]. rewrite <- E. apply nth_error_nth'. lia.
  - intros [i [E Ht]]. exists i. split; [apply nth_error_nth, E|].
    apply critical_spec; [exact Hwf|]. split; [|exact Ht].
    rewrite Hlen. apply nth_error_Some. congruence.
Qed.

Lemma dag_of_dur b order i l : nth_error order i = Some l -> dur (dag_of b order) i = task_dur b l.
Proof.
  intros E. unfold dur, dag_of. rewrite nth_error_map, E. reflexivity.
Qed.

Lemma task_dur_nonneg b l : 0 <= task_dur b l.
Proof. unfold task_dur. destruct (nth_error b l); lia. Qed.
