(* C12 - the defects F17 and F18 on the models of the unrepaired behaviour (witnesses by computation;
   the same inputs are in the corpus of harness/props/c12.py and fail on the unpatched code). *)
From Coq Require Import PrimFloat.
From PJ Require Import Base.Prelude Crit.CritPath Crit.CritUnrepaired.
Open Scope Z_scope.

Lemma float_slack_refuted :
  (* chain 0.1 -> 0.2 beside a single 0.3: binary64 returns nothing, every leaf has zero float *)
  fcritical f17_beside = [] /\ critical [(1, []); (2, [0%nat]); (3, [])] = [0; 1; 2]%nat
  (* single chain 0.1 -> 0.2 -> 0.7: binary64 returns only the last task *)
  /\ fcritical f17_chain = [2%nat] /\ critical [(1, []); (2, [0%nat]); (7, [1%nat])] = [0; 1; 2]%nat.
Proof. vm_compute. repeat split. Qed.

(* task 0 (5h); summary 1 waits for task 0, its leaf 2 lasts 1h; task 3 lasts 5.5h (units of 0.5h):
   read from the leaf only, the chain 0 -> 2 of length 6 is lost and task 3 is reported *)
Lemma unexpanded_links_refuted :
  let T p ps e := {| wparent := p; wpreds := ps; winside := true; west := Some e; wspent := None |} in
  let b := [T None [] 10; T None [0%nat] 0; T (Some 1%nat) [] 2; T None [] 11] in
  critical_tasks_naive b [0; 2; 3]%nat = [3%nat] /\ critical_tasks b [0; 2; 3]%nat = [0; 2]%nat.
Proof. vm_compute. repeat split. Qed.
