(* C12 - the activity-on-arc network the code builds computes the declarative characterisation:
   slack i = proj_len - (ef i + tail i - dur i), hence calc() returns exactly the zero-float leaves. *)
From PJ Require Import Base.Prelude Crit.CritPath Crit.CritPathProofs.
Open Scope Z_scope.

Ltac nodes := unfold nstart, nend, nfinish, nbegin in *.


(* ---------------------------------------------------------------------------------------- *)
(* which links the network contains                                                           *)

Lemma In_core_from w : forall k l, In l (core_from k w) <->
  exists i n, nth_error w i = Some n /\ In l (add_work (k + i) n).
Proof.
  induction w as [|n w IH]; intros k l; cbn [core_from].
  - split; [intros []|]. intros [i [n [H _]]]. destruct i; discriminate.
  - rewrite in_app_iff, IH. split.
    + intros [H|[i [n' [H1 H2]]]].
      * exists O, n. rewrite Nat.add_0_r. split; [reflexivity|exact H].
      * exists (S i), n'. split; [exact H1|]. replace (k + S i)%nat with (S k + i)%nat by lia. exact H2.
    + intros [i [n' [H1 H2]]]. destruct i as [|i].
      * left. cbn in H1. injection H1 as <-. rewrite Nat.add_0_r in H2. exact H2.
      * right. exists i, n'. split; [exact H1|]. replace (S k + i)%nat with (k + S i)%nat by lia. exact H2.
Qed.

Lemma In_core w l : In l (core w) <->
  exists i, (i < length w)%nat /\ (l = work_link w i \/ exists p, In p (preds w i) /\ l = dep_link p i).
Proof.
  unfold core. rewrite In_core_from. split.
  - intros [i [[d ps] [H1 H2]]]. exists i. split; [apply nth_error_Some; congruence|].
    cbn [Nat.add add_work fst snd In] in H2. destruct H2 as [H2|H2].
    + left. unfold work_link, dur. rewrite H1. symmetry; exact H2.
    + right. apply in_map_iff in H2 as [p [H3 H4]]. exists p. unfold preds. rewrite H1.
      split; [exact H4|symmetry; exact H3].
  - intros [i [Hi H]]. destruct (nth_error w i) as [[d ps]|] eqn:E; [|apply nth_error_None in E; lia].
    exists i, (d, ps). split; [exact E|]. cbn [Nat.add add_work fst snd In].
    destruct H as [H|[p [H1 H2]]].
    + left. subst l. unfold work_link, dur. rewrite E. reflexivity.
    + right. apply in_map_iff. exists p. unfold preds in H1. rewrite E in H1.
      split; [symmetry; exact H2|exact H1].
Qed.

Lemma In_work_nodes w v : In v (work_nodes w) <->
  exists i, (i < length w)%nat /\ (v = nstart i \/ v = nend i).
Proof.
  unfold work_nodes. rewrite in_flat_map. split.
  - intros [i [H1 H2]]. apply in_seq in H1. exists i. split; [lia|].
    cbn [In] in H2. destruct H2 as [H2|[H2|[]]]; [left|right]; symmetry; exact H2.
  - intros [i [H1 H2]]. exists i. split; [apply in_seq; lia|].
    cbn [In]. destruct H2 as [->| ->]; auto.
Qed.

Lemma no_links_filter (f : link -> bool) ls :
  no_links (filter f ls) = true <-> forall l, In l ls -> f l = false.
Proof.
  induction ls as [|x ls IH]; cbn [filter].
  - split; [intros _ l []|reflexivity].
  - destruct (f x) eqn:E.
    + split; [discriminate|]. intros H. specialize (H x (or_introl eq_refl)). congruence.
    + rewrite IH. split.
      * intros H l [<-|Hl]; [exact E|apply H, Hl].
      * intros H l Hl. apply H. right. exact Hl.
Qed.

Lemma filter_nil {A} (f : A -> bool) ls : (forall l, In l ls -> f l = false) -> filter f ls = [].
Proof.
  induction ls as [|x ls IH]; intros H; cbn [filter]; [reflexivity|].
  rewrite (H x (or_introl eq_refl)). apply IH. intros l Hl. apply H. right. exact Hl.
Qed.

Definition begin_link (v : nat) : link := {| lstart := nbegin; lend := v; lunits := 0 |}.
Definition finish_link (w : dag) (v : nat) : link := {| lstart := v; lend := nfinish w; lunits := 0 |}.

Lemma In_network w l : In l (network w) <->
  In l (core w)
  \/ (exists v, In v (work_nodes w) /\ (forall l', In l' (core w) -> lend l' <> v) /\ l = begin_link v)
  \/ (exists v, In v (work_nodes w) /\ (forall l', In l' (core w) -> lstart l' <> v) /\ l = finish_link w v).
Proof.
  unfold network. cbv zeta. rewrite !in_app_iff, !in_map_iff. split.
  - intros [H|[[v [H1 H2]]|[v [H1 H2]]]].
    + left. exact H.
    + right; left. apply filter_In in H2 as [H2 H3]. exists v. split; [exact H2|]. split; [|symmetry; exact H1].
      unfold blinks in H3. rewrite no_links_filter in H3. intros l' Hl' E. specialize (H3 l' Hl').
      apply Nat.eqb_neq in H3. contradiction.
    + right; right. apply filter_In in H2 as [H2 H3]. exists v. split; [exact H2|]. split; [|symmetry; exact H1].
      unfold flinks in H3. rewrite no_links_filter in H3. intros l' Hl' E. specialize (H3 l' Hl').
      apply Nat.eqb_neq in H3. contradiction.
  - intros [H|[[v [H1 [H2 H3]]]|[v [H1 [H2 H3]]]]].
    + left. exact H.
    + right; left. exists v. split; [symmetry; exact H3|]. apply filter_In. split; [exact H1|].
      unfold blinks. apply no_links_filter. intros l' Hl'. apply Nat.eqb_neq, H2, Hl'.
    + right; right. exists v. split; [symmetry; exact H3|]. apply filter_In. split; [exact H1|].
      unfold flinks. apply no_links_filter. intros l' Hl'. apply Nat.eqb_neq, H2, Hl'.
Qed.

Lemma work_in_core w k : (k < length w)%nat -> In (work_link w k) (core w).
Proof. intros Hk. apply In_core. exists k. split; [exact Hk|now left]. Qed.

Lemma work_in_network w k : (k < length w)%nat -> In (work_link w k) (network w).
Proof. intros Hk. apply In_network. left. apply work_in_core, Hk. Qed.

Lemma dep_in_network w k p : In p (preds w k) -> In (dep_link p k) (network w).
Proof.
  intros Hp. apply In_network. left. apply In_core. exists k.
  split; [eapply preds_lt_length; exact Hp|]. right. exists p. split; [exact Hp|reflexivity].
Qed.

Lemma finish_in_network w s : (s < length w)%nat -> succs w s = [] -> In (finish_link w (nend s)) (network w).
Proof.
  intros Hs Hnone. apply In_network. right; right. exists (nend s).
  split; [apply In_work_nodes; exists s; split; [exact Hs|now right]|]. split; [|reflexivity].
  intros l' Hl' E. apply In_core in Hl' as [i [Hi [->|[p [Hp ->]]]]]; cbn in E.
  - nodes; lia.
  - assert (p = s) by (nodes; lia). subst p.
    assert (Hin : In i (succs w s)) by (apply succs_spec; split; assumption).
    rewrite Hnone in Hin. destruct Hin.
Qed.

Ltac lk := unfold work_link, dep_link, begin_link, finish_link; cbn [lstart lend lunits].

(* links into / out of each kind of node *)
Lemma into_start w k l : (k < length w)%nat -> In l (network w) -> lend l = nstart k ->
  (lstart l = nbegin /\ lunits l = 0) \/ (exists p, In p (preds w k) /\ l = dep_link p k).
Proof.
  intros Hk Hl E. apply In_network in Hl as [Hl|[[v [_ [_ ->]]]|[v [_ [_ ->]]]]].
  - apply In_core in Hl as [i [Hi [->|[p [Hp ->]]]]]; cbn in E.
    + nodes; lia.
    + assert (i = k) by (nodes; lia). subst i. right. exists p. split; [exact Hp|reflexivity].
  - left. split; reflexivity.
  - cbn in E. nodes; lia.
Qed.

Lemma into_end w k l : (k < length w)%nat -> In l (network w) -> lend l = nend k -> l = work_link w k.
Proof.
  intros Hk Hl E. apply In_network in Hl as [Hl|[[v [_ [Hno ->]]]|[v [_ [_ ->]]]]].
  - apply In_core in Hl as [i [Hi [->|[p [Hp ->]]]]]; cbn in E.
    + assert (i = k) by (nodes; lia). subst i. reflexivity.
    + nodes; lia.
  - cbn in E. subst v. exfalso. apply (Hno (work_link w k) (work_in_core w k Hk)). reflexivity.
  - cbn in E. nodes; lia.
Qed.

Lemma into_finish w l : In l (network w) -> lend l = nfinish w ->
  exists s, (s < length w)%nat /\ l = finish_link w (nend s).
Proof.
  intros Hl E. apply In_network in Hl as [Hl|[[v [Hv [_ ->]]]|[v [Hv [Hno ->]]]]].
  - apply In_core in Hl as [i [Hi [->|[p [Hp ->]]]]]; cbn in E; nodes; lia.
  - cbn in E. subst v. apply In_work_nodes in Hv as [i [Hi [Hv|Hv]]]; nodes; lia.
  - apply In_work_nodes in Hv as [i [Hi [->| ->]]].
    + exfalso. apply (Hno (work_link w i) (work_in_core w i Hi)). reflexivity.
    + exists i. split; [exact Hi|reflexivity].
Qed.

Lemma from_end w k l : wf w -> (k < length w)%nat -> In l (network w) -> lstart l = nend k ->
  (exists s, In s (succs w k) /\ l = dep_link k s) \/ l = finish_link w (nend k).
Proof.
  intros Hwf Hk Hl E. apply In_network in Hl as [Hl|[[v [_ [_ ->]]]|[v [_ [_ ->]]]]].
  - apply In_core in Hl as [i [Hi [->|[p [Hp ->]]]]]; cbn in E.
    + nodes; lia.
    + assert (p = k) by (nodes; lia). subst p. left. exists i.
      split; [apply succs_spec; split; assumption|reflexivity].
  - cbn in E. nodes; lia.
  - cbn in E. subst v. right. reflexivity.
Qed.

Lemma from_start w k l : (k < length w)%nat -> In l (network w) -> lstart l = nstart k -> l = work_link w k.
Proof.
  intros Hk Hl E. apply In_network in Hl as [Hl|[[v [_ [_ ->]]]|[v [_ [Hno ->]]]]].
  - apply In_core in Hl as [i [Hi [->|[p [Hp ->]]]]]; cbn in E.
    + assert (i = k) by (nodes; lia). subst i. reflexivity.
    + nodes; lia.
  - cbn in E. nodes; lia.
  - cbn in E. subst v. exfalso. apply (Hno (work_link w k) (work_in_core w k Hk)). reflexivity.
Qed.

Lemma from_finish_none w l : wf w -> In l (network w) -> lstart l <> nfinish w.
Proof.
  intros Hwf Hl E. apply In_network in Hl as [Hl|[[v [_ [_ ->]]]|[v [Hv [_ ->]]]]].
  - apply In_core in Hl as [i [Hi [->|[p [Hp ->]]]]]; cbn in E.
    + nodes; lia.
    + destruct (Hwf i) as [_ Hlt]. specialize (Hlt p Hp). nodes; lia.
  - cbn in E. nodes; lia.
  - cbn in E. subst v. apply In_work_nodes in Hv as [i [Hi [Hv|Hv]]]; nodes; lia.
Qed.

(* ---------------------------------------------------------------------------------------- *)
(* memo table, max and min                                                                    *)

Lemma upd_same m k x : upd m k x k = x.
Proof. unfold upd. rewrite Nat.eqb_refl. reflexivity. Qed.

Lemma upd_other m k x v : v <> k -> upd m k x v = m v.
Proof. intros H. unfold upd. apply Nat.eqb_neq in H. rewrite H. reflexivity. Qed.

Lemma maxl_eq_by l m : 0 <= m -> (forall x, In x l -> x <= m) -> (m = 0 \/ In m l) -> maxl l = m.
Proof.
  intros H0 Hub Hat. pose proof (maxl_le l m H0 Hub) as Hle.
  destruct Hat as [->|Hin].
  - pose proof (maxl_nonneg l). lia.
  - pose proof (maxl_ge l m Hin). lia.
Qed.

Lemma minl_spec r : forall x, In (fold_left Z.min r x) (x :: r) /\ forall y, In y (x :: r) -> fold_left Z.min r x <= y.
Proof.
  induction r as [|y r IH]; intros x; cbn [fold_left].
  - split; [now left|]. intros y [<-|[]]. lia.
  - destruct (IH (Z.min x y)) as [H1 H2]. split.
    + destruct H1 as [H1|H1].
      * destruct (Z.min_spec x y) as [[_ E]|[_ E]].
        -- left. congruence.
        -- right; left. congruence.
      * right; right. exact H1.
    + intros z Hz. pose proof (H2 (Z.min x y) (or_introl eq_refl)) as Hm.
      destruct Hz as [<-|[<-|Hz]]; [lia|lia|]. apply H2. right. exact Hz.
Qed.

Lemma min_eq_by (vals : list Z) (dflt m : Z) :
  In m vals -> (forall y, In y vals -> m <= y) ->
  match vals with [] => dflt | x :: r => fold_left Z.min r x end = m.
Proof.
  intros Hin Hlb. destruct vals as [|x r]; [destruct Hin|].
  destruct (minl_spec r x) as [H1 H2]. specialize (H2 m Hin). specialize (Hlb _ H1). lia.
Qed.

Lemma In_blinks ls v l : In l (blinks ls v) <-> In l ls /\ lend l = v.
Proof. unfold blinks. rewrite filter_In, Nat.eqb_eq. reflexivity. Qed.

Lemma In_flinks ls v l : In l (flinks ls v) <-> In l ls /\ lstart l = v.
Proof. unfold flinks. rewrite filter_In, Nat.eqb_eq. reflexivity. Qed.

(* ---------------------------------------------------------------------------------------- *)
(* forward pass                                                                               *)

Definition FInv (w : dag) (k : nat) (su : nat -> Z) : Prop :=
  su nbegin = 0 /\
  forall j, (j < k)%nat -> su (nstart j) = ef w j - dur w j /\ su (nend j) = ef w j.

Lemma fwd_leaf w k su : wf w -> (k < length w)%nat -> FInv w k su ->
  FInv w (S k) (fwd_step (network w) (fwd_step (network w) su (nstart k)) (nend k)).
Proof.
  intros Hwf Hk [Hb Hinv].
  set (net := network w).
  set (su1 := fwd_step net su (nstart k)).
  assert (E1 : su1 (nstart k) = ef w k - dur w k).
  { unfold su1, fwd_step. rewrite upd_same. rewrite (ef_eq w k Hwf).
    replace (dur w k + maxl (map (ef w) (preds w k)) - dur w k) with (maxl (map (ef w) (preds w k))) by lia.
    apply maxl_eq_by.
    - apply maxl_nonneg.
    - intros x Hx. apply in_map_iff in Hx as [l [<- Hl]]. apply In_blinks in Hl as [Hl El].
      destruct (into_start w k l Hk Hl El) as [[E1 E2]|[p [Hp ->]]].
      + rewrite E1, E2, Hb. pose proof (maxl_nonneg (map (ef w) (preds w k))). lia.
      + lk. destruct (Hwf k) as [_ Hlt]. specialize (Hlt p Hp). destruct (Hinv p Hlt) as [_ Ee].
        rewrite Ee, Z.add_0_r. apply maxl_map_ge, Hp.
    - destruct (maxl_map_cases (ef w) (preds w k)) as [E|[p [Hp E]]]; [now left|right].
      apply in_map_iff. exists (dep_link p k). split.
      + lk. destruct (Hwf k) as [_ Hlt]. specialize (Hlt p Hp). destruct (Hinv p Hlt) as [_ Ee].
        rewrite Ee, Z.add_0_r. exact E.
      + apply In_blinks. split; [apply dep_in_network, Hp|reflexivity]. }
  assert (E2 : fwd_step net su1 (nend k) (nend k) = ef w k).
  { unfold fwd_step. rewrite upd_same. apply maxl_eq_by.
    - apply ef_nonneg, Hwf.
    - intros x Hx. apply in_map_iff in Hx as [l [<- Hl]]. apply In_blinks in Hl as [Hl El].
      rewrite (into_end w k l Hk Hl El). lk. rewrite E1. lia.
    - right. apply in_map_iff. exists (work_link w k). split.
      + lk. rewrite E1. lia.
      + apply In_blinks. split; [apply work_in_network, Hk|reflexivity]. }
  split.
  - unfold fwd_step at 1. rewrite upd_other by (nodes; lia).
    unfold su1, fwd_step. rewrite upd_other by (nodes; lia). exact Hb.
  - intros j Hj. destruct (Nat.eq_dec j k) as [->|Hne].
    + split; [|exact E2]. unfold fwd_step at 1. rewrite upd_other by (nodes; lia). exact E1.
    + assert (Hlt : (j < k)%nat) by lia. destruct (Hinv j Hlt) as [Es Ee]. split.
      * unfold fwd_step at 1. rewrite upd_other by (nodes; lia).
        unfold su1, fwd_step. rewrite upd_other by (nodes; lia). exact Es.
      * unfold fwd_step at 1. rewrite upd_other by (nodes; lia).
        unfold su1, fwd_step. rewrite upd_other by (nodes; lia). exact Ee.
Qed.

Lemma fwd_leaves w : wf w -> forall m k su, (k + m = length w)%nat -> FInv w k su ->
  FInv w (length w)
       (fold_left (fwd_step (network w)) (flat_map (fun i => [nstart i; nend i]) (seq k m)) su).
Proof.
  intros Hwf m. induction m as [|m IH]; intros k su Hkm Hinv.
  - lk. replace (length w) with k by lia. exact Hinv.
  - cbn [seq flat_map app fold_left]. apply IH; [lia|]. apply fwd_leaf; [exact Hwf|lia|exact Hinv].
Qed.

(* some leaf without successors finishes at least as late as any given leaf *)
Lemma sink_above w : wf w -> forall i, (i < length w)%nat ->
  exists s, (s < length w)%nat /\ succs w s = [] /\ ef w i <= ef w s.
Proof.
  intros Hwf.
  assert (H : forall k i, (length w <= k + i)%nat -> (i < length w)%nat ->
                          exists s, (s < length w)%nat /\ succs w s = [] /\ ef w i <= ef w s).
  { induction k as [|k IH]; intros i Hk Hi; [lia|].
    destruct (succs w i) as [|s0 rest] eqn:E.
    - exists i. split; [exact Hi|]. split; [exact E|lia].
    - assert (Hin : In s0 (succs w i)) by (rewrite E; now left).
      pose proof (succs_gt w i s0 Hwf Hin) as Hlt. apply succs_spec in Hin as [Hs1 Hs2].
      destruct (IH s0 ltac:(lia) Hs1) as [s [Hs [Hnone Hle]]].
      exists s. split; [exact Hs|]. split; [exact Hnone|].
      pose proof (ef_pred_le w s0 i Hwf Hs2) as Hp. destruct (Hwf s0) as [Hd _]. lia. }
  intros i Hi. apply (H (length w) i); lia.
Qed.

Lemma forward_spec w : wf w ->
  forward w nbegin = 0 /\
  (forall j, (j < length w)%nat -> forward w (nstart j) = ef w j - dur w j /\ forward w (nend j) = ef w j) /\
  forward w (nfinish w) = proj_len w.
Proof.
  intros Hwf. unfold forward. rewrite fold_left_app. cbn [fold_left].
  set (suN := fold_left (fwd_step (network w)) (work_nodes w) (fun _ => 0)).
  assert (Hinv : FInv w (length w) suN).
  { unfold suN, work_nodes. apply fwd_leaves; [exact Hwf|lia|]. split; [reflexivity|]. intros j Hj. lia. }
  destruct Hinv as [Hb Hinv].
  split; [|split].
  - unfold fwd_step. rewrite upd_other by (nodes; lia). exact Hb.
  - intros j Hj. destruct (Hinv j Hj) as [Es Ee].
    unfold fwd_step. rewrite !upd_other by (nodes; lia). split; assumption.
  - unfold fwd_step. rewrite upd_same. apply maxl_eq_by.
    + apply proj_len_nonneg.
    + intros x Hx. apply in_map_iff in Hx as [l [<- Hl]]. apply In_blinks in Hl as [Hl El].
      destruct (into_finish w l Hl El) as [s [Hs ->]]. lk. destruct (Hinv s Hs) as [_ Ee].
      rewrite Ee, Z.add_0_r. apply proj_len_ge, Hs.
    + unfold proj_len at 1 2. destruct (maxl_map_cases (ef w) (seq 0 (length w))) as [E|[i [Hi E]]]; [now left|right].
      apply in_seq in Hi. destruct (sink_above w Hwf i ltac:(lia)) as [s [Hs [Hnone Hle]]].
      apply in_map_iff. exists (finish_link w (nend s)). split.
      * lk. destruct (Hinv s Hs) as [_ Ee]. rewrite Ee, Z.add_0_r.
        pose proof (proj_len_ge w s Hs) as Hge. unfold proj_len in Hge. lia.
      * apply In_blinks. split; [apply finish_in_network; assumption|reflexivity].
Qed.

(* ---------------------------------------------------------------------------------------- *)
(* backward pass                                                                              *)

Definition BInv (w : dag) (k : nat) (eu : nat -> Z) : Prop :=
  eu (nfinish w) = proj_len w /\
  forall j, (k <= j < length w)%nat ->
    eu (nend j) = proj_len w - (tail w j - dur w j) /\ eu (nstart j) = proj_len w - tail w j.

Lemma bwd_leaf w su k eu : wf w -> (k < length w)%nat -> BInv w (S k) eu ->
  BInv w k (bwd_step (network w) su (bwd_step (network w) su eu (nend k)) (nstart k)).
Proof.
  intros Hwf Hk [Hf Hinv].
  set (net := network w).
  set (eu1 := bwd_step net su eu (nend k)).
  assert (E1 : eu1 (nend k) = proj_len w - (tail w k - dur w k)).
  { unfold eu1, bwd_step. rewrite upd_same. rewrite (tail_eq w k Hwf Hk).
    replace (dur w k + maxl (map (tail w) (succs w k)) - dur w k) with (maxl (map (tail w) (succs w k))) by lia.
    apply min_eq_by.
    - destruct (succs w k) as [|s0 rest] eqn:Esucc.
      + apply in_map_iff. exists (finish_link w (nend k)). split.
        * lk. rewrite Hf. change (maxl (map (tail w) [])) with 0. lia.
        * apply In_flinks. split; [apply finish_in_network; assumption|reflexivity].
      + assert (Hs : exists s, In s (succs w k) /\ tail w s = maxl (map (tail w) (succs w k))).
        { rewrite Esucc. destruct (maxl_map_cases (tail w) (s0 :: rest)) as [E|[s [Hs E]]].
          - exists s0. split; [now left|]. rewrite E.
            assert (Hin : In s0 (succs w k)) by (rewrite Esucc; now left).
            pose proof (succs_gt w k s0 Hwf Hin) as Hlt.
            pose proof (tail_nonneg w s0 Hwf ltac:(lia)) as Hn.
            pose proof (maxl_map_ge (tail w) (s0 :: rest) s0 (or_introl eq_refl)) as Hg. lia.
          - exists s. split; [exact Hs|exact E]. }
        rewrite <- Esucc. destruct Hs as [s [Hs E]].
        pose proof (succs_gt w k s Hwf Hs) as Hlt.
        apply in_map_iff. exists (dep_link k s). split.
        * lk. destruct (Hinv s ltac:(lia)) as [_ Es]. rewrite Es, E. lia.
        * apply In_flinks. split; [|reflexivity]. apply dep_in_network. apply succs_spec in Hs. tauto.
    - intros y Hy. apply in_map_iff in Hy as [l [<- Hl]]. apply In_flinks in Hl as [Hl El].
      destruct (from_end w k l Hwf Hk Hl El) as [[s [Hs ->]]| ->].
      + lk. pose proof (succs_gt w k s Hwf Hs) as Hlt. destruct (Hinv s ltac:(lia)) as [_ Es].
        rewrite Es. pose proof (maxl_map_ge (tail w) (succs w k) s Hs). lia.
      + lk. rewrite Hf. pose proof (maxl_nonneg (map (tail w) (succs w k))). lia. }
  assert (E2 : bwd_step net su eu1 (nstart k) (nstart k) = proj_len w - tail w k).
  { unfold bwd_step. rewrite upd_same. apply min_eq_by.
    - apply in_map_iff. exists (work_link w k). split.
      + lk. rewrite E1. lia.
      + apply In_flinks. split; [apply work_in_network, Hk|reflexivity].
    - intros y Hy. apply in_map_iff in Hy as [l [<- Hl]]. apply In_flinks in Hl as [Hl El].
      rewrite (from_start w k l Hk Hl El). lk. rewrite E1. lia. }
  split.
  - unfold bwd_step at 1. rewrite upd_other by (nodes; lia).
    unfold eu1, bwd_step. rewrite upd_other by (nodes; lia). exact Hf.
  - intros j Hj. destruct (Nat.eq_dec j k) as [->|Hne].
    + split; [|exact E2]. unfold bwd_step at 1. rewrite upd_other by (nodes; lia). exact E1.
    + destruct (Hinv j ltac:(lia)) as [Ee Es]. split.
      * unfold bwd_step at 1. rewrite upd_other by (nodes; lia).
        unfold eu1, bwd_step. rewrite upd_other by (nodes; lia). exact Ee.
      * unfold bwd_step at 1. rewrite upd_other by (nodes; lia).
        unfold eu1, bwd_step. rewrite upd_other by (nodes; lia). exact Es.
Qed.

Lemma bwd_leaves w su : wf w -> forall k eu, (k <= length w)%nat -> BInv w k eu ->
  BInv w 0 (fold_left (bwd_step (network w) su)
                      (flat_map (fun i => [nend i; nstart i]) (rev (seq 0 k))) eu).
Proof.
  intros Hwf k. induction k as [|k IH]; intros eu Hk Hinv.
  - lk. exact Hinv.
  - rewrite seq_S, rev_app_distr. cbn [Nat.add rev app flat_map fold_left].
    apply IH; [lia|]. apply bwd_leaf; [exact Hwf|lia|exact Hinv].
Qed.

Lemma rev_flat_map_pairs (f g : nat -> nat) l :
  rev (flat_map (fun i => [f i; g i]) l) = flat_map (fun i => [g i; f i]) (rev l).
Proof.
  induction l as [|a l IH]; [reflexivity|].
  cbn [flat_map rev]. rewrite flat_map_app. cbn [flat_map app]. rewrite <- IH.
  change (f a :: g a :: flat_map (fun i => [f i; g i]) l) with ([f a; g a] ++ flat_map (fun i => [f i; g i]) l).
  rewrite rev_app_distr. reflexivity.
Qed.

Lemma backward_spec w : wf w -> forall j, (j < length w)%nat ->
  backward w (forward w) (nend j) = proj_len w - (tail w j - dur w j).
Proof.
  intros Hwf j Hj. unfold backward. rewrite rev_app_distr. cbn [rev app fold_left].
  unfold work_nodes. rewrite rev_flat_map_pairs.
  set (eu0 := bwd_step (network w) (forward w) (fun _ => 0) (nfinish w)).
  assert (Hinv : BInv w (length w) eu0).
  { split; [|intros i Hi; lia].
    unfold eu0, bwd_step. rewrite upd_same. unfold flinks.
    rewrite (filter_nil (fun l => Nat.eqb (lstart l) (nfinish w))).
    - lk. apply forward_spec, Hwf.
    - intros l Hl. apply Nat.eqb_neq. apply from_finish_none; assumption. }
  destruct (bwd_leaves w (forward w) Hwf (length w) eu0 (Nat.le_refl _) Hinv) as [_ H].
  apply H. lia.
Qed.

(* ---------------------------------------------------------------------------------------- *)
(* the slack the code tests is the float of the declarative characterisation                  *)

Lemma slack_eq w i : wf w -> (i < length w)%nat -> slack w i = proj_len w - through w i.
Proof.
  intros Hwf Hi. unfold slack, through. cbv zeta.
  rewrite (backward_spec w Hwf i Hi).
  destruct (forward_spec w Hwf) as [_ [Hfw _]]. destruct (Hfw i Hi) as [Es _]. rewrite Es. lia.
Qed.

Lemma critical_spec w i : wf w ->
  In i (critical w) <-> (i < length w)%nat /\ through w i = proj_len w.
Proof.
  intros Hwf. unfold critical. cbv zeta. rewrite filter_In, in_seq. split.
  - intros [Hi E]. assert (Hi' : (i < length w)%nat) by lia. split; [exact Hi'|].
    pose proof (slack_eq w i Hwf Hi') as Hs. unfold slack in Hs. cbv zeta in Hs. lia.
  - intros [Hi E]. split; [lia|].
    pose proof (slack_eq w i Hwf Hi) as Hs. unfold slack in Hs. cbv zeta in Hs. lia.
Qed.

Lemma critical_nonempty w : wf w -> w <> [] -> critical w <> [].
Proof.
  intros Hwf Hne. destruct (exists_zero_float w Hwf Hne) as [i [Hi E]].
  intros Hnil. assert (Hin : In i (critical w)) by (apply critical_spec; [exact Hwf|split; assumption]).
  rewrite Hnil in Hin. destruct Hin.
Qed.

(* the result has no repetitions and is in the order of the leaves *)
Lemma critical_nodup w : NoDup (critical w).
Proof. unfold critical. cbv zeta. apply NoDup_filter, seq_NoDup. Qed.
