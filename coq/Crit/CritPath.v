(* C12 - critical path.  Model of pjplan/alg/critical_path.py (CriticalPathCalculator, as repaired by
   fixes/C12-1, C12-2) and of the specification it is proved equal to.  Definitions only.

   Numbers are exact: durations are integers (the harness scales the decimal estimates of a case by
   a common denominator; the repaired code computes with fractions.Fraction).

   Three layers:
   1. [wbs]  : the hierarchy with the links as the user declared them (on leaves and on summaries,
               possibly to tasks outside the WBS) and its expansion to a network of leaves;
   2. [dag]  : leaves in a topological order, each with its duration and the positions of its
               effective predecessors; earliest finish [ef], longest remaining tail [tail],
               project length [proj_len] - the declarative side;
   3. the activity-on-arc network the code builds (two nodes per leaf, a work arc, a zero arc per
      dependency, a begin and a finish node), its forward and backward pass and the slack test -
      the code side; [critical] is what calc() returns. *)
From PJ Require Import Base.Prelude.
Open Scope Z_scope.

(* ------------------------------------------------------------------------------------------ *)
(* 2. the leaf network                                                                          *)

Definition node : Type := Z * list nat.      (* duration, positions of the effective predecessors *)
Definition dag : Type := list node.

Definition dur (w : dag) (i : nat) : Z :=
  match nth_error w i with Some (d, _) => d | None => 0 end.
Definition preds (w : dag) (i : nat) : list nat :=
  match nth_error w i with Some (_, ps) => ps | None => [] end.

(* durations are not negative (max(estimate - spent, 0)) and the order is topological *)
Definition wf (w : dag) : Prop :=
  forall i, 0 <= dur w i /\ forall p, In p (preds w i) -> (p < i)%nat.

Definition wf_b (w : dag) : bool :=
  forallb (fun i => (0 <=? dur w i) && forallb (fun p => Nat.ltb p i) (preds w i)) (seq 0 (length w)).

Definition succs (w : dag) (i : nat) : list nat :=
  filter (fun s => existsb (Nat.eqb i) (preds w s)) (seq 0 (length w)).

(* maximum of a list of lengths, at least 0 (Python: max_start = 0; for ...: max(max_start, ...)) *)
Definition maxl (l : list Z) : Z := fold_right Z.max 0 l.

(* earliest finish: own duration after the latest earliest finish of the predecessors *)
Fixpoint ef_fuel (f : nat) (w : dag) (i : nat) : Z :=
  match f with
  | O => 0
  | S f' => dur w i + maxl (map (ef_fuel f' w) (preds w i))
  end.
Definition ef (w : dag) (i : nat) : Z := ef_fuel (S i) w i.

(* longest remaining tail, own duration included *)
Fixpoint tail_fuel (f : nat) (w : dag) (i : nat) : Z :=
  match f with
  | O => 0
  | S f' => dur w i + maxl (map (tail_fuel f' w) (succs w i))
  end.
Definition tail (w : dag) (i : nat) : Z := tail_fuel (length w - i) w i.

Definition proj_len (w : dag) : Z := maxl (map (ef w) (seq 0 (length w))).

(* length of the longest chain through leaf i *)
Definition through (w : dag) (i : nat) : Z := ef w i + tail w i - dur w i.

(* dependency chains as an inductive type: [chain_to w i len] - a chain of leaves, each an effective
   predecessor of the next, that ends in i and lasts len; [chain_from w i len] - one that starts in i *)
Inductive chain_to (w : dag) : nat -> Z -> Prop :=
| chain_to_one : forall i, (i < length w)%nat -> chain_to w i (dur w i)
| chain_to_step : forall p i len, (i < length w)%nat -> In p (preds w i) -> chain_to w p len ->
    chain_to w i (len + dur w i).

Inductive chain_from (w : dag) : nat -> Z -> Prop :=
| chain_from_one : forall i, (i < length w)%nat -> chain_from w i (dur w i)
| chain_from_step : forall i s len, (s < length w)%nat -> In i (preds w s) -> chain_from w s len ->
    chain_from w i (dur w i + len).

(* the same network measured in another unit (the harness turns decimal amounts into integers by
   multiplying with their common denominator) *)
Definition scale (k : Z) (w : dag) : dag := map (fun n => (k * fst n, snd n)) w.

(* ------------------------------------------------------------------------------------------ *)
(* 3. the network of the code                                                                   *)

Record link := { lstart : nat; lend : nat; lunits : Z }.      (* _PLink; nodes (_PNode) are numbers *)

Definition nbegin : nat := 0%nat.                              (* begin = _PNode() in calc() *)
Definition nstart (i : nat) : nat := S (2 * i).                (* __add_work: start = new_node() *)
Definition nend (i : nat) : nat := S (S (2 * i)).              (*             end = new_node()   *)
Definition nfinish (w : dag) : nat := S (2 * length w).        (* end = _PNode() in calc() *)

Definition work_link (w : dag) (i : nat) : link :=
  {| lstart := nstart i; lend := nend i; lunits := dur w i |}.
Definition dep_link (p i : nat) : link :=
  {| lstart := nend p; lend := nstart i; lunits := 0 |}.

(* __add_work(id, units, predecessors): the work arc, then a zero arc from the end node of each
   predecessor to the start node *)
Definition add_work (i : nat) (n : node) : list link :=
  {| lstart := nstart i; lend := nend i; lunits := fst n |}
  :: map (fun p => dep_link p i) (snd n).

Fixpoint core_from (i : nat) (w : dag) : list link :=
  match w with
  | [] => []
  | n :: r => add_work i n ++ core_from (S i) r
  end.
Definition core (w : dag) : list link := core_from 0 w.

(* self.__nodes: a start and an end node per task, in insertion order *)
Definition work_nodes (w : dag) : list nat :=
  flat_map (fun i => [nstart i; nend i]) (seq 0 (length w)).

Definition blinks (ls : list link) (v : nat) : list link := filter (fun l => Nat.eqb (lend l) v) ls.
Definition flinks (ls : list link) (v : nat) : list link := filter (fun l => Nat.eqb (lstart l) v) ls.
Definition no_links (ls : list link) : bool := match ls with [] => true | _ => false end.

(* calc(): begin is connected to every node without backward links, every node without forward
   links to the finish node (both sets are computed before any of these arcs is added) *)
Definition network (w : dag) : list link :=
  let c := core w in
  c ++ map (fun v => {| lstart := nbegin; lend := v; lunits := 0 |})
           (filter (fun v => no_links (blinks c v)) (work_nodes w))
    ++ map (fun v => {| lstart := v; lend := nfinish w; lunits := 0 |})
           (filter (fun v => no_links (flinks c v)) (work_nodes w)).

(* node attributes start_units / end_units as a memo table *)
Definition upd (m : nat -> Z) (k : nat) (x : Z) : nat -> Z :=
  fun v => if Nat.eqb v k then x else m v.

(* __forward(node): latest start_units + units over the backward links, at least 0 *)
Definition fwd_step (ls : list link) (su : nat -> Z) (v : nat) : nat -> Z :=
  upd su v (maxl (map (fun l => su (lstart l) + lunits l) (blinks ls v))).

(* for n in self.__nodes + [end]: self.__forward(n)   (begin.start_units = 0) *)
Definition forward (w : dag) : nat -> Z :=
  fold_left (fwd_step (network w)) (work_nodes w ++ [nfinish w]) (fun _ => 0).

(* __backward(node): earliest end_units - units over the forward links; start_units if there are none *)
Definition bwd_step (ls : list link) (su eu : nat -> Z) (v : nat) : nat -> Z :=
  upd eu v (match map (fun l => eu (lend l) - lunits l) (flinks ls v) with
            | [] => su v
            | x :: r => fold_left Z.min r x
            end).

(* for n in self.__nodes: self.__backward(n): the memoised recursion visits a node after all nodes
   its forward links lead to, i.e. it fills the table in reverse creation order, finish node first *)
Definition backward (w : dag) (su : nat -> Z) : nat -> Z :=
  fold_left (bwd_step (network w) su) (rev (work_nodes w ++ [nfinish w])) (fun _ => 0).

(* r = v.end.end_units - v.start.start_units - v.units *)
Definition slack (w : dag) (i : nat) : Z :=
  let su := forward w in
  let eu := backward w su in
  eu (nend i) - su (nstart i) - dur w i.

(* what calc() returns (positions of the leaves): if r == 0: res.append(...) *)
Definition critical (w : dag) : list nat :=
  let su := forward w in
  let eu := backward w su in
  filter (fun i => (eu (nend i) - su (nstart i) - dur w i) =? 0) (seq 0 (length w)).

(* ------------------------------------------------------------------------------------------ *)
(* 1. the hierarchy and its expansion                                                           *)

Record wtask := {
  wparent : option nat;        (* position of the parent in the task list *)
  wpreds : list nat;           (* declared predecessors (positions), on leaves and on summaries *)
  winside : bool;              (* false: a task that is not part of the WBS (other project) *)
  west : option Z;             (* estimate, None = missing *)
  wspent : option Z            (* spent *)
}.
Definition wbs : Type := list wtask.

Definition oz (x : option Z) : Z := match x with Some v => v | None => 0 end.
Definition parent_of (b : wbs) (t : nat) : option nat :=
  match nth_error b t with Some x => wparent x | None => None end.
Definition declared (b : wbs) (t : nat) : list nat :=
  match nth_error b t with Some x => wpreds x | None => [] end.
(* max(estimate - spent, 0), missing values count as 0 *)
Definition task_dur (b : wbs) (t : nat) : Z :=
  match nth_error b t with Some x => Z.max (oz (west x) - oz (wspent x)) 0 | None => 0 end.

Fixpoint ancestors (fuel : nat) (b : wbs) (t : nat) : list nat :=
  match fuel with
  | O => []
  | S f => match parent_of b t with Some p => p :: ancestors f b p | None => [] end
  end.
Definition ancs (b : wbs) (t : nat) : list nat := ancestors (length b) b t.

Definition has_child (b : wbs) (t : nat) : bool :=
  existsb (fun x => match wparent x with Some p => Nat.eqb p t | None => false end) b.
Definition is_leaf (b : wbs) (t : nat) : bool :=
  match nth_error b t with Some x => winside x && negb (has_child b t) | None => false end.
Definition under (b : wbs) (l a : nat) : bool := Nat.eqb l a || existsb (Nat.eqb a) (ancs b l).
Definition leaves_under (b : wbs) (a : nat) : list nat :=
  filter (fun l => is_leaf b l && under b l a) (seq 0 (length b)).

(* the effective predecessors of a leaf: the leaves (inside the WBS) under every predecessor
   declared on the leaf itself or on any of its ancestors *)
Definition eff_preds (b : wbs) (l : nat) : list nat :=
  flat_map (leaves_under b) (flat_map (declared b) (l :: ancs b l)).

(* declarative ancestor relation *)
Inductive anc (b : wbs) : nat -> nat -> Prop :=     (* anc b a t: a is a proper ancestor of t *)
| anc_parent : forall t p, parent_of b t = Some p -> anc b p t
| anc_up : forall t p a, parent_of b t = Some p -> anc b a p -> anc b a t.

Definition leaf_under (b : wbs) (l a : nat) : Prop := is_leaf b l = true /\ (l = a \/ anc b a l).

(* tasks are listed parents first *)
Definition parents_first (b : wbs) : Prop := forall t p, parent_of b t = Some p -> (p < t)%nat.

(* the leaf network of a WBS for a given order of its leaves *)
Fixpoint index_of (x : nat) (l : list nat) : option nat :=
  match l with
  | [] => None
  | y :: r => if Nat.eqb x y then Some O else option_map S (index_of x r)
  end.
Definition pos (order : list nat) (t : nat) : nat :=
  match index_of t order with Some k => k | None => length order end.
Definition dag_of (b : wbs) (order : list nat) : dag :=
  map (fun l => (task_dur b l, map (pos order) (eff_preds b l))) order.

Definition critical_tasks (b : wbs) (order : list nat) : list nat :=
  map (fun i => nth i order O) (critical (dag_of b order)).
