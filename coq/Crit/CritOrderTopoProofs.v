(* C12 - proofs about the topological sort of CritOrder.v: soundness (what topo_sort returns lists
   every leaf exactly once and makes dag_of well-formed), completeness (it succeeds on every acyclic
   WBS), acyclic <-> a topological enumeration of the leaves exists, and the statement of C12 with no
   order supplied from outside. *)
From Coq Require Import Permutation.
From PJ Require Import Base.Prelude Crit.CritPath Crit.CritPathProofs Crit.CritNetProofs
  Crit.CritWbsProofs Crit.CritCheck Crit.CritCheckProofs Crit.CritOrder Crit.CritOrderProofs.
Open Scope Z_scope.

(* ---------------------------------------------------------------------------------------- *)
(* enumerations of the leaves                                                                 *)

Lemma leaves_spec b t : In t (leaves b) <-> is_leaf b t = true.
Proof.
  unfold leaves. rewrite filter_In, in_seq. split; [tauto|].
  intros H. split; [|exact H]. pose proof (is_leaf_lt b t H). lia.
Qed.

Lemma leaves_nodup b : NoDup (leaves b).
Proof. unfold leaves. apply NoDup_filter, seq_NoDup. Qed.

Lemma nodup_b_spec l : nodup_b l = true <-> NoDup l.
Proof.
  induction l as [|x r IH]; cbn [nodup_b].
  - split; [constructor|reflexivity].
  - rewrite andb_true_iff, negb_true_iff, IH. split.
    + intros [H1 H2]. constructor; [|exact H2]. intros Hc. apply mem_spec in Hc. congruence.
    + intros H. inversion H as [|? ? H1 H2]; subst. split; [|exact H2].
      destruct (mem x r) eqn:E; [|reflexivity]. apply mem_spec in E. contradiction.
Qed.

Lemma order_ok_spec b order : order_ok b order = true <-> enumerates_leaves b order.
Proof.
  unfold order_ok, enumerates_leaves. rewrite !andb_true_iff, nodup_b_spec, !subset_spec. split.
  - intros [[H1 H2] H3]. split; [exact H1|]. intros t. rewrite <- leaves_spec. split; [apply H2|apply H3].
  - intros [H1 H2]. split; [split; [exact H1|]|]; intros t Ht.
    + apply leaves_spec, H2, Ht.
    + apply H2, leaves_spec, Ht.
Qed.

Lemma enumerates_same b o1 o2 : enumerates_leaves b o1 -> enumerates_leaves b o2 ->
  forall t, In t o1 <-> In t o2.
Proof. intros [_ H1] [_ H2] t. rewrite H1, H2. reflexivity. Qed.

Lemma enumerates_leaves_self b : enumerates_leaves b (leaves b).
Proof. split; [apply leaves_nodup|apply leaves_spec]. Qed.

(* ---------------------------------------------------------------------------------------- *)
(* topological orders of tasks                                                                *)

(* every effective predecessor of a listed task is listed earlier *)
Definition topo_ok (b : wbs) (o : list nat) : Prop :=
  forall i t, nth_error o i = Some t -> forall q, In q (eff_preds b t) ->
  exists j, (j < i)%nat /\ nth_error o j = Some q.

Lemma topo_ok_wf b o : topo_ok b o -> wf (dag_of b o).
Proof.
  intros H i. destruct (nth_error o i) as [t|] eqn:E.
  - split; [rewrite (dag_of_dur b o i t E); apply task_dur_nonneg|].
    intros p Hp. rewrite (dag_of_preds b o i t E) in Hp. apply in_map_iff in Hp as [q [<- Hq]].
    destruct (H i t E q Hq) as [j [Hj Hn]]. pose proof (pos_le o q j Hn). lia.
  - unfold dur, preds, dag_of. rewrite nth_error_map, E. cbn. split; [lia|intros p []].
Qed.

Lemma wf_topo_ok b o : wf (dag_of b o) -> topo_ok b o.
Proof.
  intros Hwf i t Ht q Hq. destruct (wf_pred_earlier b o i t q Hwf Ht Hq) as [H1 H2].
  exists (pos o q). split; assumption.
Qed.

Lemma topo_ok_nil b : topo_ok b [].
Proof. intros [|i] t H; discriminate. Qed.

Lemma topo_ok_snoc b o t : topo_ok b o -> ready b o t = true -> topo_ok b (o ++ [t]).
Proof.
  intros H Hr i x Hx q Hq. destruct (Nat.lt_ge_cases i (length o)) as [Hi|Hi].
  - rewrite nth_error_app1 in Hx by exact Hi. destruct (H i x Hx q Hq) as [j [Hj Hn]].
    exists j. split; [exact Hj|]. rewrite nth_error_app1 by lia. exact Hn.
  - rewrite nth_error_app2 in Hx by exact Hi.
    destruct (i - length o)%nat as [|k] eqn:E; cbn in Hx; [|destruct k; discriminate].
    injection Hx as <-. unfold ready in Hr. rewrite forallb_forall in Hr.
    specialize (Hr q Hq). apply mem_spec in Hr. apply In_nth_error in Hr as [j Hj].
    assert (Hlt : (j < length o)%nat) by (apply nth_error_Some; congruence).
    exists j. split; [lia|]. rewrite nth_error_app1 by exact Hlt. exact Hj.
Qed.

(* ---------------------------------------------------------------------------------------- *)
(* pick                                                                                       *)

Lemma pick_some b placed : forall todo t todo', pick b placed todo = Some (t, todo') ->
  ready b placed t = true /\ Permutation todo (t :: todo').
Proof.
  induction todo as [|a r IH]; intros t todo' H; cbn [pick] in H; [discriminate|].
  destruct (ready b placed a) eqn:Ea.
  - injection H as <- <-. split; [exact Ea|apply Permutation_refl].
  - destruct (pick b placed r) as [[x r']|] eqn:E; [|discriminate]. injection H as <- <-.
    destruct (IH x r' eq_refl) as [H1 H2]. split; [exact H1|].
    eapply perm_trans; [apply perm_skip, H2|apply perm_swap].
Qed.

Lemma pick_none b placed : forall todo, pick b placed todo = None ->
  forall t, In t todo -> ready b placed t = false.
Proof.
  induction todo as [|a r IH]; intros H t Ht; [destruct Ht|]. cbn [pick] in H.
  destruct (ready b placed a) eqn:Ea; [discriminate|].
  destruct (pick b placed r) as [[x r']|] eqn:E; [discriminate|].
  destruct Ht as [<-|Ht]; [exact Ea|]. apply IH; [reflexivity|exact Ht].
Qed.

(* ---------------------------------------------------------------------------------------- *)
(* soundness                                                                                  *)

Lemma topo_go_sound b : forall f placed todo o, topo_go f b placed todo = Some o ->
  topo_ok b placed -> topo_ok b o /\ Permutation (placed ++ todo) o.
Proof.
  induction f as [|f IH]; intros placed todo o H Hok; destruct todo as [|a r]; cbn [topo_go] in H.
  - injection H as <-. split; [exact Hok|]. rewrite app_nil_r. apply Permutation_refl.
  - discriminate.
  - injection H as <-. split; [exact Hok|]. rewrite app_nil_r. apply Permutation_refl.
  - destruct (pick b placed (a :: r)) as [[t todo']|] eqn:E; [|discriminate].
    destruct (pick_some b placed (a :: r) t todo' E) as [Hr Hp].
    destruct (IH (placed ++ [t]) todo' o H (topo_ok_snoc b placed t Hok Hr)) as [H1 H2].
    split; [exact H1|]. eapply perm_trans; [|exact H2].
    rewrite <- app_assoc. apply Permutation_app_head. exact Hp.
Qed.

Lemma topo_sort_perm b o : topo_sort b = Some o -> topo_ok b o /\ Permutation (leaves b) o.
Proof. intros H. apply (topo_go_sound b _ [] (leaves b) o H (topo_ok_nil b)). Qed.

Lemma topo_sort_sound b o : topo_sort b = Some o ->
  enumerates_leaves b o /\ wf (dag_of b o).
Proof.
  intros H. destruct (topo_sort_perm b o H) as [H1 H2]. split; [|apply topo_ok_wf, H1].
  split; [apply (Permutation_NoDup H2), leaves_nodup|].
  intros t. rewrite <- leaves_spec. split; apply Permutation_in; [apply Permutation_sym, H2|exact H2].
Qed.

Lemma topo_sort_order_ok b o : topo_sort b = Some o ->
  order_ok b o = true /\ wf_b (dag_of b o) = true.
Proof.
  intros H. destruct (topo_sort_sound b o H) as [H1 H2].
  split; [apply order_ok_spec, H1|apply wf_b_spec, H2].
Qed.

(* ---------------------------------------------------------------------------------------- *)
(* completeness: if nothing is ready there is a cycle                                         *)

Lemma reach_left b x t y : In x (eff_preds b t) -> reach b t y -> reach b x y.
Proof.
  intros Hx H. induction H as [t y Ht|t m y Hr IH Hm].
  - apply reach_step with (m := t); [apply reach_one, Hx|exact Ht].
  - apply reach_step with (m := m); [apply IH, Hx|exact Hm].
Qed.

Lemma reach_leaf b q t : reach b q t -> is_leaf b q = true.
Proof. intros H. induction H as [q t Hq|q m t Hr IH Hm]; [eapply eff_preds_leaves, Hq|exact IH]. Qed.

(* a list of tasks each of which is an effective predecessor of the next *)
Inductive walk (b : wbs) : list nat -> Prop :=
| walk_one : forall t, walk b [t]
| walk_cons : forall q t l, In q (eff_preds b t) -> walk b (t :: l) -> walk b (q :: t :: l).

Lemma walk_reach b : forall l x, walk b (x :: l) -> forall y, In y l -> reach b x y.
Proof.
  induction l as [|t l IH]; intros x Hw y Hy; [destruct Hy|].
  inversion Hw as [|q t' l' Hq Hw' [Eq Et]]. subst.
  destruct Hy as [<-|Hy]; [apply reach_one, Hq|].
  apply reach_left with (t := t); [exact Hq|]. apply IH; assumption.
Qed.

Lemma walk_suffix b : forall l1 l2, l2 <> [] -> walk b (l1 ++ l2) -> walk b l2.
Proof.
  induction l1 as [|a l1 IH]; intros l2 Hne Hw; [exact Hw|]. apply IH; [exact Hne|].
  cbn [app] in Hw. inversion Hw as [t Et|q t l Hq Hw' Et].
  - exfalso. destruct l1; [apply Hne; cbn in *; congruence|discriminate].
  - exact Hw'.
Qed.

Lemma dup_split : forall l : list nat,
  NoDup l \/ exists l1 x l2, l = l1 ++ x :: l2 /\ In x l2.
Proof.
  induction l as [|a l IH]; [left; constructor|].
  destruct (in_dec Nat.eq_dec a l) as [Hin|Hnin].
  - right. exists [], a, l. split; [reflexivity|exact Hin].
  - destruct IH as [IH|[l1 [x [l2 [E Hx]]]]].
    + left. constructor; assumption.
    + right. exists (a :: l1), x, l2. split; [rewrite E; reflexivity|exact Hx].
Qed.

Lemma long_walk b todo : todo <> [] ->
  (forall t, In t todo -> exists q, In q todo /\ In q (eff_preds b t)) ->
  forall n, exists l, walk b l /\ length l = S n /\ incl l todo.
Proof.
  intros Hne H. induction n as [|n IH].
  - destruct todo as [|t r]; [congruence|]. exists [t]. split; [constructor|]. split; [reflexivity|].
    intros x [<-|[]]. now left.
  - destruct IH as [l [Hw [Hl Hi]]]. destruct l as [|t l]; [discriminate|].
    destruct (H t (Hi t (or_introl eq_refl))) as [q [Hq1 Hq2]].
    exists (q :: t :: l). split; [apply walk_cons; assumption|]. split; [cbn in *; lia|].
    intros x [<-|Hx]; [exact Hq1|apply Hi, Hx].
Qed.

Lemma stuck_cycle b todo : todo <> [] ->
  (forall t, In t todo -> exists q, In q todo /\ In q (eff_preds b t)) ->
  exists x, reach b x x.
Proof.
  intros Hne H. destruct (long_walk b todo Hne H (length todo)) as [l [Hw [Hl Hi]]].
  destruct (dup_split l) as [Hnd|[l1 [x [l2 [E Hx]]]]].
  - pose proof (NoDup_incl_length Hnd Hi). lia.
  - exists x. subst l. apply walk_suffix in Hw; [|discriminate]. apply (walk_reach b l2 x Hw x Hx).
Qed.

Lemma forallb_false {A} (f : A -> bool) : forall l, forallb f l = false -> exists x, In x l /\ f x = false.
Proof.
  induction l as [|a l IH]; cbn [forallb]; intros H; [discriminate|].
  destruct (f a) eqn:E.
  - destruct (IH H) as [x [H1 H2]]. exists x. split; [now right|exact H2].
  - exists a. split; [now left|exact E].
Qed.

Lemma pick_progress b placed todo : acyclic b -> todo <> [] ->
  (forall q, is_leaf b q = true -> In q (placed ++ todo)) ->
  exists t todo', pick b placed todo = Some (t, todo').
Proof.
  intros Hac Hne Hinv. destruct (pick b placed todo) as [[t todo']|] eqn:E; [eauto|]. exfalso.
  destruct (stuck_cycle b todo Hne) as [x Hx]; [|apply (Hac x Hx)].
  intros t Ht. pose proof (pick_none b placed todo E t Ht) as Hr.
  apply forallb_false in Hr as [q [Hq Hm]]. exists q. split; [|exact Hq].
  pose proof (Hinv q (eff_preds_leaves b t q Hq)) as Hin. apply in_app_or in Hin as [Hin|Hin]; [|exact Hin].
  apply mem_spec in Hin. congruence.
Qed.

Lemma topo_go_complete b : acyclic b -> forall f placed todo, (length todo <= f)%nat ->
  (forall q, is_leaf b q = true -> In q (placed ++ todo)) ->
  exists o, topo_go f b placed todo = Some o.
Proof.
  intros Hac. induction f as [|f IH]; intros placed todo Hl Hinv; destruct todo as [|a r]; cbn [topo_go].
  - eauto.
  - cbn in Hl. lia.
  - eauto.
  - destruct (pick_progress b placed (a :: r) Hac ltac:(discriminate) Hinv) as [t [todo' E]].
    rewrite E. destruct (pick_some b placed (a :: r) t todo' E) as [_ Hp]. apply IH.
    + apply Permutation_length in Hp. cbn in Hp, Hl. lia.
    + intros q Hq. specialize (Hinv q Hq). rewrite <- app_assoc. apply in_or_app.
      apply in_app_or in Hinv as [Hin|Hin]; [now left|right]. apply (Permutation_in _ Hp), Hin.
Qed.

Lemma topo_sort_complete b : acyclic b -> exists o, topo_sort b = Some o.
Proof.
  intros Hac. unfold topo_sort. apply topo_go_complete; [exact Hac|lia|].
  intros q Hq. cbn [app]. apply leaves_spec, Hq.
Qed.

(* ---------------------------------------------------------------------------------------- *)
(* acyclic <-> a topological enumeration of the leaves exists                                 *)

Lemma reach_earlier b order : wf (dag_of b order) -> forall q t, reach b q t ->
  forall i, nth_error order i = Some t -> exists j, (j < i)%nat /\ nth_error order j = Some q.
Proof.
  intros Hwf q t H. induction H as [q t Hq|q m t Hr IH Hm]; intros i Ht.
  - destruct (wf_pred_earlier b order i t q Hwf Ht Hq) as [H1 H2]. eauto.
  - destruct (wf_pred_earlier b order i t m Hwf Ht Hm) as [H1 H2].
    destruct (IH _ H2) as [j [Hj Hn]]. exists j. split; [lia|exact Hn].
Qed.

Lemma wf_acyclic b order : wf (dag_of b order) -> (forall t, is_leaf b t = true -> In t order) ->
  acyclic b.
Proof.
  intros Hwf Hall t Hr. pose proof (Hall t (reach_leaf b t t Hr)) as Hin.
  apply In_nth_error in Hin as [k Hk]. pose proof (pos_le order t k Hk) as Hle.
  assert (Hlen : (k < length order)%nat) by (apply nth_error_Some; congruence).
  assert (Hp : nth_error order (pos order t) = Some t) by (apply pos_lt_nth; lia).
  destruct (reach_earlier b order Hwf t t Hr _ Hp) as [j [Hj Hn]].
  pose proof (pos_le order t j Hn). lia.
Qed.

Lemma acyclic_iff_order b :
  acyclic b <-> exists order, enumerates_leaves b order /\ wf (dag_of b order).
Proof.
  split.
  - intros Hac. destruct (topo_sort_complete b Hac) as [o Ho]. exists o. apply topo_sort_sound, Ho.
  - intros [order [[_ He] Hwf]]. apply (wf_acyclic b order Hwf). intros t Ht. apply He, Ht.
Qed.

Lemma topo_sort_some_iff b : (exists o, topo_sort b = Some o) <-> acyclic b.
Proof.
  split; [|apply topo_sort_complete]. intros [o Ho]. apply acyclic_iff_order. exists o.
  apply topo_sort_sound, Ho.
Qed.

(* the sort fails exactly on the cyclic WBSs (where the repaired code raises KeyError) *)
Lemma topo_sort_none_iff b : topo_sort b = None <-> ~ acyclic b.
Proof.
  split.
  - intros H Hac. destruct (topo_sort_complete b Hac) as [o Ho]. congruence.
  - intros H. destruct (topo_sort b) as [o|] eqn:E; [|reflexivity].
    exfalso. apply H, topo_sort_some_iff. exists o. exact E.
Qed.

(* ---------------------------------------------------------------------------------------- *)
(* C12 with no order supplied from outside                                                    *)

(* for any topological enumeration of the leaves the call returns the tasks on a longest chain of
   the network of the leaves *)
Lemma critical_tasks_leaves b order t : enumerates_leaves b order -> wf (dag_of b order) ->
  In t (critical_tasks b order) <-> tcritical b (leaves b) t.
Proof.
  intros He Hwf. rewrite (critical_tasks_tcritical b order t Hwf (proj1 He)).
  apply tcritical_ext, (enumerates_same b order (leaves b) He (enumerates_leaves_self b)).
Qed.

Lemma wbs_any_order b : acyclic b ->
  exists crit, critical_of b = Some crit
    /\ (forall t, In t crit <-> tcritical b (leaves b) t)
    /\ forall order, enumerates_leaves b order -> wf (dag_of b order) ->
       forall t, In t (critical_tasks b order) <-> In t crit.
Proof.
  intros Hac. destruct (topo_sort_complete b Hac) as [o Ho].
  destruct (topo_sort_sound b o Ho) as [He Hwf].
  exists (critical_tasks b o). unfold critical_of. rewrite Ho. split; [reflexivity|].
  split; [intros t; apply critical_tasks_leaves; assumption|].
  intros order He' Hwf' t. rewrite (critical_tasks_leaves b order t He' Hwf').
  symmetry. apply critical_tasks_leaves; assumption.
Qed.

(* never empty when the WBS has a leaf *)
Lemma critical_of_nonempty b crit : critical_of b = Some crit -> leaves b <> [] -> crit <> [].
Proof.
  unfold critical_of. destruct (topo_sort b) as [o|] eqn:Ho; [|discriminate]. intros H Hne.
  injection H as <-. destruct (topo_sort_perm b o Ho) as [Hok Hp].
  unfold critical_tasks. intros Hc. apply map_eq_nil in Hc.
  apply (critical_nonempty (dag_of b o)); [apply topo_ok_wf, Hok| |exact Hc].
  intros Hd. apply Hne.
  assert (Eo : o = []) by (apply length_zero_iff_nil; rewrite <- (dag_of_length b o), Hd; reflexivity).
  subst o. apply Permutation_sym, Permutation_nil in Hp. exact Hp.
Qed.
