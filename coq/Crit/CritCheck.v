(* C12 - the checker run on generated cases (definitions only).  A case carries the WBS as the harness
   generated it, a topological order of its leaves, the leaf network the harness expanded on its
   own, and what WBS.critical_path() did on the implementation. *)
From PJ Require Import Base.Prelude Crit.CritPath.
Open Scope Z_scope.

Definition mem (x : nat) (l : list nat) : bool := existsb (Nat.eqb x) l.
Definition subset (a b : list nat) : bool := forallb (fun x => mem x b) a.
Fixpoint nodup_b (l : list nat) : bool :=
  match l with
  | [] => true
  | x :: r => negb (mem x r) && nodup_b r
  end.

(* same duration, same set of predecessors *)
Definition node_same (a b : node) : bool :=
  (fst a =? fst b) && subset (snd a) (snd b) && subset (snd b) (snd a).
Definition dag_same (g h : dag) : bool := list_eqb node_same g h.

Definition leaves (b : wbs) : list nat := filter (is_leaf b) (seq 0 (length b)).

(* the order lists every leaf of the WBS exactly once *)
Definition order_ok (b : wbs) (order : list nat) : bool :=
  nodup_b order && subset order (leaves b) && subset (leaves b) order.

Definition parents_first_b (b : wbs) : bool :=
  forallb (fun t => match parent_of b t with Some p => Nat.ltb p t | None => true end)
          (seq 0 (length b)).

(* the returned tasks are exactly the zero-float leaves *)
Definition exact_b (b : wbs) (order returned : list nat) : bool :=
  let crit := critical_tasks b order in
  subset returned crit && subset crit returned.

Definition case : Type :=
  wbs * list nat        (* tasks (parents first), leaves in a topological order *)
  * dag                 (* the leaf network as expanded by the harness *)
  * nat                 (* outcome class of the call: 0 returned, else the exception *)
  * list nat.           (* positions of the returned tasks *)

(* 0 fine; 1 a returned task is not a zero-float leaf of the WBS; 2 a zero-float leaf is missing;
   3 a task is returned twice; 5 the call raised; 7-9 the case itself is not what the harness
   claims (order, acyclicity, expansion) *)
Definition check_case (c : case) : nat :=
  let '(b, order, hdag, code, returned) := c in
  let g := dag_of b order in
  (if negb (parents_first_b b && order_ok b order) then 7
   else if negb (wf_b g) then 8
   else if negb (dag_same g hdag) then 9
   else if negb (Nat.eqb code 0) then 5
   else let crit := critical_tasks b order in
        if negb (subset returned crit) then 1
        else if negb (subset crit returned) then 2
        else if negb (nodup_b returned) then 3
        else 0)%nat.
