(* C12 - the critical set does not depend on the unit in which amounts are measured: multiplying
   every duration by k > 0 (rational amounts -> integers) leaves [critical] unchanged. *)
From PJ Require Import Base.Prelude Crit.CritPath Crit.CritPathProofs Crit.CritNetProofs.
Open Scope Z_scope.

Lemma length_scale k w : length (scale k w) = length w.
Proof. unfold scale. apply map_length. Qed.

Lemma dur_scale k w i : dur (scale k w) i = k * dur w i.
Proof.
  unfold dur, scale, dag, node in *. rewrite nth_error_map. destruct (nth_error w i) as [[d ps]|]; cbn; lia.
Qed.

Lemma preds_scale k w i : preds (scale k w) i = preds w i.
Proof.
  unfold preds, scale, dag, node in *. rewrite nth_error_map. destruct (nth_error w i) as [[d ps]|]; reflexivity.
Qed.

Lemma succs_scale k w i : succs (scale k w) i = succs w i.
Proof.
  unfold succs. rewrite length_scale. apply filter_ext. intros s. rewrite preds_scale. reflexivity.
Qed.

Lemma wf_scale k w : 0 <= k -> wf w -> wf (scale k w).
Proof.
  intros Hk Hwf i. rewrite dur_scale, preds_scale. destruct (Hwf i) as [H1 H2]. split; [nia|exact H2].
Qed.

Lemma maxl_scale k l : 0 <= k -> maxl (map (Z.mul k) l) = k * maxl l.
Proof.
  intros Hk. induction l as [|x l IH]; cbn [map maxl fold_right]; [lia|].
  fold (maxl (map (Z.mul k) l)). fold (maxl l). rewrite IH. apply Z.mul_max_distr_nonneg_l, Hk.
Qed.

Lemma maxl_map_scale {A} k (g : A -> Z) l : 0 <= k -> maxl (map (fun a => k * g a) l) = k * maxl (map g l).
Proof. intros Hk. rewrite <- maxl_scale by exact Hk. rewrite map_map. reflexivity. Qed.

Lemma ef_fuel_scale k w : 0 <= k -> forall f i, ef_fuel f (scale k w) i = k * ef_fuel f w i.
Proof.
  intros Hk f. induction f as [|f IH]; intros i; cbn [ef_fuel]; [lia|].
  rewrite dur_scale, preds_scale.
  rewrite (map_ext (ef_fuel f (scale k w)) (fun p => k * ef_fuel f w p) IH).
  rewrite maxl_map_scale by exact Hk. lia.
Qed.

Lemma ef_scale k w i : 0 <= k -> ef (scale k w) i = k * ef w i.
Proof. intros Hk. unfold ef. apply ef_fuel_scale, Hk. Qed.

Lemma tail_fuel_scale k w : 0 <= k -> forall f i, tail_fuel f (scale k w) i = k * tail_fuel f w i.
Proof.
  intros Hk f. induction f as [|f IH]; intros i; cbn [tail_fuel]; [lia|].
  rewrite dur_scale, succs_scale.
  rewrite (map_ext (tail_fuel f (scale k w)) (fun p => k * tail_fuel f w p) IH).
  rewrite maxl_map_scale by exact Hk. lia.
Qed.

Lemma tail_scale k w i : 0 <= k -> tail (scale k w) i = k * tail w i.
Proof. intros Hk. unfold tail. rewrite length_scale. apply tail_fuel_scale, Hk. Qed.

Lemma proj_len_scale k w : 0 <= k -> proj_len (scale k w) = k * proj_len w.
Proof.
  intros Hk. unfold proj_len. rewrite length_scale.
  rewrite (map_ext (ef (scale k w)) (fun i => k * ef w i)) by (intros i; apply ef_scale, Hk).
  apply maxl_map_scale, Hk.
Qed.

Lemma critical_filter w : wf w ->
  critical w = filter (fun i => through w i =? proj_len w) (seq 0 (length w)).
Proof.
  intros Hwf. unfold critical. cbv zeta. apply filter_ext_in. intros i Hi. apply in_seq in Hi.
  pose proof (slack_eq w i Hwf ltac:(lia)) as Hs. unfold slack in Hs. cbv zeta in Hs. rewrite Hs.
  destruct (Z.eqb_spec (proj_len w - through w i) 0), (Z.eqb_spec (through w i) (proj_len w)); lia.
Qed.

Lemma critical_scale k w : 0 < k -> wf w -> wf (scale k w) /\ critical (scale k w) = critical w.
Proof.
  intros Hk Hwf. assert (Hk0 : 0 <= k) by lia.
  pose proof (wf_scale k w Hk0 Hwf) as Hwf'. split; [exact Hwf'|].
  rewrite (critical_filter _ Hwf'), (critical_filter _ Hwf), length_scale.
  apply filter_ext. intros i. unfold through.
  rewrite ef_scale, tail_scale, dur_scale, proj_len_scale by exact Hk0.
  destruct (Z.eqb_spec (k * ef w i + k * tail w i - k * dur w i) (k * proj_len w)),
           (Z.eqb_spec (ef w i + tail w i - dur w i) (proj_len w)); try reflexivity; nia.
Qed.
