(* C12 - the two behaviours of the code before fixes/C12-1 and C12-2, kept only to exhibit the
   defects (F17, F18) on the model; definitions only.  No theorem about [critical] depends on
   this file.
   F17: the same network passes computed with IEEE binary64 (Coq primitive floats), slack == 0.0.
   F18: links read from the leaf itself only (nothing inherited from summaries, a summary is not
        expanded to its leaves). *)
From Coq Require Import PrimFloat.
From PJ Require Import Base.Prelude Crit.CritPath.
Open Scope Z_scope.

(* Python: max(a, b) is a unless b > a; min(a, b) is a unless b < a *)
Definition fmax (a b : float) : float := if PrimFloat.ltb a b then b else a.
Definition fmin (a b : float) : float := if PrimFloat.ltb b a then b else a.

Definition fupd (m : nat -> float) (k : nat) (x : float) : nat -> float :=
  fun v => if Nat.eqb v k then x else m v.

(* the work arc of leaf i is the only link that starts in the (odd) node nstart i = 2i+1 *)
Definition funits (fd : list float) (l : link) : float :=
  if Nat.odd (lstart l) then nth (Nat.div2 (lstart l)) fd 0%float else 0%float.

Definition ffwd_step (ls : list link) (fd : list float) (su : nat -> float) (v : nat) : nat -> float :=
  fupd su v (fold_left (fun acc l => fmax acc (PrimFloat.add (su (lstart l)) (funits fd l))) (blinks ls v) 0%float).

Definition fbwd_step (ls : list link) (fd : list float) (su eu : nat -> float) (v : nat) : nat -> float :=
  fupd eu v (match map (fun l => PrimFloat.sub (eu (lend l)) (funits fd l)) (flinks ls v) with
             | [] => su v
             | x :: r => fold_left fmin r x
             end).

Definition fcritical (w : list (float * list nat)) : list nat :=
  let shape : dag := map (fun n => (0, snd n)) w in
  let fd := map fst w in
  let ls := network shape in
  let order := work_nodes shape ++ [nfinish shape] in
  let su := fold_left (ffwd_step ls fd) order (fun _ => 0%float) in
  let eu := fold_left (fbwd_step ls fd su) (rev order) (fun _ => 0%float) in
  filter (fun i => PrimFloat.eqb (PrimFloat.sub (PrimFloat.sub (eu (nend i)) (su (nstart i))) (nth i fd 0%float)) 0%float)
         (seq 0 (length w)).

(* the witnesses of F17: 0.1 = 0x1.999999999999ap-4, 0.2 = 0x1.999999999999ap-3,
   0.3 = 0x1.3333333333333p-2, 0.7 = 0x1.6666666666666p-1 (nearest binary64 values) *)
Definition f17_beside : list (float * list nat) :=      (* chain 0.1 -> 0.2 beside a single 0.3 *)
  [(0x1.999999999999ap-4%float, []); (0x1.999999999999ap-3%float, [0%nat]); (0x1.3333333333333p-2%float, [])].
Definition f17_chain : list (float * list nat) :=       (* single chain 0.1 -> 0.2 -> 0.7 *)
  [(0x1.999999999999ap-4%float, []); (0x1.999999999999ap-3%float, [0%nat]); (0x1.6666666666666p-1%float, [1%nat])].

(* links as the unrepaired code read them *)
Definition naive_preds (b : wbs) (l : nat) : list nat := filter (is_leaf b) (declared b l).
Definition dag_of_naive (b : wbs) (order : list nat) : dag :=
  map (fun l => (task_dur b l, map (pos order) (naive_preds b l))) order.
Definition critical_tasks_naive (b : wbs) (order : list nat) : list nat :=
  map (fun i => nth i order O) (critical (dag_of_naive b order)).
