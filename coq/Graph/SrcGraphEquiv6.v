(* Source-text tie, sixth tranche: the list facades of task.py that gen/SrcGraph.v translates from the current text of
   src/pjplan/task.py - _check_not_none, _ChildrenList.append / remove / reorder, _PredecessorsList.append / remove,
   _SuccessorsList.append / remove - against the hand-written model of Graph/Model.v (ch_append, ch_remove, ch_reorder,
   ln_append, ln_remove).  Every facade but reorder is a thin layer over one of the four relation setters, whose tie
   is in Graph/SrcGraphEquiv3-5.v; reorder writes the private list of the owner directly.

   [o] / [t] is the task that owns the list.  The result heaps are EQUAL as lists. *)
From Coq Require Import Arith PeanoNat Permutation.
From PJ Require Import Base.Prelude Graph.Model Graph.Invariant gen.SrcGraph Graph.SrcGraphEquiv Graph.SrcGraphEquiv2
  Graph.SrcGraphEquiv3 Graph.SrcGraphEquiv4 Graph.SrcGraphEquiv5 Graph.LinksProofs.
From PJ Require Graph.OracleProofs Graph.DepLemmas Graph.AncLemmas Graph.AtomicProofs Graph.AtomicLoops Graph.ParentProofs Graph.LinksOps Graph.ParentOps Graph.ChildrenOps Graph.ChildrenProofs Graph.EffectProofs.
Local Open Scope nat_scope.

(* the reading of a facade that returns a boolean (remove: "was it there") *)
Definition lift_b (r : state * outcome) (b : bool) : res (heap * bool) :=
  match snd r with Ok _ => Ok (hp (fst r), b) | Err => Err | Crash k => Crash k end.

(* ================================================================== *)
(** * small facts on the two readings *)

Lemma bind_lift_set s r : (do '(h3, _) <- lift_set s r; Ok (h3, tt)) = lift_set s r.
Proof. unfold lift_set. destruct (snd r) as [[]| |k]; reflexivity. Qed.

Lemma bind_lift_b s r b : (do '(h3, _) <- lift_set s r; Ok (h3, b)) = lift_b r b.
Proof. unfold lift_set, lift_b. destruct (snd r) as [[]| |k]; reflexivity. Qed.

Lemma lift_set_Ok s r h' u : lift_set s r = Ok (h', u) -> snd r = OK /\ h' = hp (fst r).
Proof. unfold lift_set. destruct (snd r) as [[]| |k]; try discriminate. intro E. inversion E. split; reflexivity. Qed.

Lemma lift_b_Ok r b h' b' : lift_b r b = Ok (h', b') -> snd r = OK /\ h' = hp (fst r) /\ b' = b.
Proof. unfold lift_b. destruct (snd r) as [[]| |k]; try discriminate. intro E. inversion E. repeat split; reflexivity. Qed.

Lemma lift_set_Crash s r k : lift_set s r = Crash k -> snd r = Crash k.
Proof. unfold lift_set. destruct (snd r) as [[]| |k']; try discriminate. intro E. inversion E. reflexivity. Qed.

Lemma lift_b_Crash r b k : lift_b r b = Crash k -> snd r = Crash k.
Proof. unfold lift_b. destruct (snd r) as [[]| |k']; try discriminate. intro E. inversion E. reflexivity. Qed.

Lemma WF_rebuild (s s' : state) h' : WF s' -> wroots s' = wroots s -> h' = hp s' -> WF (mkS h' (wroots s)).
Proof. intros W Ew ->. rewrite <- Ew. destruct s'; exact W. Qed.

(* the comprehension [t for t in l if t is not x] of the code is the model's [without] *)
Lemma filter_not_is (x : obj) (l : list obj) :
  map Some (map (fun t_3 => t_3) (filter (fun t_3 => negb (onat_eqb (Some t_3) (Some x))) l)) = map Some (without x l).
Proof.
  rewrite map_id. f_equal. unfold without. apply filter_ext. intro y. cbn [onat_eqb opt_eqb]. unfold onat_eqb, opt_eqb.
  rewrite (Nat.eqb_sym y x). reflexivity.
Qed.

(* ================================================================== *)
(** * _check_not_none *)

Theorem src_check_not_none_eq : forall x, src_check_not_none x = match x with None => Err | Some _ => Ok tt end.
Proof. intros [x|]; reflexivity. Qed.

(* ================================================================== *)
(** * _ChildrenList.append: the setter of Task.parent on the argument *)

Theorem src_ch_append_eq : forall s o t, WF s -> hid_tid (hp s) -> o < length (hp s) ->
  (forall t', t = Some t' -> t' < length (hp s)) ->
  src_ch_append (S (S (length (hp s)))) (wroots s) (hp s) o t = lift_set s (ch_append s o t).
Proof.
  intros s o t W Hh Lo Lt. unfold src_ch_append, ch_append.
  destruct t as [t'|]; cbn [src_check_not_none bind]; [|reflexivity].
  unfold obj in *.
  rewrite (src_set_parent_eq s t' (Some o) W Hh (Lt t' eq_refl) (ParentOps.Some_range o _ Lo)).
  apply bind_lift_set.
Qed.

(* ================================================================== *)
(** * _ChildrenList.remove: the setter of Task.children on the list without the argument *)

(* Nothing is asked of the owner nor of the argument: outside the heap the owner has no children (the argument is
   then not among them, the answer is False without a write), and the list handed to the setter holds current
   children only - objects of the heap in a well-formed state. *)
Theorem src_ch_remove_eq : forall s o t, WF s -> hid_tid (hp s) ->
  src_ch_remove (S (S (length (hp s)))) (wroots s) (hp s) o t
  = lift_b (ch_remove s o t) (match t with Some t' => memn t' (kids (get (hp s) o)) | None => false end).
Proof.
  intros s o t W Hh. unfold src_ch_remove, ch_remove.
  destruct t as [t'|]; cbn [src_check_not_none bind]; [|reflexivity]. cbv zeta.
  fold (memn t' (kids (get (hp s) o))).
  destruct (memn t' (kids (get (hp s) o))) eqn:M; [|reflexivity].
  assert (Lo : o < length (hp s)).
  { apply AncLemmas.memn_In in M. exact (AncLemmas.kids_In_lt (hp s) o t' M). }
  rewrite filter_not_is. unfold obj in *.
  rewrite (src_set_children_eq s o _ W Hh Lo).
  - apply bind_lift_b.
  - intros v Hv. apply in_map_iff in Hv. destruct Hv as [y [E Hy]]. inversion E; subst y.
    apply AncLemmas.In_without in Hy. destruct Hy as [Hy _].
    apply (ChildrenOps.kid_lt s o v); [apply W | exact Hy].
Qed.

(* ================================================================== *)
(** * _ChildrenList.reorder: the loop is the model's reorder_go; no hypothesis at all *)

Definition lift_list (h : heap) (o : obj) (r : res (list obj)) : res (heap * unit) :=
  match r with Ok l' => Ok (upd h o (with_kids l'), tt) | Err => Err | Crash c => Crash c end.

Lemma src_ch_reorder_loop1_eq h o ids : forall l newl rest,
  src_ch_reorder_loop1 h o ids l newl rest = lift_list h o (reorder_go h (kids (get h o)) l newl rest).
Proof.
  induction l as [|i r IH]; intros newl rest; cbn [src_ch_reorder_loop1 reorder_go lift_list]; [reflexivity|].
  destruct (find (fun c => Z.eqb (tid (get h c)) i) (kids (get h o))) as [c|]; [|reflexivity]. cbv zeta.
  fold (memn c rest). destruct (memn c rest); [apply IH | reflexivity].
Qed.

(* equality of outcomes, the exceptions included: the code answers StopIteration (an id that no child carries) or
   ValueError (a child named twice) exactly when the model's reorder_go does, and otherwise writes the same list *)
Theorem src_ch_reorder_outcome : forall h o ids,
  src_ch_reorder h o ids = lift_list h o (reorder_go h (kids (get h o)) ids [] (kids (get h o))).
Proof. intros h o ids. unfold src_ch_reorder. cbv zeta. apply src_ch_reorder_loop1_eq. Qed.

Theorem src_ch_reorder_eq : forall s o ids,
  src_ch_reorder (hp s) o ids = lift_set s (ch_reorder s o ids).
Proof.
  intros s o ids. rewrite src_ch_reorder_outcome. unfold ch_reorder, lift_set, lift_list. cbv zeta.
  destruct (reorder_go (hp s) (kids (get (hp s) o)) ids [] (kids (get (hp s) o))) as [l'| |c]; reflexivity.
Qed.

(* ================================================================== *)
(** * _PredecessorsList / _SuccessorsList .append: the setter on the current list followed by the argument *)

(* general form: the argument is not a hidden ancestor of the owner (all_parents masks the hidden root of the WBS,
   the model does not: SrcGraphEquiv4.src_set_links_needs_no_hidden_anc) *)
Lemma append_no_hidden_anc dir s t x' : WF s ->
  (hidden (get (hp s) x') = true -> ~ Anc (hp s) t x') ->
  no_hidden_anc s t (map Some (fwd dir (get (hp s) t)) ++ [Some x']).
Proof.
  intros W Hx v Hin Hv. apply in_app_or in Hin. destruct Hin as [Hin|[E|[]]].
  - apply in_map_iff in Hin. destruct Hin as [y [E Hy]]. inversion E; subst y.
    destruct (link_pub dir s t v W Hy) as [_ Hf]. rewrite Hf in Hv. discriminate.
  - inversion E; subst v. apply Hx. exact Hv.
Qed.

Theorem src_pred_append_eq_gen : forall s t x, WF s -> hid_tid (hp s) ->
  (forall x', x = Some x' -> hidden (get (hp s) x') = true -> ~ Anc (hp s) t x') ->
  src_pred_append (S (S (length (hp s)))) (hp s) t x = lift_set s (ln_append true s t x).
Proof.
  intros s t x W Hh Hx. unfold src_pred_append, ln_append.
  destruct x as [x'|]; cbn [src_check_not_none bind]; [|reflexivity].
  pose proof (append_no_hidden_anc true s t x' W (Hx x' eq_refl)) as Hn. cbn [fwd] in Hn. unfold obj in *.
  rewrite (src_set_predecessors_eq_gen s t _ W Hh Hn).
  cbn [fwd]. rewrite map_app. cbn [map]. apply bind_lift_set.
Qed.

Theorem src_succ_append_eq_gen : forall s t x, WF s -> hid_tid (hp s) ->
  (forall x', x = Some x' -> hidden (get (hp s) x') = true -> ~ Anc (hp s) t x') ->
  src_succ_append (S (S (length (hp s)))) (hp s) t x = lift_set s (ln_append false s t x).
Proof.
  intros s t x W Hh Hx. unfold src_succ_append, ln_append.
  destruct x as [x'|]; cbn [src_check_not_none bind]; [|reflexivity].
  pose proof (append_no_hidden_anc false s t x' W (Hx x' eq_refl)) as Hn. cbn [fwd] in Hn. unfold obj in *.
  rewrite (src_set_successors_eq_gen s t _ W Hh Hn).
  cbn [fwd]. rewrite map_app. cbn [map]. apply bind_lift_set.
Qed.

(* in the form a caller uses: the argument is not a hidden WBS root (no Python caller holds one).  Neither the
   owner nor the argument need be objects of the heap for the equation. *)
Theorem src_pred_append_eq : forall s t x, WF s -> hid_tid (hp s) ->
  (forall x', x = Some x' -> hidden (get (hp s) x') = false) ->
  src_pred_append (S (S (length (hp s)))) (hp s) t x = lift_set s (ln_append true s t x).
Proof.
  intros s t x W Hh Hx. apply src_pred_append_eq_gen; [exact W | exact Hh |].
  intros x' E Hv. rewrite (Hx x' E) in Hv. discriminate.
Qed.

Theorem src_succ_append_eq : forall s t x, WF s -> hid_tid (hp s) ->
  (forall x', x = Some x' -> hidden (get (hp s) x') = false) ->
  src_succ_append (S (S (length (hp s)))) (hp s) t x = lift_set s (ln_append false s t x).
Proof.
  intros s t x W Hh Hx. apply src_succ_append_eq_gen; [exact W | exact Hh |].
  intros x' E Hv. rewrite (Hx x' E) in Hv. discriminate.
Qed.

(* ================================================================== *)
(** * _PredecessorsList / _SuccessorsList .remove: the setter on the current list without the argument.
      Nothing is asked of the argument: the list handed to the setter holds existing link partners only, and these
      are public in a well-formed state (LinksProofs.link_pub) *)

Lemma remove_no_hidden_anc dir s t x' : WF s ->
  no_hidden_anc s t (map Some (without x' (fwd dir (get (hp s) t)))).
Proof.
  intros W v Hin Hv. apply in_map_iff in Hin. destruct Hin as [y [E Hy]]. inversion E; subst y.
  apply DepLemmas.dl_without_In in Hy. destruct Hy as [Hy _].
  destruct (link_pub dir s t v W Hy) as [_ Hf]. rewrite Hf in Hv. discriminate.
Qed.

Theorem src_pred_remove_eq : forall s t x, WF s -> hid_tid (hp s) ->
  src_pred_remove (S (S (length (hp s)))) (hp s) t x
  = lift_b (ln_remove true s t x) (match x with Some x' => memn x' (preds (get (hp s) t)) | None => false end).
Proof.
  intros s t x W Hh. unfold src_pred_remove, ln_remove.
  destruct x as [x'|]; cbn [src_check_not_none bind]; [|reflexivity]. cbv zeta. cbn [fwd].
  fold (memn x' (preds (get (hp s) t))).
  destruct (memn x' (preds (get (hp s) t))); [|reflexivity].
  rewrite filter_not_is.
  pose proof (remove_no_hidden_anc true s t x' W) as Hn. cbn [fwd] in Hn. unfold obj in *.
  rewrite (src_set_predecessors_eq_gen s t _ W Hh Hn).
  apply bind_lift_b.
Qed.

Theorem src_succ_remove_eq : forall s t x, WF s -> hid_tid (hp s) ->
  src_succ_remove (S (S (length (hp s)))) (hp s) t x
  = lift_b (ln_remove false s t x) (match x with Some x' => memn x' (succs (get (hp s) t)) | None => false end).
Proof.
  intros s t x W Hh. unfold src_succ_remove, ln_remove.
  destruct x as [x'|]; cbn [src_check_not_none bind]; [|reflexivity]. cbv zeta. cbn [fwd].
  fold (memn x' (succs (get (hp s) t))).
  destruct (memn x' (succs (get (hp s) t))); [|reflexivity].
  rewrite filter_not_is.
  pose proof (remove_no_hidden_anc false s t x' W) as Hn. cbn [fwd] in Hn. unfold obj in *.
  rewrite (src_set_successors_eq_gen s t _ W Hh Hn).
  apply bind_lift_b.
Qed.

(* ================================================================== *)
(** * consequences: an accepted call of the code leaves a well-formed graph *)

Lemma set_parent_wroots s t p : wroots (fst (set_parent s t p)) = wroots s.
Proof.
  unfold set_parent, mk. destruct (set_parent_guard s t p) as [[]| |k]; cbn [fst]; try reflexivity.
  rewrite ParentProofs.write_unfold. reflexivity.
Qed.

Lemma set_children_wroots s t vs : wroots (fst (set_children s t vs)) = wroots s.
Proof. apply (ChildrenProofs.set_children_shape s t vs). Qed.

Lemma set_links_wroots dir s t vs : wroots (fst (set_links dir s t vs)) = wroots s.
Proof. apply (set_links_shape dir s t vs). Qed.

Lemma ch_append_wroots s o t : wroots (fst (ch_append s o t)) = wroots s.
Proof. unfold ch_append. destruct t; [apply set_parent_wroots | reflexivity]. Qed.

Lemma ch_remove_wroots s o t : wroots (fst (ch_remove s o t)) = wroots s.
Proof.
  unfold ch_remove. destruct t as [t'|]; [|reflexivity]. cbv zeta.
  destruct (memn t' (kids (get (hp s) o))); [apply set_children_wroots | reflexivity].
Qed.

Lemma ch_reorder_wroots s o ids : wroots (fst (ch_reorder s o ids)) = wroots s.
Proof.
  unfold ch_reorder. cbv zeta.
  destruct (reorder_go (hp s) (kids (get (hp s) o)) ids [] (kids (get (hp s) o))); reflexivity.
Qed.

Lemma ln_append_wroots dir s t x : wroots (fst (ln_append dir s t x)) = wroots s.
Proof. unfold ln_append. destruct x; [apply set_links_wroots | reflexivity]. Qed.

Lemma ln_remove_wroots dir s t x : wroots (fst (ln_remove dir s t x)) = wroots s.
Proof.
  unfold ln_remove. destruct x as [x'|]; [|reflexivity]. cbv zeta.
  destruct (memn x' (fwd dir (get (hp s) t))); [apply set_links_wroots | reflexivity].
Qed.

(* the owner of a children list may be the hidden root of a WBS (wbs.roots.append(t)); the argument is a public task *)
Theorem src_ch_append_WF : forall s o t h' u, WF s -> hid_tid (hp s) -> o < length (hp s) ->
  (forall t', t = Some t' -> pub s t') ->
  src_ch_append (S (S (length (hp s)))) (wroots s) (hp s) o t = Ok (h', u) -> WF (mkS h' (wroots s)).
Proof.
  intros s o t h' u W Hh Lo Pt E.
  rewrite (src_ch_append_eq s o t W Hh Lo (fun t' Et => proj1 (Pt t' Et))) in E.
  apply lift_set_Ok in E. destruct E as [_ E].
  exact (WF_rebuild s _ h' (ParentOps.ch_append_WF s o t W Lo Pt) (ch_append_wroots s o t) E).
Qed.

Theorem src_ch_remove_WF : forall s o t h' b, WF s -> hid_tid (hp s) ->
  src_ch_remove (S (S (length (hp s)))) (wroots s) (hp s) o t = Ok (h', b) -> WF (mkS h' (wroots s)).
Proof.
  intros s o t h' b W Hh E. rewrite (src_ch_remove_eq s o t W Hh) in E.
  apply lift_b_Ok in E. destruct E as (_ & E & _).
  exact (WF_rebuild s _ h' (ChildrenOps.ch_remove_WF s o t W) (ch_remove_wroots s o t) E).
Qed.

Lemma ch_reorder_WF s o ids : WF s -> WF (fst (ch_reorder s o ids)).
Proof.
  intro W. destruct (ch_reorder s o ids) as [s' r] eqn:E. cbn [fst].
  destruct r as [[]| |k].
  - assert (N : NoDup (kids (get (hp s) o))) by (destruct W as (_ & Pc & _); apply (proj2 Pc)).
    destruct (EffectProofs.ch_reorder_effect s o ids s' N E) as (cs & _ & _ & _ & -> & P).
    apply EffectProofs.set_kids_perm_WF; [exact W | exact P].
  - pose proof (AtomicProofs.ch_reorder_atomic s o ids) as A. rewrite E in A. cbn [fst snd] in A.
    rewrite A; [exact W | discriminate].
  - pose proof (AtomicProofs.ch_reorder_atomic s o ids) as A. rewrite E in A. cbn [fst snd] in A.
    rewrite A; [exact W | discriminate].
Qed.

Theorem src_ch_reorder_WF : forall s o ids h' u, WF s ->
  src_ch_reorder (hp s) o ids = Ok (h', u) -> WF (mkS h' (wroots s)).
Proof.
  intros s o ids h' u W E. rewrite src_ch_reorder_eq in E. apply lift_set_Ok in E. destruct E as [_ E].
  exact (WF_rebuild s _ h' (ch_reorder_WF s o ids W) (ch_reorder_wroots s o ids) E).
Qed.

(* removing a link needs nothing of the owner nor of the argument (AtomicLoops.ln_remove_keeps_WF) *)
Lemma ln_remove_WF_any dir s t x : WF s -> WF (fst (ln_remove dir s t x)).
Proof.
  intro W. destruct x as [x'|]; [apply (AtomicLoops.ln_remove_keeps_WF s dir t x' W) | exact W].
Qed.

(* the owner of a links list is a public task, and so is the argument *)
Theorem src_pred_append_WF : forall s t x h' u, WF s -> hid_tid (hp s) -> pub s t ->
  (forall x', x = Some x' -> pub s x') ->
  src_pred_append (S (S (length (hp s)))) (hp s) t x = Ok (h', u) -> WF (mkS h' (wroots s)).
Proof.
  intros s t x h' u W Hh Pt Px E.
  rewrite (src_pred_append_eq s t x W Hh (fun x' Ex => proj2 (Px x' Ex))) in E.
  apply lift_set_Ok in E. destruct E as [_ E].
  exact (WF_rebuild s _ h' (LinksOps.ln_append_WF true s t x W Pt Px) (ln_append_wroots true s t x) E).
Qed.

Theorem src_succ_append_WF : forall s t x h' u, WF s -> hid_tid (hp s) -> pub s t ->
  (forall x', x = Some x' -> pub s x') ->
  src_succ_append (S (S (length (hp s)))) (hp s) t x = Ok (h', u) -> WF (mkS h' (wroots s)).
Proof.
  intros s t x h' u W Hh Pt Px E.
  rewrite (src_succ_append_eq s t x W Hh (fun x' Ex => proj2 (Px x' Ex))) in E.
  apply lift_set_Ok in E. destruct E as [_ E].
  exact (WF_rebuild s _ h' (LinksOps.ln_append_WF false s t x W Pt Px) (ln_append_wroots false s t x) E).
Qed.

Theorem src_pred_remove_WF : forall s t x h' b, WF s -> hid_tid (hp s) ->
  src_pred_remove (S (S (length (hp s)))) (hp s) t x = Ok (h', b) -> WF (mkS h' (wroots s)).
Proof.
  intros s t x h' b W Hh E. rewrite (src_pred_remove_eq s t x W Hh) in E.
  apply lift_b_Ok in E. destruct E as (_ & E & _).
  exact (WF_rebuild s _ h' (ln_remove_WF_any true s t x W) (ln_remove_wroots true s t x) E).
Qed.

Theorem src_succ_remove_WF : forall s t x h' b, WF s -> hid_tid (hp s) ->
  src_succ_remove (S (S (length (hp s)))) (hp s) t x = Ok (h', b) -> WF (mkS h' (wroots s)).
Proof.
  intros s t x h' b W Hh E. rewrite (src_succ_remove_eq s t x W Hh) in E.
  apply lift_b_Ok in E. destruct E as (_ & E & _).
  exact (WF_rebuild s _ h' (ln_remove_WF_any false s t x W) (ln_remove_wroots false s t x) E).
Qed.

(* ================================================================== *)
(** * consequences: no exception other than the RuntimeError of the facade / of the setter below it - except
      reorder, whose StopIteration / ValueError are the model's (src_ch_reorder_outcome) *)

Lemma set_parent_snd_no_crash s t p k : WF s -> snd (set_parent s t p) <> Crash k.
Proof.
  intros W E. unfold set_parent, mk in E. pose proof (set_parent_guard_no_crash s t p) as N.
  destruct (set_parent_guard s t p) as [[]| |k']; cbn [snd] in E; try discriminate.
  inversion E; subst k'. exact (N k W eq_refl).
Qed.

Lemma set_children_snd_no_crash s t vs k : WF s -> snd (set_children s t vs) <> Crash k.
Proof.
  intros W E. unfold set_children, mk in E. cbv zeta in E.
  pose proof (set_children_guard_no_crash s t (dedup (somes vs))) as N.
  destruct (set_children_guard s t (dedup (somes vs))) as [[]| |k']; cbn [snd] in E; try discriminate.
  inversion E; subst k'. exact (N k W eq_refl).
Qed.

Lemma set_links_snd_no_crash dir s t vs k : WF s -> snd (set_links dir s t vs) <> Crash k.
Proof.
  intros W E. apply (lift_set_links_no_crash dir s t vs k W). unfold lift_set. rewrite E. reflexivity.
Qed.

Lemma ch_append_snd_no_crash s o t k : WF s -> snd (ch_append s o t) <> Crash k.
Proof. intro W. unfold ch_append. destruct t; [apply set_parent_snd_no_crash; exact W | discriminate]. Qed.

Lemma ch_remove_snd_no_crash s o t k : WF s -> snd (ch_remove s o t) <> Crash k.
Proof.
  intro W. unfold ch_remove. destruct t as [t'|]; [|discriminate]. cbv zeta.
  destruct (memn t' (kids (get (hp s) o))); [apply set_children_snd_no_crash; exact W | discriminate].
Qed.

Lemma ln_append_snd_no_crash dir s t x k : WF s -> snd (ln_append dir s t x) <> Crash k.
Proof. intro W. unfold ln_append. destruct x; [apply set_links_snd_no_crash; exact W | discriminate]. Qed.

Lemma ln_remove_snd_no_crash dir s t x k : WF s -> snd (ln_remove dir s t x) <> Crash k.
Proof.
  intro W. unfold ln_remove. destruct x as [x'|]; [|discriminate]. cbv zeta.
  destruct (memn x' (fwd dir (get (hp s) t))); [apply set_links_snd_no_crash; exact W | discriminate].
Qed.

(* what reorder_go can answer: never the RuntimeError, and no exception but the two of the code *)
Lemma reorder_go_answers h l : forall ids newl rest,
  reorder_go h l ids newl rest <> Err /\
  (forall k, reorder_go h l ids newl rest = Crash k -> k = StopIteration \/ k = ValueError).
Proof.
  induction ids as [|i r IH]; intros newl rest; cbn [reorder_go].
  - split; [discriminate | intros k E; discriminate].
  - destruct (find (fun c => Z.eqb (tid (get h c)) i) l) as [c|].
    + destruct (memn c rest); [apply IH|].
      split; [discriminate | intros k E; inversion E; right; reflexivity].
    + split; [discriminate | intros k E; inversion E; left; reflexivity].
Qed.

(* [o] owns the children list, [t] the links list; [c] is the argument of the children facades, [x] of the links
   facades.  The hypotheses are those of the equations. *)
Theorem src_facades_no_crash : forall s o c t x k, WF s -> hid_tid (hp s) -> o < length (hp s) ->
  (forall c', c = Some c' -> c' < length (hp s)) ->
  (forall x', x = Some x' -> hidden (get (hp s) x') = false) ->
  let F := S (S (length (hp s))) in
  src_check_not_none c <> Crash k /\
  src_ch_append F (wroots s) (hp s) o c <> Crash k /\
  src_ch_remove F (wroots s) (hp s) o c <> Crash k /\
  src_pred_append F (hp s) t x <> Crash k /\
  src_succ_append F (hp s) t x <> Crash k /\
  src_pred_remove F (hp s) t x <> Crash k /\
  src_succ_remove F (hp s) t x <> Crash k.
Proof.
  intros s o c t x k W Hh Lo Lc Hx F. unfold F.
  split; [destruct c; discriminate|].
  split; [rewrite (src_ch_append_eq s o c W Hh Lo Lc); intro E; apply lift_set_Crash in E;
          exact (ch_append_snd_no_crash s o c k W E)|].
  split; [rewrite (src_ch_remove_eq s o c W Hh); intro E; apply lift_b_Crash in E;
          exact (ch_remove_snd_no_crash s o c k W E)|].
  split; [rewrite (src_pred_append_eq s t x W Hh Hx); intro E; apply lift_set_Crash in E;
          exact (ln_append_snd_no_crash true s t x k W E)|].
  split; [rewrite (src_succ_append_eq s t x W Hh Hx); intro E; apply lift_set_Crash in E;
          exact (ln_append_snd_no_crash false s t x k W E)|].
  split; [rewrite (src_pred_remove_eq s t x W Hh); intro E; apply lift_b_Crash in E;
          exact (ln_remove_snd_no_crash true s t x k W E)|].
  rewrite (src_succ_remove_eq s t x W Hh); intro E; apply lift_b_Crash in E.
  exact (ln_remove_snd_no_crash false s t x k W E).
Qed.

(* reorder: never the RuntimeError; an exception exactly when the model's reorder_go answers it, and then
   StopIteration or ValueError *)
Theorem src_ch_reorder_crash_iff : forall h o ids k,
  src_ch_reorder h o ids = Crash k <-> reorder_go h (kids (get h o)) ids [] (kids (get h o)) = Crash k.
Proof.
  intros h o ids k. rewrite src_ch_reorder_outcome. unfold lift_list.
  destruct (reorder_go h (kids (get h o)) ids [] (kids (get h o))) as [l'| |k']; split; intro E; try discriminate;
    inversion E; reflexivity.
Qed.

Theorem src_ch_reorder_answers : forall h o ids,
  src_ch_reorder h o ids <> Err /\
  (forall k, src_ch_reorder h o ids = Crash k -> k = StopIteration \/ k = ValueError).
Proof.
  intros h o ids. destruct (reorder_go_answers h (kids (get h o)) ids [] (kids (get h o))) as [NE NC].
  split.
  - rewrite src_ch_reorder_outcome. unfold lift_list.
    destruct (reorder_go h (kids (get h o)) ids [] (kids (get h o))) as [l'| |k']; try discriminate.
    exfalso. apply NE. reflexivity.
  - intros k E. apply src_ch_reorder_crash_iff in E. exact (NC k E).
Qed.

(* ================================================================== *)
(** * remove never raises on a task: in a well-formed state the setter below it accepts the shorter list
      (AtomicLoops.ch_remove_accepts / ln_remove_accepts); only None is refused *)

Theorem src_ch_remove_accepts : forall s o c, WF s -> hid_tid (hp s) ->
  src_ch_remove (S (S (length (hp s)))) (wroots s) (hp s) o (Some c)
  = Ok (hp (fst (ch_remove s o (Some c))), memn c (kids (get (hp s) o))).
Proof.
  intros s o c W Hh. rewrite (src_ch_remove_eq s o (Some c) W Hh). unfold lift_b.
  rewrite (AtomicLoops.ch_remove_accepts s o c W). reflexivity.
Qed.

Theorem src_pred_remove_accepts : forall s t x, WF s -> hid_tid (hp s) ->
  src_pred_remove (S (S (length (hp s)))) (hp s) t (Some x)
  = Ok (hp (fst (ln_remove true s t (Some x))), memn x (preds (get (hp s) t))).
Proof.
  intros s t x W Hh. rewrite (src_pred_remove_eq s t (Some x) W Hh). unfold lift_b.
  rewrite (AtomicLoops.ln_remove_accepts s true t x W). reflexivity.
Qed.

Theorem src_succ_remove_accepts : forall s t x, WF s -> hid_tid (hp s) ->
  src_succ_remove (S (S (length (hp s)))) (hp s) t (Some x)
  = Ok (hp (fst (ln_remove false s t (Some x))), memn x (succs (get (hp s) t))).
Proof.
  intros s t x W Hh. rewrite (src_succ_remove_eq s t (Some x) W Hh). unfold lift_b.
  rewrite (AtomicLoops.ln_remove_accepts s false t x W). reflexivity.
Qed.

(* ================================================================== *)
(** * the hypotheses that are asked are needed *)

(* children.append: the argument outside the heap / the owner outside the heap (the states of
   SrcGraphEquiv3.src_set_parent_needs_t_in_heap, _p_in_heap): the code reads a pristine task of id 0 *)
Example src_ch_append_needs_in_heap :
  let s := mkS [mkT 0 None [] [] [] None false None [] None] [] in
  WF s /\ hid_tid (hp s) /\
  src_ch_append (S (S (length (hp s)))) (wroots s) (hp s) 0 (Some 1) = Err /\ snd (ch_append s 0 (Some 1)) = OK /\
  src_ch_append (S (S (length (hp s)))) (wroots s) (hp s) 1 (Some 0) = Err /\ snd (ch_append s 1 (Some 0)) = OK.
Proof.
  cbv zeta. split; [apply OracleProofs.wf_b_WF; reflexivity|]. split; [intros [|[|q]]; reflexivity|]. repeat split; reflexivity.
Qed.

(* predecessors.append / successors.append: the hidden root of the WBS as the argument, the owner a member of that
   WBS - all_parents masks the hidden root, the code accepts a link with an ancestor; the model rejects.  No Python
   caller holds a hidden root. *)
Example src_link_append_needs_public_argument :
  let s := demo2 in
  WF s /\ hid_tid (hp s) /\ hidden (get (hp s) 0) = true /\ Anc (hp s) 1 0 /\
  (exists h', src_pred_append (S (S (length (hp s)))) (hp s) 1 (Some 0) = Ok (h', tt) /\ preds (get h' 1) = [0]) /\
  (exists h', src_succ_append (S (S (length (hp s)))) (hp s) 1 (Some 0) = Ok (h', tt) /\ succs (get h' 1) = [0]) /\
  lift_set s (ln_append true s 1 (Some 0)) = Err /\ lift_set s (ln_append false s 1 (Some 0)) = Err.
Proof.
  cbv zeta. split; [apply demo2_hyps|]. split; [apply demo2_hyps|]. split; [reflexivity|].
  split; [apply Anc_par; reflexivity|].
  split; [eexists; split; vm_compute; reflexivity|]. split; [eexists; split; vm_compute; reflexivity|].
  split; vm_compute; reflexivity.
Qed.

(* hid_tid: a visible task that carries the reserved id ends the code's walk over the parents (the states of
   SrcGraphEquiv3.src_set_parent_needs_hid_tid and SrcGraphEquiv4.src_set_links_needs_hid_tid) *)
Example src_ch_append_needs_hid_tid :
  let s := mkS [mkT 1 None [1] [] [3] None false None [] None;
                mkT SrcGraph.EMPTY_ID (Some 0) [2] [] [] None false None [] None;
                mkT 2 (Some 1) [] [] [] None false None [] None;
                mkT 3 None [] [0] [] None false None [] None] [] in
  WF s /\ ~ hid_tid (hp s) /\
  (exists h', src_ch_append (S (S (length (hp s)))) (wroots s) (hp s) 2 (Some 3) = Ok (h', tt)) /\
  snd (ch_append s 2 (Some 3)) = Err.
Proof.
  cbv zeta. split; [apply OracleProofs.wf_b_WF; vm_compute; reflexivity|].
  split; [intro H; specialize (H 1); discriminate H|].
  split; [eexists; vm_compute; reflexivity | vm_compute; reflexivity].
Qed.

Example src_link_append_needs_hid_tid :
  let s := mkS [mkT 1 None [1] [] [] None false None [] None;
                mkT SrcGraph.EMPTY_ID (Some 0) [2] [] [] None false None [] None;
                mkT 2 (Some 1) [] [] [] None false None [] None] [] in
  WF s /\ ~ hid_tid (hp s) /\ hidden (get (hp s) 0) = false /\
  (exists h', src_pred_append (S (S (length (hp s)))) (hp s) 2 (Some 0) = Ok (h', tt)) /\
  (exists h', src_succ_append (S (S (length (hp s)))) (hp s) 2 (Some 0) = Ok (h', tt)) /\
  lift_set s (ln_append true s 2 (Some 0)) = Err /\ lift_set s (ln_append false s 2 (Some 0)) = Err.
Proof.
  cbv zeta. split; [apply OracleProofs.wf_b_WF; vm_compute; reflexivity|].
  split; [intro H; specialize (H 1); discriminate H|]. split; [reflexivity|].
  split; [eexists; vm_compute; reflexivity|]. split; [eexists; vm_compute; reflexivity|].
  split; vm_compute; reflexivity.
Qed.

(* WF (here I_pc): a child listed by a task that it does not name as its parent (the states of
   SrcGraphEquiv3.src_set_parent_needs_WF and SrcGraphEquiv4.src_set_links_needs_WF) *)
Example src_ch_append_needs_WF :
  let s := mkS [mkT SrcGraph.EMPTY_ID None [] [] [] (Some 0) true None [] None;
                mkT 1 None [2] [] [] None false None [] None;
                mkT 2 None [] [] [] None false None [] None] [0] in
  hid_tid (hp s) /\ wf_b s = false /\
  (exists h1 h2, src_ch_append (S (S (length (hp s)))) (wroots s) (hp s) 0 (Some 1) = Ok (h1, tt) /\
                 lift_set s (ch_append s 0 (Some 1)) = Ok (h2, tt) /\
                 own (get h1 2) = Some 0 /\ own (get h2 2) = None).
Proof.
  cbv zeta. split; [intros [|[|[|q]]]; try reflexivity; destruct q; reflexivity|]. split; [reflexivity|].
  eexists; eexists. split; [vm_compute; reflexivity|]. split; [vm_compute; reflexivity|]. split; reflexivity.
Qed.

Example src_link_append_needs_WF :
  let s := mkS [mkT 0 None [1] [] [] None false None [] None;
                mkT 1 None [] [] [] None false None [] None] [] in
  hid_tid (hp s) /\ wf_b s = false /\ hidden (get (hp s) 1) = false /\
  src_pred_append (S (S (length (hp s)))) (hp s) 0 (Some 1) = Err /\
  src_succ_append (S (S (length (hp s)))) (hp s) 0 (Some 1) = Err /\
  (exists h', lift_set s (ln_append true s 0 (Some 1)) = Ok (h', tt)) /\
  (exists h', lift_set s (ln_append false s 0 (Some 1)) = Ok (h', tt)).
Proof.
  cbv zeta. split; [intros [|[|q]]; try reflexivity; destruct q; reflexivity|]. split; [reflexivity|].
  split; [reflexivity|]. split; [reflexivity|]. split; [reflexivity|]. split; eexists; vm_compute; reflexivity.
Qed.

(* ================================================================== *)
(** * the hypotheses are satisfiable by non-trivial states; accepted and rejected calls of every facade occur.
      demo5 (SrcGraphEquiv5): two WBS (hidden roots 0 and 6; 1 2 below 0, 3 4 below 1, 5 below 3; 7 below 6), the
      detached tree 8 - 9, the free tasks 10 (id of 5), 11 (id of 9), 12 (linked with 2).
      demo4 (SrcGraphEquiv4): a WBS (hidden root 0) with 1, 2 and 3 below 1; the detached tasks 4 5 6; the chain
      of links 3 -> 2 -> 4 -> 5 *)
Example demo6_children_facades :
  let s := demo5 in
  let app := src_ch_append (S (S (length (hp s)))) (wroots s) (hp s) in
  let rem := src_ch_remove (S (S (length (hp s)))) (wroots s) (hp s) in
  let reo := src_ch_reorder (hp s) in
  let A o t := hp (fst (ch_append s o t)) in
  let R o t := hp (fst (ch_remove s o t)) in
  let O o ids := hp (fst (ch_reorder s o ids)) in
  src_check_not_none None = Err /\ src_check_not_none (Some 3) = Ok tt /\
  app 1 None = Err /\                                          (* None *)
  app 1 (Some 1) = Err /\                                      (* the owner itself *)
  app 3 (Some 1) = Err /\                                      (* an ancestor of the owner *)
  app 1 (Some 10) = Err /\                                     (* id clash: 10 carries the id of 5 *)
  app 1 (Some 7) = Err /\                                      (* a task of another WBS *)
  app 2 (Some 12) = Err /\                                     (* 12 is linked with 2 *)
  app 1 (Some 8) = Ok (A 1 (Some 8), tt) /\                    (* a detached tree joins the WBS, last in the list *)
  map (fun x => (par (get (A 1 (Some 8)) x), kids (get (A 1 (Some 8)) x), own (get (A 1 (Some 8)) x))) [1; 8; 9]
    = [(Some 0, [3; 4; 8], Some 0); (Some 1, [9], Some 0); (Some 8, [], Some 0)] /\
  app 1 (Some 3) = Ok (A 1 (Some 3), tt) /\                    (* a task that is a child already moves to the end *)
  kids (get (A 1 (Some 3)) 1) = [4; 3] /\
  app 0 (Some 8) = Ok (A 0 (Some 8), tt) /\                    (* wbs.roots.append(8) *)
  kids (get (A 0 (Some 8)) 0) = [1; 2; 8] /\ own (get (A 0 (Some 8)) 9) = Some 0 /\
  app 4 (Some 5) = Ok (A 4 (Some 5), tt) /\                    (* from one parent to another *)
  kids (get (A 4 (Some 5)) 3) = [] /\ kids (get (A 4 (Some 5)) 4) = [5] /\
  rem 1 None = Err /\
  rem 1 (Some 5) = Ok (hp s, false) /\                         (* not a child of 1: False, nothing written *)
  rem 20 (Some 1) = Ok (hp s, false) /\
  rem 1 (Some 3) = Ok (R 1 (Some 3), true) /\                  (* a child: released with its subtree *)
  map (fun x => (par (get (R 1 (Some 3)) x), kids (get (R 1 (Some 3)) x), own (get (R 1 (Some 3)) x))) [1; 3; 5]
    = [(Some 0, [4], Some 0); (None, [5], None); (Some 3, [], None)] /\
  rem 0 (Some 2) = Ok (R 0 (Some 2), true) /\                  (* wbs.roots.remove(2) *)
  kids (get (R 0 (Some 2)) 0) = [1] /\ own (get (R 0 (Some 2)) 2) = None /\
  reo 1 [4%Z] = Ok (O 1 [4%Z], tt) /\ kids (get (O 1 [4%Z]) 1) = [4; 3] /\
  reo 1 [] = Ok (hp s, tt) /\
  reo 0 [2%Z] = Ok (O 0 [2%Z], tt) /\ kids (get (O 0 [2%Z]) 0) = [2; 1] /\
  reo 1 [7%Z] = Crash StopIteration /\                         (* no child carries the id 7 *)
  reo 1 [3%Z; 7%Z] = Crash StopIteration /\
  reo 1 [3%Z; 3%Z] = Crash ValueError.                         (* a child named twice *)
Proof. cbv zeta. vm_compute. repeat split; reflexivity. Qed.

Example demo6_links_facades :
  let s := demo4 in
  let pa := src_pred_append (S (S (length (hp s)))) (hp s) in
  let sa := src_succ_append (S (S (length (hp s)))) (hp s) in
  let pr := src_pred_remove (S (S (length (hp s)))) (hp s) in
  let sr := src_succ_remove (S (S (length (hp s)))) (hp s) in
  let PA t x := hp (fst (ln_append true s t x)) in
  let SA t x := hp (fst (ln_append false s t x)) in
  let PR t x := hp (fst (ln_remove true s t x)) in
  let SR t x := hp (fst (ln_remove false s t x)) in
  pa 2 None = Err /\ sa 2 None = Err /\                        (* None *)
  pa 3 (Some 3) = Err /\ sa 1 (Some 1) = Err /\                (* a link with itself *)
  pa 3 (Some 1) = Err /\                                       (* a link with an ancestor *)
  pa 1 (Some 3) = Err /\                                       (* a link with a descendant *)
  pa 3 (Some 5) = Err /\ sa 5 (Some 3) = Err /\                (* a cycle through three links *)
  pa 2 (Some 6) = Ok (PA 2 (Some 6), tt) /\                    (* a new predecessor, last in the list *)
  preds (get (PA 2 (Some 6)) 2) = [3; 6] /\ succs (get (PA 2 (Some 6)) 6) = [2] /\
  pa 2 (Some 3) = Ok (hp s, tt) /\                             (* a predecessor already: nothing changes *)
  sa 5 (Some 6) = Ok (SA 5 (Some 6), tt) /\
  succs (get (SA 5 (Some 6)) 5) = [6] /\ preds (get (SA 5 (Some 6)) 6) = [5] /\
  pr 2 None = Err /\ sr 2 None = Err /\
  pr 2 (Some 6) = Ok (hp s, false) /\ sr 2 (Some 6) = Ok (hp s, false) /\      (* not in the list *)
  pr 2 (Some 3) = Ok (PR 2 (Some 3), true) /\
  preds (get (PR 2 (Some 3)) 2) = [] /\ succs (get (PR 2 (Some 3)) 3) = [] /\
  sr 2 (Some 4) = Ok (SR 2 (Some 4), true) /\
  succs (get (SR 2 (Some 4)) 2) = [] /\ preds (get (SR 2 (Some 4)) 4) = [] /\
  preds (get (SR 2 (Some 4)) 2) = [3].
Proof. cbv zeta. vm_compute. repeat split; reflexivity. Qed.

(* the theorems apply to these calls: every hypothesis holds of them *)
Example demo6_hyps :
  (WF demo5 /\ hid_tid (hp demo5)) /\ (WF demo4 /\ hid_tid (hp demo4)) /\
  (forall o, In o [0; 1; 2; 3; 4] -> o < length (hp demo5)) /\
  (forall t, In t [1; 3; 5; 7; 8; 10; 12] -> pub demo5 t) /\
  (forall t, In t [1; 2; 3; 4; 5; 6] -> pub demo4 t).
Proof.
  split; [exact demo5_hyps|]. split; [exact demo4_hyps|].
  split; [intros o Ho; cbn in Ho; cbn [hp demo5 length]; repeat (destruct Ho as [<-|Ho]; [lia|]); destruct Ho|].
  split; intros t Ht; cbn in Ht; repeat (destruct Ht as [<-|Ht]; [split; [cbn; lia | reflexivity]|]); destruct Ht.
Qed.

Print Assumptions src_check_not_none_eq.
Print Assumptions src_ch_append_eq.
Print Assumptions src_ch_remove_eq.
Print Assumptions src_ch_reorder_outcome.
Print Assumptions src_ch_reorder_eq.
Print Assumptions src_pred_append_eq_gen.
Print Assumptions src_succ_append_eq_gen.
Print Assumptions src_pred_append_eq.
Print Assumptions src_succ_append_eq.
Print Assumptions src_pred_remove_eq.
Print Assumptions src_succ_remove_eq.
Print Assumptions src_ch_append_WF.
Print Assumptions src_ch_remove_WF.
Print Assumptions src_ch_reorder_WF.
Print Assumptions src_pred_append_WF.
Print Assumptions src_succ_append_WF.
Print Assumptions src_pred_remove_WF.
Print Assumptions src_succ_remove_WF.
Print Assumptions src_facades_no_crash.
Print Assumptions src_ch_reorder_crash_iff.
Print Assumptions src_ch_reorder_answers.
Print Assumptions src_ch_remove_accepts.
Print Assumptions src_pred_remove_accepts.
Print Assumptions src_succ_remove_accepts.
