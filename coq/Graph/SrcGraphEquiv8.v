(* Source-text tie, the operators of Task: `t // other`, `t << other`, `t >> other` (task.py, `__floordiv__`, `__lshift__`,
   `__rshift__`: `self.children += other` etc., i.e. the facade's `+` - the private list followed by the argument - and then
   the setter), translated on every run (gen/SrcGraph.v) and equal to `op_floordiv` / `op_shift` of the model. *)
From PJ Require Import Base.Prelude Graph.Model Graph.Invariant Graph.LinksProofs gen.SrcGraph Graph.SrcGraphEquiv Graph.SrcGraphEquiv2
  Graph.SrcGraphEquiv3 Graph.SrcGraphEquiv4 Graph.SrcGraphEquiv5.
Local Open Scope nat_scope.

(* the operator returns its argument *)
Definition lift_v {A} (r : state * outcome) (v : A) : res (heap * A) :=
  match snd r with Ok _ => Ok (hp (fst r), v) | Err => Err | Crash k => Crash k end.

Lemma lift_set_v {A} s (r : state * outcome) (v : A) :
  (do '(h1, _) <- lift_set s r; Ok (h1, v)) = lift_v r v.
Proof. unfold lift_set, lift_v. destruct (snd r); reflexivity. Qed.

Lemma kids_lt s o y : WF s -> In y (kids (get (hp s) o)) -> y < length (hp s).
Proof.
  intros W H. destruct W as [[Fi _] _]. specialize (Fi o). cbv zeta in Fi. destruct Fi as [_ [Fi _]].
  apply Fi. apply in_or_app. left. exact H.
Qed.

Theorem src_op_floordiv_eq : forall s (o : obj) (vs : list (option obj)), WF s -> hid_tid (hp s) -> o < length (hp s) ->
  (forall v, In (Some v) vs -> v < length (hp s)) ->
  src_op_floordiv (S (S (length (hp s)))) (hp s) o vs = lift_v (op_floordiv s o vs) vs.
Proof.
  intros s o vs W Hh Lo Lv. unfold src_op_floordiv, op_floordiv.
  assert (E : src_set_children (S (S (length (hp s)))) (hp s) o (map Some (kids (get (hp s) o)) ++ vs)
              = lift_set s (set_children s o (map Some (kids (get (hp s) o)) ++ vs))).
  2: { unfold obj in *. rewrite E. apply lift_set_v. }
  apply (src_set_children_eq s o _ W Hh Lo).
  - intros v Hv. apply in_app_or in Hv. destruct Hv as [Hv|Hv]; [|exact (Lv v Hv)].
    apply in_map_iff in Hv. destruct Hv as [y [E Hy]]. inversion E; subst y. exact (kids_lt s o v W Hy).
Qed.

Theorem src_op_lshift_eq : forall s (t : obj) (vs : list (option obj)), WF s -> hid_tid (hp s) ->
  (forall v, In (Some v) vs -> hidden (get (hp s) v) = false) ->
  src_op_lshift (S (S (length (hp s)))) (hp s) t vs = lift_v (op_shift true s t vs) vs.
Proof.
  intros s t vs W Hh Hv. unfold src_op_lshift, op_shift. cbn [fwd].
  assert (E : src_set_predecessors (S (S (length (hp s)))) (hp s) t (map Some (preds (get (hp s) t)) ++ vs)
              = lift_set s (set_links true s t (map Some (preds (get (hp s) t)) ++ vs))).
  2: { unfold obj in *. rewrite E. apply lift_set_v. }
  apply (src_set_predecessors_eq s t _ W Hh).
  - intros v Hi. apply in_app_or in Hi. destruct Hi as [Hi|Hi]; [|exact (Hv v Hi)].
    apply in_map_iff in Hi. destruct Hi as [y [E Hy]]. inversion E; subst y.
    exact (proj2 (link_pub true s t v W Hy)).
Qed.

Theorem src_op_rshift_eq : forall s (t : obj) (vs : list (option obj)), WF s -> hid_tid (hp s) ->
  (forall v, In (Some v) vs -> hidden (get (hp s) v) = false) ->
  src_op_rshift (S (S (length (hp s)))) (hp s) t vs = lift_v (op_shift false s t vs) vs.
Proof.
  intros s t vs W Hh Hv. unfold src_op_rshift, op_shift. cbn [fwd].
  assert (E : src_set_successors (S (S (length (hp s)))) (hp s) t (map Some (succs (get (hp s) t)) ++ vs)
              = lift_set s (set_links false s t (map Some (succs (get (hp s) t)) ++ vs))).
  2: { unfold obj in *. rewrite E. apply lift_set_v. }
  apply (src_set_successors_eq s t _ W Hh).
  - intros v Hi. apply in_app_or in Hi. destruct Hi as [Hi|Hi]; [|exact (Hv v Hi)].
    apply in_map_iff in Hi. destruct Hi as [y [E Hy]]. inversion E; subst y.
    exact (proj2 (link_pub false s t v W Hy)).
Qed.

Print Assumptions src_op_floordiv_eq.
Print Assumptions src_op_lshift_eq.
Print Assumptions src_op_rshift_eq.

(* ---- wbs[id]: WBS.__getitem__ of wbs.py - the first member with that id in WBS order, RuntimeError when none ---- *)
Theorem src_wbs_getitem_eq : forall s w i,
  src_wbs_getitem (S (length (hp s))) (hp s) (wroot s w) i = wbs_getitem s w i.
Proof.
  intros s w i. unfold src_wbs_getitem, wbs_getitem, wbs_tasks. rewrite src_all_children_eq.
  destruct (all_children (hp s) (wroot s w)) as [l| |k]; cbn [bind]; [|reflexivity|reflexivity].
  destruct (find _ l); reflexivity.
Qed.

Print Assumptions src_wbs_getitem_eq.

(* ---- the setter of Task.estimate: a negative amount is refused, anything else is stored ---- *)
Theorem src_set_estimate_eq : forall s t e, src_set_estimate (hp s) t e = lift_set s (set_est s t e).
Proof.
  intros s t e. unfold src_set_estimate, set_est, lift_set. destruct e as [v|]; [|reflexivity].
  destruct (v <? 0)%Z; reflexivity.
Qed.

Print Assumptions src_set_estimate_eq.
