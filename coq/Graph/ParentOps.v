(* The operations derived from the parent setter, the allocations and the attribute setters preserve WF.

   INDEX
     ch_append_WF, ch_append_shape         children.append(t) / roots.append(t)  = set_parent t (Some o)
     ch_insert_WF, ch_insert_shape         children.insert(i, t): set_parent, then a permutation of the list
     lst_set_parent_WF, lst_set_parent_shape   tasks.parent = p on a task list: a loop (seq_calls_inv)
     gframe / gframe_WF                    a state that differs only in prio / name / est keeps WF
     set_est_WF, set_prio_WF
     Section Alloc: appending one isolated object T (no parent, no children, no links) to the heap:
       al_pc, al_acy, al_sym, al_dag, al_sep, al_ids   (whatever tid / own / hidden of T and the WBS table are)
     new_task_WF                           a pristine task
     new_wbs_WF                            a new WBS: its hidden root is appended and registered
     shape s s'                            same WBS table prefix, longer-or-equal heap, old objects keep their hidden flag
     parent_args_pub s o                   no hidden WBS root is named as the task to move
     parent_step_WF                        WF s -> parent_args_pub s o -> WF (fst (step s o))
                                           for SetParent ChAppend ChInsert LstSetParent NewTask NewWbs SetEst SetPrio *)
From Coq Require Import Arith PeanoNat Permutation.
From PJ Require Import Base.Prelude Graph.Model Graph.Invariant Graph.AncLemmas Graph.AncLemmas2
  Graph.DepLemmas Graph.LinksProofs Graph.LinksOps Graph.ParentProofs.
From PJ Require Graph.EffectProofs.
Local Open Scope nat_scope.

Definition same_shape (s s' : state) : Prop :=
  length (hp s') = length (hp s) /\ wroots s' = wroots s /\
  (forall x, hidden (get (hp s') x) = hidden (get (hp s) x)).

Lemma same_shape_refl s : same_shape s s.
Proof. repeat split; reflexivity. Qed.

Lemma same_shape_trans s1 s2 s3 : same_shape s1 s2 -> same_shape s2 s3 -> same_shape s1 s3.
Proof.
  intros (A & B & C) (A' & B' & C'). split; [congruence|]. split; [congruence|].
  intro x. rewrite C', C. reflexivity.
Qed.

Lemma same_shape_pub s s' x : same_shape s s' -> (pub s' x <-> pub s x).
Proof. intros (A & _ & C). unfold pub. rewrite A, C. tauto. Qed.

Lemma set_parent_same_shape s t p :
  WF s -> t < length (hp s) -> (forall p', p = Some p' -> p' < length (hp s)) ->
  same_shape s (fst (set_parent s t p)).
Proof. intros (F & Pc & _) Ht Hp. apply (set_parent_shape s t p F Pc Ht Hp). Qed.

Lemma Some_range (o : obj) n : o < n -> forall q : obj, Some o = Some q -> q < n.
Proof. intros L q E. inversion E; subst q. exact L. Qed.

(* ---- children.append(t) / roots.append(t) ---- *)
Theorem ch_append_WF s o t :
  WF s -> o < length (hp s) -> (forall t', t = Some t' -> pub s t') -> WF (fst (ch_append s o t)).
Proof.
  intros W Lo Pt. unfold ch_append. destruct t as [t'|]; [|exact W].
  apply set_parent_WF; [exact W|apply Pt; reflexivity|]. right. exists o. split; [reflexivity|exact Lo].
Qed.

Theorem ch_append_shape s o t :
  WF s -> o < length (hp s) -> (forall t', t = Some t' -> pub s t') -> same_shape s (fst (ch_append s o t)).
Proof.
  intros W Lo Pt. unfold ch_append. destruct t as [t'|]; [|apply same_shape_refl].
  apply set_parent_same_shape; [exact W|apply Pt; reflexivity|apply Some_range; exact Lo].
Qed.

(* ---- children.insert(i, t) ---- *)
Lemma set_kids_same_shape s o l : same_shape s (set_kids s o l).
Proof.
  unfold set_kids. split; [apply length_upd|]. split; [reflexivity|].
  intro x. cbn [hp]. apply (proj_get_upd hidden). intros []; reflexivity.
Qed.

Lemma ch_insert_cases s o i t' :
  fst (ch_insert s o i (Some t')) = s \/
  (set_parent_guard s t' (Some o) = OK /\
   let s1 := set_parent_write s t' (Some o) in
   let l := kids (get (hp s1) o) in
   let anchor := nth (py_index i (length l)) l t' in
   fst (ch_insert s o i (Some t')) = if Nat.eqb anchor t' then s1 else set_kids s1 o (move_one true anchor l t')).
Proof.
  unfold ch_insert. cbv zeta.
  match goal with |- context [if ?c then (s, Crash IndexError) else _] => destruct c end; [left; reflexivity|].
  destruct (set_parent_cases s t' (Some o)) as [[G E]|[_ [E1 E2]]].
  - right. split; [exact G|]. rewrite E. unfold andthen. cbn [fst snd].
    match goal with |- context [if ?c then _ else _] => destruct c end; reflexivity.
  - left. unfold andthen. destruct (snd (set_parent s t' (Some o))) as [[]| |k]; [exfalso; apply E2; reflexivity|exact E1..].
Qed.

Lemma In_kids_after_write s o t' :
  I_fin s -> I_pc s -> t' < length (hp s) -> o < length (hp s) ->
  In t' (kids (get (hp (set_parent_write s t' (Some o))) o)).
Proof.
  intros F Pc Lt Lo.
  destruct (set_parent_effect s t' (Some o) F Pc Lt (Some_range o _ Lo)) as (_ & _ & _ & _ & K & _).
  cbv zeta in K. rewrite K. apply in_or_app. right.
  assert (E : eff_par s t' (Some o) = Some o) by reflexivity. rewrite E, onat_eqb_refl. left; reflexivity.
Qed.

Theorem ch_insert_WF s o i t :
  WF s -> o < length (hp s) -> (forall t', t = Some t' -> pub s t') -> WF (fst (ch_insert s o i t)).
Proof.
  intros W Lo Pt. destruct t as [t'|]; [|exact W].
  destruct (ch_insert_cases s o i t') as [E|[G E]]; [rewrite E; exact W|].
  cbv zeta in E. rewrite E. clear E.
  pose proof (Pt t' eq_refl) as Ptt.
  assert (W1 : WF (set_parent_write s t' (Some o))).
  { apply set_parent_write_WF; try assumption. apply Some_range; exact Lo. }
  match goal with |- context [if ?c then _ else _] => destruct c end; [exact W1|].
  apply EffectProofs.set_kids_perm_WF; [exact W1|].
  apply EffectProofs.move_one_perm.
  destruct W as (F & Pc & _). destruct Ptt as [Lt _]. apply In_kids_after_write; assumption.
Qed.

Theorem ch_insert_shape s o i t :
  WF s -> o < length (hp s) -> (forall t', t = Some t' -> pub s t') -> same_shape s (fst (ch_insert s o i t)).
Proof.
  intros W Lo Pt. destruct t as [t'|]; [|apply same_shape_refl].
  destruct (ch_insert_cases s o i t') as [E|[G E]]; [rewrite E; apply same_shape_refl|].
  cbv zeta in E. rewrite E. clear E.
  assert (S1 : same_shape s (set_parent_write s t' (Some o))).
  { pose proof (set_parent_same_shape s t' (Some o) W (proj1 (Pt t' eq_refl)) (Some_range o _ Lo)) as H.
    destruct (set_parent_cases s t' (Some o)) as [[_ E]|[N _]]; [rewrite E in H; exact H|contradiction]. }
  match goal with |- context [if ?c then _ else _] => destruct c end; [exact S1|].
  eapply same_shape_trans; [exact S1|apply set_kids_same_shape].
Qed.

(* ---- tasks.parent = p on a task list: a loop, not atomic across elements ---- *)
Theorem lst_set_parent_inv s ts p :
  WF s -> (forall t, In t ts -> pub s t) -> (forall p', p = Some p' -> p' < length (hp s)) ->
  WF (fst (lst_set_parent s ts p)) /\ same_shape s (fst (lst_set_parent s ts p)).
Proof.
  intros W Pt Hp. unfold lst_set_parent, all_or_nothing.
  destruct (snd (lst_set_parent_seq s ts p)) as [[]| |c]; cbn [fst];
    [|split; [exact W|apply same_shape_refl]..]. unfold lst_set_parent_seq.
  apply (seq_calls_inv (fun s' => WF s' /\ same_shape s s') (fun s' t => set_parent s' t p));
    [|split; [exact W|apply same_shape_refl]].
  intros s' t Hin [W' Sh].
  assert (Pt' : pub s' t) by (apply (same_shape_pub s s' t Sh); apply Pt; exact Hin).
  assert (Hp' : forall p', p = Some p' -> p' < length (hp s')).
  { intros p' E. destruct Sh as (A & _). rewrite A. apply Hp; exact E. }
  split.
  - apply set_parent_WF; try assumption.
    destruct p as [q|]; [right; exists q; split; [reflexivity|apply Hp'; reflexivity]|left; reflexivity].
  - eapply same_shape_trans; [exact Sh|]. apply set_parent_same_shape; [exact W'|apply Pt'|exact Hp'].
Qed.

Theorem lst_set_parent_WF s ts p :
  WF s -> (forall t, In t ts -> pub s t) -> (forall p', p = Some p' -> p' < length (hp s)) ->
  WF (fst (lst_set_parent s ts p)).
Proof. intros W Pt Hp. apply lst_set_parent_inv; assumption. Qed.

(* ================= frames: prio / name / est ================= *)
Definition gcore (T : task) := (tid T, par T, kids T, preds T, succs T, own T, hidden T).
Definition gframe (s s' : state) : Prop :=
  length (hp s') = length (hp s) /\ wroots s' = wroots s /\
  forall x, gcore (get (hp s') x) = gcore (get (hp s) x).

Lemma gcore_inv T T' : gcore T' = gcore T ->
  tid T' = tid T /\ par T' = par T /\ kids T' = kids T /\ preds T' = preds T /\ succs T' = succs T /\
  own T' = own T /\ hidden T' = hidden T.
Proof. unfold gcore. intro H. injection H; intros. repeat split; assumption. Qed.

Theorem gframe_WF s s' : gframe s s' -> WF s -> WF s'.
Proof.
  intros (El & Ew & Hx) (Hfin & Hpc & Hacy & Hsym & Hdag & Hsep & Hids & Hhid & Hown).
  assert (Ftid : forall x, tid (get (hp s') x) = tid (get (hp s) x)) by (intro x; apply (gcore_inv _ _ (Hx x))).
  assert (Fpar : forall x, par (get (hp s') x) = par (get (hp s) x)) by (intro x; apply (gcore_inv _ _ (Hx x))).
  assert (Fkid : forall x, kids (get (hp s') x) = kids (get (hp s) x)) by (intro x; apply (gcore_inv _ _ (Hx x))).
  assert (Fpre : forall x, preds (get (hp s') x) = preds (get (hp s) x)) by (intro x; apply (gcore_inv _ _ (Hx x))).
  assert (Fsuc : forall x, succs (get (hp s') x) = succs (get (hp s) x)) by (intro x; apply (gcore_inv _ _ (Hx x))).
  assert (Fown : forall x, own (get (hp s') x) = own (get (hp s) x)) by (intro x; apply (gcore_inv _ _ (Hx x))).
  assert (Fhid : forall x, hidden (get (hp s') x) = hidden (get (hp s) x)) by (intro x; apply (gcore_inv _ _ (Hx x))).
  assert (A : forall x a, Anc (hp s') x a <-> Anc (hp s) x a) by (intros x a; apply same_par_Anc; exact Fpar).
  assert (D : forall x a, Dep (hp s') x a -> Dep (hp s) x a).
  { intros x a. apply Dep_same. intro y. symmetry. apply Fpre. }
  assert (R : forall x r, Root (hp s') x r <-> Root (hp s) x r) by (intros x r; apply same_par_Root; exact Fpar).
  unfold WF. split; [|split; [|split; [|split; [|split; [|split; [|split; [|split]]]]]]].
  - destruct Hfin as [Hf1 Hf2]. split.
    + intro x. cbv zeta. rewrite Fpar, Fkid, Fpre, Fsuc, Fown, El, Ew. apply Hf1.
    + rewrite Ew, El. exact Hf2.
  - destruct Hpc as [Hp1 Hp2]. split.
    + intros c p. rewrite Fpar, Fkid. apply Hp1.
    + intro p. rewrite Fkid. apply Hp2.
  - intros t H. apply (Hacy t). apply A. exact H.
  - destruct Hsym as [Hs1 Hs2]. split.
    + intros a b. rewrite Fpre, Fsuc. apply Hs1.
    + intro a. rewrite Fpre, Fsuc. apply Hs2.
  - intros t H. apply (Hdag t). apply D. exact H.
  - intros a b H. rewrite Fpre in H. rewrite !A. apply Hsep. exact H.
  - intros a b r. rewrite El, !R, !Ftid. apply Hids.
  - destruct Hhid as (Hh1 & Hh2 & Hh3). unfold I_hid. rewrite Ew, El. split; [exact Hh1|]. split.
    + intros x Hlt. rewrite Fhid. apply Hh2. exact Hlt.
    + intros w Hw. cbv zeta. rewrite Fown, Fpar, Fpre, Fsuc. apply (Hh3 w Hw).
  - intros t w. rewrite El, Ew, Fown, R. apply Hown.
Qed.

Lemma gframe_upd s t f : (forall T, gcore (f T) = gcore T) -> gframe s (mkS (upd (hp s) t f) (wroots s)).
Proof.
  intro K. split; [apply length_upd|]. split; [reflexivity|]. intro x. cbn [hp].
  rewrite get_upd. destruct (Nat.eqb t x && Nat.ltb t (length (hp s))); [apply K|reflexivity].
Qed.

Lemma gframe_shape s s' : gframe s s' -> same_shape s s'.
Proof.
  intros (A & B & C). split; [exact A|]. split; [exact B|]. intro x. apply (gcore_inv _ _ (C x)).
Qed.

Lemma set_est_gframe s t e : gframe s (fst (set_est s t e)).
Proof.
  unfold set_est.
  assert (K : gframe s (mkS (upd (hp s) t (with_est e)) (wroots s))) by (apply gframe_upd; intros []; reflexivity).
  assert (R : gframe s s) by (repeat split; reflexivity).
  destruct e as [v|]; [destruct (Z.ltb v 0)|]; cbn [fst]; assumption.
Qed.

Theorem set_est_WF s t e : WF s -> WF (fst (set_est s t e)).
Proof. apply gframe_WF. apply set_est_gframe. Qed.

Lemma set_prio_gframe s t v : gframe s (fst (set_prio s t v)).
Proof. unfold set_prio. cbn [fst]. apply gframe_upd. intros []; reflexivity. Qed.

Theorem set_prio_WF s t v : WF s -> WF (fst (set_prio s t v)).
Proof. apply gframe_WF. apply set_prio_gframe. Qed.

(* ================= allocation ================= *)
Lemma get_app_lt h T x : x < length h -> get (h ++ [T]) x = get h x.
Proof. intro L. unfold get. apply app_nth1. exact L. Qed.

Lemma get_app_eq h T : get (h ++ [T]) (length h) = T.
Proof. unfold get. apply nth_middle. Qed.

Lemma get_app_gt h T x : length h < x -> get (h ++ [T]) x = dflt.
Proof. intro L. unfold get. apply nth_overflow. rewrite app_length. simpl. lia. Qed.

Section Alloc.
Variable s : state.
Variable T : task.
Variable wr : list obj.
Local Notation h := (hp s).
Local Notation n := (length (hp s)).
Local Notation h' := (hp s ++ [T]).
Local Notation s' := (mkS (hp s ++ [T]) wr).
Hypothesis W : WF s.
Hypothesis Tpar : par T = None.
Hypothesis Tkids : kids T = [].
Hypothesis Tpreds : preds T = [].
Hypothesis Tsuccs : succs T = [].

Lemma al_len : length h' = S n.
Proof. rewrite app_length. simpl. lia. Qed.

Lemma al_field {A} (g : task -> A) x : g T = g dflt -> g (get h' x) = g (get h x).
Proof.
  intro E. destruct (Nat.lt_trichotomy x n) as [L|[->|L]].
  - rewrite get_app_lt by exact L. reflexivity.
  - rewrite get_app_eq, (get_out h n) by lia. exact E.
  - rewrite get_app_gt by exact L. rewrite (get_out h x) by lia. reflexivity.
Qed.

Lemma al_old x : x <> n -> get h' x = get h x.
Proof.
  intro N. destruct (Nat.lt_trichotomy x n) as [L|[->|L]]; [|contradiction|].
  - apply get_app_lt; exact L.
  - rewrite get_app_gt by exact L. rewrite (get_out h x) by lia. reflexivity.
Qed.

Lemma al_par x : par (get h' x) = par (get h x).
Proof. apply (al_field par). exact Tpar. Qed.
Lemma al_kids x : kids (get h' x) = kids (get h x).
Proof. apply (al_field kids). exact Tkids. Qed.
Lemma al_preds x : preds (get h' x) = preds (get h x).
Proof. apply (al_field preds). exact Tpreds. Qed.
Lemma al_succs x : succs (get h' x) = succs (get h x).
Proof. apply (al_field succs). exact Tsuccs. Qed.

Lemma al_Anc x a : Anc h' x a <-> Anc h x a.
Proof. apply same_par_Anc. exact al_par. Qed.
Lemma al_Root x r : Root h' x r <-> Root h x r.
Proof. apply same_par_Root. exact al_par. Qed.

(* the new object is isolated in the old heap too *)
Lemma al_Root_new r : Root h n r <-> r = n.
Proof.
  split.
  - intros [[E|A] _]; [symmetry; exact E|]. apply Anc_has_par in A. destruct A as [q Eq].
    rewrite get_out_par in Eq by lia. discriminate.
  - intros ->. apply Root_self. apply get_out_par. lia.
Qed.

Lemma al_not_Root_new x : x < n -> ~ Root h x n.
Proof.
  destruct W as (F & _). intros L [[E|A] _]; [lia|].
  apply (Anc_lt_r _ _ _ (I_fin_par_fin _ F)) in A. lia.
Qed.

Theorem al_pc : I_pc s'.
Proof.
  destruct W as (_ & [P1 P2] & _). split.
  - intros c p. cbn [hp]. rewrite al_par, al_kids. apply P1.
  - intro p. cbn [hp]. rewrite al_kids. apply P2.
Qed.

Theorem al_acy : I_acy s'.
Proof.
  destruct W as (_ & _ & Acy & _). intros t H. cbn [hp] in H. apply (Acy t). apply al_Anc. exact H.
Qed.

Theorem al_sym : I_sym s'.
Proof.
  destruct W as (_ & _ & _ & [S1 S2] & _). split.
  - intros a b. cbn [hp]. rewrite al_preds, al_succs. apply S1.
  - intro a. cbn [hp]. rewrite al_preds, al_succs. apply S2.
Qed.

Theorem al_dag : I_dag s'.
Proof.
  destruct W as (_ & _ & _ & _ & Dag & _). intros t H. cbn [hp] in H. apply (Dag t).
  eapply Dep_same; [|exact H]. intro y. symmetry. apply al_preds.
Qed.

Theorem al_sep : I_sep s'.
Proof.
  destruct W as (_ & _ & _ & _ & _ & Sep & _). intros a b H. cbn [hp] in *.
  rewrite al_preds in H. rewrite !al_Anc. apply Sep. exact H.
Qed.

Theorem al_ids : I_ids s'.
Proof.
  destruct W as (_ & _ & _ & _ & _ & _ & Ids & _).
  intros a b r La Lb Ra Rb E. cbn [hp] in *. rewrite al_len in La, Lb.
  apply al_Root in Ra. apply al_Root in Rb.
  destruct (Nat.eq_dec a n) as [->|Na]; destruct (Nat.eq_dec b n) as [->|Nb]; [reflexivity| | |].
  - exfalso. apply al_Root_new in Ra. subst r. apply (al_not_Root_new b); [lia|exact Rb].
  - exfalso. apply al_Root_new in Rb. subst r. apply (al_not_Root_new a); [lia|exact Ra].
  - rewrite !al_old in E by assumption. apply (Ids a b r); try assumption; lia.
Qed.

Lemma al_fin_heap :
  (forall w, own T = Some w -> w < length wr) ->
  (forall x w, own (get h x) = Some w -> w < length wr) ->
  (forall r, In r wr -> r < S n) ->
  I_fin s'.
Proof.
  destruct W as (F & _). intros HT Ho Hr. split.
  - intro x. cbv zeta. cbn [hp wroots]. rewrite al_len, al_par, al_kids, al_preds, al_succs.
    split; [|split].
    + intros p E. apply (dl_fin_par s x p F) in E. lia.
    + intros y Hy. destruct F as [F1 _]. destruct (F1 x) as (_ & F2 & _). apply F2 in Hy. lia.
    + intros w E. destruct (Nat.eq_dec x n) as [->|N].
      * rewrite get_app_eq in E. apply HT; exact E.
      * rewrite al_old in E by exact N. eapply Ho; exact E.
  - cbn [hp wroots]. rewrite al_len. exact Hr.
Qed.
End Alloc.

(* ---- Task(id, ...) ---- *)
Theorem alloc_task_WF s i pr nm e : WF s -> WF (alloc s (mkT i None [] [] [] None false pr nm e)).
Proof.
  intro W. unfold alloc. set (T := mkT i None [] [] [] None false pr nm e).
  pose proof W as (F & Pc & Acy & Sym & Dag & Sep & Ids & Hid & Own).
  split; [|split; [apply al_pc; auto|split; [apply al_acy; auto|split; [apply al_sym; auto|
    split; [apply al_dag; auto|split; [apply al_sep; auto|split; [apply al_ids; auto|split]]]]]]].
  - apply al_fin_heap; auto.
    + intros w E. discriminate E.
    + intros x w E. eapply dl_fin_own; eassumption.
    + intros r Hr. apply (dl_fin_wroots s r F) in Hr. lia.
  - destruct Hid as (A & B & C). split; [exact A|]. split.
    + intros x Lx. cbn [hp wroots] in *. rewrite al_len in Lx.
      destruct (Nat.eq_dec x (length (hp s))) as [->|N].
      * rewrite get_app_eq. cbn [hidden T]. split; [discriminate|].
        intro Hin. apply (dl_fin_wroots s _ F) in Hin. lia.
      * rewrite al_old by exact N. apply B. lia.
    + intros w Lw. cbn [hp wroots] in *. cbv zeta.
      assert (Lr : nth w (wroots s) 0 < length (hp s)) by (apply (dl_fin_wroots s _ F); apply nth_In; exact Lw).
      rewrite get_app_lt by exact Lr. apply (C w Lw).
  - intros t w Lt. cbn [hp wroots] in *. rewrite al_len in Lt. rewrite al_Root by reflexivity.
    destruct (Nat.eq_dec t (length (hp s))) as [->|N].
    + rewrite get_app_eq. cbn [own T]. split; [discriminate|].
      intros [Lw R]. exfalso. apply al_Root_new in R.
      assert (Lr : nth w (wroots s) 0 < length (hp s)) by (apply (dl_fin_wroots s _ F); apply nth_In; exact Lw).
      unfold obj in *. lia.
    + rewrite al_old by exact N. apply Own. lia.
Qed.

Theorem new_task_WF s i pr nm e : WF s -> WF (fst (new_task s i pr nm e)).
Proof.
  intro W. unfold new_task.
  destruct e as [v|]; [destruct (Z.ltb v 0)|]; cbn [fst]; [exact W|apply alloc_task_WF; exact W..].
Qed.

(* ---- WBS() ---- *)
Theorem new_wbs_WF s : WF s -> WF (fst (new_wbs s)).
Proof.
  intro W. unfold new_wbs. cbn [fst].
  set (T := mkT EMPTY_ID None [] [] [] (Some (length (wroots s))) true None [] None).
  pose proof W as (F & Pc & Acy & Sym & Dag & Sep & Ids & Hid & Own).
  assert (Lwr : forall r, In r (wroots s) -> r < length (hp s)) by (intros r Hr; eapply dl_fin_wroots; eassumption).
  assert (Nth_old : forall w, w < length (wroots s) -> nth w (wroots s ++ [length (hp s)]) 0 = nth w (wroots s) 0).
  { intros w Lw. apply app_nth1. exact Lw. }
  assert (Nth_new : nth (length (wroots s)) (wroots s ++ [length (hp s)]) 0 = length (hp s)) by apply nth_middle.
  split; [|split; [apply al_pc; auto|split; [apply al_acy; auto|split; [apply al_sym; auto|
    split; [apply al_dag; auto|split; [apply al_sep; auto|split; [apply al_ids; auto|split]]]]]]].
  - apply al_fin_heap; auto.
    + intros w E. cbn [own T] in E. inversion E; subst w. rewrite app_length. simpl. lia.
    + intros x w E. apply (dl_fin_own s x w F) in E. rewrite app_length. simpl. lia.
    + intros r Hr. apply in_app_or in Hr. destruct Hr as [Hr|[<-|[]]]; [apply Lwr in Hr; lia|lia].
  - destruct Hid as (A & B & C). split; [|split].
    + cbn [wroots]. apply NoDup_snoc; [exact A|]. intro Hin. apply Lwr in Hin. lia.
    + intros x Lx. cbn [hp wroots] in *. rewrite al_len in Lx. rewrite in_app_iff.
      destruct (Nat.eq_dec x (length (hp s))) as [->|N].
      * rewrite get_app_eq. cbn [hidden T]. split; [intros _; right; left; reflexivity|reflexivity].
      * rewrite al_old by exact N. rewrite (B x) by lia. split; [intro H; left; exact H|].
        intros [H|[H|[]]]; [exact H|]. exfalso. apply N. symmetry. exact H.
    + intros w Lw. cbn [hp wroots] in *. cbv zeta. rewrite app_length in Lw. simpl in Lw.
      destruct (Nat.eq_dec w (length (wroots s))) as [->|N].
      * rewrite Nth_new, get_app_eq. cbn. repeat split; reflexivity.
      * assert (Lw' : w < length (wroots s)) by lia. rewrite (Nth_old w Lw').
        assert (Lr : nth w (wroots s) 0 < length (hp s)) by (apply Lwr; apply nth_In; exact Lw').
        rewrite get_app_lt by exact Lr. apply (C w Lw').
  - intros t w Lt. cbn [hp wroots] in *. rewrite al_len in Lt. rewrite al_Root by reflexivity.
    rewrite app_length. simpl.
    destruct (Nat.eq_dec t (length (hp s))) as [->|N].
    + rewrite get_app_eq. cbn [own T]. split.
      * intro E. inversion E; subst w. split; [lia|]. rewrite Nth_new. apply al_Root_new. reflexivity.
      * intros [Lw R]. apply al_Root_new in R.
        destruct (Nat.eq_dec w (length (wroots s))) as [->|Nw]; [reflexivity|exfalso].
        assert (Lw' : w < length (wroots s)) by lia. rewrite (Nth_old w Lw') in R.
        assert (Lr : nth w (wroots s) 0 < length (hp s)) by (apply Lwr; apply nth_In; exact Lw').
        unfold obj in *. lia.
    + assert (Lt' : t < length (hp s)) by lia. rewrite al_old by exact N. split.
      * intro E. destruct (proj1 (Own t w Lt') E) as [Lw R]. split; [lia|]. rewrite (Nth_old w Lw). exact R.
      * intros [Lw R]. destruct (Nat.eq_dec w (length (wroots s))) as [->|Nw].
        -- exfalso. rewrite Nth_new in R. apply (al_not_Root_new s W t Lt'). exact R.
        -- assert (Lw' : w < length (wroots s)) by lia. rewrite (Nth_old w Lw') in R.
           apply (Own t w Lt'). split; assumption.
Qed.

(* ================= the operations as steps ================= *)
(* shape across steps that may allocate: old objects keep their hidden flag, nothing is freed *)
Definition nohid (s : state) (x : obj) : Prop := hidden (get (hp s) x) = false.

Definition parent_args_pub (s : state) (o : op) : Prop :=
  match o with
  | SetParent t _ => nohid s t
  | ChAppend _ t | ChInsert _ _ t => forall t', t = Some t' -> nohid s t'
  | LstSetParent ts _ => forall t, In t ts -> nohid s t
  | NewTask _ _ _ _ | NewWbs | SetEst _ _ | SetPrio _ _ => True
  | _ => False
  end.

Lemma okobj_lt s x : okobj s x = true -> x < length (hp s).
Proof. unfold okobj. apply Nat.ltb_lt. Qed.

Lemma okopt_range s p : okopt s p = true -> forall p', p = Some p' -> p' < length (hp s).
Proof. intros H p' E. subst p. apply okobj_lt. exact H. Qed.

Lemma okopt_pub s t : okopt s t = true -> (forall t', t = Some t' -> nohid s t') -> forall t', t = Some t' -> pub s t'.
Proof. intros H N t' E. split; [apply (okopt_range s t H); exact E|apply N; exact E]. Qed.

Theorem parent_step_WF s o : WF s -> parent_args_pub s o -> WF (fst (step s o)).
Proof.
  intros W A. unfold step. destruct (args_ok s o) eqn:Ok; [|exact W].
  destruct o; simpl in A; try contradiction; simpl in Ok |- *.
  - apply new_task_WF; exact W.
  - apply new_wbs_WF; exact W.
  - apply andb_true_iff in Ok. destruct Ok as [O1 O2].
    apply set_parent_WF; [exact W|split; [apply okobj_lt; exact O1|exact A]|].
    destruct p as [p'|]; [right; exists p'; split; [reflexivity|apply okobj_lt; exact O2]|left; reflexivity].
  - apply andb_true_iff in Ok. destruct Ok as [O1 O2].
    apply ch_append_WF; [exact W|apply okobj_lt; exact O1|apply okopt_pub; assumption].
  - apply andb_true_iff in Ok. destruct Ok as [O1 O2].
    apply ch_insert_WF; [exact W|apply okobj_lt; exact O1|apply okopt_pub; assumption].
  - apply andb_true_iff in Ok. destruct Ok as [O1 O2].
    apply lst_set_parent_WF; [exact W| |apply okopt_range; exact O2].
    intros t Hin. split; [|apply A; exact Hin].
    apply okobj_lt. apply (proj1 (forallb_forall _ _) O1 t Hin).
  - apply set_est_WF; exact W.
  - apply set_prio_WF; exact W.
Qed.

(* ================= non-vacuity ================= *)
(* one WBS (hidden root 0) holding 1 > 2, and a detached task 3: re-parenting 3 under 2 is accepted, changes
   the state, and all hypotheses of set_parent_WF hold; so do those of the hidden-root case (roots.append). *)
From PJ Require Graph.OracleProofs.
Definition demo_ops : list op :=
  [NewWbs; NewTask 1%Z None [] None; NewTask 2%Z None [] None; NewTask 3%Z None [] None;
   ChAppend 0 (Some 1); SetParent 2 (Some 1)].
Definition demo : state := run init demo_ops.

Example set_parent_WF_nonvacuous :
  WF demo /\ pub demo 3 /\ 2 < length (hp demo) /\
  snd (set_parent demo 3 (Some 2)) = OK /\
  own (get (hp (fst (set_parent demo 3 (Some 2)))) 3) = Some 0 /\
  snd (set_parent demo 3 (Some 0)) = OK /\                       (* the new parent is the hidden WBS root *)
  kids (get (hp (fst (set_parent demo 3 (Some 0)))) 0) = [1; 3] /\
  snd (set_parent demo 2 None) = OK /\                           (* None on an owned task: to the WBS root level *)
  kids (get (hp (fst (set_parent demo 2 None))) 0) = [1; 2] /\
  snd (set_parent demo 1 (Some 2)) = Err /\
  parent_args_pub demo (SetParent 3 (Some 2)).
Proof.
  split; [apply OracleProofs.wf_b_WF; vm_compute; reflexivity|].
  split; [split; [vm_compute; lia|reflexivity]|].
  split; [vm_compute; lia|].
  repeat split; vm_compute; reflexivity.
Qed.
