(* C11 - Task.wbs tells the truth about WBS membership.

   INDEX
     own_iff_member          WF s -> pub s t -> (own t = Some w <-> w is a WBS /\ t is a proper descendant of its root)
     own_truth               WF s -> pub s t -> (own t = Some w <-> w is a WBS /\ t appears in wbs_tasks s w)
     own_Anc                 WF s -> Anc x a -> own x = own a            (the owner is constant along the parent chain)
     detached_released       WF s -> pub s t -> par t = None -> t and everything below it is unowned, in no WBS's
                             tasks, and the ownership clause of set_parent_guard accepts any new parent for t
     subtree_set_parent      an accepted t.parent = p changes own exactly in the subtree of t (to the owner of the new parent)
     == removal paths (all give: WF, own None, in no WBS, own_guard OK; parent None where the task itself is detached) ==
     released s t            the conclusion shared by the removal paths
     ch_remove_released      children.remove(t) / roots.remove(t)
     wbs_remove_released     WBS.remove(t) for a member t (wherever it sits in the WBS)
     set_children_released   t left out of a children / roots assignment
     seq_calls_release       loops: a fact established at c's turn and kept by the other turns holds at the end
     ch_remove_all_released  children.remove_all(id_in_=ids): every matching child
     wbs_remove_all_released WBS.remove_all(id_in_=ids): every matching member (the topmost ones are detached,
                             matching tasks below them leave with them and keep their parent)
     reach_C11               own_truth on every state reached by a public history *)
From Coq Require Import Arith PeanoNat.
From PJ Require Import Base.Prelude Graph.Model Graph.Invariant Graph.AncLemmas Graph.AncLemmas2
  Graph.DepLemmas Graph.LinksProofs Graph.LinksOps Graph.ParentProofs Graph.ParentOps
  Graph.ChildrenProofsWrite Graph.ChildrenProofs Graph.ChildrenOps Graph.OracleProofs
  Graph.StepProofs Graph.C05Proofs Graph.FrameProofs.
From PJ Require Graph.AtomicProofs Graph.AtomicLoops.
Local Open Scope nat_scope.

(* ================= the truth of Task.wbs ================= *)
Theorem own_iff_member s t w : WF s -> pub s t ->
  (own (get (hp s) t) = Some w <-> w < length (wroots s) /\ member s w t).
Proof.
  intros W [Lt Ht]. pose proof (WF_own s W t w Lt) as O. rewrite O. unfold member, Root. split.
  - intros [Lw [[E|A] _]]; [|auto]. exfalso.
    destruct (wroot_facts s w (WF_hid s W) (WF_fin s W) Lw) as (_ & Hr & _). unfold wroot in Hr. congruence.
  - intros [Lw A]. split; [exact Lw|]. split; [right; exact A|].
    apply (wroot_facts s w (WF_hid s W) (WF_fin s W) Lw).
Qed.

Theorem own_truth s t w : WF s -> pub s t ->
  (own (get (hp s) t) = Some w <-> w < length (wroots s) /\ exists l, wbs_tasks s w = Ok l /\ In t l).
Proof.
  intros W Pt. rewrite (own_iff_member s t w W Pt).
  destruct (wbs_tasks_spec s w W) as (l & E & _ & I & _). split; intros [Lw H]; (split; [exact Lw|]).
  - exists l. split; [exact E|apply I; exact H].
  - destruct H as (l' & E' & Hin). rewrite E in E'. inversion E'; subst l'. apply I. exact Hin.
Qed.

Theorem own_truth_list s t w l : WF s -> pub s t -> w < length (wroots s) -> wbs_tasks s w = Ok l ->
  (own (get (hp s) t) = Some w <-> In t l).
Proof.
  intros W Pt Lw E. rewrite (own_truth s t w W Pt). split.
  - intros (_ & l' & E' & H). rewrite E in E'. inversion E'; subst l'. exact H.
  - intro H. split; [exact Lw|]. exists l. auto.
Qed.

(* members are tasks *)
Lemma member_pub s w t : WF s -> member s w t -> pub s t.
Proof.
  intros W A. unfold member in A. apply Anc_inv in A. destruct A as (q & Pq & _).
  apply (kid_pub s q t W). apply (proj1 (WF_pc s W)). exact Pq.
Qed.

Lemma own_opt_eq (a b : option wid) : (forall w, a = Some w <-> b = Some w) -> a = b.
Proof.
  intro H. destruct a as [x|], b as [y|]; try reflexivity.
  - symmetry. apply (H x). reflexivity.
  - symmetry. apply (H x). reflexivity.
  - apply (H y). reflexivity.
Qed.

Theorem own_Anc s x a : WF s -> Anc (hp s) x a -> own (get (hp s) x) = own (get (hp s) a).
Proof.
  intros W A. pose proof (WF_fin s W) as F.
  assert (Lx : x < length (hp s)) by (eapply Anc_lt_l; exact A).
  assert (La : a < length (hp s)) by (eapply Anc_lt_r; [apply I_fin_par_fin; exact F|exact A]).
  apply own_opt_eq. intro w. rewrite (WF_own s W x w Lx), (WF_own s W a w La), (Root_Anc _ _ _ _ A). tauto.
Qed.

Theorem own_Sub s t x : WF s -> Sub (hp s) t x -> own (get (hp s) x) = own (get (hp s) t).
Proof. intros W [->|A]; [reflexivity|apply own_Anc; assumption]. Qed.

(* ================= a released task ================= *)
(* the conclusion shared by every removal path: t and everything below it has no owner and appears in the
   tasks of no WBS; the ownership clause of the parent setter accepts any new parent for t *)
Definition released (s : state) (t : obj) : Prop :=
  WF s /\ pub s t /\
  (forall x, Sub (hp s) t x -> own (get (hp s) x) = None) /\
  (forall x w l, w < length (wroots s) -> Sub (hp s) t x -> wbs_tasks s w = Ok l -> ~ In x l) /\
  (forall p, own_guard s t p = OK).

Lemma unowned_released s t : WF s -> pub s t -> own (get (hp s) t) = None -> released s t.
Proof.
  intros W Pt O. split; [exact W|]. split; [exact Pt|].
  assert (Os : forall x, Sub (hp s) t x -> own (get (hp s) x) = None).
  { intros x Sx. rewrite (own_Sub s t x W Sx). exact O. }
  split; [exact Os|]. split.
  - intros x w l Lw Sx E Hin.
    destruct (wbs_tasks_spec s w W) as (l' & E' & _ & I & _). rewrite E in E'. inversion E'; subst l'.
    apply I in Hin.
    pose proof (proj2 (own_iff_member s x w W (member_pub s w x W Hin)) (conj Lw Hin)) as Ox.
    rewrite (Os x Sx) in Ox. discriminate.
  - intro p. unfold own_guard. rewrite O. reflexivity.
Qed.

Theorem detached_released s t : WF s -> pub s t -> par (get (hp s) t) = None -> released s t.
Proof.
  intros W Pt Pn. apply unowned_released; try assumption.
  destruct (own (get (hp s) t)) as [w|] eqn:O; [exfalso|reflexivity].
  apply (own_iff_member s t w W Pt) in O. destruct O as [_ A]. unfold member in A.
  apply Anc_has_par in A. destruct A as [q Eq]. congruence.
Qed.

(* ================= adoption / re-parenting: exactly the moved subtree ================= *)
Lemma guard_own_clause s t p' w :
  set_parent_guard s t (Some p') = OK -> own (get (hp s) t) = Some w -> own (get (hp s) p') = Some w.
Proof.
  intros G O.
  destruct (own_guard s t (Some p')) as [[]| |k] eqn:E.
  - unfold own_guard in E. rewrite O in E.
    destruct (onat_eqb (own (get (hp s) p')) (Some w)) eqn:B; [apply onat_eqb_eq; exact B|discriminate E].
  - rewrite (set_parent_guard_own_clause s t (Some p')) in G by (rewrite E; discriminate). discriminate.
  - rewrite (set_parent_guard_own_clause s t (Some p')) in G by (rewrite E; discriminate). discriminate.
Qed.

Theorem subtree_set_parent s t p s' :
  WF s -> pub s t -> step s (SetParent t p) = (s', OK) ->
  let h := hp s in
  let h' := hp s' in
  (forall x, ~ Sub h t x -> own (get h' x) = own (get h x)) /\
  (forall x, Sub h t x -> x < length h ->
     own (get h' x) = match eff_par s t p with Some p' => own (get h p') | None => None end).
Proof.
  intros W Pt E. cbv zeta. pose proof W as (F & Pc & Acy & _).
  destruct (step_set_parent_inv s t p s' E) as (Lt & Lp & G & ->).
  split.
  - intros x N. apply (set_parent_effect_own s t p x F Pc Acy Lt Lp). right; right; left. exact N.
  - intros x Sx Lx.
    pose proof (set_parent_effect_own s t p x F Pc Acy Lt Lp) as [Ea Eb]. cbv zeta in Ea, Eb.
    destruct (eff_par s t p) as [p'|] eqn:Ep.
    + destruct (own (get (hp s) p')) as [w|] eqn:Op.
      * apply (Ea p' w eq_refl Op Lx Sx).
      * rewrite Eb by (right; left; exists p'; auto).
        rewrite (own_Sub s t x W Sx).
        destruct (own (get (hp s) t)) as [w|] eqn:Ot; [exfalso|reflexivity].
        unfold eff_par in Ep. rewrite Ot in Ep. destruct p as [q|].
        -- inversion Ep; subst q. rewrite (guard_own_clause s t p' w G Ot) in Op. discriminate.
        -- inversion Ep; subst p'.
           assert (Lw : w < length (wroots s)) by (eapply dl_fin_own; eassumption).
           destruct (wroot_facts s w (WF_hid s W) F Lw) as (_ & _ & _ & Or). unfold wroot in Or.
           rewrite Or in Op. discriminate.
    + rewrite Eb by (left; reflexivity). rewrite (own_Sub s t x W Sx).
      unfold eff_par in Ep. destruct p as [q|]; [discriminate|].
      destruct (own (get (hp s) t)); [discriminate|reflexivity].
Qed.

(* ================= removal paths ================= *)
(* ---- children.remove(t) / roots.remove(t) ---- *)
Theorem ch_remove_released s o t :
  WF s -> In t (kids (get (hp s) o)) ->
  let s' := fst (ch_remove s o (Some t)) in
  snd (ch_remove s o (Some t)) = OK /\ released s' t /\ par (get (hp s') t) = None /\
  ~ In t (kids (get (hp s') o)) /\
  (forall x, In x (subtree (hp s) t) -> own (get (hp s') x) = None).
Proof.
  intros W Hin. cbv zeta.
  pose proof (AtomicLoops.ch_remove_accepts s o t W) as Hok.
  destruct (ch_remove_releases s o t W Hin Hok) as (W' & Pn & Nk & _ & O2 & _). cbv zeta in *.
  split; [exact Hok|]. split; [|split; [exact Pn|split; [exact Nk|exact O2]]].
  apply detached_released; [exact W'| |exact Pn].
  apply ch_remove_pub. eapply kid_pub; eassumption.
Qed.

(* ---- WBS.remove(t), t anywhere in the WBS ---- *)
Lemma wbs_remove_task_member s w t : WF s -> member s w t ->
  exists q, In t (kids (get (hp s) q)) /\ wbs_remove_task s w t = ch_remove s q (Some t).
Proof.
  intros W M. unfold wbs_remove_task.
  destruct (wbs_tasks_spec s w W) as (l & E & _ & I & _). rewrite E.
  destruct (find (fun q => memn t (kids (get (hp s) q))) (wroot s w :: l)) as [q|] eqn:Fd.
  - apply find_some in Fd. destruct Fd as [_ Hq]. apply memn_In in Hq. exists q. auto.
  - exfalso. unfold member in M. pose proof M as M'. apply Anc_inv in M'. destruct M' as (q & Pq & Hq).
    assert (Hin : In q (wroot s w :: l)).
    { destruct Hq as [->|A]; [left; reflexivity|right; apply I; exact A]. }
    pose proof (find_none _ _ Fd q Hin) as N. cbv beta in N.
    apply memn_false in N. apply N. apply (proj1 (WF_pc s W)). exact Pq.
Qed.

Theorem wbs_remove_released s w t :
  WF s -> member s w t ->
  let s' := fst (wbs_remove s w (Some t)) in
  snd (wbs_remove s w (Some t)) = OK /\ released s' t /\ par (get (hp s') t) = None /\
  (forall x, In x (subtree (hp s) t) -> own (get (hp s') x) = None).
Proof.
  intros W M. cbv zeta. unfold wbs_remove.
  destruct (wbs_remove_task_member s w t W M) as (q & Hin & ->).
  destruct (ch_remove_released s q t W Hin) as (A & B & C & _ & D). auto.
Qed.

(* ---- being left out of t.children = vs / wbs.roots = vs ---- *)
Theorem set_children_released s t vs s' c :
  WF s -> t < length (hp s) -> pubs s vs -> set_children s t vs = (s', OK) ->
  In c (kids (get (hp s) t)) -> ~ In (Some c) vs ->
  released s' c /\ par (get (hp s') c) = None.
Proof.
  intros W Lt Pv E Hin Nin. pose proof W as (F & Pc & _).
  assert (Lv : forall v, In (Some v) vs -> v < length (hp s)) by (intros v Hv; apply Pv; exact Hv).
  destruct (set_children_effect s t vs s' F Pc Lt Lv E) as (_ & _ & Ep & _). cbv zeta in Ep.
  assert (Pn : par (get (hp s') c) = None).
  { rewrite Ep.
    assert (N1 : ~ In c (dedup (somes vs))) by (rewrite In_dedup, In_somes; exact Nin).
    unfold obj in *. apply memn_false in N1. rewrite N1.
    assert (N2 : In c (ChildrenProofsWrite.released (hp s) t (dedup (somes vs)))).
    { apply In_released. split; [exact Hin|]. apply memn_false. exact N1. }
    apply memn_In in N2. rewrite N2. reflexivity. }
  split; [|exact Pn]. apply detached_released; [| |exact Pn].
  - pose proof (set_children_WF s t vs W Lt Pv) as W'. rewrite E in W'. exact W'.
  - pose proof (set_children_pub s t vs c) as Pb. rewrite E in Pb. apply Pb. eapply kid_pub; eassumption.
Qed.

(* ---- loops ---- *)
Theorem seq_calls_release {A} (f : state -> A -> state * outcome) (Inv Done : state -> Prop) (c : A) :
  (forall s x, Inv s -> Inv (fst (f s x))) ->
  (forall s x, Inv s -> Done s -> Done (fst (f s x))) ->
  (forall s, Inv s -> snd (f s c) = OK -> Done (fst (f s c))) ->
  forall l s, In c l -> Inv s -> snd (seq_calls f s l) = OK -> Done (fst (seq_calls f s l)).
Proof.
  intros HI HD HC l. induction l as [|a l IH]; intros s Hin I Hok; [destruct Hin|].
  destruct (snd (f s a)) as [[]| |k] eqn:E.
  - rewrite (AtomicProofs.seq_calls_cons f s a l E) in Hok |- *.
    destruct Hin as [->|Hin].
    + assert (D : Done (fst (f s c))) by (apply HC; assumption).
      apply (seq_calls_inv (fun s' => Inv s' /\ Done s') f l); [|split; [apply HI; exact I|exact D]].
      intros s' x _ [I' D']. split; [apply HI; exact I'|apply HD; assumption].
    + apply IH; [exact Hin|apply HI; exact I|exact Hok].
  - exfalso. simpl in Hok. unfold andthen in Hok. rewrite E in Hok. rewrite E in Hok. discriminate.
  - exfalso. simpl in Hok. unfold andthen in Hok. rewrite E in Hok. rewrite E in Hok. discriminate.
Qed.

(* one children.remove on o: the parent of any c stays, becomes None, or is o *)
Lemma ch_remove_par s o x c : WF s ->
  let s' := fst (ch_remove s o x) in
  (par (get (hp s) c) = None -> par (get (hp s') c) = None) /\
  (par (get (hp s) c) = Some o \/ par (get (hp s) c) = None ->
   par (get (hp s') c) = Some o \/ par (get (hp s') c) = None).
Proof.
  intro W. cbv zeta. unfold ch_remove. destruct x as [x|]; [|tauto]. cbv zeta.
  destruct (memn x (kids (get (hp s) o))) eqn:M; [|tauto].
  apply memn_In in M. pose proof W as (F & Pc & _).
  set (vs := map Some (without x (kids (get (hp s) o)))).
  destruct (set_children_cases s o vs) as [[G E]|[_ [E _]]]; [|rewrite E; tauto].
  cbv zeta in E. rewrite E. cbn [fst].
  assert (Lo : o < length (hp s)) by (eapply kids_In_lt; eauto).
  assert (Lv : forall v, In (Some v) vs -> v < length (hp s)).
  { intros v Hv. unfold vs in Hv. apply in_map_iff in Hv. destruct Hv as (y & Ey & Hy). inversion Ey; subst y.
    apply In_without in Hy. eapply dl_fin_kids; [exact F|apply Hy]. }
  destruct (set_children_effect s o vs _ F Pc Lo Lv E) as (_ & _ & Ep & _). cbv zeta in Ep. rewrite Ep.
  destruct (memn c (dedup (somes vs))) eqn:Mv.
  - apply memn_In in Mv. apply (proj1 (In_dedup _ _)) in Mv. apply (proj1 (In_somes _ _)) in Mv.
    unfold vs in Mv. apply in_map_iff in Mv. destruct Mv as (y & Ey & Hy). inversion Ey; subst y.
    apply In_without in Hy. destruct Hy as [Hy _]. apply (proj1 Pc) in Hy.
    split; [intro Pn; congruence|intros _; left; reflexivity].
  - destruct (memn c (ChildrenProofsWrite.released _ _ _)); [split; auto|tauto].
Qed.

Theorem ch_remove_all_released s o ids c :
  WF s -> In c (kids (get (hp s) o)) -> In (tid (get (hp s) c)) ids ->
  let s' := fst (ch_remove_all s o ids) in
  snd (ch_remove_all s o ids) = OK /\ released s' c /\ par (get (hp s') c) = None.
Proof.
  intros W Hin Hid. cbv zeta.
  destruct (remove_all_never_raises_wf s W) as (Hok & _). specialize (Hok o ids).
  split; [exact Hok|].
  pose proof (ch_remove_all_WF s o ids W) as W'.
  assert (Pc' : pub (fst (ch_remove_all s o ids)) c) by (apply ch_remove_all_pub; eapply kid_pub; eassumption).
  assert (Pn : par (get (hp (fst (ch_remove_all s o ids))) c) = None).
  { unfold ch_remove_all in *.
    apply (seq_calls_release (fun s' x => ch_remove s' o (Some x))
             (fun s' => WF s' /\ (par (get (hp s') c) = Some o \/ par (get (hp s') c) = None))
             (fun s' => par (get (hp s') c) = None) c).
    - intros s1 x [W1 P1]. split; [apply ch_remove_WF; exact W1|].
      apply (ch_remove_par s1 o (Some x) c W1). exact P1.
    - intros s1 x [W1 _] D1. apply (ch_remove_par s1 o (Some x) c W1). exact D1.
    - intros s1 [W1 P1] _.
      destruct (memn c (kids (get (hp s1) o))) eqn:M.
      + apply memn_In in M. apply (ch_remove_released s1 o c W1 M).
      + unfold ch_remove. cbv zeta. rewrite M. cbn [fst]. destruct P1 as [P1|P1]; [exfalso|exact P1].
        apply memn_false in M. apply M. apply (proj1 (WF_pc s1 W1)). exact P1.
    - apply filter_In. split; [exact Hin|]. apply memz_In. exact Hid.
    - split; [exact W|]. left. apply (proj1 (WF_pc s W)). exact Hin.
    - exact Hok. }
  split; [|exact Pn]. apply detached_released; assumption.
Qed.

(* one removal never gives an owner: own' c is own c or None *)
Lemma ch_remove_own s o x c : WF s ->
  let s' := fst (ch_remove s o x) in
  own (get (hp s') c) = own (get (hp s) c) \/ own (get (hp s') c) = None.
Proof.
  intro W. cbv zeta. unfold ch_remove. destruct x as [x|]; [|auto]. cbv zeta.
  destruct (memn x (kids (get (hp s) o))) eqn:M; [|auto].
  apply memn_In in M. pose proof W as (F & Pc & Acy & _).
  set (vs := map Some (without x (kids (get (hp s) o)))).
  destruct (set_children_cases s o vs) as [[G E]|[_ [E _]]]; [|rewrite E; auto].
  cbv zeta in E. rewrite E. cbn [fst].
  assert (Lo : o < length (hp s)) by (eapply kids_In_lt; eauto).
  assert (Hvs : forall v, In v (dedup (somes vs)) -> In v (kids (get (hp s) o))).
  { intros v Hv. apply (proj1 (In_dedup _ _)) in Hv. apply (proj1 (In_somes _ _)) in Hv.
    unfold vs in Hv. apply in_map_iff in Hv. destruct Hv as (y & Ey & Hy). inversion Ey; subst y.
    apply In_without in Hy. apply Hy. }
  assert (Lv : forall v, In (Some v) vs -> v < length (hp s)).
  { intros v Hv. eapply dl_fin_kids; [exact F|]. apply Hvs. apply In_dedup. apply In_somes. exact Hv. }
  destruct (set_children_effect s o vs _ F Pc Lo Lv E) as (_ & _ & _ & _ & Eo & _). cbv zeta in Eo. rewrite Eo.
  destruct (own (get (hp s) o)) as [w|] eqn:Oo.
  - destruct (inA (hp s) (dedup (somes vs)) c) eqn:IA.
    + left. apply inA_iff in IA; [|exact Acy|intros v Hv; eapply dl_fin_kids; [exact F|apply Hvs; exact Hv]].
      destruct IA as (v & Hv & Sv). apply Hvs in Hv. apply (proj1 Pc) in Hv.
      rewrite (own_Sub s v c W Sv). rewrite (own_Anc s v o W (Anc_par _ _ _ Hv)). symmetry. exact Oo.
    + destruct (inB _ _ _ _); auto.
  - destruct (inB _ _ _ _); auto.
Qed.

Lemma wbs_remove_task_own s w x c : WF s ->
  let s' := fst (wbs_remove_task s w x) in
  own (get (hp s') c) = own (get (hp s) c) \/ own (get (hp s') c) = None.
Proof.
  intro W. cbv zeta. unfold wbs_remove_task. destruct (wbs_tasks s w) as [l| |k]; auto.
  destruct (find _ _) as [q|]; [apply ch_remove_own; exact W|auto].
Qed.

Theorem wbs_remove_all_released s w ids c :
  WF s -> w < length (wroots s) -> member s w c -> In (tid (get (hp s) c)) ids ->
  let s' := fst (wbs_remove_all s w ids) in
  snd (wbs_remove_all s w ids) = OK /\ released s' c.
Proof.
  intros W Lw M Hid. cbv zeta.
  destruct (remove_all_never_raises_wf s W) as (_ & _ & Hok). specialize (Hok w ids).
  split; [exact Hok|].
  pose proof (wbs_remove_all_WF s w ids W) as W'.
  pose proof (member_pub s w c W M) as Pc0.
  assert (Pc' : pub (fst (wbs_remove_all s w ids)) c) by (apply wbs_remove_all_pub; exact Pc0).
  apply unowned_released; [exact W'|exact Pc'|].
  unfold wbs_remove_all in *.
  destruct (wbs_tasks_spec s w W) as (l & E & _ & I & _). rewrite E in *.
  apply (seq_calls_release (fun s' t => wbs_remove_task s' w t)
           (fun s' => WF s' /\ pub s' c /\ (own (get (hp s') c) = Some w \/ own (get (hp s') c) = None))
           (fun s' => own (get (hp s') c) = None) c).
  - intros s1 x (W1 & P1 & O1). split; [apply wbs_remove_task_WF; exact W1|].
    split; [apply wbs_remove_task_pub; exact P1|].
    destruct (wbs_remove_task_own s1 w x c W1) as [R|R]; rewrite R; auto.
  - intros s1 x (W1 & _) D1. destruct (wbs_remove_task_own s1 w x c W1) as [R|R]; rewrite R; auto.
  - intros s1 (W1 & P1 & O1) _. destruct O1 as [O1|O1].
    + apply (own_iff_member s1 c w W1 P1) in O1. destruct O1 as [_ M1].
      destruct (wbs_remove_task_member s1 w c W1 M1) as (q & Hq & ->).
      destruct (ch_remove_released s1 q c W1 Hq) as (_ & _ & _ & _ & D). apply D.
      apply In_subtree; [apply (WF_acy s1 W1)|]. split; [apply P1|apply Sub_refl].
    + destruct (wbs_remove_task_own s1 w c c W1) as [R|R]; rewrite R; auto.
  - apply filter_In. split; [apply I; exact M|]. apply memz_In. exact Hid.
  - split; [exact W|]. split; [exact Pc0|]. left. apply (own_iff_member s c w W Pc0). auto.
  - exact Hok.
Qed.

(* ================= on reachable states ================= *)
Theorem reach_C11 ops : pub_run init ops ->
  let s := run init ops in
  forall t w, pub s t ->
    (own (get (hp s) t) = Some w <-> w < length (wroots s) /\ exists l, wbs_tasks s w = Ok l /\ In t l).
Proof. intros P s t w Pt. apply own_truth; [apply reach_WF; exact P|exact Pt]. Qed.

Theorem released_iff s t : released s t <->
  WF s /\ pub s t /\
  (forall x, Sub (hp s) t x -> own (get (hp s) x) = None) /\
  (forall x w l, w < length (wroots s) -> Sub (hp s) t x -> wbs_tasks s w = Ok l -> ~ In x l) /\
  (forall p, own_guard s t p = OK).
Proof. reflexivity. Qed.
