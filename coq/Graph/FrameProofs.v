(* C16, setter level: the exact effect of an accepted setter call, as a fact about [step], and its frame
   ("no relation of any task that is neither named in the call nor attached to the edited list changes").

   INDEX
     step_set_parent_inv / step_set_children_inv / step_set_links_inv   an accepted step of a setter: ranges, the write
     step_set_parent_effect     = ParentProofs.set_parent_effect       on the state returned by the step
     step_set_children_effect   = ChildrenProofs.set_children_effect
     step_set_links_effect      = LinksProofs.set_links_effect
     frame_set_parent           tasks other than t, its old parent, its new parent and the subtree of t (for own)
     frame_set_children         tasks other than t, the adopted and released tasks, their old parents, their subtrees (own)
     frame_set_links            tasks other than t, its old and its new partners
     frame_derived              the list facades and operators ARE setter calls (so the three frames apply to them) *)
From Coq Require Import Arith PeanoNat.
From PJ Require Import Base.Prelude Graph.Model Graph.Invariant Graph.AncLemmas Graph.AncLemmas2
  Graph.DepLemmas Graph.LinksProofs Graph.ParentProofs Graph.ParentOps
  Graph.ChildrenProofsWrite Graph.ChildrenProofs.
From PJ Require Graph.EffectProofs.
Local Open Scope nat_scope.

Lemma filter_all {A} (f : A -> bool) l : (forall x, In x l -> f x = true) -> filter f l = l.
Proof.
  induction l as [|a l IH]; intro H; [reflexivity|]. simpl. rewrite (H a (or_introl eq_refl)).
  f_equal. apply IH. intros x Hx. apply H. right. exact Hx.
Qed.

Lemma oklist_range s vs : oklist s vs = true -> forall v, In (Some v) vs -> v < length (hp s).
Proof.
  intros H v Hv. apply (proj1 (forallb_forall _ _) H) in Hv. apply okobj_lt. exact Hv.
Qed.

Lemma step_set_parent_inv s t p s' : step s (SetParent t p) = (s', OK) ->
  t < length (hp s) /\ (forall p', p = Some p' -> p' < length (hp s)) /\
  set_parent_guard s t p = OK /\ s' = set_parent_write s t p.
Proof.
  intro E. apply EffectProofs.step_ok_inv in E. destruct E as [Ok E]. cbn [step' args_ok] in *.
  apply andb_true_iff in Ok. destruct Ok as [O1 O2].
  split; [apply okobj_lt; exact O1|]. split; [apply okopt_range; exact O2|].
  destruct (set_parent_cases s t p) as [[G E']|[_ [_ N]]].
  - rewrite E' in E. inversion E. auto.
  - rewrite E in N. exfalso; apply N; reflexivity.
Qed.

Lemma step_set_children_inv s t vs s' : step s (SetChildren t vs) = (s', OK) ->
  t < length (hp s) /\ (forall v, In (Some v) vs -> v < length (hp s)) /\ set_children s t vs = (s', OK).
Proof.
  intro E. apply EffectProofs.step_ok_inv in E. destruct E as [Ok E]. cbn [step' args_ok] in *.
  apply andb_true_iff in Ok. destruct Ok as [O1 O2].
  split; [apply okobj_lt; exact O1|]. split; [apply oklist_range; exact O2|exact E].
Qed.

Lemma step_set_links_inv d s t vs s' : step s (SetLinks d t vs) = (s', OK) ->
  let value := dedup (somes vs) in
  t < length (hp s) /\ (forall v, In v value -> v < length (hp s)) /\ NoDup value /\
  set_links_guard d s t value = OK /\ s' = set_links_write d s t value.
Proof.
  intro E. cbv zeta. apply EffectProofs.step_ok_inv in E. destruct E as [Ok E]. cbn [step' args_ok] in *.
  apply andb_true_iff in Ok. destruct Ok as [O1 O2].
  split; [apply okobj_lt; exact O1|]. split; [|split; [apply NoDup_dedup|]].
  - intros v Hv. apply (proj1 (In_dedup _ _)) in Hv. apply (proj1 (In_somes _ _)) in Hv. eapply oklist_range; eassumption.
  - destruct (set_links_cases d s t vs) as [[G E']|[_ [_ N]]].
    + rewrite E' in E. inversion E. auto.
    + rewrite E in N. exfalso; apply N; reflexivity.
Qed.

(* ================= the exact effects, on the result of the step ================= *)
Theorem step_set_parent_effect s t p s' :
  I_fin s -> I_pc s -> step s (SetParent t p) = (s', OK) ->
  let h := hp s in
  let h' := hp s' in
  let p2 := eff_par s t p in
  wroots s' = wroots s /\ length h' = length h /\
  par (get h' t) = p2 /\
  (forall x, x <> t -> par (get h' x) = par (get h x)) /\
  (forall x, kids (get h' x) = without t (kids (get h x)) ++ (if onat_eqb p2 (Some x) then [t] else [])) /\
  (forall x, own (get h' x) =
             match p2 with
             | Some p' => match own (get h p') with
                          | Some w => if insub h t x && Nat.ltb x (length h) then Some w else own (get h x)
                          | None => own (get h x)
                          end
             | None => own (get h x)
             end) /\
  (forall x, rest (get h' x) = rest (get h x)).
Proof.
  intros F Pc E. destruct (step_set_parent_inv s t p s' E) as (Lt & Lp & _ & ->).
  exact (set_parent_effect s t p F Pc Lt Lp).
Qed.

Theorem step_set_children_effect s t vs s' :
  I_fin s -> I_pc s -> step s (SetChildren t vs) = (s', OK) ->
  let h := hp s in
  let h' := hp s' in
  let value := dedup (somes vs) in
  let rel := released h t value in
  wroots s' = wroots s /\ length h' = length h /\
  (forall x, par (get h' x) = if memn x value then Some t else if memn x rel then None else par (get h x)) /\
  (forall q, kids (get h' q) = if Nat.eqb q t then value
                               else filter (fun c => negb (memn c value)) (kids (get h q))) /\
  (forall x, own (get h' x) =
             match own (get h t) with
             | Some w => if inA h value x then Some w else if inB h t value x then None else own (get h x)
             | None => if inB h t value x then None else own (get h x)
             end) /\
  (forall x, rest (get h' x) = rest (get h x)).
Proof.
  intros F Pc E. destruct (step_set_children_inv s t vs s' E) as (Lt & Lv & E').
  exact (set_children_effect s t vs s' F Pc Lt Lv E').
Qed.

Theorem step_set_links_effect d s t vs s' :
  I_fin s -> I_sym s -> step s (SetLinks d t vs) = (s', OK) ->
  let h := hp s in
  let h' := hp s' in
  let value := dedup (somes vs) in
  wroots s' = wroots s /\ length h' = length h /\
  fwd d (get h' t) = value /\
  (forall x, x <> t -> fwd d (get h' x) = fwd d (get h x)) /\
  (forall x, bwd d (get h' x) = without t (bwd d (get h x)) ++ (if memn x value then [t] else [])) /\
  (forall x, core (get h' x) = core (get h x)).
Proof.
  intros F Sy E. destruct (step_set_links_inv d s t vs s' E) as (Lt & Lv & Nd & _ & ->).
  exact (set_links_effect d s t (dedup (somes vs)) F Sy Lt Lv Nd).
Qed.

(* ================= frames ================= *)
(* t.parent = p: a task x keeps its parent unless x = t; its children list unless it is the old or the new
   parent of t; its owner unless it lies in the subtree of t; its links and attributes always *)
Theorem frame_set_parent s t p s' :
  WF s -> step s (SetParent t p) = (s', OK) ->
  let h := hp s in
  let h' := hp s' in
  wroots s' = wroots s /\ length h' = length h /\
  forall x,
    (x <> t -> par (get h' x) = par (get h x)) /\
    (par (get h t) <> Some x -> eff_par s t p <> Some x -> kids (get h' x) = kids (get h x)) /\
    (~ Sub h t x -> own (get h' x) = own (get h x)) /\
    preds (get h' x) = preds (get h x) /\ succs (get h' x) = succs (get h x) /\
    tid (get h' x) = tid (get h x) /\ hidden (get h' x) = hidden (get h x) /\
    prio (get h' x) = prio (get h x) /\ name (get h' x) = name (get h x) /\ est (get h' x) = est (get h x).
Proof.
  intros (F & Pc & Acy & _) E. cbv zeta.
  destruct (step_set_parent_inv s t p s' E) as (Lt & Lp & _ & ->).
  destruct (set_parent_effect s t p F Pc Lt Lp) as (Ew & El & _ & Ep & _ & _ & Er). cbv zeta in *.
  split; [exact Ew|]. split; [exact El|]. intro x.
  split; [apply Ep|]. split; [|split].
  - intros N1 N2. apply (set_parent_effect_kids_cases s t p x F Pc Lt Lp); assumption.
  - intro N. apply (set_parent_effect_own s t p x F Pc Acy Lt Lp). right; right; left. exact N.
  - pose proof (Er x) as R. unfold ParentProofs.rest in R. injection R; intros. repeat split; assumption.
Qed.

(* t.children = vs (wbs.roots = vs): a task x keeps its parent unless it is adopted or released; a task q <> t
   keeps its children list except for the adopted tasks it loses (the others keep their relative order); the
   owner changes only below adopted / released tasks; links and attributes never *)
Theorem frame_set_children s t vs s' :
  WF s -> step s (SetChildren t vs) = (s', OK) ->
  let h := hp s in
  let h' := hp s' in
  let value := dedup (somes vs) in
  wroots s' = wroots s /\ length h' = length h /\
  (forall x, ~ In x value -> ~ (In x (kids (get h t)) /\ ~ In x value) -> par (get h' x) = par (get h x)) /\
  (forall q, q <> t -> kids (get h' q) = filter (fun c => negb (memn c value)) (kids (get h q))) /\
  (forall q, q <> t -> (forall c, In c (kids (get h q)) -> ~ In c value) -> kids (get h' q) = kids (get h q)) /\
  (forall x, ~ (exists v, In (Some v) vs /\ Sub h v x) ->
             ~ (exists c, In c (kids (get h t)) /\ ~ In (Some c) vs /\ Sub h c x) ->
             own (get h' x) = own (get h x)) /\
  (forall x, preds (get h' x) = preds (get h x) /\ succs (get h' x) = succs (get h x) /\
             tid (get h' x) = tid (get h x) /\ hidden (get h' x) = hidden (get h x) /\
             prio (get h' x) = prio (get h x) /\ name (get h' x) = name (get h x) /\ est (get h' x) = est (get h x)).
Proof.
  intros W E. pose proof W as (F & Pc & _). cbv zeta.
  destruct (step_set_children_inv s t vs s' E) as (Lt & Lv & E').
  destruct (set_children_effect s t vs s' F Pc Lt Lv E') as (Ew & El & Ep & Ek & _ & Er). cbv zeta in *.
  split; [exact Ew|]. split; [exact El|]. split; [|split; [|split; [|split]]].
  - intros x N1 N2. rewrite Ep. unfold obj in *.
    apply memn_false in N1. rewrite N1.
    assert (N3 : memn x (released (hp s) t (dedup (somes vs))) = false).
    { apply memn_false. rewrite In_released. exact N2. }
    rewrite N3. reflexivity.
  - intros q N. rewrite Ek. apply Nat.eqb_neq in N. rewrite N. reflexivity.
  - intros q N Hc. rewrite Ek. apply Nat.eqb_neq in N. rewrite N.
    apply filter_all. intros c Hin. apply negb_true_iff. apply memn_false. apply Hc. exact Hin.
  - intros x NA NB. apply (set_children_effect_own s t vs s' W Lt Lv E' x); assumption.
  - intro x. pose proof (Er x) as R. apply rest_inv in R.
    destruct R as (A1 & A2 & A3 & A4 & A5 & A6 & A7). repeat split; assumption.
Qed.

(* t.predecessors = vs / t.successors = vs: a task x <> t keeps its list of the same kind; its mirror list unless
   it is an old or a new partner of t; hierarchy, owner and attributes never change *)
Theorem frame_set_links d s t vs s' :
  WF s -> step s (SetLinks d t vs) = (s', OK) ->
  let h := hp s in
  let h' := hp s' in
  let value := dedup (somes vs) in
  wroots s' = wroots s /\ length h' = length h /\
  forall x,
    (x <> t -> fwd d (get h' x) = fwd d (get h x)) /\
    (~ In x value -> ~ In x (fwd d (get h t)) -> bwd d (get h' x) = bwd d (get h x)) /\
    par (get h' x) = par (get h x) /\ kids (get h' x) = kids (get h x) /\ own (get h' x) = own (get h x) /\
    tid (get h' x) = tid (get h x) /\ hidden (get h' x) = hidden (get h x) /\
    prio (get h' x) = prio (get h x) /\ name (get h' x) = name (get h x) /\ est (get h' x) = est (get h x).
Proof.
  intros (F & _ & _ & Sy & _) E. cbv zeta.
  destruct (step_set_links_inv d s t vs s' E) as (Lt & Lv & Nd & _ & ->).
  destruct (set_links_effect d s t (dedup (somes vs)) F Sy Lt Lv Nd) as (Ew & El & _ & Ef & _ & Ec). cbv zeta in *.
  split; [exact Ew|]. split; [exact El|]. intro x.
  split; [apply Ef|]. split.
  - intros N1 N2. apply (set_links_effect_bwd_cases d s t (dedup (somes vs)) x F Sy Lt Lv Nd); assumption.
  - pose proof (core_inv _ _ (Ec x)) as (A1 & A2 & A3 & A4 & A5 & A6 & A7 & A8). repeat split; assumption.
Qed.

(* the list facades and operators on a single task are calls of the three setters: their frames are the above *)
Theorem frame_derived s :
  (forall o t, step' s (ChAppend o (Some t)) = step' s (SetParent t (Some o))) /\
  (forall o t, In t (kids (get (hp s) o)) ->
     step' s (ChRemove o (Some t)) = step' s (SetChildren o (map Some (without t (kids (get (hp s) o)))))) /\
  (forall o t, ~ In t (kids (get (hp s) o)) -> step' s (ChRemove o (Some t)) = (s, OK)) /\
  (forall o vs, step' s (OpFloordiv o vs) = step' s (SetChildren o (map Some (kids (get (hp s) o)) ++ vs))) /\
  (forall d t x, step' s (LnAppend d t (Some x)) = step' s (SetLinks d t (map Some (fwd d (get (hp s) t) ++ [x])))) /\
  (forall d t x, In x (fwd d (get (hp s) t)) ->
     step' s (LnRemove d t (Some x)) = step' s (SetLinks d t (map Some (without x (fwd d (get (hp s) t)))))) /\
  (forall d t x, ~ In x (fwd d (get (hp s) t)) -> step' s (LnRemove d t (Some x)) = (s, OK)) /\
  (forall d t vs, step' s (OpShift d t vs) = step' s (SetLinks d t (map Some (fwd d (get (hp s) t)) ++ vs))).
Proof.
  split; [reflexivity|]. split; [|split; [|split; [reflexivity|split; [reflexivity|split; [|split; [|reflexivity]]]]]];
    intros; cbn [step'].
  - unfold ch_remove. cbv zeta. apply memn_In in H. rewrite H. reflexivity.
  - unfold ch_remove. cbv zeta. apply memn_false in H. rewrite H. reflexivity.
  - unfold ln_remove. cbv zeta. apply memn_In in H. rewrite H. reflexivity.
  - unfold ln_remove. cbv zeta. apply memn_false in H. rewrite H. reflexivity.
Qed.
