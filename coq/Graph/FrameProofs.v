(* C16, setter level: the exact effect of an accepted setter call, as a fact about [step], and its frame
   ("no relation of any task that is neither named in the call nor attached to the edited list changes").

   INDEX
     step_set_parent_inv / step_set_children_inv / step_set_links_inv   an accepted step of a setter: ranges, the write
     step_set_parent_effect     = ParentProofs.set_parent_effect       on the state returned by the step
     step_set_children_effect   = ChildrenProofs.set_children_effect
     step_set_links_effect      = LinksProofs.set_links_effect
     frame_set_parent           tasks other than t, its old parent, its new parent and the subtree of t (for own)
     frame_set_children         tasks other than t, the adopted and released tasks, their old parents, their subtrees (own)
     frame_set_links            tasks other than t, its old and its new partners
     frame_derived              the list facades and operators ARE setter calls (so the three frames apply to them)
     == bulk assignment on a task list (lst.predecessors = vs, lst.successors = vs, lst.children = vs) ==
     lst_set_links_seq_effect   an accepted sequence: every element has the value; the mirror lists; the frame
     mirror_fold_NoDup          the mirror list for a duplicate-free task list: the others, then the list's elements
     step_lst_set_links_effect, step_lst_set_links_NoDup
     lst_set_children_seq_effect  the LAST element has the value, every other element of the list has no children,
                                every other list loses the value's tasks; parents; links and attributes unchanged
     step_lst_set_children_effect *)
From Coq Require Import Arith PeanoNat.
From PJ Require Import Base.Prelude Graph.Model Graph.Invariant Graph.AncLemmas Graph.AncLemmas2
  Graph.DepLemmas Graph.LinksProofs Graph.ParentProofs Graph.ParentOps
  Graph.ChildrenProofsWrite Graph.ChildrenProofs.
From PJ Require Graph.EffectProofs Graph.AtomicProofs Graph.StepProofs.
Local Open Scope nat_scope.

Lemma filter_all {A} (f : A -> bool) l : (forall x, In x l -> f x = true) -> filter f l = l.
Proof.
  induction l as [|a l IH]; intro H; [reflexivity|]. simpl. rewrite (H a (or_introl eq_refl)).
  f_equal. apply IH. intros x Hx. apply H. right. exact Hx.
Qed.

Lemma oklist_range s vs : oklist s vs = true -> forall v, In (Some v) vs -> v < length (hp s).
Proof.
  intros H v Hv. apply (proj1 (forallb_forall _ _) H) in Hv. apply okobj_lt. exact Hv.
Qed.

Lemma step_set_parent_inv s t p s' : step s (SetParent t p) = (s', OK) ->
  t < length (hp s) /\ (forall p', p = Some p' -> p' < length (hp s)) /\
  set_parent_guard s t p = OK /\ s' = set_parent_write s t p.
Proof.
  intro E. apply EffectProofs.step_ok_inv in E. destruct E as [Ok E]. cbn [step' args_ok] in *.
  apply andb_true_iff in Ok. destruct Ok as [O1 O2].
  split; [apply okobj_lt; exact O1|]. split; [apply okopt_range; exact O2|].
  destruct (set_parent_cases s t p) as [[G E']|[_ [_ N]]].
  - rewrite E' in E. inversion E. auto.
  - rewrite E in N. exfalso; apply N; reflexivity.
Qed.

Lemma step_set_children_inv s t vs s' : step s (SetChildren t vs) = (s', OK) ->
  t < length (hp s) /\ (forall v, In (Some v) vs -> v < length (hp s)) /\ set_children s t vs = (s', OK).
Proof.
  intro E. apply EffectProofs.step_ok_inv in E. destruct E as [Ok E]. cbn [step' args_ok] in *.
  apply andb_true_iff in Ok. destruct Ok as [O1 O2].
  split; [apply okobj_lt; exact O1|]. split; [apply oklist_range; exact O2|exact E].
Qed.

Lemma step_set_links_inv d s t vs s' : step s (SetLinks d t vs) = (s', OK) ->
  let value := dedup (somes vs) in
  t < length (hp s) /\ (forall v, In v value -> v < length (hp s)) /\ NoDup value /\
  set_links_guard d s t value = OK /\ s' = set_links_write d s t value.
Proof.
  intro E. cbv zeta. apply EffectProofs.step_ok_inv in E. destruct E as [Ok E]. cbn [step' args_ok] in *.
  apply andb_true_iff in Ok. destruct Ok as [O1 O2].
  split; [apply okobj_lt; exact O1|]. split; [|split; [apply NoDup_dedup|]].
  - intros v Hv. apply (proj1 (In_dedup _ _)) in Hv. apply (proj1 (In_somes _ _)) in Hv. eapply oklist_range; eassumption.
  - destruct (set_links_cases d s t vs) as [[G E']|[_ [_ N]]].
    + rewrite E' in E. inversion E. auto.
    + rewrite E in N. exfalso; apply N; reflexivity.
Qed.

(* ================= the exact effects, on the result of the step ================= *)
Theorem step_set_parent_effect s t p s' :
  I_fin s -> I_pc s -> step s (SetParent t p) = (s', OK) ->
  let h := hp s in
  let h' := hp s' in
  let p2 := eff_par s t p in
  wroots s' = wroots s /\ length h' = length h /\
  par (get h' t) = p2 /\
  (forall x, x <> t -> par (get h' x) = par (get h x)) /\
  (forall x, kids (get h' x) = without t (kids (get h x)) ++ (if onat_eqb p2 (Some x) then [t] else [])) /\
  (forall x, own (get h' x) =
             match p2 with
             | Some p' => match own (get h p') with
                          | Some w => if insub h t x && Nat.ltb x (length h) then Some w else own (get h x)
                          | None => own (get h x)
                          end
             | None => own (get h x)
             end) /\
  (forall x, rest (get h' x) = rest (get h x)).
Proof.
  intros F Pc E. destruct (step_set_parent_inv s t p s' E) as (Lt & Lp & _ & ->).
  exact (set_parent_effect s t p F Pc Lt Lp).
Qed.

Theorem step_set_children_effect s t vs s' :
  I_fin s -> I_pc s -> step s (SetChildren t vs) = (s', OK) ->
  let h := hp s in
  let h' := hp s' in
  let value := dedup (somes vs) in
  let rel := released h t value in
  wroots s' = wroots s /\ length h' = length h /\
  (forall x, par (get h' x) = if memn x value then Some t else if memn x rel then None else par (get h x)) /\
  (forall q, kids (get h' q) = if Nat.eqb q t then value
                               else filter (fun c => negb (memn c value)) (kids (get h q))) /\
  (forall x, own (get h' x) =
             match own (get h t) with
             | Some w => if inA h value x then Some w else if inB h t value x then None else own (get h x)
             | None => if inB h t value x then None else own (get h x)
             end) /\
  (forall x, rest (get h' x) = rest (get h x)).
Proof.
  intros F Pc E. destruct (step_set_children_inv s t vs s' E) as (Lt & Lv & E').
  exact (set_children_effect s t vs s' F Pc Lt Lv E').
Qed.

Theorem step_set_links_effect d s t vs s' :
  I_fin s -> I_sym s -> step s (SetLinks d t vs) = (s', OK) ->
  let h := hp s in
  let h' := hp s' in
  let value := dedup (somes vs) in
  wroots s' = wroots s /\ length h' = length h /\
  fwd d (get h' t) = value /\
  (forall x, x <> t -> fwd d (get h' x) = fwd d (get h x)) /\
  (forall x, bwd d (get h' x) = without t (bwd d (get h x)) ++ (if memn x value then [t] else [])) /\
  (forall x, core (get h' x) = core (get h x)).
Proof.
  intros F Sy E. destruct (step_set_links_inv d s t vs s' E) as (Lt & Lv & Nd & _ & ->).
  exact (set_links_effect d s t (dedup (somes vs)) F Sy Lt Lv Nd).
Qed.

(* ================= frames ================= *)
(* t.parent = p: a task x keeps its parent unless x = t; its children list unless it is the old or the new
   parent of t; its owner unless it lies in the subtree of t; its links and attributes always *)
Theorem frame_set_parent s t p s' :
  WF s -> step s (SetParent t p) = (s', OK) ->
  let h := hp s in
  let h' := hp s' in
  wroots s' = wroots s /\ length h' = length h /\
  forall x,
    (x <> t -> par (get h' x) = par (get h x)) /\
    (par (get h t) <> Some x -> eff_par s t p <> Some x -> kids (get h' x) = kids (get h x)) /\
    (~ Sub h t x -> own (get h' x) = own (get h x)) /\
    preds (get h' x) = preds (get h x) /\ succs (get h' x) = succs (get h x) /\
    tid (get h' x) = tid (get h x) /\ hidden (get h' x) = hidden (get h x) /\
    prio (get h' x) = prio (get h x) /\ name (get h' x) = name (get h x) /\ est (get h' x) = est (get h x).
Proof.
  intros (F & Pc & Acy & _) E. cbv zeta.
  destruct (step_set_parent_inv s t p s' E) as (Lt & Lp & _ & ->).
  destruct (set_parent_effect s t p F Pc Lt Lp) as (Ew & El & _ & Ep & _ & _ & Er). cbv zeta in *.
  split; [exact Ew|]. split; [exact El|]. intro x.
  split; [apply Ep|]. split; [|split].
  - intros N1 N2. apply (set_parent_effect_kids_cases s t p x F Pc Lt Lp); assumption.
  - intro N. apply (set_parent_effect_own s t p x F Pc Acy Lt Lp). right; right; left. exact N.
  - pose proof (Er x) as R. unfold ParentProofs.rest in R. injection R; intros. repeat split; assumption.
Qed.

(* t.children = vs (wbs.roots = vs): a task x keeps its parent unless it is adopted or released; a task q <> t
   keeps its children list except for the adopted tasks it loses (the others keep their relative order); the
   owner changes only below adopted / released tasks; links and attributes never *)
Theorem frame_set_children s t vs s' :
  WF s -> step s (SetChildren t vs) = (s', OK) ->
  let h := hp s in
  let h' := hp s' in
  let value := dedup (somes vs) in
  wroots s' = wroots s /\ length h' = length h /\
  (forall x, ~ In x value -> ~ (In x (kids (get h t)) /\ ~ In x value) -> par (get h' x) = par (get h x)) /\
  (forall q, q <> t -> kids (get h' q) = filter (fun c => negb (memn c value)) (kids (get h q))) /\
  (forall q, q <> t -> (forall c, In c (kids (get h q)) -> ~ In c value) -> kids (get h' q) = kids (get h q)) /\
  (forall x, ~ (exists v, In (Some v) vs /\ Sub h v x) ->
             ~ (exists c, In c (kids (get h t)) /\ ~ In (Some c) vs /\ Sub h c x) ->
             own (get h' x) = own (get h x)) /\
  (forall x, preds (get h' x) = preds (get h x) /\ succs (get h' x) = succs (get h x) /\
             tid (get h' x) = tid (get h x) /\ hidden (get h' x) = hidden (get h x) /\
             prio (get h' x) = prio (get h x) /\ name (get h' x) = name (get h x) /\ est (get h' x) = est (get h x)).
Proof.
  intros W E. pose proof W as (F & Pc & _). cbv zeta.
  destruct (step_set_children_inv s t vs s' E) as (Lt & Lv & E').
  destruct (set_children_effect s t vs s' F Pc Lt Lv E') as (Ew & El & Ep & Ek & _ & Er). cbv zeta in *.
  split; [exact Ew|]. split; [exact El|]. split; [|split; [|split; [|split]]].
  - intros x N1 N2. rewrite Ep. unfold obj in *.
    apply memn_false in N1. rewrite N1.
    assert (N3 : memn x (released (hp s) t (dedup (somes vs))) = false).
    { apply memn_false. rewrite In_released. exact N2. }
    rewrite N3. reflexivity.
  - intros q N. rewrite Ek. apply Nat.eqb_neq in N. rewrite N. reflexivity.
  - intros q N Hc. rewrite Ek. apply Nat.eqb_neq in N. rewrite N.
    apply filter_all. intros c Hin. apply negb_true_iff. apply memn_false. apply Hc. exact Hin.
  - intros x NA NB. apply (set_children_effect_own s t vs s' W Lt Lv E' x); assumption.
  - intro x. pose proof (Er x) as R. apply rest_inv in R.
    destruct R as (A1 & A2 & A3 & A4 & A5 & A6 & A7). repeat split; assumption.
Qed.

(* t.predecessors = vs / t.successors = vs: a task x <> t keeps its list of the same kind; its mirror list unless
   it is an old or a new partner of t; hierarchy, owner and attributes never change *)
Theorem frame_set_links d s t vs s' :
  WF s -> step s (SetLinks d t vs) = (s', OK) ->
  let h := hp s in
  let h' := hp s' in
  let value := dedup (somes vs) in
  wroots s' = wroots s /\ length h' = length h /\
  forall x,
    (x <> t -> fwd d (get h' x) = fwd d (get h x)) /\
    (~ In x value -> ~ In x (fwd d (get h t)) -> bwd d (get h' x) = bwd d (get h x)) /\
    par (get h' x) = par (get h x) /\ kids (get h' x) = kids (get h x) /\ own (get h' x) = own (get h x) /\
    tid (get h' x) = tid (get h x) /\ hidden (get h' x) = hidden (get h x) /\
    prio (get h' x) = prio (get h x) /\ name (get h' x) = name (get h x) /\ est (get h' x) = est (get h x).
Proof.
  intros (F & _ & _ & Sy & _) E. cbv zeta.
  destruct (step_set_links_inv d s t vs s' E) as (Lt & Lv & Nd & _ & ->).
  destruct (set_links_effect d s t (dedup (somes vs)) F Sy Lt Lv Nd) as (Ew & El & _ & Ef & _ & Ec). cbv zeta in *.
  split; [exact Ew|]. split; [exact El|]. intro x.
  split; [apply Ef|]. split.
  - intros N1 N2. apply (set_links_effect_bwd_cases d s t (dedup (somes vs)) x F Sy Lt Lv Nd); assumption.
  - pose proof (core_inv _ _ (Ec x)) as (A1 & A2 & A3 & A4 & A5 & A6 & A7 & A8). repeat split; assumption.
Qed.

(* the list facades and operators on a single task are calls of the three setters: their frames are the above *)
Theorem frame_derived s :
  (forall o t, step' s (ChAppend o (Some t)) = step' s (SetParent t (Some o))) /\
  (forall o t, In t (kids (get (hp s) o)) ->
     step' s (ChRemove o (Some t)) = step' s (SetChildren o (map Some (without t (kids (get (hp s) o)))))) /\
  (forall o t, ~ In t (kids (get (hp s) o)) -> step' s (ChRemove o (Some t)) = (s, OK)) /\
  (forall o vs, step' s (OpFloordiv o vs) = step' s (SetChildren o (map Some (kids (get (hp s) o)) ++ vs))) /\
  (forall d t x, step' s (LnAppend d t (Some x)) = step' s (SetLinks d t (map Some (fwd d (get (hp s) t) ++ [x])))) /\
  (forall d t x, In x (fwd d (get (hp s) t)) ->
     step' s (LnRemove d t (Some x)) = step' s (SetLinks d t (map Some (without x (fwd d (get (hp s) t)))))) /\
  (forall d t x, ~ In x (fwd d (get (hp s) t)) -> step' s (LnRemove d t (Some x)) = (s, OK)) /\
  (forall d t vs, step' s (OpShift d t vs) = step' s (SetLinks d t (map Some (fwd d (get (hp s) t)) ++ vs))).
Proof.
  split; [reflexivity|]. split; [|split; [|split; [reflexivity|split; [reflexivity|split; [|split; [|reflexivity]]]]]];
    intros; cbn [step'].
  - unfold ch_remove. cbv zeta. apply memn_In in H. rewrite H. reflexivity.
  - unfold ch_remove. cbv zeta. apply memn_false in H. rewrite H. reflexivity.
  - unfold ln_remove. cbv zeta. apply memn_In in H. rewrite H. reflexivity.
  - unfold ln_remove. cbv zeta. apply memn_false in H. rewrite H. reflexivity.
Qed.

(* ================= bulk assignment on a task list ================= *)
(* lst.predecessors = vs / lst.successors = vs / lst.children = vs: one setter call per element of the list, with
   the same value; if one of them raises nothing changes (all_or_nothing: C15).  What an ACCEPTED call does: *)
Lemma andthen_ok_inv r k s' : andthen r k = (s', OK) -> snd r = OK /\ k (fst r) = (s', OK).
Proof.
  unfold andthen. destruct r as [s1 [[]| |c]]; cbn [fst snd]; intro H; [auto|discriminate H..].
Qed.

Lemma seq_calls_cons_ok {A} (f : state -> A -> state * outcome) s x r s' :
  seq_calls f s (x :: r) = (s', OK) -> exists s1, f s x = (s1, OK) /\ seq_calls f s1 r = (s', OK).
Proof.
  cbn [seq_calls]. intro H. apply andthen_ok_inv in H. destruct H as [H1 H2].
  exists (fst (f s x)). split; [|exact H2]. destruct (f s x) as [s1 o]. cbn [fst snd] in *. subst o. reflexivity.
Qed.

(* the mirror list of x after the elements ts have been assigned one after the other *)
Definition mirror_step (b : bool) (l : list obj) (t : obj) : list obj := without t l ++ (if b then [t] else []).

Lemma set_links_ok_effect d s t vs s1 :
  WF s -> pub s t -> pubs s vs -> set_links d s t vs = (s1, OK) ->
  let h := hp s in
  let h' := hp s1 in
  let value := dedup (somes vs) in
  WF s1 /\ (forall y, pub s1 y <-> pub s y) /\
  wroots s1 = wroots s /\ length h' = length h /\
  fwd d (get h' t) = value /\
  (forall x, x <> t -> fwd d (get h' x) = fwd d (get h x)) /\
  (forall x, bwd d (get h' x) = mirror_step (memn x value) (bwd d (get h x)) t) /\
  (forall x, core (get h' x) = core (get h x)).
Proof.
  intros W Pt Pv E. cbv zeta.
  pose proof (set_links_WF d s t vs W Pt Pv) as W1. rewrite E in W1. cbn [fst] in W1.
  assert (P1 : forall y, pub s1 y <-> pub s y).
  { intro y. pose proof (set_links_pub d s t vs y) as H. rewrite E in H. exact H. }
  split; [exact W1|]. split; [exact P1|].
  destruct (set_links_cases d s t vs) as [[G E']|[_ [_ N]]]; [|rewrite E in N; exfalso; apply N; reflexivity].
  rewrite E' in E. inversion E; subst s1. clear E.
  pose proof W as (F & _ & _ & Sy & _).
  assert (Lv : forall v, In v (dedup (somes vs)) -> v < length (hp s)).
  { intros v Hv. apply (proj1 (In_dedup _ _)) in Hv. apply (proj1 (In_somes _ _)) in Hv. apply (Pv v Hv). }
  exact (set_links_effect d s t (dedup (somes vs)) F Sy (proj1 Pt) Lv (NoDup_dedup _)).
Qed.

Theorem lst_set_links_seq_effect d vs : forall ts s s',
  WF s -> (forall t, In t ts -> pub s t) -> pubs s vs ->
  lst_set_links_seq d s ts vs = (s', OK) ->
  let h := hp s in
  let h' := hp s' in
  let value := dedup (somes vs) in
  WF s' /\ wroots s' = wroots s /\ length h' = length h /\
  (forall t, In t ts -> fwd d (get h' t) = value) /\
  (forall x, ~ In x ts -> fwd d (get h' x) = fwd d (get h x)) /\
  (forall x, bwd d (get h' x) = fold_left (mirror_step (memn x value)) ts (bwd d (get h x))) /\
  (forall x, core (get h' x) = core (get h x)).
Proof.
  unfold lst_set_links_seq. induction ts as [|t r IH]; intros s s' W Pt Pv E; cbv zeta.
  - cbn [seq_calls] in E. inversion E; subst s'. split; [exact W|]. split; [reflexivity|]. split; [reflexivity|].
    split; [intros t []|]. split; [reflexivity|]. split; reflexivity.
  - apply seq_calls_cons_ok in E. destruct E as (s1 & E1 & E2).
    destruct (set_links_ok_effect d s t vs s1 W (Pt t (or_introl eq_refl)) Pv E1)
      as (W1 & P1 & Ew & El & Et & Ef & Eb & Ec). cbv zeta in *.
    assert (Pt1 : forall t', In t' r -> pub s1 t') by (intros t' H; apply P1; apply Pt; right; exact H).
    assert (Pv1 : pubs s1 vs) by (intros v Hv; apply P1; apply Pv; exact Hv).
    destruct (IH s1 s' W1 Pt1 Pv1 E2) as (W' & Ew' & El' & Et' & Ef' & Eb' & Ec'). cbv zeta in *.
    split; [exact W'|]. split; [congruence|]. split; [congruence|]. split; [|split; [|split]].
    + intros x Hx. destruct (in_dec Nat.eq_dec x r) as [Hr|Hr]; [apply Et'; exact Hr|].
      destruct Hx as [Hx|Hx]; [subst x|contradiction]. rewrite (Ef' t Hr). exact Et.
    + intros x Hx. rewrite Ef' by (intro H; apply Hx; right; exact H).
      apply Ef. intro H. apply Hx. left. symmetry. exact H.
    + intro x. rewrite Eb', Eb. reflexivity.
    + intro x. rewrite Ec'. apply Ec.
Qed.

Lemma others_without r t l : EffectProofs.others r (without t l) = EffectProofs.others (t :: r) l.
Proof.
  unfold EffectProofs.others, without. rewrite EffectProofs.filter_filter2. apply filter_ext. intro y.
  cbn [memn existsb]. rewrite negb_orb, (Nat.eqb_sym y t). reflexivity.
Qed.

Lemma others_notin ts l : (forall x, In x l -> ~ In x ts) -> EffectProofs.others ts l = l.
Proof.
  intro H. unfold EffectProofs.others. apply filter_all. intros x Hx. apply negb_true_iff. apply memn_false. apply H. exact Hx.
Qed.

(* for a duplicate-free task list: the former partners outside the list in their old order, then - when x is in
   the value - the elements of the list in the order of the list *)
Lemma mirror_fold_NoDup b : forall ts l, NoDup ts ->
  fold_left (mirror_step b) ts l = EffectProofs.others ts l ++ (if b then ts else []).
Proof.
  induction ts as [|t r IH]; intros l N.
  - cbn [fold_left]. unfold EffectProofs.others. rewrite filter_all by reflexivity. destruct b; symmetry; apply app_nil_r.
  - inversion N as [|? ? Nt Nr]; subst. cbn [fold_left]. rewrite (IH _ Nr). unfold mirror_step.
    unfold EffectProofs.others at 1. rewrite filter_app. fold (EffectProofs.others r (without t l)).
    rewrite others_without. destruct b.
    + fold (EffectProofs.others r [t]). rewrite (others_notin r [t]) by (intros x [<-|[]]; exact Nt).
      rewrite <- app_assoc. reflexivity.
    + cbn [filter]. rewrite !app_nil_r. reflexivity.
Qed.

Lemma pub_args_lst s ts vs :
  forallb (pubobj s) ts && publist s vs = true -> (forall t, In t ts -> pub s t) /\ pubs s vs.
Proof.
  intro A. apply andb_true_iff in A. destruct A as [A1 A2].
  split; [apply StepProofs.forallb_pubobj; exact A1|apply StepProofs.publist_pubs; exact A2].
Qed.

(* C16 for lst.predecessors = vs (d = true) / lst.successors = vs: after an accepted call EVERY element of the
   list has exactly the given tasks (None dropped, first occurrences, in the given order); no other task's list
   of that kind changes; the mirror lists; hierarchy, owners, attributes unchanged *)
Theorem step_lst_set_links_effect d s ts vs s' :
  WF s -> pub_args s (LstSetLinks d ts vs) = true -> step s (LstSetLinks d ts vs) = (s', OK) ->
  let h := hp s in
  let h' := hp s' in
  let value := dedup (somes vs) in
  WF s' /\ wroots s' = wroots s /\ length h' = length h /\
  (forall t, In t ts -> fwd d (get h' t) = value) /\
  (forall x, ~ In x ts -> fwd d (get h' x) = fwd d (get h x)) /\
  (forall x, bwd d (get h' x) = fold_left (mirror_step (memn x value)) ts (bwd d (get h x))) /\
  (forall x, core (get h' x) = core (get h x)).
Proof.
  intros W A E. apply EffectProofs.step_ok_inv in E. destruct E as [_ E]. cbn [step'] in E.
  unfold lst_set_links in E. apply AtomicProofs.all_or_nothing_ok in E.
  cbn [pub_args] in A. destruct (pub_args_lst s ts vs A) as [Pt Pv].
  exact (lst_set_links_seq_effect d vs ts s s' W Pt Pv E).
Qed.

Theorem step_lst_set_links_NoDup d s ts vs s' :
  WF s -> pub_args s (LstSetLinks d ts vs) = true -> step s (LstSetLinks d ts vs) = (s', OK) -> NoDup ts ->
  forall x, bwd d (get (hp s') x) =
            EffectProofs.others ts (bwd d (get (hp s) x)) ++ (if memn x (dedup (somes vs)) then ts else []).
Proof.
  intros W A E N x. destruct (step_lst_set_links_effect d s ts vs s' W A E) as (_ & _ & _ & _ & _ & Eb & _).
  cbv zeta in Eb. rewrite Eb. apply mirror_fold_NoDup. exact N.
Qed.

(* ---- lst.children = vs ---- *)
Lemma set_children_ok_effect s t vs s1 :
  WF s -> t < length (hp s) -> pubs s vs -> set_children s t vs = (s1, OK) ->
  let h := hp s in
  let h' := hp s1 in
  let value := dedup (somes vs) in
  WF s1 /\ (forall y, pub s1 y <-> pub s y) /\
  wroots s1 = wroots s /\ length h' = length h /\
  (forall x, par (get h' x) = if memn x value then Some t
                              else if memn x (kids (get h t)) then None else par (get h x)) /\
  (forall q, kids (get h' q) = if Nat.eqb q t then value
                               else filter (fun c => negb (memn c value)) (kids (get h q))) /\
  (forall x, rest (get h' x) = rest (get h x)).
Proof.
  intros W Lt Pv E. cbv zeta.
  pose proof (set_children_WF s t vs W Lt Pv) as W1. rewrite E in W1. cbn [fst] in W1.
  assert (P1 : forall y, pub s1 y <-> pub s y).
  { intro y. pose proof (set_children_pub s t vs y) as H. rewrite E in H. exact H. }
  split; [exact W1|]. split; [exact P1|].
  pose proof W as (F & Pc & _).
  assert (Lv : forall v, In (Some v) vs -> v < length (hp s)) by (intros v Hv; apply (Pv v Hv)).
  destruct (set_children_effect s t vs s1 F Pc Lt Lv E) as (Ew & El & Ep & Ek & _ & Er). cbv zeta in *.
  split; [exact Ew|]. split; [exact El|]. split; [|split; [exact Ek|exact Er]].
  intro x. rewrite Ep. unfold obj in *. destruct (memn x (dedup (somes vs))) eqn:Mv; [reflexivity|].
  unfold released. replace (memn x (filter (fun v => negb (memn v (dedup (somes vs)))) (kids (get (hp s) t))))
    with (memn x (kids (get (hp s) t))); [reflexivity|].
  destruct (memn x (kids (get (hp s) t))) eqn:Mk; symmetry.
  - apply memn_In. apply filter_In. split; [apply memn_In; exact Mk|]. unfold obj in *. rewrite Mv. reflexivity.
  - apply memn_false. intro H. apply filter_In in H. destruct H as [H _]. apply memn_In in H. congruence.
Qed.

Lemma filter_notin_self (v : list obj) : filter (fun c => negb (memn c v)) v = [].
Proof.
  assert (G : forall l, (forall x, In x l -> In x v) -> filter (fun c => negb (memn c v)) l = []).
  { induction l as [|a l IH]; intro H; [reflexivity|]. cbn [filter].
    rewrite (proj2 (memn_In a v)) by (apply H; left; reflexivity). cbn [negb]. apply IH. intros x Hx. apply H. right. exact Hx. }
  apply G. auto.
Qed.

Lemma filter_idem {A} (f : A -> bool) l : filter f (filter f l) = filter f l.
Proof. apply filter_all. intros x Hx. apply filter_In in Hx. apply Hx. Qed.

Theorem lst_set_children_seq_effect vs : forall ts s s',
  WF s -> (forall t, In t ts -> t < length (hp s)) -> pubs s vs -> ts <> [] ->
  lst_set_children_seq s ts vs = (s', OK) ->
  let h := hp s in
  let h' := hp s' in
  let value := dedup (somes vs) in
  let tn := last ts 0 in
  WF s' /\ wroots s' = wroots s /\ length h' = length h /\
  (forall q, kids (get h' q) = if Nat.eqb q tn then value
                               else if memn q ts then []
                               else filter (fun c => negb (memn c value)) (kids (get h q))) /\
  (forall x, par (get h' x) = if memn x value then Some tn
                              else if existsb (fun t => memn x (kids (get h t))) ts then None
                              else par (get h x)) /\
  (forall x, rest (get h' x) = rest (get h x)).
Proof.
  unfold lst_set_children_seq. induction ts as [|t r IH]; intros s s' W Lt Pv Ne E; [contradiction Ne; reflexivity|].
  cbv zeta. apply seq_calls_cons_ok in E. destruct E as (s1 & E1 & E2).
  destruct (set_children_ok_effect s t vs s1 W (Lt t (or_introl eq_refl)) Pv E1)
    as (W1 & P1 & Ew & El & Ep & Ek & Er). cbv zeta in *.
  destruct r as [|t2 r'].
  - cbn [seq_calls] in E2. inversion E2; subst s'. cbn [last].
    split; [exact W1|]. split; [exact Ew|]. split; [exact El|]. split; [|split; [|exact Er]].
    + intro q. rewrite Ek. cbn [memn existsb]. destruct (Nat.eqb q t); reflexivity.
    + intro x. rewrite Ep. cbn [existsb]. rewrite orb_false_r. reflexivity.
  - assert (Lt1 : forall t', In t' (t2 :: r') -> t' < length (hp s1)).
    { intros t' H. rewrite El. apply Lt. right. exact H. }
    assert (Pv1 : pubs s1 vs) by (intros v Hv; apply P1; apply Pv; exact Hv).
    assert (Ne1 : t2 :: r' <> []) by discriminate.
    destruct (IH s1 s' W1 Lt1 Pv1 Ne1 E2) as (W' & Ew' & El' & Ek' & Ep' & Er'). cbv zeta in *.
    change (last (t :: t2 :: r') 0) with (last (t2 :: r') 0).
    set (tn := last (t2 :: r') 0) in *. set (value := dedup (somes vs)) in *.
    split; [exact W'|]. split; [congruence|]. split; [congruence|]. split; [|split].
    + intro q. rewrite Ek'. destruct (Nat.eqb q tn); [reflexivity|].
      change (memn q (t :: t2 :: r')) with (Nat.eqb q t || memn q (t2 :: r')).
      destruct (memn q (t2 :: r')); [rewrite orb_true_r; reflexivity|]. rewrite orb_false_r.
      rewrite Ek. destruct (Nat.eqb q t); [apply filter_notin_self|apply filter_idem].
    + intro x. rewrite Ep'. destruct (memn x value) eqn:Mv; [reflexivity|].
      change (existsb (fun t0 => memn x (kids (get (hp s) t0))) (t :: t2 :: r'))
        with (memn x (kids (get (hp s) t)) || existsb (fun t0 => memn x (kids (get (hp s) t0))) (t2 :: r')).
      rewrite Ep. unfold obj in *. rewrite Mv.
      assert (X : forall t', memn x (kids (get (hp s1) t')) =
                             if Nat.eqb t' t then false else memn x (kids (get (hp s) t'))).
      { intro t'. rewrite Ek. destruct (Nat.eqb t' t).
        - apply memn_false. intro H. apply memn_In in H. unfold obj in *. congruence.
        - destruct (memn x (kids (get (hp s) t'))) eqn:Mk.
          + apply memn_In. apply filter_In. split; [apply memn_In; exact Mk|]. unfold obj in *. rewrite Mv. reflexivity.
          + apply memn_false. intro H. apply filter_In in H. destruct H as [H _]. apply memn_In in H. congruence. }
      destruct (memn x (kids (get (hp s) t))) eqn:Mt.
      * cbn [orb]. destruct (existsb _ (t2 :: r')); reflexivity.
      * cbn [orb].
        rewrite (existsb_ext_in (fun t0 => memn x (kids (get (hp s1) t0))) (fun t0 => memn x (kids (get (hp s) t0)))); [reflexivity|].
        intros t' _. rewrite X. destruct (Nat.eqb t' t) eqn:Et; [|reflexivity].
        apply Nat.eqb_eq in Et. subst t'. symmetry. exact Mt.
    + intro x. rewrite Er'. apply Er.
Qed.

(* C16 for lst.children = vs: after an accepted call the LAST element of the list has exactly the given tasks as its
   children (None dropped, first occurrences, given order); every other element of the list has no children; every
   other task keeps its children except the given tasks; the given tasks have the last element as parent, the
   former children of the list's elements that are not given have none, all other parents are unchanged; links and
   attributes are unchanged; the result is well-formed (so the owners are those of the new hierarchy) *)
Theorem step_lst_set_children_effect s ts vs s' :
  WF s -> pub_args s (LstSetChildren ts vs) = true -> step s (LstSetChildren ts vs) = (s', OK) -> ts <> [] ->
  let h := hp s in
  let h' := hp s' in
  let value := dedup (somes vs) in
  let tn := last ts 0 in
  WF s' /\ wroots s' = wroots s /\ length h' = length h /\
  (forall q, kids (get h' q) = if Nat.eqb q tn then value
                               else if memn q ts then []
                               else filter (fun c => negb (memn c value)) (kids (get h q))) /\
  (forall x, par (get h' x) = if memn x value then Some tn
                              else if existsb (fun t => memn x (kids (get h t))) ts then None
                              else par (get h x)) /\
  (forall x, rest (get h' x) = rest (get h x)).
Proof.
  intros W A E Ne. apply EffectProofs.step_ok_inv in E. destruct E as [_ E]. cbn [step'] in E.
  unfold lst_set_children in E. apply AtomicProofs.all_or_nothing_ok in E.
  cbn [pub_args] in A. destruct (pub_args_lst s ts vs A) as [Pt Pv].
  apply (lst_set_children_seq_effect vs ts s s' W); try assumption.
  intros t Ht. apply (Pt t Ht).
Qed.

(* an empty task list: nothing happens *)
Theorem step_lst_set_nil s vs d : oklist s vs = true ->
  step s (LstSetChildren [] vs) = (s, OK) /\ step s (LstSetLinks d [] vs) = (s, OK).
Proof. intro H. unfold step. cbn [args_ok forallb andb]. rewrite H. split; reflexivity. Qed.
