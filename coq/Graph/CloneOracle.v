(* Graph/CloneOracle.v - the boolean oracle of Graph/CloneCheck.v is COMPLETE for the declarative statement
   CloneSpec (soundness: CloneProofs.clone_spec_b_sound), hence clone_spec_b ... = true <-> CloneSpec ... *)
From PJ Require Import Base.Prelude Graph.Model Graph.Invariant Graph.AncLemmas Graph.AncLemmas2
                       Graph.Clone Graph.CloneCheck Graph.CloneProofs.
Local Open Scope nat_scope.

Lemma nlist_eqb_refl a : nlist_eqb a a = true.
Proof. apply (list_eqb_spec Nat.eqb Nat.eqb_eq). reflexivity. Qed.
Lemma zlist_eqb_refl a : zlist_eqb a a = true.
Proof. apply (list_eqb_spec Z.eqb Z.eqb_eq). reflexivity. Qed.
Lemma zopt_eqb_refl a : zopt_eqb a a = true.
Proof. apply (opt_eqb_spec Z.eqb Z.eqb_eq). reflexivity. Qed.
Lemma beqb_refl b : Bool.eqb b b = true.
Proof. destruct b; reflexivity. Qed.

Lemma nlist_eqb_of_eq a b : a = b -> nlist_eqb a b = true.
Proof. intros ->. apply nlist_eqb_refl. Qed.
Lemma zlist_eqb_of_eq a b : a = b -> zlist_eqb a b = true.
Proof. intros ->. apply zlist_eqb_refl. Qed.
Lemma zopt_eqb_of_eq a b : a = b -> zopt_eqb a b = true.
Proof. intros ->. apply zopt_eqb_refl. Qed.
Lemma onat_eqb_of_eq a b : a = b -> onat_eqb a b = true.
Proof. intros ->. apply onat_eqb_refl. Qed.
Lemma zeqb_of_eq a b : a = b -> Z.eqb a b = true.
Proof. intros ->. apply Z.eqb_refl. Qed.
Lemma beqb_of_eq a b : a = b -> Bool.eqb a b = true.
Proof. intros ->. apply beqb_refl. Qed.
Lemma isnil_of_eq l : l = [] -> isnil l = true.
Proof. intros ->. reflexivity. Qed.

Lemma beqb_memn_of_iff y l1 z l2 : (In y l1 <-> In z l2) -> Bool.eqb (memn y l1) (memn z l2) = true.
Proof.
  intro H. destruct (memn y l1) eqn:E1; destruct (memn z l2) eqn:E2; try reflexivity; exfalso.
  - apply memn_In in E1. apply H in E1. apply memn_In in E1. congruence.
  - apply memn_In in E2. apply H in E2. apply memn_In in E2. congruence.
Qed.

Lemma subset_of_incl a b : incl a b -> subset a b = true.
Proof. intro H. unfold subset. apply forallb_forall. intros x Hx. apply memn_In. apply H. exact Hx. Qed.

Lemma firstn_app_exact {A} (a e : list A) : firstn (length a) (a ++ e) = a.
Proof. induction a as [|x a IH]; simpl; [destruct e; reflexivity | rewrite IH; reflexivity]. Qed.
Lemma skipn_app_exact {A} (a e : list A) : skipn (length a) (a ++ e) = e.
Proof. induction a as [|x a IH]; simpl; [reflexivity | exact IH]. Qed.

Lemma ext_b_complete new a b : (exists e, b = a ++ e /\ incl e new) -> ext_b new a b = true.
Proof.
  intros [e [-> He]]. unfold ext_b. rewrite firstn_app_exact, skipn_app_exact, nlist_eqb_refl. simpl.
  apply subset_of_incl. exact He.
Qed.

Lemma ctask_eqb_refl A : ctask_eqb A A = true.
Proof.
  unfold ctask_eqb. rewrite Z.eqb_refl, !onat_eqb_refl, !nlist_eqb_refl, beqb_refl, !zopt_eqb_refl, zlist_eqb_refl.
  reflexivity.
Qed.

Ltac split_b := repeat (apply andb_true_iff; split).

Section Complete.
Variables (s : state) (w : wid) (roots mem : list obj) (s' : state) (w' : wid) (new : list obj).

Lemma sp_wbs_b_complete : sp_wbs s s' w' -> sp_wbs_b s s' w' = true.
Proof.
  unfold sp_wbs, sp_wbs_b. cbv zeta. intros (H1 & H2 & H3 & H4 & H5 & H6 & H7 & H8 & H9). split_b.
  - apply Nat.eqb_eq. exact H1.
  - apply nlist_eqb_of_eq. exact H2.
  - apply Nat.leb_le. exact H3.
  - exact H4.
  - apply onat_eqb_of_eq. exact H5.
  - apply onat_eqb_of_eq. exact H6.
  - apply isnil_of_eq. exact H7.
  - apply isnil_of_eq. exact H8.
  - apply zeqb_of_eq. exact H9.
Qed.

Lemma sp_bij_b_complete : sp_bij s mem s' w' new -> sp_bij_b s mem s' w' new = true.
Proof.
  unfold sp_bij, sp_bij_b. cbv zeta. intros (H1 & H2 & H3 & H4 & H5). split_b.
  - apply Nat.eqb_eq. exact H1.
  - apply nodupb_nat. exact H2.
  - apply forallb_forall. intros x' Hx'. destruct (H3 x' Hx') as (A1 & A2 & A3). split_b.
    + apply Nat.leb_le. exact A1.
    + apply Nat.ltb_lt. exact A2.
    + apply negb_true_iff. apply Nat.eqb_neq. exact A3.
  - apply forallb_forall. intros x Hx. apply forallb_forall. intros y Hy.
    destruct (Nat.eqb (pos_map mem new x) (pos_map mem new y)) eqn:E; [|reflexivity].
    apply Nat.eqb_eq in E. simpl. apply Nat.eqb_eq. apply (H4 x y Hx Hy E).
  - apply nlist_eqb_of_eq. exact H5.
Qed.

Lemma sp_fields_b_complete : sp_fields s mem s' w' new -> sp_fields_b s mem s' w' new = true.
Proof.
  unfold sp_fields, sp_fields_b. cbv zeta. intro H. apply forallb_forall. intros x Hx.
  destruct (H x Hx) as ((A1 & A2 & A3 & A4) & A5 & A6). unfold fields_eqb. split_b.
  - apply zeqb_of_eq. exact A1.
  - apply zopt_eqb_of_eq. exact A2.
  - apply zlist_eqb_of_eq. exact A3.
  - apply zopt_eqb_of_eq. exact A4.
  - apply onat_eqb_of_eq. exact A5.
  - rewrite A6. reflexivity.
Qed.

Lemma sp_tree_b_complete : sp_tree s roots mem s' w' new -> sp_tree_b s roots mem s' w' new = true.
Proof.
  unfold sp_tree, sp_tree_b. cbv zeta. intros [H1 H2]. split_b.
  - apply nlist_eqb_of_eq. exact H1.
  - apply forallb_forall. intros x Hx. destruct (H2 x Hx) as [A1 A2]. split_b.
    + apply nlist_eqb_of_eq. exact A1.
    + apply onat_eqb_of_eq. exact A2.
Qed.

Lemma sp_links_b_complete : sp_links s mem s' new -> sp_links_b s mem s' new = true.
Proof.
  unfold sp_links, sp_links_b. cbv zeta. intro H. apply forallb_forall. intros x Hx.
  destruct (H x Hx) as (A1 & A2 & A3 & A4). split_b.
  - apply nodupb_nat. exact A1.
  - apply nodupb_nat. exact A2.
  - apply forallb_forall. intros y Hy. split_b; apply beqb_memn_of_iff; [apply A3 | apply A4]; exact Hy.
Qed.

Lemma sp_outside_b_complete : sp_outside s w mem s' new -> sp_outside_b s w mem s' new = true.
Proof.
  unfold sp_outside, sp_outside_b. cbv zeta. intro H. apply forallb_forall. intros x Hx.
  destruct (H x Hx) as [A1 A2]. split_b.
  - apply forallb_forall. intros z Hz. destruct (A1 z Hz) as [Hn|[Hlt Hw]].
    + apply memn_In in Hn. rewrite Hn. reflexivity.
    + apply Nat.ltb_lt in Hlt. rewrite Hlt, Hw. simpl. apply orb_true_r.
  - apply forallb_forall. intros z Hz. apply In_objs in Hz.
    destruct (in_wbs (hp s) w z) eqn:Ew; [reflexivity|]. simpl.
    destruct (memn z mem) eqn:Em; [reflexivity|]. simpl. apply memn_false in Em.
    destruct (A2 z Hz Ew Em) as [B1 B2]. split_b; apply beqb_memn_of_iff; assumption.
Qed.

Opaque ext_b.
Lemma sp_source_b_complete : sp_source s w s' new -> sp_source_b s w s' new = true.
Proof.
  unfold sp_source, sp_source_b. cbv zeta. intros [H0 H]. split_b; [apply Nat.leb_le; exact H0|].
  apply forallb_forall. intros y Hy. apply In_objs in Hy.
  destruct (H y Hy) as (A1 & A2 & A3 & A4 & A5 & A6 & A7 & A8 & A9 & A10 & A11). split_b.
  - apply zeqb_of_eq. exact A1.
  - apply onat_eqb_of_eq. exact A2.
  - apply nlist_eqb_of_eq. exact A3.
  - apply onat_eqb_of_eq. exact A4.
  - apply beqb_of_eq. exact A5.
  - apply zopt_eqb_of_eq. exact A6.
  - apply zlist_eqb_of_eq. exact A7.
  - apply zopt_eqb_of_eq. exact A8.
  - apply ext_b_complete. exact A9.
  - apply ext_b_complete. exact A10.
  - destruct (in_wbs (hp s) w y) eqn:Ew; [|reflexivity]. simpl. rewrite (A11 eq_refl). apply ctask_eqb_refl.
Qed.

Transparent ext_b.

Theorem clone_spec_b_complete :
  CloneSpec s w roots mem s' w' new -> clone_spec_b s w roots mem s' w' new = true.
Proof.
  unfold CloneSpec, clone_spec_b. intros (H1 & H2 & H3 & H4 & H5 & H6 & H7).
  rewrite (sp_wbs_b_complete H1), (sp_bij_b_complete H2), (sp_fields_b_complete H3), (sp_tree_b_complete H4),
          (sp_links_b_complete H5), (sp_outside_b_complete H6), (sp_source_b_complete H7). reflexivity.
Qed.

Theorem clone_spec_b_meaning :
  clone_spec_b s w roots mem s' w' new = true <-> CloneSpec s w roots mem s' w' new.
Proof. split; [apply clone_spec_b_sound | apply clone_spec_b_complete]. Qed.
End Complete.
