(* The children setter, part 2: an ACCEPTED call preserves every conjunct of WF.

   Everything is derived from the pointwise description of the final heap (the write_... theorems of ChildrenProofsWrite)
   and from what the guard guarantees - no step-by-step reasoning about the loops is needed here.

   INDEX
     guard_inv                 the accepted guard, clause by clause
     Section Inv (WF s, t in range, value duplicate-free and public, guard accepted)
       Gt Gup Glinks Gown Gids the guard as facts about the old heap h
       A x / B x               x lies below an adopted / a released task (in h);  inA_spec, inB_spec
       Anc_new_old             Anc h' x a -> Anc h x a \/ (A x /\ Sub h a t)     (new ancestors: t and above)
       acy'                    acyclic h'
       Root'_A Root'_B Root'_C the root of x in h': root of t (A x) | the released task above x | unchanged
       new_fin new_pc new_sym new_dag new_sep new_ids new_hid new_own
     set_children_write_WF     WF (set_children_write s t value)                                   *)
From Coq Require Import Arith PeanoNat.
From PJ Require Import Base.Prelude Graph.Model Graph.Invariant Graph.AncLemmas Graph.AncLemmas2
                       Graph.LinksProofs Graph.ChildrenProofsWrite.
Local Open Scope nat_scope.

(* ================= the guard ================= *)
Lemma bind_OK_inv (X : outcome) (k : unit -> outcome) : bind X k = OK -> X = OK /\ k tt = OK.
Proof. destruct X as [[]| |c]; simpl; intro H; [split; [reflexivity | exact H] | discriminate..]. Qed.

Lemma bind_res_OK_inv {A} (X : res A) (k : A -> outcome) : bind X k = OK -> exists a, X = Ok a /\ k a = OK.
Proof. destruct X as [a| |c]; simpl; intro H; [exists a; split; [reflexivity | exact H] | discriminate..]. Qed.

Lemma failif_inv b : failif b Err = OK -> b = false.
Proof. destruct b; [discriminate | reflexivity]. Qed.

Lemma guard_inv s t value :
  set_children_guard s t value = OK ->
  memn t value = false /\
  match own (get (hp s) t) with
  | None => forall v, In v value -> own (get (hp s) v) = None
  | Some w => forall v w', In v value -> own (get (hp s) v) = Some w' -> w' = w
  end /\
  id_clash (hp s) t value = Ok false /\
  exists a, anc (hp s) t = Ok a /\ existsb (fun ch => memn ch a) value = false /\
            existsb (fun ch => links_bad (hp s) ch (t :: a)) value = false.
Proof.
  unfold set_children_guard. cbv zeta. intro G.
  apply bind_OK_inv in G. destruct G as [G1 G]. apply failif_inv in G1.
  apply bind_OK_inv in G. destruct G as [G2 G].
  apply bind_res_OK_inv in G. destruct G as [b [G3 G]].
  apply bind_OK_inv in G. destruct G as [G3' G]. apply failif_inv in G3'. subst b.
  apply bind_res_OK_inv in G. destruct G as [a [G4 G]].
  apply bind_OK_inv in G. destruct G as [G5 G6]. apply failif_inv in G5. apply failif_inv in G6.
  split; [exact G1|]. split; [|split; [exact G3|]].
  - destruct (own (get (hp s) t)) as [w|]; apply failif_inv in G2.
    + intros v w' Hv Ew. pose proof (existsb_false _ _ G2 v Hv) as C. cbv beta in C. rewrite Ew in C.
      apply negb_false_iff, Nat.eqb_eq in C. exact C.
    + intros v Hv. pose proof (existsb_false _ _ G2 v Hv) as C. cbv beta in C.
      destruct (own (get (hp s) v)); [discriminate | reflexivity].
  - exists a. auto.
Qed.

(* ================= frames for the link conjuncts ================= *)
Lemma Dep_cframe h h' x y : cframe h h' -> Dep h x y -> Dep h' x y.
Proof.
  intros C H. induction H as [x p Hp | x p y Hp Hd IH].
  - apply Dep_one. rewrite (cf_preds _ _ x C). exact Hp.
  - eapply Dep_more; [rewrite (cf_preds _ _ x C); exact Hp | exact IH].
Qed.

Lemma cframe_sym h h' : cframe h h' -> cframe h' h.
Proof. intros [A B]. split; [symmetry; exact A | intro x; symmetry; apply B]. Qed.

(* ================= preservation ================= *)
Section Inv.
Variables (s : state) (t : obj) (value : list obj).
Local Notation h := (hp s).
Local Notation n := (length (hp s)).
Hypothesis W : WF s.
Hypothesis Ht : t < n.
Hypothesis Hnd : NoDup value.
Hypothesis Hpub : forall v, In v value -> pub s v.
Hypothesis G : set_children_guard s t value = OK.

Local Notation R := (released h t value).
Local Notation s' := (set_children_write s t value).
Local Notation h' := (hp (set_children_write s t value)).

Lemma Hfin : I_fin s. Proof. apply W. Qed.
Lemma Hpc : I_pc s. Proof. apply W. Qed.
Lemma Acy : acyclic h. Proof. apply W. Qed.
Lemma Hsym : I_sym s. Proof. apply W. Qed.
Lemma Hdag : I_dag s. Proof. apply W. Qed.
Lemma Hsep : I_sep s. Proof. apply W. Qed.
Lemma Hids : I_ids s. Proof. apply W. Qed.
Lemma Hhid : I_hid s. Proof. apply W. Qed.
Lemma Hown : I_own s. Proof. apply W. Qed.

Lemma Hv v : In v value -> v < n.
Proof. intro H. apply (Hpub v H). Qed.

(* ---- the final heap ---- *)
Lemma len' : length h' = n.
Proof. apply (write_len s t value). Qed.
Lemma par' x : par (get h' x) = if memn x value then Some t else if memn x R then None else par (get h x).
Proof. apply (write_par s t value Hfin Hv). Qed.
Lemma kids' q : kids (get h' q) = if Nat.eqb q t then value else filter (fun c => negb (memn c value)) (kids (get h q)).
Proof. apply (write_kids s t value Hfin Hpc Ht Hnd Hv). Qed.
Lemma own' x :
  own (get h' x) =
  match own (get h t) with
  | Some w => if inA h value x then Some w else if inB h t value x then None else own (get h x)
  | None => if inB h t value x then None else own (get h x)
  end.
Proof. apply (write_own s t value). Qed.
Lemma cf' : cframe h h'.
Proof. apply (write_cframe s t value). Qed.

Lemma par'_value x : In x value -> par (get h' x) = Some t.
Proof. intro H. rewrite par'. apply memn_In in H. rewrite H. reflexivity. Qed.
Lemma par'_R x : In x R -> par (get h' x) = None.
Proof.
  intro H. rewrite par'. assert (N : ~ In x value) by (apply In_released in H; tauto).
  apply memn_false in N. apply memn_In in H. rewrite N, H. reflexivity.
Qed.
Lemma par'_other x : ~ In x value -> ~ In x R -> par (get h' x) = par (get h x).
Proof. intros N1 N2. rewrite par'. apply memn_false in N1, N2. rewrite N1, N2. reflexivity. Qed.

(* ---- the guard as facts about h ---- *)
Lemma Gt : ~ In t value.
Proof. apply memn_false. apply (guard_inv s t value G). Qed.

Lemma Gup v : In v value -> ~ Sub h v t.
Proof.
  intros Hin [E|An]; [subst v; exact (Gt Hin)|].
  destruct (guard_inv s t value G) as (_ & _ & _ & a & Ea & G5 & _).
  pose proof (existsb_false _ _ G5 v Hin) as C. cbv beta in C. apply memn_false in C. apply C.
  apply (anc_Ok_In h t a Ea). exact An.
Qed.

Lemma Sub_lt v x : v < n -> Sub h v x -> x < n.
Proof. intros Lv [->|An]; [exact Lv | eapply Anc_lt_l; eauto]. Qed.

Lemma Glinks v x l :
  In v value -> Sub h v x -> In l (preds (get h x) ++ succs (get h x)) -> ~ Sub h l t.
Proof.
  intros Hin Sx Hl St.
  destruct (guard_inv s t value G) as (_ & _ & _ & a & Ea & _ & G6).
  pose proof (existsb_false _ _ G6 v Hin) as C. cbv beta in C.
  apply (proj1 (links_bad_false h v (t :: a) Acy) C x l); [eapply Sub_lt; [apply Hv; exact Hin | exact Sx] | exact Sx | exact Hl |].
  destruct St as [E|An]; [left; exact E | right; apply (anc_Ok_In h t a Ea); exact An].
Qed.

Lemma Gids :
  exists r0, Root h t r0 /\
    (forall x y, Incoming h r0 value x -> Incoming h r0 value y -> tid (get h x) = tid (get h y) -> x = y) /\
    (forall x y, Incoming h r0 value x -> InTree h r0 y -> tid (get h x) <> tid (get h y)).
Proof.
  destruct (guard_inv s t value G) as (_ & _ & G3 & _).
  destruct (id_clash_spec h t value Acy) as (r & b & _ & Rr & Eb & Hb).
  rewrite G3 in Eb. inversion Eb; subst b. exists r. split; [exact Rr|]. apply Hb. reflexivity.
Qed.

(* ---- below an adopted task / below a released task ---- *)
Definition A (x : obj) : Prop := exists v, In v value /\ Sub h v x.
Definition B (x : obj) : Prop := exists c, In c R /\ Sub h c x.

Lemma RLt c : In c R -> c < n.
Proof. apply (R_lt s t value Hfin). Qed.

Lemma inA_spec x : inA h value x = true <-> A x.
Proof.
  unfold inA, A. rewrite existsb_exists. split; intros [v [Hin H]]; exists v; (split; [exact Hin|]).
  - apply memn_In, (In_subtree h v x Acy) in H. tauto.
  - apply memn_In, (In_subtree h v x Acy). split; [eapply Sub_lt; [apply Hv; exact Hin | exact H] | exact H].
Qed.

Lemma inB_spec x : inB h t value x = true <-> B x.
Proof.
  unfold inB, B. rewrite existsb_exists. split; intros [v [Hin H]]; exists v; (split; [exact Hin|]).
  - apply memn_In, (In_subtree h v x Acy) in H. tauto.
  - apply memn_In, (In_subtree h v x Acy). split; [eapply Sub_lt; [apply RLt; exact Hin | exact H] | exact H].
Qed.

Lemma A_dec x : A x \/ ~ A x.
Proof.
  destruct (inA h value x) eqn:E; [left; apply inA_spec; exact E|].
  right. intro H. apply inA_spec in H. congruence.
Qed.
Lemma B_dec x : B x \/ ~ B x.
Proof.
  destruct (inB h t value x) eqn:E; [left; apply inB_spec; exact E|].
  right. intro H. apply inB_spec in H. congruence.
Qed.

Lemma R_par c : In c R -> par (get h c) = Some t.
Proof. intro H. apply In_released in H. apply (proj1 Hpc). tauto. Qed.

Lemma A_child x p : par (get h x) = Some p -> A p -> A x.
Proof. intros Hp [v [Hin Sv]]. exists v. split; [exact Hin | eapply Sub_child; eauto]. Qed.
Lemma B_child x p : par (get h x) = Some p -> B p -> B x.
Proof. intros Hp [v [Hin Sv]]. exists v. split; [exact Hin | eapply Sub_child; eauto]. Qed.

Lemma A_self v : In v value -> A v.
Proof. intro H. exists v. split; [exact H | apply Sub_refl]. Qed.
Lemma B_self c : In c R -> B c.
Proof. intro H. exists c. split; [exact H | apply Sub_refl]. Qed.

Lemma t_notA : ~ A t.
Proof. intros [v [Hin Sv]]. exact (Gup v Hin Sv). Qed.

Lemma t_notB : ~ B t.
Proof.
  intros [c [Hin Sc]]. pose proof (R_par c Hin) as Pc.
  apply (Acy t). destruct Sc as [E|An].
  - subst c. apply Anc_par. exact Pc.
  - eapply Anc_snoc; eauto.
Qed.

(* a released task is not below an adopted one *)
Lemma R_notA c : In c R -> ~ A c.
Proof.
  intros Hc [v [Hin Sv]]. pose proof (R_par c Hc) as Pc.
  destruct Sv as [E|An].
  - subst v. apply In_released in Hc. tauto.
  - apply (Gup v Hin). apply Anc_inv in An. destruct An as [q [Hq An]].
    assert (q = t) by congruence. subst q. destruct An as [E|An]; [left; exact E | right; exact An].
Qed.

(* going up preserves "not below" *)
Lemma notA_up x a : ~ A x -> Sub h a x -> ~ A a.
Proof. intros N Sa [v [Hin Sv]]. apply N. exists v. split; [exact Hin | eapply Sub_trans; eauto]. Qed.
Lemma notB_up x a : ~ B x -> Sub h a x -> ~ B a.
Proof. intros N Sa [v [Hin Sv]]. apply N. exists v. split; [exact Hin | eapply Sub_trans; eauto]. Qed.

Lemma uncut_par x : ~ A x -> ~ B x -> par (get h' x) = par (get h x).
Proof.
  intros NA NB. apply par'_other; intro H; [apply NA, A_self, H | apply NB, B_self, H].
Qed.

(* ---- ancestors in the new heap ---- *)
Theorem Anc_new_old x a : Anc h' x a -> Anc h x a \/ (A x /\ Sub h a t).
Proof.
  intro H. induction H as [x p Hp | x p a Hp Ha IH].
  - destruct (in_dec Nat.eq_dec x value) as [Iv|Nv].
    + rewrite (par'_value x Iv) in Hp. inversion Hp; subst p.
      right. split; [apply A_self; exact Iv | apply Sub_refl].
    + destruct (in_dec Nat.eq_dec x R) as [Ir|Nr].
      * rewrite (par'_R x Ir) in Hp. discriminate.
      * rewrite (par'_other x Nv Nr) in Hp. left. apply Anc_par. exact Hp.
  - destruct (in_dec Nat.eq_dec x value) as [Iv|Nv].
    + rewrite (par'_value x Iv) in Hp. inversion Hp; subst p.
      destruct IH as [IH|[IH _]]; [|exfalso; exact (t_notA IH)].
      right. split; [apply A_self; exact Iv | right; exact IH].
    + destruct (in_dec Nat.eq_dec x R) as [Ir|Nr].
      * rewrite (par'_R x Ir) in Hp. discriminate.
      * rewrite (par'_other x Nv Nr) in Hp. destruct IH as [IH|[IH St]].
        -- left. eapply Anc_up; eauto.
        -- right. split; [eapply A_child; eauto | exact St].
Qed.

Theorem acy' : acyclic h'.
Proof.
  intros x Hx. apply Anc_new_old in Hx. destruct Hx as [Hx|[[v [Hin Sv]] St]].
  - exact (Acy x Hx).
  - apply (Gup v Hin). eapply Sub_trans; eauto.
Qed.

Lemma keep_uncut x a : Anc h x a -> ~ A x -> ~ B x -> Anc h' x a.
Proof.
  intro H. induction H as [x p Hp | x p a Hp Ha IH]; intros NA NB.
  - apply Anc_par. rewrite uncut_par; assumption.
  - eapply Anc_up; [rewrite uncut_par; eassumption|].
    apply IH; [eapply notA_up; [exact NA|] | eapply notB_up; [exact NB|]]; right; apply Anc_par; exact Hp.
Qed.

Lemma RC x r : ~ A x -> ~ B x -> Root h x r -> Root h' x r.
Proof.
  intros NA NB [Sr Pr]. split.
  - destruct Sr as [E|An]; [left; exact E | right; apply keep_uncut; assumption].
  - assert (Sx : Sub h r x) by exact Sr.
    rewrite uncut_par; [exact Pr | eapply notA_up; eauto | eapply notB_up; eauto].
Qed.

Lemma Anc_to_t x v : Anc h x v -> In v value -> Anc h' x t.
Proof.
  intro H. induction H as [x p Hp | x p a Hp Ha IH]; intro Hin.
  - destruct (in_dec Nat.eq_dec x value) as [Iv|Nv]; [apply Anc_par, par'_value, Iv|].
    destruct (in_dec Nat.eq_dec x R) as [Ir|Nr].
    + exfalso. apply (R_notA x Ir). exists p. split; [exact Hin | right; apply Anc_par; exact Hp].
    + eapply Anc_up; [rewrite (par'_other x Nv Nr); exact Hp | apply Anc_par, par'_value, Hin].
  - destruct (in_dec Nat.eq_dec x value) as [Iv|Nv]; [apply Anc_par, par'_value, Iv|].
    destruct (in_dec Nat.eq_dec x R) as [Ir|Nr].
    + exfalso. apply (R_notA x Ir). exists a. split; [exact Hin | right; eapply Anc_up; eauto].
    + eapply Anc_up; [rewrite (par'_other x Nv Nr); exact Hp | apply IH; exact Hin].
Qed.

Lemma A_Anc_t x : A x -> Anc h' x t.
Proof.
  intros [v [Hin [E|An]]]; [subst x; apply Anc_par, par'_value, Hin | eapply Anc_to_t; eauto].
Qed.

Lemma RA x r : A x -> Root h t r -> Root h' x r.
Proof.
  intros Ax Rt. apply (Root_Anc h' x t r (A_Anc_t x Ax)). apply RC; [exact t_notA | exact t_notB | exact Rt].
Qed.

Lemma Anc_to_R x c : Anc h x c -> In c R -> ~ A x -> Anc h' x c.
Proof.
  intro H. induction H as [x p Hp | x p a Hp Ha IH]; intros Hin NA.
  - assert (Nv : ~ In x value) by (intro Iv; apply NA, A_self, Iv).
    assert (Nr : ~ In x R).
    { intro Ir. pose proof (R_par x Ir) as Px. assert (p = t) by congruence. subst p.
      apply t_notB. apply B_self. exact Hin. }
    apply Anc_par. rewrite (par'_other x Nv Nr). exact Hp.
  - assert (Nv : ~ In x value) by (intro Iv; apply NA, A_self, Iv).
    assert (Nr : ~ In x R).
    { intro Ir. pose proof (R_par x Ir) as Px. assert (p = t) by congruence. subst p.
      apply t_notB. exists a. split; [exact Hin | right; exact Ha]. }
    eapply Anc_up; [rewrite (par'_other x Nv Nr); exact Hp|].
    apply IH; [exact Hin|]. eapply notA_up; [exact NA | right; apply Anc_par; exact Hp].
Qed.

Lemma RB x c : ~ A x -> In c R -> Sub h c x -> Root h' x c.
Proof.
  intros NA Hin Sc. split; [|apply par'_R; exact Hin].
  destruct Sc as [E|An]; [left; exact E | right; apply Anc_to_R; assumption].
Qed.

Theorem Root'_A x r : A x -> (Root h' x r <-> Root h t r).
Proof.
  intro Ax. split; [|apply RA; exact Ax].
  intro Rx. destruct (Root_exists h t Acy) as [r0 R0].
  rewrite (Root_unique h' x r r0 Rx (RA x r0 Ax R0)). exact R0.
Qed.

Theorem Root'_B x r : ~ A x -> B x -> Root h' x r -> In r R /\ Sub h r x.
Proof.
  intros NA [c [Hin Sc]] Rx.
  rewrite (Root_unique h' x r c Rx (RB x c NA Hin Sc)). split; assumption.
Qed.

Theorem Root'_C x r : ~ A x -> ~ B x -> (Root h' x r <-> Root h x r).
Proof.
  intros NA NB. split; [|apply RC; assumption].
  intro Rx. destruct (Root_exists h x Acy) as [r0 R0].
  rewrite (Root_unique h' x r r0 Rx (RC x r0 NA NB R0)). exact R0.
Qed.

Lemma Root'_inv x r :
  Root h' x r -> (A x /\ Root h t r) \/ (In r R /\ Sub h r x) \/ Root h x r.
Proof.
  intro Rx. destruct (A_dec x) as [Ax|NA]; [left; split; [exact Ax | apply (Root'_A x r Ax); exact Rx]|].
  destruct (B_dec x) as [Bx|NB]; [right; left; apply Root'_B; assumption|].
  right; right. apply (Root'_C x r NA NB). exact Rx.
Qed.

(* ================= the conjuncts ================= *)
Theorem new_fin : I_fin s'.
Proof.
  pose proof Hfin as [F Fw]. split; [|intros r Hr; cbn [wroots]; rewrite len'; apply Fw; exact Hr].
  intro x. cbv zeta. rewrite len'. destruct (F x) as (F1 & F2 & F3). cbv zeta in F1, F2, F3.
  split; [|split].
  - intros p. rewrite par'. destruct (memn x value); [intro E; inversion E; subst; exact Ht|].
    destruct (memn x R); [discriminate | apply F1].
  - intros y Hy. rewrite (cf_preds _ _ x cf'), (cf_succs _ _ x cf'), kids' in Hy.
    apply in_app_or in Hy. destruct Hy as [Hy|Hy]; [|apply F2; apply in_or_app; right; exact Hy].
    destruct (Nat.eqb x t); [apply Hv; exact Hy|].
    apply filter_In in Hy. apply F2. apply in_or_app. left. apply Hy.
  - intros w. cbn [wroots]. rewrite own'.
    destruct (F t) as (_ & _ & Ft). cbv zeta in Ft.
    destruct (own (get h t)) as [w0|].
    + destruct (inA h value x); [intro E; inversion E; subst; apply Ft; reflexivity|].
      destruct (inB h t value x); [discriminate | apply F3].
    + destruct (inB h t value x); [discriminate | apply F3].
Qed.

Theorem new_pc : I_pc s'.
Proof.
  pose proof Hpc as [P1 P2]. split.
  - intros c p. rewrite par', kids'. destruct (memn c value) eqn:Mv.
    + apply memn_In in Mv. destruct (Nat.eqb p t) eqn:E.
      * apply Nat.eqb_eq in E. subst p. tauto.
      * apply Nat.eqb_neq in E. split; [intro H; inversion H; congruence|].
        intro H. apply filter_In in H. destruct H as [_ H]. apply negb_true_iff, memn_false in H. tauto.
    + apply memn_false in Mv. destruct (memn c R) eqn:Mr.
      * apply memn_In in Mr. pose proof (R_par c Mr) as Pc. split; [discriminate|].
        destruct (Nat.eqb p t) eqn:E; [tauto|]. apply Nat.eqb_neq in E.
        intro H. apply filter_In in H. destruct H as [H _]. apply P1 in H. congruence.
      * apply memn_false in Mr. destruct (Nat.eqb p t) eqn:E.
        -- apply Nat.eqb_eq in E. subst p. split; [|tauto].
           intro H. apply P1 in H. exfalso. apply Mr. apply In_released. tauto.
        -- rewrite filter_In, negb_true_iff, memn_false, (P1 c p). tauto.
  - intro p. rewrite kids'. destruct (Nat.eqb p t); [exact Hnd | apply NoDup_filter, P2].
Qed.

Theorem new_sym : I_sym s'.
Proof.
  pose proof Hsym as [S1 S2]. split.
  - intros a b. rewrite (cf_preds _ _ a cf'), (cf_succs _ _ b cf'). apply S1.
  - intro a. rewrite (cf_preds _ _ a cf'), (cf_succs _ _ a cf'). apply S2.
Qed.

Theorem new_dag : I_dag s'.
Proof. intros x Hx. apply (Hdag x). apply (Dep_cframe h' h x x (cframe_sym _ _ cf')). exact Hx. Qed.

Theorem new_sep : I_sep s'.
Proof.
  intros a b Hb. rewrite (cf_preds _ _ a cf') in Hb. destruct (Hsep a b Hb) as [N1 N2].
  split; intro An; apply Anc_new_old in An; destruct An as [An|[[v [Hin Sv]] St]]; try contradiction.
  - apply (Glinks v a b Hin Sv); [apply in_or_app; left; exact Hb | exact St].
  - apply (Glinks v b a Hin Sv); [apply in_or_app; right; apply (proj1 Hsym); exact Hb | exact St].
Qed.

(* two objects of the new tree of t (old members, or below an adopted task) have different ids *)
Lemma ids_tree r a b :
  Root h t r -> a < n -> b < n -> Root h a r \/ A a -> Root h b r \/ A b ->
  tid (get h a) = tid (get h b) -> a = b.
Proof.
  intros Rt La Lb Ha Hb E.
  destruct Gids as (r0 & R0 & I1 & I2). assert (r0 = r) by (eapply Root_unique; eauto). subst r0.
  assert (Cl : forall x, x < n -> Root h x r \/ A x -> InTree h r x \/ Incoming h r value x).
  { intros x Lx Hx. destruct (Root_exists h x Acy) as [rx Rx].
    destruct (Nat.eq_dec rx r) as [->|Nr]; [left; split; assumption|].
    assert (NR : ~ Root h x r) by (intro Rx'; apply Nr; eapply Root_unique; eauto).
    destruct Hx as [Hx|Hx]; [contradiction|]. right. split; [exact Lx|]. split; [exact Hx | exact NR]. }
  destruct (Cl a La Ha) as [Ta|Ia], (Cl b Lb Hb) as [Tb|Ib].
  - destruct Ta as [_ Ta], Tb as [_ Tb]. apply (Hids a b r La Lb Ta Tb E).
  - exfalso. apply (I2 b a Ib Ta). symmetry. exact E.
  - exfalso. exact (I2 a b Ia Tb E).
  - apply I1; assumption.
Qed.

Theorem new_ids : I_ids s'.
Proof.
  intros a b r. rewrite len', (cf_tid _ _ a cf'), (cf_tid _ _ b cf'). intros La Lb Ra Rb E.
  assert (NR : In r R -> par (get h r) = None -> False).
  { intros Hr Pr. rewrite (R_par r Hr) in Pr. discriminate. }
  apply Root'_inv in Ra. apply Root'_inv in Rb.
  destruct Ra as [[Aa Rt]|[[Hr Sa]|Ra]], Rb as [[Ab Rt']|[[Hr' Sb]|Rb]].
  - apply (ids_tree r a b Rt La Lb); auto.
  - exfalso. apply (NR Hr'). apply Rt.
  - apply (ids_tree r a b Rt La Lb); auto.
  - exfalso. apply (NR Hr). apply Rt'.
  - destruct (Root_exists h r Acy) as [r1 R1].
    apply (Hids a b r1 La Lb); [apply (Root_Sub h r a r1 Sa); exact R1 | apply (Root_Sub h r b r1 Sb); exact R1 | exact E].
  - exfalso. apply (NR Hr). apply Rb.
  - apply (ids_tree r a b Rt' La Lb); auto.
  - exfalso. apply (NR Hr'). apply Ra.
  - apply (Hids a b r La Lb Ra Rb E).
Qed.

(* a WBS root is neither adopted nor released, nor below such a task *)
Lemma wroot_par w : w < length (wroots s) -> par (get h (nth w (wroots s) 0)) = None.
Proof. intro Lw. destruct Hhid as (_ & _ & C). apply (C w Lw). Qed.

Lemma wroot_hidden w : w < length (wroots s) -> hidden (get h (nth w (wroots s) 0)) = true.
Proof.
  intro Lw. destruct Hhid as (_ & Bh & _).
  assert (Hin : In (nth w (wroots s) 0) (wroots s)) by (apply nth_In; exact Lw).
  apply Bh; [apply (proj2 Hfin); exact Hin | exact Hin].
Qed.

Lemma wroot_notA w : w < length (wroots s) -> ~ A (nth w (wroots s) 0).
Proof.
  intros Lw [v [Hin [E|An]]].
  - destruct (Hpub v Hin) as [_ Hh]. rewrite <- E, (wroot_hidden w Lw) in Hh. discriminate.
  - apply Anc_has_par in An. destruct An as [p Hp]. rewrite (wroot_par w Lw) in Hp. discriminate.
Qed.

Lemma wroot_notR w : w < length (wroots s) -> ~ In (nth w (wroots s) 0) R.
Proof. intros Lw Hin. pose proof (R_par _ Hin) as P. rewrite (wroot_par w Lw) in P. discriminate. Qed.

Lemma wroot_notB w : w < length (wroots s) -> ~ B (nth w (wroots s) 0).
Proof.
  intros Lw [c [Hin [E|An]]].
  - apply (wroot_notR w Lw). rewrite E. exact Hin.
  - apply Anc_has_par in An. destruct An as [p Hp]. rewrite (wroot_par w Lw) in Hp. discriminate.
Qed.

Lemma own'_uncut x : ~ A x -> ~ B x -> own (get h' x) = own (get h x).
Proof.
  intros NA NB. rewrite own'.
  assert (EA : inA h value x = false).
  { destruct (inA h value x) eqn:E; [|reflexivity]. exfalso. apply NA, inA_spec, E. }
  assert (EB : inB h t value x = false).
  { destruct (inB h t value x) eqn:E; [|reflexivity]. exfalso. apply NB, inB_spec, E. }
  rewrite EA, EB. destruct (own (get h t)); reflexivity.
Qed.

Theorem new_hid : I_hid s'.
Proof.
  pose proof Hhid as (H1 & H2 & H3). split; [exact H1|]. split.
  - intro x. rewrite len', (cf_hidden _ _ x cf'). apply H2.
  - change (wroots (set_children_write s t value)) with (wroots s).
    intros w Lw. cbv zeta. destruct (H3 w Lw) as (C1 & C2 & C3 & C4).
    rewrite (cf_preds _ _ _ cf'), (cf_succs _ _ _ cf').
    rewrite (own'_uncut _ (wroot_notA w Lw) (wroot_notB w Lw)).
    rewrite (uncut_par _ (wroot_notA w Lw) (wroot_notB w Lw)). auto.
Qed.

(* the members of a subtree have the owner of its top *)
Lemma own_Sub v x : v < n -> Sub h v x -> own (get h x) = own (get h v).
Proof.
  intros Lv Sx. assert (Lx : x < n) by (eapply Sub_lt; eauto).
  assert (E : forall w, own (get h x) = Some w <-> own (get h v) = Some w).
  { intro w. rewrite (Hown x w Lx), (Hown v w Lv), (Root_Sub h v x _ Sx). tauto. }
  destruct (own (get h x)) as [w|]; destruct (own (get h v)) as [w'|]; try reflexivity.
  - symmetry. apply (E w). reflexivity.
  - pose proof (proj1 (E w) eq_refl) as X. discriminate X.
  - pose proof (proj2 (E w') eq_refl) as X. discriminate X.
Qed.

Lemma own'_A x : A x -> own (get h' x) = own (get h t).
Proof.
  intro Ax. rewrite own'. pose proof (proj2 (inA_spec x) Ax) as EA. rewrite EA.
  destruct (guard_inv s t value G) as (_ & G2 & _).
  destruct (own (get h t)) as [w|]; [reflexivity|].
  destruct (inB h t value x); [reflexivity|].
  destruct Ax as [v [Hin Sv]]. rewrite (own_Sub v x (Hv v Hin) Sv). apply G2. exact Hin.
Qed.

Lemma own'_B x : ~ A x -> B x -> own (get h' x) = None.
Proof.
  intros NA Bx. rewrite own'. apply inB_spec in Bx. rewrite Bx.
  destruct (own (get h t)); [|reflexivity].
  destruct (inA h value x) eqn:E; [exfalso; apply NA, inA_spec, E | reflexivity].
Qed.

Theorem new_own : I_own s'.
Proof.
  intros x w. rewrite len'. change (wroots (set_children_write s t value)) with (wroots s). intro Lx.
  destruct (A_dec x) as [Ax|NA]; [|destruct (B_dec x) as [Bx|NB]].
  - rewrite (own'_A x Ax), (Root'_A x _ Ax). apply Hown. exact Ht.
  - rewrite (own'_B x NA Bx). split; [discriminate|]. intros [Lw Rx]. exfalso.
    apply (Root'_B x _ NA Bx) in Rx. destruct Rx as [Hr _]. exact (wroot_notR w Lw Hr).
  - rewrite (own'_uncut x NA NB), (Root'_C x _ NA NB). apply Hown. exact Lx.
Qed.

Theorem set_children_write_WF : WF s'.
Proof.
  split; [exact new_fin|]. split; [exact new_pc|]. split; [exact acy'|]. split; [exact new_sym|].
  split; [exact new_dag|]. split; [exact new_sep|]. split; [exact new_ids|]. split; [exact new_hid|].
  exact new_own.
Qed.
End Inv.
