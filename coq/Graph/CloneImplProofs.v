(* Graph/CloneImplProofs.v - the code-mirroring clone (Graph/CloneImpl.v), part 1: NO SETTER CALL OF THE REBUILD
   REJECTS on a well-formed state.

   INDEX
     1. completeness of the three guards (the converse of LinksProofs.guard_ok / ParentProofs.guard_some /
        ChildrenProofsInv.guard_inv): set_links_guard_complete, set_parent_guard_complete,
        set_children_guard_complete, id_clash_false
     2. the projection invariant J of the intermediate states: every parent edge between copies and every
        dependency edge of the intermediate heap projects (pi: copy -> original, old object -> itself) to an edge
        of the SOURCE heap; copies carry the ids of their originals and have no owner.  Consequences:
        anc_copy_inv, anc_old_inv, sub_copy_inv, reach_proj, ids of copies never clash (no_clash).
     3. each setter call of the loop is accepted and keeps WF and J: step_parent, step_children, step_links
     4. rebuild_one_ok, loop_ok, clone_impl_accepts *)
From Coq Require Import Arith PeanoNat Permutation.
From PJ Require Import Base.Prelude Graph.Model Graph.Invariant Graph.AncLemmas Graph.AncLemmas2 Graph.DepLemmas
  Graph.LinksProofs Graph.ParentProofs Graph.ChildrenProofsWrite Graph.ChildrenProofsInv Graph.ChildrenProofs
  Graph.ParentOps Graph.Clone Graph.CloneProofs Graph.CloneWF Graph.CloneImpl.
From PJ Require Graph.EffectProofs.
Local Open Scope nat_scope.

(* ================================================================== *)
(** * 1. completeness of the guards *)

Lemma onat_eqb_Some_false (a b : obj) : a <> b -> onat_eqb (Some a) (Some b) = false.
Proof.
  intro N. destruct (onat_eqb (Some a) (Some b)) eqn:E; [|reflexivity].
  apply onat_eqb_eq in E. congruence.
Qed.

Lemma cyc_guard_complete dir S t value :
  I_fin S -> I_sym S -> I_dag S ->
  (forall v, In v value -> ~ Reach (fnext dir (hp S)) v t) ->
  cyc_guard dir (hp S) t value = OK.
Proof.
  intros F Sy D. induction value as [|v r IH]; intro H; [reflexivity|].
  cbn [cyc_guard]. destruct (all_fwd_total dir S v F Sy D) as [l El]. rewrite El. cbn [bind].
  assert (M : memn t l = false).
  { apply dl_memn_false. intro Hin. apply (H v (or_introl eq_refl)).
    apply (all_fwd_spec _ _ _ _ El). exact Hin. }
  rewrite M. cbn [failif bind]. apply IH. intros v' Hv'. apply H. right. exact Hv'.
Qed.

Lemma set_links_guard_complete dir S t value :
  I_fin S -> I_acy S -> I_sym S -> I_dag S ->
  (forall v, In v value ->
     v <> t /\ ~ Anc (hp S) t v /\ ~ Anc (hp S) v t /\ ~ Reach (fnext dir (hp S)) v t) ->
  set_links_guard dir S t value = OK.
Proof.
  intros F A Sy D H. unfold set_links_guard.
  destruct (anc_total S t F A) as [a Ea]. rewrite Ea. cbn [bind].
  match goal with |- context [existsb ?g value] => assert (Ex : existsb g value = false) end.
  { match goal with |- ?X = false => destruct X eqn:E end; [|reflexivity]. exfalso.
    apply existsb_exists in E as [v [Hv Hb]]. destruct (H v Hv) as (N1 & N2 & N3 & _).
    apply orb_true_iff in Hb as [Hb|Hb]; [apply orb_true_iff in Hb as [Hb|Hb]|].
    - apply Nat.eqb_eq in Hb. contradiction.
    - apply dl_memn_In in Hb. apply N2. apply (anc_spec _ _ _ Ea). exact Hb.
    - apply andb_true_iff in Hb as [_ Hb]. apply (insub_spec S t v F A) in Hb as [Hb|Hb]; contradiction. }
  rewrite Ex. cbn [failif bind]. apply cyc_guard_complete; try assumption.
  intros v Hv. apply (H v Hv).
Qed.

Lemma id_clash_false h p chs : acyclic h ->
  (forall r, Root h p r ->
     (forall x y, Incoming h r chs x -> Incoming h r chs y -> tid (get h x) = tid (get h y) -> x = y) /\
     (forall x y, Incoming h r chs x -> InTree h r y -> tid (get h x) <> tid (get h y))) ->
  id_clash h p chs = Ok false.
Proof.
  intros A H. destruct (id_clash_spec h p chs A) as (r & b & _ & Rr & Eb & Hb).
  rewrite Eb. f_equal. apply Hb. exact (H r Rr).
Qed.

Lemma set_parent_guard_none S t : own (get (hp S) t) = None -> set_parent_guard S t None = OK.
Proof. intro Ho. unfold set_parent_guard. rewrite Ho. reflexivity. Qed.

Lemma set_parent_guard_complete S t p' :
  acyclic (hp S) -> own (get (hp S) t) = None -> p' <> t ->
  id_clash (hp S) p' [t] = Ok false ->
  ~ Anc (hp S) p' t ->
  (forall x l, x < length (hp S) -> Sub (hp S) t x ->
      In l (preds (get (hp S) x) ++ succs (get (hp S) x)) -> l <> p' /\ ~ Anc (hp S) p' l) ->
  set_parent_guard S t (Some p') = OK.
Proof.
  intros A Ho N Hc NA HL. unfold set_parent_guard. cbv zeta.
  rewrite (onat_eqb_Some_false p' t N). cbn [failif bind]. rewrite Ho.
  assert (E1 : (if onat_eqb (pubpar (hp S) t) (Some p') then OK
                else do b <- id_clash (hp S) p' [t]; failif b Err) = OK).
  { destruct (onat_eqb (pubpar (hp S) t) (Some p')); [reflexivity|]. rewrite Hc. reflexivity. }
  rewrite E1. cbn [bind].
  destruct (anc_ok (hp S) p' A) as [a [Ea Ca]]. rewrite Ea. cbn [bind].
  assert (M : memn t a = false).
  { apply memn_false. intro Hin. apply NA. apply (anc_Ok_In _ _ _ Ea). exact Hin. }
  rewrite M. cbn [failif bind].
  assert (L : links_bad (hp S) t (p' :: a) = false).
  { apply (links_bad_false _ _ _ A). intros x l Lx Sx Hl [E|Hin].
    - destruct (HL x l Lx Sx Hl) as [N1 _]. congruence.
    - destruct (HL x l Lx Sx Hl) as [_ N2]. apply N2. apply (anc_Ok_In _ _ _ Ea). exact Hin. }
  rewrite L. reflexivity.
Qed.

Lemma existsb_false_intro {A} (g : A -> bool) l : (forall x, In x l -> g x = false) -> existsb g l = false.
Proof.
  intro H. destruct (existsb g l) eqn:E; [|reflexivity].
  apply existsb_exists in E as [x [Hx Hg]]. rewrite (H x Hx) in Hg. discriminate.
Qed.

Lemma set_children_guard_complete S t value :
  acyclic (hp S) -> ~ In t value ->
  (forall v, In v value -> own (get (hp S) v) = None) ->
  id_clash (hp S) t value = Ok false ->
  (forall ch, In ch value -> ~ Anc (hp S) t ch) ->
  (forall ch x l, In ch value -> x < length (hp S) -> Sub (hp S) ch x ->
      In l (preds (get (hp S) x) ++ succs (get (hp S) x)) -> l <> t /\ ~ Anc (hp S) t l) ->
  set_children_guard S t value = OK.
Proof.
  intros A Nt Ho Hc NA HL. unfold set_children_guard. cbv zeta.
  apply memn_false in Nt. rewrite Nt. cbn [failif bind].
  assert (E1 : forall X : outcome, X = OK -> forall k : unit -> outcome, (do u <- X; k u) = k tt).
  { intros X -> k. reflexivity. }
  rewrite E1.
  2:{ destruct (own (get (hp S) t)).
      - rewrite existsb_false_intro; [reflexivity|]. intros v Hv. rewrite (Ho v Hv). reflexivity.
      - rewrite existsb_false_intro; [reflexivity|]. intros v Hv. rewrite (Ho v Hv). reflexivity. }
  rewrite Hc. cbn [failif bind].
  destruct (anc_ok (hp S) t A) as [a [Ea Ca]]. rewrite Ea. cbn [bind].
  rewrite existsb_false_intro.
  2:{ intros ch Hch. apply memn_false. intro Hin. apply (NA ch Hch). apply (anc_Ok_In _ _ _ Ea). exact Hin. }
  cbn [failif bind].
  rewrite existsb_false_intro; [reflexivity|].
  intros ch Hch. apply (links_bad_false _ _ _ A). intros x l Lx Sx Hl [E|Hin].
  - destruct (HL ch x l Hch Lx Sx Hl) as [N1 _]. congruence.
  - destruct (HL ch x l Hch Lx Sx Hl) as [_ N2]. apply N2. apply (anc_Ok_In _ _ _ Ea). exact Hin.
Qed.

(* ================================================================== *)
(** * small list facts *)

Lemma filter_id {A} (g : A -> bool) l : (forall x, In x l -> g x = true) -> filter g l = l.
Proof.
  induction l as [|a l IH]; intro H; [reflexivity|]. simpl. rewrite (H a (or_introl eq_refl)).
  f_equal. apply IH. intros x Hx. apply H. right. exact Hx.
Qed.

Lemma without_id x l : ~ In x l -> without x l = l.
Proof. apply AncLemmas.without_notin. Qed.

Lemma flat_map_ext_in {A B} (g g' : A -> list B) l : (forall x, In x l -> g x = g' x) -> flat_map g l = flat_map g' l.
Proof.
  induction l as [|a l IH]; intro H; [reflexivity|]. simpl. rewrite (H a (or_introl eq_refl)).
  f_equal. apply IH. intros x Hx. apply H. right. exact Hx.
Qed.

Lemma nth_idx_map {B} (g : nat -> B) x l d : In x l -> nth (idx x l) (map g l) d = g x.
Proof.
  induction l as [|y r IH]; simpl; intro H; [destruct H|].
  destruct (Nat.eqb x y) eqn:E; [apply Nat.eqb_eq in E; subst; reflexivity|].
  destruct H as [->|H]; [rewrite Nat.eqb_refl in E; discriminate|]. apply IH; exact H.
Qed.

Lemma andthen_ok r k : snd r = OK -> andthen r k = k (fst r).
Proof. destruct r as [s0 o]. cbn [snd fst]. intros ->. reflexivity. Qed.

Lemma bwd_fwd d T : bwd d T = fwd (negb d) T.
Proof. destruct d; reflexivity. Qed.

Lemma links_fwd T l : In l (preds T ++ succs T) -> exists d, In l (fwd d T).
Proof. intro H. apply in_app_or in H as [H|H]; [exists true|exists false]; exact H. Qed.

Lemma alloc_copies_hp S0 h l : hp (alloc_copies S0 h l) = hp S0 ++ map (blank_of h) l.
Proof.
  unfold alloc_copies. revert S0. induction l as [|x l IH]; intro S0; simpl; [symmetry; apply app_nil_r|].
  rewrite IH. unfold alloc. cbn [hp]. rewrite <- app_assoc. reflexivity.
Qed.

Lemma alloc_copies_wroots S0 h l : wroots (alloc_copies S0 h l) = wroots S0.
Proof. unfold alloc_copies. revert S0. induction l as [|x l IH]; intro S0; simpl; [reflexivity|]. rewrite IH. reflexivity. Qed.

Lemma alloc_copies_WF S0 h l : WF S0 -> WF (alloc_copies S0 h l).
Proof.
  unfold alloc_copies. revert S0. induction l as [|x l IH]; intros S0 W; simpl; [exact W|].
  apply IH. unfold blank_of. apply alloc_task_WF. exact W.
Qed.

(* ================================================================== *)
(** * 2. the projection invariant *)

Section Impl.
Variables (s : state) (w : wid) (sel : list nat).
Hypothesis HWF : WF s.
Hypothesis Hsel : sel_ok s w sel.
Let h := hp s.
Let n := length (hp s).
Let mem := mem_of s sel.
Let roots := sel_roots (hp s) sel.
Let f := phi n mem.
Let m := length mem.

Definition pj (y : obj) : obj := if Nat.ltb y n then y else nth (y - n - 1) mem 0.

Lemma pj_old y : y < n -> pj y = y.
Proof. intro L. unfold pj. apply Nat.ltb_lt in L. rewrite L. reflexivity. Qed.

Lemma pj_copy x : In x mem -> pj (f x) = x.
Proof.
  intro Hx. unfold pj, f, phi. destruct (Nat.ltb_spec (n + 1 + idx x mem) n) as [L|L]; [lia|].
  replace (n + 1 + idx x mem - n - 1) with (idx x mem) by lia. apply nth_idx. exact Hx.
Qed.

Lemma f_lt x : In x mem -> n + 1 <= f x /\ f x < n + 1 + m.
Proof. apply phi_range. Qed.

Lemma mem_lt x : In x mem -> x < n.
Proof. intro Hx. apply (m_facts s w sel HWF Hsel x Hx). Qed.

Lemma f_injective x y : In x mem -> In y mem -> f x = f y -> x = y.
Proof. apply phi_inj. Qed.

Lemma classify3 y : y < n + 1 + m -> y < n \/ y = n \/ exists x, In x mem /\ y = f x.
Proof.
  intro L. destruct (Nat.lt_ge_cases y n) as [A|A]; [left; exact A|].
  destruct (Nat.eq_dec y n) as [E|N]; [right; left; exact E|]. right. right.
  assert (Li : y - n - 1 < length mem) by (fold m; lia).
  exists (nth (y - n - 1) mem 0). split; [apply nth_In; exact Li|].
  unfold f, phi. rewrite (idx_nth mem (m_nodup s sel HWF) _ Li). lia.
Qed.

Lemma src_fin_par x p : par (get h x) = Some p -> p < n.
Proof. intro E. eapply dl_fin_par; [apply HWF|exact E]. Qed.

Lemma src_sep d a b : In b (fwd d (get h a)) -> ~ Anc h a b /\ ~ Anc h b a.
Proof.
  intro H. destruct HWF as (_ & _ & _ & _ & _ & Sep & _). destruct d; cbn [fwd] in H.
  - exact (Sep a b H).
  - pose proof (o_sym_d s HWF false a b H) as H'. cbn [negb fwd] in H'.
    destruct (Sep b a H') as [A B]. split; assumption.
Qed.

Lemma src_no_cycle d x : ~ Reach (fnext d h) x x.
Proof.
  destruct HWF as (_ & _ & _ & Sy & Dg & _). apply (dag_fnext d s Sy). exact Dg.
Qed.

Lemma src_acy : acyclic h.
Proof. apply HWF. Qed.

Lemma src_ids x y : In x mem -> In y mem -> tid (get h x) = tid (get h y) -> x = y.
Proof.
  intros Hx Hy E. destruct HWF as (_ & _ & _ & _ & _ & _ & Ids & _).
  apply (Ids x y (wroot s w)); try (apply mem_lt; assumption); try exact E.
  - apply (m_root s w sel HWF Hsel x Hx).
  - apply (m_root s w sel HWF Hsel y Hy).
Qed.

Lemma src_kid_mem t k : In t mem -> In k (kids (get h t)) -> In k mem /\ par (get h k) = Some t.
Proof.
  intros Ht Hk. split; [eapply (m_kids s sel HWF); eauto|].
  apply (I_pc_pc_down s); [apply HWF|exact Hk].
Qed.

Lemma src_par_neq t p : par (get h t) = Some p -> p <> t.
Proof. intros E ->. apply (src_acy t). apply Anc_par. exact E. Qed.

Definition J (S : state) : Prop :=
  length (hp S) = n + 1 + m /\
  wroots S = wroots s ++ [n] /\
  (forall y, y < n -> par (get (hp S) y) = par (get h y) /\ kids (get (hp S) y) = kids (get h y) /\
                      hidden (get (hp S) y) = hidden (get h y)) /\
  (par (get (hp S) n) = None /\ tid (get (hp S) n) = EMPTY_ID /\ hidden (get (hp S) n) = true) /\
  (forall x, In x mem ->
     tid (get (hp S) (f x)) = tid (get h x) /\ own (get (hp S) (f x)) = None /\
     hidden (get (hp S) (f x)) = false /\
     forall q, par (get (hp S) (f x)) = Some q -> exists p, q = f p /\ In p mem /\ par (get h x) = Some p) /\
  (forall x d, In x mem -> fwd d (get (hp S) x) = fwd d (get h x)) /\
  (forall d a b, In b (fwd d (get (hp S) a)) -> In (pj b) (fwd d (get h (pj a)))).

Section WithJ.
Variable S : state.
Hypothesis HJ : J S.
Let H' := hp S.

Lemma J_len : length H' = n + 1 + m. Proof. apply HJ. Qed.
Lemma J_old y : y < n -> par (get H' y) = par (get h y) /\ kids (get H' y) = kids (get h y) /\
                        hidden (get H' y) = hidden (get h y).
Proof. apply HJ. Qed.
Lemma J_root : par (get H' n) = None /\ tid (get H' n) = EMPTY_ID /\ hidden (get H' n) = true.
Proof. apply HJ. Qed.
Lemma J_copy x : In x mem ->
     tid (get H' (f x)) = tid (get h x) /\ own (get H' (f x)) = None /\ hidden (get H' (f x)) = false /\
     forall q, par (get H' (f x)) = Some q -> exists p, q = f p /\ In p mem /\ par (get h x) = Some p.
Proof. apply HJ. Qed.
Lemma J_memfwd x d : In x mem -> fwd d (get H' x) = fwd d (get h x).
Proof. destruct HJ as (_ & _ & _ & _ & _ & A & _). apply A. Qed.
Lemma J_edge d a b : In b (fwd d (get H' a)) -> In (pj b) (fwd d (get h (pj a))).
Proof. destruct HJ as (_ & _ & _ & _ & _ & _ & A). apply A. Qed.

Lemma f_in_heap x : In x mem -> f x < length H'.
Proof. intro Hx. rewrite J_len. apply (f_lt x Hx). Qed.

Lemma anc_copy_inv x0 a : Anc H' x0 a -> forall x, In x mem -> x0 = f x ->
  exists y, In y mem /\ a = f y /\ Anc h x y.
Proof.
  intro HA. induction HA as [x0 p Hp|x0 p a Hp Ha IH]; intros x Hx ->.
  - destruct (J_copy x Hx) as (_ & _ & _ & Hq). destruct (Hq p Hp) as (p0 & -> & Hp0 & Hpar).
    exists p0. split; [exact Hp0|]. split; [reflexivity|]. apply Anc_par. exact Hpar.
  - destruct (J_copy x Hx) as (_ & _ & _ & Hq). destruct (Hq p Hp) as (p0 & -> & Hp0 & Hpar).
    destruct (IH p0 Hp0 eq_refl) as (y & Hy & -> & Hay). exists y. split; [exact Hy|]. split; [reflexivity|].
    eapply Anc_up; eauto.
Qed.

Lemma anc_old_inv y a : Anc H' y a -> y < n -> a < n /\ Anc h y a.
Proof.
  intro HA. induction HA as [y p Hp|y p a Hp Ha IH]; intro L.
  - destruct (J_old y L) as (E & _). rewrite E in Hp. split; [eapply src_fin_par; eauto|apply Anc_par; exact Hp].
  - destruct (J_old y L) as (E & _). rewrite E in Hp. pose proof (src_fin_par _ _ Hp) as Lp.
    destruct (IH Lp) as [La Aa]. split; [exact La|]. eapply Anc_up; eauto.
Qed.

Lemma anc_root_inv a : ~ Anc H' n a.
Proof. intro HA. apply Anc_has_par in HA as [p Hp]. destruct J_root as (E & _). congruence. Qed.

Lemma sub_copy_inv x z : In x mem -> Sub H' (f x) z -> exists y, In y mem /\ z = f y /\ Sub h x y.
Proof.
  intros Hx [->|HA]; [exists x; split; [exact Hx|]; split; [reflexivity|apply Sub_refl]|].
  pose proof (Anc_lt_l _ _ _ HA) as Lz. rewrite J_len in Lz.
  destruct (classify3 z Lz) as [L|[->|[y [Hy ->]]]].
  - destruct (anc_old_inv _ _ HA L) as [L2 _]. pose proof (f_lt x Hx). lia.
  - exfalso. exact (anc_root_inv _ HA).
  - destruct (anc_copy_inv _ _ HA y Hy eq_refl) as (y' & Hy' & E & Ay).
    apply (f_injective x y' Hx Hy') in E. subst y'.
    exists y. split; [exact Hy|]. split; [reflexivity|]. right. exact Ay.
Qed.

Lemma reach_proj d a b : Reach (fnext d H') a b -> Reach (fnext d h) (pj a) (pj b).
Proof.
  intro HR. induction HR as [a p Hp|a p b Hp Hpb IH].
  - apply Reach_one. unfold fnext in *. apply J_edge. exact Hp.
  - eapply Reach_more; [|exact IH]. unfold fnext in *. apply J_edge. exact Hp.
Qed.

(* a copy is never linked with the copy of an ancestor of its original *)
Lemma link_anc_contra d x0 y l : In x0 mem -> In y mem -> In l (fwd d (get H' (f x0))) -> l = f y ->
  Anc h x0 y -> False.
Proof.
  intros Hx Hy Hl -> HA. apply J_edge in Hl. rewrite (pj_copy x0 Hx), (pj_copy y Hy) in Hl.
  destruct (src_sep d x0 y Hl) as [N _]. exact (N HA).
Qed.

Hypothesis HW : WF S.

Lemma S_acy : acyclic H'.
Proof. apply HW. Qed.

Lemma link_not_root d a b : In b (fwd d (get H' a)) -> b <> n.
Proof.
  intros Hb ->. destruct (link_pub d S a n HW Hb) as [_ Hh]. destruct J_root as (_ & _ & E). fold H' in Hh. congruence.
Qed.

Lemma copy_pub x : In x mem -> pub S (f x).
Proof. intro Hx. split; [apply f_in_heap; exact Hx|]. apply (J_copy x Hx). Qed.

(* the objects of the tree of a copy, the objects below copies: copies *)
Lemma root_of_copy x r : In x mem -> Root H' (f x) r -> exists y, In y mem /\ r = f y.
Proof.
  intros Hx [[<-|HA] _]; [exists x; auto|].
  destruct (anc_copy_inv _ _ HA x Hx eq_refl) as (y & Hy & -> & _). exists y. auto.
Qed.

Lemma intree_copy y0 r y : In y0 mem -> r = f y0 -> InTree H' r y -> exists z, In z mem /\ y = f z.
Proof.
  intros Hy0 -> [L [[->|HA] _]]; [exists y0; auto|].
  rewrite J_len in L. destruct (classify3 y L) as [L1|[->|[z [Hz ->]]]].
  - destruct (anc_old_inv _ _ HA L1) as [L2 _]. pose proof (f_lt y0 Hy0). lia.
  - exfalso. exact (anc_root_inv _ HA).
  - exists z. auto.
Qed.

Lemma incoming_copy r cs x : (forall c, In c cs -> In c mem) -> Incoming H' r (map f cs) x ->
  exists z, In z mem /\ x = f z.
Proof.
  intros Hcs (_ & (c & Hc & Sc) & _). apply in_map_iff in Hc as (c0 & <- & Hc0).
  destruct (sub_copy_inv c0 x (Hcs c0 Hc0) Sc) as (z & Hz & -> & _). exists z. auto.
Qed.

Lemma copy_tid_inj x y : In x mem -> In y mem -> tid (get H' (f x)) = tid (get H' (f y)) -> x = y.
Proof.
  intros Hx Hy E. destruct (J_copy x Hx) as (Ex & _). destruct (J_copy y Hy) as (Ey & _).
  apply src_ids; try assumption. congruence.
Qed.

Lemma no_clash p0 cs : In p0 mem -> (forall c, In c cs -> In c mem) ->
  id_clash H' (f p0) (map f cs) = Ok false.
Proof.
  intros Hp Hcs. apply id_clash_false; [exact S_acy|]. intros r Rr.
  destruct (root_of_copy p0 r Hp Rr) as (r0 & Hr0 & Er). split.
  - intros x y Ix Iy E. destruct (incoming_copy r cs x Hcs Ix) as (x0 & Hx0 & ->).
    destruct (incoming_copy r cs y Hcs Iy) as (y0 & Hy0 & ->). f_equal. apply copy_tid_inj; assumption.
  - intros x y Ix Iy E. destruct (incoming_copy r cs x Hcs Ix) as (x0 & Hx0 & ->).
    destruct (intree_copy r0 r y Hr0 Er Iy) as (y0 & Hy0 & ->).
    assert (x0 = y0) by (apply copy_tid_inj; assumption). subst y0.
    destruct Ix as (_ & _ & Nr). destruct Iy as (_ & Ry). exact (Nr Ry).
Qed.

Hypothesis Hhid : hid_ids s.

Lemma no_clash_root cs : (forall c, In c cs -> In c mem) -> id_clash H' n (map f cs) = Ok false.
Proof.
  intros Hcs. apply id_clash_false; [exact S_acy|]. intros r Rr.
  assert (Er : r = n).
  { destruct Rr as [[E|HA] _]; [symmetry; exact E|]. exfalso. exact (anc_root_inv _ HA). }
  subst r. split.
  - intros x y Ix Iy E. destruct (incoming_copy n cs x Hcs Ix) as (x0 & Hx0 & ->).
    destruct (incoming_copy n cs y Hcs Iy) as (y0 & Hy0 & ->). f_equal. apply copy_tid_inj; assumption.
  - intros x y Ix [Ly [[->|HA] _]] E.
    + destruct (incoming_copy n cs x Hcs Ix) as (x0 & Hx0 & ->).
      destruct (J_copy x0 Hx0) as (Ex & _). destruct J_root as (_ & En & _). fold H' in E.
      rewrite Ex, En in E. revert E. apply (m_tid s w sel HWF Hsel); [|exact Hx0].
      apply Hhid. destruct Hsel as [Lw _]. apply nth_In. exact Lw.
    + rewrite J_len in Ly. destruct (classify3 y Ly) as [L1|[->|[z [Hz ->]]]].
      * destruct (anc_old_inv _ _ HA L1) as [L2 _]. lia.
      * exact (anc_root_inv _ HA).
      * destruct (anc_copy_inv _ _ HA z Hz eq_refl) as (y' & Hy' & E' & _). pose proof (f_lt y' Hy'). lia.
Qed.
End WithJ.

(* ================================================================== *)
(** * 3. every setter call of the loop is accepted and keeps WF and J *)

Lemma rest_fields T' T :
  (tid T', preds T', succs T', hidden T', prio T', name T', est T') =
  (tid T, preds T, succs T, hidden T, prio T, name T, est T) ->
  tid T' = tid T /\ hidden T' = hidden T /\ forall d, fwd d T' = fwd d T.
Proof.
  intro E. injection E; intros. split; [assumption|]. split; [assumption|]. intros [|]; cbn [fwd]; assumption.
Qed.

Lemma src_kids_lt y c : In c (kids (get h y)) -> c < n.
Proof. intro Hc. eapply dl_fin_kids; [apply HWF|exact Hc]. Qed.

Lemma src_fwd_lt d x y : In y (fwd d (get h x)) -> y < n.
Proof. apply (o_fwd_lt s HWF). Qed.

(* ---- c.parent = ... ---- *)
Definition pp_of (t : obj) : option obj :=
  match par (get h t) with Some p => if memn p mem then Some (f p) else None | None => None end.

Lemma pp_of_Some t q : pp_of t = Some q -> exists p, q = f p /\ In p mem /\ par (get h t) = Some p.
Proof.
  unfold pp_of. destruct (par (get h t)) as [p|]; [|discriminate].
  destruct (memn p mem) eqn:E; [|discriminate]. intro X; inversion X. exists p. apply memn_In in E. auto.
Qed.

Lemma parent_guard_ok S t : WF S -> J S -> In t mem -> set_parent_guard S (f t) (pp_of t) = OK.
Proof.
  intros W HJ Ht. destruct (J_copy S HJ t Ht) as (_ & Ho & _).
  destruct (pp_of t) as [q|] eqn:Epp; [|apply set_parent_guard_none; exact Ho].
  destruct (pp_of_Some t q Epp) as (p & -> & Hp & Epar).
  apply set_parent_guard_complete; try assumption.
  - apply (S_acy S W).
  - intro E. apply (f_injective p t Hp Ht) in E. exact (src_par_neq t p Epar E).
  - change [f t] with (map f [t]). apply (no_clash S HJ W p [t] Hp). intros c [<-|[]]. exact Ht.
  - intro HA. destruct (anc_copy_inv S HJ _ _ HA p Hp eq_refl) as (y & Hy & E & Ay).
    apply (f_injective t y Ht Hy) in E. subst y.
    apply (src_acy t). eapply Anc_up; eauto.
  - intros x l Lx Sx Hl. destruct (sub_copy_inv S HJ t x Ht Sx) as (x0 & Hx0 & -> & S0).
    apply links_fwd in Hl as [d Hl].
    assert (Ax : Anc h x0 p) by (eapply Sub_Anc_trans; [exact S0|apply Anc_par; exact Epar]).
    split.
    + intros ->. exact (link_anc_contra S HJ d x0 p (f p) Hx0 Hp Hl eq_refl Ax).
    + intro HA. destruct (anc_copy_inv S HJ _ _ HA p Hp eq_refl) as (y & Hy & -> & Ay).
      apply (link_anc_contra S HJ d x0 y (f y) Hx0 Hy Hl eq_refl). eapply Anc_trans; eauto.
Qed.

Lemma pp_range S t : J S -> forall p', pp_of t = Some p' -> p' < length (hp S).
Proof. intros HJ p' E. destruct (pp_of_Some t p' E) as (p & -> & Hp & _). apply (f_in_heap S HJ p Hp). Qed.

Lemma eff_par_copy S t pp : own (get (hp S) (f t)) = None -> eff_par S (f t) pp = pp.
Proof. intro Ho. unfold eff_par. rewrite Ho. destruct pp; reflexivity. Qed.

Lemma parent_keeps_J S t : WF S -> J S -> In t mem -> J (set_parent_write S (f t) (pp_of t)).
Proof.
  intros W HJ Ht. pose proof W as (F & Pc & _).
  destruct (J_copy S HJ t Ht) as (_ & Ho & _).
  destruct (set_parent_effect S (f t) (pp_of t) F Pc (f_in_heap S HJ t Ht) (pp_range S t HJ))
    as (A & B & Cp & Dp & K & O & R). cbv zeta in *. rewrite (eff_par_copy S t _ Ho) in *.
  set (S' := set_parent_write S (f t) (pp_of t)) in *.
  assert (Hne : forall y, y <= n -> y <> f t) by (intros y Ly E; pose proof (f_lt t Ht); lia).
  assert (Rf : forall x, tid (get (hp S') x) = tid (get (hp S) x) /\ hidden (get (hp S') x) = hidden (get (hp S) x) /\
                         forall d, fwd d (get (hp S') x) = fwd d (get (hp S) x)).
  { intro x. apply rest_fields. exact (R x). }
  unfold J. split; [rewrite B; apply (J_len S HJ)|]. split; [rewrite A; apply HJ|].
  split; [|split; [|split; [|split]]].
  - intros y Ly. destruct (J_old S HJ y Ly) as (E1 & E2 & E3).
    split; [rewrite (Dp y (Hne y (Nat.lt_le_incl _ _ Ly))); exact E1|]. split; [|rewrite (proj1 (proj2 (Rf y))); exact E3].
    rewrite (K y), E2. rewrite without_id.
    2:{ intro Hin. apply src_kids_lt in Hin. pose proof (f_lt t Ht). lia. }
    match goal with |- context [if ?c then _ else _] => assert (Eq : c = false) end.
    { match goal with |- ?c = false => destruct c eqn:E end; [|reflexivity]. apply onat_eqb_eq in E.
      destruct (pp_of_Some t y E) as (p & -> & Hp & _). pose proof (f_lt p Hp). lia. }
    rewrite Eq. apply app_nil_r.
  - destruct (J_root S HJ) as (E1 & E2 & E3). rewrite (Dp n (Hne n (Nat.le_refl _))).
    rewrite (proj1 (Rf n)), (proj1 (proj2 (Rf n))). auto.
  - intros x Hx. destruct (J_copy S HJ x Hx) as (E1 & E2 & E3 & E4).
    rewrite (proj1 (Rf (f x))), (proj1 (proj2 (Rf (f x)))). split; [exact E1|]. split; [|split; [exact E3|]].
    + rewrite (O (f x)). destruct (pp_of t) as [q|] eqn:Epp; [|exact E2].
      destruct (pp_of_Some t q Epp) as (p & -> & Hp & _). destruct (J_copy S HJ p Hp) as (_ & Eo & _).
      rewrite Eo. exact E2.
    + intros q Hq. destruct (Nat.eq_dec x t) as [->|Nx].
      * rewrite Cp in Hq. apply pp_of_Some. exact Hq.
      * rewrite Dp in Hq; [apply E4; exact Hq|]. intro E. apply Nx. apply (f_injective x t Hx Ht E).
  - intros x d Hx. rewrite (proj2 (proj2 (Rf x))). apply (J_memfwd S HJ x d Hx).
  - intros d a b Hb. rewrite (proj2 (proj2 (Rf a))) in Hb. apply (J_edge S HJ d a b Hb).
Qed.

Lemma step_parent S t : WF S -> J S -> In t mem ->
  let r := set_parent S (f t) (pp_of t) in snd r = OK /\ WF (fst r) /\ J (fst r).
Proof.
  intros W HJ Ht. cbv zeta. pose proof (parent_guard_ok S t W HJ Ht) as G.
  unfold set_parent. rewrite G. cbn [mk fst snd]. split; [reflexivity|]. split.
  - apply set_parent_write_WF; try assumption; [apply (copy_pub S HJ t Ht)|apply (pp_range S t HJ)].
  - apply parent_keeps_J; assumption.
Qed.

(* ---- c.children = ... ---- *)
Lemma value_id l : NoDup l -> dedup (somes (map Some l)) = l.
Proof. intro N. rewrite AncLemmas.somes_map_Some. apply dedup_NoDup_id. exact N. Qed.

Lemma NoDup_map_f l : NoDup l -> (forall c, In c l -> In c mem) -> NoDup (map f l).
Proof.
  intros N Hl. apply NoDup_map_inj_on; [exact N|]. intros x y Hx Hy. apply f_injective; apply Hl; assumption.
Qed.

Lemma src_kids_nodup t : NoDup (kids (get h t)).
Proof. apply (I_pc_kids_nodup s). apply HWF. Qed.

Lemma children_guard_ok S t : WF S -> J S -> In t mem ->
  set_children_guard S (f t) (map f (kids (get h t))) = OK.
Proof.
  intros W HJ Ht.
  assert (Hk : forall c, In c (kids (get h t)) -> In c mem) by (intros c Hc; apply (src_kid_mem t c Ht Hc)).
  apply set_children_guard_complete.
  - apply (S_acy S W).
  - intro Hin. apply in_map_iff in Hin as (k & E & Hkk). apply (f_injective k t (Hk k Hkk) Ht) in E. subst k.
    destruct (src_kid_mem t t Ht Hkk) as [_ Ep]. exact (src_par_neq t t Ep eq_refl).
  - intros v Hv. apply in_map_iff in Hv as (k & <- & Hkk). apply (J_copy S HJ k (Hk k Hkk)).
  - apply (no_clash S HJ W t _ Ht Hk).
  - intros ch Hch HA. apply in_map_iff in Hch as (k & <- & Hkk).
    destruct (anc_copy_inv S HJ _ _ HA t Ht eq_refl) as (y & Hy & E & Ay).
    apply (f_injective k y (Hk k Hkk) Hy) in E. subst y. destruct (src_kid_mem t k Ht Hkk) as [_ Ep].
    apply (src_acy t). eapply Anc_trans; [exact Ay|apply Anc_par; exact Ep].
  - intros ch x l Hch Lx Sx Hl. apply in_map_iff in Hch as (k & <- & Hkk).
    destruct (src_kid_mem t k Ht Hkk) as [Hkm Ep].
    destruct (sub_copy_inv S HJ k x Hkm Sx) as (x0 & Hx0 & -> & S0).
    apply links_fwd in Hl as [d Hl].
    assert (Ax : Anc h x0 t) by (eapply Sub_Anc_trans; [exact S0|apply Anc_par; exact Ep]).
    split.
    + intros ->. exact (link_anc_contra S HJ d x0 t (f t) Hx0 Ht Hl eq_refl Ax).
    + intro HA. destruct (anc_copy_inv S HJ _ _ HA t Ht eq_refl) as (y & Hy & -> & Ay).
      apply (link_anc_contra S HJ d x0 y (f y) Hx0 Hy Hl eq_refl). eapply Anc_trans; eauto.
Qed.

Lemma children_call S t : WF S -> J S -> In t mem ->
  set_children S (f t) (map Some (map f (kids (get h t)))) =
  (set_children_write S (f t) (map f (kids (get h t))), OK).
Proof.
  intros W HJ Ht. unfold set_children. rewrite value_id.
  2:{ apply NoDup_map_f; [apply src_kids_nodup|]. intros c Hc. apply (src_kid_mem t c Ht Hc). }
  rewrite (children_guard_ok S t W HJ Ht). reflexivity.
Qed.

Lemma children_pubs S t : J S -> In t mem -> pubs S (map Some (map f (kids (get h t)))).
Proof.
  intros HJ Ht v Hv. apply in_map_iff in Hv as (v' & E & Hv'). inversion E; subst v'.
  apply in_map_iff in Hv' as (k & <- & Hk). apply (copy_pub S HJ k). apply (src_kid_mem t k Ht Hk).
Qed.

Lemma children_keeps_J S t : WF S -> J S -> In t mem ->
  J (set_children_write S (f t) (map f (kids (get h t)))).
Proof.
  intros W HJ Ht. pose proof W as (F & Pc & _).
  assert (Hk : forall c, In c (kids (get h t)) -> In c mem) by (intros c Hc; apply (src_kid_mem t c Ht Hc)).
  assert (Hr : forall v, In (Some v) (map Some (map f (kids (get h t)))) -> v < length (hp S)).
  { intros v Hv. apply (children_pubs S t HJ Ht v Hv). }
  pose proof (set_children_effect S (f t) _ _ F Pc (f_in_heap S HJ t Ht) Hr (children_call S t W HJ Ht))
    as (A & B & P & K & O & R). cbv zeta in *.
  rewrite value_id in P, K, O by (apply NoDup_map_f; [apply src_kids_nodup|exact Hk]).
  set (value := map f (kids (get h t))) in *.
  set (S' := set_children_write S (f t) value) in *.
  assert (Hval : forall y, In y value -> exists k, In k (kids (get h t)) /\ y = f k).
  { intros y Hy. apply in_map_iff in Hy as (k & <- & Hkk). exists k. auto. }
  assert (Hvge : forall y, In y value -> n + 1 <= y).
  { intros y Hy. destruct (Hval y Hy) as (k & Hkk & ->). apply (f_lt k (Hk k Hkk)). }
  assert (Rf : forall x, tid (get (hp S') x) = tid (get (hp S) x) /\ hidden (get (hp S') x) = hidden (get (hp S) x) /\
                         forall d, fwd d (get (hp S') x) = fwd d (get (hp S) x)).
  { intro x. apply rest_fields. exact (R x). }
  (* a released child of the copy would be a copy: old objects and the root keep their parent *)
  assert (Hrel : forall y, y <= n -> memn y (released (hp S) (f t) value) = false).
  { intros y Ly. apply memn_false. intro Hin. apply In_released in Hin as [Hin _].
    apply (I_pc_pc_down S Pc) in Hin. destruct (Nat.eq_dec y n) as [->|Ny].
    - destruct (J_root S HJ) as (E & _). congruence.
    - assert (Ly' : y < n) by lia. destruct (J_old S HJ y Ly') as (E & _). rewrite E in Hin.
      apply src_fin_par in Hin. pose proof (f_lt t Ht). lia. }
  assert (Hnv : forall y, y <= n -> memn y value = false).
  { intros y Ly. apply memn_false. intro Hin. apply Hvge in Hin. lia. }
  unfold J. split; [rewrite B; apply (J_len S HJ)|]. split; [rewrite A; apply HJ|].
  split; [|split; [|split; [|split]]].
  - intros y Ly. destruct (J_old S HJ y Ly) as (E1 & E2 & E3).
    split; [rewrite (P y), (Hnv y (Nat.lt_le_incl _ _ Ly)), (Hrel y (Nat.lt_le_incl _ _ Ly)); exact E1|].
    split; [|rewrite (proj1 (proj2 (Rf y))); exact E3].
    rewrite (K y). assert (Ny : Nat.eqb y (f t) = false) by (apply Nat.eqb_neq; pose proof (f_lt t Ht); lia).
    rewrite Ny, E2. apply filter_id. intros c Hc. apply negb_true_iff, memn_false. intro Hin.
    apply Hvge in Hin. apply src_kids_lt in Hc. lia.
  - destruct (J_root S HJ) as (E1 & E2 & E3).
    rewrite (P n), (Hnv n (Nat.le_refl _)), (Hrel n (Nat.le_refl _)), (proj1 (Rf n)), (proj1 (proj2 (Rf n))). auto.
  - intros x Hx. destruct (J_copy S HJ x Hx) as (E1 & E2 & E3 & E4).
    rewrite (proj1 (Rf (f x))), (proj1 (proj2 (Rf (f x)))). split; [exact E1|]. split; [|split; [exact E3|]].
    + rewrite (O (f x)). destruct (J_copy S HJ t Ht) as (_ & Eo & _). rewrite Eo.
      destruct (inB (hp S) (f t) value (f x)); [reflexivity|exact E2].
    + intros q. rewrite (P (f x)). destruct (memn (f x) value) eqn:Ev.
      * intro X; inversion X; subst q. apply memn_In in Ev. destruct (Hval _ Ev) as (k & Hkk & E).
        apply (f_injective x k Hx (Hk k Hkk)) in E. subst k. exists t. split; [reflexivity|]. split; [exact Ht|].
        apply (src_kid_mem t x Ht Hkk).
      * destruct (memn (f x) (released (hp S) (f t) value)); [discriminate|]. apply E4.
  - intros x d Hx. rewrite (proj2 (proj2 (Rf x))). apply (J_memfwd S HJ x d Hx).
  - intros d a b Hb. rewrite (proj2 (proj2 (Rf a))) in Hb. apply (J_edge S HJ d a b Hb).
Qed.

Lemma step_children S t : WF S -> J S -> In t mem ->
  let r := set_children S (f t) (map Some (map f (kids (get h t)))) in snd r = OK /\ WF (fst r) /\ J (fst r).
Proof.
  intros W HJ Ht. cbv zeta. split; [rewrite (children_call S t W HJ Ht); reflexivity|]. split.
  - apply set_children_WF; [exact W|apply (f_in_heap S HJ t Ht)|apply (children_pubs S t HJ Ht)].
  - rewrite (children_call S t W HJ Ht). apply children_keeps_J; assumption.
Qed.

(* ---- c.predecessors = ... / c.successors = ... ---- *)
Definition lv (d : bool) (t : obj) : list obj := map_links h w mem (fwd d (get h t)).

Lemma lv_In d t z : In z (lv d t) <->
  (exists y, In y (fwd d (get h t)) /\ In y mem /\ z = f y) \/
  (In z (fwd d (get h t)) /\ ~ In z mem /\ in_wbs h w z = false).
Proof. apply In_map_links. Qed.

Lemma lv_nodup d t : NoDup (lv d t).
Proof. apply NoDup_map_links; [apply (o_fwd_nodup s HWF)|]. intros y Hy. apply (src_fwd_lt d t y Hy). Qed.

Lemma lv_pj d t z : In z (lv d t) -> In (pj z) (fwd d (get h t)).
Proof.
  intro Hz. apply lv_In in Hz as [(y & Hy & Hm & ->)|(Hz & _)].
  - rewrite (pj_copy y Hm). exact Hy.
  - rewrite (pj_old z (src_fwd_lt d t z Hz)). exact Hz.
Qed.

Lemma lv_lt S d t z : J S -> In z (lv d t) -> z < length (hp S).
Proof.
  intros HJ Hz. apply lv_In in Hz as [(y & Hy & Hm & ->)|(Hz & _)].
  - apply (f_in_heap S HJ y Hm).
  - rewrite (J_len S HJ). apply (src_fwd_lt d t) in Hz. lia.
Qed.

Lemma lv_pub S d t z : J S -> In z (lv d t) -> pub S z.
Proof.
  intros HJ Hz. split; [apply (lv_lt S d t z HJ Hz)|].
  apply lv_In in Hz as [(y & Hy & Hm & ->)|(Hz & _)].
  - apply (J_copy S HJ y Hm).
  - destruct (J_old S HJ z (src_fwd_lt d t z Hz)) as (_ & _ & E). rewrite E.
    apply (link_pub d s t z HWF Hz).
Qed.

Lemma member_not_lv d t x : In x mem -> ~ In x (lv d t).
Proof.
  intros Hx Hin. apply lv_In in Hin as [(y & Hy & Hm & E)|(_ & N & _)]; [|exact (N Hx)].
  pose proof (f_lt y Hm). pose proof (mem_lt x Hx). lia.
Qed.

Lemma links_guard_ok S d t : WF S -> J S -> In t mem -> set_links_guard d S (f t) (lv d t) = OK.
Proof.
  intros W HJ Ht. pose proof W as (F & _ & Ac & Sy & Dg & _).
  apply set_links_guard_complete; try assumption.
  intros v Hv. pose proof (lv_pj d t v Hv) as Hp.
  assert (NR : ~ Reach (fnext d (hp S)) v (f t)).
  { intro HR. apply (reach_proj S HJ) in HR. rewrite (pj_copy t Ht) in HR.
    apply (src_no_cycle d t). eapply Reach_more; [exact Hp|exact HR]. }
  apply lv_In in Hv as [(y & Hy & Hm & ->)|(Hz & Nm & _)].
  - split; [|split; [|split; [|exact NR]]].
    + intro E. apply (f_injective y t Hm Ht) in E. subst y.
      apply (src_no_cycle d t). apply Reach_one. exact Hy.
    + intro HA. destruct (anc_copy_inv S HJ _ _ HA t Ht eq_refl) as (y' & Hy' & E & Ay).
      apply (f_injective y y' Hm Hy') in E. subst y'. exact (proj1 (src_sep d t y Hy) Ay).
    + intro HA. destruct (anc_copy_inv S HJ _ _ HA y Hm eq_refl) as (t' & Ht' & E & Ay).
      apply (f_injective t t' Ht Ht') in E. subst t'. exact (proj2 (src_sep d t y Hy) Ay).
  - pose proof (src_fwd_lt d t v Hz) as Lv. pose proof (f_lt t Ht) as Lt.
    split; [lia|]. split; [|split; [|exact NR]].
    + intro HA. destruct (anc_copy_inv S HJ _ _ HA t Ht eq_refl) as (y' & Hy' & E & _).
      pose proof (f_lt y' Hy'). lia.
    + intro HA. destruct (anc_old_inv S HJ _ _ HA Lv) as [L2 _]. lia.
Qed.

Lemma links_call S d t : WF S -> J S -> In t mem ->
  set_links d S (f t) (map Some (lv d t)) = (set_links_write d S (f t) (lv d t), OK).
Proof.
  intros W HJ Ht. unfold set_links. rewrite value_id by apply lv_nodup.
  rewrite (links_guard_ok S d t W HJ Ht). reflexivity.
Qed.

Lemma neq_negb (d0 d : bool) : d0 <> d -> d0 = negb d.
Proof. destruct d0, d; intro N; try reflexivity; exfalso; apply N; reflexivity. Qed.

Lemma links_keeps_J S d t : WF S -> J S -> In t mem -> J (set_links_write d S (f t) (lv d t)).
Proof.
  intros W HJ Ht. pose proof W as (F & _ & _ & Sy & _).
  destruct (set_links_effect d S (f t) (lv d t) F Sy (f_in_heap S HJ t Ht)
              (fun v Hv => lv_lt S d t v HJ Hv) (lv_nodup d t)) as (A & B & Cf & Df & Bw & Co). cbv zeta in *.
  set (S' := set_links_write d S (f t) (lv d t)) in *.
  assert (Cf' : forall x, tid (get (hp S') x) = tid (get (hp S) x) /\ par (get (hp S') x) = par (get (hp S) x) /\
                  kids (get (hp S') x) = kids (get (hp S) x) /\ own (get (hp S') x) = own (get (hp S) x) /\
                  hidden (get (hp S') x) = hidden (get (hp S) x)).
  { intro x. destruct (core_inv _ _ (Co x)) as (C1 & C2 & C3 & C4 & C5 & _). auto. }
  unfold J. split; [rewrite B; apply (J_len S HJ)|]. split; [rewrite A; apply HJ|].
  split; [|split; [|split; [|split]]].
  - intros y Ly. destruct (Cf' y) as (_ & C2 & C3 & _ & C5). rewrite C2, C3, C5. apply (J_old S HJ y Ly).
  - destruct (Cf' n) as (C1 & C2 & _ & _ & C5). rewrite C1, C2, C5. apply (J_root S HJ).
  - intros x Hx. destruct (Cf' (f x)) as (C1 & C2 & _ & C4 & C5). rewrite C1, C2, C4, C5. apply (J_copy S HJ x Hx).
  - intros x d0 Hx. assert (Nx : x <> f t) by (pose proof (mem_lt x Hx); pose proof (f_lt t Ht); lia).
    destruct (Bool.bool_dec d0 d) as [->|Nd].
    + rewrite (Df x Nx). apply (J_memfwd S HJ x d Hx).
    + apply neq_negb in Nd. subst d0. rewrite <- !bwd_fwd. rewrite (Bw x).
      assert (M : memn x (lv d t) = false) by (apply memn_false; apply member_not_lv; exact Hx).
      rewrite M, app_nil_r. rewrite bwd_fwd, (J_memfwd S HJ x (negb d) Hx). rewrite <- bwd_fwd.
      apply without_id. intro Hin. rewrite bwd_fwd in Hin. apply src_fwd_lt in Hin. pose proof (f_lt t Ht). lia.
  - intros d0 a b Hb. destruct (Bool.bool_dec d0 d) as [->|Nd].
    + destruct (Nat.eq_dec a (f t)) as [->|Na].
      * rewrite Cf in Hb. rewrite (pj_copy t Ht). apply lv_pj. exact Hb.
      * rewrite (Df a Na) in Hb. apply (J_edge S HJ d a b Hb).
    + apply neq_negb in Nd. subst d0. rewrite <- bwd_fwd in Hb. rewrite (Bw a) in Hb.
      apply in_app_or in Hb as [Hb|Hb].
      * apply AncLemmas.In_without in Hb as [Hb _]. rewrite bwd_fwd in Hb. apply (J_edge S HJ (negb d) a b Hb).
      * destruct (memn a (lv d t)) eqn:M; [|destruct Hb]. destruct Hb as [<-|[]].
        apply memn_In in M. rewrite (pj_copy t Ht).
        pose proof (o_sym_d s HWF d t (pj a) (lv_pj d t a M)) as X. exact X.
Qed.

Lemma step_links S d t : WF S -> J S -> In t mem ->
  let r := set_links d S (f t) (map Some (lv d t)) in snd r = OK /\ WF (fst r) /\ J (fst r).
Proof.
  intros W HJ Ht. cbv zeta. rewrite (links_call S d t W HJ Ht). cbn [fst snd]. split; [reflexivity|]. split.
  - apply set_links_write_WF; try assumption.
    + apply (copy_pub S HJ t Ht).
    + intros v Hv. apply (lv_pub S d t v HJ Hv).
    + apply lv_nodup.
    + apply links_guard_ok; assumption.
  - apply links_keeps_J; assumption.
Qed.

(* ================================================================== *)
(** * 4. the arguments the code computes, one turn of the loop, the loop, the whole call *)

Lemma src_parent_inwbs t q : In t mem -> par (get h t) = Some q -> in_wbs h w q = true.
Proof.
  intros Ht Ep. unfold in_wbs. apply onat_eqb_eq.
  destruct HWF as (_ & _ & _ & _ & _ & _ & _ & _ & Own).
  apply (Own q w (src_fin_par t q Ep)). split; [apply Hsel|].
  apply (Root_par h t q (wroot s w) Ep). apply (m_root s w sel HWF Hsel t Ht).
Qed.

Lemma parent_arg S t : J S -> In t mem ->
  match pubpar (hp S) t with Some p => dict_get f h w mem p | None => None end = pp_of t.
Proof.
  intros HJ Ht. unfold pubpar, pp_of. destruct (J_old S HJ t (mem_lt t Ht)) as (Ep & _). rewrite Ep.
  destruct (par (get h t)) as [q|] eqn:Eq; [|reflexivity].
  destruct (J_old S HJ q (src_fin_par t q Eq)) as (_ & _ & Eh). rewrite Eh.
  destruct (hidden (get h q)) eqn:Hq.
  - destruct (memn q mem) eqn:M; [|reflexivity]. apply memn_In in M.
    destruct (m_facts s w sel HWF Hsel q M) as (_ & _ & X & _). fold h in X. congruence.
  - unfold dict_get. destruct (memn q mem); [reflexivity|].
    rewrite (src_parent_inwbs t q Ht Eq). reflexivity.
Qed.

Lemma dict_list_eq d t : In t mem -> dict_list f h w mem (fwd d (get h t)) = lv d t.
Proof.
  intro Ht. unfold dict_list, lv, map_links. apply flat_map_ext_in. intros y Hy. unfold dict_get.
  destruct (memn y mem); [reflexivity|].
  assert (L : linked_with h mem y = true).
  { unfold linked_with. apply existsb_exists. exists t. split; [exact Ht|]. apply orb_true_iff.
    destruct d; cbn [fwd] in Hy; [left|right]; apply memn_In; exact Hy. }
  rewrite L, andb_true_r. destruct (in_wbs h w y); reflexivity.
Qed.

Lemma ex_of_triple (r : state * outcome) (P Q : state -> Prop) :
  snd r = OK /\ P (fst r) /\ Q (fst r) -> exists S1, r = (S1, OK) /\ P S1 /\ Q S1.
Proof. destruct r as [S1 o]. cbn [fst snd]. intros (-> & HP & HQ). exists S1. auto. Qed.

Lemma andthen_pair S1 k : andthen (S1, OK) k = k S1.
Proof. reflexivity. Qed.

Lemma rebuild_one_ok S t : WF S -> J S -> In t mem ->
  exists S', rebuild_one f h w mem S t = (S', OK) /\ WF S' /\ J S'.
Proof.
  intros W HJ Ht. unfold rebuild_one. rewrite (parent_arg S t HJ Ht).
  destruct (ex_of_triple _ _ _ (step_parent S t W HJ Ht)) as (S1 & E1 & W1 & J1).
  rewrite E1, andthen_pair.
  destruct (J_old S1 J1 t (mem_lt t Ht)) as (_ & Ek & _). rewrite Ek.
  assert (Fa : forallb (fun ch => memn ch mem) (kids (get h t)) = true).
  { apply forallb_forall. intros c Hc. apply memn_In. apply (src_kid_mem t c Ht Hc). }
  rewrite Fa. cbn [negb].
  destruct (ex_of_triple _ _ _ (step_children S1 t W1 J1 Ht)) as (S2 & E2 & W2 & J2).
  rewrite E2, andthen_pair.
  pose proof (J_memfwd S2 J2 t true Ht) as Ep. cbn [fwd] in Ep. rewrite Ep.
  change (preds (get h t)) with (fwd true (get h t)). rewrite (dict_list_eq true t Ht).
  destruct (ex_of_triple _ _ _ (step_links S2 true t W2 J2 Ht)) as (S3 & E3 & W3 & J3).
  unfold set_preds. rewrite E3, andthen_pair.
  pose proof (J_memfwd S3 J3 t false Ht) as Es. cbn [fwd] in Es. rewrite Es.
  change (succs (get h t)) with (fwd false (get h t)). rewrite (dict_list_eq false t Ht).
  unfold set_succs. apply ex_of_triple. apply (step_links S3 false t W3 J3 Ht).
Qed.

Lemma loop_ok l : forall S, (forall t, In t l -> In t mem) -> WF S -> J S ->
  exists S', seq_calls (rebuild_one f h w mem) S l = (S', OK) /\ WF S' /\ J S'.
Proof.
  induction l as [|t l IH]; intros S Hl W HJ; [exists S; cbn; auto|].
  cbn [seq_calls].
  destruct (rebuild_one_ok S t W HJ (Hl t (or_introl eq_refl))) as (S1 & E & W1 & J1).
  rewrite E, andthen_pair. apply IH; [|exact W1|exact J1].
  intros t' Ht'. apply Hl. right. exact Ht'.
Qed.

(* the state after the allocations: the old heap, the fresh hidden root, one blank copy per member *)
Definition root0 : task := mkT EMPTY_ID None [] [] [] (Some (length (wroots s))) true None [] None.
Definition state0 : state := alloc_copies (fst (new_wbs s)) h mem.

Lemma state0_hp : hp state0 = (h ++ [root0]) ++ map (blank_of h) mem.
Proof. unfold state0. rewrite alloc_copies_hp. reflexivity. Qed.

Lemma state0_wroots : wroots state0 = wroots s ++ [n].
Proof. unfold state0. rewrite alloc_copies_wroots. reflexivity. Qed.

Lemma state0_len : length (hp state0) = n + 1 + m.
Proof. rewrite state0_hp, !app_length, map_length. cbn [length]. reflexivity. Qed.

Lemma state0_old y : y < n -> get (hp state0) y = get h y.
Proof.
  intro L. unfold get. rewrite state0_hp. rewrite app_nth1 by (rewrite app_length; cbn [length]; unfold n, h in *; lia).
  apply app_nth1. exact L.
Qed.

Lemma state0_root : get (hp state0) n = root0.
Proof.
  unfold get. rewrite state0_hp. rewrite app_nth1 by (rewrite app_length; cbn [length]; unfold n, h in *; lia).
  rewrite app_nth2 by (unfold n, h in *; lia). replace (n - length h) with 0 by (unfold n, h in *; lia). reflexivity.
Qed.

Lemma state0_copy x : In x mem -> get (hp state0) (f x) = blank_of h x.
Proof.
  intro Hx. unfold get. rewrite state0_hp. pose proof (f_lt x Hx) as L.
  rewrite app_nth2 by (rewrite app_length; cbn [length]; unfold n, h in *; lia).
  rewrite app_length. cbn [length].
  replace (f x - (length h + 1)) with (idx x mem) by (unfold f, phi, n, h in *; lia).
  apply nth_idx_map. exact Hx.
Qed.

Lemma state0_WF : WF state0.
Proof. unfold state0. apply alloc_copies_WF. apply new_wbs_WF. exact HWF. Qed.

Lemma fwd_dflt d : fwd d dflt = [].
Proof. destruct d; reflexivity. Qed.

Lemma state0_J : J state0.
Proof.
  unfold J. split; [apply state0_len|]. split; [apply state0_wroots|].
  split; [|split; [|split; [|split]]].
  - intros y Ly. rewrite (state0_old y Ly). auto.
  - rewrite state0_root. cbn. auto.
  - intros x Hx. rewrite (state0_copy x Hx). cbn. split; [reflexivity|]. split; [reflexivity|].
    split; [reflexivity|]. intros q X. discriminate.
  - intros x d Hx. rewrite (state0_old x (mem_lt x Hx)). reflexivity.
  - intros d a b Hb. destruct (Nat.lt_ge_cases a (n + 1 + m)) as [L|G].
    + destruct (classify3 a L) as [La|[->|[x [Hx ->]]]].
      * rewrite (state0_old a La) in Hb. rewrite (pj_old a La), (pj_old b (src_fwd_lt d a b Hb)). exact Hb.
      * rewrite state0_root in Hb. destruct d; destruct Hb.
      * rewrite (state0_copy x Hx) in Hb. destruct d; destruct Hb.
    + rewrite get_out in Hb by (rewrite state0_len; exact G). rewrite fwd_dflt in Hb. destruct Hb.
Qed.

(* cloned_project.roots = [copies of the roots] *)
Lemma roots_mem r : In r roots -> In r mem.
Proof. apply (roots_incl s sel HWF). Qed.

Lemma roots_nodup : NoDup roots.
Proof. apply NoDup_roots. Qed.

Lemma final_guard_ok S : WF S -> J S -> hid_ids s -> set_children_guard S n (map f roots) = OK.
Proof.
  intros W HJ Hh. apply set_children_guard_complete.
  - apply (S_acy S W).
  - intro Hin. apply in_map_iff in Hin as (r & E & Hr). pose proof (f_lt r (roots_mem r Hr)). lia.
  - intros v Hv. apply in_map_iff in Hv as (r & <- & Hr). apply (J_copy S HJ r (roots_mem r Hr)).
  - apply (no_clash_root S HJ W Hh roots roots_mem).
  - intros ch _ HA. exact (anc_root_inv S HJ _ HA).
  - intros ch x l _ _ _ Hl. apply links_fwd in Hl as [d Hl]. split.
    + apply (link_not_root S HJ W d x l Hl).
    + apply (anc_root_inv S HJ).
Qed.

Lemma final_call S : WF S -> J S -> hid_ids s ->
  set_children S n (map Some (map f roots)) = (set_children_write S n (map f roots), OK).
Proof.
  intros W HJ Hh. unfold set_children. rewrite value_id by (apply NoDup_map_f; [apply roots_nodup|apply roots_mem]).
  rewrite (final_guard_ok S W HJ Hh). reflexivity.
Qed.

Lemma final_pubs S : J S -> pubs S (map Some (map f roots)).
Proof.
  intros HJ v Hv. apply in_map_iff in Hv as (v' & E & Hv'). inversion E; subst v'.
  apply in_map_iff in Hv' as (r & <- & Hr). apply (copy_pub S HJ r (roots_mem r Hr)).
Qed.

Lemma clone_impl_unfold :
  clone_impl s w sel =
  andthen (seq_calls (rebuild_one f h w mem) state0 mem) (fun s1 => set_children s1 n (map Some (map f roots))).
Proof. unfold clone_impl. rewrite (members_eq s sel HWF). reflexivity. Qed.

Theorem clone_impl_accepts_sec : hid_ids s -> snd (clone_impl s w sel) = OK.
Proof.
  intro Hh. rewrite clone_impl_unfold.
  destruct (loop_ok mem state0 (fun t Ht => Ht) state0_WF state0_J) as (S1 & E & W1 & J1).
  rewrite E, andthen_pair. rewrite (final_call _ W1 J1 Hh). reflexivity.
Qed.

Theorem clone_impl_WF_sec : hid_ids s -> WF (fst (clone_impl s w sel)).
Proof.
  intro Hh. rewrite clone_impl_unfold.
  destruct (loop_ok mem state0 (fun t Ht => Ht) state0_WF state0_J) as (S1 & E & W1 & J1).
  rewrite E, andthen_pair. apply set_children_WF; [exact W1| |apply (final_pubs _ J1)].
  rewrite (J_len _ J1). lia.
Qed.

(* ================================================================== *)
(** * 5. the preorder of the members (static facts about the source heap) *)

Lemma src_pd : pc_down h. Proof. apply I_pc_pc_down, HWF. Qed.
Lemma src_pu : pc_up h. Proof. apply I_pc_pc_up, HWF. Qed.

Lemma desc_segment p c : Anc h p c -> exists l1 l2, desc h c = l1 ++ p :: desc h p ++ l2.
Proof.
  intro HA. induction HA as [p c Hp|p q c Hp Hq IH].
  - apply src_pu in Hp. rewrite (desc_eq h c src_pd src_acy).
    apply in_split in Hp as (k1 & k2 & ->). rewrite flat_map_app. cbn [flat_map].
    exists (flat_map (fun c0 => c0 :: desc h c0) k1), (flat_map (fun c0 => c0 :: desc h c0) k2). reflexivity.
  - destruct IH as (l1 & l2 & E). apply src_pu in Hp. rewrite E.
    rewrite (desc_eq h q src_pd src_acy). apply in_split in Hp as (k1 & k2 & ->).
    rewrite flat_map_app. cbn [flat_map].
    exists (l1 ++ q :: flat_map (fun c0 => c0 :: desc h c0) k1), (flat_map (fun c0 => c0 :: desc h c0) k2 ++ l2).
    cbn [app]. rewrite <- !app_assoc. cbn [app]. rewrite <- ?app_assoc. reflexivity.
Qed.

Lemma mem_segment p : In p mem -> exists l1 l2, mem = l1 ++ p :: desc h p ++ l2.
Proof.
  intro Hp. unfold mem, mem_of in *. fold h in Hp |- *. apply in_flat_map in Hp as (r & Hr & Hp).
  apply in_split in Hr as (r1 & r2 & ->). rewrite flat_map_app. cbn [flat_map].
  destruct Hp as [->|Hp].
  - exists (flat_map (fun c => c :: desc h c) r1), (flat_map (fun c => c :: desc h c) r2). reflexivity.
  - apply (desc_In_Anc h r p src_pd src_acy) in Hp. destruct (desc_segment p r Hp) as (l1 & l2 & E). rewrite E.
    exists (flat_map (fun c => c :: desc h c) r1 ++ r :: l1), (l2 ++ flat_map (fun c => c :: desc h c) r2).
    cbn [app]. rewrite <- !app_assoc. cbn [app]. rewrite <- ?app_assoc. reflexivity.
Qed.

Lemma idx_app_r x l1 l2 : ~ In x l1 -> idx x (l1 ++ l2) = length l1 + idx x l2.
Proof.
  induction l1 as [|y l1 IH]; intro N; [reflexivity|]. cbn [app idx length].
  destruct (Nat.eqb x y) eqn:E; [apply Nat.eqb_eq in E; subst; exfalso; apply N; left; reflexivity|].
  rewrite IH; [reflexivity|]. intro H. apply N. right. exact H.
Qed.

(* a member's parent comes before it *)
Lemma parent_before x p : In x mem -> In p mem -> par (get h x) = Some p -> idx p mem < idx x mem.
Proof.
  intros Hx Hp Ep. destruct (mem_segment p Hp) as (l1 & l2 & E).
  pose proof (m_nodup s sel HWF) as ND. fold mem in ND. rewrite E in ND.
  assert (Hd : In x (desc h p)) by (apply (desc_kid h p x src_pd src_acy); apply src_pu; exact Ep).
  assert (N1 : ~ In p l1).
  { intro H. apply (NoDup_app_disj _ _ p ND H). left. reflexivity. }
  assert (N2 : ~ In x l1).
  { intro H. apply (NoDup_app_disj _ _ x ND H). right. apply in_or_app. left. exact Hd. }
  rewrite E, (idx_app_r p l1 _ N1), (idx_app_r x l1 _ N2). cbn [idx]. rewrite Nat.eqb_refl.
  assert (Nx : Nat.eqb x p = false) by (apply Nat.eqb_neq; intros ->; exact (src_par_neq p p Ep eq_refl)).
  rewrite Nx. lia.
Qed.

Definition childof (x c : obj) : bool := onat_eqb (par (get h c)) (Some x).

Lemma childof_spec x c : childof x c = true <-> par (get h c) = Some x.
Proof. unfold childof. apply onat_eqb_eq. Qed.

Lemma filter_nil {A} (g : A -> bool) l : (forall c, In c l -> g c = false) -> filter g l = [].
Proof.
  induction l as [|a l IH]; intro H; [reflexivity|]. simpl. rewrite (H a (or_introl eq_refl)).
  apply IH. intros c Hc. apply H. right. exact Hc.
Qed.

Lemma childof_false x c : par (get h c) <> Some x -> childof x c = false.
Proof. intro N. destruct (childof x c) eqn:E; [|reflexivity]. apply childof_spec in E. contradiction. Qed.

Lemma filter_children_flat x ks : (forall k, In k ks -> par (get h k) = Some x) ->
  filter (childof x) (flat_map (fun c => c :: desc h c) ks) = ks.
Proof.
  induction ks as [|k ks IH]; intro Hk; [reflexivity|]. cbn [flat_map app]. cbn [filter].
  assert (Ek : par (get h k) = Some x) by (apply Hk; left; reflexivity).
  rewrite (proj2 (childof_spec x k) Ek). rewrite filter_app. rewrite IH by (intros k' Hk'; apply Hk; right; exact Hk').
  rewrite filter_nil; [reflexivity|]. intros c Hc. apply childof_false. intro Ec.
  apply (desc_In_Anc h k c src_pd src_acy) in Hc. apply Anc_inv in Hc as (p & Ep & [->|HA]).
  - assert (x = k) by congruence. subst x. exact (src_par_neq k k Ek eq_refl).
  - assert (p = x) by congruence. subst p. apply (src_acy x). eapply Anc_trans; [exact HA|apply Anc_par; exact Ek].
Qed.

(* the members whose parent is x, in preorder: the children of x in their order *)
Lemma children_in_preorder x : In x mem -> filter (childof x) mem = kids (get h x).
Proof.
  intro Hx. destruct (mem_segment x Hx) as (l1 & l2 & E).
  pose proof (m_nodup s sel HWF) as ND. fold mem in ND. rewrite E in ND. rewrite E.
  assert (Hout : forall c l, In c l -> (forall y, In y l -> ~ In y (desc h x)) -> childof x c = false).
  { intros c l Hc Hl. apply childof_false. intro Ec. apply (Hl c Hc).
    apply (desc_kid h x c src_pd src_acy). apply src_pu. exact Ec. }
  rewrite filter_app. rewrite (filter_nil _ l1).
  2:{ intros c Hc. apply (Hout c l1 Hc). intros y Hy Hd. apply (NoDup_app_disj _ _ y ND Hy).
      right. apply in_or_app. left. exact Hd. }
  cbn [app filter]. rewrite childof_false by (intro Ec; exact (src_par_neq x x Ec eq_refl)).
  rewrite filter_app. rewrite (filter_nil _ l2).
  2:{ intros c Hc. apply (Hout c l2 Hc). intros y Hy Hd. apply NoDup_app_r in ND. apply NoDup_cons_iff in ND as [_ ND].
      exact (NoDup_app_disj _ _ y ND Hd Hy). }
  rewrite app_nil_r. rewrite (desc_eq h x src_pd src_acy). apply filter_children_flat.
  intros k Hk. apply src_pd. exact Hk.
Qed.


(* ================================================================== *)
(** * 6. the exact description D of the intermediate states (four counters: how many parent / children /
      predecessor / successor assignments have been made) *)

Lemma firstn_S_nth (l : list nat) k : k < length l -> firstn (S k) l = firstn k l ++ [nth k l 0].
Proof.
  revert k. induction l as [|a l IH]; intros k L; [cbn in L; lia|]. destruct k as [|k]; [reflexivity|].
  cbn [firstn nth app]. f_equal. apply IH. cbn in L. lia.
Qed.

Lemma In_firstn_idx (l : list nat) k c : In c (firstn k l) -> idx c l < k.
Proof.
  revert k. induction l as [|a l IH]; intros k H; [rewrite firstn_nil in H; destruct H|].
  destruct k as [|k]; [destruct H|]. cbn [firstn] in H. cbn [idx].
  destruct (Nat.eqb c a) eqn:E; [lia|]. destruct H as [->|H]; [rewrite Nat.eqb_refl in E; discriminate|].
  apply IH in H. lia.
Qed.

Lemma In_firstn_In {A} (l : list A) k c : In c (firstn k l) -> In c l.
Proof. intro H. rewrite <- (firstn_skipn k l). apply in_or_app. left. exact H. Qed.

Lemma task_ext_cf T' T : core T' = core T -> (forall d, fwd d T' = fwd d T) -> T' = T.
Proof.
  intros C Fw. destruct (core_inv _ _ C) as (C1 & C2 & C3 & C4 & C5 & C6 & C7 & C8).
  pose proof (Fw true) as Fp. pose proof (Fw false) as Fs. cbn [fwd] in Fp, Fs.
  destruct T', T. cbn in *. congruence.
Qed.

Lemma core_intro T' T : par T' = par T -> kids T' = kids T -> own T' = own T ->
  (tid T', preds T', succs T', hidden T', prio T', name T', est T') =
  (tid T, preds T, succs T, hidden T, prio T, name T, est T) ->
  core T' = core T /\ forall d, fwd d T' = fwd d T.
Proof.
  intros E1 E2 E3 R. injection R; intros. split; [unfold core; congruence|]. intros [|]; cbn [fwd]; assumption.
Qed.

Definition attrs (T : task) := (tid T, hidden T, prio T, name T, est T).

Lemma attrs_of_rest T' T :
  (tid T', preds T', succs T', hidden T', prio T', name T', est T') =
  (tid T, preds T, succs T, hidden T, prio T, name T, est T) -> attrs T' = attrs T.
Proof. intro R. injection R; intros. unfold attrs. congruence. Qed.

Lemma attrs_of_core T' T : core T' = core T -> attrs T' = attrs T.
Proof. intro C. destruct (core_inv _ _ C) as (C1 & C2 & C3 & C4 & C5 & C6 & C7 & C8). unfold attrs. congruence. Qed.

Definition lt_idx (k : nat) (x : obj) : bool := Nat.ltb (idx x mem) k.

Lemma mem_ND : NoDup mem. Proof. apply (m_nodup s sel HWF). Qed.

Lemma idx_nth_mem k : k < m -> idx (nth k mem 0) mem = k.
Proof. apply (idx_nth mem mem_ND). Qed.

Lemma lt_idx_S k x : In x mem -> k < m -> lt_idx (S k) x = lt_idx k x || Nat.eqb x (nth k mem 0).
Proof.
  intros Hx L. unfold lt_idx. pose proof (idx_nth_mem k L) as E.
  destruct (Nat.eqb_spec x (nth k mem 0)) as [->|N].
  - rewrite E. rewrite orb_true_r. apply Nat.ltb_lt. lia.
  - rewrite orb_false_r. assert (idx x mem <> k).
    { intro X. apply N. apply (idx_inj x (nth k mem 0) mem Hx); [apply nth_In; exact L|]. congruence. }
    destruct (Nat.ltb_spec (idx x mem) (S k)), (Nat.ltb_spec (idx x mem) k); try reflexivity; lia.
Qed.

Lemma lt_idx_S_other k x : In x mem -> k < m -> x <> nth k mem 0 -> lt_idx (S k) x = lt_idx k x.
Proof. intros Hx L N. rewrite (lt_idx_S k x Hx L). apply Nat.eqb_neq in N. rewrite N. apply orb_false_r. Qed.

Lemma lt_idx_S_self k : k < m -> lt_idx (S k) (nth k mem 0) = true.
Proof. intro L. unfold lt_idx. rewrite (idx_nth_mem k L). apply Nat.ltb_lt. lia. Qed.

Lemma lt_idx_self k : k < m -> lt_idx k (nth k mem 0) = false.
Proof. intro L. unfold lt_idx. rewrite (idx_nth_mem k L). apply Nat.ltb_irrefl. Qed.

Lemma nth_notin_firstn k : k < m -> ~ In (nth k mem 0) (firstn k mem).
Proof. intros L H. apply In_firstn_idx in H. rewrite (idx_nth_mem k L) in H. lia. Qed.

Lemma without_map_f t L : In t mem -> (forall c, In c L -> In c mem) -> without (f t) (map f L) = map f (without t L).
Proof.
  intros Ht. induction L as [|c L IH]; intro HL; [reflexivity|]. cbn [map without filter].
  assert (Hc : In c mem) by (apply HL; left; reflexivity).
  assert (E : Nat.eqb (f t) (f c) = Nat.eqb t c).
  { destruct (Nat.eqb_spec t c) as [->|N]; [apply Nat.eqb_refl|]. apply Nat.eqb_neq. intro X. apply N.
    apply (f_injective t c Ht Hc X). }
  rewrite E. fold (without (f t) (map f L)). fold (without t L).
  rewrite IH by (intros c' Hc'; apply HL; right; exact Hc'). destruct (Nat.eqb t c); reflexivity.
Qed.

Lemma without_filter t (g g' : nat -> bool) L :
  (forall c, In c L -> g' c = g c && negb (Nat.eqb t c)) -> without t (filter g L) = filter g' L.
Proof.
  intro H. unfold without. rewrite EffectProofs.filter_filter2. apply filter_ext_in. intros c Hc. symmetry. apply H. exact Hc.
Qed.

Definition outside (y : obj) : bool := negb (memn y mem || in_wbs h w y).

Definition old_extra (k : nat) (d : bool) (y : obj) : list obj :=
  if outside y then map f (filter (fun x => memn y (fwd (negb d) (get h x))) (firstn k mem)) else [].

Definition exp_par (a b : nat) (x : obj) : option obj :=
  match par (get h x) with
  | Some p => if memn p mem && (lt_idx a x || lt_idx b p) then Some (f p) else None
  | None => None
  end.

Definition exp_kids (a b : nat) (x : obj) : list obj :=
  if lt_idx b x then map f (filter (fun c => negb (lt_idx a c)) (kids (get h x)) ++ filter (childof x) (firstn a mem))
  else [].

Definition exp_link (kk : bool -> nat) (d : bool) (x z : obj) : Prop :=
  (lt_idx (kk d) x = true /\ In z (lv d x)) \/
  (exists y, In y mem /\ lt_idx (kk (negb d)) y = true /\ In y (fwd d (get h x)) /\ z = f y).

Definition D (a b : nat) (kk : bool -> nat) (S : state) : Prop :=
  (forall y, y < n -> core (get (hp S) y) = core (get h y) /\
                      forall d, fwd d (get (hp S) y) = fwd d (get h y) ++ old_extra (kk (negb d)) d y) /\
  get (hp S) n = root0 /\
  (forall x, In x mem ->
     attrs (get (hp S) (f x)) = attrs (blank_of h x) /\ own (get (hp S) (f x)) = None /\
     par (get (hp S) (f x)) = exp_par a b x /\ kids (get (hp S) (f x)) = exp_kids a b x /\
     forall d z, In z (fwd d (get (hp S) (f x))) <-> exp_link kk d x z).

Lemma pp_eq_Some t x : In x mem -> (pp_of t = Some (f x) <-> par (get h t) = Some x).
Proof.
  intro Hx. split.
  - intro E. destruct (pp_of_Some t _ E) as (p & Ef & Hp & Ep). apply (f_injective x p Hx Hp) in Ef. subst p. exact Ep.
  - intro E. unfold pp_of. rewrite E. apply memn_In in Hx. rewrite Hx. reflexivity.
Qed.

(* an object that is not a copy does not list a copy among its children *)
Lemma no_copy_kid S z c : WF S -> J S -> z <= n -> In c mem -> ~ In (f c) (kids (get (hp S) z)).
Proof.
  intros W HJ Lz Hc Hin. pose proof W as (_ & Pc & _). apply (I_pc_pc_down S Pc) in Hin.
  destruct (J_copy S HJ c Hc) as (_ & _ & _ & Hq). destruct (Hq z Hin) as (p & -> & Hp & _).
  pose proof (f_lt p Hp). lia.
Qed.


(* ---- c.parent = ... : the first counter ---- *)
Lemma D_parent S a b kk : WF S -> J S -> D a b kk S -> a < m -> a <= b ->
  D (Datatypes.S a) b kk (set_parent_write S (f (nth a mem 0)) (pp_of (nth a mem 0))).
Proof.
  intros W HJ (D1 & D2 & D3) La Lab. set (t := nth a mem 0).
  assert (Ht : In t mem) by (apply nth_In; exact La).
  pose proof W as (F & Pc & _).
  destruct (J_copy S HJ t Ht) as (_ & Ho & _).
  destruct (set_parent_effect S (f t) (pp_of t) F Pc (f_in_heap S HJ t Ht) (pp_range S t HJ))
    as (A & B & Cp & Dp & K & O & R). cbv zeta in *. rewrite (eff_par_copy S t _ Ho) in *.
  set (S' := set_parent_write S (f t) (pp_of t)) in *.
  assert (Oeq : forall z, own (get (hp S') z) = own (get (hp S) z)).
  { intro z. rewrite (O z). destruct (pp_of t) as [q|] eqn:Epp; [|reflexivity].
    destruct (pp_of_Some t q Epp) as (p & -> & Hp & _). destruct (J_copy S HJ p Hp) as (_ & Eo & _).
    rewrite Eo. reflexivity. }
  assert (Same : forall z, z <= n -> core (get (hp S') z) = core (get (hp S) z) /\
                                     forall d, fwd d (get (hp S') z) = fwd d (get (hp S) z)).
  { intros z Lz. apply core_intro; [| |apply Oeq|exact (R z)].
    - apply Dp. pose proof (f_lt t Ht). lia.
    - rewrite (K z). rewrite without_id by (apply (no_copy_kid S z t W HJ Lz Ht)).
      match goal with |- context [if ?c then _ else _] => assert (Eq : c = false) end.
      { match goal with |- ?c = false => destruct c eqn:E end; [|reflexivity]. apply onat_eqb_eq in E.
        destruct (pp_of_Some t z E) as (p & -> & Hp & _). pose proof (f_lt p Hp). lia. }
      rewrite Eq. apply app_nil_r. }
  unfold D. split; [|split].
  - intros y Ly. destruct (Same y (Nat.lt_le_incl _ _ Ly)) as [C Fw]. destruct (D1 y Ly) as [C1 F1].
    split; [rewrite C; exact C1|]. intro d. rewrite Fw. apply F1.
  - rewrite <- D2. destruct (Same n (Nat.le_refl _)) as [C Fw]. apply task_ext_cf; assumption.
  - intros x Hx. destruct (D3 x Hx) as (E1 & E2 & E3 & E4 & E5).
    split; [rewrite <- E1; apply attrs_of_rest; exact (R (f x))|]. split; [rewrite Oeq; exact E2|].
    split; [|split].
    + destruct (Nat.eq_dec x t) as [->|Nx].
      * rewrite Cp. unfold exp_par, pp_of. destruct (par (get h t)) as [p|]; [|reflexivity].
        pose proof (lt_idx_S_self a La) as Es. fold t in Es. rewrite Es. cbn [orb]. rewrite andb_true_r. reflexivity.
      * rewrite Dp by (intro E; apply Nx; apply (f_injective x t Hx Ht E)). rewrite E3.
        unfold exp_par. rewrite (lt_idx_S_other a x Hx La Nx). reflexivity.
    + rewrite (K (f x)), E4. unfold exp_kids. destruct (lt_idx b x) eqn:Eb.
      * rewrite without_map_f; [|exact Ht|].
        2:{ intros c Hc. apply in_app_or in Hc as [Hc|Hc].
            - apply filter_In in Hc as [Hc _]. apply (src_kid_mem x c Hx Hc).
            - apply filter_In in Hc as [Hc _]. apply (In_firstn_In _ _ _ Hc). }
        rewrite EffectProofs.without_app.
        rewrite (without_filter t _ (fun c => negb (lt_idx (Datatypes.S a) c)) (kids (get h x))).
        2:{ intros c Hc. rewrite (lt_idx_S a c (proj1 (src_kid_mem x c Hx Hc)) La). fold t.
            rewrite negb_orb. rewrite (Nat.eqb_sym t c). reflexivity. }
        rewrite (without_id t (filter (childof x) (firstn a mem))).
        2:{ intro Hin. apply filter_In in Hin as [Hin _]. exact (nth_notin_firstn a La Hin). }
        rewrite (firstn_S_nth mem a La). fold t. rewrite filter_app. cbn [filter].
        destruct (childof x t) eqn:Ec.
        -- apply childof_spec in Ec. rewrite (proj2 (onat_eqb_eq _ _) (proj2 (pp_eq_Some t x Hx) Ec)).
           rewrite !map_app. cbn [map]. rewrite <- !app_assoc. reflexivity.
        -- match goal with |- context [if ?c then _ else _] => assert (Eq : c = false) end.
           { match goal with |- ?c = false => destruct c eqn:E end; [|reflexivity]. apply onat_eqb_eq in E.
             apply (pp_eq_Some t x Hx) in E. apply childof_spec in E. congruence. }
           rewrite Eq, !app_nil_r. reflexivity.
      * cbn [without filter app].
        match goal with |- context [if ?c then _ else _] => assert (Eq : c = false) end.
        { match goal with |- ?c = false => destruct c eqn:E end; [|reflexivity]. apply onat_eqb_eq in E.
          apply (pp_eq_Some t x Hx) in E. pose proof (parent_before t x Ht Hx E) as Lp.
          pose proof (idx_nth_mem a La) as Ei. fold t in Ei. rewrite Ei in Lp. unfold lt_idx in Eb.
          apply Nat.ltb_ge in Eb. lia. }
        rewrite Eq. reflexivity.
    + intros d z. destruct (rest_fields _ _ (R (f x))) as (_ & _ & Fw). rewrite Fw. apply E5.
Qed.


(* ---- c.children = ... : the second counter ---- *)
Lemma exp_kids_undone a b x : lt_idx b x = false -> exp_kids a b x = [].
Proof. intro E. unfold exp_kids. rewrite E. reflexivity. Qed.

Lemma D_children S a b kk : WF S -> J S -> D a b kk S -> b < m -> a <= Datatypes.S b ->
  D a (Datatypes.S b) kk (set_children_write S (f (nth b mem 0)) (map f (kids (get h (nth b mem 0))))).
Proof.
  intros W HJ (D1 & D2 & D3) Lb Lab. set (t := nth b mem 0).
  assert (Ht : In t mem) by (apply nth_In; exact Lb).
  pose proof (idx_nth_mem b Lb) as It. fold t in It.
  pose proof W as (F & Pc & _).
  assert (Hk : forall c, In c (kids (get h t)) -> In c mem) by (intros c Hc; apply (src_kid_mem t c Ht Hc)).
  assert (Hr : forall v, In (Some v) (map Some (map f (kids (get h t)))) -> v < length (hp S)).
  { intros v Hv. apply (children_pubs S t HJ Ht v Hv). }
  pose proof (set_children_effect S (f t) _ _ F Pc (f_in_heap S HJ t Ht) Hr (children_call S t W HJ Ht))
    as (A & B & P & K & O & R). cbv zeta in *.
  rewrite value_id in P, K, O by (apply NoDup_map_f; [apply src_kids_nodup|exact Hk]).
  set (value := map f (kids (get h t))) in *.
  set (S' := set_children_write S (f t) value) in *.
  destruct (D3 t Ht) as (_ & Eot & _ & Ekt & _).
  rewrite (exp_kids_undone a b t (lt_idx_self b Lb)) in Ekt.
  assert (Erel : released (hp S) (f t) value = []) by (unfold released; rewrite Ekt; reflexivity).
  rewrite Erel in P. unfold inB in O. rewrite Erel, Eot in O. cbn [existsb memn] in P, O.
  assert (Hval : forall y, In y value <-> exists k, In k (kids (get h t)) /\ y = f k).
  { intro y. unfold value. rewrite in_map_iff. split; intros (k & X & Y); exists k; auto. }
  assert (Hvx : forall x, In x mem -> (memn (f x) value = true <-> In x (kids (get h t)))).
  { intros x Hx. rewrite memn_In, Hval. split; [|intro H0; exists x; auto].
    intros (k & Hkk & E). apply (f_injective x k Hx (Hk k Hkk)) in E. subst k. exact Hkk. }
  assert (Same : forall z, z <= n -> core (get (hp S') z) = core (get (hp S) z) /\
                                     forall d, fwd d (get (hp S') z) = fwd d (get (hp S) z)).
  { intros z Lz.
    assert (Nv : memn z value = false).
    { apply memn_false. intro Hin. apply Hval in Hin as (k & Hkk & ->). pose proof (f_lt k (Hk k Hkk)). lia. }
    apply core_intro; [| |apply O|exact (R z)].
    - rewrite (P z), Nv. reflexivity.
    - rewrite (K z). assert (Nz : Nat.eqb z (f t) = false) by (apply Nat.eqb_neq; pose proof (f_lt t Ht); lia).
      rewrite Nz. apply filter_id. intros c Hc. apply negb_true_iff, memn_false. intro Hin.
      apply Hval in Hin as (k & Hkk & ->). exact (no_copy_kid S z k W HJ Lz (Hk k Hkk) Hc). }
  unfold D. split; [|split].
  - intros y Ly. destruct (Same y (Nat.lt_le_incl _ _ Ly)) as [C Fw]. destruct (D1 y Ly) as [C1 F1].
    split; [rewrite C; exact C1|]. intro d. rewrite Fw. apply F1.
  - rewrite <- D2. destruct (Same n (Nat.le_refl _)) as [C Fw]. apply task_ext_cf; assumption.
  - intros x Hx. destruct (D3 x Hx) as (E1 & E2 & E3 & E4 & E5).
    split; [rewrite <- E1; apply attrs_of_rest; exact (R (f x))|]. split; [rewrite O; exact E2|].
    split; [|split].
    + rewrite (P (f x)). destruct (memn (f x) value) eqn:Ev.
      * apply (Hvx x Hx) in Ev. destruct (src_kid_mem t x Ht Ev) as [_ Ep]. unfold exp_par. rewrite Ep.
        pose proof (lt_idx_S_self b Lb) as Es. fold t in Es. rewrite Es, orb_true_r, andb_true_r.
        apply memn_In in Ht. rewrite Ht. reflexivity.
      * rewrite E3. unfold exp_par. destruct (par (get h x)) as [p|] eqn:Ep; [|reflexivity].
        destruct (memn p mem) eqn:Mp; [|reflexivity]. apply memn_In in Mp.
        rewrite (lt_idx_S_other b p Mp Lb); [reflexivity|]. fold t. intros ->.
        assert (X : memn (f x) value = true) by (apply (Hvx x Hx); apply src_pu; exact Ep). congruence.
    + rewrite (K (f x)). destruct (Nat.eqb (f x) (f t)) eqn:Ex.
      * apply Nat.eqb_eq in Ex. apply (f_injective x t Hx Ht) in Ex. subst x.
        unfold exp_kids. pose proof (lt_idx_S_self b Lb) as Es. fold t in Es. rewrite Es.
        rewrite filter_id.
        2:{ intros c Hc. apply negb_true_iff. unfold lt_idx. apply Nat.ltb_ge.
            destruct (src_kid_mem t c Ht Hc) as [Hcm Ep]. pose proof (parent_before c t Hcm Ht Ep). lia. }
        rewrite filter_nil; [rewrite app_nil_r; reflexivity|].
        intros c Hc. apply childof_false. intro Ep. pose proof (In_firstn_idx _ _ _ Hc) as L1.
        pose proof (parent_before c t (In_firstn_In _ _ _ Hc) Ht Ep). lia.
      * apply Nat.eqb_neq in Ex. assert (Nx : x <> t) by (intros ->; apply Ex; reflexivity).
        rewrite E4. unfold exp_kids. rewrite (lt_idx_S_other b x Hx Lb Nx).
        destruct (lt_idx b x); [|reflexivity]. apply filter_id. intros z Hz.
        apply negb_true_iff, memn_false. intro Hin. apply Hval in Hin as (k & Hkk & ->).
        apply in_map_iff in Hz as (c & Ec & Hc).
        assert (Hcm : In c mem /\ par (get h c) = Some x).
        { apply in_app_or in Hc as [Hc|Hc]; apply filter_In in Hc as [Hc Hg].
          - apply (src_kid_mem x c Hx Hc).
          - split; [apply (In_firstn_In _ _ _ Hc)|apply childof_spec; exact Hg]. }
        destruct Hcm as [Hcm Ep]. apply (f_injective c k Hcm (Hk k Hkk)) in Ec. subst c.
        destruct (src_kid_mem t k Ht Hkk) as [_ Ep']. congruence.
    + intros d z. destruct (rest_fields _ _ (R (f x))) as (_ & _ & Fw). rewrite Fw. apply E5.
Qed.


(* ---- c.predecessors = ... / c.successors = ... : the counter of direction d ---- *)
Definition bump (kk : bool -> nat) (d : bool) : bool -> nat :=
  fun d0 => if Bool.eqb d0 d then Datatypes.S (kk d) else kk d0.

Lemma bump_same kk d : bump kk d d = Datatypes.S (kk d).
Proof. unfold bump. rewrite Bool.eqb_reflx. reflexivity. Qed.

Lemma bump_other kk d : bump kk d (negb d) = kk (negb d).
Proof. unfold bump. destruct d; reflexivity. Qed.

Lemma outside_lv d t y : y < n -> (In y (lv d t) <-> outside y = true /\ In y (fwd d (get h t))).
Proof.
  intro Ly. rewrite lv_In. unfold outside. rewrite negb_true_iff, orb_false_iff, memn_false. split.
  - intros [(y0 & _ & Hm & E)|(H1 & H2 & H3)]; [pose proof (f_lt y0 Hm); lia|auto].
  - intros [[H2 H3] H1]. right. auto.
Qed.

Lemma copy_lv d t x : In x mem -> (In (f x) (lv d t) <-> In x (fwd d (get h t))).
Proof.
  intro Hx. rewrite lv_In. split.
  - intros [(y0 & Hy & Hm & E)|(H1 & _)].
    + apply (f_injective x y0 Hx Hm) in E. subst y0. exact Hy.
    + apply src_fwd_lt in H1. pose proof (f_lt x Hx). lia.
  - intro H0. left. exists x. auto.
Qed.

Lemma D_links S a b kk d : WF S -> J S -> D a b kk S -> kk d < m ->
  D a b (bump kk d) (set_links_write d S (f (nth (kk d) mem 0)) (lv d (nth (kk d) mem 0))).
Proof.
  intros W HJ (D1 & D2 & D3) Lk. set (k := kk d) in *. set (t := nth k mem 0).
  assert (Ht : In t mem) by (apply nth_In; exact Lk).
  pose proof W as (F & _ & _ & Sy & _).
  destruct (set_links_effect d S (f t) (lv d t) F Sy (f_in_heap S HJ t Ht)
              (fun v Hv => lv_lt S d t v HJ Hv) (lv_nodup d t)) as (A & B & Cf & Df & Bw & Co). cbv zeta in *.
  set (S' := set_links_write d S (f t) (lv d t)) in *.
  assert (Lt : n + 1 <= f t) by apply (f_lt t Ht).
  unfold D. split; [|split].
  - intros y Ly. destruct (D1 y Ly) as [C1 F1]. split; [rewrite (Co y); exact C1|].
    assert (Ny : y <> f t) by lia.
    intro d0. destruct (Bool.bool_dec d0 d) as [->|Nd].
    + rewrite (Df y Ny), bump_other. apply F1.
    + apply neq_negb in Nd. subst d0. rewrite Bool.negb_involutive, bump_same. rewrite <- bwd_fwd, (Bw y).
      rewrite bwd_fwd, (F1 (negb d)), Bool.negb_involutive. fold k.
      rewrite without_id.
      2:{ intro Hin. apply in_app_or in Hin as [Hin|Hin]; [apply src_fwd_lt in Hin; lia|].
          unfold old_extra in Hin. destruct (outside y); [|destruct Hin].
          apply in_map_iff in Hin as (x & E & Hx). apply filter_In in Hx as [Hx _].
          apply (f_injective x t (In_firstn_In _ _ _ Hx) Ht) in E. subst x. exact (nth_notin_firstn k Lk Hx). }
      rewrite <- app_assoc. f_equal. unfold old_extra. rewrite Bool.negb_involutive.
      rewrite (firstn_S_nth mem k Lk). fold t. rewrite filter_app, map_app. cbn [filter].
      destruct (outside y) eqn:Eo.
      * destruct (memn y (fwd d (get h t))) eqn:My.
        -- assert (X : memn y (lv d t) = true).
           { apply memn_In. apply (outside_lv d t y Ly). split; [exact Eo|apply memn_In; exact My]. }
           rewrite X. reflexivity.
        -- assert (X : memn y (lv d t) = false).
           { apply memn_false. intro Hin. apply (outside_lv d t y Ly) in Hin as [_ Hin]. apply memn_In in Hin. congruence. }
           rewrite X. reflexivity.
      * assert (X : memn y (lv d t) = false).
        { apply memn_false. intro Hin. apply (outside_lv d t y Ly) in Hin as [Hin _]. congruence. }
        rewrite X. reflexivity.
  - rewrite <- D2. apply task_ext_cf; [exact (Co n)|]. assert (Nn : n <> f t) by lia.
    intro d0. destruct (Bool.bool_dec d0 d) as [->|Nd]; [apply (Df n Nn)|].
    apply neq_negb in Nd. subst d0. rewrite <- !bwd_fwd, (Bw n). rewrite bwd_fwd, D2.
    assert (X : memn n (lv d t) = false).
    { apply memn_false. intro Hin. apply lv_In in Hin as [(y0 & _ & Hm & E)|(H1 & _)];
        [pose proof (f_lt y0 Hm); lia|apply src_fwd_lt in H1; lia]. }
    rewrite X. destruct d; reflexivity.
  - intros x Hx. destruct (D3 x Hx) as (E1 & E2 & E3 & E4 & E5).
    destruct (core_inv _ _ (Co (f x))) as (C1 & C2 & C3 & C4 & C5 & C6 & C7 & C8).
    split; [rewrite <- E1; apply attrs_of_core; exact (Co (f x))|]. split; [rewrite C4; exact E2|].
    split; [rewrite C2; exact E3|]. split; [rewrite C3; exact E4|].
    intros d0 z. destruct (Bool.bool_dec d0 d) as [->|Nd].
    + unfold exp_link. rewrite bump_same, bump_other. fold k. destruct (Nat.eq_dec x t) as [->|Nx].
      * rewrite Cf. pose proof (lt_idx_S_self k Lk) as Es. fold t in Es. rewrite Es. split; [auto|].
        intros [[_ H0]|(y & Hy & _ & Hf & ->)]; [exact H0|]. apply (copy_lv d t y Hy). exact Hf.
      * rewrite (Df (f x)) by (intro E; apply Nx; apply (f_injective x t Hx Ht E)).
        rewrite (E5 d z). unfold exp_link. fold k. rewrite (lt_idx_S_other k x Hx Lk Nx). reflexivity.
    + apply neq_negb in Nd. subst d0. rewrite <- bwd_fwd, (Bw (f x)). rewrite in_app_iff, AncLemmas.In_without.
      rewrite bwd_fwd, (E5 (negb d) z). unfold exp_link. rewrite Bool.negb_involutive, bump_same, bump_other. fold k.
      assert (Hsym : In (f x) (lv d t) <-> In t (fwd (negb d) (get h x))).
      { rewrite (copy_lv d t x Hx). split; intro H0.
        - apply (o_sym_d s HWF d t x H0).
        - pose proof (o_sym_d s HWF (negb d) x t H0) as X. rewrite Bool.negb_involutive in X. exact X. }
      split.
      * intros [[[Hl|(y & Hy & Ly & Hf & ->)] Nz]|Hr].
        -- left. exact Hl.
        -- right. exists y. split; [exact Hy|]. split; [|auto]. rewrite (lt_idx_S k y Hy Lk), Ly. reflexivity.
        -- destruct (memn (f x) (lv d t)) eqn:M; [|destruct Hr]. destruct Hr as [<-|[]].
           right. exists t. split; [exact Ht|]. split; [apply (lt_idx_S_self k Lk)|]. split; [|reflexivity].
           apply Hsym. apply memn_In. exact M.
      * intro Hrhs. destruct (Nat.eq_dec z (f t)) as [->|Nz].
        -- right. assert (Hin : In t (fwd (negb d) (get h x))).
           { destruct Hrhs as [[_ Hl]|(y & Hy & _ & Hf & E)].
             - apply (copy_lv (negb d) x t Ht). exact Hl.
             - apply (f_injective t y Ht Hy) in E. subst y. exact Hf. }
           apply Hsym in Hin. apply memn_In in Hin. rewrite Hin. left. reflexivity.
        -- left. split; [|exact Nz]. destruct Hrhs as [Hl|(y & Hy & Ly & Hf & ->)]; [left; exact Hl|].
           right. exists y. split; [exact Hy|]. split; [|auto].
           rewrite (lt_idx_S k y Hy Lk) in Ly. apply orb_true_iff in Ly as [Ly|Ly]; [exact Ly|].
           apply Nat.eqb_eq in Ly. fold t in Ly. subst y. exfalso. apply Nz. reflexivity.
Qed.


(* ================================================================== *)
(** * 7. the loop with the exact description *)

Lemma D_ext a b kk kk' S : (forall d, kk d = kk' d) -> D a b kk S -> D a b kk' S.
Proof.
  intros H (D1 & D2 & D3). split; [|split; [exact D2|]].
  - intros y Ly. destruct (D1 y Ly) as [C Fw]. split; [exact C|]. intro d. rewrite <- (H (negb d)). apply Fw.
  - intros x Hx. destruct (D3 x Hx) as (E1 & E2 & E3 & E4 & E5). repeat (split; [assumption|]).
    intros d z. unfold exp_link. rewrite <- (H d), <- (H (negb d)). apply E5.
Qed.

Lemma parent_call S t : WF S -> J S -> In t mem ->
  set_parent S (f t) (pp_of t) = (set_parent_write S (f t) (pp_of t), OK).
Proof. intros W HJ Ht. unfold set_parent. rewrite (parent_guard_ok S t W HJ Ht). reflexivity. Qed.

Lemma rebuild_one_D S k : WF S -> J S -> D k k (fun _ => k) S -> k < m ->
  exists S', rebuild_one f h w mem S (nth k mem 0) = (S', OK) /\ WF S' /\ J S' /\
             D (Datatypes.S k) (Datatypes.S k) (fun _ => Datatypes.S k) S'.
Proof.
  intros W HJ HD Lk. set (t := nth k mem 0). assert (Ht : In t mem) by (apply nth_In; exact Lk).
  unfold rebuild_one. rewrite (parent_arg S t HJ Ht).
  pose proof (step_parent S t W HJ Ht) as (_ & W1 & J1). rewrite (parent_call S t W HJ Ht) in W1, J1 |- *.
  cbn [fst] in W1, J1. rewrite andthen_pair.
  pose proof (D_parent S k k _ W HJ HD Lk (Nat.le_refl _)) as HD1. fold t in HD1.
  set (S1 := set_parent_write S (f t) (pp_of t)) in *.
  destruct (J_old S1 J1 t (mem_lt t Ht)) as (_ & Ek & _). rewrite Ek.
  assert (Fa : forallb (fun ch => memn ch mem) (kids (get h t)) = true).
  { apply forallb_forall. intros c Hc. apply memn_In. apply (src_kid_mem t c Ht Hc). }
  rewrite Fa. cbn [negb].
  pose proof (step_children S1 t W1 J1 Ht) as (_ & W2 & J2). rewrite (children_call S1 t W1 J1 Ht) in W2, J2 |- *.
  cbn [fst] in W2, J2. rewrite andthen_pair.
  pose proof (D_children S1 (Datatypes.S k) k _ W1 J1 HD1 Lk (Nat.le_refl _)) as HD2. fold t in HD2.
  set (S2 := set_children_write S1 (f t) (map f (kids (get h t)))) in *.
  pose proof (J_memfwd S2 J2 t true Ht) as Ep. cbn [fwd] in Ep. rewrite Ep.
  change (preds (get h t)) with (fwd true (get h t)). rewrite (dict_list_eq true t Ht).
  pose proof (step_links S2 true t W2 J2 Ht) as (_ & W3 & J3). unfold set_preds.
  rewrite (links_call S2 true t W2 J2 Ht) in W3, J3 |- *. cbn [fst] in W3, J3. rewrite andthen_pair.
  pose proof (D_links S2 _ _ (fun _ => k) true W2 J2 HD2 Lk) as HD3. cbv beta in HD3. fold t in HD3.
  set (S3 := set_links_write true S2 (f t) (lv true t)) in *.
  pose proof (J_memfwd S3 J3 t false Ht) as Es. cbn [fwd] in Es. rewrite Es.
  change (succs (get h t)) with (fwd false (get h t)). rewrite (dict_list_eq false t Ht).
  pose proof (step_links S3 false t W3 J3 Ht) as (_ & W4 & J4). unfold set_succs.
  rewrite (links_call S3 false t W3 J3 Ht) in W4, J4 |- *. cbn [fst] in W4, J4.
  assert (Lk' : bump (fun _ : bool => k) true false < m) by exact Lk.
  pose proof (D_links S3 _ _ (bump (fun _ => k) true) false W3 J3 HD3 Lk') as HD4.
  change (bump (fun _ : bool => k) true false) with k in HD4. fold t in HD4.
  eexists. split; [reflexivity|]. split; [exact W4|]. split; [exact J4|].
  eapply D_ext; [|exact HD4]. intros [|]; reflexivity.
Qed.

Lemma skipn_nth_cons (l : list nat) k : k < length l -> skipn k l = nth k l 0 :: skipn (Datatypes.S k) l.
Proof.
  revert k. induction l as [|a l IH]; intros k L; [cbn in L; lia|]. destruct k as [|k]; [reflexivity|].
  cbn [skipn nth]. apply IH. cbn in L. lia.
Qed.

Lemma loop_D j : forall k S, k + j = m -> WF S -> J S -> D k k (fun _ => k) S ->
  exists S', seq_calls (rebuild_one f h w mem) S (skipn k mem) = (S', OK) /\ WF S' /\ J S' /\ D m m (fun _ => m) S'.
Proof.
  induction j as [|j IH]; intros k S E W HJ HD.
  - assert (k = m) by lia. subst k. unfold m. rewrite skipn_all. exists S. cbn. auto.
  - assert (Lk : k < m) by lia. unfold m in Lk. rewrite (skipn_nth_cons mem k Lk). cbn [seq_calls].
    destruct (rebuild_one_D S k W HJ HD Lk) as (S1 & E1 & W1 & J1 & HD1). rewrite E1, andthen_pair.
    apply IH; try assumption. lia.
Qed.

Lemma lt_idx_0 x : lt_idx 0 x = false.
Proof. unfold lt_idx. apply Nat.ltb_ge. lia. Qed.

Lemma state0_D : D 0 0 (fun _ => 0) state0.
Proof.
  split; [|split].
  - intros y Ly. rewrite (state0_old y Ly). split; [reflexivity|]. intro d. unfold old_extra. cbn [firstn filter map].
    destruct (outside y); rewrite app_nil_r; reflexivity.
  - apply state0_root.
  - intros x Hx. rewrite (state0_copy x Hx). split; [reflexivity|]. split; [reflexivity|].
    split; [|split].
    + unfold exp_par. cbn [par blank_of]. destruct (par (get h x)) as [p|]; [|reflexivity].
      rewrite !lt_idx_0. cbn [orb]. rewrite andb_false_r. reflexivity.
    + unfold exp_kids. rewrite lt_idx_0. reflexivity.
    + intros d z. unfold exp_link. rewrite !lt_idx_0. split.
      * intro H0. destruct d; destruct H0.
      * intros [[X _]|(y & _ & X & _)]; discriminate.
Qed.

Lemma loop_all : exists S', seq_calls (rebuild_one f h w mem) state0 mem = (S', OK) /\ WF S' /\ J S' /\ D m m (fun _ => m) S'.
Proof. apply (loop_D m 0 state0 (Nat.add_0_l m) state0_WF state0_J state0_D). Qed.


(* ================================================================== *)
(** * 8. the final state is the state clone_sel describes *)

Lemma firstn_m : firstn m mem = mem.
Proof. apply firstn_all. Qed.

Lemma lt_idx_m x : In x mem -> lt_idx m x = true.
Proof. intro Hx. unfold lt_idx. apply Nat.ltb_lt. apply idx_lt. exact Hx. Qed.

Lemma exp_par_m x p : In x mem -> par (get h x) = Some p -> In p mem -> exp_par m m x = Some (f p).
Proof.
  intros Hx Ep Hp. unfold exp_par. rewrite Ep, (lt_idx_m x Hx). apply memn_In in Hp. rewrite Hp. reflexivity.
Qed.

Lemma exp_par_m_root x : In x roots -> exp_par m m x = None.
Proof.
  intro Hx. unfold exp_par. destruct (par (get h x)) as [p|] eqn:Ep; [|reflexivity].
  pose proof (root_par_notmem s sel HWF x p Hx Ep) as N. apply memn_false in N. fold mem in N. rewrite N. reflexivity.
Qed.

Lemma exp_kids_m x : In x mem -> exp_kids m m x = map f (kids (get h x)).
Proof.
  intro Hx. unfold exp_kids. rewrite (lt_idx_m x Hx), firstn_m, (children_in_preorder x Hx).
  rewrite filter_nil; [reflexivity|]. intros c Hc. rewrite (lt_idx_m c (proj1 (src_kid_mem x c Hx Hc))). reflexivity.
Qed.

Lemma exp_link_m d x z : In x mem -> (exp_link (fun _ => m) d x z <-> In z (lv d x)).
Proof.
  intro Hx. unfold exp_link. split.
  - intros [[_ H0]|(y & Hy & _ & Hf & ->)]; [exact H0|]. apply (copy_lv d x y Hy). exact Hf.
  - intro H0. left. split; [apply (lt_idx_m x Hx)|exact H0].
Qed.

Lemma anc_copy_fwd S : D m m (fun _ => m) S -> forall x r, Anc h x r -> In r mem -> Anc (hp S) (f x) (f r).
Proof.
  intros (_ & _ & D3) x r HA. induction HA as [x r Ep|x p r Ep HA IH]; intro Hr.
  - assert (Hx : In x mem) by (apply (m_down s sel HWF x r Hr); apply Anc_par; exact Ep).
    apply Anc_par. destruct (D3 x Hx) as (_ & _ & E3 & _). rewrite E3. apply exp_par_m; assumption.
  - assert (Hp : In p mem) by (apply (m_down s sel HWF p r Hr); exact HA).
    assert (Hx : In x mem) by (apply (m_down s sel HWF x p Hp); apply Anc_par; exact Ep).
    eapply Anc_up; [|apply IH; exact Hr]. destruct (D3 x Hx) as (_ & _ & E3 & _). rewrite E3. apply exp_par_m; assumption.
Qed.

Lemma core_mirror y : core (mirror h w mem y) = core (get h y).
Proof. unfold mirror. destruct (memn y mem || in_wbs h w y); reflexivity. Qed.

Lemma fwd_mirror d y : fwd d (mirror h w mem y) = fwd d (get h y) ++ old_extra m d y.
Proof.
  unfold mirror, old_extra, outside. rewrite firstn_m. destruct (memn y mem || in_wbs h w y); cbn [negb].
  - rewrite app_nil_r. reflexivity.
  - destruct d; reflexivity.
Qed.

Lemma task_eta T : T = mkT (tid T) (par T) (kids T) (preds T) (succs T) (own T) (hidden T) (prio T) (name T) (est T).
Proof. destruct T. reflexivity. Qed.

Lemma task_sim_refl T : task_sim T T.
Proof. unfold task_sim. repeat split; try reflexivity; apply Permutation_refl. Qed.

Theorem clone_impl_refines_sec : hid_ids s ->
  state_sim n (fst (clone_impl s w sel)) (fst (clone_sel s w sel)).
Proof.
  intro Hh. rewrite clone_impl_unfold. destruct loop_all as (S1 & E & W1 & J1 & HD). rewrite E, andthen_pair.
  rewrite (final_call S1 W1 J1 Hh). cbn [fst]. rewrite (clone_sel_eq s w sel HWF). cbn [fst].
  pose proof W1 as (F & Pc & _).
  assert (Ln : n < length (hp S1)) by (rewrite (J_len S1 J1); lia).
  assert (Hr : forall v, In (Some v) (map Some (map f roots)) -> v < length (hp S1)).
  { intros v Hv. apply (final_pubs S1 J1 v Hv). }
  pose proof (set_children_effect S1 n _ _ F Pc Ln Hr (final_call S1 W1 J1 Hh)) as (A & B & P & K & O & R).
  cbv zeta in *. rewrite value_id in P, K, O by (apply NoDup_map_f; [apply roots_nodup|apply roots_mem]).
  set (value := map f roots) in *. set (S2 := set_children_write S1 n value) in *.
  assert (W2 : WF S2).
  { pose proof (set_children_WF S1 n (map Some (map f roots)) W1 Ln (final_pubs S1 J1)) as X.
    rewrite (final_call S1 W1 J1 Hh) in X. exact X. }
  pose proof HD as (D1 & D2 & D3).
  assert (Erel : released (hp S1) n value = []) by (unfold released; rewrite D2; reflexivity).
  rewrite Erel in P. unfold inB in O. rewrite Erel, D2 in O. cbn [existsb memn own root0] in P, O.
  assert (Hval : forall y, In y value <-> exists r, In r roots /\ y = f r).
  { intro y. unfold value. rewrite in_map_iff. split; intros (k & X & Y); exists k; auto. }
  assert (Hvlt : forall v, In v value -> v < length (hp S1)).
  { intros v Hv. apply Hval in Hv as (r & Hr0 & ->). apply (f_in_heap S1 J1 r (roots_mem r Hr0)). }
  pose proof (fun z => inA_iff (hp S1) value z (S_acy S1 W1) Hvlt) as HA.
  assert (NA : forall z, z <= n -> inA (hp S1) value z = false).
  { intros z Lz. destruct (inA (hp S1) value z) eqn:Ei; [|reflexivity]. exfalso.
    apply HA in Ei as (v & Hv & Sv). apply Hval in Hv as (r & Hr0 & ->).
    destruct (sub_copy_inv S1 J1 r z (roots_mem r Hr0) Sv) as (y & Hy & -> & _). pose proof (f_lt y Hy). lia. }
  assert (YA : forall x, In x mem -> inA (hp S1) value (f x) = true).
  { intros x Hx. apply HA. apply (m_In s sel HWF) in Hx as (r & Hr0 & Sr). exists (f r).
    split; [apply Hval; exists r; auto|]. destruct Sr as [->|An]; [apply Sub_refl|]. right.
    apply (anc_copy_fwd S1 HD x r An (roots_mem r Hr0)). }
  assert (Nv : forall z, z <= n -> memn z value = false).
  { intros z Lz. apply memn_false. intro Hin. apply Hval in Hin as (r & Hr0 & ->). pose proof (f_lt r (roots_mem r Hr0)). lia. }
  assert (Hvx : forall x, In x mem -> (memn (f x) value = true <-> In x roots)).
  { intros x Hx. rewrite memn_In, Hval. split; [|intro H0; exists x; auto].
    intros (r & Hr0 & E0). apply (f_injective x r Hx (roots_mem r Hr0)) in E0. subst r. exact Hr0. }
  (* the old objects *)
  assert (Old : forall y, y < n -> get (hp S2) y = mirror h w mem y).
  { intros y Ly. destruct (D1 y Ly) as [C1 F1].
    assert (X : core (get (hp S2) y) = core (get (hp S1) y) /\ forall d, fwd d (get (hp S2) y) = fwd d (get (hp S1) y)).
    { apply core_intro; [| | |exact (R y)].
      - rewrite (P y), (Nv y (Nat.lt_le_incl _ _ Ly)). reflexivity.
      - rewrite (K y). assert (Ny : Nat.eqb y n = false) by (apply Nat.eqb_neq; lia). rewrite Ny.
        apply filter_id. intros c Hc. apply negb_true_iff, memn_false. intro Hin.
        apply Hval in Hin as (r & Hr0 & ->). exact (no_copy_kid S1 y r W1 J1 (Nat.lt_le_incl _ _ Ly) (roots_mem r Hr0) Hc).
      - rewrite (O y), (NA y (Nat.lt_le_incl _ _ Ly)). reflexivity. }
    destruct X as [C2 F2]. apply task_ext_cf.
    - rewrite C2, C1, core_mirror. reflexivity.
    - intro d. rewrite F2, F1, fwd_mirror. reflexivity. }
  (* the hidden root of the new WBS *)
  assert (Root : get (hp S2) n = new_root h (length (wroots s)) mem roots).
  { rewrite (task_eta (get (hp S2) n)). pose proof (R n) as Rn. rewrite D2 in Rn.
    destruct (ChildrenProofsWrite.rest_inv _ _ Rn) as (r1 & r2 & r3 & r4 & r5 & r6 & r7).
    rewrite r1, r2, r3, r4, r5, r6, r7.
    rewrite (P n), (Nv n (Nat.le_refl _)), (K n), Nat.eqb_refl, (O n), (NA n (Nat.le_refl _)), D2.
    reflexivity. }
  (* the copies *)
  assert (Copy : forall x, In x mem -> task_sim (get (hp S2) (f x)) (copy_of h w (length (wroots s)) mem x)).
  { intros x Hx. destruct (D3 x Hx) as (E1 & E2 & E3 & E4 & E5).
    pose proof (R (f x)) as Rx. apply attrs_of_rest in Rx. rewrite E1 in Rx. unfold attrs, blank_of in Rx.
    cbn [tid hidden prio name est] in Rx. injection Rx; intros X5 X4 X3 X2 X1.
    destruct (rest_fields _ _ (R (f x))) as (_ & _ & Fw).
    assert (PermL : forall d, Permutation (fwd d (get (hp S2) (f x))) (lv d x)).
    { intro d. apply NoDup_Permutation.
      - destruct W2 as (_ & _ & _ & [_ Nd] & _). destruct (Nd (f x)) as [N1 N2]. destruct d; assumption.
      - apply lv_nodup.
      - intro z. rewrite Fw, (E5 d z). apply exp_link_m. exact Hx. }
    unfold task_sim, copy_of. cbn [tid par kids preds succs own hidden prio name est].
    split; [exact X1|]. split; [|split; [|split; [apply (PermL true)|split; [apply (PermL false)|]]]].
    - rewrite (P (f x)). destruct (memn (f x) value) eqn:Ev.
      + apply (Hvx x Hx) in Ev. destruct (par (get h x)) as [p|] eqn:Ep; [|reflexivity].
        pose proof (root_par_notmem s sel HWF x p Ev Ep) as N. apply memn_false in N. fold mem in N. rewrite N. reflexivity.
      + assert (Nr : ~ In x roots) by (intro H0; apply (Hvx x Hx) in H0; congruence).
        destruct (nonroot_par_mem s sel HWF x Hx Nr) as (p & Ep & Hp). fold h in Ep. fold mem in Hp.
        rewrite E3, (exp_par_m x p Hx Ep Hp), Ep. apply memn_In in Hp. rewrite Hp. reflexivity.
    - rewrite (K (f x)). assert (Nx : Nat.eqb (f x) n = false) by (apply Nat.eqb_neq; pose proof (f_lt x Hx); lia).
      rewrite Nx, E4, (exp_kids_m x Hx). apply filter_id. intros z Hz. apply negb_true_iff, memn_false. intro Hin.
      apply Hval in Hin as (r & Hr0 & ->). apply in_map_iff in Hz as (c & Ec & Hc).
      destruct (src_kid_mem x c Hx Hc) as [Hcm Ep]. apply (f_injective c r Hcm (roots_mem r Hr0)) in Ec. subst c.
      exact (root_par_notmem s sel HWF r x Hr0 Ep Hx).
    - split; [rewrite (O (f x)), (YA x Hx); reflexivity|]. split; [exact X2|]. split; [exact X3|]. split; [exact X4|exact X5]. }
  unfold state_sim. cbn [hp wroots]. split; [|split; [|split]].
  - rewrite A. apply J1.
  - rewrite B, (J_len S1 J1), (n_len s w sel). reflexivity.
  - intros y Ly. destruct (Nat.eq_dec y n) as [->|Ny].
    + rewrite Root. symmetry. apply (n_root s w sel).
    + assert (Ly' : y < n) by lia. rewrite (Old y Ly'). symmetry. apply (n_old s w sel y Ly').
  - intro y. destruct (Nat.lt_ge_cases y (n + 1 + m)) as [L|G].
    + destruct (classify3 y L) as [La|[->|[x [Hx ->]]]].
      * rewrite (Old y La), (n_old s w sel y La). apply task_sim_refl.
      * rewrite Root. unfold n. rewrite (n_root s w sel). apply task_sim_refl.
      * unfold f, n, mem. rewrite (n_copy s w sel x Hx). apply Copy. exact Hx.
    + rewrite (get_out (hp S2)) by (rewrite B, (J_len S1 J1); exact G).
      rewrite get_out by (rewrite (n_len s w sel); exact G). apply task_sim_refl.
Qed.

End Impl.

(* C10_impl_accepts: on a well-formed state no setter call of the rebuild rejects: clone() / subtree() do not raise *)
Theorem clone_impl_accepts s w sel : WF s -> hid_ids s -> sel_ok s w sel -> snd (clone_impl s w sel) = OK.
Proof. intros W Hh Hs. apply clone_impl_accepts_sec; assumption. Qed.

(* ================================================================== *)
(** * 9. the theorems, for every state *)

(* C10_impl_refines: the state the sequence of setter calls produces is the state clone_sel describes: every old
   object and the new hidden root are identical, a copy differs at most in the ORDER of its dependency lists *)
Theorem clone_impl_refines s w sel : WF s -> hid_ids s -> sel_ok s w sel ->
  state_sim (length (hp s)) (fst (clone_impl s w sel)) (fst (clone_sel s w sel)).
Proof. intros W Hh Hs. apply clone_impl_refines_sec; assumption. Qed.

Theorem clone_impl_WF s w sel : WF s -> hid_ids s -> sel_ok s w sel -> WF (fst (clone_impl s w sel)).
Proof. intros W Hh Hs. apply clone_impl_WF_sec; assumption. Qed.

(* hid_ids looks at ids and the WBS table only *)
Lemma hid_ids_sim n s1 s2 : state_sim n s1 s2 -> hid_ids s2 -> hid_ids s1.
Proof.
  intros (Ew & _ & _ & Es) H r Hr. rewrite Ew in Hr. destruct (Es r) as (E & _). rewrite E. apply H. exact Hr.
Qed.

Theorem clone_impl_hid_ids s w sel : WF s -> hid_ids s -> sel_ok s w sel -> hid_ids (fst (clone_impl s w sel)).
Proof.
  intros W Hh Hs. eapply hid_ids_sim; [apply clone_impl_refines; assumption|].
  apply (clone_sel_WF s w sel W Hh Hs).
Qed.

(* the declarative statement compares dependency links as sets and the old objects exactly: it transfers *)
Lemma perm_In {A} (l l' : list A) x : Permutation l l' -> (In x l <-> In x l').
Proof. intro P. split; [apply Permutation_in; exact P|apply Permutation_in; apply Permutation_sym; exact P]. Qed.

Lemma CloneSpec_sim s w roots mem s1 s2 w' new :
  state_sim (length (hp s)) s1 s2 ->
  CloneSpec s w roots mem s2 w' new -> CloneSpec s w roots mem s1 w' new.
Proof.
  intros (Ew & El & Eo & Es) (H1 & H2 & H3 & H4 & H5 & H6 & H7).
  assert (ER : wroot s1 w' = wroot s2 w') by (unfold wroot; rewrite Ew; reflexivity).
  assert (Tid : forall y, tid (get (hp s1) y) = tid (get (hp s2) y)) by (intro y; apply (Es y)).
  assert (Par : forall y, par (get (hp s1) y) = par (get (hp s2) y)) by (intro y; apply (Es y)).
  assert (Kid : forall y, kids (get (hp s1) y) = kids (get (hp s2) y)) by (intro y; apply (Es y)).
  assert (Own : forall y, own (get (hp s1) y) = own (get (hp s2) y)) by (intro y; apply (Es y)).
  assert (Hid : forall y, hidden (get (hp s1) y) = hidden (get (hp s2) y)) by (intro y; apply (Es y)).
  assert (Pri : forall y, prio (get (hp s1) y) = prio (get (hp s2) y)) by (intro y; apply (Es y)).
  assert (Nam : forall y, name (get (hp s1) y) = name (get (hp s2) y)) by (intro y; apply (Es y)).
  assert (Est : forall y, est (get (hp s1) y) = est (get (hp s2) y)) by (intro y; apply (Es y)).
  assert (Pp : forall y, Permutation (preds (get (hp s1) y)) (preds (get (hp s2) y))) by (intro y; apply (Es y)).
  assert (Ps : forall y, Permutation (succs (get (hp s1) y)) (succs (get (hp s2) y))) by (intro y; apply (Es y)).
  unfold CloneSpec. split; [|split; [|split; [|split; [|split; [|split]]]]].
  - unfold sp_wbs in *. rewrite ER, Ew, Hid, Par, Own, Tid. destruct H1 as (A1 & A2 & A3 & A4 & A5 & A6 & A7 & A8 & A9).
    repeat (split; [assumption|]). split; [|split; [|assumption]].
    + apply Permutation_nil. rewrite <- A7. apply Permutation_sym. apply Pp.
    + apply Permutation_nil. rewrite <- A8. apply Permutation_sym. apply Ps.
  - unfold sp_bij in *. rewrite ER, El. exact H2.
  - unfold sp_fields, same_fields in *. intros x Hx. rewrite Tid, Pri, Nam, Est, Own, Hid. apply (H3 x Hx).
  - unfold sp_tree in *. rewrite ER, Kid. destruct H4 as [A1 A2]. split; [exact A1|].
    intros x Hx. rewrite Kid, Par. apply (A2 x Hx).
  - unfold sp_links in *. intros x Hx. destruct (H5 x Hx) as (A1 & A2 & A3 & A4).
    split; [eapply Permutation_NoDup; [apply Permutation_sym; apply Pp|exact A1]|].
    split; [eapply Permutation_NoDup; [apply Permutation_sym; apply Ps|exact A2]|].
    split; intros y Hy.
    + rewrite (perm_In _ _ _ (Pp _)). apply (A3 y Hy).
    + rewrite (perm_In _ _ _ (Ps _)). apply (A4 y Hy).
  - unfold sp_outside in *. intros x Hx. destruct (H6 x Hx) as (A1 & A2). split.
    + intros z Hz. apply A1. apply in_app_or in Hz. apply in_or_app.
      destruct Hz as [Hz|Hz]; [left; apply (perm_In _ _ _ (Pp _)); exact Hz|right; apply (perm_In _ _ _ (Ps _)); exact Hz].
    + intros z Lz Hw Nm. rewrite (perm_In _ _ _ (Pp _)), (perm_In _ _ _ (Ps _)). apply (A2 z Lz Hw Nm).
  - unfold sp_source in *. rewrite El. destruct H7 as [A1 A2]. split; [exact A1|].
    intros y Ly. cbv zeta. rewrite (Eo y (Nat.lt_le_incl _ _ Ly)). apply (A2 y Ly).
Qed.

(* C10_impl_spec: the declarative statement CloneSpec holds of the state the CODE-MIRRORING model produces; the tasks
   of the new WBS (WBS.tasks order) are the copies in the order of the members *)
Lemma pref_sim fuel : forall s1 s2 x, (forall y, kids (get (hp s1) y) = kids (get (hp s2) y)) ->
  pref fuel (hp s1) x = pref fuel (hp s2) x.
Proof.
  induction fuel as [|fuel IH]; intros s1 s2 x Hk.
  - cbn [pref]. rewrite Hk. reflexivity.
  - rewrite !pref_S, Hk. apply pref_list_ext. intros c _. apply IH. exact Hk.
Qed.

Theorem clone_impl_spec s w sel : WF s -> hid_ids s -> sel_ok s w sel ->
  let s' := fst (clone_impl s w sel) in let w' := snd (clone_sel s w sel) in
  exists mem new,
    members (hp s) sel = Some mem /\ wbs_tasks s' w' = Ok new /\
    CloneSpec s w (sel_roots (hp s) sel) mem s' w' new.
Proof.
  intros W Hh Hs. cbv zeta. destruct (clone_sel_spec s w sel W Hs) as (mem & new & Hm & Ht & Hc). cbv zeta in *.
  pose proof (clone_impl_refines s w sel W Hh Hs) as Sim.
  exists mem, new. split; [exact Hm|]. split; [|eapply CloneSpec_sim; eassumption].
  rewrite <- Ht. destruct Sim as (Ew & El & _ & Es). unfold wbs_tasks, all_children, wroot. rewrite Ew, El.
  rewrite (pref_sim _ (fst (clone_impl s w sel)) (fst (clone_sel s w sel))); [reflexivity|].
  intro y. apply (Es y).
Qed.

Theorem clone_impl_WF_hid s w sel : WF s -> hid_ids s -> sel_ok s w sel ->
  WF (fst (clone_impl s w sel)) /\ hid_ids (fst (clone_impl s w sel)).
Proof. intros W Hh Hs. split; [apply clone_impl_WF|apply clone_impl_hid_ids]; assumption. Qed.

(* clone() = __clone(self.roots) *)
Theorem clone_impl_all_accepts s w : WF s -> hid_ids s -> w < length (wroots s) -> snd (clone_impl_all s w) = OK.
Proof.
  intros W Hh Lw. destruct (wf_tasks_total s w W) as [l Hl].
  destruct (clone_is_all s w l W Lw Hl) as [Hs _]. apply clone_impl_accepts; assumption.
Qed.
