(* Graph/CloneIndep.v - "later changes to either side do not show on the other" (C10, independence).

   Generic part (any well-formed state, no clone involved).  Let B be a set of objects that is a union of whole
   trees (closedB: closed under parent and children) and let the call name only objects outside B that are not
   linked with B (clear).  Then the call leaves every object of B exactly as it was - all fields
   (frameB_step, for every operation kind).  The proof composes the C16 frames of the three setters
   (Graph/FrameProofs.v), the facade identities (frame_derived), C15 atomicity (a raising call changes nothing)
   and, for the loops (remove_all, task-list operators, the constructor with relations), the WF-preservation
   theorems of the operation files.

   Clone part.  After clone_sel the tasks of the source WBS and the tasks of the new WBS are two such sets and no
   dependency link joins them (CloneWF.clone_no_cross): an operation that names only tasks of one side leaves
   every task of the other side unchanged (c10_indep).  Tasks outside both WBSs are shared by design. *)
From Coq Require Import Arith PeanoNat.
From PJ Require Import Base.Prelude Graph.Model Graph.Invariant Graph.AncLemmas Graph.AncLemmas2 Graph.DepLemmas
                       Graph.Clone Graph.CloneCheck Graph.CloneProofs Graph.CloneWF.
From PJ Require Graph.EffectProofs Graph.FrameProofs Graph.StepProofs Graph.ParentProofs Graph.ParentOps
                Graph.LinksProofs Graph.LinksOps Graph.ChildrenOps.
Local Open Scope nat_scope.

Lemma task_ext (A C : task) :
  tid A = tid C -> par A = par C -> kids A = kids C -> preds A = preds C -> succs A = succs C ->
  own A = own C -> hidden A = hidden C -> prio A = prio C -> name A = name C -> est A = est C -> A = C.
Proof. destruct A, C; simpl; intros; subst; reflexivity. Qed.

Lemma In_Some_app_map {A} (l : list A) vs v : In (Some v) (map Some l ++ vs) <-> In v l \/ In (Some v) vs.
Proof.
  rewrite in_app_iff, in_map_iff. split.
  - intros [[x [E Hx]]|H]; [left; inversion E; subst; exact Hx | right; exact H].
  - intros [H|H]; [left; exists v; auto | right; exact H].
Qed.

Lemma oklist_map_Some s l : (forall c, In c l -> c < length (hp s)) -> oklist s (map Some l) = true.
Proof.
  intro H. unfold oklist. apply forallb_forall. intros o Ho. apply in_map_iff in Ho as [c [<- Hc]].
  simpl. unfold okobj. apply Nat.ltb_lt. apply H. exact Hc.
Qed.

Lemma oklist_app s a b : oklist s a = true -> oklist s b = true -> oklist s (a ++ b) = true.
Proof. unfold oklist. intros Ha Hb. rewrite forallb_app, Ha, Hb. reflexivity. Qed.

Lemma step_ok_to s o o' s' :
  step s o = (s', OK) -> step' s o = step' s o' -> args_ok s o' = true -> step s o' = (s', OK).
Proof.
  intros E Heq A. apply EffectProofs.step_ok_inv in E as [_ E]. unfold step. rewrite A, <- Heq. exact E.
Qed.

Lemma get_app_old h T y : y < length h -> get (h ++ [T]) y = get h y.
Proof. intro H. unfold get. apply app_nth1. exact H. Qed.

Lemma set_kids_other s o l x : x <> o -> get (hp (set_kids s o l)) x = get (hp s) x.
Proof. intro N. unfold set_kids. simpl. apply get_upd_other. congruence. Qed.

Lemma upd_other_get s t g x : x <> t -> get (upd (hp s) t g) x = get (hp s) x.
Proof. intro N. apply get_upd_other. congruence. Qed.

(* ================================================================== *)
(** * 1. the generic frame *)
Section FrameB.
Variable B : obj -> Prop.

Definition closedB (s : state) : Prop :=
  forall y, B y -> y < length (hp s) /\
                   (forall q, par (get (hp s) y) = Some q -> B q) /\
                   (forall c, In c (kids (get (hp s) y)) -> B c).

Definition linkfree (s : state) (t : obj) : Prop :=
  forall y, B y -> ~ In t (preds (get (hp s) y)) /\ ~ In t (succs (get (hp s) y)).

(* what the call may name: objects outside B that are not linked with B; WBSs whose hidden root is outside B *)
Definition clear (s : state) (o : op) : Prop :=
  (forall t, In t (named o) -> ~ B t /\ linkfree s t) /\
  (forall w, In w (op_wbs o) -> ~ B (wroot s w)).

Definition unchangedB (s s' : state) : Prop := forall y, B y -> get (hp s') y = get (hp s) y.

Lemma unchangedB_refl s : unchangedB s s.
Proof. intros y _. reflexivity. Qed.

Lemma unchangedB_trans s1 s2 s3 : unchangedB s1 s2 -> unchangedB s2 s3 -> unchangedB s1 s3.
Proof. intros H1 H2 y By. rewrite (H2 y By). apply H1. exact By. Qed.

Lemma closedB_keep s s' : length (hp s) <= length (hp s') -> unchangedB s s' -> closedB s -> closedB s'.
Proof.
  intros L U C y By. rewrite (U y By). destruct (C y By) as (C1 & C2 & C3). split; [lia|]. split; assumption.
Qed.

Lemma linkfree_keep s s' t : unchangedB s s' -> linkfree s t -> linkfree s' t.
Proof. intros U Lf y By. rewrite (U y By). apply Lf. exact By. Qed.

Section OneState.
Variable s : state.
Hypothesis W : WF s.
Hypothesis C : closedB s.
Let h := hp s.

Lemma B_lt y : B y -> y < length (hp s).
Proof. intro By. apply (C y By). Qed.

Lemma B_par c q : par (get h c) = Some q -> (B c <-> B q).
Proof.
  intro Hp. split; intro H.
  - destruct (C c H) as (_ & C2 & _). apply C2. exact Hp.
  - destruct (C q H) as (_ & _ & C3). apply C3. destruct W as (_ & (Hpc & _) & _). apply Hpc. exact Hp.
Qed.

Lemma B_anc x a : Anc h x a -> (B x <-> B a).
Proof.
  induction 1 as [x p Hp | x p a Hp Ha IH]; [apply B_par; exact Hp|].
  rewrite (B_par x p Hp). exact IH.
Qed.

Lemma B_sub t x : Sub h t x -> (B x <-> B t).
Proof. intros [->|HA]; [reflexivity | apply B_anc; exact HA]. Qed.

Lemma B_kid_not o c : ~ B o -> In c (kids (get h o)) -> ~ B c.
Proof.
  intros N Hc Bc. apply N. destruct W as (_ & (Hpc & _) & _). apply Hpc in Hc. apply (B_par c o Hc). exact Bc.
Qed.

Lemma B_partner_not d t z : linkfree s t -> In z (fwd d (get h t)) -> ~ B z.
Proof.
  intros Lf Hz Bz. destruct (Lf z Bz) as [L1 L2]. destruct W as (_ & _ & _ & (Hs & _) & _).
  destruct d; simpl in Hz.
  - apply L2. apply Hs. exact Hz.
  - apply L1. apply Hs. exact Hz.
Qed.

Lemma B_wroot_of t w0 : t < length (hp s) -> ~ B t -> own (get h t) = Some w0 -> ~ B (nth w0 (wroots s) 0).
Proof.
  intros Lt N Ho Br. apply N. destruct W as (_ & _ & _ & _ & _ & _ & _ & _ & Hown).
  apply (Hown t w0 Lt) in Ho as [_ [[E|HA] _]]; [rewrite E; exact Br | apply (B_anc _ _ HA); exact Br].
Qed.

Lemma B_task_not w0 l q : ~ B (wroot s w0) -> wbs_tasks s w0 = Ok l -> In q (wroot s w0 :: l) -> ~ B q.
Proof.
  intros N Hl [<-|Hq]; [exact N|]. unfold wbs_tasks in Hl. apply all_children_Ok_desc in Hl. subst l.
  apply desc_In_Anc in Hq; [|apply I_pc_pc_down, W | apply W]. intro Bq. apply N. apply (B_anc _ _ Hq). exact Bq.
Qed.

(* ---- the three setters ---- *)
Lemma frameB_set_parent t p s' :
  step s (SetParent t p) = (s', OK) -> ~ B t -> (forall p', p = Some p' -> ~ B p') -> unchangedB s s'.
Proof.
  intros E Nt Np y By.
  destruct (FrameProofs.step_set_parent_inv s t p s' E) as (Lt & _).
  destruct (FrameProofs.frame_set_parent s t p s' W E) as (_ & _ & F). cbv zeta in F.
  destruct (F y) as (Fp & Fk & Fo & F1 & F2 & F3 & F4 & F5 & F6 & F7).
  assert (Nyt : y <> t) by (intros ->; exact (Nt By)).
  apply task_ext; try assumption.
  - apply Fp. exact Nyt.
  - apply Fk.
    + intro Hp. apply Nt. apply (B_par t y Hp). exact By.
    + unfold ParentProofs.eff_par. destruct p as [p'|].
      * intro E'. inversion E'. subst p'. exact (Np y eq_refl By).
      * destruct (own (get (hp s) t)) as [w0|] eqn:Ho; [|discriminate].
        intro E'. inversion E' as [E2]. apply (B_wroot_of t w0 Lt Nt Ho). rewrite E2. exact By.
  - apply Fo. intro HS. apply Nt. apply (B_sub t y HS). exact By.
Qed.

Lemma frameB_set_children t vs s' :
  step s (SetChildren t vs) = (s', OK) -> ~ B t -> (forall v, In (Some v) vs -> ~ B v) -> unchangedB s s'.
Proof.
  intros E Nt Nv y By.
  destruct (FrameProofs.frame_set_children s t vs s' W E) as (_ & _ & Fp & _ & Fk & Fo & Fr). cbv zeta in *.
  destruct (Fr y) as (F1 & F2 & F3 & F4 & F5 & F6 & F7).
  assert (Nyt : y <> t) by (intros ->; exact (Nt By)).
  assert (Nval : forall v, In v (dedup (somes vs)) -> ~ B v).
  { intros v Hv. apply (proj1 (In_dedup _ _)) in Hv. apply (proj1 (In_somes _ _)) in Hv. apply Nv. exact Hv. }
  apply task_ext; try assumption.
  - apply Fp.
    + intro Hv. exact (Nval y Hv By).
    + intros [Hk _]. exact (B_kid_not t y Nt Hk By).
  - apply Fk; [exact Nyt|]. intros c Hc Hv. destruct (C y By) as (_ & _ & C3). exact (Nval c Hv (C3 c Hc)).
  - apply Fo.
    + intros [v [Hv HS]]. apply (Nv v Hv). apply (B_sub v y HS). exact By.
    + intros [c [Hc [_ HS]]]. apply (B_kid_not t c Nt Hc). apply (B_sub c y HS). exact By.
Qed.

Lemma frameB_set_links d t vs s' :
  step s (SetLinks d t vs) = (s', OK) -> ~ B t -> linkfree s t -> (forall v, In (Some v) vs -> ~ B v) ->
  unchangedB s s'.
Proof.
  intros E Nt Lf Nv y By.
  destruct (FrameProofs.frame_set_links d s t vs s' W E) as (_ & _ & F). cbv zeta in F.
  destruct (F y) as (Ff & Fb & F1 & F2 & F3 & F4 & F5 & F6 & F7 & F8).
  assert (Nyt : y <> t) by (intros ->; exact (Nt By)).
  assert (Ef : fwd d (get (hp s') y) = fwd d (get (hp s) y)) by (apply Ff; exact Nyt).
  assert (Eb : bwd d (get (hp s') y) = bwd d (get (hp s) y)).
  { apply Fb.
    - intro Hv. apply (proj1 (In_dedup _ _)) in Hv. apply (proj1 (In_somes _ _)) in Hv. exact (Nv y Hv By).
    - intro Hv. exact (B_partner_not d t y Lf Hv By). }
  apply task_ext; try assumption; destruct d; simpl in Ef, Eb; assumption.
Qed.

(* ---- derived single calls ---- *)
Lemma kids_lt o c : In c (kids (get h o)) -> c < length (hp s).
Proof. apply (dl_fin_kids s o c). apply W. Qed.

Lemma fwd_lt d t z : In z (fwd d (get h t)) -> z < length (hp s).
Proof. destruct W as (F & _). destruct d; [apply (dl_fin_preds s t z F) | apply (dl_fin_succs s t z F)]. Qed.

Lemma frameB_ch_remove o t :
  ~ B o -> unchangedB s (fst (ch_remove s o (Some t))).
Proof.
  intro No. unfold ch_remove. cbv zeta. destruct (memn t (kids (get (hp s) o))) eqn:M; [|apply unchangedB_refl].
  apply memn_In in M. pose proof (kids_In_lt _ _ _ M) as Lo.
  set (vs := map Some (without t (kids (get (hp s) o)))).
  destruct (set_children s o vs) as [s1 r] eqn:E. destruct r as [[]| |c].
  - simpl. apply (frameB_set_children o vs s1); [|exact No|].
    + assert (Ok : oklist s vs = true).
      { unfold vs. apply oklist_map_Some. intros c Hc. apply (proj1 (In_without _ _ _)) in Hc as [Hc _]. apply (kids_lt o c Hc). }
      unfold step. cbn [args_ok step']. unfold okobj. apply Nat.ltb_lt in Lo. rewrite Lo, Ok. exact E.
    + intros v Hv. unfold vs in Hv. apply in_map_iff in Hv as [c [Ec Hc]]. inversion Ec; subst c.
      apply (proj1 (In_without _ _ _)) in Hc as [Hc _]. apply (B_kid_not o v No Hc).
  - unfold set_children, mk in E. destruct (set_children_guard _ _ _) as [[]| |]; inversion E; apply unchangedB_refl.
  - unfold set_children, mk in E. destruct (set_children_guard _ _ _) as [[]| |]; inversion E; apply unchangedB_refl.
Qed.

Lemma set_links_fail d t vs : snd (set_links d s t vs) <> OK -> fst (set_links d s t vs) = s.
Proof.
  unfold set_links, mk. destruct (set_links_guard _ _ _ _) as [[]| |]; simpl; [intro H; exfalso; apply H|..]; reflexivity.
Qed.

Lemma set_children_fail t vs : snd (set_children s t vs) <> OK -> fst (set_children s t vs) = s.
Proof.
  unfold set_children, mk. destruct (set_children_guard _ _ _) as [[]| |]; simpl; [intro H; exfalso; apply H|..]; reflexivity.
Qed.

Lemma set_parent_fail t p : snd (set_parent s t p) <> OK -> fst (set_parent s t p) = s.
Proof.
  unfold set_parent, mk. destruct (set_parent_guard _ _ _) as [[]| |]; simpl; [intro H; exfalso; apply H|..]; reflexivity.
Qed.

(* the setters as functions (no [step] around them): ranges given explicitly *)
Lemma frameB_set_links_fn d t vs :
  t < length (hp s) -> oklist s vs = true -> ~ B t -> linkfree s t -> (forall v, In (Some v) vs -> ~ B v) ->
  unchangedB s (fst (set_links d s t vs)).
Proof.
  intros Lt Ok Nt Lf Nv. destruct (set_links d s t vs) as [s1 r] eqn:E. destruct r as [[]| |c].
  - simpl. apply (frameB_set_links d t vs s1); try assumption.
    unfold step. cbn [args_ok step']. unfold okobj. apply Nat.ltb_lt in Lt. rewrite Lt, Ok. exact E.
  - pose proof (set_links_fail d t vs) as X. rewrite E in X. simpl in X. rewrite X by discriminate. apply unchangedB_refl.
  - pose proof (set_links_fail d t vs) as X. rewrite E in X. simpl in X. rewrite X by discriminate. apply unchangedB_refl.
Qed.

Lemma frameB_set_children_fn t vs :
  t < length (hp s) -> oklist s vs = true -> ~ B t -> (forall v, In (Some v) vs -> ~ B v) ->
  unchangedB s (fst (set_children s t vs)).
Proof.
  intros Lt Ok Nt Nv. destruct (set_children s t vs) as [s1 r] eqn:E. destruct r as [[]| |c].
  - simpl. apply (frameB_set_children t vs s1); try assumption.
    unfold step. cbn [args_ok step']. unfold okobj. apply Nat.ltb_lt in Lt. rewrite Lt, Ok. exact E.
  - pose proof (set_children_fail t vs) as X. rewrite E in X. simpl in X. rewrite X by discriminate. apply unchangedB_refl.
  - pose proof (set_children_fail t vs) as X. rewrite E in X. simpl in X. rewrite X by discriminate. apply unchangedB_refl.
Qed.

Lemma frameB_set_parent_fn t p :
  t < length (hp s) -> okopt s p = true -> ~ B t -> (forall p', p = Some p' -> ~ B p') ->
  unchangedB s (fst (set_parent s t p)).
Proof.
  intros Lt Ok Nt Np. destruct (set_parent s t p) as [s1 r] eqn:E. destruct r as [[]| |c].
  - simpl. apply (frameB_set_parent t p s1); try assumption.
    unfold step. cbn [args_ok step']. unfold okobj. apply Nat.ltb_lt in Lt. rewrite Lt, Ok. exact E.
  - pose proof (set_parent_fail t p) as X. rewrite E in X. simpl in X. rewrite X by discriminate. apply unchangedB_refl.
  - pose proof (set_parent_fail t p) as X. rewrite E in X. simpl in X. rewrite X by discriminate. apply unchangedB_refl.
Qed.

Lemma frameB_op_shift d t vs :
  t < length (hp s) -> oklist s vs = true -> ~ B t -> linkfree s t -> (forall v, In (Some v) vs -> ~ B v) ->
  unchangedB s (fst (op_shift d s t vs)).
Proof.
  intros Lt Ok Nt Lf Nv. unfold op_shift. apply frameB_set_links_fn; try assumption.
  - apply oklist_app; [|exact Ok]. apply oklist_map_Some. intros c Hc. apply (fwd_lt d t c Hc).
  - intros v Hv. apply (proj1 (In_Some_app_map _ _ _)) in Hv as [Hv|Hv]; [apply (B_partner_not d t v Lf Hv) | apply Nv; exact Hv].
Qed.

Lemma frameB_ln_append d t x :
  t < length (hp s) -> x < length (hp s) -> ~ B t -> linkfree s t -> ~ B x ->
  unchangedB s (fst (ln_append d s t (Some x))).
Proof.
  intros Lt Lx Nt Lf Nx. unfold ln_append. apply frameB_set_links_fn; try assumption.
  - apply oklist_map_Some. intros c Hc. apply in_app_iff in Hc as [Hc|[<-|[]]]; [apply (fwd_lt d t c Hc) | exact Lx].
  - intros v Hv. apply in_map_iff in Hv as [c [Ec Hc]]. inversion Ec; subst c.
    apply in_app_iff in Hc as [Hc|[<-|[]]]; [apply (B_partner_not d t v Lf Hc) | exact Nx].
Qed.

Lemma frameB_ln_remove d t x :
  t < length (hp s) -> ~ B t -> linkfree s t -> unchangedB s (fst (ln_remove d s t (Some x))).
Proof.
  intros Lt Nt Lf. unfold ln_remove. cbv zeta. destruct (memn x (fwd d (get (hp s) t))); [|apply unchangedB_refl].
  apply frameB_set_links_fn; try assumption.
  - apply oklist_map_Some. intros c Hc. apply (proj1 (In_without _ _ _)) in Hc as [Hc _]. apply (fwd_lt d t c Hc).
  - intros v Hv. apply in_map_iff in Hv as [c [Ec Hc]]. inversion Ec; subst c.
    apply (proj1 (In_without _ _ _)) in Hc as [Hc _]. apply (B_partner_not d t v Lf Hc).
Qed.

Lemma frameB_op_floordiv o vs :
  o < length (hp s) -> oklist s vs = true -> ~ B o -> (forall v, In (Some v) vs -> ~ B v) ->
  unchangedB s (fst (op_floordiv s o vs)).
Proof.
  intros Lo Ok No Nv. unfold op_floordiv. apply frameB_set_children_fn; try assumption.
  - apply oklist_app; [|exact Ok]. apply oklist_map_Some. intros c Hc. apply (kids_lt o c Hc).
  - intros v Hv. apply (proj1 (In_Some_app_map _ _ _)) in Hv as [Hv|Hv]; [apply (B_kid_not o v No Hv) | apply Nv; exact Hv].
Qed.

Lemma frameB_wbs_remove_task w0 t : ~ B (wroot s w0) -> unchangedB s (fst (wbs_remove_task s w0 t)).
Proof.
  intro N. unfold wbs_remove_task. destruct (wbs_tasks s w0) as [l| |c] eqn:El; try apply unchangedB_refl.
  destruct (find _ _) as [q|] eqn:Ef; [|apply unchangedB_refl].
  apply find_some in Ef as [Hq _]. apply frameB_ch_remove. apply (B_task_not w0 l q N El Hq).
Qed.

Lemma frameB_ch_insert (o : obj) i (t : obj) :
  o < length (hp s) -> t < length (hp s) -> ~ B o -> ~ B t -> unchangedB s (fst (ch_insert s o i (Some t))).
Proof.
  intros Lo Lt No Nt. unfold ch_insert. cbv zeta. destruct (negb _); [apply unchangedB_refl|].
  assert (U : unchangedB s (fst (set_parent s t (Some o)))).
  { apply frameB_set_parent_fn; try assumption.
    - simpl. unfold okobj. apply Nat.ltb_lt. exact Lo.
    - intros p' E. inversion E; subst. exact No. }
  unfold andthen. destruct (set_parent s t (Some o)) as [s1 r]. simpl in U.
  destruct r as [[]| |c]; simpl; try exact U.
  destruct (Nat.eqb _ t); simpl; [exact U|]. intros y By. rewrite set_kids_other; [apply U; exact By|].
  intros ->. exact (No By).
Qed.

End OneState.

(* the operations that only permute one children list: nothing but [o] changes, whatever the state *)
Lemma ch_move_other s o ts b a x : x <> o -> get (hp (fst (ch_move s o ts b a))) x = get (hp s) x.
Proof.
  intro N. unfold ch_move, mk. destruct (ch_move_guard _ _ _ _ _) as [[]| |]; simpl; try reflexivity.
  unfold ch_move_write. destruct b; [apply set_kids_other; exact N|]. destruct a; [apply set_kids_other; exact N | reflexivity].
Qed.

Lemma ch_sort_other s o k r x : x <> o -> get (hp (fst (ch_sort s o k r))) x = get (hp s) x.
Proof.
  intro N. unfold ch_sort. destruct (none_clash s o k); [reflexivity|].
  destruct k; try reflexivity; destruct (keys_of _ _ _); simpl; try reflexivity; apply set_kids_other; exact N.
Qed.

Lemma ch_reorder_other s o ids x : x <> o -> get (hp (fst (ch_reorder s o ids))) x = get (hp s) x.
Proof.
  intro N. unfold ch_reorder. cbv zeta. destruct (reorder_go _ _ _ _ _); simpl; try reflexivity.
  apply set_kids_other; exact N.
Qed.


(* ---- loops: the invariant carried through a sequence of calls ---- *)
Definition Inv (s0 s' : state) : Prop := WF s' /\ ParentOps.same_shape s0 s' /\ unchangedB s0 s'.

Lemma Inv_refl s0 : WF s0 -> Inv s0 s0.
Proof. intro W. split; [exact W|]. split; [apply ParentOps.same_shape_refl | apply unchangedB_refl]. Qed.

Lemma Inv_step s0 s' s'' :
  Inv s0 s' -> WF s'' -> ParentOps.same_shape s' s'' -> unchangedB s' s'' -> Inv s0 s''.
Proof.
  intros (_ & Sh & U) W'' Sh' U'. split; [exact W''|]. split.
  - eapply ParentOps.same_shape_trans; eassumption.
  - eapply unchangedB_trans; eassumption.
Qed.

Lemma Inv_len s0 s' : Inv s0 s' -> length (hp s') = length (hp s0).
Proof. intros (_ & (L & _) & _). exact L. Qed.

Lemma Inv_closed s0 s' : closedB s0 -> Inv s0 s' -> closedB s'.
Proof. intros C I. apply (closedB_keep s0 s'); [rewrite (Inv_len _ _ I); lia | apply I | exact C]. Qed.

Lemma Inv_linkfree s0 s' t : linkfree s0 t -> Inv s0 s' -> linkfree s' t.
Proof. intros Lf I. apply (linkfree_keep s0 s'); [apply I | exact Lf]. Qed.

Lemma Inv_pub s0 s' x : Inv s0 s' -> (LinksProofs.pub s' x <-> LinksProofs.pub s0 x).
Proof. intros (_ & Sh & _). apply ParentOps.same_shape_pub. exact Sh. Qed.

Lemma Inv_wroot s0 s' w : Inv s0 s' -> wroot s' w = wroot s0 w.
Proof. intros (_ & (_ & E & _) & _). unfold wroot. rewrite E. reflexivity. Qed.

Lemma pubs_oklist s vs : LinksProofs.pubs s vs -> oklist s vs = true.
Proof.
  intro P. unfold oklist. apply forallb_forall. intros [x|] Hx; [|reflexivity]. simpl. unfold okobj.
  apply Nat.ltb_lt. apply (P x Hx).
Qed.

Lemma frameB_alloc s T : closedB s -> unchangedB s (alloc s T).
Proof. intros C y By. unfold alloc. simpl. apply get_app_old. apply (C y By). Qed.

Lemma all_or_nothing_cases s r : fst (all_or_nothing s r) = fst r \/ fst (all_or_nothing s r) = s.
Proof. unfold all_or_nothing. destruct (snd r) as [[]| |c]; auto. Qed.

(* Task(id, parent=, children=, successors=, predecessors=) *)
Lemma frameB_new_task_rel s i nm p ch su pr :
  WF s -> closedB s ->
  (forall p', p = Some p' -> LinksProofs.pub s p' /\ ~ B p') ->
  (forall c, ch = Some c -> LinksProofs.pubs s c /\ forall v, In (Some v) c -> ~ B v) ->
  (LinksProofs.pubs s su /\ forall v, In (Some v) su -> ~ B v) ->
  (LinksProofs.pubs s pr /\ forall v, In (Some v) pr -> ~ B v) ->
  unchangedB s (fst (new_task_rel s i nm p ch su pr)).
Proof.
  intros W C Hp Hch [Psu Nsu] [Ppr Npr].
  destruct (all_or_nothing_cases s (new_task_rel_seq s i nm p ch su pr)) as [E|E];
    unfold new_task_rel; rewrite E; [|apply unchangedB_refl].
  unfold new_task_rel_seq. cbv zeta.
  set (T := mkT i None [] [] [] None false None nm None).
  set (s0 := alloc s T). set (t := length (hp s)).
  assert (W0 : WF s0) by (apply ParentOps.alloc_task_WF; exact W).
  assert (U0 : unchangedB s s0) by (apply frameB_alloc; exact C).
  assert (L0 : length (hp s0) = S (length (hp s))) by (unfold s0, alloc; simpl; rewrite app_length; simpl; lia).
  assert (C0 : closedB s0) by (apply (closedB_keep s s0); [lia | exact U0 | exact C]).
  assert (Nt : ~ B t) by (intro Bt; pose proof (C t Bt) as (X & _); unfold t in X; lia).
  assert (Lf0 : linkfree s0 t).
  { apply (linkfree_keep s s0 t U0). intros y By. destruct W as (F & _).
    split; intro H; [apply (dl_fin_preds s y t F) in H | apply (dl_fin_succs s y t F) in H]; unfold t in H; lia. }
  assert (Pt0 : LinksProofs.pub s0 t).
  { split; [unfold t; lia|]. unfold s0, alloc, t. simpl. rewrite ParentOps.get_app_eq. reflexivity. }
  assert (Sh0 : StepProofs.shape s s0) by apply StepProofs.alloc_shape.
  assert (Pub0 : forall vs, LinksProofs.pubs s vs -> LinksProofs.pubs s0 vs).
  { intros vs Pv v Hv. eapply StepProofs.shape_pub; [exact Sh0|]. apply Pv. exact Hv. }
  apply (unchangedB_trans s s0); [exact U0|].
  assert (Pt : forall s', Inv s0 s' -> LinksProofs.pub s' t) by (intros s' I; apply (Inv_pub s0 s' t I); exact Pt0).
  assert (Pubs : forall s' vs, Inv s0 s' -> LinksProofs.pubs s vs -> LinksProofs.pubs s' vs).
  { intros s' vs I Pv v Hv. apply (Inv_pub s0 s' v I). apply (Pub0 vs Pv v Hv). }
  assert (Main : Inv s0 (fst (andthen (match p with Some _ => set_parent s0 t p | None => (s0, OK) end) (fun s1 =>
    andthen (match ch with Some c => set_children s1 t c | None => (s1, OK) end) (fun s2 =>
    andthen (match su with [] => (s2, OK) | _ => set_succs s2 t su end) (fun s3 =>
             match pr with [] => (s3, OK) | _ => set_preds s3 t pr end))))));
    [|apply Main].
  apply StepProofs.andthen_inv.
  { destruct p as [p'|]; [|apply Inv_refl; exact W0]. destruct (Hp p' eq_refl) as [Pp Np].
    assert (Lp : p' < length (hp s0)) by (apply (StepProofs.shape_pub s s0 p' Sh0 Pp)).
    apply (Inv_step s0 s0); [apply Inv_refl; exact W0 | | |].
    - apply ParentProofs.set_parent_WF; [exact W0 | exact Pt0|]. right. exists p'. auto.
    - apply ParentOps.set_parent_same_shape; [exact W0 | apply Pt0 | apply ParentOps.Some_range; exact Lp].
    - apply frameB_set_parent_fn; try assumption; [apply Pt0| |].
      + simpl. unfold okobj. apply Nat.ltb_lt. exact Lp.
      + intros q Eq. inversion Eq; subst q. exact Np. }
  intro I1. apply StepProofs.andthen_inv.
  { destruct ch as [c|]; [|exact I1]. cbn [fst]. destruct (Hch c eq_refl) as [Pc Nc].
    pose proof (Pubs _ c I1 Pc) as Pc1.
    apply (Inv_step s0 _ _ I1).
    - apply ChildrenProofs.set_children_WF; [apply I1 | apply (Pt _ I1) | exact Pc1].
    - apply StepProofs.set_children_same_shape.
    - apply frameB_set_children_fn; [apply I1 | apply (Inv_closed s0 _ C0 I1) | apply (Pt _ I1) | apply pubs_oklist; exact Pc1 | exact Nt | exact Nc]. }
  intro I2. apply StepProofs.andthen_inv.
  { destruct su as [|x su']; [exact I2|]. unfold set_succs. pose proof (Pubs _ _ I2 Psu) as P1.
    apply (Inv_step s0 _ _ I2).
    - apply LinksProofs.set_links_WF; [apply I2 | apply (Pt _ I2) | exact P1].
    - apply StepProofs.set_links_same_shape.
    - apply frameB_set_links_fn; [apply I2 | apply (Pt _ I2) | apply pubs_oklist; exact P1
                                 | exact Nt | apply (Inv_linkfree s0 _ t Lf0 I2) | exact Nsu]. }
  intro I3.
  destruct pr as [|x pr']; [exact I3|]. unfold set_preds. pose proof (Pubs _ _ I3 Ppr) as P1.
  apply (Inv_step s0 _ _ I3).
  - apply LinksProofs.set_links_WF; [apply I3 | apply (Pt _ I3) | exact P1].
  - apply StepProofs.set_links_same_shape.
  - apply frameB_set_links_fn; [apply I3 | apply (Pt _ I3) | apply pubs_oklist; exact P1
                               | exact Nt | apply (Inv_linkfree s0 _ t Lf0 I3) | exact Npr].
Qed.

Lemma frameB_ch_remove_all s o ids : WF s -> closedB s -> ~ B o -> unchangedB s (fst (ch_remove_all s o ids)).
Proof.
  intros W C No. unfold ch_remove_all. cbv zeta.
  apply (LinksOps.seq_calls_inv (Inv s) (fun s' c => ch_remove s' o (Some c))); [|apply Inv_refl; exact W].
  intros s' c _ I. apply (Inv_step s s' _ I).
  - apply ChildrenOps.ch_remove_WF. apply I.
  - apply StepProofs.ch_remove_same_shape.
  - apply frameB_ch_remove; [apply I | apply (Inv_closed s s' C I) | exact No].
Qed.

Lemma frameB_ln_remove_all d s t ids :
  WF s -> closedB s -> LinksProofs.pub s t -> ~ B t -> linkfree s t -> unchangedB s (fst (ln_remove_all d s t ids)).
Proof.
  intros W C Pt Nt Lf. unfold ln_remove_all. cbv zeta.
  apply (LinksOps.seq_calls_inv (Inv s) (fun s' c => ln_remove d s' t (Some c))); [|apply Inv_refl; exact W].
  intros s' c _ I. pose proof (proj2 (Inv_pub s s' t I) Pt) as Pt'. apply (Inv_step s s' _ I).
  - apply LinksOps.ln_remove_WF; [apply I | exact Pt'].
  - apply StepProofs.ln_remove_same_shape.
  - apply frameB_ln_remove; [apply I | apply Pt' | exact Nt | apply (Inv_linkfree s s' t Lf I)].
Qed.

Lemma frameB_lst_shift d s ts vs :
  WF s -> closedB s -> (forall t, In t ts -> LinksProofs.pub s t /\ ~ B t /\ linkfree s t) ->
  LinksProofs.pubs s vs -> (forall v, In (Some v) vs -> ~ B v) ->
  unchangedB s (fst (lst_shift d s ts vs)).
Proof.
  intros W C Ht Pv Nv. destruct (all_or_nothing_cases s (lst_shift_seq d s ts vs)) as [E|E];
    unfold lst_shift; rewrite E; [|apply unchangedB_refl].
  unfold lst_shift_seq.
  apply (LinksOps.seq_calls_inv (Inv s) (fun s' t => op_shift d s' t vs)); [|apply Inv_refl; exact W].
  intros s' t Hin I. destruct (Ht t Hin) as (Pt & Nt & Lf).
  pose proof (proj2 (Inv_pub s s' t I) Pt) as Pt'.
  assert (Pv' : LinksProofs.pubs s' vs) by (intros v Hv; apply (Inv_pub s s' v I); apply Pv; exact Hv).
  apply (Inv_step s s' _ I).
  - apply LinksOps.op_shift_WF; [apply I | exact Pt' | exact Pv'].
  - apply StepProofs.op_shift_same_shape.
  - apply frameB_op_shift; [apply I | apply Pt' | apply pubs_oklist; exact Pv' | exact Nt
                           | apply (Inv_linkfree s s' t Lf I) | exact Nv].
Qed.

Lemma frameB_lst_set_parent s ts p :
  WF s -> closedB s -> (forall t, In t ts -> LinksProofs.pub s t /\ ~ B t) ->
  (forall p', p = Some p' -> p' < length (hp s) /\ ~ B p') ->
  unchangedB s (fst (lst_set_parent s ts p)).
Proof.
  intros W C Ht Hp. destruct (all_or_nothing_cases s (lst_set_parent_seq s ts p)) as [E|E];
    unfold lst_set_parent; rewrite E; [|apply unchangedB_refl].
  unfold lst_set_parent_seq.
  apply (LinksOps.seq_calls_inv (Inv s) (fun s' t => set_parent s' t p)); [|apply Inv_refl; exact W].
  intros s' t Hin I. destruct (Ht t Hin) as (Pt & Nt).
  pose proof (proj2 (Inv_pub s s' t I) Pt) as Pt'.
  assert (Lp : forall p', p = Some p' -> p' < length (hp s')).
  { intros p' Ep. rewrite (Inv_len s s' I). apply (Hp p' Ep). }
  apply (Inv_step s s' _ I).
  - apply ParentProofs.set_parent_WF; [apply I | exact Pt'|]. destruct p as [p'|]; [right; exists p'; auto | left; reflexivity].
  - apply ParentOps.set_parent_same_shape; [apply I | apply Pt' | exact Lp].
  - apply frameB_set_parent_fn; [apply I | apply (Inv_closed s s' C I) | apply Pt' | | exact Nt | intros p' Ep; apply (Hp p' Ep)].
    destruct p as [p'|]; [|reflexivity]. simpl. unfold okobj. apply Nat.ltb_lt. apply Lp. reflexivity.
Qed.

Lemma frameB_lst_set_children s ts vs :
  WF s -> closedB s -> (forall t, In t ts -> t < length (hp s) /\ ~ B t) ->
  LinksProofs.pubs s vs -> (forall v, In (Some v) vs -> ~ B v) ->
  unchangedB s (fst (lst_set_children s ts vs)).
Proof.
  intros W C Ht Pv Nv. destruct (all_or_nothing_cases s (lst_set_children_seq s ts vs)) as [E|E];
    unfold lst_set_children; rewrite E; [|apply unchangedB_refl].
  unfold lst_set_children_seq.
  apply (LinksOps.seq_calls_inv (Inv s) (fun s' t => set_children s' t vs)); [|apply Inv_refl; exact W].
  intros s' t Hin I. destruct (Ht t Hin) as (Lt & Nt).
  assert (Lt' : t < length (hp s')) by (rewrite (Inv_len s s' I); exact Lt).
  assert (Pv' : LinksProofs.pubs s' vs) by (intros v Hv; apply (Inv_pub s s' v I); apply Pv; exact Hv).
  apply (Inv_step s s' _ I).
  - apply ChildrenProofs.set_children_WF; [apply I | exact Lt' | exact Pv'].
  - apply StepProofs.set_children_same_shape.
  - apply frameB_set_children_fn; [apply I | apply (Inv_closed s s' C I) | exact Lt' | apply pubs_oklist; exact Pv'
                                  | exact Nt | exact Nv].
Qed.

Lemma frameB_lst_set_links d s ts vs :
  WF s -> closedB s -> (forall t, In t ts -> LinksProofs.pub s t /\ ~ B t /\ linkfree s t) ->
  LinksProofs.pubs s vs -> (forall v, In (Some v) vs -> ~ B v) ->
  unchangedB s (fst (lst_set_links d s ts vs)).
Proof.
  intros W C Ht Pv Nv. destruct (all_or_nothing_cases s (lst_set_links_seq d s ts vs)) as [E|E];
    unfold lst_set_links; rewrite E; [|apply unchangedB_refl].
  unfold lst_set_links_seq.
  apply (LinksOps.seq_calls_inv (Inv s) (fun s' t => set_links d s' t vs)); [|apply Inv_refl; exact W].
  intros s' t Hin I. destruct (Ht t Hin) as (Pt & Nt & Lf).
  pose proof (proj2 (Inv_pub s s' t I) Pt) as Pt'.
  assert (Pv' : LinksProofs.pubs s' vs) by (intros v Hv; apply (Inv_pub s s' v I); apply Pv; exact Hv).
  apply (Inv_step s s' _ I).
  - apply LinksProofs.set_links_WF; [apply I | exact Pt' | exact Pv'].
  - apply StepProofs.set_links_same_shape.
  - apply frameB_set_links_fn; [apply I | apply Pt' | apply pubs_oklist; exact Pv' | exact Nt
                               | apply (Inv_linkfree s s' t Lf I) | exact Nv].
Qed.

Lemma frameB_wbs_remove_all s w ids :
  WF s -> closedB s -> ~ B (wroot s w) -> unchangedB s (fst (wbs_remove_all s w ids)).
Proof.
  intros W C N. unfold wbs_remove_all. destruct (wbs_tasks s w) as [l| |c]; try apply unchangedB_refl.
  apply (LinksOps.seq_calls_inv (Inv s) (fun s' t => wbs_remove_task s' w t)); [|apply Inv_refl; exact W].
  intros s' t _ I. apply (Inv_step s s' _ I).
  - apply ChildrenOps.wbs_remove_task_WF. apply I.
  - apply StepProofs.wbs_remove_task_same_shape.
  - apply frameB_wbs_remove_task; [apply I | apply (Inv_closed s s' C I)|]. rewrite (Inv_wroot s s' w I). exact N.
Qed.

(* ---- every operation kind ---- *)
Ltac split_and_b :=
  repeat match goal with X : _ && _ = true |- _ => apply andb_true_iff in X; destruct X end.

Theorem frameB_step s o :
  WF s -> closedB s -> clear s o -> pub_args s o = true -> unchangedB s (fst (step s o)).
Proof.
  intros W C [Cn Cw] A. pose proof (StepProofs.pub_args_ok s o A) as Ok. unfold step. rewrite Ok.
  assert (NB : forall t, In t (named o) -> ~ B t) by (intros t Ht; apply (Cn t Ht)).
  assert (LF : forall t, In t (named o) -> linkfree s t) by (intros t Ht; apply (Cn t Ht)).
  assert (SomeIn : forall v (vs : list (option obj)), In (Some v) vs -> In v (somes vs)) by (intros v vs H; apply In_somes; exact H).
  destruct o; cbn [step']; simpl in A, Ok, NB, LF, Cw; split_and_b.
  - (* NewTask *) unfold new_task. destruct e as [v|]; [destruct (v <? 0)%Z; [apply unchangedB_refl|]|]; apply frameB_alloc; exact C.
  - (* NewTaskRel *)
    apply frameB_new_task_rel; try assumption.
    + intros p' ->. split; [apply (StepProofs.pubopt_pub s (Some p')); [assumption | reflexivity]|].
      apply NB. simpl. left. reflexivity.
    + intros c ->. split; [apply StepProofs.publist_pubs; assumption|]. intros v Hv. apply NB.
      apply in_app_iff. right. apply in_app_iff. left. apply SomeIn. exact Hv.
    + split; [apply StepProofs.publist_pubs; assumption|]. intros v Hv. apply NB.
      apply in_app_iff. right. apply in_app_iff. right. apply in_app_iff. left. apply SomeIn. exact Hv.
    + split; [apply StepProofs.publist_pubs; assumption|]. intros v Hv. apply NB.
      apply in_app_iff. right. apply in_app_iff. right. apply in_app_iff. right. apply SomeIn. exact Hv.
  - (* NewWbs *) unfold new_wbs. simpl. intros y By. apply get_app_old. apply (C y By).
  - (* SetParent *)
    apply frameB_set_parent_fn; try assumption.
    + apply ParentOps.okobj_lt. assumption.
    + apply NB. left. reflexivity.
    + intros p' ->. apply NB. right. left. reflexivity.
  - (* SetChildren *)
    apply frameB_set_children_fn; try assumption.
    + apply ParentOps.okobj_lt. assumption.
    + apply NB. left. reflexivity.
    + intros v Hv. apply NB. right. apply SomeIn. exact Hv.
  - (* SetLinks *)
    apply frameB_set_links_fn; try assumption.
    + apply ParentOps.okobj_lt. assumption.
    + apply NB. left. reflexivity.
    + apply LF. left. reflexivity.
    + intros v Hv. apply NB. right. apply SomeIn. exact Hv.
  - (* ChAppend *)
    unfold ch_append. destruct t as [t'|]; [|apply unchangedB_refl].
    apply frameB_set_parent_fn; try assumption.
    + apply ParentOps.okobj_lt. assumption.
    + apply NB. right. left. reflexivity.
    + intros p' E. inversion E; subst p'. apply NB. left. reflexivity.
  - (* ChRemove *)
    destruct t as [t'|]; [|apply unchangedB_refl]. apply frameB_ch_remove; try assumption. apply NB. left. reflexivity.
  - (* ChInsert *)
    destruct t as [t'|]; [|apply unchangedB_refl]. apply frameB_ch_insert; try assumption.
    + apply ParentOps.okobj_lt. assumption.
    + apply ParentOps.okobj_lt. assumption.
    + apply NB. left. reflexivity.
    + apply NB. right. left. reflexivity.
  - (* ChMove *) intros y By. apply ch_move_other. intros ->. apply (NB o); [left; reflexivity | exact By].
  - (* ChSort *) intros y By. apply ch_sort_other. intros ->. apply (NB o); [left; reflexivity | exact By].
  - (* ChReorder *) intros y By. apply ch_reorder_other. intros ->. apply (NB o); [left; reflexivity | exact By].
  - (* ChRemoveAll *) apply frameB_ch_remove_all; try assumption. apply NB. left. reflexivity.
  - (* LnAppend *)
    unfold ln_append. destruct x as [x'|]; [|apply unchangedB_refl].
    apply (frameB_ln_append s W dir t x'); try assumption.
    + apply ParentOps.okobj_lt. assumption.
    + apply ParentOps.okobj_lt. assumption.
    + apply NB. left. reflexivity.
    + apply LF. left. reflexivity.
    + apply NB. right. left. reflexivity.
  - (* LnRemove *)
    destruct x as [x'|]; [|apply unchangedB_refl].
    apply frameB_ln_remove; try assumption.
    + apply ParentOps.okobj_lt. assumption.
    + apply NB. left. reflexivity.
    + apply LF. left. reflexivity.
  - (* LnRemoveAll *)
    apply frameB_ln_remove_all; try assumption.
    + apply StepProofs.pubobj_pub. assumption.
    + apply NB. left. reflexivity.
    + apply LF. left. reflexivity.
  - (* OpFloordiv *)
    apply frameB_op_floordiv; try assumption.
    + apply ParentOps.okobj_lt. assumption.
    + apply NB. left. reflexivity.
    + intros v Hv. apply NB. right. apply SomeIn. exact Hv.
  - (* OpShift *)
    apply frameB_op_shift; try assumption.
    + apply ParentOps.okobj_lt. assumption.
    + apply NB. left. reflexivity.
    + apply LF. left. reflexivity.
    + intros v Hv. apply NB. right. apply SomeIn. exact Hv.
  - (* LstShift *)
    apply frameB_lst_shift; try assumption.
    + intros t Ht. split; [apply (StepProofs.forallb_pubobj s ts); assumption|].
      split; [apply NB | apply LF]; apply in_app_iff; left; exact Ht.
    + apply StepProofs.publist_pubs. assumption.
    + intros v Hv. apply NB. apply in_app_iff. right. apply SomeIn. exact Hv.
  - (* LstSetParent *)
    apply frameB_lst_set_parent; try assumption.
    + intros t Ht. split; [apply (StepProofs.forallb_pubobj s ts); assumption|].
      apply NB. apply in_app_iff. left. exact Ht.
    + intros p' ->. split; [apply ParentOps.okobj_lt; assumption|]. apply NB. apply in_app_iff. right. left. reflexivity.
  - (* LstSetChildren *)
    apply frameB_lst_set_children; try assumption.
    + intros t Ht. split; [apply (StepProofs.forallb_pubobj s ts); assumption|].
      apply NB. apply in_app_iff. left. exact Ht.
    + apply StepProofs.publist_pubs. assumption.
    + intros v Hv. apply NB. apply in_app_iff. right. apply SomeIn. exact Hv.
  - (* LstSetLinks *)
    apply frameB_lst_set_links; try assumption.
    + intros t Ht. split; [apply (StepProofs.forallb_pubobj s ts); assumption|].
      split; [apply NB | apply LF]; apply in_app_iff; left; exact Ht.
    + apply StepProofs.publist_pubs. assumption.
    + intros v Hv. apply NB. apply in_app_iff. right. apply SomeIn. exact Hv.
  - (* WbsRemove *)
    unfold wbs_remove. destruct t as [t'|]; [|apply unchangedB_refl].
    apply frameB_wbs_remove_task; try assumption. apply Cw. left. reflexivity.
  - (* WbsRemoveAll *) apply frameB_wbs_remove_all; try assumption. apply Cw. left. reflexivity.
  - (* SetEst *)
    assert (X : forall y, B y -> y <> t) by (intros y By ->; apply (NB t); [left; reflexivity | exact By]).
    unfold set_est. destruct e as [v|]; [destruct (v <? 0)%Z; [apply unchangedB_refl|]|];
      intros y By; simpl; apply upd_other_get; apply X; exact By.
  - (* SetPrio *)
    intros y By. unfold set_prio. simpl. apply upd_other_get. intros ->. apply (NB t); [left; reflexivity | exact By].
Qed.

End FrameB.

(* ================================================================== *)
(** * 2. two WBSs of one well-formed state *)

Lemma own_par s c q : WF s -> par (get (hp s) c) = Some q -> own (get (hp s) q) = own (get (hp s) c).
Proof.
  intros W Hp. pose proof (par_Some_lt _ _ _ Hp) as Lc.
  assert (Lq : q < length (hp s)) by (apply (dl_fin_par s c q); [apply W | exact Hp]).
  destruct W as (_ & _ & _ & _ & _ & _ & _ & _ & Hown).
  assert (X : forall w0, own (get (hp s) c) = Some w0 <-> own (get (hp s) q) = Some w0).
  { intro w0. rewrite (Hown c w0 Lc), (Hown q w0 Lq). rewrite (Root_par (hp s) c q _ Hp). reflexivity. }
  destruct (own (get (hp s) c)) as [a|] eqn:Ec.
  - apply X. reflexivity.
  - destruct (own (get (hp s) q)) as [b|] eqn:Eq; [|reflexivity]. symmetry. apply X. reflexivity.
Qed.

Lemma side_spec s w y : WF s -> w < length (wroots s) ->
  (In y (side s w) <-> y < length (hp s) /\ own (get (hp s) y) = Some w).
Proof.
  intros W Lw. pose proof W as (F & Pc & Acy & _ & _ & _ & _ & Hid & Hown).
  destruct (StepProofs.wroot_facts s w Hid F Lw) as (LR & _ & PR & OR).
  unfold side, wbs_tasks. rewrite (all_children_ok (hp s) (wroot s w) (I_pc_pc_down s Pc) Acy).
  simpl. rewrite (In_desc (hp s) (wroot s w) y (I_pc_pc_down s Pc) (I_pc_pc_up s Pc) Acy). split.
  - intros [<-|HA]; [auto|]. pose proof (Anc_lt_l _ _ _ HA) as Ly. split; [exact Ly|].
    apply (Hown y w Ly). split; [exact Lw|]. split; [right; exact HA | exact PR].
  - intros [Ly Ho]. apply (Hown y w Ly) in Ho as [_ [[E|HA] _]]; [left; symmetry; exact E | right; exact HA].
Qed.

Lemma side_closed s w : WF s -> w < length (wroots s) -> closedB (fun y => In y (side s w)) s.
Proof.
  intros W Lw y Hy. apply (side_spec s w y W Lw) in Hy as [Ly Ho]. split; [exact Ly|]. split.
  - intros q Hp. apply (side_spec s w q W Lw). split.
    + apply (dl_fin_par s y q); [apply W | exact Hp].
    + rewrite (own_par s y q W Hp). exact Ho.
  - intros c Hc. assert (Hpc : par (get (hp s) c) = Some y) by (destruct W as (_ & (Hpc & _) & _); apply Hpc; exact Hc).
    clear Hc. rename Hpc into Hc. apply (side_spec s w c W Lw). split; [apply (par_Some_lt _ _ _ Hc)|]. rewrite <- (own_par s c y W Hc). exact Ho.
Qed.

(* no dependency link between a task of wa and a task of wb *)
Definition no_cross (s : state) (wa wb : wid) : Prop :=
  forall x y, own (get (hp s) x) = Some wa -> own (get (hp s) y) = Some wb ->
    ~ In x (preds (get (hp s) y)) /\ ~ In x (succs (get (hp s) y)).

Theorem indep_two_wbs s wa wb o :
  WF s -> wa < length (wroots s) -> wb < length (wroots s) -> wa <> wb -> no_cross s wa wb ->
  incl (named o) (side s wa) -> incl (op_wbs o) [wa] -> pub_args s o = true ->
  forall y, In y (side s wb) -> get (hp (fst (step s o))) y = get (hp s) y.
Proof.
  intros W La Lb Nab Nc Hn Hw A.
  apply (frameB_step (fun y => In y (side s wb)) s o W (side_closed s wb W Lb)); [|exact A].
  split.
  - intros t Ht. apply Hn in Ht. apply (side_spec s wa t W La) in Ht as [Lt Ot]. split.
    + intro Hb. apply (side_spec s wb t W Lb) in Hb as [_ Ob]. congruence.
    + intros y Hy. apply (side_spec s wb y W Lb) in Hy as [_ Oy]. apply (Nc t y Ot Oy).
  - intros w0 Hw0. apply Hw in Hw0 as [<-|[]]. intro Hb. apply (side_spec s wb _ W Lb) in Hb as [_ Ob].
    destruct W as (F & _ & _ & _ & _ & _ & _ & Hid & _).
    destruct (StepProofs.wroot_facts s wa Hid F La) as (_ & _ & _ & OR). congruence.
Qed.

(* ================================================================== *)
(** * 3. the copy and its source *)
Theorem c10_indep s w sel o : WF s -> hid_ids s -> sel_ok s w sel ->
  let s1 := fst (clone_sel s w sel) in let w1 := snd (clone_sel s w sel) in
  forall wa wb, (wa = w /\ wb = w1) \/ (wa = w1 /\ wb = w) ->
    incl (named o) (side s1 wa) -> incl (op_wbs o) [wa] -> pub_args s1 o = true ->
    forall y, In y (side s1 wb) -> get (hp (fst (step s1 o))) y = get (hp s1) y.
Proof.
  intros W Hh Hsel s1 w1 wa wb Hab Hn Hw A.
  destruct (clone_sel_WF s w sel W Hh Hsel) as [W1 _]. fold s1 in W1.
  pose proof (clone_no_cross s w sel W Hsel) as Nc. cbv zeta in Nc. fold s1 w1 in Nc.
  assert (E1 : w1 = length (wroots s) /\ wroots s1 = wroots s ++ [length (hp s)]).
  { unfold w1, s1. rewrite (clone_sel_eq s w sel W). simpl. auto. }
  destruct E1 as [Ew1 Ewr]. destruct Hsel as [Lw _].
  assert (L0 : w < length (wroots s1)) by (rewrite Ewr, app_length; simpl; lia).
  assert (L1 : w1 < length (wroots s1)) by (rewrite Ewr, app_length; simpl; lia).
  assert (Ne : w <> w1) by lia.
  destruct Hab as [[-> ->]|[-> ->]].
  - apply (indep_two_wbs s1 w w1 o W1 L0 L1 Ne); try assumption.
    intros x y Ox Oy. destruct (Nc x y Ox Oy) as (_ & _ & N3 & N4). auto.
  - apply (indep_two_wbs s1 w1 w o W1 L1 L0 (not_eq_sym Ne)); try assumption.
    intros x y Ox Oy. destruct (Nc y x Oy Ox) as (N1 & N2 & _). auto.
Qed.
