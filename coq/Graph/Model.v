(* Gallina model of the mutable task graph of pjplan (task.py, wbs.py) - definitions only.

   Objects are numbers; the heap is a list of task records indexed by object number (total lookup
   with a pristine default); every WBS owns a hidden root task (the sentinel).  Every public mutator
   is a function state -> args -> state * outcome written as GUARDS (pure) followed by primitive
   heap WRITES in the order of the code.  Guards that walk the graph use explicit fuel (the number of
   objects) and answer Crash RecursionError when it is exhausted.

   Reading notes (how the code is mirrored):
   * "x in t.all_children" / the subtree of t / the tree of a root are computed by walking UP the raw
     parent chain of every object (x is below t iff t occurs in x's ancestor chain).  The code walks
     DOWN the children lists; both agree on every state satisfying I_pc + I_acy, and the
     correspondence run validates the agreement on every reachable state.
   * all_parents masks the hidden WBS root; the model keeps it in the chain.  The hidden root is
     never an argument of a public call and never a dependency end (I_hid), so the verdicts agree.
   * a list facade (t.children, t.predecessors, wbs.roots) is "the owner, looked up now". *)
From PJ Require Import Base.Prelude.

Definition obj := nat.
Definition wid := nat.
Definition EMPTY_ID : Z := 9223372036854775807.   (* sys.maxsize, id of the hidden WBS root *)

Record task := mkT {
  tid : Z;
  par : option obj;          (* raw parent: the hidden WBS root included *)
  kids : list obj;
  preds : list obj;
  succs : list obj;
  own : option wid;
  hidden : bool;             (* the WBS root sentinel *)
  prio : option Z;           (* custom attribute "prio": absent / integer  (sort key) *)
  name : list Z;             (* name as code points (sort key) *)
  est : option Z             (* estimate (setter validates) *)
}.

Definition dflt : task := mkT 0 None [] [] [] None false None [] None.

Definition with_par (v : option obj) (t : task) :=
  mkT (tid t) v (kids t) (preds t) (succs t) (own t) (hidden t) (prio t) (name t) (est t).
Definition with_kids (v : list obj) (t : task) :=
  mkT (tid t) (par t) v (preds t) (succs t) (own t) (hidden t) (prio t) (name t) (est t).
Definition with_preds (v : list obj) (t : task) :=
  mkT (tid t) (par t) (kids t) v (succs t) (own t) (hidden t) (prio t) (name t) (est t).
Definition with_succs (v : list obj) (t : task) :=
  mkT (tid t) (par t) (kids t) (preds t) v (own t) (hidden t) (prio t) (name t) (est t).
Definition with_own (v : option wid) (t : task) :=
  mkT (tid t) (par t) (kids t) (preds t) (succs t) v (hidden t) (prio t) (name t) (est t).
Definition with_prio (v : option Z) (t : task) :=
  mkT (tid t) (par t) (kids t) (preds t) (succs t) (own t) (hidden t) v (name t) (est t).
Definition with_est (v : option Z) (t : task) :=
  mkT (tid t) (par t) (kids t) (preds t) (succs t) (own t) (hidden t) (prio t) (name t) v.

Definition heap := list task.
Record state := mkS { hp : heap; wroots : list obj }.   (* wroots: root object of every WBS *)

Definition init : state := mkS [] [].

Definition get (h : heap) (x : obj) : task := nth x h dflt.

Fixpoint upd (h : heap) (x : obj) (f : task -> task) : heap :=
  match h, x with
  | [], _ => []
  | t :: r, O => f t :: r
  | t :: r, S x' => t :: upd r x' f
  end.

Definition objs (h : heap) : list obj := seq 0 (length h).

Definition outcome := res unit.
Notation OK := (Ok tt).
Definition failif (b : bool) (e : outcome) : outcome := if b then e else OK.

(* ---- small list helpers ---- *)
Definition memn (x : nat) (l : list nat) : bool := existsb (Nat.eqb x) l.
Definition memz (x : Z) (l : list Z) : bool := existsb (Z.eqb x) l.
Definition onat_eqb := opt_eqb Nat.eqb.

Fixpoint remove1 (x : nat) (l : list nat) : list nat :=      (* list.remove: first occurrence *)
  match l with
  | [] => []
  | y :: r => if Nat.eqb x y then r else y :: remove1 x r
  end.

Definition without (x : nat) (l : list nat) : list nat := filter (fun y => negb (Nat.eqb x y)) l.

Fixpoint dedup (l : list nat) : list nat :=                 (* _unique_tasks: first occurrences *)
  match l with
  | [] => []
  | x :: r => x :: without x (dedup r)
  end.

Fixpoint somes {A} (l : list (option A)) : list A :=        (* _to_list drops None *)
  match l with
  | [] => []
  | Some x :: r => x :: somes r
  | None :: r => somes r
  end.

Fixpoint nodupb {A} (eqb : A -> A -> bool) (l : list A) : bool :=
  match l with
  | [] => true
  | x :: r => negb (existsb (eqb x) r) && nodupb eqb r
  end.

(* ---- walking the graph ---- *)
Fixpoint ancf (fuel : nat) (h : heap) (x : obj) : option (list obj) :=   (* raw ancestors, nearest first *)
  match par (get h x) with
  | None => Some []
  | Some p => match fuel with
              | O => None
              | S f => match ancf f h p with Some l => Some (p :: l) | None => None end
              end
  end.

Definition anc (h : heap) (x : obj) : res (list obj) :=
  match ancf (length h) h x with Some l => Ok l | None => Crash RecursionError end.

Definition rootof (h : heap) (x : obj) : option obj :=
  match ancf (length h) h x with Some l => Some (last l x) | None => None end.

(* x lies in the subtree of t (t itself included) *)
Definition insub (h : heap) (t x : obj) : bool :=
  Nat.eqb x t || match ancf (length h) h x with Some l => memn t l | None => false end.

Definition subtree (h : heap) (t : obj) : list obj := filter (insub h t) (objs h).

Definition pubpar (h : heap) (t : obj) : option obj :=      (* Task.parent: hides the WBS root *)
  match par (get h t) with
  | Some q => if hidden (get h q) then None else Some q
  | None => None
  end.

(* naive closure exactly as __get_all_predecessors / __get_all_successors recurse (no visited set):
   the depth exceeds the number of objects only on a cycle *)
Fixpoint closf (next : obj -> list obj) (fuel : nat) (x : obj) : option (list obj) :=
  match fuel with
  | O => match next x with [] => Some [] | _ => None end
  | S f => fold_right (fun p acc => match closf next f p, acc with
                                    | Some l, Some a => Some (p :: l ++ a)
                                    | _, _ => None
                                    end) (Some []) (next x)
  end.

Definition all_preds (h : heap) (x : obj) : res (list obj) :=
  match closf (fun y => preds (get h y)) (length h) x with Some l => Ok l | None => Crash RecursionError end.
Definition all_succs (h : heap) (x : obj) : res (list obj) :=
  match closf (fun y => succs (get h y)) (length h) x with Some l => Ok l | None => Crash RecursionError end.

(* preorder of the descendants (Task.all_children, WBS.tasks): walks DOWN *)
Fixpoint pref (fuel : nat) (h : heap) (x : obj) : option (list obj) :=
  match fuel with
  | O => match kids (get h x) with [] => Some [] | _ => None end
  | S f => fold_right (fun c acc => match pref f h c, acc with
                                    | Some l, Some a => Some (c :: l ++ a)
                                    | _, _ => None
                                    end) (Some []) (kids (get h x))
  end.
Definition all_children (h : heap) (x : obj) : res (list obj) :=
  match pref (length h) h x with Some l => Ok l | None => Crash RecursionError end.

(* _has_id_intersection(parent, children) *)
Definition id_clash (h : heap) (p : obj) (chs : list obj) : res bool :=
  match rootof h p with
  | None => Crash RecursionError
  | Some r =>
      let tree := filter (fun x => onat_eqb (rootof h x) (Some r)) (objs h) in
      let inc := filter (fun x => existsb (fun c => insub h c x) chs && negb (memn x tree)) (objs h) in
      let tids := map (fun x => tid (get h x)) in
      Ok (negb (nodupb Z.eqb (tids inc)) || existsb (fun i => memz i (tids tree)) (tids inc))
  end.

(* __check_no_links_with: some task of subtree t is linked with one of [ups] *)
Definition links_bad (h : heap) (t : obj) (ups : list obj) : bool :=
  existsb (fun x => existsb (fun l => memn l ups) (preds (get h x) ++ succs (get h x))) (subtree h t).

Definition set_own_all (h : heap) (xs : list obj) (w : option wid) : heap :=
  fold_left (fun h' x => upd h' x (with_own w)) xs h.

(* ================= the four setters ================= *)
Definition mk (r : outcome) (s s' : state) : state * outcome :=
  match r with Ok _ => (s', OK) | e => (s, e) end.

(* ---- Task.parent = p ---- *)
Definition set_parent_guard (s : state) (t : obj) (p : option obj) : outcome :=
  let h := hp s in
  let T := get h t in
  do _ <- failif (onat_eqb p (Some t)) Err;
  do _ <- match own T, p with
          | None, Some p' =>
              if onat_eqb (pubpar h t) (Some p') then OK
              else do b <- id_clash h p' [t]; failif b Err
          | Some w, Some p' => failif (negb (onat_eqb (own (get h p')) (Some w))) Err
          | _, None => OK
          end;
  match p with
  | None => OK
  | Some p' =>
      do a <- anc h p';
      do _ <- failif (memn t a) Err;                    (* parent in self.all_children *)
      failif (links_bad h t (p' :: a)) Err
  end.

Definition detach_from_parent (h : heap) (t : obj) : heap :=
  match par (get h t) with
  | Some q => if memn t (kids (get h q)) then upd h q (fun Q => with_kids (remove1 t (kids Q)) Q) else h
  | None => h
  end.

Definition set_parent_write (s : state) (t : obj) (p : option obj) : state :=
  let h := hp s in
  let p2 := match p, own (get h t) with
            | None, Some w => Some (nth w (wroots s) O)       (* a WBS task without parent is a root task *)
            | _, _ => p
            end in
  let sub := subtree h t in
  let h1 := detach_from_parent h t in
  match p2 with
  | None => mkS (upd h1 t (with_par None)) (wroots s)
  | Some p' =>
      let h2 := upd h1 t (with_par (Some p')) in
      let h3 := match own (get h2 p') with Some w => set_own_all h2 sub (Some w) | None => h2 end in
      let h4 := if memn t (kids (get h3 p')) then h3 else upd h3 p' (fun P => with_kids (kids P ++ [t]) P) in
      mkS h4 (wroots s)
  end.

Definition set_parent (s : state) (t : obj) (p : option obj) : state * outcome :=
  mk (set_parent_guard s t p) s (set_parent_write s t p).

(* ---- Task.children = vs ---- *)
Definition set_children_guard (s : state) (t : obj) (value : list obj) : outcome :=
  let h := hp s in
  do _ <- failif (memn t value) Err;
  do _ <- match own (get h t) with
          | None => failif (existsb (fun v => match own (get h v) with Some _ => true | None => false end) value) Err
          | Some w => failif (existsb (fun v => match own (get h v) with Some w' => negb (Nat.eqb w' w) | None => false end) value) Err
          end;
  do b <- id_clash h t value;
  do _ <- failif b Err;
  do a <- anc h t;
  do _ <- failif (existsb (fun ch => memn ch a) value) Err;         (* self in ch.all_children *)
  failif (existsb (fun ch => links_bad h ch (t :: a)) value) Err.

Definition release_child (h0 : heap) (h : heap) (v : obj) : heap :=   (* v.__parent = None; v._detach() *)
  set_own_all (upd h v (with_par None)) (subtree h0 v) None.

Definition adopt_child (h0 : heap) (t : obj) (h : heap) (v : obj) : heap :=
  let h1 := match par (get h v) with
            | Some q => if negb (Nat.eqb q t) && memn v (kids (get h q))
                        then upd h q (fun Q => with_kids (remove1 v (kids Q)) Q) else h
            | None => h
            end in
  let h2 := upd h1 v (with_par (Some t)) in
  match own (get h0 t) with Some w => set_own_all h2 (subtree h0 v) (Some w) | None => h2 end.

Definition set_children_write (s : state) (t : obj) (value : list obj) : state :=
  let h := hp s in
  let released := filter (fun v => negb (memn v value)) (kids (get h t)) in
  let h1 := fold_left (release_child h) released h in
  let h2 := fold_left (adopt_child h t) value h1 in
  mkS (upd h2 t (with_kids value)) (wroots s).

Definition set_children (s : state) (t : obj) (vs : list (option obj)) : state * outcome :=
  let value := dedup (somes vs) in
  mk (set_children_guard s t value) s (set_children_write s t value).

(* ---- Task.predecessors = vs / Task.successors = vs (dir = true: predecessors) ---- *)
Definition fwd (dir : bool) (T : task) : list obj := if dir then preds T else succs T.
Definition bwd (dir : bool) (T : task) : list obj := if dir then succs T else preds T.
Definition with_fwd (dir : bool) := if dir then with_preds else with_succs.
Definition with_bwd (dir : bool) := if dir then with_succs else with_preds.
Definition all_fwd (dir : bool) := if dir then all_preds else all_succs.

Fixpoint cyc_guard (dir : bool) (h : heap) (t : obj) (value : list obj) : outcome :=
  match value with
  | [] => OK
  | v :: r => do l <- all_fwd dir h v; do _ <- failif (memn t l) Err; cyc_guard dir h t r
  end.

Definition set_links_guard (dir : bool) (s : state) (t : obj) (value : list obj) : outcome :=
  let h := hp s in
  do a <- anc h t;                                       (* all_parents *)
  do _ <- failif (existsb (fun v => Nat.eqb v t || memn v a || (negb (Nat.eqb v t) && insub h t v)) value) Err;
  cyc_guard dir h t value.

Definition set_links_write (dir : bool) (s : state) (t : obj) (value : list obj) : state :=
  let h := hp s in
  let h1 := fold_left (fun h' v => if memn t (bwd dir (get h' v))
                                   then upd h' v (fun V => with_bwd dir (remove1 t (bwd dir V)) V) else h')
                      (fwd dir (get h t)) h in
  let h2 := upd h1 t (with_fwd dir value) in
  let h3 := fold_left (fun h' v => if memn t (bwd dir (get h' v)) then h'
                                   else upd h' v (fun V => with_bwd dir (bwd dir V ++ [t]) V)) value h2 in
  mkS h3 (wroots s).

Definition set_links (dir : bool) (s : state) (t : obj) (vs : list (option obj)) : state * outcome :=
  let value := dedup (somes vs) in
  mk (set_links_guard dir s t value) s (set_links_write dir s t value).

Definition set_preds := set_links true.
Definition set_succs := set_links false.

(* ================= list facades ================= *)
Definition andthen (r : state * outcome) (k : state -> state * outcome) : state * outcome :=
  match snd r with Ok _ => k (fst r) | _ => r end.

Definition set_kids (s : state) (o : obj) (l : list obj) : state := mkS (upd (hp s) o (with_kids l)) (wroots s).

(* children.append(t) / roots.append(t) *)
Definition ch_append (s : state) (o : obj) (t : option obj) : state * outcome :=
  match t with None => (s, Err) | Some t' => set_parent s t' (Some o) end.

(* children.remove(t) *)
Definition ch_remove (s : state) (o : obj) (t : option obj) : state * outcome :=
  match t with
  | None => (s, Err)
  | Some t' => let l := kids (get (hp s) o) in
               if memn t' l then set_children s o (map Some (without t' l)) else (s, OK)
  end.

(* children.move(tasks, before=, after=) *)
Fixpoint ins_near (before : bool) (anchor t : obj) (l : list obj) : list obj :=
  match l with
  | [] => [t]
  | y :: r => if Nat.eqb y anchor then (if before then t :: y :: r else y :: t :: r)
              else y :: ins_near before anchor t r
  end.
Definition move_one (before : bool) (anchor : obj) (l : list obj) (t : obj) : list obj :=
  ins_near before anchor t (remove1 t l).

Definition ch_move_guard (s : state) (o : obj) (ts : list obj) (before after : option obj) : outcome :=
  let l := kids (get (hp s) o) in
  do _ <- failif (negb (forallb (fun t => memn t l) ts)) Err;
  do _ <- failif (match before with Some b => negb (memn b l) | None => false end) Err;
  do _ <- failif (match after with Some a => negb (memn a l) | None => false end) Err;
  match before, after with
  | Some _, Some _ => Err
  | None, None => Err
  | Some b, None => failif (memn b ts) Err
  | None, Some a => failif (memn a ts) Err
  end.

Definition ch_move_write (s : state) (o : obj) (ts : list obj) (before after : option obj) : state :=
  let l := kids (get (hp s) o) in
  match before, after with
  | Some b, _ => set_kids s o (fold_left (move_one true b) ts l)
  | None, Some a => set_kids s o (fold_left (move_one false a) ts l)
  | None, None => s
  end.

Definition ch_move (s : state) (o : obj) (ts : list (option obj)) (before after : option obj) :=
  mk (ch_move_guard s o (somes ts) before after) s (ch_move_write s o (somes ts) before after).

(* children.insert(i, t): the index refers to the list after the call *)
Definition py_index (i : Z) (len : nat) : nat := Z.to_nat (if i <? 0 then Z.of_nat len + i else i).

Definition ch_insert (s : state) (o : obj) (i : Z) (t : option obj) : state * outcome :=
  match t with
  | None => (s, Err)
  | Some t' =>
      let new_len := S (length (without t' (kids (get (hp s) o)))) in
      if negb ((- Z.of_nat new_len <=? i) && (i <? Z.of_nat new_len)) then (s, Crash IndexError)
      else andthen (set_parent s t' (Some o)) (fun s1 =>
             let l := kids (get (hp s1) o) in
             let anchor := nth (py_index i (length l)) l t' in
             if Nat.eqb anchor t' then (s1, OK)
             else (set_kids s1 o (move_one true anchor l t'), OK))    (* move's own checks hold here *)
  end.

(* children.sort(key, reverse) *)
Inductive sort_key := KId | KPrio | KName | KBad | KEst.
Inductive keyv := VZ (z : Z) | VT (t : list Z).

Fixpoint lex_leb (a b : list Z) : bool :=
  match a, b with
  | [], _ => true
  | _ :: _, [] => false
  | x :: a', y :: b' => (x <? y) || ((x =? y) && lex_leb a' b')
  end.

Definition key_leb (a b : keyv) : bool :=
  match a, b with
  | VZ x, VZ y => x <=? y
  | VT x, VT y => lex_leb x y
  | _, _ => true
  end.

Definition key_of (k : sort_key) (T : task) : res keyv :=
  match k with
  | KId => Ok (VZ (tid T))
  | KPrio => match prio T with Some v => Ok (VZ v) | None => Crash AttributeError end
  | KName => Ok (VT (name T))
  | KBad => Err
  | KEst => Ok (VZ (match est T with Some v => v | None => 0 end))   (* None: see none_clash *)
  end.

Fixpoint keys_of (k : sort_key) (h : heap) (l : list obj) : res (list (keyv * obj)) :=
  match l with
  | [] => Ok []
  | x :: r => do v <- key_of k (get h x); do r' <- keys_of k h r; Ok ((v, x) :: r')
  end.

Fixpoint ins_sorted (leb : keyv -> keyv -> bool) (x : keyv * obj) (l : list (keyv * obj)) :=
  match l with
  | [] => [x]
  | y :: r => if leb (fst x) (fst y) then x :: y :: r else y :: ins_sorted leb x r
  end.
Definition stable_sort (leb : keyv -> keyv -> bool) (l : list (keyv * obj)) := fold_right (ins_sorted leb) [] l.

(* sorting by an attribute that every child has but whose value is None for some of them (the
   estimate): sorted() compares every element with at least one other as soon as there are two, and a
   comparison with None raises TypeError - before the list is touched *)
Definition est_is_none (h : heap) (x : obj) : bool := match est (get h x) with None => true | Some _ => false end.
Definition none_clash (s : state) (o : obj) (k : sort_key) : bool :=
  match k with
  | KEst => (2 <=? length (kids (get (hp s) o)))%nat && existsb (est_is_none (hp s)) (kids (get (hp s) o))
  | _ => false
  end.

Definition ch_sort (s : state) (o : obj) (k : sort_key) (reverse : bool) : state * outcome :=
  if none_clash s o k then (s, Crash TypeError) else
  match k with
  | KBad => (s, Err)                                           (* unsupported key type *)
  | _ =>
      match keys_of k (hp s) (kids (get (hp s) o)) with
      | Ok kl => let leb := if reverse then (fun a b => key_leb b a) else key_leb in
                 (set_kids s o (map snd (stable_sort leb kl)), OK)
      | Err => (s, Err)
      | Crash c => (s, Crash c)
      end
  end.

(* children.reorder(ids) *)
Fixpoint reorder_go (h : heap) (l : list obj) (ids : list Z) (newl rest : list obj) : res (list obj) :=
  match ids with
  | [] => Ok (newl ++ rest)
  | i :: r => match find (fun c => Z.eqb (tid (get h c)) i) l with
              | None => Crash StopIteration
              | Some c => if memn c rest then reorder_go h l r (newl ++ [c]) (remove1 c rest)
                          else Crash ValueError
              end
  end.

Definition ch_reorder (s : state) (o : obj) (ids : list Z) : state * outcome :=
  let l := kids (get (hp s) o) in
  match reorder_go (hp s) l ids [] l with
  | Ok l' => (set_kids s o l', OK)
  | Err => (s, Err)
  | Crash c => (s, Crash c)
  end.

(* a loop of calls that stops at the first one that raises *)
Fixpoint seq_calls {A} (f : state -> A -> state * outcome) (s : state) (l : list A) : state * outcome :=
  match l with
  | [] => (s, OK)
  | x :: r => andthen (f s x) (fun s1 => seq_calls f s1 r)
  end.

(* list.remove_all(id_in_=ids) on a children list *)
Definition ch_remove_all (s : state) (o : obj) (ids : list Z) : state * outcome :=
  let m := filter (fun c => memz (tid (get (hp s) c)) ids) (kids (get (hp s) o)) in
  seq_calls (fun s' c => ch_remove s' o (Some c)) s m.

(* predecessors / successors facades *)
Definition ln_append (dir : bool) (s : state) (t : obj) (x : option obj) : state * outcome :=
  match x with
  | None => (s, Err)
  | Some x' => set_links dir s t (map Some (fwd dir (get (hp s) t) ++ [x']))
  end.

Definition ln_remove (dir : bool) (s : state) (t : obj) (x : option obj) : state * outcome :=
  match x with
  | None => (s, Err)
  | Some x' => let l := fwd dir (get (hp s) t) in
               if memn x' l then set_links dir s t (map Some (without x' l)) else (s, OK)
  end.

Definition ln_remove_all (dir : bool) (s : state) (t : obj) (ids : list Z) : state * outcome :=
  let m := filter (fun c => memz (tid (get (hp s) c)) ids) (fwd dir (get (hp s) t)) in
  seq_calls (fun s' c => ln_remove dir s' t (Some c)) s m.

(* operators: t // other, t << other, t >> other  (facade += other, then the setter) *)
Definition op_floordiv (s : state) (o : obj) (vs : list (option obj)) :=
  set_children s o (map Some (kids (get (hp s) o)) ++ vs).
Definition op_shift (dir : bool) (s : state) (t : obj) (vs : list (option obj)) :=
  set_links dir s t (map Some (fwd dir (get (hp s) t)) ++ vs).

(* An operation that calls several relation setters in a row saves the relations of the tasks involved and
   puts them back when one of the calls raises (task.py, _AllOrNothing): all of the calls take effect or
   none does.  [.._seq] is the bare sequence of calls (the code before that repair: not atomic). *)
Definition all_or_nothing (s : state) (r : state * outcome) : state * outcome :=
  match snd r with Ok _ => r | _ => (s, snd r) end.

(* on an (immutable) task list: a loop over its elements *)
Definition lst_shift_seq (dir : bool) (s : state) (ts : list obj) (vs : list (option obj)) :=
  seq_calls (fun s' t => op_shift dir s' t vs) s ts.
Definition lst_set_parent_seq (s : state) (ts : list obj) (p : option obj) :=
  seq_calls (fun s' t => set_parent s' t p) s ts.
Definition lst_shift (dir : bool) (s : state) (ts : list obj) (vs : list (option obj)) :=
  all_or_nothing s (lst_shift_seq dir s ts vs).
Definition lst_set_parent (s : state) (ts : list obj) (p : option obj) :=
  all_or_nothing s (lst_set_parent_seq s ts p).

(* bulk assignment of a relation list to every element of a task list:  lst.children = vs,
   lst.predecessors = vs (dir = true), lst.successors = vs.  The SAME value is handed to every element (the
   value is materialised once); for children each later element takes the tasks away from the earlier one. *)
Definition lst_set_children_seq (s : state) (ts : list obj) (vs : list (option obj)) :=
  seq_calls (fun s' t => set_children s' t vs) s ts.
Definition lst_set_links_seq (dir : bool) (s : state) (ts : list obj) (vs : list (option obj)) :=
  seq_calls (fun s' t => set_links dir s' t vs) s ts.
Definition lst_set_children (s : state) (ts : list obj) (vs : list (option obj)) :=
  all_or_nothing s (lst_set_children_seq s ts vs).
Definition lst_set_links (dir : bool) (s : state) (ts : list obj) (vs : list (option obj)) :=
  all_or_nothing s (lst_set_links_seq dir s ts vs).

(* ================= WBS ================= *)
Definition wroot (s : state) (w : wid) : obj := nth w (wroots s) O.

Definition wbs_tasks (s : state) (w : wid) : res (list obj) := all_children (hp s) (wroot s w).

(* WBS.__remove: depth-first search of the task that lists [t] among its children *)
Definition wbs_remove_task (s : state) (w : wid) (t : obj) : state * outcome :=
  match wbs_tasks s w with
  | Ok l =>
      match find (fun q => memn t (kids (get (hp s) q))) (wroot s w :: l) with
      | Some q => ch_remove s q (Some t)
      | None => (s, OK)
      end
  | Err => (s, Err)
  | Crash c => (s, Crash c)
  end.

Definition wbs_remove (s : state) (w : wid) (t : option obj) : state * outcome :=
  match t with None => (s, Err) | Some t' => wbs_remove_task s w t' end.

Definition wbs_remove_all (s : state) (w : wid) (ids : list Z) : state * outcome :=
  match wbs_tasks s w with
  | Ok l => seq_calls (fun s' t => wbs_remove_task s' w t) s
                      (filter (fun c => memz (tid (get (hp s) c)) ids) l)
  | Err => (s, Err)
  | Crash c => (s, Crash c)
  end.

(* wbs[id] *)
Definition wbs_getitem (s : state) (w : wid) (i : Z) : res obj :=
  do l <- wbs_tasks s w;
  match find (fun c => Z.eqb (tid (get (hp s) c)) i) l with Some c => Ok c | None => Err end.

(* ================= construction ================= *)
Definition alloc (s : state) (T : task) : state := mkS (hp s ++ [T]) (wroots s).

Definition new_task (s : state) (i : Z) (pr : option Z) (nm : list Z) (e : option Z) : state * outcome :=
  match e with
  | Some v => if v <? 0 then (s, Err) else (alloc s (mkT i None [] [] [] None false pr nm e), OK)
  | None => (alloc s (mkT i None [] [] [] None false pr nm e), OK)
  end.

(* Task(id, parent=, children=, successors=, predecessors=): the setters one after the other (F10) *)
Definition new_task_rel_seq (s : state) (i : Z) (nm : list Z) (p : option obj)
           (ch : option (list (option obj))) (su pr : list (option obj)) : state * outcome :=
  let t := length (hp s) in
  let s0 := alloc s (mkT i None [] [] [] None false None nm None) in
  andthen (match p with Some _ => set_parent s0 t p | None => (s0, OK) end) (fun s1 =>
  andthen (match ch with Some c => set_children s1 t c | None => (s1, OK) end) (fun s2 =>
  andthen (match su with [] => (s2, OK) | _ => set_succs s2 t su end) (fun s3 =>
           match pr with [] => (s3, OK) | _ => set_preds s3 t pr end))).

(* a constructor that raises leaves no task behind and nothing changed *)
Definition new_task_rel (s : state) (i : Z) (nm : list Z) (p : option obj)
           (ch : option (list (option obj))) (su pr : list (option obj)) : state * outcome :=
  all_or_nothing s (new_task_rel_seq s i nm p ch su pr).

Definition new_wbs (s : state) : state * outcome :=
  let r := length (hp s) in
  (mkS (hp s ++ [mkT EMPTY_ID None [] [] [] (Some (length (wroots s))) true None [] None]) (wroots s ++ [r]), OK).

Definition set_est (s : state) (t : obj) (e : option Z) : state * outcome :=
  match e with
  | Some v => if v <? 0 then (s, Err) else (mkS (upd (hp s) t (with_est e)) (wroots s), OK)
  | None => (mkS (upd (hp s) t (with_est e)) (wroots s), OK)
  end.
Definition set_prio (s : state) (t : obj) (v : Z) : state * outcome :=
  (mkS (upd (hp s) t (with_prio (Some v))) (wroots s), OK).

(* ================= operations ================= *)
Inductive op :=
| NewTask (i : Z) (pr : option Z) (nm : list Z) (e : option Z)
| NewTaskRel (i : Z) (nm : list Z) (p : option obj) (ch : option (list (option obj))) (su pr : list (option obj))
| NewWbs
| SetParent (t : obj) (p : option obj)
| SetChildren (t : obj) (vs : list (option obj))       (* also WBS.roots = vs, with t the hidden root *)
| SetLinks (dir : bool) (t : obj) (vs : list (option obj))
| ChAppend (o : obj) (t : option obj)
| ChRemove (o : obj) (t : option obj)
| ChInsert (o : obj) (i : Z) (t : option obj)
| ChMove (o : obj) (ts : list (option obj)) (before after : option obj)
| ChSort (o : obj) (k : sort_key) (reverse : bool)
| ChReorder (o : obj) (ids : list Z)
| ChRemoveAll (o : obj) (ids : list Z)
| LnAppend (dir : bool) (t : obj) (x : option obj)
| LnRemove (dir : bool) (t : obj) (x : option obj)
| LnRemoveAll (dir : bool) (t : obj) (ids : list Z)
| OpFloordiv (o : obj) (vs : list (option obj))        (* t // vs, wbs // vs *)
| OpShift (dir : bool) (t : obj) (vs : list (option obj))
| LstShift (dir : bool) (ts : list obj) (vs : list (option obj))
| LstSetParent (ts : list obj) (p : option obj)
| LstSetChildren (ts : list obj) (vs : list (option obj))          (* lst.children = vs *)
| LstSetLinks (dir : bool) (ts : list obj) (vs : list (option obj)) (* lst.predecessors / lst.successors = vs *)
| WbsRemove (w : wid) (t : option obj)
| WbsRemoveAll (w : wid) (ids : list Z)
| SetEst (t : obj) (e : option Z)
| SetPrio (t : obj) (v : Z).

(* every object / WBS named by the call exists (a Python call cannot name anything else) *)
Definition okobj (s : state) (x : obj) : bool := Nat.ltb x (length (hp s)).
Definition okopt (s : state) (x : option obj) : bool := match x with Some y => okobj s y | None => true end.
Definition oklist (s : state) (l : list (option obj)) : bool := forallb (okopt s) l.
Definition okw (s : state) (w : wid) : bool := Nat.ltb w (length (wroots s)).

Definition args_ok (s : state) (o : op) : bool :=
  match o with
  | NewTask _ _ _ _ | NewWbs => true
  | NewTaskRel _ _ p ch su pr =>
      okopt s p && match ch with Some c => oklist s c | None => true end && oklist s su && oklist s pr
  | SetParent t p => okobj s t && okopt s p
  | SetChildren t vs | SetLinks _ t vs | OpFloordiv t vs | OpShift _ t vs => okobj s t && oklist s vs
  | ChAppend o t | ChRemove o t | ChInsert o _ t | LnAppend _ o t | LnRemove _ o t => okobj s o && okopt s t
  | ChMove o ts b a => okobj s o && oklist s ts && okopt s b && okopt s a
  | ChSort o _ _ | ChReorder o _ | ChRemoveAll o _ | LnRemoveAll _ o _ | SetEst o _ | SetPrio o _ => okobj s o
  | LstShift _ ts vs => forallb (okobj s) ts && oklist s vs
  | LstSetParent ts p => forallb (okobj s) ts && okopt s p
  | LstSetChildren ts vs | LstSetLinks _ ts vs => forallb (okobj s) ts && oklist s vs
  | WbsRemove w t => okw s w && okopt s t
  | WbsRemoveAll w _ => okw s w
  end.

(* every object named by the call is one a Python caller can hold: a task object, never the hidden root of a
   WBS - except as the OWNER of a children list (wbs.roots = ..., wbs.roots.append(t), wbs // x, ...).
   pub_args implies args_ok; the harness evaluates it on every generated call (Graph/Check.v, clause 98). *)
Definition pubobj (s : state) (x : obj) : bool := okobj s x && negb (hidden (get (hp s) x)).
Definition pubopt (s : state) (x : option obj) : bool := match x with Some y => pubobj s y | None => true end.
Definition publist (s : state) (l : list (option obj)) : bool := forallb (pubopt s) l.

Definition pub_args (s : state) (o : op) : bool :=
  match o with
  | NewTask _ _ _ _ | NewWbs => true
  | NewTaskRel _ _ p ch su pr =>
      pubopt s p && match ch with Some c => publist s c | None => true end && publist s su && publist s pr
  | SetParent t p => pubobj s t && pubopt s p
  | SetChildren t vs | OpFloordiv t vs => okobj s t && publist s vs
  | SetLinks _ t vs | OpShift _ t vs => pubobj s t && publist s vs
  | ChAppend o t | ChRemove o t | ChInsert o _ t => okobj s o && pubopt s t
  | LnAppend _ o t | LnRemove _ o t => pubobj s o && pubopt s t
  | ChMove o ts b a => okobj s o && publist s ts && pubopt s b && pubopt s a
  | ChSort o _ _ | ChReorder o _ | ChRemoveAll o _ => okobj s o
  | LnRemoveAll _ o _ | SetEst o _ | SetPrio o _ => pubobj s o
  | LstShift _ ts vs => forallb (pubobj s) ts && publist s vs
  | LstSetParent ts p => forallb (pubobj s) ts && pubopt s p
  | LstSetChildren ts vs | LstSetLinks _ ts vs => forallb (pubobj s) ts && publist s vs
  | WbsRemove w t => okw s w && pubopt s t
  | WbsRemoveAll w _ => okw s w
  end.

Definition step' (s : state) (o : op) : state * outcome :=
  match o with
  | NewTask i pr nm e => new_task s i pr nm e
  | NewTaskRel i nm p ch su pr => new_task_rel s i nm p ch su pr
  | NewWbs => new_wbs s
  | SetParent t p => set_parent s t p
  | SetChildren t vs => set_children s t vs
  | SetLinks d t vs => set_links d s t vs
  | ChAppend o t => ch_append s o t
  | ChRemove o t => ch_remove s o t
  | ChInsert o i t => ch_insert s o i t
  | ChMove o ts b a => ch_move s o ts b a
  | ChSort o k r => ch_sort s o k r
  | ChReorder o ids => ch_reorder s o ids
  | ChRemoveAll o ids => ch_remove_all s o ids
  | LnAppend d t x => ln_append d s t x
  | LnRemove d t x => ln_remove d s t x
  | LnRemoveAll d t ids => ln_remove_all d s t ids
  | OpFloordiv o vs => op_floordiv s o vs
  | OpShift d t vs => op_shift d s t vs
  | LstShift d ts vs => lst_shift d s ts vs
  | LstSetParent ts p => lst_set_parent s ts p
  | LstSetChildren ts vs => lst_set_children s ts vs
  | LstSetLinks d ts vs => lst_set_links d s ts vs
  | WbsRemove w t => wbs_remove s w t
  | WbsRemoveAll w ids => wbs_remove_all s w ids
  | SetEst t e => set_est s t e
  | SetPrio t v => set_prio s t v
  end.

(* OutOfFuel here = "the call names an object that does not exist": no Python call can do that *)
Definition step (s : state) (o : op) : state * outcome :=
  if args_ok s o then step' s o else (s, Crash OutOfFuel).

Definition run (s : state) (ops : list op) : state := fold_left (fun s' o => fst (step s' o)) ops s.
