(* C15, the remove_all loops: on a well-formed state ONE removal is always accepted.

   children.remove(c) assigns a sub-list of the present children, predecessors.remove(x) a sub-list of the
   present links; every guard of the setters holds for such a value on a state satisfying WF (this is
   the path reasoning that Graph/AtomicProofs.v leaves open; it rests on the lemma libraries
   Graph/AncLemmas*.v and Graph/DepLemmas.v).  Together with the preservation of WF by ch_remove /
   ln_remove (C01) this gives the full C15 statements for remove_all: see the end of the file. *)
From PJ Require Import Base.Prelude Graph.Model Graph.Invariant
                       Graph.AncLemmas Graph.AncLemmas2 Graph.DepLemmas Graph.LinksProofs Graph.LinksOps
                       Graph.AtomicProofs.
Local Open Scope nat_scope.

Lemma existsb_false_intro {A} (f : A -> bool) l : (forall x, In x l -> f x = true -> False) -> existsb f l = false.
Proof.
  intro H. destruct (existsb f l) eqn:E; [|reflexivity]. exfalso.
  apply existsb_exists in E. destruct E as (x & Hx & Fx). exact (H x Hx Fx).
Qed.

Lemma bind_OK_intro (X : outcome) (k : unit -> outcome) : X = OK -> k tt = OK -> bind X k = OK.
Proof. intros -> H. exact H. Qed.

(* ---- any sub-list of the present children is an acceptable value of the children setter ---- *)
Theorem set_children_guard_sublist s o value :
  WF s -> incl value (kids (get (hp s) o)) -> set_children_guard s o value = OK.
Proof.
  intros (Hfin & Hpc & Hacy & Hsym & Hdag & Hsep & Hids & Hhid & Hown) Hi.
  set (h := hp s) in *.
  assert (A : acyclic h) by exact Hacy.
  assert (Hp : forall v, In v value -> par (get h v) = Some o).
  { intros v Hv. apply (proj1 Hpc). apply Hi. exact Hv. }
  assert (Hlt : forall v, In v value -> v < length h /\ o < length h).
  { intros v Hv. split.
    - destruct Hfin as [Hf _]. specialize (Hf o). cbv zeta in Hf. apply (proj1 (proj2 Hf)).
      apply in_or_app. left. apply Hi. exact Hv.
    - apply (kids_In_lt h o v). apply Hi. exact Hv. }
  assert (Hroot : forall v r, In v value -> (Root h v r <-> Root h o r)).
  { intros v r Hv. apply Root_par. apply Hp. exact Hv. }
  unfold set_children_guard. cbv zeta. fold h.
  (* 1. the task itself is not among its children *)
  assert (G1 : memn o value = false).
  { apply memn_false. intro Hin. apply (A o). apply Anc_par. apply Hp. exact Hin. }
  apply bind_OK_intro; [rewrite G1; reflexivity|].
  (* 2. owners *)
  apply bind_OK_intro.
  { destruct (own (get h o)) as [w|] eqn:Oo.
    - rewrite existsb_false_intro; [reflexivity|]. intros v Hv Fv.
      destruct (own (get h v)) as [w'|] eqn:Ov; [|discriminate Fv].
      apply negb_true_iff, Nat.eqb_neq in Fv. apply Fv.
      destruct (Hlt v Hv) as [Lv Lo].
      apply (Hown v w' Lv) in Ov. destruct Ov as [Lw' Rv].
      apply (Hown o w Lo) in Oo. destruct Oo as [Lw Ro].
      apply (Hroot v _ Hv) in Rv. fold h in Rv, Ro.
      pose proof (Root_unique h o _ _ Rv Ro) as E.
      destruct Hhid as [Nw _]. apply (proj1 (NoDup_nth (wroots s) 0) Nw w' w Lw' Lw E).
    - rewrite existsb_false_intro; [reflexivity|]. intros v Hv Fv.
      destruct (own (get h v)) as [w'|] eqn:Ov; [|discriminate Fv].
      destruct (Hlt v Hv) as [Lv Lo].
      apply (Hown v w' Lv) in Ov. destruct Ov as [Lw' Rv]. apply (Hroot v _ Hv) in Rv.
      assert (X : own (get h o) = Some w') by (apply (Hown o w' Lo); split; assumption).
      congruence. }
  (* 3. ids: nothing comes in from outside the tree *)
  destruct (id_clash_spec h o value A) as (r & b & Er & Rr & Eb & Hb).
  assert (Nin : forall x, ~ Incoming h r value x).
  { intros x (Lx & (c & Hc & Sx) & Nr). apply Nr. apply (Root_Sub h c x r Sx). apply (Hroot c r Hc). exact Rr. }
  assert (Bf : b = false).
  { apply Hb. split; [intros x y Hx; destruct (Nin x Hx) | intros x y Hx; destruct (Nin x Hx)]. }
  rewrite Eb, Bf. cbn [bind failif].
  (* 4. ancestors *)
  destruct (anc_ok h o A) as (a & Ea & _). rewrite Ea. cbn [bind].
  assert (Ha : forall y, In y a <-> Anc h o y) by (apply anc_Ok_In; exact Ea).
  assert (G5 : existsb (fun ch => memn ch a) value = false).
  { apply existsb_false_intro. intros v Hv Fv. apply memn_In, Ha in Fv.
    apply (A o). eapply Anc_trans; [exact Fv | apply Anc_par; apply Hp; exact Hv]. }
  rewrite G5. cbn [failif bind].
  (* 5. no task below a child is linked with the task or one of its ancestors *)
  assert (G6 : existsb (fun ch => links_bad h ch (o :: a)) value = false).
  { apply existsb_false_intro. intros v Hv Fv.
    apply (links_bad_spec h v (o :: a) A) in Fv. destruct Fv as (x & l & Lx & Sx & Hl & Hu).
    assert (Axo : Anc h x o).
    { destruct Sx as [->|Sx]; [apply Anc_par; apply Hp; exact Hv|].
      eapply Anc_trans; [exact Sx | apply Anc_par; apply Hp; exact Hv]. }
    assert (Axl : Anc h x l).
    { destruct Hu as [<-|Hu]; [exact Axo|]. apply Ha in Hu. eapply Anc_trans; eassumption. }
    apply in_app_or in Hl. destruct Hl as [Hl|Hl].
    - apply (proj1 (Hsep x l Hl)). exact Axl.
    - apply (proj1 Hsym) in Hl. apply (proj2 (Hsep l x Hl)). exact Axl. }
  rewrite G6. reflexivity.
Qed.

Theorem ch_remove_accepts : ch_remove_accepts_statement.
Proof.
  intros s o c W. unfold ch_remove. cbv zeta.
  destruct (memn c (kids (get (hp s) o))) eqn:M; [|reflexivity].
  unfold set_children. cbv zeta.
  assert (N : NoDup (kids (get (hp s) o))) by (destruct W as (_ & Hpc & _); apply (proj2 Hpc)).
  rewrite somes_map_Some, dedup_NoDup_id by (apply NoDup_without; exact N).
  rewrite set_children_guard_sublist; [reflexivity | exact W |].
  intros x Hx. apply In_without in Hx. tauto.
Qed.

(* ---- any sub-list of the present links is an acceptable value of the links setter ---- *)
Theorem set_links_guard_sublist d s t value :
  WF s -> incl value (fwd d (get (hp s) t)) -> set_links_guard d s t value = OK.
Proof.
  intros W Hi. pose proof W as (Hfin & Hpc & Hacy & Hsym & Hdag & Hsep & Hids & Hhid & Hown).
  set (h := hp s) in *.
  assert (A : acyclic h) by exact Hacy.
  (* a present link is a dependency in one of the two directions, never a relative *)
  assert (Hrel : forall v, In v value -> v <> t /\ ~ Anc h t v /\ ~ Anc h v t).
  { intros v Hv. apply Hi in Hv. destruct d; cbn [fwd] in Hv.
    - destruct (Hsep t v Hv) as [N1 N2]. split; [|split; assumption].
      intros ->. apply (Hdag t). apply Dep_one. exact Hv.
    - apply (proj1 Hsym) in Hv. destruct (Hsep v t Hv) as [N1 N2]. split; [|split; assumption].
      intros ->. apply (Hdag t). apply Dep_one. exact Hv. }
  unfold set_links_guard. cbv zeta. fold h.
  destruct (anc_ok h t A) as (a & Ea & _). rewrite Ea. cbn [bind].
  assert (Ha : forall y, In y a <-> Anc h t y) by (apply anc_Ok_In; exact Ea).
  assert (G1 : existsb (fun v => Nat.eqb v t || memn v a || (negb (Nat.eqb v t) && insub h t v)) value = false).
  { apply existsb_false_intro. intros v Hv Fv. destruct (Hrel v Hv) as (N0 & N1 & N2).
    apply orb_true_iff in Fv. destruct Fv as [Fv|Fv]; [apply orb_true_iff in Fv; destruct Fv as [Fv|Fv]|].
    - apply Nat.eqb_eq in Fv. contradiction.
    - apply memn_In, Ha in Fv. contradiction.
    - apply andb_true_iff in Fv. destruct Fv as [_ Fv]. apply (insub_Sub h t v A) in Fv.
      destruct Fv as [Fv|Fv]; contradiction. }
  rewrite G1. cbn [failif bind].
  (* the cycle check: t is not reachable from one of its own links *)
  assert (Hnext : forall v, In v value -> In v (fnext d h t)) by (intros v Hv; apply Hi; exact Hv).
  assert (Hdagf : forall z, ~ Reach (fnext d h) z z) by (apply (dag_fnext d s Hsym); exact Hdag).
  clear G1 Hi Hrel. induction value as [|v r IH]; [reflexivity|]. cbn [cyc_guard].
  destruct (all_fwd_total d s v Hfin Hsym Hdag) as (l & El). fold h in El. rewrite El. cbn [bind].
  assert (Nt : memn t l = false).
  { apply memn_false. intro Hin. apply (all_fwd_spec d h v l El) in Hin.
    apply (Hdagf t). apply (Reach_step (fnext d h) t t). exists v. split; [apply Hnext; left; reflexivity|].
    right. exact Hin. }
  rewrite Nt. cbn [failif bind]. apply IH. intros x Hx. apply Hnext. right. exact Hx.
Qed.

Theorem ln_remove_accepts : ln_remove_accepts_statement.
Proof.
  intros s d t x W. unfold ln_remove. cbv zeta.
  destruct (memn x (fwd d (get (hp s) t))) eqn:M; [|reflexivity].
  unfold set_links. cbv zeta.
  assert (N : NoDup (fwd d (get (hp s) t))).
  { destruct W as (_ & _ & _ & Hsym & _). destruct d; cbn [fwd]; apply (proj2 Hsym). }
  rewrite somes_map_Some, dedup_NoDup_id by (apply NoDup_without; exact N).
  rewrite set_links_guard_sublist; [reflexivity | exact W |].
  intros y Hy. apply In_without in Hy. tauto.
Qed.

Theorem wbs_tasks_total : wbs_tasks_total_statement.
Proof.
  intros s w (Hfin & Hpc & Hacy & _). unfold wbs_tasks. eexists.
  apply all_children_ok; [apply I_pc_pc_down; exact Hpc | exact Hacy].
Qed.

(* ---- the full C15 statements for the loops, from the preservation of WF by one removal (C01) ---- *)
Theorem C15_ch_remove_all : ch_remove_WF_statement -> C15_ch_remove_all_statement.
Proof. intro TW. exact (C15_ch_remove_all_from_total ch_remove_accepts TW). Qed.

Theorem C15_ln_remove_all : ln_remove_WF_statement -> C15_ln_remove_all_statement.
Proof. intro TW. exact (C15_ln_remove_all_from_total ln_remove_accepts TW). Qed.

Theorem C15_wbs_remove_all : ch_remove_WF_statement -> C15_wbs_remove_all_statement.
Proof. intro TW. exact (C15_wbs_remove_all_from_total ch_remove_accepts TW wbs_tasks_total). Qed.

(* stronger than atomicity: on a well-formed state the three loops never raise *)
Theorem remove_all_never_raises :
  ch_remove_WF_statement -> ln_remove_WF_statement ->
  forall s, WF s ->
    (forall o ids, snd (ch_remove_all s o ids) = OK) /\
    (forall d t ids, snd (ln_remove_all d s t ids) = OK) /\
    (forall w ids, snd (wbs_remove_all s w ids) = OK).
Proof.
  intros TC TL s W. split; [|split].
  - intros o ids. unfold ch_remove_all.
    apply (seq_calls_total (fun s' c => ch_remove s' o (Some c)) WF); [|exact W].
    intros s' c W'. split; [apply ch_remove_accepts | apply TC]; exact W'.
  - intros d t ids. unfold ln_remove_all.
    apply (seq_calls_total (fun s' c => ln_remove d s' t (Some c)) WF); [|exact W].
    intros s' c W'. split; [apply ln_remove_accepts | apply TL]; exact W'.
  - intros w ids. unfold wbs_remove_all. destruct (wbs_tasks_total s w W) as [l ->].
    apply (seq_calls_total (fun s' c => wbs_remove_task s' w c) WF); [|exact W].
    intros s' c W'. unfold wbs_remove_task. destruct (wbs_tasks_total s' w W') as [l' ->].
    destruct (find _ _); [split; [apply ch_remove_accepts | apply TC]; exact W' | auto].
Qed.

(* ---- dependency lists: WF is preserved by one removal (Graph/LinksOps.v, for a public task; a hidden WBS
   root and an object outside the heap have no links, the call is then the identity) ---- *)
Theorem ln_remove_keeps_WF : ln_remove_WF_statement.
Proof.
  intros s d t x W.
  assert (Nil : fwd d (get (hp s) t) = [] -> WF (fst (ln_remove d s t (Some x)))).
  { intro E. unfold ln_remove. cbv zeta. rewrite E. exact W. }
  destruct (Nat.lt_ge_cases t (length (hp s))) as [L|G].
  - destruct (hidden (get (hp s) t)) eqn:Hd.
    + apply Nil. destruct W as (F & _ & _ & _ & _ & _ & _ & Hid & _).
      destruct (hidden_no_links s t F Hid L Hd) as [Ep Es]. destruct d; cbn [fwd]; assumption.
    + apply ln_remove_WF; [exact W | split; assumption].
  - apply Nil. rewrite get_out by exact G. destruct d; reflexivity.
Qed.

(* C15 for predecessors.remove_all / successors.remove_all: fully proved *)
Theorem C15_ln_remove_all_proved : C15_ln_remove_all_statement.
Proof. exact (C15_ln_remove_all ln_remove_keeps_WF). Qed.

(* ---- everything together: on well-formed states ALL operation kinds ---- *)
Definition atomic_op_wf (o : op) : bool :=
  atomic_op o ||
  match o with ChRemoveAll _ _ | LnRemoveAll _ _ _ | WbsRemoveAll _ _ => true | _ => false end.

Theorem C15_atomic_wf :
  ch_remove_WF_statement ->
  forall s o, WF s -> atomic_op_wf o = true -> snd (step s o) <> OK -> fst (step s o) = s.
Proof.
  intros TW s o W A. destruct (atomic_op o) eqn:E; [apply C15_atomic; exact E|].
  unfold atomic_op_wf in A. rewrite E in A. cbn [orb] in A.
  destruct o; try discriminate A.
  - apply (C15_ch_remove_all TW); exact W.
  - apply C15_ln_remove_all_proved; exact W.
  - apply (C15_wbs_remove_all TW); exact W.
Qed.

(* every operation kind is covered *)
Lemma atomic_op_wf_all o : atomic_op_wf o = true.
Proof. destruct o; reflexivity. Qed.
