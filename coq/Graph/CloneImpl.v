(* Graph/CloneImpl.v - WBS.clone / WBS.subtree as the CODE performs it (definitions only).

   Clone.v states the RESULT of the call (clone_sel).  This file mirrors wbs.py __clone / __clone_tasks step by
   step, with the model's own public setters (Model.v set_parent / set_children / set_preds / set_succs), so that
   every validation of every setter is run on the intermediate states:

     roots        = [r for r in _unique_tasks(roots) if no ancestor of r is selected]      sel_roots
     all_tasks    = roots with their descendants, preorder (dictionary by identity)        members
     cloned_tasks = {id(t): t.clone()}           one fresh task per member: same id and public attributes,
                                                 NO relations, no owner                    blank_of, alloc_copies
                    + setdefault(id(o), o)       for every predecessor / successor o of a member
                                                 with o.wbs != self                        dict_get (second case)
     for t in all_tasks (preorder), c = cloned_tasks[id(t)]:                               rebuild_one
        c.parent       = cloned_tasks.get(id(t.parent)) if t.parent else None              set_parent
        c.children     = [cloned_tasks[id(ch)] for ch in t.children]                       set_children
        c.predecessors = [cloned_tasks[id(p)] for p in t.predecessors if id(p) in cloned_tasks]   set_preds
        c.successors   = [cloned_tasks[id(p)] for p in t.successors   if id(p) in cloned_tasks]   set_succs
     cloned_project = WBS();  cloned_project.roots = [cloned_tasks[id(r)] for r in roots]  new_wbs, set_children

   t.parent / t.children / t.predecessors / t.successors of the ORIGINAL are read from the state current at that
   moment (live), the dictionary is computed before the loop, as in the code.  The first call that raises ends the
   sequence (andthen / seq_calls): clone() raises.

   ALLOCATION ORDER.  The code creates the copies first and the hidden root of the new WBS (WBS()) last; clone_sel
   numbers the hidden root first (object n = length heap) and the copies after it (n + 1 + position).  Object
   numbers are not observable (the harness compares snapshots by identity / position), a fresh hidden root is an
   isolated object that no setter call of the loop names or reaches, so creating it before or after the loop gives
   the same graph.  [clone_impl] allocates in the order of clone_sel (so that its result can be compared with
   clone_sel without a renumbering); [clone_impl_code] allocates exactly in the order of the code: the copy of the
   i-th member is object n + i, the hidden root object n + length mem.  The two results correspond through the
   bijection [renum] on object numbers (identity below n): see CloneImplProofs (example by computation). *)
From Coq Require Import Permutation.
From PJ Require Import Base.Prelude Graph.Model Graph.Clone.
Local Open Scope nat_scope.

(* Task.clone(): Task(id, estimate, spent) + every public attribute; no parent, children, links, owner *)
Definition blank_of (h : heap) (x : obj) : task :=
  let T := get h x in mkT (tid T) None [] [] [] None false (prio T) (name T) (est T).

Definition alloc_copies (s0 : state) (h : heap) (mem : list obj) : state :=
  fold_left (fun s' x => alloc s' (blank_of h x)) mem s0.

(* the dictionary cloned_tasks, keyed by object identity.  [f] = the copy of a member (an object number) *)
Definition linked_with (h : heap) (mem : list obj) (y : obj) : bool :=
  existsb (fun t => memn y (preds (get h t)) || memn y (succs (get h t))) mem.

Definition dict_get (f : obj -> obj) (h : heap) (w : wid) (mem : list obj) (y : obj) : option obj :=
  if memn y mem then Some (f y)
  else if negb (in_wbs h w y) && linked_with h mem y then Some y      (* setdefault(id(o), o): o.wbs != self *)
  else None.

(* [cloned_tasks[id(p)] for p in l if id(p) in cloned_tasks] *)
Definition dict_list (f : obj -> obj) (h : heap) (w : wid) (mem : list obj) (l : list obj) : list obj :=
  flat_map (fun y => match dict_get f h w mem y with Some z => [z] | None => [] end) l.

(* one turn of the second loop of __clone_tasks.  h, mem: the heap and the members when the dictionary was built *)
Definition rebuild_one (f : obj -> obj) (h : heap) (w : wid) (mem : list obj) (s1 : state) (t : obj)
  : state * outcome :=
  let c := f t in
  andthen (set_parent s1 c (match pubpar (hp s1) t with Some p => dict_get f h w mem p | None => None end))
  (fun s2 =>
     let ks := kids (get (hp s2) t) in
     if negb (forallb (fun ch => memn ch mem) ks) then (s2, Crash KeyError)        (* cloned_tasks[id(ch)] *)
     else
  andthen (set_children s2 c (map Some (map f ks))) (fun s3 =>
  andthen (set_preds s3 c (map Some (dict_list f h w mem (preds (get (hp s3) t))))) (fun s4 =>
           set_succs s4 c (map Some (dict_list f h w mem (succs (get (hp s4) t))))))).

(* WBS.subtree(sel) / WBS.clone() of WBS w, objects numbered as in clone_sel *)
Definition clone_impl (s : state) (w : wid) (sel : list obj) : state * outcome :=
  let h := hp s in
  let n := length h in
  match members h sel with
  | None => (s, Crash RecursionError)
  | Some mem =>
      let f := phi n mem in
      let s0 := alloc_copies (fst (new_wbs s)) h mem in
      andthen (seq_calls (rebuild_one f h w mem) s0 mem) (fun s1 =>
        set_children s1 n (map Some (map f (sel_roots h sel))))
  end.

Definition clone_impl_all (s : state) (w : wid) : state * outcome :=
  clone_impl s w (kids (get (hp s) (wroot s w))).

(* the same, objects numbered as the code creates them: copies first, WBS() last *)
Definition phi_code (n : nat) (mem : list obj) (x : obj) : obj := n + idx x mem.

Definition clone_impl_code (s : state) (w : wid) (sel : list obj) : state * outcome :=
  let h := hp s in
  let n := length h in
  match members h sel with
  | None => (s, Crash RecursionError)
  | Some mem =>
      let f := phi_code n mem in
      let s0 := alloc_copies s h mem in
      andthen (seq_calls (rebuild_one f h w mem) s0 mem) (fun s1 =>
        let s2 := fst (new_wbs s1) in
        set_children s2 (n + length mem) (map Some (map f (sel_roots h sel))))
  end.

(* the renumbering between the two: object numbers of clone_impl -> object numbers of clone_impl_code *)
Definition renum (n m : nat) (x : obj) : obj :=
  if Nat.ltb x n then x else if Nat.eqb x n then n + m else if Nat.ltb x (n + 1 + m) then x - 1 else x.

Definition renum_task (n m : nat) (T : task) : task :=
  mkT (tid T) (option_map (renum n m) (par T)) (map (renum n m) (kids T))
      (map (renum n m) (preds T)) (map (renum n m) (succs T)) (own T) (hidden T) (prio T) (name T) (est T).

(* heap h2 is heap h1 with the objects renumbered *)
Definition renum_heap_b (eqt : task -> task -> bool) (n m : nat) (h1 h2 : heap) : bool :=
  Nat.eqb (length h1) (length h2) &&
  forallb (fun x => eqt (renum_task n m (get h1 x)) (get h2 (renum n m x))) (seq 0 (length h1)).

(* ---- agreement with clone_sel: everything equal except the ORDER inside dependency lists ---- *)
Definition task_sim (A B : task) : Prop :=
  tid A = tid B /\ par A = par B /\ kids A = kids B /\
  Permutation (preds A) (preds B) /\ Permutation (succs A) (succs B) /\
  own A = own B /\ hidden A = hidden B /\ prio A = prio B /\ name A = name B /\ est A = est B.

(* n = number of objects before the call: the old objects and the new hidden root (object n) are IDENTICAL
   (their dependency lists too, in order); a copy may differ in the order of its dependency lists only *)
Definition state_sim (n : nat) (s1 s2 : state) : Prop :=
  wroots s1 = wroots s2 /\ length (hp s1) = length (hp s2) /\
  (forall y, y <= n -> get (hp s1) y = get (hp s2) y) /\
  (forall y, task_sim (get (hp s1) y) (get (hp s2) y)).
