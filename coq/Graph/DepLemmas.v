(* Closure library of the task graph: the naive recursive closure [closf] (all_predecessors,
   all_successors, and - through [parnext] - the ancestor walk [ancf]) against its inductive
   specification, fuel sufficiency on acyclic finite graphs, and the reflection of I_dag.

   INDEX OF THE MAIN LEMMAS
   heap / list basics (prefix dl_)
     dl_memn_In, dl_memn_false        memn x l = true <-> In x l
     dl_upd_length, dl_get_upd_same, dl_get_upd_other, dl_get_upd_cases, dl_get_out
     dl_without_In, dl_without_notin, dl_without_NoDup, dl_remove1_without, dl_remove1_notin
     dl_dedup_In, dl_dedup_NoDup
     dl_fin_par / dl_fin_kids / dl_fin_preds / dl_fin_succs / dl_fin_own / dl_fin_wroots  (projections of I_fin)
   cfold g L (the fold of one recursion level): cfold_Some, cfold_Some_all, cfold_None, cfold_mono
   generic closure (any [next : obj -> list obj])
     Reach next x y                   y reachable from x in >= 1 steps          (Inductive)
     Reach_trans, Reach_snoc, Reach_rev (edge relation reversed), Reach_range, Reach_ext
     closf_spec      closf next fuel x = Some l -> (In y l <-> Reach next x y)
     closf_mono_S, closf_mono         monotone in the fuel
     closf_None_chain                 None -> a chain of fuel+1 edges starts at x
     chain_NoDup                      on an acyclic graph the vertices of a chain are distinct
     closf_total     edges end below n, no cycle -> closf next n x <> None      (pigeonhole)
     Reach_replace   replacing next t by value with (v <> t, ~ Reach v t for v in value) creates no cycle
   instances
     pnext / snext / fnext dir / parnext : the edge functions of preds, succs, fwd dir, raw parent
     Dep_Reach : Dep h x y <-> Reach (pnext h) x y;    Anc_Reach : Anc h x y <-> Reach (parnext h) x y
     DepS h x y := Reach (snext h) x y;                DepS_Dep : I_sym s -> (DepS h x y <-> Dep h y x)
     ancf_closf : ancf fuel h x = closf (parnext h) fuel x
     all_preds_spec, all_preds_total (I_fin, I_dag), all_succs_spec, all_succs_spec_dep, all_succs_total
     all_fwd_spec, all_fwd_total
     ancf_spec, anc_spec, anc_total (I_fin, I_acy), insub_spec
     wf_dag_b_spec : I_fin s -> (wf_dag_b s = true <-> I_dag s)                 (imported by OracleProofs.v) *)
From Coq Require Import Arith PeanoNat.
From PJ Require Import Base.Prelude Graph.Model Graph.Invariant.
Local Open Scope nat_scope.

(* ================= list and heap basics ================= *)
Lemma dl_memn_In x l : memn x l = true <-> In x l.
Proof.
  unfold memn. rewrite existsb_exists. split.
  - intros [y [Hy E]]. apply Nat.eqb_eq in E. subst; exact Hy.
  - intro H. exists x. split; [exact H | apply Nat.eqb_refl].
Qed.

Lemma dl_memn_false x l : memn x l = false <-> ~ In x l.
Proof.
  rewrite <- dl_memn_In. destruct (memn x l); split; intro H; try congruence; try reflexivity;
    try (exfalso; apply H; reflexivity).
Qed.

Lemma dl_memn_cons x a l : memn x (a :: l) = Nat.eqb x a || memn x l.
Proof. reflexivity. Qed.

Lemma dl_upd_length h x f : length (upd h x f) = length h.
Proof. revert x; induction h as [|a h IH]; intros [|x]; simpl; auto. Qed.

Lemma dl_get_upd_same h x f : x < length h -> get (upd h x f) x = f (get h x).
Proof.
  unfold get. revert x; induction h as [|a h IH]; intros [|x] H; simpl in *; try lia; auto.
  apply IH; lia.
Qed.

Lemma dl_get_upd_other h x y f : x <> y -> get (upd h x f) y = get h y.
Proof.
  unfold get. revert x y; induction h as [|a h IH]; intros [|x] [|y] H; simpl; auto; try congruence.
Qed.

Lemma dl_get_upd_cases h x y f : get (upd h x f) y = f (get h y) \/ get (upd h x f) y = get h y.
Proof.
  destruct (Nat.eq_dec x y) as [E|E].
  - subst. destruct (Nat.lt_ge_cases y (length h)) as [L|L].
    + left; apply dl_get_upd_same; exact L.
    + right. unfold get. rewrite !nth_overflow; auto. rewrite dl_upd_length; exact L.
  - right; apply dl_get_upd_other; exact E.
Qed.

Lemma dl_get_out h x : length h <= x -> get h x = dflt.
Proof. intro H. unfold get. apply nth_overflow; exact H. Qed.

Lemma dl_without_In x y l : In y (without x l) <-> In y l /\ y <> x.
Proof.
  unfold without. rewrite filter_In. split; intros [A B]; split; auto.
  - intro E; subst. rewrite Nat.eqb_refl in B; discriminate.
  - destruct (Nat.eqb x y) eqn:E; auto. apply Nat.eqb_eq in E; congruence.
Qed.

Lemma dl_without_notin x l : ~ In x l -> without x l = l.
Proof.
  induction l as [|a l IH]; simpl; intro H; auto.
  destruct (Nat.eqb x a) eqn:E; simpl.
  - apply Nat.eqb_eq in E. exfalso; apply H; left; congruence.
  - f_equal. apply IH. intro; apply H; right; assumption.
Qed.

Lemma dl_without_NoDup x l : NoDup l -> NoDup (without x l).
Proof. apply NoDup_filter. Qed.

Lemma dl_remove1_notin x l : ~ In x l -> remove1 x l = l.
Proof.
  induction l as [|a l IH]; simpl; intro H; auto.
  destruct (Nat.eqb x a) eqn:E.
  - apply Nat.eqb_eq in E. exfalso; apply H; left; congruence.
  - f_equal. apply IH. intro; apply H; right; assumption.
Qed.

Lemma dl_remove1_without x l : NoDup l -> remove1 x l = without x l.
Proof.
  induction l as [|a l IH]; simpl; intro H; auto.
  inversion H as [|a' l' Hn Hd]; subst.
  destruct (Nat.eqb x a) eqn:E; simpl.
  - apply Nat.eqb_eq in E; subst. symmetry; apply dl_without_notin; exact Hn.
  - f_equal; apply IH; exact Hd.
Qed.

Lemma dl_dedup_In x l : In x (dedup l) <-> In x l.
Proof.
  induction l as [|a l IH]; simpl; [tauto|].
  rewrite dl_without_In, IH. destruct (Nat.eq_dec a x); [subst|]; intuition congruence.
Qed.

Lemma dl_dedup_NoDup l : NoDup (dedup l).
Proof.
  induction l as [|a l IH]; simpl; constructor.
  - rewrite dl_without_In. intros [_ H]; congruence.
  - apply dl_without_NoDup; exact IH.
Qed.

(* projections of I_fin *)
Lemma dl_fin_par s x p : I_fin s -> par (get (hp s) x) = Some p -> p < length (hp s).
Proof. intros [H _] E. destruct (H x) as [A _]. apply A; exact E. Qed.

Lemma dl_fin_kids s x y : I_fin s -> In y (kids (get (hp s) x)) -> y < length (hp s).
Proof. intros [H _] E. destruct (H x) as [_ [A _]]. apply A. apply in_or_app; left; exact E. Qed.

Lemma dl_fin_preds s x y : I_fin s -> In y (preds (get (hp s) x)) -> y < length (hp s).
Proof.
  intros [H _] E. destruct (H x) as [_ [A _]]. apply A.
  apply in_or_app; right; apply in_or_app; left; exact E.
Qed.

Lemma dl_fin_succs s x y : I_fin s -> In y (succs (get (hp s) x)) -> y < length (hp s).
Proof.
  intros [H _] E. destruct (H x) as [_ [A _]]. apply A.
  apply in_or_app; right; apply in_or_app; right; exact E.
Qed.

Lemma dl_fin_own s x w : I_fin s -> own (get (hp s) x) = Some w -> w < length (wroots s).
Proof. intros [H _] E. destruct (H x) as [_ [_ A]]. apply A; exact E. Qed.

Lemma dl_fin_wroots s r : I_fin s -> In r (wroots s) -> r < length (hp s).
Proof. intros [_ H] E. apply H; exact E. Qed.

(* ================= the fold of the naive closure ================= *)
Definition cfold (g : obj -> option (list obj)) (L : list obj) : option (list obj) :=
  fold_right (fun p acc => match g p, acc with
                           | Some l, Some a => Some (p :: l ++ a)
                           | _, _ => None
                           end) (Some []) L.

Lemma cfold_cons g p L :
  cfold g (p :: L) = match g p, cfold g L with Some l, Some a => Some (p :: l ++ a) | _, _ => None end.
Proof. reflexivity. Qed.

Lemma cfold_Some g L l : cfold g L = Some l ->
  forall y, In y l <-> exists p lp, In p L /\ g p = Some lp /\ (y = p \/ In y lp).
Proof.
  revert l; induction L as [|p L IH]; intros l H y.
  - simpl in H. inversion H; subst. simpl. split; [tauto|]. intros [q [lq [[] _]]].
  - rewrite cfold_cons in H. destruct (g p) as [lp|] eqn:Ep; [|discriminate].
    destruct (cfold g L) as [a|] eqn:Ea; [|discriminate]. inversion H; subst; clear H.
    specialize (IH a eq_refl y). simpl. rewrite in_app_iff, IH. split.
    + intros [E|[E|[q [lq [Hq [Eq D]]]]]].
      * exists p, lp. split; [left; reflexivity|]. split; [exact Ep|left; congruence].
      * exists p, lp. split; [left; reflexivity|]. split; [exact Ep|right; exact E].
      * exists q, lq. split; [right; exact Hq|]. split; assumption.
    + intros [q [lq [[Hq|Hq] [Eq D]]]].
      * subst q. rewrite Ep in Eq; inversion Eq; subst lq. destruct D as [D|D]; [left; congruence|right; left; exact D].
      * right; right. exists q, lq. split; [exact Hq|]. split; assumption.
Qed.

Lemma cfold_Some_all g L l : cfold g L = Some l -> forall p, In p L -> exists lp, g p = Some lp.
Proof.
  revert l; induction L as [|p L IH]; intros l H q Hq; [destruct Hq|].
  rewrite cfold_cons in H. destruct (g p) as [lp|] eqn:Ep; [|discriminate].
  destruct (cfold g L) as [a|] eqn:Ea; [|discriminate].
  destruct Hq as [Hq|Hq]; [subst q; exists lp; exact Ep|eapply IH; [reflexivity|exact Hq]].
Qed.

Lemma cfold_None g L : cfold g L = None -> exists p, In p L /\ g p = None.
Proof.
  induction L as [|p L IH]; intro H.
  - discriminate.
  - rewrite cfold_cons in H. destruct (g p) as [lp|] eqn:Ep.
    + destruct (cfold g L) as [a|] eqn:Ea; [discriminate|].
      destruct (IH eq_refl) as [q [Hq Eq]]. exists q; split; [right; exact Hq|exact Eq].
    + exists p; split; [left; reflexivity|exact Ep].
Qed.

Lemma cfold_mono g g' L l :
  (forall p lp, In p L -> g p = Some lp -> g' p = Some lp) -> cfold g L = Some l -> cfold g' L = Some l.
Proof.
  revert l; induction L as [|p L IH]; intros l M H.
  - exact H.
  - rewrite cfold_cons in *. destruct (g p) as [lp|] eqn:Ep; [|discriminate].
    destruct (cfold g L) as [a|] eqn:Ea; [|discriminate].
    rewrite (M p lp (or_introl eq_refl) Ep).
    rewrite (IH a); [exact H| |reflexivity].
    intros q lq Hq. apply M; right; exact Hq.
Qed.

(* ================= generic closure ================= *)
Section Closure.
Variable next : obj -> list obj.

Inductive Reach : obj -> obj -> Prop :=
| Reach_one x p : In p (next x) -> Reach x p
| Reach_more x p y : In p (next x) -> Reach p y -> Reach x y.

Lemma Reach_step x y : Reach x y <-> exists p, In p (next x) /\ (y = p \/ Reach p y).
Proof.
  split.
  - intro H; inversion H; subst.
    + exists y; split; [assumption|left; reflexivity].
    + exists p; split; [assumption|right; assumption].
  - intros [p [Hp [E|R]]]; [subst; apply Reach_one; exact Hp|eapply Reach_more; eassumption].
Qed.

Lemma Reach_trans x y z : Reach x y -> Reach y z -> Reach x z.
Proof.
  intros H; induction H as [x p Hp|x p y Hp Hpy IH]; intro Hz.
  - eapply Reach_more; eassumption.
  - eapply Reach_more; [exact Hp|apply IH; exact Hz].
Qed.

Lemma Reach_snoc x p y : Reach x p -> In y (next p) -> Reach x y.
Proof. intros H Hy. eapply Reach_trans; [exact H|apply Reach_one; exact Hy]. Qed.

Lemma Reach_range n : (forall x y, In y (next x) -> y < n) -> forall x y, Reach x y -> y < n.
Proof. intros R x y H. induction H as [x p Hp|x p y Hp Hpy IH]; [eapply R; exact Hp|exact IH]. Qed.

Lemma Reach_nil x y : next x = [] -> ~ Reach x y.
Proof. intros E H. inversion H as [x' p Hp|x' p y' Hp]; subst; rewrite E in Hp; destruct Hp. Qed.

Lemma closf_O x : closf next 0 x = match next x with [] => Some [] | _ => None end.
Proof. reflexivity. Qed.

Lemma closf_S f x : closf next (S f) x = cfold (closf next f) (next x).
Proof. reflexivity. Qed.

Theorem closf_spec fuel : forall x l, closf next fuel x = Some l -> forall y, In y l <-> Reach x y.
Proof.
  induction fuel as [|f IH]; intros x l H y.
  - rewrite closf_O in H. destruct (next x) eqn:E; [|discriminate]. inversion H; subst.
    split; [intros []|]. intro R. exfalso; eapply Reach_nil; eassumption.
  - rewrite closf_S in H. rewrite (cfold_Some _ _ _ H y), Reach_step. split.
    + intros [p [lp [Hp [Ep D]]]]. exists p. split; [exact Hp|].
      destruct D as [D|D]; [left; exact D|right; apply (IH p lp Ep); exact D].
    + intros [p [Hp D]].
      destruct (closf next f p) as [lp|] eqn:Ep.
      * exists p, lp. split; [exact Hp|]. split; [exact Ep|].
        destruct D as [D|D]; [left; exact D|right; apply (IH p lp Ep); exact D].
      * exfalso. destruct (cfold_Some_all _ _ _ H p Hp) as [lp Elp]. congruence.
Qed.

Lemma closf_mono_S fuel : forall x l, closf next fuel x = Some l -> closf next (S fuel) x = Some l.
Proof.
  induction fuel as [|f IH]; intros x l H.
  - rewrite closf_O in H. rewrite closf_S. destruct (next x); [exact H|discriminate].
  - rewrite closf_S in *. eapply cfold_mono; [|exact H]. intros p lp _ Ep. apply IH; exact Ep.
Qed.

Lemma closf_mono f f' x l : f <= f' -> closf next f x = Some l -> closf next f' x = Some l.
Proof. intros L H. induction L as [|m L IH]; [exact H|apply closf_mono_S; exact IH]. Qed.

(* chains: x -> l1 -> l2 -> ... *)
Fixpoint chain (x : obj) (l : list obj) : Prop :=
  match l with
  | [] => True
  | y :: r => In y (next x) /\ chain y r
  end.

Lemma chain_Reach l : forall x y, chain x l -> In y l -> Reach x y.
Proof.
  induction l as [|a l IH]; intros x y C H; [destruct H|].
  destruct C as [Ca Cr]. destruct H as [H|H].
  - subst; apply Reach_one; exact Ca.
  - eapply Reach_more; [exact Ca|apply IH; assumption].
Qed.

Lemma chain_NoDup l : (forall z, ~ Reach z z) -> forall x, chain x l -> NoDup l.
Proof.
  intro A. induction l as [|a l IH]; intros x C; constructor.
  - destruct C as [_ Cr]. intro H. apply (A a). eapply chain_Reach; eassumption.
  - destruct C as [_ Cr]. eapply IH; exact Cr.
Qed.

Lemma closf_None_chain fuel : forall x, closf next fuel x = None -> exists l, length l = S fuel /\ chain x l.
Proof.
  induction fuel as [|f IH]; intros x H.
  - rewrite closf_O in H. destruct (next x) as [|y r] eqn:E; [discriminate|].
    exists [y]. split; [reflexivity|]. simpl. rewrite E. split; [left; reflexivity|exact I].
  - rewrite closf_S in H. destruct (cfold_None _ _ H) as [p [Hp Ep]].
    destruct (IH p Ep) as [l [Ll Cl]]. exists (p :: l). split; [simpl; congruence|]. split; assumption.
Qed.

Theorem closf_total n :
  (forall x y, In y (next x) -> y < n) -> (forall z, ~ Reach z z) -> forall x, closf next n x <> None.
Proof.
  intros R A x H. destruct (closf_None_chain _ _ H) as [l [Ll Cl]].
  assert (ND : NoDup l) by (eapply chain_NoDup; eassumption).
  assert (I : incl l (seq 0 n)).
  { intros y Hy. apply in_seq. split; [lia|]. simpl. eapply Reach_range; [exact R|]. eapply chain_Reach; eassumption. }
  pose proof (NoDup_incl_length ND I) as Le. rewrite seq_length in Le. lia.
Qed.

Lemma closf_total_fuel n f :
  (forall x y, In y (next x) -> y < n) -> (forall z, ~ Reach z z) -> n <= f -> forall x, closf next f x <> None.
Proof.
  intros R A L x H. destruct (closf next n x) as [l|] eqn:E.
  - rewrite (closf_mono _ _ _ _ L E) in H; discriminate.
  - eapply closf_total; eassumption.
Qed.
End Closure.

Lemma Reach_ext next next' : (forall x, next' x = next x) -> forall x y, Reach next x y -> Reach next' x y.
Proof.
  intros E x y H. induction H as [x p Hp|x p y Hp Hpy IH].
  - apply Reach_one. rewrite E; exact Hp.
  - eapply Reach_more; [rewrite E; exact Hp|exact IH].
Qed.

Lemma Reach_rev nx ny : (forall a b, In b (nx a) -> In a (ny b)) -> forall x y, Reach nx x y -> Reach ny y x.
Proof.
  intros S x y H. induction H as [x p Hp|x p y Hp Hpy IH].
  - apply Reach_one. apply S; exact Hp.
  - eapply Reach_snoc; [exact IH|apply S; exact Hp].
Qed.

(* ---- replacing the successor set of one vertex ---- *)
Section Replace.
Variables (next next' : obj -> list obj) (t : obj) (value : list obj).
Hypothesis Ht : next' t = value.
Hypothesis Hother : forall x, x <> t -> next' x = next x.

(* split at the first use of t as the source of an edge *)
Lemma Reach_split_first x y : Reach next' x y ->
  Reach next x y \/ ((x = t \/ Reach next x t) /\ Reach next' t y).
Proof.
  intro H. induction H as [x p Hp|x p y Hp Hpy IH].
  - destruct (Nat.eq_dec x t) as [E|E].
    + subst x. right. split; [left; reflexivity|apply Reach_one; exact Hp].
    + rewrite (Hother x E) in Hp. left; apply Reach_one; exact Hp.
  - destruct (Nat.eq_dec x t) as [E|E].
    + subst x. right. split; [left; reflexivity|eapply Reach_more; eassumption].
    + rewrite (Hother x E) in Hp. destruct IH as [IH|[[Ept|Rpt] Rty]].
      * left. eapply Reach_more; eassumption.
      * subst p. right. split; [right; apply Reach_one; exact Hp|exact Rty].
      * right. split; [right; eapply Reach_more; eassumption|exact Rty].
Qed.

(* split at the last use of t as the source of an edge *)
Lemma Reach_split_last x y : Reach next' x y ->
  Reach next x y \/ exists v, In v value /\ (v = y \/ Reach next v y).
Proof.
  intro H. induction H as [x p Hp|x p y Hp Hpy IH].
  - destruct (Nat.eq_dec x t) as [E|E].
    + subst x. rewrite Ht in Hp. right. exists p. split; [exact Hp|left; reflexivity].
    + rewrite (Hother x E) in Hp. left; apply Reach_one; exact Hp.
  - destruct IH as [IH|IH]; [|right; exact IH].
    destruct (Nat.eq_dec x t) as [E|E].
    + subst x. rewrite Ht in Hp. right. exists p. split; [exact Hp|right; exact IH].
    + rewrite (Hother x E) in Hp. left. eapply Reach_more; eassumption.
Qed.

Theorem Reach_replace :
  (forall x, ~ Reach next x x) ->
  (forall v, In v value -> v <> t /\ ~ Reach next v t) ->
  forall x, ~ Reach next' x x.
Proof.
  intros A G x C.
  destruct (Reach_split_first _ _ C) as [C1|[Hxt Rtx]]; [exact (A x C1)|].
  destruct (Reach_split_last _ _ Rtx) as [R|[v [Hv D]]].
  - destruct Hxt as [E|Rxt].
    + subst x. exact (A t R).
    + apply (A t). eapply Reach_trans; eassumption.
  - destruct (G v Hv) as [Nvt Nr]. destruct Hxt as [E|Rxt].
    + subst x. destruct D as [D|D]; [congruence|exact (Nr D)].
    + apply Nr. destruct D as [D|D]; [subst v; exact Rxt|eapply Reach_trans; eassumption].
Qed.
End Replace.

(* ================= instances ================= *)
Definition pnext (h : heap) : obj -> list obj := fun y => preds (get h y).
Definition snext (h : heap) : obj -> list obj := fun y => succs (get h y).
Definition fnext (dir : bool) (h : heap) : obj -> list obj := fun y => fwd dir (get h y).
Definition parnext (h : heap) : obj -> list obj :=
  fun y => match par (get h y) with Some p => [p] | None => [] end.

Lemma Dep_Reach h x y : Dep h x y <-> Reach (pnext h) x y.
Proof.
  split; intro H.
  - induction H as [x p Hp|x p y Hp Hpy IH]; [apply Reach_one; exact Hp|eapply Reach_more; [exact Hp|exact IH]].
  - induction H as [x p Hp|x p y Hp Hpy IH]; [apply Dep_one; exact Hp|eapply Dep_more; [exact Hp|exact IH]].
Qed.

Lemma Anc_Reach h x y : Anc h x y <-> Reach (parnext h) x y.
Proof.
  split; intro H.
  - induction H as [x p Hp|x p y Hp Hpy IH].
    + apply Reach_one. unfold parnext. rewrite Hp. left; reflexivity.
    + eapply Reach_more; [|exact IH]. unfold parnext. rewrite Hp. left; reflexivity.
  - induction H as [x p Hp|x p y Hp Hpy IH]; unfold parnext in Hp;
      destruct (par (get h x)) as [q|] eqn:E; try destruct Hp as [Hp|[]]; try destruct Hp; subst.
    + apply Anc_par; exact E.
    + eapply Anc_up; [exact E|exact IH].
Qed.

Definition DepS (h : heap) (x y : obj) : Prop := Reach (snext h) x y.

Lemma DepS_Dep s x y : I_sym s -> (DepS (hp s) x y <-> Dep (hp s) y x).
Proof.
  intros [S _]. rewrite Dep_Reach. unfold DepS. split; apply Reach_rev; intros a b Hb.
  - apply S; exact Hb.
  - apply S; exact Hb.
Qed.

Lemma Dep_trans h x y z : Dep h x y -> Dep h y z -> Dep h x z.
Proof. rewrite !Dep_Reach. apply Reach_trans. Qed.

Lemma fnext_true h : fnext true h = pnext h.
Proof. reflexivity. Qed.
Lemma fnext_false h : fnext false h = snext h.
Proof. reflexivity. Qed.

(* ---- ancf is the closure of the parent edge ---- *)
Lemma ancf_closf fuel : forall h x, ancf fuel h x = closf (parnext h) fuel x.
Proof.
  induction fuel as [|f IH]; intros h x.
  - simpl. unfold parnext. destruct (par (get h x)); reflexivity.
  - rewrite closf_S. simpl. unfold parnext at 2. destruct (par (get h x)) as [p|]; [|reflexivity].
    simpl. rewrite IH. destruct (closf (parnext h) f p) as [l|]; [|reflexivity].
    rewrite app_nil_r. reflexivity.
Qed.

Lemma ancf_spec fuel h x l : ancf fuel h x = Some l -> forall y, In y l <-> Anc h x y.
Proof. rewrite ancf_closf. intros H y. rewrite Anc_Reach. eapply closf_spec; exact H. Qed.

Lemma anc_spec h x l : anc h x = Ok l -> forall y, In y l <-> Anc h x y.
Proof.
  unfold anc. destruct (ancf (length h) h x) as [l'|] eqn:E; [|discriminate].
  intro H; inversion H; subst. eapply ancf_spec; exact E.
Qed.

Lemma parnext_range s : I_fin s -> forall x y, In y (parnext (hp s) x) -> y < length (hp s).
Proof.
  intros F x y H. unfold parnext in H. destruct (par (get (hp s) x)) as [p|] eqn:E; [|destruct H].
  destruct H as [H|[]]. subst. eapply dl_fin_par; eassumption.
Qed.

Lemma ancf_total s x : I_fin s -> I_acy s -> exists l, ancf (length (hp s)) (hp s) x = Some l.
Proof.
  intros F A. rewrite ancf_closf.
  destruct (closf (parnext (hp s)) (length (hp s)) x) as [l|] eqn:E; [exists l; reflexivity|].
  exfalso. eapply closf_total; [apply parnext_range; exact F| |exact E].
  intros z Hz. apply (A z). apply Anc_Reach; exact Hz.
Qed.

Lemma anc_total s x : I_fin s -> I_acy s -> exists l, anc (hp s) x = Ok l.
Proof.
  intros F A. destruct (ancf_total s x F A) as [l E]. exists l. unfold anc. rewrite E. reflexivity.
Qed.

Lemma insub_spec s t x : I_fin s -> I_acy s -> (insub (hp s) t x = true <-> x = t \/ Anc (hp s) x t).
Proof.
  intros F A. unfold insub. destruct (ancf_total s x F A) as [l E]. rewrite E.
  rewrite orb_true_iff, Nat.eqb_eq, dl_memn_In, (ancf_spec _ _ _ _ E). tauto.
Qed.

(* ---- all_predecessors / all_successors ---- *)
Lemma all_preds_closf h x l : all_preds h x = Ok l <-> closf (pnext h) (length h) x = Some l.
Proof.
  unfold all_preds, pnext. destruct (closf _ (length h) x) as [l'|]; split; intro H; inversion H; reflexivity.
Qed.

Lemma all_succs_closf h x l : all_succs h x = Ok l <-> closf (snext h) (length h) x = Some l.
Proof.
  unfold all_succs, snext. destruct (closf _ (length h) x) as [l'|]; split; intro H; inversion H; reflexivity.
Qed.

Lemma all_fwd_closf dir h x l : all_fwd dir h x = Ok l <-> closf (fnext dir h) (length h) x = Some l.
Proof. destruct dir; [apply all_preds_closf|apply all_succs_closf]. Qed.

Theorem all_preds_spec h x l : all_preds h x = Ok l -> forall y, In y l <-> Dep h x y.
Proof. intros H y. rewrite Dep_Reach. apply all_preds_closf in H. eapply closf_spec; exact H. Qed.

Theorem all_succs_spec h x l : all_succs h x = Ok l -> forall y, In y l <-> DepS h x y.
Proof. intros H y. apply all_succs_closf in H. eapply closf_spec; exact H. Qed.

Theorem all_succs_spec_dep s x l :
  I_sym s -> all_succs (hp s) x = Ok l -> forall y, In y l <-> Dep (hp s) y x.
Proof. intros S H y. rewrite <- (DepS_Dep s x y S). eapply all_succs_spec; exact H. Qed.

Lemma all_fwd_spec dir h x l : all_fwd dir h x = Ok l -> forall y, In y l <-> Reach (fnext dir h) x y.
Proof. intros H y. apply all_fwd_closf in H. eapply closf_spec; exact H. Qed.

Lemma all_preds_not_err h x : all_preds h x <> Err.
Proof. unfold all_preds. destruct (closf _ _ _); discriminate. Qed.

Lemma all_succs_not_err h x : all_succs h x <> Err.
Proof. unfold all_succs. destruct (closf _ _ _); discriminate. Qed.

Lemma pnext_range s : I_fin s -> forall x y, In y (pnext (hp s) x) -> y < length (hp s).
Proof. intros F x y H. eapply dl_fin_preds; eassumption. Qed.

Lemma snext_range s : I_fin s -> forall x y, In y (snext (hp s) x) -> y < length (hp s).
Proof. intros F x y H. eapply dl_fin_succs; eassumption. Qed.

Lemma dag_pnext s : I_dag s <-> forall z, ~ Reach (pnext (hp s)) z z.
Proof. unfold I_dag. split; intros H z C; apply (H z); apply Dep_Reach; exact C. Qed.

Lemma dag_snext s : I_sym s -> (I_dag s <-> forall z, ~ Reach (snext (hp s)) z z).
Proof.
  intro S. unfold I_dag. split; intros H z C; apply (H z).
  - apply (DepS_Dep s z z S). exact C.
  - apply (DepS_Dep s z z S) in C. exact C.
Qed.

Lemma dag_fnext dir s : I_sym s -> (I_dag s <-> forall z, ~ Reach (fnext dir (hp s)) z z).
Proof. intro S. destruct dir; [apply dag_pnext|apply dag_snext; exact S]. Qed.

Theorem all_preds_total s x : I_fin s -> I_dag s -> exists l, all_preds (hp s) x = Ok l.
Proof.
  intros F D. destruct (closf (pnext (hp s)) (length (hp s)) x) as [l|] eqn:E.
  - exists l. apply all_preds_closf; exact E.
  - exfalso. eapply closf_total; [apply pnext_range; exact F|apply dag_pnext; exact D|exact E].
Qed.

Theorem all_succs_total s x : I_fin s -> I_sym s -> I_dag s -> exists l, all_succs (hp s) x = Ok l.
Proof.
  intros F S D. destruct (closf (snext (hp s)) (length (hp s)) x) as [l|] eqn:E.
  - exists l. apply all_succs_closf; exact E.
  - exfalso. eapply closf_total; [apply snext_range; exact F|apply dag_snext; assumption|exact E].
Qed.

Theorem all_fwd_total dir s x : I_fin s -> I_sym s -> I_dag s -> exists l, all_fwd dir (hp s) x = Ok l.
Proof. intros F S D. destruct dir; [apply all_preds_total|apply all_succs_total]; assumption. Qed.

(* all_preds never answers Crash RecursionError on a well-formed state *)
Corollary all_preds_no_crash s x k : I_fin s -> I_dag s -> all_preds (hp s) x <> Crash k.
Proof. intros F D. destruct (all_preds_total s x F D) as [l E]. rewrite E. discriminate. Qed.

Corollary all_succs_no_crash s x k : I_fin s -> I_sym s -> I_dag s -> all_succs (hp s) x <> Crash k.
Proof. intros F S D. destruct (all_succs_total s x F S D) as [l E]. rewrite E. discriminate. Qed.

(* ---- reflection of I_dag ---- *)
Theorem wf_dag_b_spec s : I_fin s -> (wf_dag_b s = true <-> I_dag s).
Proof.
  intro F. unfold wf_dag_b. rewrite forallb_forall. split.
  - intros H z C. destruct (Nat.lt_ge_cases z (length (hp s))) as [L|L].
    + assert (Hz : In z (objs (hp s))) by (unfold objs; apply in_seq; lia).
      specialize (H z Hz). fold (pnext (hp s)) in H.
      destruct (closf (pnext (hp s)) (length (hp s)) z) as [l|] eqn:E; [|discriminate].
      apply negb_true_iff, dl_memn_false in H. apply H.
      apply (closf_spec _ _ _ _ E). apply Dep_Reach; exact C.
    + apply Dep_Reach in C. eapply Reach_nil; [|exact C].
      unfold pnext. rewrite dl_get_out by exact L. reflexivity.
  - intros D z Hz. fold (pnext (hp s)).
    destruct (closf (pnext (hp s)) (length (hp s)) z) as [l|] eqn:E.
    + apply negb_true_iff, dl_memn_false. intro H. apply (D z).
      apply Dep_Reach. apply (closf_spec _ _ _ _ E). exact H.
    + exfalso. eapply closf_total; [apply pnext_range; exact F|apply dag_pnext; exact D|exact E].
Qed.
