(* C16, list level - what an accepted call of a list facade does to the children list.

   Everything here is about list functions and the syntactic shape of the model; no path reasoning.
   Part 1: list lemmas (without / remove1 / dedup / ins_near / move_one / insertion sort / reorder).
   Part 2: heap lemmas (get / upd / set_kids) and the frame of the set_kids-only operations,
           [set_kids_perm_WF]: permuting one children list preserves WF.
   Part 3: the effect of every facade call that returned. *)
From Coq Require Import Permutation Sorted.
From PJ Require Import Base.Prelude Graph.Model Graph.Invariant Graph.AtomicProofs.
Local Open Scope nat_scope.

(* ====================== Part 1: lists ====================== *)
Lemma memn_In x l : memn x l = true <-> In x l.
Proof.
  unfold memn. rewrite existsb_exists. split.
  - intros (y & Hy & E). apply Nat.eqb_eq in E. subst; exact Hy.
  - intro H. exists x. split; [exact H | apply Nat.eqb_refl].
Qed.

Lemma memn_notIn x l : memn x l = false <-> ~ In x l.
Proof.
  rewrite <- memn_In. destruct (memn x l); split; intro H; try congruence;
    exfalso; apply H; reflexivity.
Qed.

Lemma memz_In x l : memz x l = true <-> In x l.
Proof.
  unfold memz. rewrite existsb_exists. split.
  - intros (y & Hy & E). apply Z.eqb_eq in E. subst; exact Hy.
  - intro H. exists x. split; [exact H | apply Z.eqb_refl].
Qed.

(* ---- without ---- *)
Lemma without_In x l y : In y (without x l) <-> In y l /\ y <> x.
Proof.
  unfold without. rewrite filter_In. split; intros [H1 H2]; split; auto.
  - intro E; subst. rewrite Nat.eqb_refl in H2. discriminate.
  - destruct (Nat.eqb x y) eqn:E; [apply Nat.eqb_eq in E; congruence | reflexivity].
Qed.

Lemma without_app x a b : without x (a ++ b) = without x a ++ without x b.
Proof. apply filter_app. Qed.

Lemma without_cons_eq x l : without x (x :: l) = without x l.
Proof. unfold without. simpl. rewrite Nat.eqb_refl. reflexivity. Qed.

Lemma without_cons_neq x y l : x <> y -> without x (y :: l) = y :: without x l.
Proof. intro N. unfold without. simpl. apply Nat.eqb_neq in N. rewrite N. reflexivity. Qed.

Lemma without_notin x l : ~ In x l -> without x l = l.
Proof.
  induction l as [|y r IH]; intro N; [reflexivity|].
  rewrite without_cons_neq; [|intro E; apply N; left; auto].
  f_equal. apply IH. intro H; apply N; right; exact H.
Qed.

Lemma without_self x l : ~ In x (without x l).
Proof. rewrite without_In. tauto. Qed.

Lemma without_idem x l : without x (without x l) = without x l.
Proof. apply without_notin. apply without_self. Qed.

Lemma without_comm x y l : without x (without y l) = without y (without x l).
Proof.
  induction l as [|z r IH]; [reflexivity|].
  destruct (Nat.eq_dec y z) as [->|Nyz]; destruct (Nat.eq_dec x z) as [->|Nxz];
    repeat (first [rewrite without_cons_eq | rewrite without_cons_neq by assumption]); rewrite ?IH; reflexivity.
Qed.

Lemma NoDup_without x l : NoDup l -> NoDup (without x l).
Proof. apply NoDup_filter. Qed.

Lemma without_length_le x l : length (without x l) <= length l.
Proof.
  unfold without. induction l as [|y r IH]; simpl; [lia|]. destruct (negb (Nat.eqb x y)); simpl; lia.
Qed.

Lemma remove1_without x l : NoDup l -> remove1 x l = without x l.
Proof.
  induction l as [|y r IH]; intro N; [reflexivity|]. inversion N as [|? ? Hy Hr]; subst. cbn [remove1].
  destruct (Nat.eqb x y) eqn:E.
  - apply Nat.eqb_eq in E. subst y. rewrite without_cons_eq. symmetry. apply without_notin. exact Hy.
  - apply Nat.eqb_neq in E. rewrite without_cons_neq by exact E. f_equal. apply IH. exact Hr.
Qed.

Lemma remove1_notin x l : ~ In x l -> remove1 x l = l.
Proof.
  induction l as [|y r IH]; intro N; [reflexivity|]. simpl.
  destruct (Nat.eqb x y) eqn:E.
  - apply Nat.eqb_eq in E. exfalso; apply N; left; auto.
  - f_equal. apply IH. intro H; apply N; right; exact H.
Qed.

Lemma remove1_app_last x l : ~ In x l -> remove1 x (l ++ [x]) = l.
Proof.
  induction l as [|y r IH]; intro N; simpl.
  - rewrite Nat.eqb_refl. reflexivity.
  - destruct (Nat.eqb x y) eqn:E.
    + apply Nat.eqb_eq in E. exfalso; apply N; left; auto.
    + f_equal. apply IH. intro H; apply N; right; exact H.
Qed.

Lemma remove1_perm x l : In x l -> Permutation (x :: remove1 x l) l.
Proof.
  induction l as [|y r IH]; intro H; [destruct H|]. simpl.
  destruct (Nat.eqb x y) eqn:E.
  - apply Nat.eqb_eq in E. subst. apply Permutation_refl.
  - apply Nat.eqb_neq in E. destruct H as [H|H]; [congruence|].
    eapply perm_trans; [apply perm_swap|]. apply perm_skip. apply IH. exact H.
Qed.

Lemma without_remove1 x l : without x (remove1 x l) = without x l.
Proof.
  induction l as [|y r IH]; [reflexivity|]. cbn [remove1]. destruct (Nat.eqb x y) eqn:E.
  - apply Nat.eqb_eq in E. subst. rewrite without_cons_eq. reflexivity.
  - apply Nat.eqb_neq in E. rewrite !without_cons_neq by exact E. f_equal. exact IH.
Qed.

(* the tasks not named in a call: [others ts l] *)
Definition others (ts l : list nat) : list nat := filter (fun x => negb (memn x ts)) l.

Lemma others_nil l : others [] l = l.
Proof.
  unfold others. induction l as [|y r IH]; [reflexivity|].
  transitivity (y :: filter (fun x => negb (memn x [])) r); [reflexivity | f_equal; exact IH].
Qed.

Lemma others_In ts l y : In y (others ts l) <-> In y l /\ ~ In y ts.
Proof.
  unfold others. rewrite filter_In. rewrite negb_true_iff. rewrite memn_notIn. tauto.
Qed.

Lemma filter_filter2 {A} (f g : A -> bool) l : filter f (filter g l) = filter (fun x => g x && f x) l.
Proof.
  induction l as [|y r IH]; [reflexivity|]. cbn [filter].
  destruct (g y) eqn:G; cbn [filter andb]; [destruct (f y)|]; rewrite IH; reflexivity.
Qed.

Lemma memn_cons x t ts : memn x (t :: ts) = Nat.eqb x t || memn x ts.
Proof. reflexivity. Qed.

Lemma others_cons t ts l : others (t :: ts) l = without t (others ts l).
Proof.
  unfold others, without. rewrite filter_filter2. apply filter_ext. intro x.
  rewrite memn_cons, (Nat.eqb_sym x t). destruct (Nat.eqb t x), (memn x ts); reflexivity.
Qed.

Lemma others_without t ts l : others ts (without t l) = without t (others ts l).
Proof.
  unfold others, without. rewrite !filter_filter2. apply filter_ext. intro x.
  destruct (Nat.eqb t x), (memn x ts); reflexivity.
Qed.

Lemma others_snoc t ts l : others (ts ++ [t]) l = without t (others ts l).
Proof.
  unfold others, without. rewrite filter_filter2. apply filter_ext. intro x.
  assert (M : memn x (ts ++ [t]) = memn x ts || Nat.eqb t x).
  { unfold memn. rewrite existsb_app. cbn [existsb]. rewrite orb_false_r. rewrite (Nat.eqb_sym x t). reflexivity. }
  rewrite M. destruct (Nat.eqb t x), (memn x ts); reflexivity.
Qed.

Lemma others_app ts a b : others ts (a ++ b) = others ts a ++ others ts b.
Proof. apply filter_app. Qed.

Lemma others_filter_mem (P : nat -> bool) l :
  others (filter P l) l = filter (fun x => negb (P x)) l.
Proof.
  unfold others. apply filter_ext_in. intros x Hx. f_equal.
  destruct (P x) eqn:E.
  - apply memn_In. apply filter_In. auto.
  - apply memn_notIn. rewrite filter_In. intros [_ H]. congruence.
Qed.

Lemma NoDup_others ts l : NoDup l -> NoDup (others ts l).
Proof. apply NoDup_filter. Qed.

(* selected ++ the others is a permutation *)
Lemma NoDup_app_disj {A} (a b : list A) :
  NoDup a -> NoDup b -> (forall x, In x a -> ~ In x b) -> NoDup (a ++ b).
Proof.
  induction a as [|x a IH]; intros Ha Hb D; [exact Hb|]. simpl. inversion Ha; subst.
  constructor.
  - rewrite in_app_iff. intros [H|H]; [auto | apply (D x); [left; auto | exact H]].
  - apply IH; auto. intros y Hy. apply D. right; exact Hy.
Qed.

Lemma select_others_perm cs l : NoDup cs -> NoDup l -> incl cs l -> Permutation (cs ++ others cs l) l.
Proof.
  intros Hc Hl Hi. apply NoDup_Permutation; auto.
  - apply NoDup_app_disj; auto using NoDup_others.
    intros x Hx. rewrite others_In. tauto.
  - intro x. rewrite in_app_iff, others_In. split.
    + intros [H|[H _]]; auto.
    + intro H. destruct (in_dec Nat.eq_dec x cs); auto.
Qed.

(* ---- dedup ---- *)
Lemma somes_map_Some {A} (l : list A) : somes (map Some l) = l.
Proof. induction l as [|x r IH]; simpl; [|rewrite IH]; reflexivity. Qed.

Lemma somes_app {A} (a b : list (option A)) : somes (a ++ b) = somes a ++ somes b.
Proof. induction a as [|[x|] r IH]; simpl; rewrite ?IH; reflexivity. Qed.

Lemma dedup_In x l : In x (dedup l) <-> In x l.
Proof.
  induction l as [|y r IH]; [tauto|]. simpl. rewrite without_In, IH.
  destruct (Nat.eq_dec y x); [subst; tauto|]. split; [tauto|]. intros [H|H]; [tauto|]. right; split; auto.
Qed.

Lemma dedup_NoDup l : NoDup (dedup l).
Proof.
  induction l as [|y r IH]; simpl; constructor.
  - apply without_self.
  - apply NoDup_without. exact IH.
Qed.

Lemma dedup_id l : NoDup l -> dedup l = l.
Proof.
  induction l as [|y r IH]; intro N; [reflexivity|]. inversion N; subst. simpl.
  rewrite IH by assumption. f_equal. apply without_notin. assumption.
Qed.

(* t // vs : the present children stay, in order; the new ones follow, first occurrences, in order *)
Lemma dedup_app a b : NoDup a -> dedup (a ++ b) = a ++ others a (dedup b).
Proof.
  induction a as [|x a IH]; intro N; simpl.
  - rewrite others_nil. reflexivity.
  - inversion N; subst. rewrite IH by assumption. rewrite without_app.
    rewrite without_notin by assumption. rewrite others_cons. reflexivity.
Qed.

(* ---- ins_near / move_one ---- *)
Lemma ins_near_split before anchor t a b :
  ~ In anchor a ->
  ins_near before anchor t (a ++ anchor :: b) = a ++ (if before then t :: anchor :: b else anchor :: t :: b).
Proof.
  induction a as [|y r IH]; intro N; simpl.
  - rewrite Nat.eqb_refl. destruct before; reflexivity.
  - destruct (Nat.eqb y anchor) eqn:E.
    + apply Nat.eqb_eq in E. exfalso; apply N; left; exact E.
    + f_equal. apply IH. intro H; apply N; right; exact H.
Qed.

Lemma ins_near_perm before anchor t l : Permutation (ins_near before anchor t l) (t :: l).
Proof.
  induction l as [|y r IH]; simpl; [apply Permutation_refl|].
  destruct (Nat.eqb y anchor).
  - destruct before; [apply Permutation_refl | apply perm_swap].
  - eapply perm_trans; [apply perm_skip; exact IH | apply perm_swap].
Qed.

Lemma without_ins_near before anchor t l : without t (ins_near before anchor t l) = without t l.
Proof.
  induction l as [|y r IH]; cbn [ins_near].
  - rewrite without_cons_eq. reflexivity.
  - destruct (Nat.eqb y anchor).
    + destruct before; [apply without_cons_eq|].
      destruct (Nat.eq_dec t y) as [->|N].
      * rewrite !without_cons_eq. reflexivity.
      * rewrite (without_cons_neq t y) by exact N. rewrite without_cons_eq.
        rewrite without_cons_neq by exact N. reflexivity.
    + destruct (Nat.eq_dec t y) as [->|N].
      * rewrite !without_cons_eq. exact IH.
      * rewrite !without_cons_neq by exact N. f_equal. exact IH.
Qed.

(* the others keep their relative order - for every list and every task *)
Lemma move_one_without before anchor l t : without t (move_one before anchor l t) = without t l.
Proof. unfold move_one. rewrite without_ins_near. apply without_remove1. Qed.

Lemma move_one_perm before anchor l t : In t l -> Permutation (move_one before anchor l t) l.
Proof.
  intro H. unfold move_one. eapply perm_trans; [apply ins_near_perm | apply remove1_perm; exact H].
Qed.

(* t sits immediately before / after the anchor, nothing else moved *)
Lemma move_one_spec before anchor l t :
  NoDup l -> In anchor l -> t <> anchor ->
  exists pre post,
    without t l = pre ++ anchor :: post /\
    move_one before anchor l t = pre ++ (if before then t :: anchor :: post else anchor :: t :: post).
Proof.
  intros N Ha Nt. unfold move_one. rewrite remove1_without by exact N.
  assert (Hin : In anchor (without t l)) by (apply without_In; auto).
  destruct (in_split _ _ Hin) as (pre & post & E).
  exists pre, post. split; [exact E|]. rewrite E. apply ins_near_split.
  assert (N' : NoDup (pre ++ anchor :: post)) by (rewrite <- E; apply NoDup_without; exact N).
  apply NoDup_remove_2 in N'. intro H; apply N'. apply in_or_app; left; exact H.
Qed.

(* several tasks: the fold *)
Lemma move_fold_perm before anchor ts : forall l,
  incl ts l -> Permutation (fold_left (move_one before anchor) ts l) l.
Proof.
  induction ts as [|t ts IH]; intros l Hi; simpl; [apply Permutation_refl|].
  assert (Ht : In t l) by (apply Hi; left; reflexivity).
  pose proof (move_one_perm before anchor l t Ht) as P.
  eapply perm_trans; [apply IH | exact P].
  intros x Hx. apply (Permutation_in _ (Permutation_sym P)). apply Hi. right; exact Hx.
Qed.

Lemma move_fold_others before anchor ts : forall l,
  others ts (fold_left (move_one before anchor) ts l) = others ts l.
Proof.
  induction ts as [|t ts IH]; intro l; simpl; [reflexivity|].
  rewrite !others_cons. rewrite IH. rewrite <- !others_without. rewrite move_one_without. reflexivity.
Qed.

Lemma fold_left_snoc {A B} (f : A -> B -> A) l x a : fold_left f (l ++ [x]) a = f (fold_left f l a) x.
Proof. rewrite fold_left_app. reflexivity. Qed.

(* distinct tasks: they end up, in the given order, immediately before the anchor
   (after the anchor: in reverse order, each one is put right behind it) *)
Lemma move_fold_spec before anchor l ts :
  NoDup l -> NoDup ts -> incl ts l -> In anchor l -> ~ In anchor ts ->
  exists pre post,
    others ts l = pre ++ anchor :: post /\
    fold_left (move_one before anchor) ts l =
      pre ++ (if before then ts ++ anchor :: post else anchor :: rev ts ++ post).
Proof.
  intros Nl. induction ts as [|t ts IH] using rev_ind; intros Nts Hi Ha Nat_.
  - rewrite others_nil. destruct (in_split _ _ Ha) as (pre & post & E).
    exists pre, post. simpl. destruct before; auto.
  - assert (Nts' : NoDup ts /\ ~ In t ts).
    { apply NoDup_remove in Nts. rewrite app_nil_r in Nts. exact Nts. }
    destruct Nts' as [Nts' Ntt].
    assert (Hi' : incl ts l) by (intros x Hx; apply Hi; apply in_or_app; left; exact Hx).
    assert (Nat' : ~ In anchor ts) by (intro H; apply Nat_; apply in_or_app; left; exact H).
    assert (Nta : t <> anchor) by (intro E; apply Nat_; apply in_or_app; right; left; exact E).
    destruct (IH Nts' Hi' Ha Nat') as (pre & post & E1 & E2).
    rewrite fold_left_snoc, E2. rewrite others_snoc, E1.
    set (L := pre ++ (if before then ts ++ anchor :: post else anchor :: rev ts ++ post)) in *.
    assert (PL : Permutation L l) by (rewrite <- E2; apply move_fold_perm; exact Hi').
    assert (NL : NoDup L) by (apply (Permutation_NoDup (Permutation_sym PL)); exact Nl).
    exists (without t pre), (without t post). split.
    + rewrite without_app, without_cons_neq by exact Nta. reflexivity.
    + unfold move_one. rewrite remove1_without by exact NL. subst L.
      assert (Wts : without t ts = ts) by (apply without_notin; exact Ntt).
      assert (Wrts : without t (rev ts) = rev ts).
      { apply without_notin. rewrite <- in_rev. exact Ntt. }
      destruct before.
      * rewrite !without_app, without_cons_neq by exact Nta. rewrite Wts.
        rewrite app_assoc. rewrite ins_near_split.
        -- rewrite <- !app_assoc. reflexivity.
        -- rewrite app_assoc in NL. apply NoDup_remove_2 in NL.
           intro H. apply NL. rewrite !in_app_iff in *.
           destruct H as [H|H]; [apply without_In in H; tauto | tauto].
      * rewrite without_app, without_cons_neq by exact Nta. rewrite without_app, Wrts.
        rewrite ins_near_split.
        -- rewrite rev_app_distr. simpl. reflexivity.
        -- apply NoDup_remove_2 in NL. intro H. apply NL. rewrite in_app_iff.
           apply without_In in H. tauto.
Qed.

(* ---- insert at an index ---- *)
Lemma ins_near_nth t d : forall W i,
  NoDup W -> i < length W -> ins_near true (nth i W d) t W = firstn i W ++ t :: skipn i W.
Proof.
  induction W as [|y r IH]; intros i N Hi; simpl in Hi; [lia|].
  inversion N as [|? ? Hy Hr]; subst. destruct i as [|i]; simpl.
  - rewrite Nat.eqb_refl. reflexivity.
  - assert (Hn : In (nth i r d) r) by (apply nth_In; lia).
    destruct (Nat.eqb y (nth i r d)) eqn:E.
    + apply Nat.eqb_eq in E. exfalso. apply Hy. rewrite E. exact Hn.
    + f_equal. apply IH; [exact Hr | lia].
Qed.

Lemma nth_insert_at {A} (W : list A) i t d :
  i <= length W -> nth i (firstn i W ++ t :: skipn i W) d = t.
Proof.
  intro H. rewrite app_nth2; rewrite firstn_length_le by exact H; [|lia].
  rewrite Nat.sub_diag. reflexivity.
Qed.

Lemma length_insert_at {A} (W : list A) i t : length (firstn i W ++ t :: skipn i W) = S (length W).
Proof.
  rewrite app_length. simpl. rewrite <- Nat.add_succ_comm. simpl. f_equal.
  rewrite <- app_length. rewrite firstn_skipn. reflexivity.
Qed.

Lemma without_insert_at W i t : ~ In t W -> without t (firstn i W ++ t :: skipn i W) = W.
Proof.
  intro N. rewrite without_app, without_cons_eq, <- without_app, firstn_skipn.
  apply without_notin. exact N.
Qed.

Lemma py_index_range i n :
  ((- Z.of_nat n <=? i) && (i <? Z.of_nat n))%Z = true -> py_index i n < n.
Proof.
  intro H. apply andb_true_iff in H. destruct H as [H1 H2].
  apply Z.leb_le in H1. apply Z.ltb_lt in H2. unfold py_index.
  destruct (Z.ltb_spec i 0); lia.
Qed.

(* ---- insertion sort: permutation, sorted, stable ---- *)
Section Sorting.
Variable leb : keyv -> keyv -> bool.
Variable P : keyv -> Prop.                 (* the keys present: all of one kind *)
Hypothesis leb_total : forall a b, P a -> P b -> leb a b = false -> leb b a = true.
Hypothesis leb_trans : forall a b c, P a -> P b -> P c -> leb a b = true -> leb b c = true -> leb a c = true.
Hypothesis leb_refl : forall a, leb a a = true.

Definition kle (a b : keyv * obj) : Prop := leb (fst a) (fst b) = true.

Lemma ins_sorted_perm x l : Permutation (ins_sorted leb x l) (x :: l).
Proof.
  induction l as [|y r IH]; cbn [ins_sorted]; [apply Permutation_refl|].
  destruct (leb (fst x) (fst y)); [apply Permutation_refl|].
  eapply perm_trans; [apply perm_skip; exact IH | apply perm_swap].
Qed.

Lemma stable_sort_perm l : Permutation (stable_sort leb l) l.
Proof.
  unfold stable_sort. induction l as [|x r IH]; cbn [fold_right]; [apply Permutation_refl|].
  eapply perm_trans; [apply ins_sorted_perm | apply perm_skip; exact IH].
Qed.

Lemma ins_sorted_sorted x l :
  P (fst x) -> Forall (fun e => P (fst e)) l ->
  StronglySorted kle l -> StronglySorted kle (ins_sorted leb x l).
Proof.
  intros Px. induction l as [|y r IH]; intros Pl S; cbn [ins_sorted].
  - constructor; constructor.
  - inversion Pl as [|? ? Py Pr]; subst. inversion S as [|? ? Sr Fy]; subst.
    destruct (leb (fst x) (fst y)) eqn:E.
    + constructor; [exact S|]. constructor; [exact E|].
      rewrite Forall_forall in *. intros z Hz. unfold kle.
      apply (leb_trans (fst x) (fst y) (fst z)); auto. apply Fy; exact Hz.
    + constructor; [apply IH; assumption|].
      apply (Permutation_Forall (Permutation_sym (ins_sorted_perm x r))).
      constructor; [|exact Fy]. unfold kle. apply leb_total; auto.
Qed.

Lemma stable_sort_sorted l :
  Forall (fun e => P (fst e)) l -> StronglySorted kle (stable_sort leb l).
Proof.
  unfold stable_sort. induction l as [|x r IH]; intro Pl; cbn [fold_right]; [constructor|].
  inversion Pl; subst. apply ins_sorted_sorted; auto.
  apply (Permutation_Forall (Permutation_sym (stable_sort_perm r))). assumption.
Qed.

(* stability: a class of elements whose keys are all equal keeps its order *)
Lemma ins_sorted_filter (p : keyv * obj -> bool) x l :
  (forall a b, p a = true -> p b = true -> fst a = fst b) ->
  filter p (ins_sorted leb x l) = filter p (x :: l).
Proof.
  intro Hp. induction l as [|y r IH]; cbn [ins_sorted]; [reflexivity|].
  destruct (leb (fst x) (fst y)) eqn:E; [reflexivity|].
  cbn [filter] in *. destruct (p y) eqn:Py.
  - destruct (p x) eqn:Px.
    + rewrite (Hp x y Px Py), leb_refl in E. discriminate.
    + rewrite IH. reflexivity.
  - exact IH.
Qed.

Lemma stable_sort_stable (p : keyv * obj -> bool) l :
  (forall a b, p a = true -> p b = true -> fst a = fst b) ->
  filter p (stable_sort leb l) = filter p l.
Proof.
  intro Hp. unfold stable_sort. induction l as [|x r IH]; cbn [fold_right]; [reflexivity|].
  rewrite ins_sorted_filter by exact Hp. cbn [filter]. rewrite IH. reflexivity.
Qed.
End Sorting.

(* ---- the order on keys: total, transitive, reflexive, antisymmetric per kind ---- *)
Lemma lex_leb_refl a : lex_leb a a = true.
Proof. induction a as [|x a IH]; [reflexivity|]. cbn [lex_leb]. rewrite Z.eqb_refl, IH. apply orb_true_r. Qed.

Lemma lex_leb_total a : forall b, lex_leb a b = false -> lex_leb b a = true.
Proof.
  induction a as [|x a IH]; intros [|y b] H; cbn [lex_leb] in *; try reflexivity; try discriminate.
  destruct (Z.ltb_spec x y); [discriminate|]. destruct (Z.eqb_spec x y) as [->|N].
  - rewrite Z.eqb_refl. cbn in H. rewrite (IH b H). apply orb_true_r.
  - destruct (Z.ltb_spec y x); [reflexivity | lia].
Qed.

Lemma lex_leb_trans a : forall b c, lex_leb a b = true -> lex_leb b c = true -> lex_leb a c = true.
Proof.
  induction a as [|x a IH]; intros [|y b] [|z c] H1 H2; cbn [lex_leb] in *; try reflexivity; try discriminate.
  destruct (Z.ltb_spec x y), (Z.ltb_spec y z), (Z.ltb_spec x z); try reflexivity; try lia;
    cbn [orb] in *;
    destruct (Z.eqb_spec x y), (Z.eqb_spec y z), (Z.eqb_spec x z); cbn [andb] in *;
    try discriminate; try lia.
  apply (IH b c); assumption.
Qed.

Lemma lex_leb_antisym a : forall b, lex_leb a b = true -> lex_leb b a = true -> a = b.
Proof.
  induction a as [|x a IH]; intros [|y b] H1 H2; cbn [lex_leb] in *; try reflexivity; try discriminate.
  destruct (Z.ltb_spec x y), (Z.ltb_spec y x); try lia; cbn [orb] in *.
  destruct (Z.eqb_spec x y) as [->|]; [|discriminate]. rewrite Z.eqb_refl in H2. cbn [andb] in *.
  f_equal. apply IH; assumption.
Qed.

Definition is_vz (k : keyv) : bool := match k with VZ _ => true | VT _ => false end.
Definition kindb (k : sort_key) : bool := match k with KName => false | _ => true end.
Definition sort_le (reverse : bool) (a b : keyv) : bool := if reverse then key_leb b a else key_leb a b.

Lemma key_leb_refl a : key_leb a a = true.
Proof. destruct a; cbn [key_leb]; [apply Z.leb_refl | apply lex_leb_refl]. Qed.

Lemma key_leb_total a b : key_leb a b = false -> key_leb b a = true.
Proof.
  destruct a, b; cbn [key_leb]; try discriminate; intro H.
  - apply Z.leb_gt in H. apply Z.leb_le. lia.
  - apply lex_leb_total. exact H.
Qed.

Lemma key_leb_trans a b c :
  is_vz a = is_vz b -> is_vz b = is_vz c -> key_leb a b = true -> key_leb b c = true -> key_leb a c = true.
Proof.
  destruct a, b, c; cbn [key_leb is_vz]; try discriminate; intros _ _ H1 H2.
  - apply Z.leb_le in H1, H2. apply Z.leb_le. lia.
  - eapply lex_leb_trans; eassumption.
Qed.

Lemma key_leb_antisym a b :
  is_vz a = is_vz b -> key_leb a b = true -> key_leb b a = true -> a = b.
Proof.
  destruct a, b; cbn [key_leb is_vz]; try discriminate; intros _ H1 H2.
  - apply Z.leb_le in H1, H2. f_equal. lia.
  - f_equal. apply lex_leb_antisym; assumption.
Qed.

Lemma sort_le_refl r a : sort_le r a a = true.
Proof. destruct r; apply key_leb_refl. Qed.

Lemma sort_le_total r a b : sort_le r a b = false -> sort_le r b a = true.
Proof. destruct r; apply key_leb_total. Qed.

Lemma sort_le_trans r a b c :
  is_vz a = is_vz b -> is_vz b = is_vz c -> sort_le r a b = true -> sort_le r b c = true -> sort_le r a c = true.
Proof.
  destruct r; cbn [sort_le]; intros E1 E2 H1 H2.
  - apply (key_leb_trans c b a); auto.
  - apply (key_leb_trans a b c); auto.
Qed.

Lemma sort_le_antisym r a b :
  is_vz a = is_vz b -> sort_le r a b = true -> sort_le r b a = true -> a = b.
Proof. destruct r; cbn [sort_le]; intros E H1 H2; apply key_leb_antisym; auto. Qed.

Definition keyv_eqb (a b : keyv) : bool :=
  match a, b with
  | VZ x, VZ y => Z.eqb x y
  | VT x, VT y => zlist_eqb x y
  | _, _ => false
  end.

Lemma keyv_eqb_eq a b : keyv_eqb a b = true <-> a = b.
Proof.
  destruct a as [x|x], b as [y|y]; cbn [keyv_eqb]; split; intro H; try discriminate.
  - apply Z.eqb_eq in H. congruence.
  - inversion H. apply Z.eqb_refl.
  - apply (list_eqb_spec Z.eqb Z.eqb_eq) in H. congruence.
  - inversion H. apply (list_eqb_spec Z.eqb Z.eqb_eq). reflexivity.
Qed.

(* ---- decorate / undecorate ---- *)
Definition dec (kf : obj -> keyv) (l : list obj) : list (keyv * obj) := map (fun x => (kf x, x)) l.

Lemma dec_snd kf l : map snd (dec kf l) = l.
Proof. unfold dec. rewrite map_map. cbn. apply map_id. Qed.

Lemma dec_of_perm kf l L : Permutation L (dec kf l) -> L = dec kf (map snd L).
Proof.
  intro Hp. assert (F : Forall (fun e => fst e = kf (snd e)) L).
  { apply (Permutation_Forall (Permutation_sym Hp)). unfold dec. rewrite Forall_forall.
    intros e He. apply in_map_iff in He. destruct He as (x & <- & _). reflexivity. }
  clear Hp. induction F as [|[k x] L E F IH]; [reflexivity|].
  cbn in *. subst k. f_equal. exact IH.
Qed.

Lemma dec_sorted (le : keyv -> keyv -> bool) kf l :
  StronglySorted (kle le) (dec kf l) -> StronglySorted (fun a b => le (kf a) (kf b) = true) l.
Proof.
  induction l as [|x r IH]; intro S; [constructor|]. cbn in S. inversion S as [|? ? Sr Fx]; subst.
  constructor; [apply IH; exact Sr|].
  rewrite Forall_forall in *. intros y Hy. apply (Fx (kf y, y)). unfold dec. apply in_map_iff. eauto.
Qed.

Lemma dec_filter kf (q : keyv -> bool) l :
  map snd (filter (fun e => q (fst e)) (dec kf l)) = filter (fun x => q (kf x)) l.
Proof.
  induction l as [|x r IH]; [reflexivity|]. cbn [dec map filter fst].
  destruct (q (kf x)); cbn [map snd]; fold (dec kf r); rewrite IH; reflexivity.
Qed.

(* the object-level statement of "sorted stably by the key kf with the order le" *)
Lemma sort_objects (le : keyv -> keyv -> bool) (Pk : keyv -> Prop) kf l :
  (forall a b, Pk a -> Pk b -> le a b = false -> le b a = true) ->
  (forall a b c, Pk a -> Pk b -> Pk c -> le a b = true -> le b c = true -> le a c = true) ->
  (forall a, le a a = true) ->
  Forall (fun x => Pk (kf x)) l ->
  let l' := map snd (stable_sort le (dec kf l)) in
  Permutation l' l /\
  StronglySorted (fun a b => le (kf a) (kf b) = true) l' /\
  (forall kv, filter (fun x => keyv_eqb (kf x) kv) l' = filter (fun x => keyv_eqb (kf x) kv) l).
Proof.
  intros Tot Tr Rf Fl l'.
  pose proof (stable_sort_perm le (dec kf l)) as Pm.
  pose proof (dec_of_perm kf l _ Pm) as EL. fold l' in EL.
  split; [|split].
  - unfold l'. rewrite <- (dec_snd kf l) at 2. apply Permutation_map. exact Pm.
  - apply dec_sorted. rewrite <- EL. apply (stable_sort_sorted le Pk Tot Tr).
    unfold dec. rewrite Forall_forall in *. intros e He. apply in_map_iff in He.
    destruct He as (x & <- & Hx). cbn. apply Fl. exact Hx.
  - intro kv. rewrite <- (dec_filter kf (fun k => keyv_eqb k kv) l').
    rewrite <- (dec_filter kf (fun k => keyv_eqb k kv) l). rewrite <- EL. f_equal.
    apply (stable_sort_stable le Rf).
    intros a b Ha Hb. apply keyv_eqb_eq in Ha, Hb. congruence.
Qed.

(* ---- reorder ---- *)
Lemma reorder_go_spec h l : forall ids newl rest l',
  NoDup rest ->
  reorder_go h l ids newl rest = Ok l' ->
  exists cs,
    Forall2 (fun i c => find (fun c => Z.eqb (tid (get h c)) i) l = Some c) ids cs /\
    NoDup cs /\ incl cs rest /\
    l' = newl ++ cs ++ others cs rest.
Proof.
  induction ids as [|i r IH]; intros newl rest l' N H; cbn [reorder_go] in H.
  - inversion H; subst. exists []. rewrite others_nil. repeat split; auto using NoDup_nil.
    intros x [].
  - destruct (find (fun c => Z.eqb (tid (get h c)) i) l) as [c|] eqn:F; [|discriminate].
    destruct (memn c rest) eqn:M; [|discriminate]. apply memn_In in M.
    rewrite remove1_without in H by exact N.
    destruct (IH _ _ _ (NoDup_without c rest N) H) as (cs & F2 & Ncs & Hi & E).
    exists (c :: cs). split; [constructor; assumption|]. split; [|split].
    + constructor; [|exact Ncs]. intro Hc. apply Hi in Hc. apply without_self in Hc. exact Hc.
    + intros x [<-|Hx]; [exact M|]. apply Hi in Hx. apply without_In in Hx. tauto.
    + rewrite E. rewrite <- app_assoc. cbn [app]. rewrite others_cons, others_without. reflexivity.
Qed.

(* ====================== Part 2: heap, frame, WF ====================== *)
Lemma upd_length h : forall x f, length (upd h x f) = length h.
Proof. induction h as [|T r IH]; intros [|x] f; cbn [upd length]; auto. Qed.

Lemma get_upd_same h : forall x f, x < length h -> get (upd h x f) x = f (get h x).
Proof.
  unfold get. induction h as [|T r IH]; intros [|x] f H; cbn [upd length nth] in *; try lia; auto.
  apply IH. lia.
Qed.

Lemma get_upd_other h : forall x y f, x <> y -> get (upd h x f) y = get h y.
Proof.
  unfold get. induction h as [|T r IH]; intros [|x] [|y] f N; cbn [upd nth]; try congruence; auto.
Qed.

Lemma upd_ge h : forall x f, length h <= x -> upd h x f = h.
Proof.
  induction h as [|T r IH]; intros [|x] f H; cbn [upd length] in *; try lia; auto.
  f_equal. apply IH. lia.
Qed.

Lemma get_ge h x : length h <= x -> get h x = dflt.
Proof. intro H. unfold get. apply nth_overflow. exact H. Qed.

(* a field that the update function does not touch *)
Lemma get_upd_field {B} (proj : task -> B) h x f y :
  (forall T, proj (f T) = proj T) -> proj (get (upd h x f) y) = proj (get h y).
Proof.
  intro Hf. destruct (Nat.eq_dec x y) as [->|N]; [|rewrite get_upd_other by exact N; reflexivity].
  destruct (Nat.lt_ge_cases y (length h)) as [L|G].
  - rewrite get_upd_same by exact L. apply Hf.
  - rewrite upd_ge by exact G. reflexivity.
Qed.

Lemma set_own_all_length xs w : forall h, length (set_own_all h xs w) = length h.
Proof.
  unfold set_own_all. induction xs as [|x r IH]; intro h; cbn [fold_left]; [reflexivity|].
  rewrite IH. apply upd_length.
Qed.

Lemma set_own_all_field {B} (proj : task -> B) xs w y :
  (forall T, proj (with_own w T) = proj T) ->
  forall h, proj (get (set_own_all h xs w) y) = proj (get h y).
Proof.
  intro Hf. unfold set_own_all. induction xs as [|x r IH]; intro h; cbn [fold_left]; [reflexivity|].
  rewrite IH. apply get_upd_field. exact Hf.
Qed.

Lemma fold_left_length {A} (f : heap -> A -> heap) :
  (forall h v, length (f h v) = length h) -> forall l h, length (fold_left f l h) = length h.
Proof. intros Hf l. induction l as [|x r IH]; intro h; cbn [fold_left]; [reflexivity|]. rewrite IH. apply Hf. Qed.

(* ---- set_kids: only one children list changes ---- *)
Definition only_kids_changed (o : obj) (s s' : state) : Prop :=
  wroots s' = wroots s /\ length (hp s') = length (hp s) /\
  (forall x, x <> o -> get (hp s') x = get (hp s) x) /\
  get (hp s') o = with_kids (kids (get (hp s') o)) (get (hp s) o).

Lemma set_kids_same s o l : o < length (hp s) -> get (hp (set_kids s o l)) o = with_kids l (get (hp s) o).
Proof. intro H. unfold set_kids. cbn [hp]. apply get_upd_same. exact H. Qed.

Lemma set_kids_kids s o l : o < length (hp s) -> kids (get (hp (set_kids s o l)) o) = l.
Proof. intro H. rewrite set_kids_same by exact H. reflexivity. Qed.

Lemma set_kids_only s o l : only_kids_changed o s (set_kids s o l).
Proof.
  unfold only_kids_changed, set_kids. cbn [hp wroots]. split; [reflexivity|]. split; [apply upd_length|]. split.
  - intros x N. apply get_upd_other. congruence.
  - destruct (Nat.lt_ge_cases o (length (hp s))) as [L|G].
    + rewrite get_upd_same by exact L. reflexivity.
    + rewrite upd_ge by exact G. rewrite get_ge by exact G. reflexivity.
Qed.

Lemma only_kids_refl o s : only_kids_changed o s s.
Proof.
  unfold only_kids_changed. repeat split; auto. destruct (get (hp s) o); reflexivity.
Qed.

(* every field of every task other than [kids o] is what it was *)
Lemma only_kids_fields o s s' : only_kids_changed o s s' ->
  forall x, let T := get (hp s) x in let T' := get (hp s') x in
    tid T' = tid T /\ par T' = par T /\ preds T' = preds T /\ succs T' = succs T /\ own T' = own T /\
    hidden T' = hidden T /\ prio T' = prio T /\ name T' = name T /\ est T' = est T /\
    (x <> o -> kids T' = kids T).
Proof.
  intros (_ & _ & Ho & Hs) x. cbv zeta. destruct (Nat.eq_dec x o) as [->|N].
  - rewrite Hs. cbn. repeat split; auto. congruence.
  - rewrite (Ho x N). repeat split; auto.
Qed.

(* ---- permuting children lists preserves the invariant ---- *)
Definition kids_permuted (s s' : state) : Prop :=
  wroots s' = wroots s /\ length (hp s') = length (hp s) /\
  forall x, exists l, get (hp s') x = with_kids l (get (hp s) x) /\ Permutation l (kids (get (hp s) x)).

Lemma Anc_ext h h' : (forall x, par (get h' x) = par (get h x)) -> forall x a, Anc h x a -> Anc h' x a.
Proof.
  intros E x a H. induction H as [x p H|x p a H _ IH].
  - apply Anc_par. rewrite E. exact H.
  - eapply Anc_up; [rewrite E; exact H | exact IH].
Qed.

Lemma Dep_ext h h' : (forall x, preds (get h' x) = preds (get h x)) -> forall x a, Dep h x a -> Dep h' x a.
Proof.
  intros E x a H. induction H as [x p H|x p a H _ IH].
  - apply Dep_one. rewrite E. exact H.
  - eapply Dep_more; [rewrite E; exact H | exact IH].
Qed.

Lemma WF_kids_permuted s s' : kids_permuted s s' -> WF s -> WF s'.
Proof.
  intros (Ew & El & Hx) (Hfin & Hpc & Hacy & Hsym & Hdag & Hsep & Hids & Hhid & Hown).
  assert (F : forall x, tid (get (hp s') x) = tid (get (hp s) x) /\ par (get (hp s') x) = par (get (hp s) x) /\
                        preds (get (hp s') x) = preds (get (hp s) x) /\ succs (get (hp s') x) = succs (get (hp s) x) /\
                        own (get (hp s') x) = own (get (hp s) x) /\ hidden (get (hp s') x) = hidden (get (hp s) x) /\
                        Permutation (kids (get (hp s') x)) (kids (get (hp s) x))).
  { intro x. destruct (Hx x) as (l & E & P). rewrite E. cbn. repeat split; auto. }
  assert (Fpar : forall x, par (get (hp s') x) = par (get (hp s) x)) by (intro x; apply (F x)).
  assert (Fpre : forall x, preds (get (hp s') x) = preds (get (hp s) x)) by (intro x; apply (F x)).
  assert (Fsuc : forall x, succs (get (hp s') x) = succs (get (hp s) x)) by (intro x; apply (F x)).
  assert (Fown : forall x, own (get (hp s') x) = own (get (hp s) x)) by (intro x; apply (F x)).
  assert (Ftid : forall x, tid (get (hp s') x) = tid (get (hp s) x)) by (intro x; apply (F x)).
  assert (Fhid : forall x, hidden (get (hp s') x) = hidden (get (hp s) x)) by (intro x; apply (F x)).
  assert (Fkid : forall x, Permutation (kids (get (hp s') x)) (kids (get (hp s) x))) by (intro x; apply (F x)).
  assert (A : forall x a, Anc (hp s') x a <-> Anc (hp s) x a).
  { intros x a. split; apply Anc_ext; auto. }
  assert (D : forall x a, Dep (hp s') x a <-> Dep (hp s) x a).
  { intros x a. split; apply Dep_ext; auto. }
  assert (R : forall x r, Root (hp s') x r <-> Root (hp s) x r).
  { intros x r. unfold Root. rewrite A, Fpar. tauto. }
  unfold WF. split; [|split; [|split; [|split; [|split; [|split; [|split; [|split]]]]]]].
  - (* I_fin *) unfold I_fin. destruct Hfin as [Hf1 Hf2]. split.
    + intro x. cbv zeta. specialize (Hf1 x). cbv zeta in Hf1. destruct Hf1 as (H1 & H2 & H3).
      rewrite Fpar, Fpre, Fsuc, Fown, El, Ew. split; [exact H1|]. split; [|exact H3].
      intros y Hy. apply H2. rewrite !in_app_iff in *.
      destruct Hy as [Hy|Hy]; [left; apply (Permutation_in _ (Fkid x)); exact Hy | right; exact Hy].
    + rewrite Ew, El. exact Hf2.
  - (* I_pc *) unfold I_pc. destruct Hpc as [Hp1 Hp2]. split.
    + intros c p. rewrite Fpar. rewrite (Hp1 c p).
      split; intro H; [apply (Permutation_in _ (Permutation_sym (Fkid p))) | apply (Permutation_in _ (Fkid p))]; exact H.
    + intro p. apply (Permutation_NoDup (Permutation_sym (Fkid p))). apply Hp2.
  - (* I_acy *) intros t H. apply (Hacy t). apply A. exact H.
  - (* I_sym *) destruct Hsym as [Hs1 Hs2]. split.
    + intros a b. rewrite Fpre, Fsuc. apply Hs1.
    + intro a. rewrite Fpre, Fsuc. apply Hs2.
  - (* I_dag *) intros t H. apply (Hdag t). apply D. exact H.
  - (* I_sep *) intros a b H. rewrite Fpre in H. rewrite !A. apply Hsep. exact H.
  - (* I_ids *) unfold I_ids. intros a b r. rewrite El, !R, !Ftid. apply Hids.
  - (* I_hid *) destruct Hhid as (Hh1 & Hh2 & Hh3). unfold I_hid. rewrite Ew, El. split; [exact Hh1|]. split.
    + intros x Hlt. rewrite Fhid. apply Hh2. exact Hlt.
    + intros w Hw. cbv zeta. rewrite Fown, Fpar, Fpre, Fsuc. apply (Hh3 w Hw).
  - (* I_own *) unfold I_own. intros t w. rewrite El, Ew, Fown, R. apply Hown.
Qed.

Lemma only_kids_permuted o s s' :
  only_kids_changed o s s' -> Permutation (kids (get (hp s') o)) (kids (get (hp s) o)) -> kids_permuted s s'.
Proof.
  intros (Ew & El & Ho & Hs) P. split; [exact Ew|]. split; [exact El|]. intro x.
  destruct (Nat.eq_dec x o) as [->|N].
  - exists (kids (get (hp s') o)). split; [exact Hs | exact P].
  - exists (kids (get (hp s) x)). rewrite (Ho x N).
    split; [destruct (get (hp s) x); reflexivity | apply Permutation_refl].
Qed.

(* needed by the integrator: move / sort / reorder / the second phase of insert preserve WF *)
Lemma set_kids_perm_WF s o l : WF s -> Permutation l (kids (get (hp s) o)) -> WF (set_kids s o l).
Proof.
  intros W P. apply (WF_kids_permuted s); [|exact W].
  apply (only_kids_permuted o); [apply set_kids_only|].
  destruct (Nat.lt_ge_cases o (length (hp s))) as [L|G].
  - rewrite set_kids_kids by exact L. exact P.
  - unfold set_kids. cbn [hp]. rewrite upd_ge by exact G. apply Permutation_refl.
Qed.

Lemma only_kids_perm_WF o s s' :
  only_kids_changed o s s' -> Permutation (kids (get (hp s') o)) (kids (get (hp s) o)) -> WF s -> WF s'.
Proof. intros F P. apply WF_kids_permuted. apply (only_kids_permuted o); assumption. Qed.

(* ====================== Part 3: what an accepted call does ====================== *)
Lemma failif_bind_ok (c : bool) (k : outcome) : (do _ <- failif c Err; k) = OK -> c = false /\ k = OK.
Proof. destruct c; cbn [failif bind]; [discriminate | auto]. Qed.

Lemma kids_nonempty_in_heap s o x : In x (kids (get (hp s) o)) -> o < length (hp s).
Proof.
  intro H. destruct (Nat.lt_ge_cases o (length (hp s))) as [L|G]; [exact L|].
  rewrite get_ge in H by exact G. destruct H.
Qed.

(* ---------------- move ---------------- *)
Lemma ch_move_effect s o ts b a s' :
  ch_move s o ts b a = (s', OK) ->
  let l := kids (get (hp s) o) in
  exists anchor before,
    ((b = Some anchor /\ a = None /\ before = true) \/ (b = None /\ a = Some anchor /\ before = false)) /\
    incl (somes ts) l /\ In anchor l /\ ~ In anchor (somes ts) /\ o < length (hp s) /\
    s' = set_kids s o (fold_left (move_one before anchor) (somes ts) l).
Proof.
  intros H l. unfold ch_move in H. apply mk_ok in H. destruct H as [G ->].
  unfold ch_move_guard in G. cbv zeta in G. fold l in G.
  apply failif_bind_ok in G. destruct G as [G1 G]. apply failif_bind_ok in G. destruct G as [G2 G].
  apply failif_bind_ok in G. destruct G as [G3 G].
  apply negb_false_iff in G1. rewrite forallb_forall in G1.
  assert (Hi : incl (somes ts) l) by (intros x Hx; apply memn_In; apply G1; exact Hx).
  unfold ch_move_write. fold l.
  destruct b as [b|], a as [a|]; try discriminate G.
  - exists b, true. apply negb_false_iff in G2. apply memn_In in G2.
    destruct (memn b (somes ts)) eqn:M; [discriminate G|]. apply memn_notIn in M.
    repeat split; auto. apply (kids_nonempty_in_heap s o b G2).
  - exists a, false. apply negb_false_iff in G3. apply memn_In in G3.
    destruct (memn a (somes ts)) eqn:M; [discriminate G|]. apply memn_notIn in M.
    repeat split; auto. apply (kids_nonempty_in_heap s o a G3).
Qed.

(* ---------------- set_parent: the child goes to the end of the new parent's list ---------------- *)
Lemma set_parent_guard_neq s t p' : set_parent_guard s t (Some p') = OK -> t <> p'.
Proof.
  intros H E. subst p'. unfold set_parent_guard in H. cbv zeta in H.
  apply failif_bind_ok in H. destruct H as [H _]. cbn in H. rewrite Nat.eqb_refl in H. discriminate H.
Qed.

Lemma detach_length h t : length (detach_from_parent h t) = length h.
Proof.
  unfold detach_from_parent. destruct (par (get h t)) as [q|]; [|reflexivity].
  destruct (memn t (kids (get h q))); [apply upd_length | reflexivity].
Qed.

Lemma detach_kids h t p' :
  p' < length h -> NoDup (kids (get h p')) -> (In t (kids (get h p')) -> par (get h t) = Some p') ->
  kids (get (detach_from_parent h t) p') = without t (kids (get h p')).
Proof.
  intros L N I. unfold detach_from_parent. destruct (par (get h t)) as [q|] eqn:Pq.
  - destruct (memn t (kids (get h q))) eqn:M.
    + destruct (Nat.eq_dec q p') as [->|Nq].
      * rewrite get_upd_same by exact L. cbn [kids with_kids]. apply remove1_without. exact N.
      * rewrite get_upd_other by exact Nq. symmetry. apply without_notin. intro H. apply I in H. congruence.
    + symmetry. apply without_notin. intro H. pose proof (I H) as E. inversion E; subst.
      apply memn_notIn in M. contradiction.
  - symmetry. apply without_notin. intro H. apply I in H. discriminate.
Qed.

Lemma set_parent_write_kids s t p' :
  p' < length (hp s) -> NoDup (kids (get (hp s) p')) ->
  (In t (kids (get (hp s) p')) -> par (get (hp s) t) = Some p') ->
  kids (get (hp (set_parent_write s t (Some p'))) p') = without t (kids (get (hp s) p')) ++ [t].
Proof.
  intros L N I. unfold set_parent_write. cbv zeta.
  set (h1 := detach_from_parent (hp s) t).
  assert (P2 : match own (get (hp s) t) with Some w => Some p' | None => Some p' end = Some p')
    by (destruct (own (get (hp s) t)); reflexivity).
  assert (K1 : kids (get h1 p') = without t (kids (get (hp s) p'))) by (apply detach_kids; assumption).
  assert (L1 : length h1 = length (hp s)) by apply detach_length.
  destruct (own (get (hp s) t)) as [w0|]; cbv beta iota;
  set (h2 := upd h1 t _);
  (match goal with |- context [if memn t (kids (get ?X p')) then _ else _] => set (h3 := X) end);
  assert (K2 : kids (get h2 p') = without t (kids (get (hp s) p')))
    by (unfold h2; rewrite (get_upd_field kids) by reflexivity; exact K1);
  assert (L2 : length h2 = length (hp s)) by (unfold h2; rewrite upd_length; exact L1);
  assert (K3 : kids (get h3 p') = without t (kids (get (hp s) p')))
    by (unfold h3; destruct (own (get h2 p')); [rewrite (set_own_all_field kids) by reflexivity|]; exact K2);
  assert (L3 : length h3 = length (hp s))
    by (unfold h3; destruct (own (get h2 p')); [rewrite set_own_all_length|]; exact L2);
  (assert (M : memn t (kids (get h3 p')) = false) by (rewrite K3; apply memn_notIn; apply without_self));
  rewrite M; cbn [hp]; rewrite get_upd_same by (rewrite L3; exact L); cbn [kids with_kids]; rewrite K3; reflexivity.
Qed.

Lemma set_parent_write_length s t p : length (hp (set_parent_write s t p)) = length (hp s).
Proof.
  unfold set_parent_write. cbv zeta.
  set (h1 := detach_from_parent (hp s) t).
  assert (L1 : length h1 = length (hp s)) by apply detach_length.
  destruct (match p, own (get (hp s) t) with
            | None, Some w => Some (nth w (wroots s) O) | _, _ => p end) as [p'|]; cbn [hp].
  - match goal with |- context [if ?c then _ else _] => destruct c end;
      rewrite ?upd_length;
      (match goal with |- context [match ?c with Some _ => _ | None => _ end] => destruct c end);
      rewrite ?set_own_all_length, ?upd_length; exact L1.
  - rewrite upd_length. exact L1.
Qed.

(* ---------------- insert ---------------- *)
Lemma ch_insert_effect s o i t s' :
  o < length (hp s) -> NoDup (kids (get (hp s) o)) ->
  (In t (kids (get (hp s) o)) -> par (get (hp s) t) = Some o) ->
  ch_insert s o i (Some t) = (s', OK) ->
  let W := without t (kids (get (hp s) o)) in
  let idx := py_index i (S (length W)) in
  exists s1, set_parent s t (Some o) = (s1, OK) /\ idx <= length W /\
    kids (get (hp s1) o) = W ++ [t] /\
    kids (get (hp s') o) = firstn idx W ++ t :: skipn idx W /\
    only_kids_changed o s1 s'.
Proof.
  intros L N I H W idx. unfold ch_insert in H. fold W in H.
  destruct (negb _) eqn:Rg in H; [discriminate H|]. apply negb_false_iff in Rg.
  apply py_index_range in Rg. fold idx in Rg.
  unfold andthen in H.
  match type of H with context [snd ?X] => remember X as r0 eqn:SP end. destruct r0 as [s1 r]. symmetry in SP.
  cbn [fst snd] in H.
  destruct r as [[]| |c]; try discriminate H.
  exists s1. split; [exact SP|]. split; [lia|].
  pose proof SP as SP'. unfold set_parent in SP'. apply mk_ok in SP'. destruct SP' as [G E1].
  assert (K : kids (get (hp s1) o) = W ++ [t]).
  { rewrite E1. apply set_parent_write_kids; assumption. }
  assert (L1 : o < length (hp s1)) by (rewrite E1, set_parent_write_length; exact L).
  split; [exact K|].
  assert (NW : NoDup W) by (apply NoDup_without; exact N).
  assert (tW : ~ In t W) by apply without_self.
  cbv zeta in H. rewrite K in H. rewrite app_length in H. cbn [length] in H.
  rewrite Nat.add_1_r in H. fold idx in H.
  destruct (Nat.eq_dec idx (length W)) as [Ei|Ni].
  - rewrite Ei in H. rewrite app_nth2 in H by lia. rewrite Nat.sub_diag in H. cbn [nth] in H.
    rewrite Nat.eqb_refl in H. inversion H; subst s'.
    rewrite K, Ei, firstn_all, skipn_all. split; [reflexivity | apply only_kids_refl].
  - assert (Li : idx < length W) by lia.
    rewrite app_nth1 in H by exact Li.
    assert (Hn : In (nth idx W t) W) by (apply nth_In; exact Li).
    destruct (Nat.eqb (nth idx W t) t) eqn:E.
    + apply Nat.eqb_eq in E. rewrite E in Hn. contradiction.
    + inversion H; subst s'. split; [|apply set_kids_only].
      rewrite set_kids_kids by exact L1. unfold move_one.
      rewrite remove1_app_last by exact tW. apply ins_near_nth; assumption.
Qed.

(* ---------------- sort ---------------- *)
Definition key_or (k : sort_key) (h : heap) (x : obj) : keyv :=
  match key_of k (get h x) with Ok v => v | _ => VZ 0%Z end.

Lemma keys_of_ok k h : forall l kl,
  keys_of k h l = Ok kl ->
  kl = dec (key_or k h) l /\ Forall (fun x => key_of k (get h x) = Ok (key_or k h x)) l.
Proof.
  induction l as [|x r IH]; intros kl H; cbn [keys_of] in H.
  - inversion H. split; [reflexivity | constructor].
  - destruct (key_of k (get h x)) as [v| |c] eqn:Kx; try discriminate H. cbn [bind] in H.
    destruct (keys_of k h r) as [r'| |c] eqn:Kr; try discriminate H. cbn [bind] in H.
    inversion H; subst kl. destruct (IH r' eq_refl) as [-> F].
    assert (Ev : key_or k h x = v) by (unfold key_or; rewrite Kx; reflexivity).
    split; [cbn [dec map]; rewrite Ev; reflexivity | constructor; [rewrite Ev; exact Kx | exact F]].
Qed.

Lemma key_of_kind k T v : key_of k T = Ok v -> is_vz v = kindb k.
Proof.
  destruct k; cbn [key_of kindb]; intro H; try discriminate H.
  - inversion H; reflexivity.
  - destruct (prio T); inversion H; reflexivity.
  - inversion H; reflexivity.
  - inversion H; reflexivity.
Qed.

Lemma ch_sort_effect s o k reverse s' :
  ch_sort s o k reverse = (s', OK) ->
  let l := kids (get (hp s) o) in
  let kf := key_or k (hp s) in
  exists l', s' = set_kids s o l' /\
    Forall (fun x => key_of k (get (hp s) x) = Ok (kf x)) l /\
    Permutation l' l /\
    StronglySorted (fun a b => sort_le reverse (kf a) (kf b) = true) l' /\
    (forall kv, filter (fun x => keyv_eqb (kf x) kv) l' = filter (fun x => keyv_eqb (kf x) kv) l).
Proof.
  intros H l kf.
  assert (X : exists kl, keys_of k (hp s) l = Ok kl /\
                s' = set_kids s o (map snd (stable_sort (sort_le reverse) kl))).
  { unfold ch_sort in H. destruct (none_clash s o k); [discriminate H|]. fold l in H.
    destruct k; try discriminate H;
      (destruct (keys_of _ (hp s) l) as [kl| |c]; try discriminate H;
       exists kl; split; [reflexivity|]; inversion H; destruct reverse; reflexivity). }
  destruct X as (kl & Kl & ->). apply keys_of_ok in Kl. destruct Kl as [-> F]. fold kf in F |- *.
  exists (map snd (stable_sort (sort_le reverse) (dec kf l))). split; [reflexivity|]. split; [exact F|].
  apply (sort_objects (sort_le reverse) (fun v => is_vz v = kindb k)).
  - intros a b _ _. apply sort_le_total.
  - intros a b c Pa Pb Pc. apply sort_le_trans; congruence.
  - apply sort_le_refl.
  - rewrite Forall_forall in *. intros x Hx. apply (key_of_kind k (get (hp s) x)). apply F. exact Hx.
Qed.

(* ---------------- reorder ---------------- *)
Lemma ch_reorder_effect s o ids s' :
  NoDup (kids (get (hp s) o)) ->
  ch_reorder s o ids = (s', OK) ->
  let l := kids (get (hp s) o) in
  exists cs,
    Forall2 (fun i c => find (fun c => Z.eqb (tid (get (hp s) c)) i) l = Some c) ids cs /\
    NoDup cs /\ incl cs l /\
    s' = set_kids s o (cs ++ others cs l) /\ Permutation (cs ++ others cs l) l.
Proof.
  intros N H l. unfold ch_reorder in H. cbv zeta in H. fold l in H.
  destruct (reorder_go (hp s) l ids [] l) as [l'| |c] eqn:R; try discriminate H.
  inversion H; subst s'. apply reorder_go_spec in R; [|exact N].
  destruct R as (cs & F2 & Ncs & Hi & ->). exists cs. cbn [app]. repeat split; auto.
  apply select_others_perm; assumption.
Qed.

(* the listed ids really are the ids of the selected children *)
Lemma reorder_selected_ids h l ids cs :
  Forall2 (fun i c => find (fun c => Z.eqb (tid (get h c)) i) l = Some c) ids cs ->
  map (fun c => tid (get h c)) cs = ids /\ incl cs l.
Proof.
  induction 1 as [|i c ids cs F _ IH]; [split; [reflexivity | intros x []]|].
  apply find_some in F. destruct F as [Hin E]. apply Z.eqb_eq in E. destruct IH as [IH1 IH2].
  split; [cbn [map]; rewrite E, IH1; reflexivity | intros x [<-|Hx]; auto].
Qed.

(* ---------------- children assignment: the list is exactly the given tasks, in order ---------------- *)
Lemma release_child_length h0 h v : length (release_child h0 h v) = length h.
Proof. unfold release_child. rewrite set_own_all_length. apply upd_length. Qed.

Lemma adopt_child_length h0 t h v : length (adopt_child h0 t h v) = length h.
Proof.
  unfold adopt_child. cbv zeta.
  assert (X : length (match par (get h v) with
                      | Some q => if negb (Nat.eqb q t) && memn v (kids (get h q))
                                  then upd h q (fun Q => with_kids (remove1 v (kids Q)) Q) else h
                      | None => h end) = length h).
  { destruct (par (get h v)) as [q|]; [|reflexivity].
    destruct (negb (Nat.eqb q t) && memn v (kids (get h q))); [apply upd_length | reflexivity]. }
  destruct (own (get h0 t)); rewrite ?set_own_all_length, upd_length; exact X.
Qed.

Lemma set_children_write_length s t value : length (hp (set_children_write s t value)) = length (hp s).
Proof.
  unfold set_children_write. cbv zeta. cbn [hp]. rewrite upd_length.
  rewrite (fold_left_length (adopt_child (hp s) t)) by (intros; apply adopt_child_length).
  apply (fold_left_length (release_child (hp s))). intros; apply release_child_length.
Qed.

Lemma set_children_write_kids s t value :
  t < length (hp s) -> kids (get (hp (set_children_write s t value)) t) = value.
Proof.
  intro L. unfold set_children_write. cbv zeta. cbn [hp]. rewrite get_upd_same; [reflexivity|].
  rewrite (fold_left_length (adopt_child (hp s) t)) by (intros; apply adopt_child_length).
  rewrite (fold_left_length (release_child (hp s))) by (intros; apply release_child_length).
  exact L.
Qed.

Lemma set_children_effect s t vs s' :
  t < length (hp s) -> set_children s t vs = (s', OK) ->
  kids (get (hp s') t) = dedup (somes vs) /\ length (hp s') = length (hp s) /\ wroots s' = wroots s.
Proof.
  intros L H. unfold set_children in H. cbv zeta in H. apply mk_ok in H. destruct H as [_ ->].
  split; [apply set_children_write_kids; exact L|]. split; [apply set_children_write_length | reflexivity].
Qed.

(* ---------------- append ---------------- *)
Lemma ch_append_is_set_parent s o t : ch_append s o (Some t) = set_parent s t (Some o).
Proof. reflexivity. Qed.

Lemma ch_append_effect s o t s' :
  o < length (hp s) -> NoDup (kids (get (hp s) o)) ->
  (In t (kids (get (hp s) o)) -> par (get (hp s) t) = Some o) ->
  ch_append s o (Some t) = (s', OK) ->
  kids (get (hp s') o) = without t (kids (get (hp s) o)) ++ [t].
Proof.
  intros L N I H. cbn [ch_append] in H. unfold set_parent in H. apply mk_ok in H. destruct H as [_ ->].
  apply set_parent_write_kids; assumption.
Qed.

(* ---------------- remove ---------------- *)
Lemma ch_remove_effect s o t s' :
  o < length (hp s) -> NoDup (kids (get (hp s) o)) ->
  ch_remove s o (Some t) = (s', OK) ->
  kids (get (hp s') o) = without t (kids (get (hp s) o)) /\
  length (hp s') = length (hp s) /\ wroots s' = wroots s /\
  (In t (kids (get (hp s) o)) -> set_children s o (map Some (without t (kids (get (hp s) o)))) = (s', OK)) /\
  (~ In t (kids (get (hp s) o)) -> s' = s).
Proof.
  intros L N H. unfold ch_remove in H. cbv zeta in H.
  destruct (memn t (kids (get (hp s) o))) eqn:M.
  - apply memn_In in M. destruct (set_children_effect s o _ s' L H) as (K & Ln & Wr).
    rewrite somes_map_Some, dedup_id in K by (apply NoDup_without; exact N).
    repeat split; auto. intro X; contradiction.
  - apply memn_notIn in M. inversion H; subst s'. rewrite without_notin by exact M.
    repeat split; auto. intro X; contradiction.
Qed.

(* ---------------- t // vs ---------------- *)
Lemma op_floordiv_effect s o vs s' :
  o < length (hp s) -> NoDup (kids (get (hp s) o)) ->
  op_floordiv s o vs = (s', OK) ->
  kids (get (hp s') o) = kids (get (hp s) o) ++ others (kids (get (hp s) o)) (dedup (somes vs)).
Proof.
  intros L N H. unfold op_floordiv in H. destruct (set_children_effect s o _ s' L H) as (K & _).
  rewrite K, somes_app, somes_map_Some. apply dedup_app. exact N.
Qed.

(* ---------------- remove_all ---------------- *)
Lemma ch_remove_seq_effect o : forall m s s',
  o < length (hp s) -> NoDup (kids (get (hp s) o)) ->
  seq_calls (fun s' c => ch_remove s' o (Some c)) s m = (s', OK) ->
  kids (get (hp s') o) = others m (kids (get (hp s) o)) /\ length (hp s') = length (hp s) /\ wroots s' = wroots s.
Proof.
  induction m as [|c m IH]; intros s s' L N H.
  - cbn in H. inversion H; subst. rewrite others_nil. auto.
  - cbn [seq_calls] in H. unfold andthen in H.
    destruct (ch_remove s o (Some c)) as [s1 r] eqn:E. cbn [fst snd] in H.
    destruct r as [[]| |k]; try discriminate H.
    destruct (ch_remove_effect s o c s1 L N E) as (K & Ln & Wr & _).
    assert (L1 : o < length (hp s1)) by (rewrite Ln; exact L).
    assert (N1 : NoDup (kids (get (hp s1) o))) by (rewrite K; apply NoDup_without; exact N).
    destruct (IH s1 s' L1 N1 H) as (K' & Ln' & Wr').
    rewrite K', K, others_cons, others_without. repeat split; congruence.
Qed.

Lemma ch_remove_all_effect s o ids s' :
  o < length (hp s) -> NoDup (kids (get (hp s) o)) ->
  ch_remove_all s o ids = (s', OK) ->
  kids (get (hp s') o) = filter (fun c => negb (memz (tid (get (hp s) c)) ids)) (kids (get (hp s) o)).
Proof.
  intros L N H. unfold ch_remove_all in H. cbv zeta in H.
  destruct (ch_remove_seq_effect o _ s s' L N H) as (K & _). rewrite K.
  apply (others_filter_mem (fun c => memz (tid (get (hp s) c)) ids)).
Qed.

(* ---------------- WBS.remove ---------------- *)
Lemma wbs_remove_effect s w t s' :
  wbs_remove s w (Some t) = (s', OK) ->
  exists l, wbs_tasks s w = Ok l /\
    ((exists q, In q (wroot s w :: l) /\ In t (kids (get (hp s) q)) /\
                find (fun q => memn t (kids (get (hp s) q))) (wroot s w :: l) = Some q /\
                ch_remove s q (Some t) = (s', OK)) \/
     (s' = s /\ forall q, In q (wroot s w :: l) -> ~ In t (kids (get (hp s) q)))).
Proof.
  intro H. cbn [wbs_remove] in H. unfold wbs_remove_task in H.
  destruct (wbs_tasks s w) as [l| |k]; try discriminate H. exists l. split; [reflexivity|].
  destruct (find (fun q => memn t (kids (get (hp s) q))) (wroot s w :: l)) as [q|] eqn:F.
  - left. exists q. pose proof (find_some _ _ F) as [Hq Hm]. apply memn_In in Hm. auto.
  - right. inversion H; subst s'. split; [reflexivity|]. intros q Hq Hin.
    pose proof (find_none _ _ F q Hq) as X. cbn beta in X. apply memn_notIn in X. contradiction.
Qed.

(* ---------------- links facades: through the setter ---------------- *)
Lemma ln_append_is_set_links d s t x :
  ln_append d s t (Some x) = set_links d s t (map Some (fwd d (get (hp s) t) ++ [x])).
Proof. reflexivity. Qed.

Lemma ln_remove_is_set_links d s t x :
  In x (fwd d (get (hp s) t)) ->
  ln_remove d s t (Some x) = set_links d s t (map Some (without x (fwd d (get (hp s) t)))).
Proof. intro H. unfold ln_remove. cbv zeta. apply memn_In in H. rewrite H. reflexivity. Qed.

Lemma ln_remove_absent d s t x : ~ In x (fwd d (get (hp s) t)) -> ln_remove d s t (Some x) = (s, OK).
Proof. intro H. unfold ln_remove. cbv zeta. apply memn_notIn in H. rewrite H. reflexivity. Qed.

Lemma op_shift_is_set_links d s t vs :
  op_shift d s t vs = set_links d s t (map Some (fwd d (get (hp s) t)) ++ vs).
Proof. reflexivity. Qed.

(* the value handed to the setter: present links stay in order, new ones follow (first occurrences) *)
Lemma op_shift_value l vs : NoDup l -> dedup (somes (map Some l ++ vs)) = l ++ others l (dedup (somes vs)).
Proof. intro N. rewrite somes_app, somes_map_Some. apply dedup_app. exact N. Qed.

Lemma ln_append_value l x : NoDup l -> dedup (somes (map Some (l ++ [x]))) = if memn x l then l else l ++ [x].
Proof.
  intro N. rewrite somes_map_Some, dedup_app by exact N. cbn [dedup without filter].
  unfold others. cbn [filter]. destruct (memn x l); cbn [negb]; [apply app_nil_r | reflexivity].
Qed.

Lemma ln_remove_value l x : NoDup l -> dedup (somes (map Some (without x l))) = without x l.
Proof. intro N. rewrite somes_map_Some. apply dedup_id. apply NoDup_without. exact N. Qed.

(* ====================== Part 4: the statements at the level of [step] ====================== *)
Ltac splits := repeat match goal with |- _ /\ _ => split end.

Lemma step_ok_inv s o s' : step s o = (s', OK) -> args_ok s o = true /\ step' s o = (s', OK).
Proof. unfold step. destruct (args_ok s o); intro H; [auto | discriminate H]. Qed.

Lemma step_of_step' s o : args_ok s o = true -> step s o = step' s o.
Proof. intro H. unfold step. rewrite H. reflexivity. Qed.

Lemma okobj_lt s x : okobj s x = true -> x < length (hp s).
Proof. unfold okobj. apply Nat.ltb_lt. Qed.

Lemma WF_I_pc s : WF s -> I_pc s.
Proof. unfold WF. tauto. Qed.

Lemma I_pc_nodup s o : I_pc s -> NoDup (kids (get (hp s) o)).
Proof. intros [_ H]. apply H. Qed.

Lemma I_pc_down s o t : I_pc s -> In t (kids (get (hp s) o)) -> par (get (hp s) t) = Some o.
Proof. intros [H _]. apply H. Qed.

(* move: a permutation; the tasks not named keep their relative order; distinct named tasks end up
   immediately before the anchor in the given order (after: behind it, last one first); only kids o changes *)
Lemma C16_move : forall s o ts b a s',
  WF s -> step s (ChMove o ts b a) = (s', OK) ->
  let l := kids (get (hp s) o) in
  let l' := kids (get (hp s') o) in
  exists anchor before,
    ((b = Some anchor /\ a = None /\ before = true) \/ (b = None /\ a = Some anchor /\ before = false)) /\
    incl (somes ts) l /\ In anchor l /\ ~ In anchor (somes ts) /\
    Permutation l' l /\
    others (somes ts) l' = others (somes ts) l /\
    (NoDup (somes ts) ->
       exists pre post, others (somes ts) l = pre ++ anchor :: post /\
         l' = pre ++ (if before then somes ts ++ anchor :: post else anchor :: rev (somes ts) ++ post)) /\
    only_kids_changed o s s' /\ WF s'.
Proof.
  intros s o ts b a s' W H l l'. apply step_ok_inv in H. destruct H as [_ H]. cbn [step'] in H.
  destruct (ch_move_effect s o ts b a s' H) as (anchor & before & Hc & Hi & Ha & Hn & L & E).
  fold l in Hi, Ha, E.
  assert (N : NoDup l) by (apply I_pc_nodup, WF_I_pc, W).
  assert (El : l' = fold_left (move_one before anchor) (somes ts) l).
  { unfold l'. rewrite E. apply set_kids_kids. exact L. }
  assert (P : Permutation l' l) by (rewrite El; apply move_fold_perm; exact Hi).
  exists anchor, before. splits; auto.
  - rewrite El. apply move_fold_others.
  - intro Nts. rewrite El. apply move_fold_spec; assumption.
  - rewrite E. apply set_kids_only.
  - rewrite E. apply set_kids_perm_WF; [exact W|]. fold l. rewrite <- El. exact P.
Qed.

(* one task: it sits immediately before / after the anchor and nothing else moved *)
Lemma C16_move_one : forall s o t b a s',
  WF s -> step s (ChMove o [Some t] b a) = (s', OK) ->
  let l := kids (get (hp s) o) in
  let l' := kids (get (hp s') o) in
  exists anchor pre post,
    without t l = pre ++ anchor :: post /\
    ((b = Some anchor /\ a = None /\ l' = pre ++ t :: anchor :: post) \/
     (b = None /\ a = Some anchor /\ l' = pre ++ anchor :: t :: post)) /\
    without t l' = without t l.
Proof.
  intros s o t b a s' W H l l'.
  destruct (C16_move s o [Some t] b a s' W H) as (anchor & before & Hc & Hi & Ha & Hn & P & Ho & Hs & _).
  fold l l' in Hi, Ha, P, Ho, Hs. cbn [somes] in *.
  assert (Nt : NoDup [t]) by (constructor; [intros [] | constructor]).
  destruct (Hs Nt) as (pre & post & E1 & E2).
  rewrite others_cons, others_nil in E1.
  do 2 (rewrite others_cons, others_nil in Ho).
  exists anchor, pre, post. split; [exact E1|]. split; [|exact Ho].
  destruct Hc as [(-> & -> & ->)|(-> & -> & ->)]; [left | right]; splits; try reflexivity; exact E2.
Qed.

(* insert: the index refers to the list after the call; the others keep their order; the rest is
   the effect of [t.parent = o] *)
Lemma C16_insert : forall s o i t s',
  WF s -> step s (ChInsert o i (Some t)) = (s', OK) ->
  let W := without t (kids (get (hp s) o)) in
  let idx := py_index i (S (length W)) in
  let l' := kids (get (hp s') o) in
  exists s1, step s (SetParent t (Some o)) = (s1, OK) /\
    idx <= length W /\
    l' = firstn idx W ++ t :: skipn idx W /\
    (forall d, nth idx l' d = t) /\ without t l' = W /\ length l' = S (length W) /\
    Permutation l' (kids (get (hp s1) o)) /\
    only_kids_changed o s1 s' /\ (WF s1 -> WF s').
Proof.
  intros s o i t s' Wf H W idx l'. apply step_ok_inv in H. destruct H as [A H]. cbn [step'] in H.
  cbn [args_ok okopt] in A. apply andb_true_iff in A. destruct A as [Ao At].
  pose proof (okobj_lt _ _ Ao) as L.
  pose proof (WF_I_pc s Wf) as Pc.
  destruct (ch_insert_effect s o i t s' L (I_pc_nodup s o Pc) (I_pc_down s o t Pc) H)
    as (s1 & SP & Hi & K1 & K & F).
  fold W in K1, K, Hi. fold idx in K, Hi. fold l' in K.
  assert (tW : ~ In t W) by apply without_self.
  exists s1. split.
  { rewrite step_of_step'; [exact SP|]. cbn [args_ok okopt]. rewrite At, Ao. reflexivity. }
  split; [exact Hi|]. split; [exact K|].
  assert (P : Permutation l' (kids (get (hp s1) o))).
  { rewrite K1, K. rewrite <- (firstn_skipn idx W) at 3. rewrite <- app_assoc.
    apply Permutation_app_head. cbn [app]. apply Permutation_cons_append. }
  splits.
  - intro d. rewrite K. apply nth_insert_at. exact Hi.
  - rewrite K. apply without_insert_at. exact tW.
  - rewrite K. apply length_insert_at.
  - exact P.
  - exact F.
  - intro W1. apply (only_kids_perm_WF o s1 s' F P W1).
Qed.

(* sort: permutation, sorted by the key (descending on request), stable *)
Lemma C16_sort : forall s o k reverse s',
  WF s -> step s (ChSort o k reverse) = (s', OK) ->
  let l := kids (get (hp s) o) in
  let l' := kids (get (hp s') o) in
  let kf := key_or k (hp s) in
  Forall (fun x => key_of k (get (hp s) x) = Ok (kf x)) l /\
  Permutation l' l /\
  StronglySorted (fun x y => sort_le reverse (kf x) (kf y) = true) l' /\
  (forall kv, filter (fun x => keyv_eqb (kf x) kv) l' = filter (fun x => keyv_eqb (kf x) kv) l) /\
  only_kids_changed o s s' /\ WF s'.
Proof.
  intros s o k reverse s' W H l l' kf. apply step_ok_inv in H. destruct H as [A H]. cbn [step'] in H.
  cbn [args_ok] in A. pose proof (okobj_lt _ _ A) as L.
  destruct (ch_sort_effect s o k reverse s' H) as (l1 & E & F & P & S & St).
  fold l kf in F, P, S, St.
  assert (El : l' = l1) by (unfold l'; rewrite E; apply set_kids_kids; exact L).
  rewrite El. splits; auto.
  - rewrite E. apply set_kids_only.
  - rewrite E. apply set_kids_perm_WF; [exact W | exact P].
Qed.

(* reorder: the children with the listed ids first, in the given order, then the others in the old order *)
Lemma C16_reorder : forall s o ids s',
  WF s -> step s (ChReorder o ids) = (s', OK) ->
  let l := kids (get (hp s) o) in
  let l' := kids (get (hp s') o) in
  exists cs,
    Forall2 (fun i c => find (fun c => Z.eqb (tid (get (hp s) c)) i) l = Some c) ids cs /\
    map (fun c => tid (get (hp s) c)) cs = ids /\ NoDup cs /\ incl cs l /\
    l' = cs ++ others cs l /\ Permutation l' l /\
    only_kids_changed o s s' /\ WF s'.
Proof.
  intros s o ids s' W H l l'. apply step_ok_inv in H. destruct H as [A H]. cbn [step'] in H.
  cbn [args_ok] in A. pose proof (okobj_lt _ _ A) as L.
  assert (N : NoDup l) by (apply I_pc_nodup, WF_I_pc, W).
  destruct (ch_reorder_effect s o ids s' N H) as (cs & F2 & Ncs & Hi & E & P). fold l in F2, Hi, E, P.
  assert (El : l' = cs ++ others cs l) by (unfold l'; rewrite E; apply set_kids_kids; exact L).
  exists cs. rewrite El. splits; auto.
  - apply (reorder_selected_ids (hp s) l ids cs F2).
  - rewrite E. apply set_kids_only.
  - rewrite E. apply set_kids_perm_WF; [exact W | exact P].
Qed.

(* append = parent assignment; the task is last, the others keep their order *)
Lemma C16_append : forall s o t s',
  WF s -> step s (ChAppend o (Some t)) = (s', OK) ->
  step s (SetParent t (Some o)) = (s', OK) /\
  kids (get (hp s') o) = without t (kids (get (hp s) o)) ++ [t].
Proof.
  intros s o t s' W H. apply step_ok_inv in H. destruct H as [A H]. cbn [step'] in H.
  cbn [args_ok okopt] in A. apply andb_true_iff in A. destruct A as [Ao At].
  pose proof (WF_I_pc s W) as Pc. split.
  - rewrite step_of_step'; [exact H|]. cbn [args_ok okopt]. rewrite At, Ao. reflexivity.
  - apply ch_append_effect; auto using okobj_lt, I_pc_nodup, I_pc_down.
Qed.

(* children / roots assignment: the list is exactly the given tasks (first occurrences, None dropped) in order *)
Lemma C16_set_children_list : forall s t vs s',
  step s (SetChildren t vs) = (s', OK) -> kids (get (hp s') t) = dedup (somes vs).
Proof.
  intros s t vs s' H. apply step_ok_inv in H. destruct H as [A H]. cbn [step'] in H.
  cbn [args_ok] in A. apply andb_true_iff in A. destruct A as [At _].
  apply (set_children_effect s t vs s' (okobj_lt _ _ At) H).
Qed.

(* remove = assignment of the list without the task *)
Lemma C16_remove : forall s o t s',
  WF s -> step s (ChRemove o (Some t)) = (s', OK) ->
  kids (get (hp s') o) = without t (kids (get (hp s) o)) /\
  (In t (kids (get (hp s) o)) ->
     step s (SetChildren o (map Some (without t (kids (get (hp s) o))))) = (s', OK)) /\
  (~ In t (kids (get (hp s) o)) -> s' = s).
Proof.
  intros s o t s' W H. apply step_ok_inv in H. destruct H as [A H]. cbn [step'] in H.
  cbn [args_ok okopt] in A. apply andb_true_iff in A. destruct A as [Ao At].
  pose proof (okobj_lt _ _ Ao) as L. pose proof (WF_I_pc s W) as Pc.
  destruct (ch_remove_effect s o t s' L (I_pc_nodup s o Pc) H) as (K & _ & _ & H1 & H2).
  split; [exact K|]. split; [|exact H2]. intro Hin. rewrite step_of_step'; [apply H1; exact Hin|].
  cbn [args_ok]. rewrite Ao. cbn [andb]. unfold oklist. rewrite forallb_forall.
  intros x Hx. apply in_map_iff in Hx. destruct Hx as (y & <- & Hy). cbn [okopt]. unfold okobj.
  apply Nat.ltb_lt. apply without_In in Hy. destruct Hy as [Hy _].
  destruct W as (Fin & _). destruct Fin as [Fin _]. specialize (Fin o). cbv zeta in Fin.
  apply (proj1 (proj2 Fin)). apply in_or_app. left. exact Hy.
Qed.

Lemma C16_remove_all : forall s o ids s',
  WF s -> step s (ChRemoveAll o ids) = (s', OK) ->
  kids (get (hp s') o) = filter (fun c => negb (memz (tid (get (hp s) c)) ids)) (kids (get (hp s) o)).
Proof.
  intros s o ids s' W H. apply step_ok_inv in H. destruct H as [A H]. cbn [step'] in H.
  cbn [args_ok] in A. apply (ch_remove_all_effect s o ids s' (okobj_lt _ _ A)); [|exact H].
  apply I_pc_nodup, WF_I_pc, W.
Qed.

(* t // vs : the present children stay in order, the new ones follow in the order given *)
Lemma C16_floordiv : forall s o vs s',
  WF s -> step s (OpFloordiv o vs) = (s', OK) ->
  kids (get (hp s') o) = kids (get (hp s) o) ++ others (kids (get (hp s) o)) (dedup (somes vs)) /\
  step s (SetChildren o (map Some (kids (get (hp s) o)) ++ vs)) = (s', OK).
Proof.
  intros s o vs s' W H. apply step_ok_inv in H. destruct H as [A H]. cbn [step'] in H.
  cbn [args_ok] in A. apply andb_true_iff in A. destruct A as [Ao Av].
  pose proof (okobj_lt _ _ Ao) as L. split.
  - apply op_floordiv_effect; auto. apply I_pc_nodup, WF_I_pc, W.
  - rewrite step_of_step'; [exact H|]. cbn [args_ok]. rewrite Ao. cbn [andb]. unfold oklist in *.
    rewrite forallb_app, Av, andb_true_r. rewrite forallb_forall.
    intros x Hx. apply in_map_iff in Hx. destruct Hx as (y & <- & Hy). cbn [okopt]. unfold okobj.
    apply Nat.ltb_lt. destruct W as (Fin & _). destruct Fin as [Fin _]. specialize (Fin o). cbv zeta in Fin.
    apply (proj1 (proj2 Fin)). apply in_or_app. left. exact Hy.
Qed.

(* WBS.remove: the removal from the children list of the (first, depth first) task that lists t *)
Lemma C16_wbs_remove : forall s w t s',
  step s (WbsRemove w (Some t)) = (s', OK) ->
  exists l, wbs_tasks s w = Ok l /\
    ((exists q, In q (wroot s w :: l) /\ In t (kids (get (hp s) q)) /\ ch_remove s q (Some t) = (s', OK)) \/
     (s' = s /\ forall q, In q (wroot s w :: l) -> ~ In t (kids (get (hp s) q)))).
Proof.
  intros s w t s' H. apply step_ok_inv in H. destruct H as [_ H]. cbn [step'] in H.
  destruct (wbs_remove_effect s w t s' H) as (l & E & [(q & H1 & H2 & _ & H4)|H5]).
  - exists l. split; [exact E|]. left. exists q. auto.
  - exists l. split; [exact E|]. right. exact H5.
Qed.

(* frame of the operations that only permute one children list *)
Lemma C16_frame_only_kids : forall o s s', only_kids_changed o s s' ->
  wroots s' = wroots s /\ length (hp s') = length (hp s) /\
  forall x, let T := get (hp s) x in let T' := get (hp s') x in
    tid T' = tid T /\ par T' = par T /\ preds T' = preds T /\ succs T' = succs T /\ own T' = own T /\
    hidden T' = hidden T /\ prio T' = prio T /\ name T' = name T /\ est T' = est T /\
    (x <> o -> kids T' = kids T).
Proof.
  intros o s s' F. split; [apply F|]. split; [apply F|]. apply only_kids_fields. exact F.
Qed.
