(* Source-text tie, second tranche: the guard helpers of task.py that gen/SrcGraph.v translates from the current
   source text - Task.parent, Task.__get_all_parents (+ its generator get_parent), Task.__check_no_links_with,
   _has_id_intersection (+ its two loops) - are equal to the hand-written model of Graph/Model.v
   (pubpar, anc, links_bad, id_clash).

   The code recognises the hidden root task of a WBS by its id (EMPTY_ID = sys.maxsize), the model by a flag:
   [hid_tid h] ties the two.  The graph statements hold on well-formed states (WF of Graph/Invariant.v). *)
From PJ Require Import Base.Prelude Graph.Model Graph.Invariant gen.SrcGraph Graph.SrcGraphEquiv
                       Graph.AncLemmas Graph.AncLemmas2 Graph.OracleProofs.
Local Open Scope nat_scope.

(* the two copies of the constant (gen/SrcGraph.v extracts it from the source, Graph/Model.v writes it down) *)
Lemma EMPTY_ID_same : SrcGraph.EMPTY_ID = Model.EMPTY_ID.
Proof. reflexivity. Qed.

(* the hidden root of a WBS is recognised by its id in the code and by a flag in the model *)
Definition hid_tid (h : heap) : Prop := forall q, hidden (get h q) = Z.eqb (tid (get h q)) SrcGraph.EMPTY_ID.

(* ================================================================== *)
(** * Task.parent *)

Theorem src_parent_eq : forall h t, hid_tid h -> src_parent h t = Ok (pubpar h t).
Proof.
  intros h t Hh. unfold src_parent, pubpar.
  destruct (par (get h t)) as [q|]; [|reflexivity].
  rewrite <- (Hh q). destruct (hidden (get h q)); reflexivity.
Qed.

(* ================================================================== *)
(** * Task.__get_all_parents *)

(* the raw ancestors up to, and without, the first hidden one *)
Fixpoint upto_hidden (h : heap) (l : list obj) : list obj :=
  match l with [] => [] | q :: r => if hidden (get h q) then [] else q :: upto_hidden h r end.

Lemma upto_hidden_incl h l x : In x (upto_hidden h l) -> In x l.
Proof.
  induction l as [|q r IH]; cbn [upto_hidden]; [easy|].
  destruct (hidden (get h q)); [easy|]. intros [<-|H]; [left; reflexivity | right; apply IH; exact H].
Qed.

(* get_parent(t.parent) and get_parent(t._Task__parent) yield the same: a hidden parent ends the walk either way *)
Lemma src_get_parent_pubpar h : hid_tid h ->
  forall f x, src_get_parent f h (pubpar h x) = src_get_parent f h (par (get h x)).
Proof.
  intros Hh f x. unfold pubpar. destruct (par (get h x)) as [q|]; [|reflexivity].
  destruct (hidden (get h q)) eqn:Eq; [|reflexivity].
  destruct f as [|f]; [reflexivity|]. cbn [src_get_parent].
  rewrite <- (Hh q), Eq. reflexivity.
Qed.

(* the generator on a finite raw chain: any fuel above the length of the chain is enough *)
Lemma src_get_parent_chain h : hid_tid h ->
  forall x a, Chain h x a -> forall F, length a < F ->
  src_get_parent F h (par (get h x)) = Ok (upto_hidden h a).
Proof.
  intros Hh x a Hc. induction Hc as [x Hp | x p l Hp Hc IH]; intros F HF.
  - rewrite Hp. destruct F as [|f]; [lia|]. reflexivity.
  - rewrite Hp. cbn [length] in HF. destruct F as [|f]; [lia|].
    cbn [src_get_parent upto_hidden]. rewrite <- (Hh p).
    destruct (hidden (get h p)) eqn:Ep; cbn [negb]; [reflexivity|].
    rewrite (src_parent_eq h p Hh). cbn [bind].
    rewrite (src_get_parent_pubpar h Hh), (IH f) by lia. reflexivity.
Qed.

Theorem src_all_parents_ok : forall h t a F, hid_tid h -> anc h t = Ok a -> length a < F ->
  src_all_parents F h t = Ok (upto_hidden h a).
Proof.
  intros h t a F Hh Ha HF. unfold src_all_parents. rewrite bind_ret.
  apply src_get_parent_chain; [exact Hh | apply anc_Ok_Chain; exact Ha | exact HF].
Qed.

Lemma anc_Ok_length h t a : anc h t = Ok a -> length a <= length h.
Proof.
  unfold anc. destruct (ancf (length h) h t) as [l|] eqn:E; [|discriminate].
  intro H. inversion H; subst. eapply ancf_length; exact E.
Qed.

(* Task.all_parents with the fuel of the other walks, and with one more unit *)
Corollary src_all_parents_ok_S : forall h t a, hid_tid h -> anc h t = Ok a ->
  src_all_parents (S (length h)) h t = Ok (upto_hidden h a).
Proof. intros h t a Hh Ha. apply src_all_parents_ok; [exact Hh | exact Ha | apply anc_Ok_length in Ha; lia]. Qed.

Corollary src_all_parents_ok_SS : forall h t a, hid_tid h -> anc h t = Ok a ->
  src_all_parents (S (S (length h))) h t = Ok (upto_hidden h a).
Proof. intros h t a Hh Ha. apply src_all_parents_ok; [exact Hh | exact Ha | apply anc_Ok_length in Ha; lia]. Qed.

(* the intended equation holds on every heap without a parent cycle ... *)
Theorem src_all_parents_eq : forall h t, hid_tid h -> acyclic h ->
  src_all_parents (S (S (length h))) h t
  = match anc h t with Ok a => Ok (upto_hidden h a) | Err => Err | Crash k => Crash k end.
Proof.
  intros h t Hh Hacy. destruct (anc_ok h t Hacy) as [a [Ha _]]. rewrite Ha.
  apply src_all_parents_ok_SS; assumption.
Qed.

(* ... and not on every heap: on a parent cycle through a hidden task the code stops at the hidden task and
   answers, the raw walk of the model runs out of fuel *)
Example src_all_parents_eq_needs_acyclic :
  let h := [mkT SrcGraph.EMPTY_ID (Some 0) [0] [] [] None true None [] None] in
  hid_tid h /\ src_all_parents (S (S (length h))) h 0 = Ok [] /\ anc h 0 = Crash RecursionError.
Proof.
  cbv zeta. split; [|split; reflexivity].
  intros [|[|q]]; reflexivity.
Qed.

(* ================================================================== *)
(** * Task.__check_no_links_with *)

(* a loop whose body only raises or passes *)
Lemma fold_guard {A} (F : unit -> A -> res unit) (P : A -> bool) :
  (forall u x, F u x = if P x then Err else Ok tt) ->
  forall l u, src_fold_res F l u = if existsb P l then Err else Ok tt.
Proof.
  intros HF l. induction l as [|x l IH]; intros []; cbn [src_fold_res existsb]; [reflexivity|].
  rewrite HF. destruct (P x); cbn [bind orb]; [reflexivity|]. apply IH.
Qed.

Lemma bind_guard (b : bool) : (do _ <- (if b then Err else Ok tt); Ok tt) = (if b then @Err unit else Ok tt).
Proof. destruct b; reflexivity. Qed.

(* a hidden task of a well-formed state is the root of a WBS: no parent, no links *)
Lemma hidden_facts s q : I_hid s -> hidden (get (hp s) q) = true ->
  par (get (hp s) q) = None /\ preds (get (hp s) q) = [] /\ succs (get (hp s) q) = [].
Proof.
  intros (_ & B & C) Hq.
  destruct (Nat.lt_ge_cases q (length (hp s))) as [L|L].
  - apply (B q L) in Hq. destruct (In_nth _ _ 0 Hq) as [w [Lw Ew]].
    pose proof (C w Lw) as D. cbv zeta in D. unfold obj in *. rewrite Ew in D. tauto.
  - rewrite (get_out _ _ L) in Hq. discriminate.
Qed.

(* below a hidden task the raw chain is over, so masking loses only hidden tasks *)
Lemma upto_hidden_keeps h x a :
  (forall q, hidden (get h q) = true -> par (get h q) = None) ->
  Chain h x a -> forall l, In l a -> hidden (get h l) = false -> In l (upto_hidden h a).
Proof.
  intros Hroot Hc. induction Hc as [x Hp | x p r Hp Hc IH]; intros l Hl Hf; [destruct Hl|].
  cbn [upto_hidden]. destruct (hidden (get h p)) eqn:Ep.
  - pose proof (Hroot p Ep) as Hn. inversion Hc; subst; [|congruence].
    destruct Hl as [<-|[]]. congruence.
  - destruct Hl as [<-|Hl]; [left; reflexivity | right; apply IH; assumption].
Qed.

(* nobody is linked with a hidden task *)
Lemma link_not_hidden s x l : I_sym s -> I_hid s ->
  In l (preds (get (hp s) x) ++ succs (get (hp s) x)) -> hidden (get (hp s) l) = false.
Proof.
  intros [Sy _] Hid Hl. destruct (hidden (get (hp s) l)) eqn:E; [|reflexivity]. exfalso.
  destruct (hidden_facts s l Hid E) as (_ & Ep & Es).
  apply in_app_or in Hl as [Hl|Hl].
  - apply Sy in Hl. rewrite Es in Hl. exact Hl.
  - apply Sy in Hl. rewrite Ep in Hl. exact Hl.
Qed.

(* [s] well formed: the code's verdict (walk down from [t], parents of [p] with the WBS root masked) is the
   model's (walk up from every object, raw parents of [p]) *)
Theorem src_check_no_links_with_fuel : forall s t p a F, WF s -> hid_tid (hp s) -> anc (hp s) p = Ok a ->
  length (hp s) < F ->
  src_check_no_links_with F (hp s) t p
  = if links_bad (hp s) t (p :: a) then Err else Ok tt.
Proof.
  intros s t p a F (Fin & Pc & Acy & Sym & _ & _ & _ & Hid & _) Hh Ha HF.
  set (h := hp s) in *.
  assert (Hacy : acyclic h) by exact Acy.
  pose proof (I_pc_pc_down s Pc) as Hd. pose proof (I_pc_pc_up s Pc) as Hu. fold h in Hd, Hu.
  unfold src_check_no_links_with.
  rewrite (src_all_parents_ok h p a F Hh Ha) by (apply anc_Ok_length in Ha; lia). cbn [bind].
  destruct F as [|f]; [lia|].
  unfold src_all_children. rewrite bind_ret, src_get_children_eq.
  rewrite (pref_mono _ f _ _ _ (pref_length_desc h t Hd Hacy)) by lia. cbn [lift_walk bind].
  rewrite map_id.
  set (ups := nodup Nat.eq_dec ([p] ++ upto_hidden h a)).
  rewrite (fold_guard _ (fun t5 => existsb (fun l => existsb (Nat.eqb l) ups) (preds (get h t5) ++ succs (get h t5)))).
  2:{ intros u x. rewrite (fold_guard _ (fun l => existsb (Nat.eqb l) ups)) by (intros; reflexivity).
      apply bind_guard. }
  rewrite bind_guard.
  match goal with |- (if ?b1 then _ else _) = (if ?b2 then _ else _) => assert (E : b1 = b2); [|rewrite E; reflexivity] end.
  apply eq_true_iff_eq. rewrite (links_bad_spec h t (p :: a) Hacy). rewrite existsb_exists.
  assert (Hups : forall l, In l ups <-> l = p \/ In l (upto_hidden h a)).
  { intro l. unfold ups. rewrite nodup_In. cbn [app In]. split; intros [H|H]; auto. }
  split.
  - intros [x [Hx Hl]]. apply existsb_exists in Hl as [l [Hl Hm]].
    change (memn l ups = true) in Hm. apply memn_In, Hups in Hm.
    exists x, l. split; [|split; [|split]].
    + destruct Hx as [<-|Hx]; [|eapply desc_lt; eauto].
      destruct (Nat.lt_ge_cases t (length h)) as [L|L]; [exact L|]. exfalso.
      rewrite (get_out_preds _ _ L), (get_out_succs _ _ L) in Hl. exact Hl.
    + destruct Hx as [<-|Hx]; [apply Sub_refl | right; apply (In_desc h t x Hd Hu Hacy); exact Hx].
    + exact Hl.
    + destruct Hm as [->|Hm]; [left; reflexivity | right; eapply upto_hidden_incl; exact Hm].
  - intros [x [l [Lx [Sx [Hl Hu']]]]]. exists x. split.
    + cbn [app]. destruct Sx as [->|Ax]; [left; reflexivity | right; apply (In_desc h t x Hd Hu Hacy); exact Ax].
    + apply existsb_exists. exists l. split; [exact Hl|].
      change (memn l ups = true). apply memn_In, Hups.
      destruct Hu' as [<-|Hu']; [left; reflexivity | right].
      apply (upto_hidden_keeps h p a); [| apply anc_Ok_Chain; exact Ha | exact Hu' |].
      * intros q Hq. apply (hidden_facts s q Hid Hq).
      * eapply link_not_hidden; eauto.
Qed.

(* with the fuel asked for, and with the fuel of the other walks *)
Corollary src_check_no_links_with_eq : forall s t p a, WF s -> hid_tid (hp s) -> anc (hp s) p = Ok a ->
  src_check_no_links_with (S (S (length (hp s)))) (hp s) t p
  = if links_bad (hp s) t (p :: a) then Err else Ok tt.
Proof. intros. apply src_check_no_links_with_fuel; auto. Qed.

Corollary src_check_no_links_with_eq_S : forall s t p a, WF s -> hid_tid (hp s) -> anc (hp s) p = Ok a ->
  src_check_no_links_with (S (length (hp s))) (hp s) t p
  = if links_bad (hp s) t (p :: a) then Err else Ok tt.
Proof. intros. apply src_check_no_links_with_fuel; auto. Qed.

(* ================================================================== *)
(** * _has_id_intersection *)

(* what the code answers once the incoming tasks [nt] are collected ([r2]: the tasks of the parent's tree) *)
Definition id_verdict (h : heap) (r2 nt : list obj) : res bool :=
  if (Z.of_nat (length nt) =? 0)%Z then Ok false else
  let ptids := nodup Z.eq_dec (map (fun t => tid (get h t)) r2) in
  let ntids := nodup Z.eq_dec (map (fun t => tid (get h t)) nt) in
  if (Z.of_nat (length ntids) <? Z.of_nat (length nt))%Z then Ok true
  else if (Z.of_nat (length (filter (fun x_ => existsb (Z.eqb x_) ntids) ptids)) >? 0)%Z then Ok true else Ok false.

(* the inner loop keeps the first occurrence of every candidate that is not in the parent's tree; the two
   accumulators (the identities, the tasks) hold the same list *)
Lemma id_loop1_spec F h p chs r r2 act tree : forall l nt, NoDup nt ->
  exists nt', NoDup nt' /\ (forall x, In x nt' <-> In x nt \/ (In x l /\ ~ In x tree)) /\
    src_has_id_intersection_loop1 F h p chs r r2 act tree l nt nt = id_verdict h r2 nt'.
Proof.
  induction l as [|t l IH]; intros nt Hnd.
  - exists nt. split; [exact Hnd|]. split; [intro x; cbn [In]; tauto | reflexivity].
  - cbn [src_has_id_intersection_loop1]. fold (memn t tree). fold (memn t nt).
    destruct (memn t tree) eqn:Et.
    + apply memn_In in Et. destruct (IH nt Hnd) as [nt' [H1 [H2 H3]]]. exists nt'.
      split; [exact H1|]. split; [|exact H3].
      intro x. rewrite H2. cbn [In]. split; [tauto|].
      intros [H|[[E|H] Hn]]; [tauto | subst x; contradiction | tauto].
    + apply memn_false in Et. destruct (memn t nt) eqn:En.
      * apply memn_In in En. destruct (IH nt Hnd) as [nt' [H1 [H2 H3]]]. exists nt'.
        split; [exact H1|]. split; [|exact H3].
        intro x. rewrite H2. cbn [In]. split; [tauto|].
        intros [H|[[E|H] Hn]]; [tauto | subst x; tauto | tauto].
      * apply memn_false in En.
        assert (Hnd' : NoDup (nt ++ [t])).
        { apply NoDup_app_intro; [exact Hnd | constructor; [easy | constructor] |].
          intros x Hx [<-|[]]. exact (En Hx). }
        destruct (IH (nt ++ [t]) Hnd') as [nt' [H1 [H2 H3]]]. exists nt'.
        split; [exact H1|]. split; [|exact H3].
        intro x. rewrite H2, in_app_iff. cbn [In]. split.
        -- intros [[H|[E|[]]]|H]; [tauto | subst x; tauto | tauto].
        -- intros [H|[[E|H] Hn]]; tauto.
Qed.

Lemma id_verdict_spec h r2 nt : NoDup nt ->
  exists b, id_verdict h r2 nt = Ok b /\
    (b = false <->
       (forall x y, In x nt -> In y nt -> tid (get h x) = tid (get h y) -> x = y) /\
       (forall x y, In x nt -> In y r2 -> tid (get h x) <> tid (get h y))).
Proof.
  intro Hnd. unfold id_verdict.
  destruct (Z.eqb_spec (Z.of_nat (length nt)) 0) as [E0|E0].
  { exists false. split; [reflexivity|]. split; [|reflexivity]. intros _.
    assert (nt = []) by (destruct nt; [reflexivity | cbn [length] in E0; lia]). subst nt.
    split; intros x y []. }
  cbv zeta.
  set (f := fun t => tid (get h t)).
  pose proof (NoDup_map_iff f nt Hnd) as Hinj.
  destruct (Z.ltb_spec (Z.of_nat (length (nodup Z.eq_dec (map f nt)))) (Z.of_nat (length nt))) as [Hlt|Hge].
  - exists true. split; [reflexivity|]. split; [discriminate|]. intros [H1 _]. exfalso.
    apply Hinj in H1. rewrite (nodup_fixed_point Z.eq_dec H1), map_length in Hlt. lia.
  - assert (Hm : NoDup (map f nt)).
    { apply NoDup_incl_NoDup with (l := nodup Z.eq_dec (map f nt)).
      - apply NoDup_nodup.
      - rewrite map_length. lia.
      - intros i Hi. apply nodup_In in Hi. exact Hi. }
    pose proof (proj1 Hinj Hm) as H1.
    destruct (filter (fun x_ => existsb (Z.eqb x_) (nodup Z.eq_dec (map f nt))) (nodup Z.eq_dec (map f r2)))
      as [|i fl] eqn:Ef.
    + exists false. split; [reflexivity|]. split; [|reflexivity]. intros _. split; [exact H1|].
      intros x y Hx Hy E.
      assert (Hin : In (f y) (filter (fun x_ => existsb (Z.eqb x_) (nodup Z.eq_dec (map f nt))) (nodup Z.eq_dec (map f r2)))).
      { apply filter_In. split; [apply nodup_In, in_map; exact Hy|].
        change (memz (f y) (nodup Z.eq_dec (map f nt)) = true). apply memz_In, nodup_In.
        unfold f at 1. rewrite <- E. apply (in_map f). exact Hx. }
      rewrite Ef in Hin. exact Hin.
    + exists true. split.
      { cbn [length]. destruct (Z.gtb_spec (Z.of_nat (S (length fl))) 0); [reflexivity | lia]. }
      split; [discriminate|]. intros [_ H2]. exfalso.
      assert (Hin : In i (filter (fun x_ => existsb (Z.eqb x_) (nodup Z.eq_dec (map f nt))) (nodup Z.eq_dec (map f r2))))
        by (rewrite Ef; left; reflexivity).
      apply filter_In in Hin as [Hi1 Hi2].
      change (memz i (nodup Z.eq_dec (map f nt)) = true) in Hi2. apply memz_In, nodup_In in Hi2.
      apply nodup_In in Hi1.
      apply in_map_iff in Hi1 as [y [Ey Hy]]. apply in_map_iff in Hi2 as [x [Ex Hx]].
      apply (H2 x y Hx Hy). unfold f in Ex, Ey. congruence.
Qed.

(* the outer loop concatenates the subtrees of the new children *)
Lemma id_loop2_eq h f p chs r r2 : pc_down h -> acyclic h -> length h <= f -> forall l acc,
  src_has_id_intersection_loop2 (S f) h p chs r r2 l acc
  = src_has_id_intersection_loop1 (S f) h p chs r r2 (acc ++ flat_map (fun c => c :: desc h c) l)
      (nodup Nat.eq_dec (map (fun t => t) r2)) (acc ++ flat_map (fun c => c :: desc h c) l) [] [].
Proof.
  intros Hd Hacy Hf. induction l as [|c l IH]; intro acc.
  - cbn [src_has_id_intersection_loop2 flat_map]. rewrite app_nil_r. reflexivity.
  - cbn [src_has_id_intersection_loop2 flat_map].
    rewrite src_collect_subtree_eq, (pref_mono _ f _ _ _ (pref_length_desc h c Hd Hacy) Hf). cbn [bind].
    rewrite IH, <- app_assoc. reflexivity.
Qed.

(* [s] well formed, [p] and the new children are objects of the heap (a Python call cannot name anything else;
   outside the heap the code would see a pristine task of id 0, the model's object enumeration sees nothing) *)
Theorem src_has_id_intersection_fuel : forall s p chs F, WF s ->
  p < length (hp s) -> (forall c, In c chs -> c < length (hp s)) -> length (hp s) < F ->
  src_has_id_intersection F (hp s) p chs = id_clash (hp s) p chs.
Proof.
  intros s p chs F (Fin & Pc & Acy & _) Lp Lchs HF.
  destruct F as [|f]; [lia|]. assert (Hfl : length (hp s) <= f) by lia. clear HF.
  set (h := hp s) in *.
  assert (Hacy : acyclic h) by exact Acy.
  pose proof (I_pc_pc_down s Pc) as Hd. pose proof (I_pc_pc_up s Pc) as Hu. fold h in Hd, Hu.
  pose proof (I_fin_par_fin s Fin) as Hpf. fold h in Hpf.
  destruct (id_clash_spec h p chs Hacy) as [r [b [Er [Rr [Eb Hb]]]]]. rewrite Eb.
  unfold src_has_id_intersection. rewrite src_find_root_eq, Er. cbn [bind].
  rewrite src_collect_subtree_eq, (pref_mono _ f _ _ _ (pref_length_desc h r Hd Hacy) Hfl). cbn [bind].
  rewrite (id_loop2_eq h f p chs r (r :: desc h r) Hd Hacy Hfl). cbn [app].
  set (r2 := r :: desc h r).
  set (tree := nodup Nat.eq_dec (map (fun t => t) r2)).
  set (cand := flat_map (fun c => c :: desc h c) chs).
  destruct (id_loop1_spec (S f) h p chs r r2 cand tree cand [] (NoDup_nil _)) as [nt [Hnd [Hin E]]].
  rewrite E. destruct (id_verdict_spec h r2 nt Hnd) as [b' [E' Hb']]. rewrite E'. f_equal.
  assert (Rn : par (get h r) = None) by apply Rr.
  assert (Lr : r < length h) by (eapply Root_root_lt; eauto).
  assert (HT : forall x, In x r2 <-> InTree h r x).
  { intro x. unfold r2, InTree, Root. split.
    - intros [<-|Hx]; [auto|]. apply (In_desc h r x Hd Hu Hacy) in Hx.
      split; [eapply Anc_lt_l; exact Hx | auto].
    - intros [_ [[->|A] _]]; [left; reflexivity | right; apply (In_desc h r x Hd Hu Hacy); exact A]. }
  assert (Htree : forall x, In x tree <-> InTree h r x).
  { intro x. unfold tree. rewrite nodup_In, map_id. apply HT. }
  assert (Hnt : forall x, In x nt <-> Incoming h r chs x).
  { intro x. rewrite Hin. unfold Incoming. split.
    - intros [[]|[Hf Hn]]. apply in_flat_map in Hf as [c [Hc Hx]].
      assert (Lx : x < length h).
      { destruct Hx as [<-|Hx]; [apply Lchs; exact Hc | eapply desc_lt; eauto]. }
      split; [exact Lx|]. split.
      + exists c. split; [exact Hc|].
        destruct Hx as [<-|Hx]; [apply Sub_refl | right; apply desc_In_Anc; auto].
      + intro HR. apply Hn, Htree. split; assumption.
    - intros [L [[c [Hc Sx]] HR]]. right. split.
      + apply in_flat_map. exists c. split; [exact Hc|].
        destruct Sx as [->|A]; [left; reflexivity | right; apply (In_desc h c x Hd Hu Hacy); exact A].
      + intro Ht. apply Htree in Ht. apply HR, Ht. }
  assert (Hiff : b' = false <-> b = false).
  { rewrite Hb, Hb'. split; intros [H1 H2]; split.
    - intros x y Hx Hy. apply H1; apply Hnt; assumption.
    - intros x y Hx Hy. apply H2; [apply Hnt | apply HT]; assumption.
    - intros x y Hx Hy. apply H1; apply Hnt; assumption.
    - intros x y Hx Hy. apply H2; [apply Hnt | apply HT]; assumption. }
  destruct b, b'; try reflexivity; exfalso.
  - destruct Hiff as [H _]. specialize (H eq_refl). discriminate.
  - destruct Hiff as [_ H]. specialize (H eq_refl). discriminate.
Qed.

Corollary src_has_id_intersection_eq : forall s p chs, WF s ->
  p < length (hp s) -> (forall c, In c chs -> c < length (hp s)) ->
  src_has_id_intersection (S (length (hp s))) (hp s) p chs = id_clash (hp s) p chs.
Proof. intros. apply src_has_id_intersection_fuel; auto. Qed.

(* the two extra hypotheses are needed: an object outside the heap reads as a pristine task of id 0 in the code
   and is not enumerated by the model *)
Example src_has_id_intersection_needs_in_heap :
  WF init /\ src_has_id_intersection (S (length (hp init))) (hp init) 0 [1] = Ok true /\ id_clash (hp init) 0 [1] = Ok false.
Proof. split; [exact WF_init | split; reflexivity]. Qed.

Example src_has_id_intersection_needs_children_in_heap :
  let s := mkS [mkT 0 None [] [] [] None false None [] None] [] in
  WF s /\ src_has_id_intersection (S (length (hp s))) (hp s) 0 [1] = Ok true /\ id_clash (hp s) 0 [1] = Ok false.
Proof. cbv zeta. split; [apply wf_b_WF; reflexivity | split; reflexivity]. Qed.

(* ================================================================== *)
(** * the hypotheses are satisfiable by a non-trivial state: a WBS (hidden root 0, tasks 1 2 3 on two levels, a
    link 3 -> 2), a detached tree 4 - 5 linked with the free task 6, a detached tree 7 - 8; both verdicts occur *)
Definition demo2 : state := mkS
 [ mkT SrcGraph.EMPTY_ID None [1;2] [] [] (Some 0) true None [] None;
   mkT 1 (Some 0) [3] [] [] (Some 0) false None [] None;
   mkT 2 (Some 0) [] [3] [] (Some 0) false None [] None;
   mkT 3 (Some 1) [] [] [2] (Some 0) false None [] None;
   mkT 1 None [5] [] [] None false None [] None;
   mkT 5 (Some 4) [] [6] [] None false None [] None;
   mkT 7 None [] [] [5] None false None [] None;
   mkT 3 None [8] [] [] None false None [] None;
   mkT 8 (Some 7) [] [] [] None false None [] None ] [0].

Example demo2_hyps : WF demo2 /\ hid_tid (hp demo2).
Proof.
  split; [apply wf_b_WF; vm_compute; reflexivity|].
  intro q. do 9 (destruct q as [|q]; [reflexivity|]). destruct q; reflexivity.
Qed.

Example demo2_values :
  src_all_parents (S (S (length (hp demo2)))) (hp demo2) 3 = Ok [1] /\ anc (hp demo2) 3 = Ok [1; 0] /\
  src_check_no_links_with (S (S (length (hp demo2)))) (hp demo2) 1 2 = Err /\
  src_check_no_links_with (S (S (length (hp demo2)))) (hp demo2) 1 4 = Ok tt /\
  src_has_id_intersection (S (length (hp demo2))) (hp demo2) 1 [4] = Ok true /\
  src_has_id_intersection (S (length (hp demo2))) (hp demo2) 1 [6] = Ok false.
Proof. vm_compute. repeat split; reflexivity. Qed.

Print Assumptions src_parent_eq.
Print Assumptions src_all_parents_ok.
Print Assumptions src_all_parents_ok_S.
Print Assumptions src_all_parents_ok_SS.
Print Assumptions src_all_parents_eq.
Print Assumptions src_check_no_links_with_fuel.
Print Assumptions src_check_no_links_with_eq.
Print Assumptions src_check_no_links_with_eq_S.
Print Assumptions src_has_id_intersection_fuel.
Print Assumptions src_has_id_intersection_eq.
