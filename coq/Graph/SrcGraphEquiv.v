(* Source-text tie for the read-only walks of the task graph: the functions of gen/SrcGraph.v (generated from the
   text of src/pjplan/task.py on every run) are equal to the walks of the hand-written model Graph/Model.v. *)
From PJ Require Import Base.Prelude Graph.Model gen.SrcGraph.
Require Import Lia.

Definition lift_walk (o : option (list obj)) : res (list obj) :=
  match o with Some l => Ok l | None => Crash RecursionError end.

(* ---- _find_root ---- *)
Lemma last_cons_default (l : list obj) (p x : obj) : last (p :: l) x = last l p.
Proof.
  destruct l as [|a l]; [reflexivity|].
  change (last (p :: a :: l) x) with (last (a :: l) x).
  revert a. induction l as [|b l IH]; intro a; [reflexivity|].
  change (last (a :: b :: l) x) with (last (b :: l) x).
  change (last (a :: b :: l) p) with (last (b :: l) p).
  apply IH.
Qed.

Lemma src_find_root_loop_eq (h : heap) (task : obj) (n : nat) : forall x,
  src_find_root_loop1 h task (S n) x
  = match ancf n h x with Some l => Ok (last l x) | None => Crash OutOfFuel end.
Proof.
  induction n as [|n IH]; intro x.
  - cbn [src_find_root_loop1 ancf]. destruct (par (get h x)) as [p|]; reflexivity.
  - remember (S n) as m eqn:Em. cbn [src_find_root_loop1]. subst m. cbn [ancf].
    destruct (par (get h x)) as [p|]; [|reflexivity].
    rewrite IH. destruct (ancf n h p) as [l|]; [|reflexivity].
    rewrite last_cons_default. reflexivity.
Qed.

Theorem src_find_root_eq : forall h t,
  src_find_root h t = match rootof h t with Some r => Ok r | None => Crash OutOfFuel end.
Proof.
  intros h t. unfold src_find_root, rootof. rewrite src_find_root_loop_eq.
  destruct (ancf (length h) h t); reflexivity.
Qed.

(* ---- the shape shared by the three generators and _collect_subtree ---- *)
Definition walk_step (g : obj -> option (list obj)) (c : obj) (acc : option (list obj)) : option (list obj) :=
  match g c, acc with
  | Some l, Some a => Some (c :: l ++ a)
  | _, _ => None
  end.

(* a generator: yields the neighbour, then what the recursive call yields *)
Lemma fold_yield_eq (F : list obj -> obj -> res (list obj)) (f : obj -> res (list obj))
      (g : obj -> option (list obj)) :
  (forall acc c, F acc c = do r <- f c; Ok ((acc ++ [c]) ++ r)) ->
  (forall c, f c = lift_walk (g c)) ->
  forall cs acc0,
  src_fold_res F cs acc0
  = match fold_right (walk_step g) (Some []) cs with
    | Some l => Ok (acc0 ++ l)
    | None => Crash RecursionError
    end.
Proof.
  intros HF Hf cs. induction cs as [|c cs IH]; intro acc0.
  - cbn [src_fold_res fold_right]. rewrite app_nil_r. reflexivity.
  - cbn [src_fold_res fold_right]. rewrite HF, Hf. unfold walk_step at 1.
    destruct (g c) as [l|]; cbn [lift_walk bind].
    + rewrite IH. destruct (fold_right (walk_step g) (Some []) cs) as [a|]; [|reflexivity].
      f_equal. rewrite <- !app_assoc. reflexivity.
    + reflexivity.
Qed.

(* _collect_subtree: the recursive call already starts with the child *)
Lemma fold_collect_eq (F : list obj -> obj -> res (list obj)) (f : obj -> res (list obj))
      (g : obj -> option (list obj)) :
  (forall acc c, F acc c = do r <- f c; Ok (acc ++ r)) ->
  (forall c, f c = match g c with Some l => Ok (c :: l) | None => Crash RecursionError end) ->
  forall cs acc0,
  src_fold_res F cs acc0
  = match fold_right (walk_step g) (Some []) cs with
    | Some l => Ok (acc0 ++ l)
    | None => Crash RecursionError
    end.
Proof.
  intros HF Hf cs. induction cs as [|c cs IH]; intro acc0.
  - cbn [src_fold_res fold_right]. rewrite app_nil_r. reflexivity.
  - cbn [src_fold_res fold_right]. rewrite HF, Hf. unfold walk_step at 1.
    destruct (g c) as [l|]; cbn [bind].
    + rewrite IH. destruct (fold_right (walk_step g) (Some []) cs) as [a|]; [|reflexivity].
      f_equal. rewrite <- !app_assoc. reflexivity.
    + reflexivity.
Qed.

Lemma bind_ret {A} (r : res A) : (do x <- r; Ok x) = r.
Proof. destruct r; reflexivity. Qed.

Lemma fold_fuel0 (F : list obj -> obj -> res (list obj)) :
  (forall acc c, F acc c = Crash RecursionError) ->
  forall cs acc0,
  src_fold_res F cs acc0 = match cs with [] => Ok acc0 | _ => Crash RecursionError end.
Proof.
  intros HF [|c cs] acc0; cbn [src_fold_res]; [reflexivity|]. rewrite HF. reflexivity.
Qed.

(* ---- Task.__get_all_children ---- *)
Theorem src_get_children_eq : forall n h t, src_get_children (S n) h t = lift_walk (pref n h t).
Proof.
  induction n as [|n IH]; intros h t.
  - cbn [src_get_children pref]. rewrite bind_ret.
    rewrite fold_fuel0 by (intros; reflexivity).
    destruct (kids (get h t)); reflexivity.
  - remember (S n) as m eqn:Em. cbn [src_get_children]. subst m. rewrite bind_ret.
    rewrite (fold_yield_eq _ (src_get_children (S n) h) (pref n h)).
    + cbn [pref]. fold (walk_step (pref n h)).
      destruct (fold_right (walk_step (pref n h)) (Some []) (kids (get h t))); reflexivity.
    + intros acc c. reflexivity.
    + intro c. apply IH.
Qed.

Theorem src_all_children_eq : forall h t, src_all_children (S (length h)) h t = all_children h t.
Proof.
  intros h t. unfold src_all_children, all_children. rewrite bind_ret, src_get_children_eq.
  reflexivity.
Qed.

Theorem src_collect_subtree_eq : forall n h t,
  src_collect_subtree (S n) h t = match pref n h t with Some l => Ok (t :: l) | None => Crash RecursionError end.
Proof.
  induction n as [|n IH]; intros h t.
  - cbn [src_collect_subtree pref]. rewrite bind_ret.
    rewrite fold_fuel0 by (intros; reflexivity).
    destruct (kids (get h t)); reflexivity.
  - remember (S n) as m eqn:Em. cbn [src_collect_subtree]. subst m. rewrite bind_ret.
    rewrite (fold_collect_eq _ (src_collect_subtree (S n) h) (pref n h)).
    + cbn [pref]. fold (walk_step (pref n h)).
      destruct (fold_right (walk_step (pref n h)) (Some []) (kids (get h t))); reflexivity.
    + intros acc c. reflexivity.
    + intro c. apply IH.
Qed.

(* ---- _unique_tasks ---- *)
Lemma memn_app (y : nat) (m : list nat) (x : nat) : memn y (m ++ [x]) = memn y m || Nat.eqb y x.
Proof. unfold memn. rewrite existsb_app. cbn [existsb]. rewrite orb_false_r. reflexivity. Qed.

Lemma filter_ext_all {A} (p q : A -> bool) (l : list A) :
  (forall x, p x = q x) -> filter p l = filter q l.
Proof. intro H. induction l as [|a l IH]; cbn [filter]; [reflexivity|]. rewrite H, IH. reflexivity. Qed.

Lemma filter_filter {A} (p q : A -> bool) (l : list A) :
  filter p (filter q l) = filter (fun x => q x && p x) l.
Proof.
  induction l as [|a l IH]; cbn [filter]; [reflexivity|].
  destruct (q a); cbn [filter andb]; rewrite IH; reflexivity.
Qed.

Lemma src_unique_loop_eq (tasks : list obj) : forall l m,
  src_unique_tasks_loop1 tasks l m m = Ok (m ++ filter (fun x => negb (memn x m)) (dedup l)).
Proof.
  induction l as [|x l IH]; intro m.
  - cbn [src_unique_tasks_loop1 dedup filter]. rewrite app_nil_r. reflexivity.
  - cbn [src_unique_tasks_loop1 dedup filter]. fold (memn x m).
    destruct (memn x m) eqn:Hx; cbn [negb].
    + rewrite IH. f_equal. f_equal. unfold without. rewrite filter_filter.
      apply filter_ext_all. intro y.
      destruct (Nat.eqb_spec x y) as [->|_]; cbn [negb andb]; [|reflexivity].
      rewrite Hx. reflexivity.
    + rewrite IH. rewrite <- app_assoc. cbn [app]. f_equal. f_equal. f_equal.
      unfold without. rewrite filter_filter. apply filter_ext_all. intro y.
      rewrite memn_app, negb_orb, (Nat.eqb_sym y x). apply andb_comm.
Qed.

Theorem src_unique_tasks_eq : forall l, src_unique_tasks l = Ok (dedup l).
Proof.
  intro l. unfold src_unique_tasks. rewrite src_unique_loop_eq. cbn [app].
  f_equal. induction (dedup l) as [|a d IH]; cbn [filter memn existsb negb]; [reflexivity|].
  f_equal. exact IH.
Qed.

(* ---- Task.__get_all_predecessors / __get_all_successors ---- *)
Theorem src_get_predecessor_eq : forall n h t,
  src_get_predecessor (S n) h t = lift_walk (closf (fun y => preds (get h y)) n t).
Proof.
  induction n as [|n IH]; intros h t.
  - cbn [src_get_predecessor closf]. rewrite bind_ret.
    rewrite fold_fuel0 by (intros; reflexivity).
    destruct (preds (get h t)); reflexivity.
  - remember (S n) as m eqn:Em. cbn [src_get_predecessor]. subst m. rewrite bind_ret.
    rewrite (fold_yield_eq _ (src_get_predecessor (S n) h) (closf (fun y => preds (get h y)) n)).
    + cbn [closf]. fold (walk_step (closf (fun y => preds (get h y)) n)).
      destruct (fold_right (walk_step (closf (fun y => preds (get h y)) n)) (Some []) (preds (get h t)));
        reflexivity.
    + intros acc c. reflexivity.
    + intro c. apply IH.
Qed.

Theorem src_get_successor_eq : forall n h t,
  src_get_successor (S n) h t = lift_walk (closf (fun y => succs (get h y)) n t).
Proof.
  induction n as [|n IH]; intros h t.
  - cbn [src_get_successor closf]. rewrite bind_ret.
    rewrite fold_fuel0 by (intros; reflexivity).
    destruct (succs (get h t)); reflexivity.
  - remember (S n) as m eqn:Em. cbn [src_get_successor]. subst m. rewrite bind_ret.
    rewrite (fold_yield_eq _ (src_get_successor (S n) h) (closf (fun y => succs (get h y)) n)).
    + cbn [closf]. fold (walk_step (closf (fun y => succs (get h y)) n)).
      destruct (fold_right (walk_step (closf (fun y => succs (get h y)) n)) (Some []) (succs (get h t)));
        reflexivity.
    + intros acc c. reflexivity.
    + intro c. apply IH.
Qed.

Theorem src_all_predecessors_eq : forall h t,
  src_all_predecessors (S (length h)) h t
  = match all_preds h t with Ok l => Ok (dedup l) | Err => Err | Crash k => Crash k end.
Proof.
  intros h t. unfold src_all_predecessors, all_preds. rewrite src_get_predecessor_eq.
  destruct (closf (fun y => preds (get h y)) (length h) t) as [l|]; cbn [lift_walk bind]; [|reflexivity].
  rewrite src_unique_tasks_eq. reflexivity.
Qed.

Theorem src_all_successors_eq : forall h t,
  src_all_successors (S (length h)) h t
  = match all_succs h t with Ok l => Ok (dedup l) | Err => Err | Crash k => Crash k end.
Proof.
  intros h t. unfold src_all_successors, all_succs. rewrite src_get_successor_eq.
  destruct (closf (fun y => succs (get h y)) (length h) t) as [l|]; cbn [lift_walk bind]; [|reflexivity].
  rewrite src_unique_tasks_eq. reflexivity.
Qed.

Print Assumptions src_find_root_eq.
Print Assumptions src_get_children_eq.
Print Assumptions src_all_children_eq.
Print Assumptions src_collect_subtree_eq.
Print Assumptions src_unique_tasks_eq.
Print Assumptions src_get_predecessor_eq.
Print Assumptions src_get_successor_eq.
Print Assumptions src_all_predecessors_eq.
Print Assumptions src_all_successors_eq.
